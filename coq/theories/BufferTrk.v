(* BufferTrk.v — the input tracker [Case_Buffer.trk] (a function of the script alone) agrees with the
   model state at every quiescent point of every run: clock, dead flag, producer / wait ids used,
   which scripted producers are still open (and which of them are awaitables), and the list of
   (producer, argument) pairs handed to the buffer.  This is what ties the monitors' view of the
   input to the model for ALL event lists. *)
From Coq Require Import List Arith NArith Bool Lia ZifyBool ZifyNat ZifyN Permutation.
Import ListNotations.
Require Import Aiuti.CaseLib Aiuti.Buffer Aiuti.Case_Buffer Aiuti.BufferCore Aiuti.BufferFlag Aiuti.BufferInv
               Aiuti.BufferJoin Aiuti.BufferOnce Aiuti.BufferWait Aiuti.BufferMon8B.

Definition has_sopen (n : nat) (ps : list prod) : bool :=
  existsb (fun p => (pid p =? n) && accepts p && single p) ps.

Definition OpenOK (O O1 : nat -> bool) (ps : list prod) : Prop :=
  forall n, has_open n ps = O n /\ has_sopen n ps = O1 n.

Lemma existsb_perm {A} (f : A -> bool) l l' : Permutation l l' -> existsb f l = existsb f l'.
Proof. induction 1; cbn; try congruence. destruct (f x), (f y); reflexivity. Qed.

Lemma allAY_not_fin a : forallb is_AY a = true -> finishes false a = false.
Proof. induction a as [|x r IH]; cbn; [reflexivity|]. destruct x; try discriminate. exact IH. Qed.

Lemma fin_not_accepting p : wf_prod p -> p_fin p = true -> accepts p = false.
Proof.
  intros [_ Ho] Hf. unfold accepts. destruct (closed p) eqn:Ec; [reflexivity|]. exfalso.
  destruct (Ho eq_refl) as [HA Hs]. unfold p_fin in Hf. destruct (single p) eqn:Es.
  - rewrite (Hs eq_refl) in Hf. discriminate.
  - rewrite (allAY_not_fin _ HA) in Hf. discriminate.
Qed.

Lemma load_all_open ps : forall rem ys fs,
  load_all ps = (rem, ys, fs) -> (forall p, In p ps -> wf_prod p) ->
  forall n, has_open n rem = has_open n ps /\ has_sopen n rem = has_sopen n ps.
Proof.
  induction ps as [|p r IH]; intros rem ys fs E Hw n; cbn [load_all] in E.
  - inversion E; subst. auto.
  - destruct (load_all r) as [[rem0 ys0] fs0] eqn:Er.
    destruct (IH _ _ _ eq_refl (fun p0 H => Hw p0 (or_intror H)) n) as [A B].
    destruct (p_fin p) eqn:Ef; inversion E; subst; clear E.
    + unfold has_open, has_sopen in *. cbn [existsb].
      rewrite (fin_not_accepting p (Hw p (or_introl eq_refl)) Ef), !andb_false_r. cbn. auto.
    + unfold has_open, has_sopen in *. cbn [existsb]. unfold p_wait at 1 3, accepts at 1 3; cbn [pid closed single].
      rewrite A, B. auto.
Qed.

Definition PO3 (O O1 : nat -> bool) (sn : list nat) (g : ghost) (ins : list nat) (ps : list prod) : Prop :=
  PF sn g ins ps /\ OpenOK O O1 ps.

Lemma has_open_app n a b : has_open n (a ++ b) = has_open n a || has_open n b.
Proof. unfold has_open. apply existsb_app. Qed.
Lemma has_sopen_app n a b : has_sopen n (a ++ b) = has_sopen n a || has_sopen n b.
Proof. unfold has_sopen. apply existsb_app. Qed.

Section Hyps.
  Variables O O1 : nat -> bool.
  Notation P := (PO3 O O1).

  Lemma P3_perm sn g ins ps ps' : Permutation ps ps' -> P sn g ins ps -> P sn g ins ps'.
  Proof.
    intros Hp [[A B] C]. split; [split; [eapply Core_permP; eauto|eapply Pids_perm; eauto]|].
    intros n. destruct (C n) as [C1 C2]. unfold has_open, has_sopen in *. rewrite <- (existsb_perm _ _ _ Hp), <- (existsb_perm _ _ _ Hp). auto.
  Qed.

  Lemma P3_load sn g ins ps1 ps rem ys fs :
    P sn g ins (ps1 ++ ps) -> load_all ps = (rem, ys, fs) -> P sn (gh_load g ys fs) (set_addl ys ins) (ps1 ++ rem).
  Proof.
    intros [[A B] C] E. split; [split; [eapply Core_load; eauto|eapply Pids_load; eauto using wf_app_r]|].
    intros n. destruct (C n) as [C1 C2]. destruct (load_all_open ps rem ys fs E (wf_app_r _ _ _ _ A) n) as [D1 D2].
    rewrite has_open_app, has_sopen_app in *. rewrite D1, D2. auto.
  Qed.

  Lemma P3_ext sn g g' ins ps :
    g_offered g' = g_offered g -> g_loaded g' = g_loaded g -> g_delivered g' = g_delivered g -> P sn g ins ps -> P sn g' ins ps.
  Proof. intros E1 E2 E3 [[A B] C]. split; [split; [eapply Core_ext; eauto|eapply Pids_ext; eauto]|exact C]. Qed.

  Lemma P3_ins sn g ins ps : P sn g ins ps -> incl ins (off g).
  Proof. intros [[A _] _]. apply (c_ins _ _ _ A). Qed.

  Lemma P3_deliver sn g ins ps : P sn g ins ps -> P sn (gh_deliver g ins) [] ps.
  Proof.
    intros [[A B] C]. split; [split; [apply Core_deliver; [exact A|intros x []]|eapply Pids_ext; [| |exact B]; reflexivity]|exact C].
  Qed.

  Lemma P3_deliver_keep sn g ins ps : P sn g ins ps -> P sn (gh_deliver g ins) ins ps.
  Proof.
    intros [[A B] C]. split; [split; [apply Core_deliver; [exact A|apply incl_refl]|eapply Pids_ext; [| |exact B]; reflexivity]|exact C].
  Qed.
End Hyps.

Definition OS (O O1 : nat -> bool) (s : state) : Prop := InvP (PO3 O O1) s.

Lemma open_here_prods s n : open_here s n = has_open n (prods s).
Proof.
  unfold open_here, prods. rewrite has_open_app. f_equal.
  destruct (dm s); try reflexivity.
  - cbn [dprods]. rewrite has_open_app. destruct g; cbn; rewrite ?orb_false_r; reflexivity.
Qed.

(* ---- feeding a scripted action: how the open set changes -------------------------------------- *)
Definition open_after (a : act) (o o1 : bool) : bool :=
  o && match a with AY _ => negb o1 | AF => false | AE => o1 end.
Definition sopen_after (a : act) (o1 : bool) : bool := match a with AE => o1 | _ => false end.

Lemma has_open_other n m ps : (forall p, In p ps -> pid p <> n) -> m = n -> has_open m ps = false /\ has_sopen m ps = false.
Proof.
  intros H ->. unfold has_open, has_sopen. split; apply not_true_is_false; intros E; apply existsb_exists in E as (p & Hin & Hp);
    repeat (apply andb_prop in Hp as [Hp ?]); apply Nat.eqb_eq in Hp; exact (H p Hin Hp).
Qed.

Lemma map_feed_other n a ps : (forall p, In p ps -> pid p <> n) -> map (feed_if n a) ps = ps.
Proof.
  intros H. rewrite <- (map_id ps) at 2. apply map_ext_in. intros p Hin. apply feed_if_other. exact (H p Hin).
Qed.

Lemma feed_open n a ps : NoDup (pids ps) ->
  forall m,
    has_open m (map (feed_if n a) ps) = (if m =? n then open_after a (has_open n ps) (has_sopen n ps) else has_open m ps) /\
    has_sopen m (map (feed_if n a) ps) = (if m =? n then sopen_after a (has_sopen n ps) else has_sopen m ps).
Proof.
  induction ps as [|p r IH]; intros Hn m.
  - cbn. destruct (m =? n); destruct a; auto.
  - cbn [pids map] in Hn. inversion Hn as [|? ? Hnot Hr]; subst. specialize (IH Hr m).
    destruct (Nat.eq_dec (pid p) n) as [E|E].
    + assert (Hoth : forall p0, In p0 r -> pid p0 <> n) by (intros p0 Hin E0; apply Hnot; rewrite E, <- E0; apply in_map, Hin).
      cbn [map]. rewrite (map_feed_other n a r Hoth).
      destruct (has_open_other n n r Hoth eq_refl) as [Z1 Z2].
      unfold has_open, has_sopen in *. cbn [existsb]. rewrite pid_feed_if.
      destruct (m =? n) eqn:Em.
      * apply Nat.eqb_eq in Em. subst m. rewrite Z1, Z2, !orb_false_r. rewrite E, Nat.eqb_refl. cbn [andb].
        unfold feed_if. rewrite E, Nat.eqb_refl. cbn [andb]. unfold open_after, sopen_after, accepts.
        destruct (closed p) eqn:Ec; destruct a; destruct (single p) eqn:Es; cbn; rewrite ?Ec, ?Es; cbn; rewrite ?Ec, ?Es; cbn; auto.
      * assert (Hpm : (pid p =? m) = false) by (apply Nat.eqb_neq; intros E1; apply Nat.eqb_neq in Em; apply Em; congruence).
        rewrite Hpm. cbn [andb orb]. auto.
    + cbn [map]. rewrite (feed_if_other n a p E). unfold has_open, has_sopen in *. cbn [existsb].
      destruct IH as [A B]. rewrite A, B.
      destruct (m =? n) eqn:Em; [|auto].
      apply Nat.eqb_eq in Em. subst m.
      assert (Hpn : (pid p =? n) = false) by (apply Nat.eqb_neq; exact E). rewrite Hpn. cbn [andb orb]. auto.
Qed.

(* ---- the tracker's open list ---------------------------------------------------------------------- *)
Lemma close_open p k m :
  existsb (fun o : nat * bool => Nat.eqb (fst o) m) (close p k) = (if m =? p then false else is_open m k) /\
  existsb (fun o : nat * bool => Nat.eqb (fst o) m && snd o) (close p k) = (if m =? p then false else is_single m k).
Proof.
  unfold close, is_open, is_single. induction (k_open k) as [|[a b] r [IH1 IH2]]; cbn [filter existsb fst snd].
  - destruct (m =? p); auto.
  - destruct (a =? p) eqn:Eap; cbn [negb filter existsb fst snd]; rewrite ?IH1, ?IH2.
    + apply Nat.eqb_eq in Eap. subst a. destruct (m =? p) eqn:Emp; [auto|].
      assert (Hpm : (p =? m) = false) by (rewrite Nat.eqb_sym; exact Emp). rewrite Hpm. auto.
    + destruct (m =? p) eqn:Emp; [|auto]. apply Nat.eqb_eq in Emp. subst m. rewrite Eap. auto.
Qed.

Definition OT (k : trk) (s : state) : Prop := OS (fun n => is_open n k) (fun n => is_single n k) s.

Lemma OS_ext O O1 O' O1' s : (forall n, O n = O' n) -> (forall n, O1 n = O1' n) -> OS O O1 s -> OS O' O1' s.
Proof.
  intros E1 E2 H Hd. destruct (H Hd) as [A B]. split; [exact A|]. intros n. destruct (B n). rewrite <- E1, <- E2. auto.
Qed.


Section Inst.
  Variables O O1 : nat -> bool.
  Let Hperm := P3_perm O O1.
  Let Hload := P3_load O O1.
  Let Hext := P3_ext O O1.
  Let Hins := P3_ins O O1.
  Lemma on_put_post3 s : is_dead s = false -> OS O O1 s -> Post (PO3 O O1) (on_put s).
  Proof. apply on_put_post; assumption. Qed.
  Lemma after_gather_post3 s ins g : PO3 O O1 (seen s) (gh s) ins (q s ++ got_of g) -> Post (PO3 O O1) (after_gather s ins g).
  Proof. apply after_gather_post; assumption. Qed.
  Lemma load_one_post3 s ins p : PO3 O O1 (seen s) (gh s) ins (q s ++ [p]) -> Post (PO3 O O1) (load_one s ins p).
  Proof. apply load_one_post; assumption. Qed.
  Lemma do_advance_post3 s dt : is_dead s = false -> OS O O1 s -> Post (PO3 O O1) (do_advance s dt).
  Proof. apply do_advance_post; assumption. Qed.
  Lemma do_wait_post3 s w c : is_dead s = false -> OS O O1 s -> Post (PO3 O O1) (do_wait s w c).
  Proof. apply do_wait_post; assumption. Qed.
  Lemma do_fn_end_post3 s ok fc : is_dead s = false -> OS O O1 s -> Post (PO3 O O1) (do_fn_end s ok fc).
  Proof.
    apply (do_fn_end_post (PO3 O O1) true); try assumption.
    - apply P3_deliver.
    - intros _. apply P3_deliver_keep.
    - reflexivity.
  Qed.
End Inst.

Ltac p3 := first [apply P3_perm | apply P3_load | apply P3_ext | apply P3_ins | apply P3_deliver | (intros _; apply P3_deliver_keep)].

Lemma post_inv O O1 r : Post (PO3 O O1) r -> OS O O1 (fst r).
Proof. intros (_ & H & _) _. exact H. Qed.

Lemma step_OT k s e : TL k s -> OT k s -> OT (trk_ev k e) (fst (step s e)).
Proof.
  intros (K1 & K2 & K3 & K4) HO. unfold trk_ev. rewrite K2. unfold step. destruct (is_dead s) eqn:Hd; [exact HO|].
  set (O := fun n => is_open n k) in *. set (O1 := fun n => is_single n k) in *.
  assert (Same : forall k', k_open k' = k_open k -> forall r, Post (PO3 O O1) r -> OT k' (fst r)).
  { intros k' E r HP. eapply OS_ext; [| |apply post_inv; exact HP]; intros n; unfold O, O1, is_open, is_single; rewrite E; reflexivity. }
  assert (PutCase : forall p kd c,
            OT (if mem p (k_seen k) then k else
                  mktrk (k_now k) false (k_seen k ++ [p])
                        (match kd with Aw => k_open k ++ [(p, true)] | Async => k_open k ++ [(p, false)] | _ => k_open k end)
                        (k_off k ++ map (fun x => (p, x)) (imm_args kd)) (k_wseen k) false)
               (fst (do_put s p kd c))).
  { intros p kd c. rewrite K3, mem_existsb. unfold do_put. destruct (existsb (Nat.eqb p) (seen s)) eqn:Ef; [exact HO|].
    match goal with |- OT ?kk _ => set (k' := kk) end.
    apply post_inv. apply on_put_post3.
    - destruct c; exact Hd.
    - intros _. destruct (HO Hd) as [[A B] C]. unfold prods in *.
      assert (HC : PO3 (fun n => is_open n k') (fun n => is_single n k') (seen s ++ [p])
                       (gh_tie (gh_offer (gh s) (map (fun x => (p, x)) (imm_args kd)) (now s)) (tie_now s))
                       (cur_ins (dm s)) ((q s ++ [mk_prod p kd]) ++ dprods (dm s))).
      { split; [split|].
        - eapply Core_permP; [apply perm_mid|]. apply Core_put. exact A.
        - eapply Pids_perm; [apply perm_mid|]. apply Pids_put; [exact B|exact Ef].
        - intros n. destruct (C n) as [C1 C2]. rewrite !has_open_app, !has_sopen_app in *.
          unfold has_open at 2, has_sopen at 2. cbn [existsb]. rewrite pid_mk_prod, !orb_false_r.
          unfold k', is_open, is_single. cbn [k_open].
          assert (Hsw : forall a b c, a || b || c = (a || c) || b) by (intros [] [] []; reflexivity).
          rewrite (Hsw (has_open n (q s))), (Hsw (has_sopen n (q s))), C1, C2.
          unfold O, O1, is_open, is_single.
          destruct kd; cbn [mk_prod accepts closed single negb andb]; rewrite ?existsb_app; cbn [existsb fst snd];
            rewrite ?andb_false_r, ?andb_true_r, ?orb_false_r; auto. }
      destruct c; exact HC. }
  assert (FeedCase : forall n a k',
            (forall m, is_open m k' = if open_here s n then (if m =? n then open_after a (O n) (O1 n) else O m) else O m) ->
            (forall m, is_single m k' = if open_here s n then (if m =? n then sopen_after a (O1 n) else O1 m) else O1 m) ->
            OT k' (fst (do_feed s n a))).
  { intros n a k' E1 E2. unfold do_feed. destruct (open_here s n) eqn:Eo; cbn [negb].
    2:{ eapply OS_ext; [| |exact HO]; intros m; [rewrite E1|rewrite E2]; reflexivity. }
    set (O' := fun m => is_open m k'). set (O1' := fun m => is_single m k').
    destruct (HO Hd) as [[A B] C].
    assert (HC : PO3 O' O1' (seen s) (gh_offer1 (gh s) (map (fun x => (n, x)) (arg_of a))) (cur_ins (dm s))
                     (map (feed_if n a) (prods s))).
    { split; [split|].
      - apply Core_feed; [exact A|apply open_here_ex; exact Eo].
      - apply Pids_feed; [exact B|apply open_here_ex; exact Eo].
      - intros m. destruct (feed_open n a (prods s) (pd_nodup _ _ _ B) m) as [F1 F2]. rewrite F1, F2.
        unfold O', O1'. rewrite E1, E2. destruct (C n) as [Cn1 Cn2]. destruct (C m) as [Cm1 Cm2].
        rewrite Cn1, Cn2, Cm1, Cm2. auto. }
    unfold prods in HC. rewrite map_app in HC.
    assert (G : forall r, Post (PO3 O' O1') r -> OT k' (fst r)) by (intros r HP; apply post_inv; exact HP).
    assert (Direct : forall s', is_dead s' = false -> PO3 O' O1' (seen s') (gh s') (cur_ins (dm s')) (prods s') -> OT k' s')
      by (intros s' _ H _; exact H).
    destruct (dm s) eqn:Ed; cbn [cur_ins dprods] in HC.
    - apply Direct; [exact Hd|]. unfold prods; cbn [fst gh set_gh set_q q dm seen]. rewrite Ed. exact HC.
    - destruct (load_all (map (feed_if n a) ld)) as [[rem ys] fs] eqn:El.
      rewrite map_app in HC.
      assert (Hg : map (feed_if n a) (got_of g) = got_of (feed_get n a g)) by (destruct g; reflexivity).
      rewrite Hg in HC.
      assert (HC1 : PO3 O' O1' (seen s) (gh_load (gh_offer1 (gh s) (map (fun x => (n, x)) (arg_of a))) ys fs) (set_addl ys ins)
                         ((map (feed_if n a) (q s) ++ got_of (feed_get n a g)) ++ rem)).
      { eapply P3_load; [|exact El]. eapply P3_perm; [|exact HC]. rewrite app_assoc. apply perm_mid. }
      destruct rem as [|p0 rem].
      + apply G. apply after_gather_post3.
        cbn [load_gh gh set_gh set_q q seen]. rewrite app_nil_r in HC1. exact HC1.
      + apply Direct; [reflexivity|]. unfold prods. cbn [fst load_gh gh set_gh set_dm set_q q dm cur_ins dprods seen].
        eapply P3_perm; [|exact HC1]. rewrite (app_assoc _ (p0 :: rem)). apply perm_mid.
    - apply Direct; [exact Hd|]. unfold prods; cbn [fst gh set_gh set_q q dm seen]. rewrite Ed. exact HC.
    - destruct ((pid p =? n) && accepts p) eqn:E.
      + apply G. apply load_one_post3.
        cbn [gh set_gh set_q q seen]. cbn [map] in HC. unfold feed_if in HC at 2. rewrite E in HC. exact HC.
      + apply Direct; [exact Hd|]. unfold prods; cbn [fst gh set_gh set_q q dm seen]. rewrite Ed.
        cbn [cur_ins dprods]. cbn [map] in HC. unfold feed_if in HC at 2. rewrite E in HC. exact HC.
    - apply Direct; [exact Hd|]. unfold prods; cbn [fst gh set_gh set_q q dm seen]. rewrite Ed. exact HC.
    - unfold is_dead in Hd. rewrite Ed in Hd. discriminate. }
  assert (Hopen : forall n, open_here s n = O n).
  { intros n. rewrite open_here_prods. destruct (HO Hd) as [_ C]. apply C. }
  destruct e.
  - apply PutCase.
  - (* PYield *) apply FeedCase; intros m; rewrite Hopen; unfold O, O1; cbv beta.
    + destruct (is_open p k) eqn:Eo; [|reflexivity]. unfold is_open at 1. cbn [k_open].
      destruct (is_single p k) eqn:Es.
      * rewrite (proj1 (close_open p k m)). destruct (m =? p); [unfold open_after; rewrite ?Eo, ?Es; reflexivity|reflexivity].
      * fold (is_open m k). destruct (m =? p) eqn:Em; [apply Nat.eqb_eq in Em; subst m; unfold open_after; rewrite ?Eo, ?Es; reflexivity|reflexivity].
    + destruct (is_open p k) eqn:Eo; [|reflexivity]. unfold is_single at 1. cbn [k_open].
      destruct (is_single p k) eqn:Es.
      * rewrite (proj2 (close_open p k m)). destruct (m =? p); reflexivity.
      * fold (is_single m k). destruct (m =? p) eqn:Em; [apply Nat.eqb_eq in Em; subst m; cbn; exact Es|reflexivity].
  - (* PFail *) apply FeedCase; intros m; rewrite Hopen; unfold O, O1; cbv beta.
    + destruct (is_open p k) eqn:Eo; [|reflexivity]. unfold is_open at 1. cbn [k_open].
      rewrite (proj1 (close_open p k m)). destruct (m =? p); [unfold open_after; rewrite andb_false_r; reflexivity|reflexivity].
    + destruct (is_open p k) eqn:Eo; [|reflexivity]. unfold is_single at 1. cbn [k_open].
      rewrite (proj2 (close_open p k m)). destruct (m =? p); reflexivity.
  - (* PEnd *) apply FeedCase; intros m; rewrite Hopen; unfold O, O1; cbv beta.
    + destruct (is_open p k) eqn:Eo; cbn [andb]; [|reflexivity]. destruct (is_single p k) eqn:Es; cbn [negb].
      * destruct (m =? p) eqn:Em; [apply Nat.eqb_eq in Em; subst m; unfold open_after; rewrite ?Eo, ?Es; reflexivity|reflexivity].
      * unfold is_open at 1. cbn [k_open]. rewrite (proj1 (close_open p k m)).
        destruct (m =? p); [unfold open_after; rewrite ?Eo, ?Es; reflexivity|reflexivity].
    + destruct (is_open p k) eqn:Eo; cbn [andb]; [|reflexivity]. destruct (is_single p k) eqn:Es; cbn [negb].
      * destruct (m =? p) eqn:Em; [apply Nat.eqb_eq in Em; subst m; cbn; exact Es|reflexivity].
      * unfold is_single at 1. cbn [k_open]. rewrite (proj2 (close_open p k m)).
        destruct (m =? p) eqn:Em; [cbn; rewrite ?Es; reflexivity|reflexivity].
  - apply (Same _ eq_refl). apply do_advance_post3; auto.
  - assert (E : k_open (if mem w (k_wseen k) then k else mktrk (k_now k) false (k_seen k) (k_open k) (k_off k) (k_wseen k ++ [w]) (k_pendclear k)) = k_open k)
      by (destruct (mem w (k_wseen k)); reflexivity).
    apply (Same _ E). apply do_wait_post3; auto.
  - apply (Same _ eq_refl). apply do_fn_end_post3; auto.
  - apply (Same _ eq_refl). apply do_fn_end_post3; auto.
  - intros H. discriminate.
  - eapply OS_ext; [| |exact HO]; intros n; reflexivity.
  - apply PutCase.
  - apply (Same _ eq_refl). apply do_fn_end_post3; auto.
Qed.

(* ---- the full tracker relation, for every event list --------------------------------------------- *)
Definition TRK (k : trk) (s : state) : Prop := TL k s /\ OT k s /\ k_off k = g_offered (gh s).

Lemma OT_open k s n : is_dead s = false -> OT k s -> open_here s n = is_open n k.
Proof. intros Hd HO. rewrite open_here_prods. destruct (HO Hd) as [_ C]. apply C. Qed.

Lemma step_TRK k s e : Struct s -> TRK k s -> TRK (trk_ev k e) (fst (step s e)).
Proof.
  intros HS (HT & HO & Hoff). split; [apply TL_step; assumption|]. split; [apply step_OT; assumption|].
  rewrite offered_step. destruct HT as (K1 & K2 & K3 & K4). unfold trk_ev, new_offers. rewrite K2.
  destruct (is_dead s) eqn:Hd; [rewrite app_nil_r; exact Hoff|].
  destruct e; cbn [k_off]; rewrite ?app_nil_r; try exact Hoff.
  - rewrite K3, mem_existsb. destruct (existsb (Nat.eqb p) (seen s)); cbn [k_off]; rewrite ?app_nil_r, ?Hoff; reflexivity.
  - rewrite (OT_open k s p Hd HO). destruct (is_open p k); cbn [k_off]; rewrite ?app_nil_r, ?Hoff; reflexivity.
  - destruct (is_open p k); exact Hoff.
  - destruct (is_open p k && negb (is_single p k)); exact Hoff.
  - destruct (mem w (k_wseen k)); exact Hoff.
  - rewrite K3, mem_existsb. destruct (existsb (Nat.eqb p) (seen s)); cbn [k_off]; rewrite ?app_nil_r, ?Hoff; reflexivity.
Qed.

Lemma init_TRK T : TRK trk0 (init T).
Proof.
  split; [repeat split|]. split; [|reflexivity].
  intros _. split; [split|].
  - apply (init_inv T). reflexivity.
  - constructor; cbn; [constructor|intros p []|intros p x []].
  - intros n. cbn. auto.
Qed.

Lemma final_TRK T evs : TRK (trk_run trk0 evs) (final T evs).
Proof.
  induction evs as [|e r IH] using rev_ind; [apply init_TRK|].
  rewrite trk_run_snoc', final_snoc. apply step_TRK; [apply final_struct|exact IH].
Qed.

(* what the monitors read off the tracker is what the model handed over *)
Lemma offered_args_final T evs : offered_args (trk_run trk0 evs) = off (gh (final T evs)).
Proof. unfold offered_args, off. destruct (final_TRK T evs) as (_ & _ & E). rewrite E. reflexivity. Qed.

(* ---- what holds at every event.set(), with the tracker's open set ------------------------------------- *)
Lemma put_PO3 k s p kd k' :
  is_dead s = false -> existsb (Nat.eqb p) (seen s) = false -> OT k s ->
  k_open k' = match kd with Aw => k_open k ++ [(p, true)] | Async => k_open k ++ [(p, false)] | _ => k_open k end ->
  PO3 (fun n => is_open n k') (fun n => is_single n k') (seen s ++ [p])
      (gh_tie (gh_offer (gh s) (map (fun x => (p, x)) (imm_args kd)) (now s)) (tie_now s))
      (cur_ins (dm s)) ((q s ++ [mk_prod p kd]) ++ dprods (dm s)).
Proof.
  intros Hd Ef HO Ek. destruct (HO Hd) as [[A B] C]. unfold prods in *.
  split; [split|].
  - eapply Core_permP; [apply perm_mid|]. apply Core_put. exact A.
  - eapply Pids_perm; [apply perm_mid|]. apply Pids_put; [exact B|exact Ef].
  - intros n. destruct (C n) as [C1 C2]. rewrite !has_open_app, !has_sopen_app in *.
    unfold has_open at 2, has_sopen at 2. cbn [existsb]. rewrite pid_mk_prod, !orb_false_r.
    unfold is_open, is_single. rewrite Ek.
    assert (Hsw : forall a b c, a || b || c = (a || c) || b) by (intros [] [] []; reflexivity).
    rewrite (Hsw (has_open n (q s))), (Hsw (has_sopen n (q s))), C1, C2.
    unfold is_open, is_single.
    destruct kd; cbn [mk_prod accepts closed single negb andb]; rewrite ?existsb_app; cbn [existsb fst snd];
      rewrite ?andb_false_r, ?andb_true_r, ?orb_false_r; auto.
Qed.

Lemma feed_PO3 k s n a k' :
  is_dead s = false -> open_here s n = true -> OT k s ->
  (forall m, is_open m k' = if m =? n then open_after a (is_open n k) (is_single n k) else is_open m k) ->
  (forall m, is_single m k' = if m =? n then sopen_after a (is_single n k) else is_single m k) ->
  PO3 (fun m => is_open m k') (fun m => is_single m k') (seen s)
      (gh_offer1 (gh s) (map (fun x => (n, x)) (arg_of a))) (cur_ins (dm s)) (map (feed_if n a) (prods s)).
Proof.
  intros Hd Eo HO E1 E2. destruct (HO Hd) as [[A B] C]. split; [split|].
  - apply Core_feed; [exact A|apply open_here_ex; exact Eo].
  - apply Pids_feed; [exact B|apply open_here_ex; exact Eo].
  - intros m. destruct (feed_open n a (prods s) (pd_nodup _ _ _ B) m) as [F1 F2]. rewrite F1, F2.
    rewrite E1, E2. destruct (C n) as [Cn1 Cn2]. destruct (C m) as [Cm1 Cm2]. rewrite Cn1, Cn2, Cm1, Cm2. auto.
Qed.

Section InstR.
  Variables O O1 : nat -> bool.
  Let Hperm := P3_perm O O1.
  Let Hload := P3_load O O1.
  Let Hext := P3_ext O O1.
  Let Hins := P3_ins O O1.
  Lemma on_put_rets3 s : is_dead s = false -> OS O O1 s -> rets_left (PO3 O O1) (waiters s) (on_put s).
  Proof. apply on_put_rets; assumption. Qed.
  Lemma after_gather_rets3 s ins g :
    PO3 O O1 (seen s) (gh s) ins (q s ++ got_of g) -> rets_ok (PO3 O O1) (waiters s) (map pid (q s)) (after_gather s ins g).
  Proof. apply after_gather_rets; assumption. Qed.
  Lemma load_one_rets3 s ins p : PO3 O O1 (seen s) (gh s) ins (q s ++ [p]) -> rets_left (PO3 O O1) (waiters s) (load_one s ins p).
  Proof. apply load_one_rets; assumption. Qed.
  Lemma do_advance_rets3 s dt : is_dead s = false -> OS O O1 s -> rets_ok (PO3 O O1) (waiters s) (map pid (q s)) (do_advance s dt).
  Proof. apply do_advance_rets; assumption. Qed.
  Lemma do_wait_rets3 s w c : is_dead s = false -> OS O O1 s -> rets_step (PO3 O O1) s (Wait w c) (do_wait s w c).
  Proof. apply do_wait_rets; assumption. Qed.
  Lemma do_fn_end_rets3 s ok fc : is_dead s = false -> OS O O1 s -> rets_ok (PO3 O O1) (waiters s) (map pid (q s)) (do_fn_end s ok fc).
  Proof.
    apply (do_fn_end_rets (PO3 O O1) true); try assumption.
    - apply P3_deliver.
    - intros _. apply P3_deliver_keep.
    - reflexivity.
  Qed.
End InstR.

Lemma PO3_ext O O1 O' O1' sn g ins ps :
  (forall n, O n = O' n) -> (forall n, O1 n = O1' n) -> PO3 O O1 sn g ins ps -> PO3 O' O1' sn g ins ps.
Proof. intros E1 E2 [A B]. split; [exact A|]. intros n. destruct (B n). rewrite <- E1, <- E2. auto. Qed.

Lemma rets_step_ext (P P' : list nat -> ghost -> list nat -> list prod -> Prop) s e r :
  (forall sn g ps, P sn g [] ps -> P' sn g [] ps) -> rets_step P s e r -> rets_step P' s e r.
Proof.
  intros H HR w t n Hin. destruct (HR w t n Hin) as [(sr & w0 & A & B)|C]; [left; exists sr, w0; split; [apply H, A|exact B]|right; exact C].
Qed.

Lemma step_rets3 k s e :
  is_dead s = false -> TL k s -> OT k s ->
  rets_step (PO3 (fun n => is_open n (trk_ev k e)) (fun n => is_single n (trk_ev k e))) s e (step s e).
Proof.
  intros Hd (K1 & K2 & K3 & K4) HO. unfold trk_ev. rewrite K2, Hd. unfold step. rewrite Hd.
  set (O := fun n => is_open n k) in *. set (O1 := fun n => is_single n k) in *.
  assert (Same : forall k' r, k_open k' = k_open k -> rets_step (PO3 O O1) s e r ->
            rets_step (PO3 (fun n => is_open n k') (fun n => is_single n k')) s e r).
  { intros k' r E. apply rets_step_ext. intros sn g ps. apply PO3_ext; intros n; unfold O, O1, is_open, is_single; rewrite E; reflexivity. }
  assert (Hopen : forall n, open_here s n = O n) by (intros n; apply (OT_open k s n Hd HO)).
  assert (PutCase : forall p kd c k',
            k_open k' = (match kd with Aw => k_open k ++ [(p, true)] | Async => k_open k ++ [(p, false)] | _ => k_open k end) ->
            existsb (Nat.eqb p) (seen s) = false ->
            rets_step (PO3 (fun n => is_open n k') (fun n => is_single n k')) s e (do_put s p kd c)).
  { intros p kd c k' Ek Ef. unfold do_put. rewrite Ef.
    apply rets_ok_step. apply rets_left_ok.
    match goal with |- rets_left _ _ (on_put ?x) => assert (Hw : waiters x = waiters s) by (destruct c; reflexivity); rewrite <- Hw end.
    apply on_put_rets3; [destruct c; exact Hd|]. intros _. pose proof (put_PO3 k s p kd k' Hd Ef HO Ek) as HC. unfold prods.
    destruct c; exact HC. }
  assert (FeedCase : forall n a k',
            (forall m, is_open m k' = if open_here s n then (if m =? n then open_after a (O n) (O1 n) else O m) else O m) ->
            (forall m, is_single m k' = if open_here s n then (if m =? n then sopen_after a (O1 n) else O1 m) else O1 m) ->
            rets_step (PO3 (fun m => is_open m k') (fun m => is_single m k')) s e (do_feed s n a)).
  { intros n a k' E1 E2. unfold do_feed. destruct (open_here s n) eqn:Eo; cbn [negb]; [|intros w t n0 []].
    set (O' := fun m => is_open m k'). set (O1' := fun m => is_single m k').
    pose proof (feed_PO3 k s n a k' Hd Eo HO E1 E2) as HC. fold O' O1' in HC.
    apply rets_ok_step.
    unfold prods in HC. rewrite map_app in HC.
    assert (Hpq : map pid (map (feed_if n a) (q s)) = map pid (q s)) by (rewrite map_map; apply map_ext; intros p0; apply pid_feed_if).
    destruct (dm s) eqn:Ed; cbn [cur_ins dprods] in HC; try (intros w t n0 []).
    - destruct (load_all (map (feed_if n a) ld)) as [[rem ys] fs] eqn:El.
      rewrite map_app in HC.
      assert (Hg : map (feed_if n a) (got_of g) = got_of (feed_get n a g)) by (destruct g; reflexivity).
      rewrite Hg in HC.
      assert (HC1 : PO3 O' O1' (seen s) (gh_load (gh_offer1 (gh s) (map (fun x => (n, x)) (arg_of a))) ys fs) (set_addl ys ins)
                         ((map (feed_if n a) (q s) ++ got_of (feed_get n a g)) ++ rem)).
      { eapply P3_load; [|exact El]. eapply P3_perm; [|exact HC]. rewrite app_assoc. apply perm_mid. }
      destruct rem as [|p0 rem]; [|intros w t n0 []].
      match goal with |- rets_ok _ _ _ (after_gather ?x ?i ?gg) => pose proof (after_gather_rets3 O' O1' x i gg) as Q end.
      cbn [load_gh gh set_gh set_q q seen waiters] in Q. rewrite Hpq in Q. apply Q. rewrite app_nil_r in HC1. exact HC1.
    - destruct ((pid p =? n) && accepts p) eqn:E; [|intros w t n0 []].
      apply rets_left_ok.
      match goal with |- rets_left _ _ (load_one ?x ?i ?pp) => pose proof (load_one_rets3 O' O1' x i pp) as Q end.
      cbn [gh set_gh set_q q seen waiters] in Q. apply Q.
      cbn [map] in HC. unfold feed_if in HC at 2. rewrite E in HC. exact HC. }
  destruct e.
  - rewrite K3, mem_existsb. destruct (existsb (Nat.eqb p) (seen s)) eqn:Ef.
    + unfold do_put. rewrite Ef. intros w t n [].
    + apply PutCase; [reflexivity|exact Ef].
  - (* PYield *) apply FeedCase; intros m; rewrite Hopen; unfold O, O1; cbv beta.
    + destruct (is_open p k) eqn:Eo; [|reflexivity]. unfold is_open at 1. cbn [k_open].
      destruct (is_single p k) eqn:Es.
      * rewrite (proj1 (close_open p k m)). destruct (m =? p); [unfold open_after; rewrite ?Eo, ?Es; reflexivity|reflexivity].
      * fold (is_open m k). destruct (m =? p) eqn:Em; [apply Nat.eqb_eq in Em; subst m; unfold open_after; rewrite ?Eo, ?Es; reflexivity|reflexivity].
    + destruct (is_open p k) eqn:Eo; [|reflexivity]. unfold is_single at 1. cbn [k_open].
      destruct (is_single p k) eqn:Es.
      * rewrite (proj2 (close_open p k m)). destruct (m =? p); reflexivity.
      * fold (is_single m k). destruct (m =? p) eqn:Em; [apply Nat.eqb_eq in Em; subst m; cbn; exact Es|reflexivity].
  - (* PFail *) apply FeedCase; intros m; rewrite Hopen; unfold O, O1; cbv beta.
    + destruct (is_open p k) eqn:Eo; [|reflexivity]. unfold is_open at 1. cbn [k_open].
      rewrite (proj1 (close_open p k m)). destruct (m =? p); [unfold open_after; rewrite andb_false_r; reflexivity|reflexivity].
    + destruct (is_open p k) eqn:Eo; [|reflexivity]. unfold is_single at 1. cbn [k_open].
      rewrite (proj2 (close_open p k m)). destruct (m =? p); reflexivity.
  - (* PEnd *) apply FeedCase; intros m; rewrite Hopen; unfold O, O1; cbv beta.
    + destruct (is_open p k) eqn:Eo; cbn [andb]; [|reflexivity]. destruct (is_single p k) eqn:Es; cbn [negb].
      * destruct (m =? p) eqn:Em; [apply Nat.eqb_eq in Em; subst m; unfold open_after; rewrite ?Eo, ?Es; reflexivity|reflexivity].
      * unfold is_open at 1. cbn [k_open]. rewrite (proj1 (close_open p k m)).
        destruct (m =? p); [unfold open_after; rewrite ?Eo, ?Es; reflexivity|reflexivity].
    + destruct (is_open p k) eqn:Eo; cbn [andb]; [|reflexivity]. destruct (is_single p k) eqn:Es; cbn [negb].
      * destruct (m =? p) eqn:Em; [apply Nat.eqb_eq in Em; subst m; cbn; exact Es|reflexivity].
      * unfold is_single at 1. cbn [k_open]. rewrite (proj2 (close_open p k m)).
        destruct (m =? p) eqn:Em; [cbn; rewrite ?Es; reflexivity|reflexivity].
  - apply Same; [reflexivity|]. apply rets_ok_step, do_advance_rets3; auto.
  - apply Same; [destruct (mem w (k_wseen k)); reflexivity|]. apply do_wait_rets3; auto.
  - apply Same; [reflexivity|]. apply rets_ok_step, do_fn_end_rets3; auto.
  - apply Same; [reflexivity|]. apply rets_ok_step, do_fn_end_rets3; auto.
  - intros w t n [H|[]]. discriminate.
  - intros w t n [].
  - rewrite K3, mem_existsb. destruct (existsb (Nat.eqb p) (seen s)) eqn:Ef.
    + unfold do_put. rewrite Ef. intros w t n [].
    + apply PutCase; [reflexivity|exact Ef].
  - apply Same; [reflexivity|]. apply rets_ok_step, do_fn_end_rets3; auto.
Qed.
