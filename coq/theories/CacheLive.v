(* CacheLive.v — C05 (termination / promptness) lemmas about the cache model Cache.step:
   the invariant LInv (carried along CacheInv.Inv over every accepted event list), and from it
   no lost wake-up, promptness of wake-ups, the 60 s rescue bound, enabledness of the owner's steps
   and absence of deadlock.  Statements for the property live in props/C05.v. *)
From Coq Require Import List Arith NArith Bool Lia ZifyBool ZifyNat ZifyN.
Import ListNotations.
Require Import Aiuti.Cache Aiuti.CacheLemmas Aiuti.CacheInv.

Definition await_ev (p : pc) : option nat :=
  match p with
  | PUnlock (DWait _ e) | PXSub _ e | PWait e _ | PWaitX _ e _ _ _ => Some e
  | _ => None
  end.

Definition owned (s : state) (e : nat) : Prop :=
  exists d dr, getc s d = Some dr /\ own_ev (cpc dr) = Some e.

Lemma length_lset_lt {A} (d : A) l n v : n < length l -> length (lset d l n v) = length l.
Proof. revert l. induction n as [|n IH]; intros [|x r] H; simpl in *; try lia. rewrite IH; lia. Qed.

Lemma ms_await s cr : await_ev (cpc (mark_started s cr)) = await_ev (cpc cr).
Proof. apply ms_class. reflexivity. Qed.

Lemma owned_set_pc st s c cr p e :
  callers st = callers s -> getc s c = Some cr -> owned s e ->
  (own_ev (cpc cr) = Some e -> own_ev p = Some e) -> owned (set_pc st c cr p) e.
Proof.
  intros Hc Hg (d & dr & Hd & Ho) Hp.
  destruct (Nat.eq_dec c d) as [->|Hn].
  - exists d, (mkC (cloop cr) (ckey cr) p (ccanc cr)). split.
    + erewrite getc_set_pc. rewrite Nat.eqb_refl. reflexivity. unfold getc in *. rewrite Hc. eassumption.
    + simpl. apply Hp. congruence.
  - exists d, dr. split; auto. erewrite getc_set_pc. destruct (Nat.eqb_spec c d); [contradiction|].
    unfold getc in *. rewrite Hc. assumption. unfold getc in *. rewrite Hc. eassumption.
Qed.


Lemma owned_same st s e : callers st = callers s -> owned s e -> owned st e.
Proof. intros Hc (d & dr & Hd & Ho). exists d, dr. split; auto. unfold getc in *. rewrite Hc. auto. Qed.

Lemma owned_cancel s c cr e : getc s c = Some cr -> owned s e ->
  owned (set_callers s (lset dummyC (callers s) c (mkC (cloop cr) (ckey cr) (cpc cr) true))) e.
Proof.
  intros Hg (d & dr & Hd & Ho). destruct (Nat.eq_dec c d) as [->|Hn].
  - eexists d, _. erewrite getc_cancel by eassumption. rewrite Nat.eqb_refl. split; [reflexivity|]. simpl. congruence.
  - exists d, dr. erewrite getc_cancel by eassumption. destruct (Nat.eqb_spec c d); [contradiction|]. auto.
Qed.

Lemma owned_ms s tick e : owned s e ->
  owned (set_now (set_callers s (map (mark_started s) (callers s))) tick) e.
Proof.
  intros (d & dr & Hd & Ho). exists d, (mark_started s dr). split.
  - erewrite (getc_map s (mark_started s)) by reflexivity. rewrite Hd. reflexivity.
  - rewrite ms_own. assumption.
Qed.

Lemma can_probe_pc s cr : can_probe s cr ->
  cpc cr = PStart \/ cpc cr = PProbe \/ (exists e dl, cpc cr = PWait e dl)
  \/ (exists l e dl xd xs, cpc cr = PWaitX l e dl xd xs).
Proof.
  intros [(H & _) | [H | [(e & dl & H & _) | (l & e & dl & xd & xs & H & _)]]]; eauto 10.
Qed.

Lemma can_probe_own s cr : can_probe s cr -> own_ev (cpc cr) = None.
Proof.
  intros H. apply can_probe_pc in H.
  destruct H as [H | [H | [(e & dl & H) | (l & e & dl & xd & xs & H)]]]; rewrite H; reflexivity.
Qed.


Definition waiting (cr : crec) : Prop :=
  (exists e dl, cpc cr = PWait e dl) \/ (exists l e dl xd xs, cpc cr = PWaitX l e dl xd xs).

Lemma waiting_own cr : waiting cr -> own_ev (cpc cr) = None.
Proof. intros [(e & dl & H) | (l & e & dl & xd & xs & H)]; rewrite H; reflexivity. Qed.

Definition dl_of (p : pc) : option N :=
  match p with PWait _ dl | PWaitX _ _ dl _ _ => Some dl | _ => None end.
Lemma ms_dl s cr : dl_of (cpc (mark_started s cr)) = dl_of (cpc cr).
Proof. apply ms_class. reflexivity. Qed.
Lemma ms_susp s cr : suspended (cpc (mark_started s cr)) = suspended (cpc cr).
Proof. apply ms_class. reflexivity. Qed.

Definition holder_ok (s : state) (h : nat) : Prop :=
  exists cr, getc s h = Some cr /\ locked_pc (cpc cr) = true.

Lemma holder_set_pc st s c cr p h :
  callers st = callers s -> getc s c = Some cr -> holder_ok s h ->
  (c = h -> locked_pc (cpc cr) = true -> locked_pc p = true) -> holder_ok (set_pc st c cr p) h.
Proof.
  intros Hc Hg (crh & Hgh & Hl) Hp. unfold holder_ok.
  assert (Hg' : getc st c = Some cr) by (unfold getc in *; rewrite Hc; assumption).
  erewrite getc_set_pc by eassumption. destruct (Nat.eqb_spec c h) as [->|Hn].
  - eexists. split; [reflexivity|]. simpl. apply Hp; auto. congruence.
  - exists crh. split; auto. unfold getc in *. rewrite Hc. assumption.
Qed.

Lemma holder_same st s h : callers st = callers s -> holder_ok s h -> holder_ok st h.
Proof. intros Hc (d & Hd & Ho). exists d. split; auto. unfold getc in *. rewrite Hc. auto. Qed.

Lemma holder_cancel s c cr h : getc s c = Some cr -> holder_ok s h ->
  holder_ok (set_callers s (lset dummyC (callers s) c (mkC (cloop cr) (ckey cr) (cpc cr) true))) h.
Proof.
  intros Hg (dr & Hd & Ho). unfold holder_ok. erewrite getc_cancel by eassumption.
  destruct (Nat.eqb_spec c h) as [->|Hn].
  - eexists. split; [reflexivity|]. simpl. congruence.
  - exists dr. auto.
Qed.

Lemma holder_ms s tick h : holder_ok s h ->
  holder_ok (set_now (set_callers s (map (mark_started s) (callers s))) tick) h.
Proof.
  intros (dr & Hd & Ho). exists (mark_started s dr). split.
  - erewrite (getc_map s (mark_started s)) by reflexivity. rewrite Hd. reflexivity.
  - rewrite ms_locked. assumption.
Qed.

Lemma can_probe_locked s cr : can_probe s cr -> locked_pc (cpc cr) = false.
Proof.
  intros H. apply can_probe_pc in H.
  destruct H as [H | [H | [(e & dl & H) | (l & e & dl & xd & xs & H)]]]; rewrite H; reflexivity.
Qed.
Lemma waiting_locked cr : waiting cr -> locked_pc (cpc cr) = false.
Proof. intros [(e & dl & H) | (l & e & dl & xd & xs & H)]; rewrite H; reflexivity. Qed.

Section Pres.
Variables (s s' : state) (e : ev).
Hypothesis I : Inv s.
Hypothesis T : trans s e s'.
Ltac start := start_ s.
Ltac lp_norm := lp_norm_ s.

Hypothesis A : forall e, e < length (evset s) -> isset s e = true \/ owned s e.

Lemma pres_lA : forall e, e < length (evset s') -> isset s' e = true \/ owned s' e.
Proof.
  pose proof (iA1 s I) as A1.
  tcases T; intros e0 He0.
  all: try solve [ destruct (A e0 He0) as [Hs|Ho]; [left; exact Hs|right];
                   eapply owned_set_pc; [reflexivity|eassumption|exact Ho|];
                   intros Hx; mv_simpl; try congruence; try (rewrite Hx in *; discriminate);
                   match goal with Hc : cpc _ = _ |- _ => rewrite Hc in Hx; simpl in Hx; congruence end ].
  all: try solve [ destruct (A e0 He0) as [Hs|Ho]; [left; exact Hs|right];
                   first [ apply owned_ms; exact Ho | eapply owned_cancel; eassumption
                         | eapply owned_same; [reflexivity|exact Ho] ] ].
  all: try solve [ destruct (A e0 He0) as [Hs|Ho]; [left; exact Hs|right];
    eapply owned_set_pc; [reflexivity|eassumption|exact Ho|];
    intros Hx;
    match goal with
    | Hp : can_probe _ _ |- _ => rewrite (can_probe_own _ _ Hp) in Hx; discriminate
    | Hp : _ \/ _ |- _ => rewrite (waiting_own _ Hp) in Hx; discriminate
    end ].
  all: try solve [
    match goal with Hp : cpc _ = PFinLock ?e _ |- _ =>
      assert (Hel : e < length (evset s)) by (eapply A1; [eassumption|rewrite Hp; reflexivity]);
      proj_norm; rewrite length_lset_lt in He0 by assumption;
      (destruct (Nat.eq_dec e e0) as [->|Hn];
       [ left; apply lget_lset_eq
       | destruct (A e0 He0) as [Hs|Ho];
         [ left; rewrite lget_lset_neq by assumption; exact Hs
         | right; eapply owned_set_pc; [reflexivity|eassumption|exact Ho|];
           intros Hx; rewrite Hp in Hx; simpl in Hx; congruence ] ])
    end ].
  - (* takeover *)
    proj_norm. rewrite app_length in He0. simpl in He0.
    destruct (Nat.eq_dec e0 (length (evset s))) as [->|Hn].
    + right. eexists c, _. split.
      * erewrite getc_set_pc by eassumption. rewrite Nat.eqb_refl. reflexivity.
      * reflexivity.
    + assert (He : e0 < length (evset s)) by lia.
      destruct (A e0 He) as [Hs|Ho]; [left|right].
      * unfold isset in Hs. rewrite <- Hs. apply lget_app_default.
      * eapply owned_set_pc; [reflexivity|eassumption|exact Ho|].
        intros Hx. rewrite H2 in Hx. discriminate.
Qed.

Hypothesis M : forall k l e, marker_at s k = Some (l, e) -> e < length (evset s).

Lemma pres_lM : forall k l e, marker_at s' k = Some (l, e) -> e < length (evset s').
Proof.
  tcases T; intros k0 l0 e0 Hm0.
  all: try solve [ eapply Nat.lt_le_trans; [eapply M; exact Hm0|len_tac] ].
  all: proj_norm; rewrite lget_lset in Hm0; destruct (Nat.eqb_spec (ckey cr) k0); try discriminate.
  all: try solve [ eapply Nat.lt_le_trans; [eapply M; exact Hm0|len_tac] ].
  injection Hm0 as <- <-. len_tac.
Qed.

Hypothesis W : forall c cr e, getc s c = Some cr -> await_ev (cpc cr) = Some e -> e < length (evset s).

Lemma pres_lW : forall c cr e, getc s' c = Some cr -> await_ev (cpc cr) = Some e -> e < length (evset s').
Proof.
  tcases T; intros c' cr' e' Hg Ho; start; rewrite ?ms_await in *.
  all: try solve [ eapply Nat.lt_le_trans; [eapply W; eauto|len_tac] ].
  all: mv_simpl; try discriminate; try (injection Ho as <-).
  all: try solve [ eapply Nat.lt_le_trans;
                   [eapply W; [eassumption|]; match goal with Hc : cpc _ = _ |- _ => rewrite Hc end; reflexivity
                   |len_tac] ].
  all: try solve [ eapply M; eassumption ].
Qed.

Hypothesis L : forall h, lock s = Some h -> holder_ok s h.

Lemma pres_lL : forall h, lock s' = Some h -> holder_ok s' h.
Proof.
  tcases T; intros h Hl; proj_norm; try discriminate Hl.
  all: try solve [ apply L in Hl;
                   first [ apply holder_ms; exact Hl | eapply holder_cancel; eassumption
                         | eapply holder_same; [reflexivity|exact Hl] ] ].
  all: try solve [ apply L in Hl;
    eapply holder_set_pc; [reflexivity|eassumption|exact Hl|];
    intros _ Hx;
    match goal with
    | Hp : can_probe _ _ |- _ => rewrite (can_probe_locked _ _ Hp) in Hx; discriminate
    | Hp : _ \/ _ |- _ => rewrite (waiting_locked _ Hp) in Hx; discriminate
    | Hc : cpc _ = _ |- _ => rewrite Hc in Hx; simpl in Hx; try discriminate; mv_simpl; reflexivity
    end ].
  all: try solve [ injection Hl as <-; eexists; split;
                   [erewrite getc_set_pc by eassumption; rewrite Nat.eqb_refl; reflexivity|reflexivity] ].
Qed.

Definition comp_ok (s : state) (c : nat) (cr : crec) (i : nat) : Prop :=
  exists ir, nth_error (invs s) i = Some ir /\ icaller ir = c /\ iloop ir = cloop cr
             /\ (istat ir = IActive \/ istat ir = IAband)
             /\ (lp s (cloop cr) = LRun -> istat ir = IActive).

Hypothesis CI : forall c cr i e, getc s c = Some cr -> cpc cr = PComp i e -> comp_ok s c cr i.

Lemma pres_lI : forall c cr i e, getc s' c = Some cr -> cpc cr = PComp i e -> comp_ok s' c cr i.
Proof.
  tcases T; intros c1 cr1 i1 e1 Hg1 Hp1; start.
  all: try solve [ eapply CI; eauto ].
  all: mv_simpl; try discriminate.
  all: try solve [ eapply CI; eauto ].
  - injection Hp1 as <- <-. unfold comp_ok. proj_norm. eexists. rewrite nth_error_snoc, Nat.eqb_refl.
    split; [reflexivity|]. simpl. auto.
  - destruct (CI _ _ _ _ Hg1 Hp1) as (jr & Hj & Hc & Hl & Hs & Hr). exists jr. proj_norm.
    rewrite nth_error_snoc. apply nth_error_Some_lt in Hj as Hlt.
    destruct (Nat.eqb_spec i1 (length (invs s))); [lia|]. auto.
  - destruct (CI _ _ _ _ Hg1 Hp1) as (jr & Hj & Hc & Hl & Hs & Hr). exists jr. proj_norm.
    erewrite nth_error_lset by (eapply nth_error_Some_lt; eassumption).
    destruct (Nat.eqb_spec i i1); [exfalso; congruence|]. auto.
  - destruct (CI _ _ _ _ Hg1 Hp1) as (jr & Hj & Hc & Hl & Hs & Hr). exists jr. proj_norm.
    erewrite nth_error_lset by (eapply nth_error_Some_lt; eassumption).
    destruct (Nat.eqb_spec i i1); [exfalso; congruence|]. auto.
  - destruct (CI _ _ _ _ Hg1 Hp1) as (jr & Hj & Hc & Hl & Hs & Hr). exists jr. proj_norm.
    erewrite nth_error_lset by (eapply nth_error_Some_lt; eassumption).
    destruct (Nat.eqb_spec i i1); [exfalso; congruence|]. auto.
  - exact (CI _ _ _ _ H Hp1).
  - destruct (CI _ _ _ _ Hg1 Hp1) as (jr & Hj & Hc & Hl & Hs & Hr). exists (abandon t jr). proj_norm.
    rewrite nth_error_map, Hj. split; [reflexivity|]. unfold abandon.
    destruct (Nat.eqb_spec (iloop jr) t) as [Hq|Hq].
    + rewrite lget_lset, <- Hl, Hq, Nat.eqb_refl.
      destruct Hs as [Hs | Hs]; rewrite Hs; simpl; repeat split; auto; try congruence; try (intros Hx; discriminate Hx).
    + rewrite lget_lset_neq by congruence.
      destruct Hs as [Hs | Hs]; rewrite Hs; simpl; repeat split; auto; try rewrite Hs; auto.
  - destruct (CI _ _ _ _ Hg1 Hp1) as (jr & Hj & Hc & Hl & Hs & Hr). exists jr. proj_norm.
    repeat split; auto. intros Hx. apply Hr. rewrite lget_lset in Hx.
    destruct (Nat.eqb_spec t (cloop cr1)); [discriminate|assumption].
  - destruct (CI _ _ _ _ Hg1 Hp1) as (jr & Hj & Hc & Hl & Hs & Hr). exists jr. proj_norm.
    repeat split; auto. intros Hx. apply Hr. rewrite lget_lset in Hx.
    destruct (Nat.eqb_spec t (cloop cr1)); [discriminate|assumption].
  - destruct (CI _ _ _ _ Hg1 Hp1) as (jr & Hj & Hc & Hl & Hs & Hr). exists jr. proj_norm.
    repeat split; auto. intros Hx. apply Hr. rewrite lget_lset in Hx.
    destruct (Nat.eqb_spec t (cloop cr1)); [discriminate|assumption].
  - assert (Hp0 : cpc cr0 = PComp i1 e1).
    { destruct (mark_started_props s cr0) as (_ & _ & _ & [Hq | (l & e & dl & xd & Hq & Hq')]); congruence. }
    destruct (CI _ _ _ _ Hg0 Hp0) as (jr & Hj & Hc & Hl & Hs & Hr). exists jr.
    rewrite ms_loop. auto.
Qed.

Hypothesis D : forall c cr dl, getc s c = Some cr -> dl_of (cpc cr) = Some dl -> (dl <= now s + SAFETY)%N.

Lemma pres_lT : forall c cr dl, getc s' c = Some cr -> dl_of (cpc cr) = Some dl -> (dl <= now s' + SAFETY)%N.
Proof.
  tcases T; intros c1 cr1 dl1 Hg1 Hd1; start; rewrite ?ms_dl in *; proj_norm.
  all: try solve [ eapply D; eauto ].
  all: try solve [ etransitivity; [eapply D; eauto|lia] ].
  all: mv_simpl; try discriminate; try (injection Hd1 as <-); try reflexivity.
  all: try solve [ eapply D; eauto; oldown ].
Qed.

Hypothesis NS : forall c cr, getc s c = Some cr -> suspended (cpc cr) = false -> alive (lp s (cloop cr)) = true.

Lemma pres_lS : forall c cr, getc s' c = Some cr -> suspended (cpc cr) = false -> alive (lp s' (cloop cr)) = true.
Proof.
  tcases T; intros c1 cr1 Hg1 Hs1; start; rewrite ?ms_susp, ?ms_loop in *; simpl cloop; lp_norm;
    simpl in Hs1; try discriminate Hs1.
  all: try solve [ eapply NS; eauto ].
  all: try solve [ match goal with Hr : lp s _ = LRun |- _ => rewrite Hr; reflexivity end ].
  all: try solve [ congruence ].
  all: unfold lp in *; simpl loops; rewrite lget_lset; destruct (Nat.eqb_spec t (cloop cr1)) as [Hq|Hq];
    try reflexivity; try solve [ eapply NS; eauto ].
  - pose proof (forallb_nth _ _ _ _ H0 Hg1) as Hx. unfold on_loop in Hx.
    rewrite <- Hq, Nat.eqb_refl in Hx. congruence.
  - pose proof (forallb_nth _ _ _ _ H0 Hg1) as Hx. unfold on_loop in Hx.
    rewrite <- Hq, Nat.eqb_refl in Hx. destruct (cpc cr1); simpl in *; congruence.
  - pose proof (NS _ _ Hg1 Hs1) as Hx. rewrite <- Hq, H in Hx. discriminate.
Qed.
End Pres.

(* ---- the liveness-supporting invariant ---- *)
Record LInv (s : state) : Prop := mkLInv {
  lA : forall e, e < length (evset s) -> isset s e = true \/ owned s e;
  lM : forall k l e, marker_at s k = Some (l, e) -> e < length (evset s);
  lW : forall c cr e, getc s c = Some cr -> await_ev (cpc cr) = Some e -> e < length (evset s);
  lL : forall h, lock s = Some h -> holder_ok s h;
  lI : forall c cr i e, getc s c = Some cr -> cpc cr = PComp i e -> comp_ok s c cr i;
  lT : forall c cr dl, getc s c = Some cr -> dl_of (cpc cr) = Some dl -> (dl <= now s + SAFETY)%N;
  lS : forall c cr, getc s c = Some cr -> suspended (cpc cr) = false -> alive (lp s (cloop cr)) = true;
  lE : ended s = true -> forall t, alive (lp s t) = false
}.

Lemma init_pc n tbl c cr : getc (init n tbl) c = Some cr -> cpc cr = PStart.
Proof.
  intros H. unfold getc, init in H. simpl in H. rewrite nth_error_map in H.
  destruct (nth_error tbl c); simpl in H; [injection H as <-|discriminate]. reflexivity.
Qed.

Lemma LInv_init n tbl : LInv (init n tbl).
Proof.
  constructor; intros.
  - simpl in H. lia.
  - unfold marker_at in H. simpl in H. destruct k; discriminate.
  - apply init_pc in H. rewrite H in H0. discriminate.
  - discriminate.
  - apply init_pc in H. congruence.
  - apply init_pc in H. rewrite H in H0. discriminate.
  - apply init_pc in H. rewrite H in H0. discriminate.
  - discriminate.
Qed.

Lemma trans_ended s e s' : trans s e s' -> ended s' = ended s \/ e = End 0.
Proof. intros T. tcases T; simpl; auto. Qed.

Lemma lget_forallb {A} (d : A) (f : A -> bool) l n : forallb f l = true -> f d = true -> f (lget d l n) = true.
Proof.
  revert n. induction l as [|x r IH]; intros n H Hd; simpl in *.
  - destruct n; assumption.
  - apply andb_prop in H as [H1 H2]. destruct n; auto.
Qed.

Lemma pres_LInv s e s' : Inv s -> LInv s -> step s e = Some s' -> LInv s'.
Proof.
  intros I [A M W L CI D NS E] Hs. apply step_trans in Hs as [Hend T].
  constructor.
  - eapply pres_lA; eauto.
  - eapply pres_lM; eauto.
  - eapply pres_lW; eauto.
  - eapply pres_lL; eauto.
  - eapply pres_lI; eauto.
  - eapply pres_lT; eauto.
  - eapply pres_lS; eauto.
  - intros He t. destruct (trans_ended _ _ _ T) as [Hq | ->]; [congruence|].
    inversion T; subst. unfold lp. simpl.
    apply negb_true_iff. apply (lget_forallb LClosed (fun st => negb (alive st))); auto.
Qed.

Lemma run_LInv0 : forall tr s s', Inv s -> LInv s -> run s tr = Some s' -> Inv s' /\ LInv s'.
Proof.
  induction tr as [|e tr IH]; intros s s' I LI H; simpl in H.
  - injection H as <-. auto.
  - destruct (step s e) as [s1|] eqn:Hs; [|discriminate].
    eapply IH; [| |exact H].
    + apply step_trans in Hs as [_ Ht]. eapply pres_Inv1; eauto.
    + eapply pres_LInv; eauto.
Qed.

Lemma run_LInv nloops tbl tr s : run (init nloops tbl) tr = Some s -> Inv s /\ LInv s.
Proof. apply run_LInv0; [apply Inv_init|apply LInv_init]. Qed.

Lemma live_not_ended s t : LInv s -> alive (lp s t) = true -> ended s = false.
Proof.
  intros LI Ha. destruct (ended s) eqn:He; auto. rewrite (lE s LI He t) in Ha. discriminate.
Qed.

(* ================= 1. no lost wake-up ================= *)
Lemma no_lost_wakeup_state s : LInv s ->
  forall c cr e, getc s c = Some cr -> await_ev (cpc cr) = Some e ->
    isset s e = true \/ exists d dr, getc s d = Some dr /\ own_ev (cpc dr) = Some e.
Proof. intros LI c cr e Hg Hw. apply (lA s LI). eapply (lW s LI); eauto. Qed.

Lemma no_lost_wakeup_run nloops tbl tr s : run (init nloops tbl) tr = Some s ->
  forall c cr l e, getc s c = Some cr ->
    (cpc cr = PUnlock (DWait l e) \/ cpc cr = PXSub l e \/ (exists dl, cpc cr = PWait e dl)
     \/ (exists dl xd xs, cpc cr = PWaitX l e dl xd xs)) ->
    isset s e = true \/ exists d dr, getc s d = Some dr /\ own_ev (cpc dr) = Some e /\ d <> c.
Proof.
  intros H c cr l e Hg Hp. destruct (run_LInv _ _ _ _ H) as [I LI].
  assert (Hw : await_ev (cpc cr) = Some e).
  { destruct Hp as [Hp | [Hp | [(dl & Hp) | (dl & xd & xs & Hp)]]]; rewrite Hp; reflexivity. }
  destruct (no_lost_wakeup_state s LI c cr e Hg Hw) as [Hs | (d & dr & Hd & Ho)]; [left; exact Hs|right].
  exists d, dr. repeat split; auto. intros ->. rewrite Hg in Hd. injection Hd as <-.
  destruct Hp as [Hp | [Hp | [(dl & Hp) | (dl & xd & xs & Hp)]]]; rewrite Hp in Ho; discriminate.
Qed.

(* ================= enabledness of single steps ================= *)
Lemma en_get_wait s c cr e dl :
  ended s = false -> getc s c = Some cr -> lp s (cloop cr) = LRun -> ccanc cr = false ->
  cpc cr = PWait e dl -> (isset s e = true \/ (dl <= now s)%N) ->
  step s (Get (cloop cr) c) <> None.
Proof.
  intros He Hg Hr Hc Hp Hw. unfold step. rewrite He, Hg, Nat.eqb_refl, Hr, Hp, Hc. simpl.
  replace (isset s e || (dl <=? now s)%N) with true; [discriminate|].
  symmetry. apply orb_true_iff. destruct Hw; [left|right]; auto. apply N.leb_le. assumption.
Qed.

Lemma en_get_waitx s c cr l e dl xd xs :
  ended s = false -> getc s c = Some cr -> lp s (cloop cr) = LRun -> ccanc cr = false ->
  cpc cr = PWaitX l e dl xd xs -> (xd <> None \/ (dl <= now s)%N) ->
  step s (Get (cloop cr) c) <> None.
Proof.
  intros He Hg Hr Hc Hp Hw. unfold step. rewrite He, Hg, Nat.eqb_refl, Hr, Hp, Hc. simpl.
  destruct xd; simpl; [discriminate|]. destruct Hw as [Hw|Hw]; [congruence|].
  apply N.leb_le in Hw. rewrite Hw. discriminate.
Qed.

Lemma en_proxy0 s c cr l e dl xs :
  ended s = false -> getc s c = Some cr -> cpc cr = PWaitX l e dl None xs ->
  isset s e = true -> alive (lp s l) = true -> step s (Proxy l c 0) <> None.
Proof.
  intros He Hg Hp Hs Ha. unfold step. rewrite He, Hg, Hp, Nat.eqb_refl, Hs, Ha. simpl. discriminate.
Qed.

(* ================= 3. promptness ================= *)
Lemma alive_cases st : alive st = true -> st = LRun \/ st = LShut.
Proof. destruct st; simpl; auto; discriminate. Qed.

Definition adv_guard_at (s : state) (t : N) (cr : crec) : Prop :=
  (lp s (cloop cr) = LShut -> done_or_unstarted (cpc cr) = true)
  /\ (lp s (cloop cr) = LRun ->
      suspended (cpc cr) = true
      /\ (forall i e, cpc cr = PComp i e -> ccanc cr = false)
      /\ (forall e dl, cpc cr = PWait e dl ->
            ccanc cr = false /\ isset s e = false /\ (now s < dl)%N /\ (t <= dl)%N)
      /\ (forall l e dl xd xs, cpc cr = PWaitX l e dl xd xs ->
            ccanc cr = false /\ xd = None /\ (isset s e = false \/ alive (lp s l) = false)
            /\ (now s < dl)%N /\ (t <= dl)%N)).

Lemma blocked_guard s t cr : blocked s t cr = true -> adv_guard_at s t cr.
Proof.
  unfold blocked, adv_guard_at. intros H. split; intros Ha; rewrite Ha in H; [exact H|].
  destruct (cpc cr) eqn:Hp; try discriminate H; simpl; (split; [reflexivity|]);
    repeat split; try discriminate; intros.
  all: try match goal with Hq : _ = _ |- _ => injection Hq as <- <- end.
  all: try (apply negb_true_iff; assumption).
  all: repeat match goal with Hq : (_ && _) = true |- _ => apply andb_prop in Hq; destruct Hq end.
  all: repeat match goal with
              | Hq : negb _ = true |- _ => apply negb_true_iff in Hq
              | Hq : (_ <? _)%N = true |- _ => apply N.ltb_lt in Hq
              | Hq : (_ <=? _)%N = true |- _ => apply N.leb_le in Hq
              end; subst; auto.
  - destruct xd0; [discriminate|reflexivity].
  - apply andb_false_iff. assumption.
Qed.

Lemma adv_guard s t s' : step s (Adv t) = Some s' ->
  lock s = None /\ (now s <= t)%N /\ forall c cr, getc s c = Some cr -> adv_guard_at s t cr.
Proof.
  intros H. unfold step in H. destruct (ended s); [discriminate|]. unfold guard in H.
  destruct ((now s <=? t)%N && quiescent s t) eqn:Hq; [|discriminate].
  apply andb_prop in Hq as [H1 H2]. apply N.leb_le in H1.
  unfold quiescent in H2. destruct (lock s) eqn:Hl; [discriminate|].
  split; [reflexivity|]. split; [assumption|]. intros c cr Hg. apply blocked_guard. eapply forallb_nth; eauto.
Qed.

(* the state after the wake-up step: only the pc of c changed *)
Lemma step_get_wait s c cr :
  ended s = false -> getc s c = Some cr -> lp s (cloop cr) = LRun -> ccanc cr = false ->
  (exists e dl, cpc cr = PWait e dl /\ (isset s e = true \/ (dl <= now s)%N))
  \/ (exists l e dl xd xs, cpc cr = PWaitX l e dl xd xs /\ (xd <> None \/ (dl <= now s)%N)) ->
  step s (Get (cloop cr) c) = Some (set_pc s c cr (probe_pc s cr)).
Proof.
  intros He Hg Hr Hc Hp. rewrite <- do_probe_eq. unfold step. rewrite He, Hg, Nat.eqb_refl, Hr. simpl.
  destruct Hp as [(e & dl & Hp & Hw) | (l & e & dl & xd & xs & Hp & Hw)]; rewrite Hp, Hc; simpl.
  - replace (isset s e || (dl <=? now s)%N) with true; [reflexivity|].
    symmetry. apply orb_true_iff. destruct Hw; [left|right]; auto. apply N.leb_le. assumption.
  - destruct xd; simpl; [reflexivity|]. destruct Hw as [Hw|Hw]; [congruence|].
    apply N.leb_le in Hw. rewrite Hw. reflexivity.
Qed.

Lemma step_proxy0 s c cr l e dl xs :
  ended s = false -> getc s c = Some cr -> cpc cr = PWaitX l e dl None xs ->
  isset s e = true -> alive (lp s l) = true ->
  step s (Proxy l c 0) = Some (set_pc s c cr (PWaitX l e dl (Some 0) xs)).
Proof.
  intros He Hg Hp Hs Ha. unfold step. rewrite He, Hg, Hp, Nat.eqb_refl, Hs, Ha. reflexivity.
Qed.

Lemma prompt_state s : Inv s -> LInv s ->
  (forall t s', step s (Adv t) = Some s' ->
     lock s = None /\ (now s <= t)%N /\ forall c cr, getc s c = Some cr -> adv_guard_at s t cr)
  /\ (forall c cr, getc s c = Some cr -> ccanc cr = false -> lp s (cloop cr) = LRun ->
        (forall e dl, cpc cr = PWait e dl -> isset s e = true ->
           exists s1, step s (Get (cloop cr) c) = Some s1 /\ now s1 = now s)
        /\ (forall l e dl xs, cpc cr = PWaitX l e dl None xs -> isset s e = true -> alive (lp s l) = true ->
              exists s2, run s [Proxy l c 0; Get (cloop cr) c] = Some s2 /\ now s2 = now s)
        /\ (forall l e dl r xs, cpc cr = PWaitX l e dl (Some r) xs ->
              exists s1, step s (Get (cloop cr) c) = Some s1 /\ now s1 = now s)).
Proof.
  intros I LI. split; [intros t s' H; eapply adv_guard; eauto|].
  intros c cr Hg Hc Hr.
  assert (He : ended s = false) by (eapply live_not_ended; [eauto|rewrite Hr; reflexivity]).
  repeat split.
  - intros e dl Hp Hs. eexists. split; [apply step_get_wait; eauto 10|reflexivity].
  - intros l e dl xs Hp Hs Ha.
    set (s1 := set_pc s c cr (PWaitX l e dl (Some 0) xs)).
    set (cr1 := mkC (cloop cr) (ckey cr) (PWaitX l e dl (Some 0) xs) (ccanc cr)).
    assert (Hg1 : getc s1 c = Some cr1).
    { unfold s1. erewrite getc_set_pc by eassumption. rewrite Nat.eqb_refl. reflexivity. }
    assert (Hx : step s1 (Get (cloop cr1) c) = Some (set_pc s1 c cr1 (probe_pc s1 cr1))).
    { apply step_get_wait; auto. right. exists l, e, dl, (Some 0), xs. split; [reflexivity|left; discriminate]. }
    exists (set_pc s1 c cr1 (probe_pc s1 cr1)). split; [|reflexivity].
    unfold run. erewrite step_proxy0 by eauto. fold s1. change (cloop cr) with (cloop cr1). rewrite Hx. reflexivity.
  - intros l e dl r xs Hp. eexists. split; [apply step_get_wait; eauto|reflexivity].
    right. exists l, e, dl, (Some r), xs. split; auto. left. discriminate.
Qed.

Lemma prompt_run nloops tbl tr s : run (init nloops tbl) tr = Some s ->
  (forall t s', step s (Adv t) = Some s' ->
     lock s = None /\ (now s <= t)%N /\ forall c cr, getc s c = Some cr -> adv_guard_at s t cr)
  /\ (forall c cr, getc s c = Some cr -> ccanc cr = false -> lp s (cloop cr) = LRun ->
        (forall e dl, cpc cr = PWait e dl -> isset s e = true ->
           exists s1, step s (Get (cloop cr) c) = Some s1 /\ now s1 = now s)
        /\ (forall l e dl xs, cpc cr = PWaitX l e dl None xs -> isset s e = true -> alive (lp s l) = true ->
              exists s2, run s [Proxy l c 0; Get (cloop cr) c] = Some s2 /\ now s2 = now s)
        /\ (forall l e dl r xs, cpc cr = PWaitX l e dl (Some r) xs ->
              exists s1, step s (Get (cloop cr) c) = Some s1 /\ now s1 = now s)).
Proof. intros H. destruct (run_LInv _ _ _ _ H). apply prompt_state; auto. Qed.

(* ================= 4. rescue within the safety window ================= *)
Definition waits_until (cr : crec) (dl : N) : Prop :=
  (exists e, cpc cr = PWait e dl) \/ (exists l e xd xs, cpc cr = PWaitX l e dl xd xs).

Lemma waits_until_dl cr dl : waits_until cr dl -> dl_of (cpc cr) = Some dl.
Proof. intros [(e & H) | (l & e & xd & xs & H)]; rewrite H; reflexivity. Qed.

Lemma lget_ge {A} (d : A) l n : length l <= n -> lget d l n = d.
Proof. revert n. induction l as [|x r IH]; intros [|n] H; simpl in *; auto; try lia. apply IH. lia. Qed.

Lemma step_takeover s c cr :
  ended s = false -> getc s c = Some cr -> lp s (cloop cr) = LRun -> cpc cr = PMiss2 ->
  (marker_at s (ckey cr) = None
   \/ exists l e, marker_at s (ckey cr) = Some (l, e) /\ alive (lp s l) = false) ->
  exists s1 cr1, step s (Miss (cloop cr) c) = Some s1 /\ getc s1 c = Some cr1
                 /\ cpc cr1 = PUnlock (DComp (length (evset s)))
                 /\ marker_at s1 (ckey cr) = Some (cloop cr, length (evset s))
                 /\ isset s1 (length (evset s)) = false.
Proof.
  intros He Hg Hr Hp Hm.
  assert (Hs : step s (Miss (cloop cr) c) = Some (decide s c cr)).
  { unfold step. rewrite He, Hg, Nat.eqb_refl, Hr, Hp. reflexivity. }
  destruct (decide_cases s c cr) as [(l & e & Hm' & Ha & _) | (_ & Hq)].
  - exfalso. destruct Hm as [Hm | (l' & e' & Hm & Ha')]; [congruence|].
    rewrite Hm in Hm'. injection Hm' as <- <-. congruence.
  - rewrite Hq in Hs. eexists _, _. split; [exact Hs|]. split.
    + erewrite getc_set_pc by eassumption. rewrite Nat.eqb_refl. reflexivity.
    + split; [reflexivity|]. proj_norm. rewrite lget_lset_eq. split; [reflexivity|].
      rewrite lget_app_default. apply lget_ge. lia.
Qed.

Lemma step_xsub_closed s c cr l e :
  ended s = false -> getc s c = Some cr -> lp s (cloop cr) = LRun -> cpc cr = PXSub l e ->
  lp s l = LClosed -> step s (XSub (cloop cr) c) = Some (set_pc s c cr PProbe).
Proof. intros He Hg Hr Hp Hl. unfold step. rewrite He, Hg, Nat.eqb_refl, Hr, Hp, Hl. reflexivity. Qed.

Lemma rescue_state s : Inv s -> LInv s ->
  forall c cr, getc s c = Some cr ->
  (forall dl, waits_until cr dl ->
     (dl <= now s + SAFETY)%N
     /\ (ccanc cr = false -> lp s (cloop cr) = LRun -> (dl <= now s)%N ->
         exists s1, step s (Get (cloop cr) c) = Some s1 /\ now s1 = now s)
     /\ (alive (lp s (cloop cr)) = true -> forall t s', step s (Adv t) = Some s' -> (t <= dl)%N))
  /\ (lp s (cloop cr) = LRun -> cpc cr = PMiss2 ->
      (marker_at s (ckey cr) = None
       \/ exists l e, marker_at s (ckey cr) = Some (l, e) /\ alive (lp s l) = false) ->
      exists s1 cr1, step s (Miss (cloop cr) c) = Some s1 /\ getc s1 c = Some cr1
                     /\ cpc cr1 = PUnlock (DComp (length (evset s)))
                     /\ marker_at s1 (ckey cr) = Some (cloop cr, length (evset s))
                     /\ isset s1 (length (evset s)) = false)
  /\ (forall l e, lp s (cloop cr) = LRun -> cpc cr = PXSub l e -> lp s l = LClosed ->
      step s (XSub (cloop cr) c) = Some (set_pc s c cr PProbe)).
Proof.
  intros I LI c cr Hg. split; [|split].
  - intros dl Hw. split; [|split].
    + eapply (lT s LI); eauto. apply waits_until_dl. assumption.
    + intros Hc Hr Hd.
      assert (He : ended s = false) by (eapply live_not_ended; [eauto|rewrite Hr; reflexivity]).
      eexists. split; [apply step_get_wait; auto|reflexivity].
      destruct Hw as [(e & Hp) | (l & e & xd & xs & Hp)]; [left|right]; eauto 10.
    + intros Ha t s' Hs. apply adv_guard in Hs as (_ & _ & Hb). specialize (Hb c cr Hg).
      destruct Hb as (Hsh & Hb). destruct (alive_cases _ Ha) as [Hrun | Hshut].
      2:{ specialize (Hsh Hshut). exfalso.
          destruct Hw as [(e & Hp) | (l & e & xd & xs & Hp)]; rewrite Hp in Hsh; discriminate. }
      destruct (Hb Hrun) as (_ & _ & Hb1 & Hb2).
      destruct Hw as [(e & Hp) | (l & e & xd & xs & Hp)].
      * apply (Hb1 _ _ Hp).
      * apply (Hb2 _ _ _ _ _ Hp).
  - intros Hr Hp Hm. apply step_takeover; auto. eapply live_not_ended; [eauto|rewrite Hr; reflexivity].
  - intros l e Hr Hp Hl. apply (step_xsub_closed s c cr l e); auto.
    eapply live_not_ended; [eauto|rewrite Hr; reflexivity].
Qed.

Lemma rescue_within_60_run nloops tbl tr s : run (init nloops tbl) tr = Some s ->
  forall c cr, getc s c = Some cr ->
  (forall dl, waits_until cr dl ->
     (dl <= now s + SAFETY)%N
     /\ (ccanc cr = false -> lp s (cloop cr) = LRun -> (dl <= now s)%N ->
         exists s1, step s (Get (cloop cr) c) = Some s1 /\ now s1 = now s)
     /\ (alive (lp s (cloop cr)) = true -> forall t s', step s (Adv t) = Some s' -> (t <= dl)%N))
  /\ (lp s (cloop cr) = LRun -> cpc cr = PMiss2 ->
      (marker_at s (ckey cr) = None
       \/ exists l e, marker_at s (ckey cr) = Some (l, e) /\ alive (lp s l) = false) ->
      exists s1 cr1, step s (Miss (cloop cr) c) = Some s1 /\ getc s1 c = Some cr1
                     /\ cpc cr1 = PUnlock (DComp (length (evset s)))
                     /\ marker_at s1 (ckey cr) = Some (cloop cr, length (evset s))
                     /\ isset s1 (length (evset s)) = false)
  /\ (forall l e, lp s (cloop cr) = LRun -> cpc cr = PXSub l e -> lp s l = LClosed ->
      step s (XSub (cloop cr) c) = Some (set_pc s c cr PProbe)).
Proof. intros H. destruct (run_LInv _ _ _ _ H). apply rescue_state; auto. Qed.

(* ================= enabledness of the remaining steps ================= *)
Definition enabled (s : state) (e : ev) : Prop := exists s', step s e = Some s'.

Lemma enabled_neq s e : enabled s e -> step s e <> None.
Proof. intros (s' & H). congruence. Qed.

Section En.
Variables (s : state) (c : nat) (cr : crec).
Hypothesis He : ended s = false.
Hypothesis Hg : getc s c = Some cr.

Lemma en_get : lp s (cloop cr) = LRun -> (cpc cr = PProbe \/ cpc cr = PReprobe) -> enabled s (Get (cloop cr) c).
Proof.
  intros Hr Hp. unfold enabled, step. rewrite He, Hg, Nat.eqb_refl, Hr. simpl.
  destruct Hp as [-> | ->]; eauto.
Qed.

Lemma en_miss : lp s (cloop cr) = LRun -> (cpc cr = PMiss1 \/ cpc cr = PMiss2) -> enabled s (Miss (cloop cr) c).
Proof.
  intros Hr Hp. unfold enabled, step. rewrite He, Hg, Nat.eqb_refl, Hr. simpl.
  destruct Hp as [-> | ->]; eauto.
Qed.

Lemma en_acq_lock : lp s (cloop cr) = LRun -> cpc cr = PLock -> lock s = None -> enabled s (Acq (cloop cr) c).
Proof.
  intros Hr Hp Hl. unfold enabled, step. rewrite He, Hg, Hl, Nat.eqb_refl, Hr, Hp. simpl. eauto.
Qed.

Lemma en_acq_fin e o : alive (lp s (cloop cr)) = true -> cpc cr = PFinLock e o -> lock s = None ->
  enabled s (Acq (cloop cr) c).
Proof.
  intros Hr Hp Hl. unfold enabled, step. rewrite He, Hg, Hl, Nat.eqb_refl, Hr, Hp. simpl. eauto.
Qed.

Lemma en_rel : alive (lp s (cloop cr)) = true -> lock s = Some c ->
  ((exists d, cpc cr = PUnlock d) \/ (exists o, cpc cr = PFinUnlock o)) -> enabled s (Rel (cloop cr) c).
Proof.
  intros Hr Hl Hp. unfold enabled, step. rewrite He, Hg, Hl, !Nat.eqb_refl, Hr. simpl.
  destruct Hp as [([v| e| l e] & ->) | (o & ->)]; eauto.
Qed.

Lemma en_xsub l e : lp s (cloop cr) = LRun -> cpc cr = PXSub l e -> enabled s (XSub (cloop cr) c).
Proof.
  intros Hr Hp. unfold enabled, step. rewrite He, Hg, Nat.eqb_refl, Hr, Hp. simpl. eauto.
Qed.

Lemma en_setc i e : lp s (cloop cr) = LRun -> cpc cr = PPublish i e -> enabled s (SetC (cloop cr) c).
Proof.
  intros Hr Hp. unfold enabled, step. rewrite He, Hg, Nat.eqb_refl, Hr, Hp. simpl. eauto.
Qed.

Lemma en_istart e : lp s (cloop cr) = LRun -> cpc cr = PInvoke e ->
  enabled s (IStart (length (invs s)) c (now s)).
Proof.
  intros Hr Hp. unfold enabled, step. rewrite He, Hg, N.eqb_refl, Nat.eqb_refl, Hr, Hp. simpl. eauto.
Qed.

Lemma en_iend_canc i e ir : alive (lp s (cloop cr)) = true -> cpc cr = PComp i e ->
  nth_error (invs s) i = Some ir -> icaller ir = c -> (istat ir = IActive \/ istat ir = IAband) ->
  ccanc cr = true -> enabled s (IEnd i 2 (now s)).
Proof.
  intros Hr Hp Hi Hc Hs Hx. unfold enabled, step. rewrite He, Hi, Hc, Hg, N.eqb_refl, Hr, Hp, Nat.eqb_refl, Hx.
  simpl. destruct Hs as [-> | ->]; simpl; eauto.
Qed.

Lemma en_iend_live i e ir r : alive (lp s (cloop cr)) = true -> cpc cr = PComp i e ->
  nth_error (invs s) i = Some ir -> icaller ir = c -> istat ir = IActive ->
  ccanc cr = false -> (r = 0 \/ r = 1) -> enabled s (IEnd i r (now s)).
Proof.
  intros Hr Hp Hi Hc Hs Hx Hrr. unfold enabled, step.
  rewrite He, Hi, Hc, Hg, N.eqb_refl, Hr, Hp, Nat.eqb_refl, Hx, Hs.
  simpl. destruct Hrr as [-> | ->]; simpl; eauto.
Qed.

Lemma en_done_fin o : alive (lp s (cloop cr)) = true -> cpc cr = PFinish o ->
  enabled s (Done c (fst (enc o)) (snd (enc o)) (now s)).
Proof.
  intros Hr Hp. unfold enabled, step. rewrite He, Hg, N.eqb_refl, Hr, Hp, !Nat.eqb_refl. simpl. eauto.
Qed.

Lemma en_done_canc : alive (lp s (cloop cr)) = true -> waiting cr -> ccanc cr = true ->
  enabled s (Done c 2 0 (now s)).
Proof.
  intros Hr Hp Hx. unfold enabled, step. rewrite He, Hg, N.eqb_refl, Hr, Hx. simpl.
  destruct Hp as [(e & dl & ->) | (l & e & dl & xd & xs & ->)]; simpl; eauto.
Qed.

Lemma en_cancel : alive (lp s (cloop cr)) = true -> suspended (cpc cr) = true -> is_done (cpc cr) = false ->
  enabled s (Cancel c (now s)).
Proof.
  intros Hr Hp Hx. unfold enabled, step. rewrite He, Hg, N.eqb_refl, Hr, Hp, Hx. simpl. eauto.
Qed.
End En.

(* ================= 2. the owner can finish ================= *)
Lemma fin_sets s t d dr e o s' :
  getc s d = Some dr -> cpc dr = PFinLock e o -> step s (Acq t d) = Some s' ->
  isset s' e = true /\ exists dr', getc s' d = Some dr' /\ cpc dr' = PFinUnlock o.
Proof.
  intros Hg Hp Hs. unfold step in Hs. destruct (ended s); [discriminate|]. rewrite Hg in Hs.
  destruct (lock s); [discriminate|].
  destruct ((cloop dr =? t) && alive (lp s t)); [|discriminate]. rewrite Hp in Hs. injection Hs as <-.
  destruct (fin_cases s d dr e o) as [(_ & ->) | (_ & ->)]; proj_norm; rewrite lget_lset_eq;
    (split; [reflexivity|]); erewrite getc_set_pc by eassumption; rewrite Nat.eqb_refl; eauto.
Qed.

Definition owner_next_enabled (s : state) (d : nat) (dr : crec) : Prop :=
  match cpc dr with
  | PUnlock (DComp _) => enabled s (Rel (cloop dr) d)
  | PInvoke _ => enabled s (IStart (length (invs s)) d (now s))
  | PComp i _ =>
      if ccanc dr then enabled s (IEnd i 2 (now s))
      else lp s (cloop dr) = LRun -> enabled s (IEnd i 0 (now s)) /\ enabled s (IEnd i 1 (now s))
  | PPublish _ _ => enabled s (SetC (cloop dr) d)
  | PFinLock _ _ => lock s = None -> enabled s (Acq (cloop dr) d)
  | _ => True
  end.

Lemma owner_can_finish_state s : Inv s -> LInv s ->
  forall d dr e, getc s d = Some dr -> own_ev (cpc dr) = Some e -> alive (lp s (cloop dr)) = true ->
    owner_next_enabled s d dr.
Proof.
  intros I LI d dr e Hg Ho Ha.
  assert (He : ended s = false) by (eapply live_not_ended; eauto).
  unfold owner_next_enabled. destruct (cpc dr) as [| | | | | |[v|e'|l e']| e' | i e' | i e' | e' o | | | | | |] eqn:Hp;
    try exact Logic.I.
  - eapply en_rel; eauto.
    eapply (iB s I); eauto. rewrite Hp. reflexivity.
  - eapply en_istart; eauto. eapply (iC s I); eauto. rewrite Hp. reflexivity.
  - destruct (lI s LI _ _ _ _ Hg Hp) as (ir & Hi & Hc & Hl & Hs & Hr).
    destruct (ccanc dr) eqn:Hx.
    + eapply en_iend_canc; eauto.
    + intros Hrun. split; eapply en_iend_live; eauto.
  - eapply en_setc; eauto. eapply (iC s I); eauto. rewrite Hp. reflexivity.
  - intros Hl. eapply en_acq_fin; eauto.
Qed.

Lemma owner_can_finish_run nloops tbl tr s : run (init nloops tbl) tr = Some s ->
  forall d dr e, getc s d = Some dr -> own_ev (cpc dr) = Some e -> alive (lp s (cloop dr)) = true ->
    owner_next_enabled s d dr
    /\ (forall o s', cpc dr = PFinLock e o -> step s (Acq (cloop dr) d) = Some s' ->
          isset s' e = true /\ exists dr', getc s' d = Some dr' /\ cpc dr' = PFinUnlock o).
Proof.
  intros H d dr e Hg Ho Ha. destruct (run_LInv _ _ _ _ H) as [I LI]. split.
  - eapply owner_can_finish_state; eauto.
  - intros o s' Hp Hs. eapply fin_sets; eauto.
Qed.

(* ================= 5. no deadlock ================= *)
Definition progress_event (s : state) (e : ev) : bool :=
  match e with
  | Get _ _ | Miss _ _ | Acq _ _ | Rel _ _ | SetC _ _ | XSub _ _
  | IStart _ _ _ | IEnd _ _ _ | Done _ _ _ _ | Proxy _ _ _ => true
  | Adv t => (now s <? t)%N
  | Cancel c _ =>
      match getc s c with
      | Some cr => negb (ccanc cr) && match lp s (cloop cr) with LShut => true | _ => false end
      | None => false
      end
  | _ => false
  end.

Definition can_progress (s : state) : Prop := exists e, enabled s e /\ progress_event s e = true.

Lemma holder_progress s h : Inv s -> LInv s -> lock s = Some h -> can_progress s.
Proof.
  intros I LI Hl. destruct (lL s LI h Hl) as (cr & Hg & Hk).
  assert (Ha : alive (lp s (cloop cr)) = true).
  { eapply (lS s LI); eauto. destruct (cpc cr); simpl in *; congruence. }
  assert (He : ended s = false) by (eapply live_not_ended; eauto).
  destruct (cpc cr) eqn:Hp; try discriminate Hk.
  - exists (Get (cloop cr) h). split; [|reflexivity]. eapply en_get; eauto.
    eapply (iC s I); eauto. rewrite Hp. reflexivity.
  - exists (Miss (cloop cr) h). split; [|reflexivity]. eapply en_miss; eauto.
    eapply (iC s I); eauto. rewrite Hp. reflexivity.
  - exists (Rel (cloop cr) h). split; [|reflexivity]. eapply en_rel; eauto.
  - exists (Rel (cloop cr) h). split; [|reflexivity]. eapply en_rel; eauto.
Qed.

Lemma cancel_progress s c cr : ended s = false -> getc s c = Some cr -> lp s (cloop cr) = LShut ->
  suspended (cpc cr) = true -> is_done (cpc cr) = false -> ccanc cr = false -> can_progress s.
Proof.
  intros He Hg Hl Hs Hd Hc. exists (Cancel c (now s)). split.
  - eapply en_cancel; eauto. rewrite Hl. reflexivity.
  - simpl. rewrite Hg, Hc, Hl. reflexivity.
Qed.

Lemma not_blocked_run s c cr : Inv s -> LInv s -> lock s = None -> getc s c = Some cr ->
  lp s (cloop cr) = LRun -> blocked s (now s) cr = false -> can_progress s.
Proof.
  intros I LI Hl Hg Hrun Hb. unfold blocked in Hb. rewrite Hrun in Hb.
  assert (Ha : alive (lp s (cloop cr)) = true) by (rewrite Hrun; reflexivity).
  assert (He : ended s = false) by (eapply live_not_ended; eauto).
  assert (HB : locked_pc (cpc cr) = true -> False).
  { intros Hk. rewrite (iB s I _ _ Hg Hk) in Hl. discriminate. }
  assert (HC : run_pc (cpc cr) = true -> lp s (cloop cr) = LRun) by (apply (iC s I c cr Hg)).
  destruct (cpc cr) eqn:Hp; try discriminate Hb; try (exfalso; apply HB; reflexivity).
  - exists (Get (cloop cr) c). split; [|reflexivity]. eapply en_get; eauto.
  - exists (Miss (cloop cr) c). split; [|reflexivity]. eapply en_miss; eauto.
  - exists (Acq (cloop cr) c). split; [|reflexivity]. eapply en_acq_lock; eauto.
  - exists (IStart (length (invs s)) c (now s)). split; [|reflexivity]. eapply en_istart; eauto.
  - apply negb_false_iff in Hb.
    destruct (lI s LI _ _ _ _ Hg Hp) as (ir & Hi & Hc & Hll & Hs & Hr).
    exists (IEnd i 2 (now s)). split; [|reflexivity]. eapply en_iend_canc; eauto.
  - exists (SetC (cloop cr) c). split; [|reflexivity]. eapply en_setc; eauto.
  - exists (Acq (cloop cr) c). split; [|reflexivity]. eapply en_acq_fin; eauto.
  - exists (XSub (cloop cr) c). split; [|reflexivity]. eapply en_xsub; eauto.
  - (* PWait *)
    destruct (ccanc cr) eqn:Hx.
    { exists (Done c 2 0 (now s)). split; [|reflexivity]. eapply en_done_canc; eauto. left. eauto. }
    destruct (alive_cases _ Ha) as [Hr | Hr];
      [|eapply cancel_progress; eauto; rewrite Hp; reflexivity].
    exists (Get (cloop cr) c). split; [|reflexivity]. eexists. apply step_get_wait; auto.
    left. exists e, dl. split; [assumption|].
    destruct (isset s e); [left; reflexivity|right]. simpl in Hb.
    destruct (N.ltb_spec (now s) dl); destruct (N.leb_spec (now s) dl); simpl in Hb; try discriminate; lia.
  - (* PWaitX *)
    destruct (ccanc cr) eqn:Hx.
    { exists (Done c 2 0 (now s)). split; [|reflexivity]. eapply en_done_canc; eauto. right. eauto 10. }
    destruct (alive_cases _ Ha) as [Hr | Hr];
      [|eapply cancel_progress; eauto; rewrite Hp; reflexivity].
    destruct xd as [r|].
    { exists (Get (cloop cr) c). split; [|reflexivity]. eexists. apply step_get_wait; auto.
      right. exists l, e, dl, (Some r), xs. split; [assumption|left; discriminate]. }
    simpl in Hb.
    destruct (N.ltb_spec (now s) dl) as [Hlt|Hge].
    + destruct (N.leb_spec (now s) dl); [|lia]. simpl in Hb. apply negb_false_iff in Hb.
      apply andb_prop in Hb as [Hs Hal].
      exists (Proxy l c 0). split; [|reflexivity]. eexists. eapply step_proxy0; eauto.
    + exists (Get (cloop cr) c). split; [|reflexivity]. eexists. apply step_get_wait; auto.
      right. exists l, e, dl, None, xs. split; [assumption|right; assumption].
  - exists (Done c (fst (enc o)) (snd (enc o)) (now s)). split; [|reflexivity]. eapply en_done_fin; eauto.
Qed.

Lemma shut_progress s c cr : Inv s -> LInv s -> lock s = None -> getc s c = Some cr ->
  lp s (cloop cr) = LShut -> done_or_unstarted (cpc cr) = false -> can_progress s.
Proof.
  intros I LI Hl Hg Hsh Hd.
  assert (Ha : alive (lp s (cloop cr)) = true) by (rewrite Hsh; reflexivity).
  assert (He : ended s = false) by (eapply live_not_ended; eauto).
  assert (HB : locked_pc (cpc cr) = true -> False).
  { intros Hk. rewrite (iB s I _ _ Hg Hk) in Hl. discriminate. }
  assert (HC : run_pc (cpc cr) = true -> False).
  { intros Hk. rewrite (iC s I c cr Hg Hk) in Hsh. discriminate. }
  destruct (cpc cr) eqn:Hp; try discriminate Hd; try (exfalso; apply HB; reflexivity);
    try (exfalso; apply HC; reflexivity).
  - destruct (ccanc cr) eqn:Hx.
    + destruct (lI s LI _ _ _ _ Hg Hp) as (ir & Hi & Hc & Hll & Hs & Hr).
      exists (IEnd i 2 (now s)). split; [|reflexivity]. eapply en_iend_canc; eauto.
    + eapply cancel_progress; eauto; rewrite Hp; reflexivity.
  - exists (Acq (cloop cr) c). split; [|reflexivity]. eapply en_acq_fin; eauto.
  - destruct (ccanc cr) eqn:Hx.
    + exists (Done c 2 0 (now s)). split; [|reflexivity]. eapply en_done_canc; eauto. left. eauto.
    + eapply cancel_progress; eauto; rewrite Hp; reflexivity.
  - destruct (ccanc cr) eqn:Hx.
    + exists (Done c 2 0 (now s)). split; [|reflexivity]. eapply en_done_canc; eauto. right. eauto 10.
    + eapply cancel_progress; eauto; rewrite Hp; reflexivity.
  - exists (Done c (fst (enc o)) (snd (enc o)) (now s)). split; [|reflexivity]. eapply en_done_fin; eauto.
Qed.

Lemma not_blocked_progress s c cr : Inv s -> LInv s -> lock s = None -> getc s c = Some cr ->
  blocked s (now s) cr = false -> can_progress s.
Proof.
  intros I LI Hl Hg Hb. destruct (lp s (cloop cr)) eqn:Hlp.
  - eapply not_blocked_run; eauto.
  - unfold blocked in Hb. rewrite Hlp in Hb. discriminate.
  - eapply shut_progress; eauto. unfold blocked in Hb. rewrite Hlp in Hb. exact Hb.
  - unfold blocked in Hb. rewrite Hlp in Hb. discriminate.
Qed.

(* the earliest deadline among the waiters on running loops *)
Definition wdl (s : state) (cr : crec) : option N :=
  match lp s (cloop cr) with LRun => dl_of (cpc cr) | _ => None end.

Fixpoint mindl (s : state) (l : list crec) (acc : N) : N :=
  match l with
  | [] => acc
  | cr :: r => match wdl s cr with Some dl => N.min dl (mindl s r acc) | None => mindl s r acc end
  end.

Lemma mindl_le_acc s l acc : (mindl s l acc <= acc)%N.
Proof. induction l as [|x r IH]; simpl; [lia|]. destruct (wdl s x); lia. Qed.

Lemma mindl_le_in s l acc cr dl : In cr l -> wdl s cr = Some dl -> (mindl s l acc <= dl)%N.
Proof.
  induction l as [|x r IH]; simpl; [contradiction|]. intros [-> | Hin] Hw.
  - rewrite Hw. lia.
  - specialize (IH Hin Hw). destruct (wdl s x); lia.
Qed.

Lemma mindl_gt s l acc (n : N) : (n < acc)%N ->
  (forall cr dl, In cr l -> wdl s cr = Some dl -> (n < dl)%N) -> (n < mindl s l acc)%N.
Proof.
  intros Ha. induction l as [|x r IH]; simpl; intros H; [assumption|].
  assert (IH' : (n < mindl s r acc)%N) by (apply IH; intros; eapply H; eauto).
  destruct (wdl s x) eqn:Hw; [|assumption].
  assert ((n < n0)%N) by (eapply H; eauto). lia.
Qed.

Lemma blocked_now_dl s cr dl : blocked s (now s) cr = true -> wdl s cr = Some dl -> (now s < dl)%N.
Proof.
  unfold blocked, wdl. destruct (lp s (cloop cr)); try discriminate.
  destruct (cpc cr); simpl; try discriminate; intros H Hd; injection Hd as <-.
  all: repeat match goal with Hq : (_ && _) = true |- _ => apply andb_prop in Hq; destruct Hq end.
  all: match goal with Hq : (_ <? _)%N = true |- _ => apply N.ltb_lt in Hq; exact Hq end.
Qed.

Lemma blocked_mono s t cr : blocked s (now s) cr = true ->
  (forall dl, wdl s cr = Some dl -> (t <= dl)%N) -> blocked s t cr = true.
Proof.
  unfold blocked, wdl. destruct (lp s (cloop cr)); auto.
  destruct (cpc cr); simpl; try discriminate; auto; intros H Hd.
  all: specialize (Hd _ eq_refl); apply N.leb_le in Hd; rewrite Hd.
  all: repeat match goal with Hq : (_ && _) = true |- _ => apply andb_prop in Hq; destruct Hq end.
  all: repeat match goal with Hq : _ = true |- _ => rewrite Hq; clear Hq end; reflexivity.
Qed.

Lemma forallb_false_nth {A} (f : A -> bool) l : forallb f l = false ->
  exists n x, nth_error l n = Some x /\ f x = false.
Proof.
  induction l as [|x r IH]; simpl; [discriminate|]. intros H.
  destruct (f x) eqn:Hf.
  - destruct (IH H) as (n & y & Hn & Hy). exists (S n), y. auto.
  - exists 0, x. auto.
Qed.

Lemma adv_progress s dl0 : ended s = false -> lock s = None ->
  forallb (blocked s (now s)) (callers s) = true -> (now s < dl0)%N ->
  exists t, (now s < t)%N /\ (t <= dl0)%N /\ enabled s (Adv t).
Proof.
  intros He Hl Hb Hd. set (t := mindl s (callers s) dl0).
  assert (Hlt : (now s < t)%N).
  { apply mindl_gt; auto. intros cr dl Hin Hw. eapply blocked_now_dl; eauto.
    rewrite forallb_forall in Hb. auto. }
  exists t. split; [assumption|]. split; [apply mindl_le_acc|].
  unfold enabled, step. rewrite He. unfold guard, quiescent. rewrite Hl.
  replace (now s <=? t)%N with true by (symmetry; apply N.leb_le; lia).
  replace (forallb (blocked s t) (callers s)) with true; [simpl; eauto|].
  symmetry. apply forallb_forall. intros cr Hin. apply blocked_mono.
  - rewrite forallb_forall in Hb. auto.
  - intros dl Hw. eapply mindl_le_in; eauto.
Qed.

Lemma no_deadlock_state s : Inv s -> LInv s ->
  forall c cr, getc s c = Some cr -> alive (lp s (cloop cr)) = true ->
    done_or_unstarted (cpc cr) = false -> can_progress s.
Proof.
  intros I LI c cr Hg Ha Hd.
  assert (He : ended s = false) by (eapply live_not_ended; eauto).
  destruct (lock s) as [h|] eqn:Hl; [eapply holder_progress; eauto|].
  destruct (forallb (blocked s (now s)) (callers s)) eqn:Hb.
  2:{ apply forallb_false_nth in Hb as (n & x & Hn & Hx). eapply not_blocked_progress; eauto. }
  pose proof (forallb_nth _ _ _ _ Hb Hg) as Hc. pose proof Hc as Hc'. unfold blocked in Hc.
  destruct (alive_cases _ Ha) as [Hrun | Hsh]; [|rewrite Hsh in Hc; congruence].
  rewrite Hrun in Hc.
  destruct (cpc cr) eqn:Hp; try discriminate Hc; try discriminate Hd.
  - (* an uncancelled computation *)
    apply negb_true_iff in Hc.
    destruct (lI s LI _ _ _ _ Hg Hp) as (ir & Hi & Hic & Hll & Hs & Hr).
    exists (IEnd i 0 (now s)). split; [|reflexivity]. eapply en_iend_live; eauto.
  - (* a waiter: the clock may move to the earliest deadline *)
    assert (Hw : wdl s cr = Some dl) by (unfold wdl; rewrite Hrun, Hp; reflexivity).
    pose proof (blocked_now_dl _ _ _ Hc' Hw) as Hlt.
    destruct (adv_progress s dl He Hl Hb Hlt) as (t & Ht & _ & Hen).
    exists (Adv t). split; [assumption|]. simpl. apply N.ltb_lt. assumption.
  - assert (Hw : wdl s cr = Some dl) by (unfold wdl; rewrite Hrun, Hp; reflexivity).
    pose proof (blocked_now_dl _ _ _ Hc' Hw) as Hlt.
    destruct (adv_progress s dl He Hl Hb Hlt) as (t & Ht & _ & Hen).
    exists (Adv t). split; [assumption|]. simpl. apply N.ltb_lt. assumption.
Qed.

Lemma no_deadlock_run nloops tbl tr s : run (init nloops tbl) tr = Some s ->
  forall c cr, getc s c = Some cr -> alive (lp s (cloop cr)) = true ->
    done_or_unstarted (cpc cr) = false ->
    exists e s', step s e = Some s' /\ progress_event s e = true.
Proof.
  intros H c cr Hg Ha Hd. destruct (run_LInv _ _ _ _ H) as [I LI].
  destruct (no_deadlock_state s I LI c cr Hg Ha Hd) as (e & (s' & Hs) & Hp). eauto.
Qed.
