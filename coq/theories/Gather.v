(* Gather.v — executable model of aiuti/asyncio.py:62-143 : gather_excs and
   raise_first_exc.  MODEL ONLY (no proofs here).

   Source being modelled (asyncio.py:100-102 and 142-143):

       for res in await aio.gather( *aws, return_exceptions=True):
           if isinstance(res, only):
               yield res
       ...
       async for exc in gather_excs(aws, only):
           raise exc

   An awaitable is harness-owned: it completes [delay] ticks after it was
   started and then returns (Ret) or raises an exception object [eid] of class
   [cls].  Coroutines are started by gather (at the tick of the call, [tcall]);
   tasks and plain futures were started by the caller at tick 0, i.e. [tcall]
   ticks before gather_excs is entered (so they may already be done).

   asyncio.gather( *aws, return_exceptions=True) is a MODELLED PRIMITIVE, not
   verified (DESIGN §7).  Its model follows CPython's tasks.py: every child
   gets a done-callback; the callback counts [nfinished]; when the count reaches
   the number of children the outer future gets the list of the children's
   results *in the order of the children list* (exception objects in place of
   results); a failing child never cancels its siblings.  The done-callbacks
   run in FINISHING order; the model makes that order explicit as a schedule of
   (tick, index) events (stable insertion sort on the end ticks), so that
   "input order, not finishing order" is a statement about the machine and not
   a definition.

   isinstance is a boolean relation [inst : cls -> cls -> bool] (class of the
   exception, class asked for).  The correspondence instantiates it with
   [isinst h] for a finite forest [h] (parent list); the theorems hold for
   every relation. *)
From Coq Require Import List Arith NArith Bool.
Import ListNotations.

Definition cls := nat.
Definition eid := nat.

Inductive outcome := Ret | Raise (c : cls) (e : eid).
Inductive form := Coro | Task | Fut.
Record aw := mkaw { aform : form; adelay : N; aout : outcome }.

(* ---- class hierarchy: a forest given by the parent of every class ------ *)
Definition hier := list (option cls).

Fixpoint anc (h : hier) (fuel : nat) (c only : cls) : bool :=
  Nat.eqb c only ||
  match fuel with
  | 0 => false
  | S f => match nth_error h c with
           | Some (Some p) => anc h f p only
           | _ => false
           end
  end.
(* isinstance(exception of class c, only) *)
Definition isinst (h : hier) (c only : cls) : bool := anc h (length h) c only.

(* ---- timing -------------------------------------------------------------- *)
Definition start_of (tcall : N) (a : aw) : N :=
  match aform a with Coro => tcall | _ => 0%N end.
Definition end_of (tcall : N) (a : aw) : N := (start_of tcall a + adelay a)%N.

(* finishing schedule: (end tick, index), stably sorted by end tick *)
Fixpoint insert_ev (ev : N * nat) (l : list (N * nat)) : list (N * nat) :=
  match l with
  | [] => [ev]
  | ev' :: r => if (fst ev <=? fst ev')%N then ev :: l else ev' :: insert_ev ev r
  end.
Fixpoint sort_evs (l : list (N * nat)) : list (N * nat) :=
  match l with
  | [] => []
  | ev :: r => insert_ev ev (sort_evs r)
  end.
Fixpoint events_from (tcall : N) (aws : list aw) (i : nat) : list (N * nat) :=
  match aws with
  | [] => []
  | a :: r => (end_of tcall a, i) :: events_from tcall r (S i)
  end.
Definition schedule (tcall : N) (aws : list aw) : list (N * nat) :=
  sort_evs (events_from tcall aws 0).

(* ---- the gather machine --------------------------------------------------- *)
Record gst := mkg {
  now : N;                          (* clock *)
  res : nat -> option outcome;      (* result slot of child i (None = pending) *)
  nfin : nat;                       (* gather's nfinished counter *)
  outer : option (N * list (option outcome));  (* outer future: (tick set, results in child order) *)
  clog : list (nat * N)             (* ghost: completion log (index, tick the child completed), finishing order *)
}.

Definition ginit (tcall : N) : gst := mkg tcall (fun _ => None) 0 None [].

Section Machine.
  Variable aws : list aw.
  Definition nchildren := length aws.

  (* child i completes at tick t: its done-callback runs *)
  Definition gstep (s : gst) (ev : N * nat) : gst :=
    let '(t, i) := ev in
    let t' := N.max (now s) t in
    let o := match nth_error aws i with Some a => Some (aout a) | None => None end in
    let res' := fun j => if Nat.eqb j i then o else res s j in
    let nf := S (nfin s) in
    mkg t' res' nf
        (match outer s with
         | Some x => Some x
         | None => if Nat.eqb nf nchildren
                   then Some (t', map res' (seq 0 nchildren))
                   else None
         end)
        (clog s ++ [(i, t)]).

  Definition grun (tcall : N) (sched : list (N * nat)) : gst :=
    fold_left gstep sched
      (match aws with
       | [] => mkg tcall (fun _ => None) 0 (Some (tcall, [])) []     (* gather() of nothing: already done *)
       | _ => ginit tcall
       end).
End Machine.

(* ---- gather_excs / raise_first_exc --------------------------------------- *)
Section Gather.
  Variable inst : cls -> cls -> bool.

  (* the for/if/yield loop over gather's result list *)
  Fixpoint filter_excs (only : cls) (rs : list (option outcome)) : list eid :=
    match rs with
    | [] => []
    | Some (Raise c e) :: r => if inst c only then e :: filter_excs only r else filter_excs only r
    | _ :: r => filter_excs only r
    end.

  (* Result of running gather_excs to exhaustion: None = the outer future never
     completed (excluded by the theorems: it always does); otherwise the tick of
     all the yields / of the end of the generator, and the yielded exceptions. *)
  Definition gather_excs_sched (aws : list aw) (only : cls) (tcall : N) (sched : list (N * nat))
    : option (N * list eid) :=
    match outer (grun aws tcall sched) with
    | Some (t, rs) => Some (t, filter_excs only rs)
    | None => None
    end.
  Definition gather_excs (aws : list aw) (only : cls) (tcall : N) : option (N * list eid) :=
    gather_excs_sched aws only tcall (schedule tcall aws).

  (* raise_first_exc: Some (t, Some e) = raises e at t; Some (t, None) = returns None at t *)
  Definition raise_first_exc (aws : list aw) (only : cls) (tcall : N) : option (N * option eid) :=
    match gather_excs aws only tcall with
    | Some (t, e :: _) => Some (t, Some e)
    | Some (t, []) => Some (t, None)
    | None => None
    end.

  (* the list the property speaks about *)
  Fixpoint expected (only : cls) (aws : list aw) : list eid :=
    match aws with
    | [] => []
    | a :: r => match aout a with
                | Raise c e => if inst c only then e :: expected only r else expected only r
                | Ret => expected only r
                end
    end.
End Gather.

(* completion log in input order, as the harness records it: end tick of every awaitable *)
Definition ends (tcall : N) (aws : list aw) : list N := map (end_of tcall) aws.
