(* Buffer.v — executable macro-step model of aiuti/asyncio.py : BufferAsyncCalls
   (buffer_until_timeout), shared by C03 / C07 / C08.  MODEL ONLY, no proofs.

   One event loop, cooperative: [step s e] applies the external event [e] at a
   quiescent point and then performs every internal transition until the loop
   is idle again (DESIGN §4, §5.0c).  Source lines refer to /repo/aiuti/asyncio.py
   (after the fix: commits; the daemon re-raises its own cancellation).

   State of the daemon task (_waiter/_process_queue, l.714-766) at quiescence:
     DIdle                 parked on the first q.get() of a round          (l.740)
     DGather ins ld g      parked in the gather of input_gens (l.755); [ld] = producers
                           still being loaded, [g] = state of self._getting (l.753):
                           GArmed deadline | GGot p | GTimedOut | GCancelled
     DAwait ins d          parked on `await self._getting` (l.760), armed, deadline d
     DLoadOne ins p        parked in `_load_inputs(p)` for the producer the timed
                           read returned (l.760), not yet task_done
     DRun ins              parked in `await self.func(inputs)`               (l.779)
     DDead                 the daemon task has ended (cancelled at loop shutdown)
   [ins] is the round's `inputs` set (l.727) as a strictly sorted list.

   Producers are harness-owned and scripted; every kind is normalised to a list
   of actions still to be handed to `async for` (l.731): AY x (yield x), AF
   (raise), AE (end).  Immediate kinds (Plain = __call__, SyncList = map of a
   non-iterator, SyncIter = map of an iterator, i.e. the to_async_iter helper
   thread, collapsed to "immediate") carry all their actions from the start;
   Aw (await_) is [single]: its one yield also ends it; Async (amap) receives its
   actions through PYield / PFail / PEnd events.

   Modelled, not verified: asyncio.Queue (put_nowait/get/get_nowait/task_done/
   join), asyncio.Event, wait_for, gather, Task.cancel/cancelling,
   call_soon_threadsafe FIFO, async generators. *)
From Coq Require Import List Arith NArith Bool.
Import ListNotations.

Inductive act := AY (x : nat) | AF | AE.

Record prod := mkprod { pid : nat; single : bool; closed : bool; acts : list act }.

Inductive pkind :=
| Plain (x : nat)
| SyncList (xs : list nat)
| SyncIter (xs : list nat) (failpos : option nat)
| Aw
| Async.

Inductive event :=
| Submit (p : nat) (k : pkind)
| PYield (p : nat) (x : nat)
| PFail (p : nat)
| PEnd (p : nat)
| Advance (dt : N)
| Wait (w : nat) (cancel : bool)
| FnOk
| FnFail
| Shutdown
| FClear
| FPut (p : nat) (k : pkind)
| FnOkThenFClear.

Inductive obs :=
| FnStart (callno : nat) (set : list nat) (now : N)
| FnEnd (callno : nat) (ok : bool) (set : list nat)
| WaitRet (w : nat) (now : N) (nok : nat)
| DaemonEnded
| Hang.

Inductive getting := GArmed (d : N) | GGot (p : prod) | GTimedOut | GCancelled.

Inductive daemon :=
| DIdle
| DGather (ins : list nat) (ld : list prod) (g : getting)
| DAwait (ins : list nat) (d : N)
| DLoadOne (ins : list nat) (p : prod)
| DRun (ins : list nat)
| DDead.

Inductive wst := Joining | OnEvent.
Record waiter := mkw { wid : nat; wcancel : bool; wstate : wst;
                       wbefore : list nat (* ghost: pids submitted before this wait() was called *) }.

(* ghost history (never read by the transitions) *)
Record ghost := mkgh {
  g_offered : list (nat * nat);   (* (pid, arg) handed to the buffer so far, in order *)
  g_loaded : list nat;            (* args added to an `inputs` set (l.732) *)
  g_finished : list nat;          (* pids whose _load_inputs has returned *)
  g_delivered : list nat;         (* args of the calls that returned without error *)
  g_returned : list (nat * list nat);   (* waits that have returned: (wid, pids submitted before it was called) *)
  g_lastsub : N;                  (* instant of the latest submission *)
  g_tie : bool                    (* a submission / wait landed at the very tick a timer fired *)
}.

Record state := mkst {
  dm : daemon;
  q : list prod;           (* self.q: put, not yet taken *)
  unfinished : nat;        (* q._unfinished_tasks, what join() waits for *)
  evset : bool;            (* self.event *)
  waiters : list waiter;   (* tasks inside wait() *)
  tmo : N;                 (* timeout, ticks *)
  now : N;
  callno : nat;            (* number of calls of the function so far *)
  nok : nat;               (* ... that returned without error *)
  seen : list nat;         (* pids used *)
  wseen : list nat;        (* wids used *)
  lastfire : option N;     (* tick at which the quiet timer last fired *)
  gh : ghost
}.

Definition init (T : N) : state :=
  mkst DIdle [] 0 true [] T 0%N 0 0 [] [] None (mkgh [] [] [] [] [] 0%N false).

(* ---- setters ----------------------------------------------------------- *)
Definition set_dm s v := mkst v (q s) (unfinished s) (evset s) (waiters s) (tmo s) (now s) (callno s) (nok s) (seen s) (wseen s) (lastfire s) (gh s).
Definition set_q s v u := mkst (dm s) v u (evset s) (waiters s) (tmo s) (now s) (callno s) (nok s) (seen s) (wseen s) (lastfire s) (gh s).
Definition set_event s v := mkst (dm s) (q s) (unfinished s) v (waiters s) (tmo s) (now s) (callno s) (nok s) (seen s) (wseen s) (lastfire s) (gh s).
Definition set_waiters s v := mkst (dm s) (q s) (unfinished s) (evset s) v (tmo s) (now s) (callno s) (nok s) (seen s) (wseen s) (lastfire s) (gh s).
Definition set_now s v := mkst (dm s) (q s) (unfinished s) (evset s) (waiters s) (tmo s) v (callno s) (nok s) (seen s) (wseen s) (lastfire s) (gh s).
Definition set_calls s c k := mkst (dm s) (q s) (unfinished s) (evset s) (waiters s) (tmo s) (now s) c k (seen s) (wseen s) (lastfire s) (gh s).
Definition set_seen s v := mkst (dm s) (q s) (unfinished s) (evset s) (waiters s) (tmo s) (now s) (callno s) (nok s) v (wseen s) (lastfire s) (gh s).
Definition set_wseen s v := mkst (dm s) (q s) (unfinished s) (evset s) (waiters s) (tmo s) (now s) (callno s) (nok s) (seen s) v (lastfire s) (gh s).
Definition set_lastfire s v := mkst (dm s) (q s) (unfinished s) (evset s) (waiters s) (tmo s) (now s) (callno s) (nok s) (seen s) (wseen s) v (gh s).
Definition set_gh s v := mkst (dm s) (q s) (unfinished s) (evset s) (waiters s) (tmo s) (now s) (callno s) (nok s) (seen s) (wseen s) (lastfire s) v.

Definition gh_offer g l t := mkgh (g_offered g ++ l) (g_loaded g) (g_finished g) (g_delivered g) (g_returned g) t (g_tie g).
Definition gh_offer1 g l := mkgh (g_offered g ++ l) (g_loaded g) (g_finished g) (g_delivered g) (g_returned g) (g_lastsub g) (g_tie g).
Definition gh_load g l f := mkgh (g_offered g) (g_loaded g ++ l) (g_finished g ++ f) (g_delivered g) (g_returned g) (g_lastsub g) (g_tie g).
Definition gh_deliver g l := mkgh (g_offered g) (g_loaded g) (g_finished g) (g_delivered g ++ l) (g_returned g) (g_lastsub g) (g_tie g).
Definition gh_return g l := mkgh (g_offered g) (g_loaded g) (g_finished g) (g_delivered g) (g_returned g ++ l) (g_lastsub g) (g_tie g).
Definition gh_tie g b := mkgh (g_offered g) (g_loaded g) (g_finished g) (g_delivered g) (g_returned g) (g_lastsub g) (g_tie g || b).

(* ---- sets of arguments: strictly sorted lists ---------------------------- *)
Fixpoint set_add (x : nat) (l : list nat) : list nat :=
  match l with
  | [] => [x]
  | y :: r => if x <? y then x :: l else if x =? y then l else y :: set_add x r
  end.
Definition set_addl (xs : list nat) (l : list nat) : list nat :=
  fold_left (fun acc x => set_add x acc) xs l.

(* ---- producers ----------------------------------------------------------- *)
Definition imm_args (k : pkind) : list nat :=
  match k with
  | Plain x => [x]
  | SyncList xs => xs
  | SyncIter xs None => xs
  | SyncIter xs (Some n) => firstn n xs
  | Aw | Async => []
  end.
Definition imm_fails (k : pkind) : bool :=
  match k with SyncIter xs (Some n) => true | _ => false end.
Definition is_imm (k : pkind) : bool :=
  match k with Aw | Async => false | _ => true end.
Definition mk_prod (p : nat) (k : pkind) : prod :=
  match k with
  | Aw => mkprod p true false []
  | Async => mkprod p false false []
  | _ => mkprod p false true (map AY (imm_args k) ++ [if imm_fails k then AF else AE])
  end.

(* what `async for` (l.731) gets out of the actions available now *)
Fixpoint yields_of (single : bool) (a : list act) : list nat :=
  match a with
  | AY x :: r => if single then [x] else x :: yields_of single r
  | _ => []
  end.
Fixpoint finishes (single : bool) (a : list act) : bool :=
  match a with
  | [] => false
  | AY _ :: r => if single then true else finishes single r
  | AF :: _ | AE :: _ => true
  end.
Definition p_yields (p : prod) := yields_of (single p) (acts p).
Definition p_fin (p : prod) := finishes (single p) (acts p).
Definition p_wait (p : prod) := mkprod (pid p) (single p) (closed p) [].

(* the gathered loaders: (remaining, args loaded, pids finished) *)
Fixpoint load_all (ps : list prod) : list prod * list nat * list nat :=
  match ps with
  | [] => ([], [], [])
  | p :: r =>
      let '(rem, ys, fs) := load_all r in
      if p_fin p then (rem, p_yields p ++ ys, pid p :: fs)
      else (p_wait p :: rem, p_yields p ++ ys, fs)
  end.

(* a scripted action reaches the producer [p] *)
Definition accepts (p : prod) : bool := negb (closed p).
Definition feed (a : act) (p : prod) : prod :=
  match a with
  | AY x => mkprod (pid p) (single p) (single p) (acts p ++ [AY x])
  | AF => mkprod (pid p) (single p) true (acts p ++ [AF])
  | AE => if single p then p else mkprod (pid p) (single p) true (acts p ++ [AE])
  end.
Definition feed_if (n : nat) (a : act) (p : prod) : prod :=
  if (pid p =? n) && accepts p then feed a p else p.
Definition has_open (n : nat) (ps : list prod) : bool :=
  existsb (fun p => (pid p =? n) && accepts p) ps.

(* ---- waiters ------------------------------------------------------------- *)
Definition is_onevent (w : waiter) := match wstate w with OnEvent => true | Joining => false end.
Definition is_joining (w : waiter) := match wstate w with Joining => true | OnEvent => false end.

(* event.set(): every task parked in event.wait() (l.705) returns *)
Definition release (s : state) : state * list obs :=
  let rel := filter is_onevent (waiters s) in
  (set_gh (set_waiters (set_event s true) (filter is_joining (waiters s)))
          (gh_return (gh s) (map (fun w => (wid w, wbefore w)) rel)),
   map (fun w => WaitRet (wid w) (now s) (nok s)) rel).

(* q.join() returns (unfinished = 0): the waiter tests `cancel and _getting
   armed` (l.697); the caller says whether some released waiter cancels *)
Definition join_pass (ws : list waiter) : list waiter :=
  map (fun w => mkw (wid w) (wcancel w) OnEvent (wbefore w)) ws.
Definition wants_cancel (ws : list waiter) : bool :=
  existsb (fun w => is_joining w && wcancel w) ws.

(* ---- the daemon ----------------------------------------------------------- *)
Definition load_gh (s : state) (ys fs : list nat) : state :=
  set_gh s (gh_load (gh s) ys fs).

(* _run_func (l.768-785) when q is known to be empty *)
Definition run_func0 (s : state) (ins : list nat) : state * list obs :=
  match ins with
  | [] => let '(s1, o) := release s in (set_dm s1 DIdle, o)
  | _ => (set_calls (set_dm s (DRun ins)) (S (callno s)) (nok s), [FnStart (callno s) ins (now s)])
  end.

(* top of `while not self.event.is_set()` (l.747) with the event clear: drain q
   (l.749, task_done each), arm the timed read (l.753), let joiners through,
   gather the loaders (l.755), then look at the timed read (l.760) *)
Definition continue_round (s : state) (ins : list nat) (ld : list prod) : state * list obs :=
  let ld1 := ld ++ q s in
  let u := unfinished s - length (q s) in
  let s1 := set_q s [] u in
  let pass := u =? 0 in
  let cancel := pass && wants_cancel (waiters s1) in
  let s2 := if pass then set_waiters s1 (join_pass (waiters s1)) else s1 in
  let g := if cancel then GCancelled else GArmed (now s + tmo s) in
  let '(rem, ys, fs) := load_all ld1 in
  let ins' := set_addl ys ins in
  let s3 := load_gh s2 ys fs in
  match rem with
  | _ :: _ => (set_dm s3 (DGather ins' rem g), [])
  | [] => match g with
          | GArmed d => (set_dm s3 (DAwait ins' d), [])
          | _ => run_func0 s3 ins'
          end
  end.

(* first q.get() of a round returns (l.740-745) *)
Definition start_round (s : state) : state * list obs :=
  match q s with
  | [] => (set_dm s DIdle, [])
  | p :: r => continue_round (set_event (set_q s r (unfinished s - 1)) false) [] [p]
  end.

(* the round's loop has ended (event set): _waiter calls _process_queue again *)
Definition end_round (s : state) : state * list obs := start_round s.

(* _run_func in general *)
Definition run_func (s : state) (ins : list nat) : state * list obs :=
  match ins with
  | [] => let '(s1, o1) := release s in
          let '(s2, o2) := end_round s1 in (s2, o1 ++ o2)
  | _ => (set_calls (set_dm s (DRun ins)) (S (callno s)) (nok s), [FnStart (callno s) ins (now s)])
  end.

(* `await _load_inputs(await self._getting)` got producer p (l.760, 766) *)
Definition load_one (s : state) (ins : list nat) (p : prod) : state * list obs :=
  let ins' := set_addl (p_yields p) ins in
  if p_fin p then
    continue_round (set_q (load_gh s (p_yields p) [pid p]) (q s) (unfinished s - 1)) ins' []
  else (set_dm (load_gh s (p_yields p) []) (DLoadOne ins' (p_wait p)), []).

(* gather returned (l.756): consume the timed read *)
Definition after_gather (s : state) (ins : list nat) (g : getting) : state * list obs :=
  match g with
  | GArmed d => (set_dm s (DAwait ins d), [])
  | GGot p => load_one s ins p
  | GTimedOut | GCancelled => run_func s ins
  end.

(* q.put_nowait has just run (the producer is at the end of q) *)
Definition on_put (s : state) : state * list obs :=
  match dm s with
  | DIdle => start_round s
  | DAwait ins d =>
      match q s with
      | p :: r => load_one (set_q s r (unfinished s)) ins p
      | [] => (s, [])
      end
  | DGather ins ld (GArmed d) =>
      match q s with
      | p :: r => (set_dm (set_q s r (unfinished s)) (DGather ins ld (GGot p)), [])
      | [] => (s, [])
      end
  | _ => (s, [])
  end.

Definition tie_now (s : state) : bool :=
  match lastfire s with Some t => N.eqb t (now s) | None => false end.

Definition do_put (s : state) (p : nat) (k : pkind) (clear : bool) : state * list obs :=
  if existsb (Nat.eqb p) (seen s) then (s, [])
  else
    let s1 := set_seen s (seen s ++ [p]) in
    let s2 := if clear then set_event s1 false else s1 in
    let s3 := set_q s2 (q s2 ++ [mk_prod p k]) (S (unfinished s2)) in
    let s4 := set_gh s3 (gh_tie (gh_offer (gh s3) (map (fun x => (p, x)) (imm_args k)) (now s)) (tie_now s)) in
    on_put s4.

(* a scripted action for producer n: it is kept with the producer, wherever it
   is (pids are unique); a producer that is being iterated consumes it at once *)
Definition arg_of (a : act) : list nat := match a with AY x => [x] | _ => [] end.
Definition feed_get (n : nat) (a : act) (g : getting) : getting :=
  match g with GGot p => GGot (feed_if n a p) | _ => g end.
Definition open_here (s : state) (n : nat) : bool :=
  has_open n (q s) ||
  match dm s with
  | DGather _ ld g => has_open n ld || match g with GGot p => has_open n [p] | _ => false end
  | DLoadOne _ p => has_open n [p]
  | _ => false
  end.
Definition do_feed (s : state) (n : nat) (a : act) : state * list obs :=
  if negb (open_here s n) then (s, []) else
  let s0 := set_gh (set_q s (map (feed_if n a) (q s)) (unfinished s))
                   (gh_offer1 (gh s) (map (fun x => (n, x)) (arg_of a))) in
  match dm s with
  | DGather ins ld g =>
      let g' := feed_get n a g in
      let '(rem, ys, fs) := load_all (map (feed_if n a) ld) in
      let ins' := set_addl ys ins in
      let s1 := load_gh s0 ys fs in
      match rem with
      | _ :: _ => (set_dm s1 (DGather ins' rem g'), [])
      | [] => after_gather s1 ins' g'
      end
  | DLoadOne ins p =>
      if (pid p =? n) && accepts p then load_one s0 ins (feed a p) else (s0, [])
  | _ => (s0, [])
  end.

Definition armed_deadline (d : daemon) : option N :=
  match d with
  | DAwait _ d => Some d
  | DGather _ _ (GArmed d) => Some d
  | _ => None
  end.

Definition wait_core (s : state) (w : nat) (c : bool) : state * list obs :=
  if unfinished s =? 0 then
    match dm s with
    | DAwait ins d =>
        let s1 := set_waiters s (waiters s ++ [mkw w c OnEvent (seen s)]) in
        if c then run_func s1 ins else (s1, [])
    | DGather ins ld (GArmed d) =>
        let s1 := set_waiters s (waiters s ++ [mkw w c OnEvent (seen s)]) in
        if c then (set_dm s1 (DGather ins ld GCancelled), []) else (s1, [])
    | _ =>
        if evset s then (set_gh s (gh_return (gh s) [(w, seen s)]), [WaitRet w (now s) (nok s)])
        else (set_waiters s (waiters s ++ [mkw w c OnEvent (seen s)]), [])
    end
  else (set_waiters s (waiters s ++ [mkw w c Joining (seen s)]), []).

(* wait(cancel=c) is called (l.679-705): join, optional cancel of the timed
   read, then event.wait() *)
Definition do_wait (s : state) (w : nat) (c : bool) : state * list obs :=
  if existsb (Nat.eqb w) (wseen s) then (s, [])
  else wait_core (set_gh (set_wseen s (wseen s ++ [w])) (gh_tie (gh s) (tie_now s))) w c.

Definition do_advance (s : state) (dt : N) : state * list obs :=
  let t' := (now s + dt)%N in
  match dm s with
  | DAwait ins d =>
      if (d <=? t')%N then
        let tf := N.max (now s) d in
        let '(s1, o) := run_func (set_lastfire (set_now s tf) (Some tf)) ins in
        (set_now s1 t', o)
      else (set_now s t', [])
  | DGather ins ld (GArmed d) =>
      if (d <=? t')%N then
        (set_now (set_lastfire (set_dm s (DGather ins ld GTimedOut)) (Some (N.max (now s) d))) t', [])
      else (set_now s t', [])
  | _ => (set_now s t', [])
  end.

Definition do_fn_end (s : state) (ok : bool) (fclear : bool) : state * list obs :=
  match dm s with
  | DRun ins =>
      let o0 := [FnEnd (callno s - 1) ok ins] in
      if ok then
        let s1 := set_gh (set_calls s (callno s) (S (nok s))) (gh_deliver (gh s) ins) in
        let '(s2, o1) := release s1 in
        if fclear then
          (* a foreign event.clear() between event.set() (l.785) and the loop test (l.747) *)
          let '(s3, o2) := continue_round (set_event s2 false) ins [] in (s3, o0 ++ o1 ++ o2)
        else
          let '(s3, o2) := end_round s2 in (s3, o0 ++ o1 ++ o2)
      else
        let '(s1, o1) := continue_round s ins [] in (s1, o0 ++ o1)
  | _ => (s, [])
  end.

Definition is_dead (s : state) : bool := match dm s with DDead => true | _ => false end.

Definition step (s : state) (e : event) : state * list obs :=
  if is_dead s then (s, []) else
  match e with
  | Submit p k => do_put s p k true
  | FPut p k => do_put s p k false
  | PYield p x => do_feed s p (AY x)
  | PFail p => do_feed s p AF
  | PEnd p => do_feed s p AE
  | Advance dt => do_advance s dt
  | Wait w c => do_wait s w c
  | FnOk => do_fn_end s true false
  | FnFail => do_fn_end s false false
  | FnOkThenFClear => do_fn_end s true true
  | FClear => (set_event s false, [])
  | Shutdown => (set_waiters (set_dm s DDead) [], [DaemonEnded])
  end.

Fixpoint run (s : state) (evs : list event) : state * list (list obs) :=
  match evs with
  | [] => (s, [])
  | e :: r => let '(s1, o) := step s e in
              let '(s2, os) := run s1 r in (s2, o :: os)
  end.

Definition final (T : N) (evs : list event) : state := fst (run (init T) evs).
Definition trace (T : N) (evs : list event) : list (list obs) := snd (run (init T) evs).
