(* Case_C07.v — monitor for C07 (wait() is a true barrier and always returns;
   shutdown terminates), decided on the observed trace + scripted input. *)
From Coq Require Import List Arith NArith Bool.
Import ListNotations.
Require Import Aiuti.CaseLib Aiuti.Buffer Aiuti.Case_Buffer.
Definition case := Case_Buffer.case.
Definition agree := Case_Buffer.agree.

Record m7 := mk7 {
  del : list nat;
  nokc : nat;
  pend : list (nat * list nat);    (* waits issued, not returned: (w, pids submitted before) *)
  shut : bool;
  ended : bool
}.
Definition m7_0 := mk7 [] 0 [] false false.

Definition on_ev7 (k k' : trk) (e : event) (x : m7) : m7 :=
  match e with
  | Wait w c => if wait_accepted k w then mk7 (del x) (nokc x) (pend x ++ [(w, k_seen k)]) (shut x) (ended x) else x
  | Shutdown => if k_dead k then x else mk7 (del x) (nokc x) (pend x) true (ended x)
  | _ => x
  end.

Definition find_w (w : nat) (l : list (nat * list nat)) : option (list nat) :=
  match filter (fun p => Nat.eqb (fst p) w) l with (_, ps) :: _ => Some ps | [] => None end.

Definition on_ob7 (k : trk) (o : obs) (x : m7) : option m7 :=
  match o with
  | FnStart _ _ _ => if shut x then None else Some x
  | FnEnd c true set => Some (mk7 (del x ++ set) (S (nokc x)) (pend x) (shut x) (ended x))
  | FnEnd _ false _ => Some x
  | WaitRet w t n =>
      match find_w w (pend x) with
      | Some ps =>
          (* barrier: the producers submitted before this wait() are exhausted
             and everything they produced is in a call that ended well *)
          if negb (shut x) && subset (args_of_pids k ps) (del x) && negb (existsb (fun p => is_open p k) ps) && Nat.eqb n (nokc x)
          then Some (mk7 (del x) (nokc x) (filter (fun p => negb (Nat.eqb (fst p) w)) (pend x)) (shut x) (ended x))
          else None
      | None => None
      end
  | DaemonEnded => if shut x && negb (ended x) then Some (mk7 (del x) (nokc x) (pend x) true true) else None
  | Hang => None
  end.

(* part 1: the shutdown sub-monitor (Case_Buffer.shut_ok), proved complete and sound *)
Definition ok_shut (c : case) : bool :=
  match c with Case T evs observed => shut_ok evs observed end.

(* part 2: barrier / settled walk *)
Definition ok_walk (c : case) : bool :=
  match c with
  | Case T evs observed =>
      match walk m7 on_ev7 on_ob7 evs observed trk0 m7_0 with
      | None => false
      | Some (k, x) =>
          (if shut x then ended x else true) &&
          (if settled_waits T evs then match pend x with [] => true | _ => false end else true)
      end
  end.

Definition ok (c : case) : bool := ok_shut c && ok_walk c.

Definition nontrivial (c : case) : bool :=
  match c with
  | Case T evs observed =>
      ((1 <=? count_obs is_wret observed) && (1 <=? count_obs is_okend observed))
      || ((1 <=? count_obs is_ended observed) &&
          (1 <=? length (filter (fun e => match e with Submit _ _ | FPut _ _ => true | _ => false end) evs)))
  end.

Definition verdict := verdict3 agree ok nontrivial.
