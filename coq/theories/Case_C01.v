(* Case_C01.v — verdict of the C01 check on one case. *)
From Coq Require Import List Arith NArith Bool.
Import ListNotations.
Require Import Aiuti.CaseLib Aiuti.Cache Aiuti.CacheMon Aiuti.Case_Cache.

(* a `Bad` entry = the driver could not classify an event, or the re-run with the DEFAULT dict cache
   (cache=None) gave different observable events: rejected outright (the model never produces it) *)
Definition no_bad (tr : list ev) : bool := forallb (fun e => match e with Bad _ => false | _ => true end) tr.
Definition ok (c : case) : bool := match c with Case n tbl tr => ok_C01 tbl tr && no_bad tr end.
(* non-trivial: the function was invoked and at least two callers were answered, or at least two
   callers went through the locked section *)
Definition nontrivial (c : case) : bool :=
  match c with Case n tbl tr =>
    (1 <=? count is_istart tr) && ((2 <=? count is_done_ev tr) || (3 <=? count is_acq tr)) end.
Definition verdict := verdict3 agree ok nontrivial.
