(* Case_C06.v — verdict of the C06 check on one case. *)
From Coq Require Import List Arith NArith Bool.
Import ListNotations.
Require Import Aiuti.CaseLib Aiuti.Cache Aiuti.CacheMon Aiuti.Case_Cache.

(* C06 also says that cancelling or failing one caller never DELAYS any other caller beyond a
   recomputation: that clause is the prompt / rescue part of the C05 monitor (sound for the model:
   CacheMon5.ok_C05_sound_l), so both monitors judge the trace here. *)
Definition ok (c : case) : bool := match c with Case n tbl tr => ok_C06 tbl tr && ok_C05 n tbl tr end.
(* non-trivial: some invocation failed or was cancelled, or a caller was cancelled, or a loop
   stopped, and at least two callers were answered *)
Definition nontrivial (c : case) : bool :=
  match c with Case n tbl tr =>
    (2 <=? count is_done_ev tr)
    && ((1 <=? count is_fail tr) || (1 <=? count is_cancel tr) || (1 <=? count is_proxy tr)) end.
Definition verdict := verdict3 agree ok nontrivial.
