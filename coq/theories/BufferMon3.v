(* BufferMon3.v — sub-monitors of the C03 trace monitor that read the input tracker, proved COMPLETE
   (they accept the model's own trace of every event list) with the tracker simulation of BufferTrk.v:
     ok_offered : every element of every set passed to the function was handed over by the script;
     ok_once    : own-thread scripts with distinct arguments never see an argument in two successful calls. *)
From Coq Require Import List Arith NArith Bool Lia.
Import ListNotations.
Require Import Aiuti.CaseLib Aiuti.Buffer Aiuti.Case_Buffer Aiuti.Case_C03 Aiuti.BufferCore Aiuti.BufferFlag
               Aiuti.BufferInv Aiuti.BufferJoin Aiuti.BufferOnce Aiuti.BufferMon Aiuti.BufferMonSound
               Aiuti.BufferMon8B Aiuti.BufferTrk.

Lemma okargs_ok_sets tr : okargs tr = ok_sets tr.
Proof. reflexivity. Qed.

Lemma walk_obsO k os :
  (forall c set t, In (FnStart c set t) os -> subset set (offered_args k) = true) ->
  walk_obs unit on_obO k os tt = Some tt.
Proof.
  induction os as [|o r IH]; intros H; cbn [walk_obs]; [reflexivity|].
  assert (Hr : forall c set t, In (FnStart c set t) r -> subset set (offered_args k) = true)
    by (intros c set t Hin; apply (H c set t); right; exact Hin).
  destruct o; cbn [on_obO]; try (apply IH; exact Hr).
  rewrite (H callno set now (or_introl eq_refl)). apply IH; exact Hr.
Qed.

Lemma walkO_run T more : forall done,
  walk unit (fun _ _ _ x => x) on_obO more (snd (run (final T done) more)) (trk_run trk0 done) tt <> None.
Proof.
  induction more as [|e r IH]; intros done; cbn [run]; [cbn; discriminate|].
  specialize (IH (done ++ [e])). rewrite final_snoc, trk_run_snoc' in IH.
  destruct (step_post (final T done) e (final_inv T done)) as [_ Hs].
  pose proof (offered_args_final T (done ++ [e])) as Eo. rewrite final_snoc, trk_run_snoc' in Eo.
  destruct (step (final T done) e) as [s1 o]. cbn [fst snd] in *.
  destruct (run s1 r) as [s2 os]. cbn [snd walk] in *.
  rewrite walk_obsO; [exact IH|].
  intros c set t Hin. apply subset_of_incl. rewrite Eo. exact (Hs c set t Hin).
Qed.

Lemma ok_offered_complete T evs : ok_offered (Case T evs (trace T evs)) = true.
Proof.
  unfold ok_offered, trace. pose proof (walkO_run T evs []) as H. cbn [trk_run] in H.
  assert (E : final T [] = init T) by reflexivity. rewrite E in H.
  destruct (walk unit _ on_obO evs (snd (run (init T) evs)) trk0 tt); [reflexivity|congruence].
Qed.

Lemma own_thread_no_fc evs : own_thread evs = true -> ~ In FnOkThenFClear evs.
Proof.
  unfold own_thread. intros H Hin. apply negb_true_iff in H.
  assert (existsb is_foreign evs = true) by (apply existsb_exists; exists FnOkThenFClear; auto). congruence.
Qed.

Lemma ok_once_complete T evs : ok_once (Case T evs (trace T evs)) = true.
Proof.
  unfold ok_once. destruct (own_thread evs) eqn:Eo; [|reflexivity]. cbn [andb].
  destruct (nodupb (offered_args (trk_run trk0 evs))) eqn:En; [|reflexivity].
  apply nodupb_nodup in En. rewrite (offered_args_final T evs) in En.
  apply nodup_nodupb. rewrite okargs_ok_sets. apply exactly_once_nodup; [apply own_thread_no_fc; exact Eo|exact En].
Qed.

Lemma c03_complete_partial (T : N) (evs : list event) :
    ok_csets (Case T evs (trace T evs)) = true /\
    ok_offered (Case T evs (trace T evs)) = true /\
    ok_once (Case T evs (trace T evs)) = true.
Proof. split; [apply csets_complete|]. split; [apply ok_offered_complete|apply ok_once_complete]. Qed.
