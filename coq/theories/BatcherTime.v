(* BatcherTime.v — C10, the timing half: the open batch's deadline is the last
   arrival + batch_timeout and never passes unnoticed; every batch is spawned at
   the instant it filled up or exactly at that deadline; spawned batches start in
   spawn order, no earlier than their spawn, and wait only while no slot is free;
   [advance] never runs out of fuel and the model clock is the sum of the
   Advance events.  Invariant [TInv] over the macro-step model Batcher.v. *)
From Coq Require Import List Arith NArith Bool Lia ZifyBool ZifyNat ZifyN.
Import ListNotations.
Require Import Aiuti.Batcher Aiuti.BatcherLift Aiuti.BatcherLimits.

Local Arguments N.add : simpl never.
Local Arguments N.leb : simpl never.
Local Arguments N.max : simpl never.
Local Arguments N.min : simpl never.
Local Arguments Nat.ltb : simpl never.
Local Arguments Nat.leb : simpl never.

(* ---- vocabulary ------------------------------------------------------------- *)

Definition st_items (x : nat * list item * N) : list item := snd (fst x).

(* [x] is the last item of [its] and no item of [its] arrived after it *)
Definition last_of (its : list item) (x : item) : Prop :=
  (exists pre, its = pre ++ [x]) /\ forall y, In y its -> (it_t y <= it_t x)%N.

(* when the collector hands a batch over: at the arrival of its last item if
   that item filled it (limit in force at that arrival), else batch_timeout later *)
Definition spawn_due (c : cfg) (its : list item) (x : item) : N :=
  if it_max x <=? length its then it_t x else (it_t x + c_bt c)%N.

Definition spawn_ok (c : cfg) (its : list item) (sp : N) : Prop :=
  exists x, last_of its x /\ sp = spawn_due c its x.

Definition open_batch_ok (c : cfg) (s : state) (its : list item) (dl : N) : Prop :=
  exists x, last_of its x /\ length its < it_max x /\ dl = (it_t x + c_bt c)%N /\
            (it_t x <= now s)%N /\ (now s <= dl)%N /\ ((0 < c_bt c)%N -> (now s < dl)%N).

Record TInv (c : cfg) (s : state) : Prop := {
  T_coll : forall its dl, coll s = Some (its, dl) -> open_batch_ok c s its dl;
  T_spawn : forall its sp, In (its, sp) (g_spawn s) -> spawn_ok c its sp /\ (sp <= now s)%N;
  T_cover : map fst (g_spawn s) = map st_items (g_started s) ++ waiting s;
  T_nth : forall i its sp b its' t,
      nth_error (g_spawn s) i = Some (its, sp) -> nth_error (g_started s) i = Some (b, its', t) -> (sp <= t)%N;
  T_rt : forall dl k, In (dl, k) (rtimers s) -> (now s < dl)%N
}.

(* fields the other transformers leave alone *)
Definition same_T (s s' : state) : Prop :=
  now s' = now s /\ coll s' = coll s /\ waiting s' = waiting s /\ g_started s' = g_started s /\
  g_spawn s' = g_spawn s /\ rtimers s' = rtimers s.

Lemma same_T_inv c s s' : same_T s s' -> TInv c s -> TInv c s'.
Proof.
  intros (E1 & E2 & E3 & E4 & E5 & E6) [].
  constructor; unfold open_batch_ok in *; rewrite ?E1, ?E2, ?E3, ?E4, ?E5, ?E6; auto.
Qed.

Lemma same_T_refl s : same_T s s.
Proof. repeat split. Qed.

(* ---- spawn / start ------------------------------------------------------------ *)

Lemma length_cover c s : TInv c s -> length (g_spawn s) = length (g_started s) + length (waiting s).
Proof.
  intros T. pose proof (T_cover _ _ T) as H. apply (f_equal (@length _)) in H.
  now rewrite app_length, !map_length in H.
Qed.

(* a batch that was already spawned (last entry of g_spawn or head of waiting) starts now *)
Lemma start_batch_T c its s :
  (forall its' dl, coll s = Some (its', dl) -> open_batch_ok c s its' dl) ->
  (forall its' sp, In (its', sp) (g_spawn s) -> spawn_ok c its' sp /\ (sp <= now s)%N) ->
  map fst (g_spawn s) = map st_items (g_started s) ++ its :: waiting s ->
  (forall i its1 sp b its' t,
      nth_error (g_spawn s) i = Some (its1, sp) -> nth_error (g_started s) i = Some (b, its', t) -> (sp <= t)%N) ->
  (forall dl k, In (dl, k) (rtimers s) -> (now s < dl)%N) ->
  TInv c (fst (start_batch its s)).
Proof.
  intros Hc Hs Hcov Hn Hr. unfold start_batch. constructor; simpl; auto.
  - rewrite map_app. simpl. rewrite <- app_assoc. exact Hcov.
  - intros i its1 sp b its' t H1 H2.
    destruct (Nat.lt_ge_cases i (length (g_started s))) as [L|L].
    + rewrite nth_error_app1 in H2 by exact L. eauto.
    + rewrite nth_error_app2 in H2 by exact L.
      destruct (i - length (g_started s)) as [|n]; simpl in H2.
      * injection H2 as <- <- <-. apply nth_error_In in H1. apply Hs in H1. tauto.
      * destruct n; discriminate.
Qed.

Lemma dispatch_T c its s :
  LInv c s -> TInv c s -> coll s = None -> spawn_ok c its (now s) -> TInv c (fst (dispatch its s)).
Proof.
  intros I T C Hsp. unfold dispatch. cbn [free set_spawn waiting].
  pose proof (length_cover c s T) as Hlen.
  assert (Hs' : forall its' sp, In (its', sp) (g_spawn s ++ [(its, now s)]) -> spawn_ok c its' sp /\ (sp <= now s)%N).
  { intros its' sp H. apply in_app_or in H as [H|[H|[]]].
    - now apply (T_spawn _ _ T).
    - injection H as <- <-. split; auto. lia. }
  destruct (0 <? free s) eqn:E.
  - assert (W : waiting s = []).
    { destruct (waiting s) eqn:W; auto. pose proof (L_wait _ _ I) as H. rewrite W in H.
      assert (free s = 0) by (apply H; discriminate). lia. }
    apply start_batch_T; simpl.
    + rewrite C. discriminate.
    + exact Hs'.
    + rewrite map_app, (T_cover _ _ T), W. simpl. now rewrite <- app_assoc.
    + intros i its1 sp b its' t H1 H2.
      assert (L : i < length (g_started s)) by (apply nth_error_Some; congruence).
      rewrite nth_error_app1 in H1 by lia. eapply (T_nth _ _ T); eauto.
    + apply (T_rt _ _ T).
  - constructor; simpl.
    + rewrite C. discriminate.
    + exact Hs'.
    + rewrite map_app, (T_cover _ _ T). simpl. now rewrite <- app_assoc.
    + intros i its1 sp b its' t H1 H2.
      assert (L : i < length (g_started s)) by (apply nth_error_Some; congruence).
      rewrite nth_error_app1 in H1 by lia. eapply (T_nth _ _ T); eauto.
    + apply (T_rt _ _ T).
Qed.

Lemma release_slot_T c s : TInv c s -> TInv c (fst (release_slot s)).
Proof.
  intros T. unfold release_slot. destruct (waiting s) as [|w ws] eqn:W.
  - destruct T. constructor; simpl; auto.
  - apply start_batch_T; simpl.
    + apply (T_coll _ _ T).
    + apply (T_spawn _ _ T).
    + rewrite (T_cover _ _ T), W. reflexivity.
    + apply (T_nth _ _ T).
    + apply (T_rt _ _ T).
Qed.

(* ---- the collector takes an item ------------------------------------------------ *)

Lemma take_T c it s :
  LInv c s -> TInv c s -> it_t it = now s -> it_max it = maxb s -> TInv c (fst (take c it s)).
Proof.
  intros I T Ht Hm. unfold take.
  set (its := match coll s with Some (its0, _) => its0 ++ [it] | None => [it] end).
  assert (Hlast : last_of its it).
  { unfold its. destruct (coll s) as [[its0 dl]|] eqn:C.
    - destruct (T_coll _ _ T _ _ C) as (x & [_ Hx] & _ & _ & Hx2 & _).
      split; [eexists; reflexivity|]. intros y Hy. apply in_app_or in Hy as [Hy|[<-|[]]]; [|lia].
      specialize (Hx y Hy). lia.
    - split; [exists []; reflexivity|]. intros y [<-|[]]. lia. }
  destruct (length its <? maxb s) eqn:E.
  - destruct T. constructor; simpl; auto.
    intros its' dl H. injection H as <- <-. exists it. repeat split; try apply Hlast; simpl; try lia.
  - apply dispatch_T.
    + destruct I. constructor; simpl; auto. discriminate.
    + destruct T. constructor; simpl; auto. discriminate.
    + reflexivity.
    + simpl. exists it. split; auto. unfold spawn_due. rewrite Hm.
      destruct (maxb s <=? length its) eqn:E2; [auto|lia].
Qed.

Lemma do_call_T c a ko m s : LInv c s -> TInv c s -> TInv c (fst (do_call c a ko m s)).
Proof.
  intros I T. unfold do_call.
  destruct (lookup (ret s) (key_of a ko)) as [f|].
  - destruct (lookup (fdone s) f) as [[o t]|]; simpl; destruct T; constructor; auto.
  - apply take_T; try reflexivity.
    + destruct I; constructor; auto.
    + destruct T; constructor; auto.
Qed.

Lemma do_calls_T c l : forall s, LInv c s -> Fifo s -> TInv c s -> TInv c (fst (do_calls c l s)).
Proof.
  induction l as [|[a ko] r IH]; intros s I F T; simpl; auto.
  pose proof (do_call_L c a ko 0 s I) as I1. pose proof (do_call_fifo c a ko 0 s I F) as F1.
  pose proof (do_call_T c a ko 0 s I T) as T1.
  destruct (do_call c a ko 0 s) as [s1 o1]. simpl in *.
  specialize (IH s1 I1 F1 T1). destruct (do_calls c r s1) as [s2 o2]. exact IH.
Qed.

(* ---- resolve / fanout / wake / cancel leave the timing fields alone, except that
        resolve arms a retention timer in the future ----------------------------------- *)

Lemma resolve_T c k f o s : TInv c s -> TInv c (resolve c k f o s).
Proof.
  intros T. unfold resolve. destruct (0 <? c_rt c)%N eqn:E.
  - destruct T. constructor; simpl; auto.
    intros dl k' H. apply in_app_or in H as [H|[H|[]]]; eauto. injection H as <- <-. lia.
  - destruct T. constructor; simpl; auto.
Qed.

Lemma fanout_T c l o : forall s, TInv c s -> TInv c (fst (fanout c l o s)).
Proof.
  induction l as [|[k f] r IH]; intros s T; simpl; auto.
  unfold set_fut. destruct (is_done s f); simpl; auto. apply IH. now apply resolve_T.
Qed.

Lemma wake_T c s : TInv c s -> TInv c (fst (wake s)).
Proof.
  intros T. unfold wake. destruct (wake_from _ _ _ _). simpl. destruct T. constructor; auto.
Qed.

Definition LFT (c : cfg) (s : state) : Prop := LInv c s /\ Fifo s /\ TInv c s.

Lemma call_LFT c a ko m s : LFT c s -> LFT c (fst (do_call c a ko m s)) /\ True.
Proof.
  intros (I & F & T). split; auto. split; [|split]; [apply do_call_L | apply do_call_fifo | apply do_call_T]; auto.
Qed.

Lemma wake_LFT c s : LFT c s -> LFT c (fst (wake s)) /\ True.
Proof.
  intros (I & F & T). split; auto. destruct (wake_LF c s (conj I F)) as [[I1 F1] _].
  split; [|split]; auto. now apply wake_T.
Qed.

Lemma do_chain_T c a ko m s : LInv c s -> Fifo s -> TInv c s -> TInv c (fst (do_chain c a ko m s)).
Proof.
  intros I F T.
  destruct (lift_chain c (LFT c) (fun _ _ _ => True) (fun _ _ => Logic.I) (fun _ _ _ _ _ _ _ => Logic.I) (call_LFT c)
              a ko m s) as [(_ & _ & H) _]; [exact (conj I (conj F T)) | exact H].
Qed.

Lemma wake_all_T c s : LInv c s -> Fifo s -> TInv c s -> TInv c (fst (wake_all c s)).
Proof.
  intros I F T.
  destruct (lift_wake_all c (LFT c) (fun _ _ _ => True) (fun _ _ => Logic.I) (fun _ _ _ _ _ _ _ => Logic.I)
              (call_LFT c) (wake_LFT c) s) as [(_ & _ & H) _]; [exact (conj I (conj F T)) | exact H].
Qed.

Lemma end_batch_T c B o s :
  LInv c s -> Fifo s -> In B (running s) -> TInv c s -> TInv c (fst (end_batch c B o s)).
Proof.
  intros I F HB T. destruct (end_batch_mid c B o s I F HB) as (I1 & F1 & I2 & F2).
  unfold end_batch. set (s0 := set_running s _) in *.
  assert (T0 : TInv c s0) by (destruct T; constructor; auto).
  pose proof (release_slot_T c s0 T0) as T1. destruct (release_slot s0) as [s1 o1]. simpl in *.
  pose proof (fanout_T c (b_futs B) o s1 T1) as T2. destruct (fanout c (b_futs B) o s1) as [s2 died]. simpl in *.
  pose proof (wake_all_T c s2 I2 F2 T2) as T3. destruct (wake_all c s2) as [s3 o3]. exact T3.
Qed.

(* ---- time ------------------------------------------------------------------------- *)

Lemma fold_min_le l : forall d, (fold_left N.min l d <= d)%N /\ forall x, In x l -> (fold_left N.min l d <= x)%N.
Proof.
  induction l as [|y r IH]; intros d; simpl.
  - split; [lia|intros ? []].
  - destruct (IH (N.min d y)) as [H1 H2]. split; [lia|].
    intros x [<-|Hx]; [lia|auto].
Qed.

Lemma fold_min_in l : forall d, fold_left N.min l d = d \/ In (fold_left N.min l d) l.
Proof.
  induction l as [|y r IH]; intros d; simpl; auto.
  destruct (IH (N.min d y)) as [H|H]; auto.
  rewrite H. destruct (N.min_spec d y) as [[_ ->]|[_ ->]]; auto.
Qed.

Lemma next_deadline_min s t :
  next_deadline s = Some t -> In t (deadlines s) /\ forall d, In d (deadlines s) -> (t <= d)%N.
Proof.
  unfold next_deadline. destruct (deadlines s) as [|d r]; [discriminate|].
  intros H. injection H as <-. split.
  - destruct (fold_min_in r d) as [H|H]; [left; now rewrite H|now right].
  - destruct (fold_min_le r d) as [H1 H2]. intros x [<-|Hx]; auto.
Qed.

Lemma next_deadline_none s : next_deadline s = None -> coll s = None /\ rtimers s = [].
Proof.
  unfold next_deadline, deadlines. destruct (rtimers s); simpl; [|discriminate].
  destruct (coll s) as [[? ?]|]; [discriminate|auto].
Qed.

(* the clock reaches deadline [t], the earliest one *)
Lemma fire_at_T c t s :
  LInv c s -> TInv c s -> (forall d, In d (deadlines s) -> (t <= d)%N) -> TInv c (fst (fire_at t s)).
Proof.
  intros I T Hmin. unfold fire_at.
  set (s1 := set_now s (N.max (now s) t)).
  set (due := filter _ (rtimers s1)).
  set (s2 := set_rtimers _ _).
  assert (Hnow : (now s <= now s2)%N) by (simpl; lia).
  assert (Hrt2 : forall dl k, In (dl, k) (rtimers s2) -> (now s2 < dl)%N).
  { simpl. intros dl k H. apply filter_In in H as [H1 H2]. simpl in H2.
    apply (T_rt _ _ T) in H1. lia. }
  assert (Hsp2 : forall its sp, In (its, sp) (g_spawn s2) -> spawn_ok c its sp /\ (sp <= now s2)%N).
  { simpl. intros its sp H. apply (T_spawn _ _ T) in H as [H1 H2]. split; auto. lia. }
  destruct (coll s2) as [[its dl]|] eqn:C; simpl in C.
  - destruct (T_coll _ _ T _ _ C) as (x & Hl & Hlen & Hdl & Hx & Hle & Hlt).
    assert (Hd : (t <= dl)%N).
    { apply Hmin. unfold deadlines. rewrite C. apply in_or_app. right. now left. }
    destruct (dl <=? t)%N eqn:E.
    + apply dispatch_T.
      * destruct I. constructor; simpl; auto. discriminate.
      * destruct T. constructor; simpl; auto. discriminate.
      * reflexivity.
      * simpl. exists x. split; auto. unfold spawn_due.
        destruct (it_max x <=? length its) eqn:E2; lia.
    + simpl. constructor; simpl; auto.
      * intros its' dl' H. rewrite C in H. injection H as <- <-.
        exists x. repeat split; try apply Hl; subst s2 s1; simpl in *; try lia.
      * apply (T_cover _ _ T).
      * apply (T_nth _ _ T).
  - simpl. constructor; simpl; auto.
    + rewrite C. discriminate.
    + apply (T_cover _ _ T).
    + apply (T_nth _ _ T).
Qed.

Lemma set_now_T c s v :
  TInv c s -> (now s <= v)%N -> (forall d, In d (deadlines s) -> (v < d)%N) -> TInv c (set_now s v).
Proof.
  intros T Hv Hd. constructor; simpl.
  - intros its dl C. destruct (T_coll _ _ T _ _ C) as (x & Hl & Hlen & Hdl & Hx & Hle & Hlt).
    assert (v < dl)%N by (apply Hd; unfold deadlines; rewrite C; apply in_or_app; right; now left).
    exists x. repeat split; try apply Hl; simpl; try lia.
  - intros its sp H. apply (T_spawn _ _ T) in H as [H1 H2]. split; auto. lia.
  - apply (T_cover _ _ T).
  - apply (T_nth _ _ T).
  - intros dl k H. apply Hd. unfold deadlines. apply in_or_app. left.
    apply in_map_iff. exists (dl, k). auto.
Qed.

Lemma advance_LFT c fuel target : forall s,
  LInv c s -> Fifo s -> TInv c s -> (now s <= target)%N -> TInv c (fst (advance fuel target s)).
Proof.
  induction fuel as [|n IH]; intros s I F T Hnt; simpl.
  - destruct T; constructor; auto.
  - destruct (next_deadline s) as [t|] eqn:ND.
    + destruct (next_deadline_min s t ND) as [Hin Hmin].
      destruct (t <=? target)%N eqn:E.
      * destruct (fire_at_LF c t s I F) as [I1 F1].
        pose proof (fire_at_T c t s I T Hmin) as T1.
        assert (Hn1 : (now (fst (fire_at t s)) <= target)%N).
        { unfold fire_at. destruct (coll _) as [[its dl]|]; [destruct (dl <=? t)%N|]; simpl; try lia.
          match goal with |- context [dispatch its ?s3] =>
            assert (I3 : LInv c s3) by (destruct I; constructor; simpl; auto; discriminate);
            destruct (dispatch_ghost c its s3 I3) as (_ & _ & _ & _ & G5) end.
          rewrite G5. simpl. lia. }
        destruct (fire_at t s) as [s1 o1]. simpl in *.
        specialize (IH s1 I1 F1 T1 Hn1). destruct (advance n target s1) as [s2 o2]. exact IH.
      * simpl. apply set_now_T; auto; [lia|].
        intros d Hd. specialize (Hmin d Hd).
        assert (now s <= d)%N.
        { unfold deadlines in Hd. apply in_app_or in Hd as [Hd|Hd].
          - apply in_map_iff in Hd as ([dl k] & <- & Hd). apply (T_rt _ _ T) in Hd. simpl. lia.
          - destruct (coll s) as [[its dl]|] eqn:C; [|contradiction]. destruct Hd as [<-|[]].
            destruct (T_coll _ _ T _ _ C) as (x & _ & _ & _ & _ & Hle & _). exact Hle. }
        lia.
    + apply next_deadline_none in ND as [C R]. simpl. apply set_now_T; auto; [lia|].
      unfold deadlines. rewrite C, R. intros d [].
Qed.

(* ---- the macro step ------------------------------------------------------------------- *)

Lemma log_bev_T c s b e : TInv c s -> TInv c (log_bev s b e).
Proof. intros []. constructor; auto. Qed.

Lemma set_batch_futs_T c s b fs : TInv c s -> TInv c (set_batch_futs s b fs).
Proof. intros []. constructor; auto. Qed.

Lemma cancel_T c s cid : TInv c s -> TInv c (fst (cancel_caller s cid)).
Proof.
  intros T. unfold cancel_caller. destruct (nth_error _ _) as [cl|]; auto.
  destruct (cl_st cl); auto. destruct T. constructor; auto.
Qed.

Lemma step_T c s e : LInv c s -> Fifo s -> TInv c s -> TInv c (fst (step c s e)).
Proof.
  intros I F T. destruct e as [a ko|a ko m|l|dt|b k r|b e|b|cid|n]; simpl.
  - now apply do_call_T.
  - now apply do_chain_T.
  - now apply do_calls_T.
  - apply advance_LFT; auto. lia.
  - destruct (find_batch s b) as [B|] eqn:FB; auto.
    apply find_batch_some in FB as [HB Hid].
    assert (I0 : LInv c (log_bev s b (EvYield k r))) by (destruct I; constructor; auto).
    destruct (lookup (b_futs B) k) as [f|].
    + set (s0 := set_batch_futs _ b _).
      assert (I1 : LInv c s0) by (apply set_batch_futs_L; exact I0).
      assert (F1 : Fifo s0) by exact F.
      assert (T1 : TInv c s0) by (apply set_batch_futs_T, log_bev_T, T).
      unfold set_fut. destruct (is_done s0 f).
      * apply end_batch_T; auto. subst b. apply in_set_batch_futs; auto.
      * pose proof (resolve_same c k f (of_res r) s0) as S2.
        apply wake_all_T; [eapply same_L_inv | eapply same_L_fifo | apply resolve_T]; eauto.
    + apply end_batch_T; auto. now apply log_bev_T.
  - destruct (find_batch s b) as [B|] eqn:FB; auto. apply find_batch_some in FB as [HB Hid].
    apply end_batch_T; auto; [destruct I; constructor; auto | now apply log_bev_T].
  - destruct (find_batch s b) as [B|] eqn:FB; auto. apply find_batch_some in FB as [HB Hid].
    apply end_batch_T; auto; [destruct I; constructor; auto | now apply log_bev_T].
  - now apply cancel_T.
  - destruct T. constructor; auto.
Qed.

Lemma init_T c : TInv c (init c).
Proof.
  constructor; simpl; auto; try discriminate; try contradiction.
  intros [|i]; discriminate.
Qed.

Lemma run_from_LFT c evs : forall s,
  Forall ev_ok evs -> LInv c s -> Fifo s -> TInv c s ->
  LInv c (snd (run_from c s evs)) /\ Fifo (snd (run_from c s evs)) /\ TInv c (snd (run_from c s evs)).
Proof.
  induction evs as [|e r IH]; intros s He I F T; simpl; auto.
  inversion He; subst.
  destruct (step_LF c s e H1 I F) as [I1 F1]. pose proof (step_T c s e I F T) as T1.
  destruct (step c s e) as [s1 o]. simpl in *.
  specialize (IH s1 H2 I1 F1 T1). destruct (run_from c s1 r) as [tr s2]. exact IH.
Qed.

Lemma run_LFT c evs :
  cfg_ok c -> Forall ev_ok evs ->
  LInv c (snd (run c evs)) /\ Fifo (snd (run c evs)) /\ TInv c (snd (run c evs)).
Proof.
  intros Hc He. destruct (init_LF c Hc) as [I0 F0]. apply run_from_LFT; auto. apply init_T.
Qed.

(* ---- fuel: [advance] never runs dry, and the clock is exact ------------------------------ *)

Definition same_clock (s s' : state) : Prop := now s' = now s /\ fuel_out s' = fuel_out s.

Lemma same_clock_trans s1 s2 s3 : same_clock s1 s2 -> same_clock s2 s3 -> same_clock s1 s3.
Proof. intros [A1 A2] [B1 B2]. split; congruence. Qed.

Lemma start_batch_clock its s : same_clock s (fst (start_batch its s)).
Proof. split; reflexivity. Qed.

Lemma dispatch_misc its s :
  same_clock s (fst (dispatch its s)) /\ rtimers (fst (dispatch its s)) = rtimers s /\
  coll (fst (dispatch its s)) = coll s.
Proof. unfold dispatch. cbn [free set_spawn waiting]. destruct (0 <? free s); repeat split. Qed.

Lemma release_slot_clock s : same_clock s (fst (release_slot s)).
Proof. unfold release_slot. destruct (waiting s); split; reflexivity. Qed.

Lemma take_clock c it s : same_clock s (fst (take c it s)).
Proof.
  unfold take. destruct (_ <? maxb s); [split; reflexivity|].
  match goal with |- context [dispatch ?x ?s3] => destruct (dispatch_misc x s3) as (H & _) end. exact H.
Qed.

Lemma resolve_clock c k f o s : same_clock s (resolve c k f o s).
Proof. unfold resolve. destruct (0 <? c_rt c)%N; split; reflexivity. Qed.

Lemma fanout_clock c l o : forall s, same_clock s (fst (fanout c l o s)).
Proof.
  induction l as [|[k f] r IH]; intros s; simpl; [split; reflexivity|].
  unfold set_fut. destruct (is_done s f); simpl; [split; reflexivity|].
  eapply same_clock_trans; [apply resolve_clock | apply IH].
Qed.

Lemma wake_clock s : same_clock s (fst (wake s)).
Proof. unfold wake. destruct (wake_from _ _ _ _). split; reflexivity. Qed.

Lemma do_call_clock c a ko m s : same_clock s (fst (do_call c a ko m s)).
Proof.
  unfold do_call. destruct (lookup (ret s) _) as [f|].
  - destruct (lookup (fdone s) f) as [[o t]|]; split; reflexivity.
  - match goal with |- same_clock _ (fst (take c ?it ?s1)) => apply (take_clock c it s1) end.
Qed.

Lemma do_calls_clock c l : forall s, same_clock s (fst (do_calls c l s)).
Proof.
  induction l as [|[a ko] r IH]; intros s; simpl; [split; reflexivity|].
  pose proof (do_call_clock c a ko 0 s) as C1. destruct (do_call c a ko 0 s) as [s1 o1].
  specialize (IH s1). destruct (do_calls c r s1) as [s2 o2]. simpl in *.
  eapply same_clock_trans; eauto.
Qed.

Lemma same_clock_refl s : same_clock s s.
Proof. split; reflexivity. Qed.

Lemma call_clock_ok c a ko m s :
  True -> True /\ (fun s s' (_ : list obs) => same_clock s s') s (fst (do_call c a ko m s)) (snd (do_call c a ko m s)).
Proof. intros _. split; auto. apply do_call_clock. Qed.

Lemma do_chain_clock c a ko m s : same_clock s (fst (do_chain c a ko m s)).
Proof.
  apply (lift_chain c (fun _ => True) (fun s s' _ => same_clock s s') (fun s _ => same_clock_refl s)
           (fun s1 s2 s3 _ _ => same_clock_trans s1 s2 s3) (call_clock_ok c)). exact I.
Qed.

Lemma wake_all_clock c s : same_clock s (fst (wake_all c s)).
Proof.
  apply (lift_wake_all c (fun _ => True) (fun s s' _ => same_clock s s') (fun s _ => same_clock_refl s)
           (fun s1 s2 s3 _ _ => same_clock_trans s1 s2 s3) (call_clock_ok c)); auto.
  intros s0 _. split; auto. apply wake_clock.
Qed.

Lemma end_batch_clock c B o s : same_clock s (fst (end_batch c B o s)).
Proof.
  unfold end_batch. set (s0 := set_running s _).
  pose proof (release_slot_clock s0) as C1. destruct (release_slot s0) as [s1 o1]. simpl in *.
  pose proof (fanout_clock c (b_futs B) o s1) as C2. destruct (fanout c (b_futs B) o s1) as [s2 died]. simpl in *.
  pose proof (wake_all_clock c s2) as C3. destruct (wake_all c s2) as [s3 o3]. simpl in *.
  eapply same_clock_trans; [|exact C3]. eapply same_clock_trans; [|exact C2]. exact C1.
Qed.


Lemma filter_length_le {A} (f : A -> bool) l : length (filter f l) <= length l.
Proof. induction l as [|x r IH]; simpl; auto. destruct (f x); simpl; lia. Qed.

Lemma filter_length_lt {A} (f : A -> bool) l x : In x l -> f x = false -> length (filter f l) < length l.
Proof.
  induction l as [|y r IH]; simpl; [contradiction|]. intros [->|H] Hf.
  - rewrite Hf. pose proof (filter_length_le f r). lia.
  - specialize (IH H Hf). destruct (f y); simpl; lia.
Qed.

(* firing the earliest deadline consumes at least one deadline *)
Lemma fire_at_measure t s :
  In t (deadlines s) ->
  length (deadlines (fst (fire_at t s))) < length (deadlines s) /\
  fuel_out (fst (fire_at t s)) = fuel_out s /\ now (fst (fire_at t s)) = N.max (now s) t.
Proof.
  intros Hin. unfold fire_at.
  set (s1 := set_now s (N.max (now s) t)).
  set (s2 := set_rtimers _ _).
  assert (R2 : rtimers s2 = filter (fun p => negb (fst p <=? t)%N) (rtimers s)) by reflexivity.
  assert (C2 : coll s2 = coll s) by reflexivity.
  pose proof (filter_length_le (fun p => negb (fst p <=? t)%N) (rtimers s)) as Hle.
  unfold deadlines in Hin. apply in_app_or in Hin.
  destruct (coll s2) as [[its dl]|] eqn:C.
  - destruct (dl <=? t)%N eqn:E.
    + match goal with |- context [dispatch its ?s3] => destruct (dispatch_misc its s3) as ([H1 H2] & H3 & H4) end.
      unfold deadlines. rewrite H1, H2, H3, H4. simpl. rewrite <- C2. simpl.
      rewrite !app_length, !map_length. simpl. repeat split; lia.
    + cbn [fst]. unfold deadlines. rewrite C, R2. rewrite <- C2. simpl. rewrite !app_length, !map_length. simpl.
      repeat split. destruct Hin as [Hin|Hin].
      * apply in_map_iff in Hin as ([d k] & Hd & Hin). simpl in Hd. subst d.
        pose proof (filter_length_lt (fun p => negb (fst p <=? t)%N) (rtimers s) (t, k) Hin) as Hlt.
        simpl in Hlt. assert ((t <=? t)%N = true) by lia. rewrite H in Hlt. specialize (Hlt eq_refl). lia.
      * rewrite <- C2 in Hin. destruct Hin as [<-|[]]. lia.
  - cbn [fst]. unfold deadlines. rewrite C, R2. rewrite <- C2. simpl. rewrite !app_length, !map_length. simpl.
    repeat split. destruct Hin as [Hin|Hin].
    + apply in_map_iff in Hin as ([d k] & Hd & Hin). simpl in Hd. subst d.
      pose proof (filter_length_lt (fun p => negb (fst p <=? t)%N) (rtimers s) (t, k) Hin) as Hlt.
      simpl in Hlt. assert ((t <=? t)%N = true) by lia. rewrite H in Hlt. specialize (Hlt eq_refl). lia.
    + rewrite <- C2 in Hin. contradiction.
Qed.

Lemma advance_fuel fuel target : forall s,
  length (deadlines s) < fuel -> (now s <= target)%N ->
  fuel_out (fst (advance fuel target s)) = fuel_out s /\ now (fst (advance fuel target s)) = target.
Proof.
  induction fuel as [|n IH]; intros s Hf Hn; [lia|]. simpl.
  destruct (next_deadline s) as [t|] eqn:ND.
  - destruct (next_deadline_min s t ND) as [Hin _].
    destruct (t <=? target)%N eqn:E.
    + destruct (fire_at_measure t s Hin) as (M1 & M2 & M3).
      destruct (fire_at t s) as [s1 o1]. simpl in *.
      destruct (IH s1) as [F1 F2]; [lia|lia|].
      destruct (advance n target s1) as [s2 o2]. simpl in *. split; congruence.
    + simpl. split; auto. lia.
  - simpl. split; auto. lia.
Qed.

Definition adv_of (e : event) : N := match e with Advance dt => dt | _ => 0%N end.
Definition total_adv (evs : list event) : N := fold_right (fun e a => (adv_of e + a)%N) 0%N evs.

Lemma step_clock c s e :
  fuel_out (fst (step c s e)) = fuel_out s /\ now (fst (step c s e)) = (now s + adv_of e)%N.
Proof.
  assert (X : forall s', same_clock s s' -> fuel_out s' = fuel_out s /\ now s' = (now s + 0)%N).
  { intros s' [H1 H2]. split; auto. lia. }
  destruct e as [a ko|a ko m|l|dt|b k r|b e|b|cid|n]; simpl.
  - apply X, do_call_clock.
  - apply X, do_chain_clock.
  - apply X, do_calls_clock.
  - apply advance_fuel; [|lia]. unfold deadlines. rewrite app_length, map_length.
    destruct (coll s) as [[? ?]|]; simpl; lia.
  - apply X. destruct (find_batch s b) as [B|]; [|split; reflexivity].
    destruct (lookup (b_futs B) k) as [f|].
    + unfold set_fut. match goal with |- context [is_done ?s0 f] => destruct (is_done s0 f) end.
      * match goal with |- same_clock _ (fst (end_batch c ?B' ?o ?s0)) =>
          pose proof (end_batch_clock c B' o s0) as [H1 H2] end. split; auto.
      * match goal with |- same_clock _ (fst (wake_all c ?s1)) => pose proof (wake_all_clock c s1) as [H1 H2] end.
        split; [rewrite H1|rewrite H2]; unfold resolve; destruct (0 <? c_rt c)%N; reflexivity.
    + match goal with |- same_clock _ (fst (end_batch c ?B' ?o ?s0)) =>
        pose proof (end_batch_clock c B' o s0) as [H1 H2] end. split; auto.
  - apply X. destruct (find_batch s b) as [B|]; [|split; reflexivity].
    match goal with |- same_clock _ (fst (end_batch c ?B' ?o ?s0)) =>
      pose proof (end_batch_clock c B' o s0) as [H1 H2] end. split; auto.
  - apply X. destruct (find_batch s b) as [B|]; [|split; reflexivity].
    match goal with |- same_clock _ (fst (end_batch c ?B' ?o ?s0)) =>
      pose proof (end_batch_clock c B' o s0) as [H1 H2] end. split; auto.
  - apply X. unfold cancel_caller. destruct (nth_error _ _) as [cl|]; [|split; reflexivity].
    destruct (cl_st cl); split; reflexivity.
  - apply X. split; reflexivity.
Qed.

Lemma run_from_clock c evs : forall s,
  fuel_out (snd (run_from c s evs)) = fuel_out s /\
  now (snd (run_from c s evs)) = (now s + total_adv evs)%N.
Proof.
  induction evs as [|e r IH]; intros s; simpl; [split; auto; lia|].
  destruct (step_clock c s e) as [H1 H2]. destruct (step c s e) as [s1 o]. simpl in *.
  destruct (IH s1) as [G1 G2]. destruct (run_from c s1 r) as [tr s2]. simpl in *.
  split; [congruence|]. rewrite G2, H2. lia.
Qed.

(* for every event list: the fuel of [advance] suffices and the model clock is the
   sum of the Advance events *)
Lemma clock_exact_lemma c evs :
  fuel_out (snd (run c evs)) = false /\ now (snd (run c evs)) = total_adv evs.
Proof. destruct (run_from_clock c evs (init c)) as [H1 H2]. unfold run. rewrite H1, H2. split; auto. Qed.

(* ---- why a batch starts: spawned in this very transition, or released by a batch end ------ *)

(* every batch started in the transition was spawned in it, at the same instant *)
Definition SpawnStart (s s' : state) : Prop :=
  exists nsp nst, g_spawn s' = g_spawn s ++ nsp /\ g_started s' = g_started s ++ nst /\
                  forall b its t, In (b, its, t) nst -> In (its, t) nsp.

(* nothing is spawned; at most the head of the semaphore queue starts, now *)
Definition ReleaseStart (s s' : state) : Prop :=
  g_spawn s' = g_spawn s /\
  (g_started s' = g_started s \/
   exists w ws, waiting s = w :: ws /\ g_started s' = g_started s ++ [(nbid s, w, now s)]).

Lemma ss_refl s s' : g_spawn s' = g_spawn s -> g_started s' = g_started s -> SpawnStart s s'.
Proof. intros H1 H2. exists [], []. rewrite !app_nil_r. repeat split; auto; intros ? ? ? []. Qed.

Lemma ss_trans s1 s2 s3 : SpawnStart s1 s2 -> SpawnStart s2 s3 -> SpawnStart s1 s3.
Proof.
  intros (p1 & q1 & A1 & B1 & C1) (p2 & q2 & A2 & B2 & C2). exists (p1 ++ p2), (q1 ++ q2).
  rewrite A2, A1, B2, B1, <- !app_assoc. repeat split.
  intros b its t H. apply in_app_or in H as [H|H]; apply in_or_app; eauto.
Qed.

Lemma dispatch_ss its s : SpawnStart s (fst (dispatch its s)).
Proof.
  unfold dispatch. cbn [free set_spawn waiting]. destruct (0 <? free s).
  - exists [(its, now s)], [(nbid s, its, now s)]. repeat split.
    intros b its' t [H|[]]. injection H as <- <- <-. now left.
  - exists [(its, now s)], []. simpl. rewrite app_nil_r. repeat split. intros ? ? ? [].
Qed.

Lemma take_ss c it s : SpawnStart s (fst (take c it s)).
Proof.
  unfold take. destruct (_ <? maxb s); [now apply ss_refl|].
  match goal with |- SpawnStart _ (fst (dispatch ?x ?s3)) => apply (dispatch_ss x s3) end.
Qed.

Lemma do_call_ss c a ko m s : SpawnStart s (fst (do_call c a ko m s)).
Proof.
  unfold do_call. destruct (lookup (ret s) _) as [f|].
  - destruct (lookup (fdone s) f) as [[o t]|]; now apply ss_refl.
  - match goal with |- SpawnStart _ (fst (take c ?it ?s1)) => apply (take_ss c it s1) end.
Qed.

Lemma do_calls_ss c l : forall s, SpawnStart s (fst (do_calls c l s)).
Proof.
  induction l as [|[a ko] r IH]; intros s; simpl; [now apply ss_refl|].
  pose proof (do_call_ss c a ko 0 s) as C1. destruct (do_call c a ko 0 s) as [s1 o1].
  specialize (IH s1). destruct (do_calls c r s1) as [s2 o2]. simpl in *. eapply ss_trans; eauto.
Qed.

Lemma call_ss_ok c a ko m s :
  True -> True /\ (fun s s' (_ : list obs) => SpawnStart s s') s (fst (do_call c a ko m s)) (snd (do_call c a ko m s)).
Proof. intros _. split; auto. apply do_call_ss. Qed.

Lemma do_chain_ss c a ko m s : SpawnStart s (fst (do_chain c a ko m s)).
Proof.
  apply (lift_chain c (fun _ => True) (fun s s' _ => SpawnStart s s') (fun s _ => ss_refl s s eq_refl eq_refl)
           (fun s1 s2 s3 _ _ => ss_trans s1 s2 s3) (call_ss_ok c)). exact I.
Qed.

Lemma wake_all_ss c s : SpawnStart s (fst (wake_all c s)).
Proof.
  apply (lift_wake_all c (fun _ => True) (fun s s' _ => SpawnStart s s') (fun s _ => ss_refl s s eq_refl eq_refl)
           (fun s1 s2 s3 _ _ => ss_trans s1 s2 s3) (call_ss_ok c)); auto.
  intros s0 _. split; auto. unfold wake. destruct (wake_from _ _ _ _). now apply ss_refl.
Qed.

Lemma fire_at_ss t s : SpawnStart s (fst (fire_at t s)).
Proof.
  unfold fire_at. set (s2 := set_rtimers _ _).
  destruct (coll s2) as [[its dl]|]; [|now apply ss_refl].
  destruct (dl <=? t)%N; [|now apply ss_refl].
  match goal with |- SpawnStart _ (fst (dispatch its ?s3)) => apply (dispatch_ss its s3) end.
Qed.

Lemma advance_ss fuel target : forall s, SpawnStart s (fst (advance fuel target s)).
Proof.
  induction fuel as [|n IH]; intros s; simpl; [now apply ss_refl|].
  destruct (next_deadline s) as [t|]; [|now apply ss_refl].
  destruct (t <=? target)%N; [|now apply ss_refl].
  pose proof (fire_at_ss t s) as C1. destruct (fire_at t s) as [s1 o1].
  specialize (IH s1). destruct (advance n target s1) as [s2 o2]. simpl in *. eapply ss_trans; eauto.
Qed.

Lemma fanout_ghost c l o : forall s,
  g_spawn (fst (fanout c l o s)) = g_spawn s /\ g_started (fst (fanout c l o s)) = g_started s.
Proof.
  induction l as [|[k f] r IH]; intros s; simpl; auto.
  unfold set_fut. destruct (is_done s f); simpl; auto.
  destruct (IH (resolve c k f o s)) as [H1 H2]. rewrite H1, H2.
  unfold resolve. destruct (0 <? c_rt c)%N; auto.
Qed.

(* a batch event: first the release (at most the head of the queue starts), then
   the resumed tasks that call again may spawn (and start) further batches *)
Definition RelSpawn (s s' : state) : Prop := exists sm, ReleaseStart s sm /\ SpawnStart sm s'.

Lemma end_batch_rs c B o s : RelSpawn s (fst (end_batch c B o s)).
Proof.
  unfold end_batch. set (s0 := set_running s _).
  assert (R : ReleaseStart s (fst (release_slot s0))).
  { unfold ReleaseStart, release_slot. simpl. destruct (waiting s) as [|w ws]; simpl; auto. split; auto. right. eauto. }
  destruct (release_slot s0) as [s1 o1]. simpl in *.
  destruct (fanout_ghost c (b_futs B) o s1) as [G1 G2]. destruct (fanout c (b_futs B) o s1) as [s2 died]. simpl in *.
  pose proof (wake_all_ss c s2) as S3. destruct (wake_all c s2) as [s3 o3]. simpl in *.
  exists s1. split; auto. eapply ss_trans; [|exact S3]. now apply ss_refl.
Qed.

Definition is_batch_event (e : event) : bool :=
  match e with BYield _ _ _ | BRaise _ _ | BFinish _ => true | _ => false end.

Lemma rs_of_ss s s' : SpawnStart s s' -> RelSpawn s s'.
Proof. intros H. exists s. split; auto. split; auto. Qed.

Lemma step_start_cause c s e :
  if is_batch_event e then RelSpawn s (fst (step c s e)) else SpawnStart s (fst (step c s e)).
Proof.
  destruct e as [a ko|a ko m|l|dt|b k r|b e|b|cid|n]; simpl.
  - apply do_call_ss.
  - apply do_chain_ss.
  - apply do_calls_ss.
  - apply advance_ss.
  - destruct (find_batch s b) as [B|]; [|apply rs_of_ss; now apply ss_refl].
    destruct (lookup (b_futs B) k) as [f|].
    + unfold set_fut. match goal with |- context [is_done ?s0 f] => destruct (is_done s0 f) end.
      * match goal with |- RelSpawn _ (fst (end_batch c ?B' ?o ?s0)) => exact (end_batch_rs c B' o s0) end.
      * apply rs_of_ss.
        match goal with |- SpawnStart _ (fst (wake_all c ?s1)) => pose proof (wake_all_ss c s1) as S3 end.
        eapply ss_trans; [|exact S3]. apply ss_refl; unfold resolve; destruct (0 <? c_rt c)%N; reflexivity.
    + match goal with |- RelSpawn _ (fst (end_batch c ?B' ?o ?s0)) => exact (end_batch_rs c B' o s0) end.
  - destruct (find_batch s b) as [B|]; [|apply rs_of_ss; now apply ss_refl].
    match goal with |- RelSpawn _ (fst (end_batch c ?B' ?o ?s0)) => exact (end_batch_rs c B' o s0) end.
  - destruct (find_batch s b) as [B|]; [|apply rs_of_ss; now apply ss_refl].
    match goal with |- RelSpawn _ (fst (end_batch c ?B' ?o ?s0)) => exact (end_batch_rs c B' o s0) end.
  - unfold cancel_caller. destruct (nth_error _ _) as [cl|]; [|now apply ss_refl].
    destruct (cl_st cl); now apply ss_refl.
  - now apply ss_refl.
Qed.

(* observable form: a BatchStart emitted by a macro step is for a batch spawned in
   that same step at that same instant, or the step's event is a batch-function
   event (the only events that end a batch) and the batch was the head of the
   semaphore queue *)
Lemma start_cause_lemma c s e b items t :
  In (BatchStart b items t) (snd (step c s e)) ->
  exists its, items = map ka its /\
    ((exists nsp, g_spawn (fst (step c s e)) = g_spawn s ++ nsp /\ In (its, t) nsp) \/
     (is_batch_event e = true /\ exists ws, waiting s = its :: ws /\ t = now s /\ b = nbid s)).
Proof.
  intros H. destruct (step_emits c s e) as (new & A & Bq).
  assert (H' : In (BatchStart b items t) (filter is_start (snd (step c s e)))) by (apply filter_In; auto).
  rewrite Bq in H'. apply in_map_iff in H' as ([[b' its] t'] & E & Hin). simpl in E. injection E as <- <- <-.
  exists its. split; auto.
  pose proof (step_start_cause c s e) as SC. destruct (is_batch_event e).
  - destruct SC as (sm & [R1 R2] & (nsp & nst & S1 & S2 & S3)).
    destruct R2 as [R2|(w & ws & W & R2)].
    + left. exists nsp. split; [congruence|]. rewrite S2, R2 in A. apply app_inv_head in A. subst new. eauto.
    + rewrite S2, R2, <- app_assoc in A. apply app_inv_head in A. subst new.
      destruct Hin as [Hin|Hin].
      * right. split; auto. injection Hin as <- <- <-. eauto.
      * left. exists nsp. split; [congruence|]. eauto.
  - left. destruct SC as (nsp & nst & S1 & S2 & S3). exists nsp. split; auto.
    rewrite S2 in A. apply app_inv_head in A. subst new. eauto.
Qed.

(* ---- the C10 statement ----------------------------------------------------------------------- *)

Lemma dispatch_deadline_lemma c evs :
  cfg_ok c -> Forall ev_ok evs ->
  let s := snd (run c evs) in
  (* the open batch: deadline = last arrival + batch_timeout, not yet reached *)
  (forall its dl, coll s = Some (its, dl) ->
     exists x, last_of its x /\ dl = (it_t x + c_bt c)%N /\ (now s <= dl)%N /\ ((0 < c_bt c)%N -> (now s < dl)%N)) /\
  (* every other item is in a spawned batch *)
  (forall it, In it (g_items s) -> In it (coll_items s) \/ exists its sp, In (its, sp) (g_spawn s) /\ In it its) /\
  (* spawned at the last arrival if that filled the batch, else exactly batch_timeout later *)
  (forall its sp, In (its, sp) (g_spawn s) ->
     exists x, last_of its x /\ sp = spawn_due c its x /\ (it_t x <= sp <= it_t x + c_bt c)%N /\ (sp <= now s)%N) /\
  (* spawn order = start order = batch ids; no start before the spawn; the rest queue FIFO *)
  map fst (g_spawn s) = map st_items (g_started s) ++ waiting s /\
  (forall i its sp b its' t, nth_error (g_spawn s) i = Some (its, sp) -> nth_error (g_started s) i = Some (b, its', t) ->
     its' = its /\ (sp <= t)%N) /\
  (* a spawned batch waits only while every slot is taken *)
  (waiting s <> [] -> free s = 0 /\ length (running s) = c_conc c).
Proof.
  intros Hc He s. destruct (run_LFT c evs Hc He) as (I & F & T). fold s in I, F, T.
  split; [|split; [|split; [|split; [|split]]]].
  - intros its dl C. destruct (T_coll _ _ T _ _ C) as (x & H1 & H2 & H3 & H4 & H5 & H6). eauto 8.
  - intros it Hit. unfold Fifo, handed, started_items in F. rewrite <- F in Hit.
    apply in_app_or in Hit as [Hit|Hit]; auto. right.
    assert (Hin : exists its, In its (map fst (g_spawn s)) /\ In it its).
    { rewrite (T_cover _ _ T). apply in_app_or in Hit as [Hit|Hit].
      - apply in_flat_map in Hit as (x & Hx & Hit). exists (st_items x). split; auto.
        apply in_or_app. left. now apply in_map.
      - apply in_concat in Hit as (w & Hw & Hit). exists w. split; auto. apply in_or_app. now right. }
    destruct Hin as (its & Hin & Hit'). apply in_map_iff in Hin as ([its' sp] & E & Hin). simpl in E. subst its'. eauto.
  - intros its sp H. apply (T_spawn _ _ T) in H as [(x & Hl & Hsp) Hn]. exists x. split; [exact Hl|]. split; [exact Hsp|].
    revert Hsp. unfold spawn_due. destruct (it_max x <=? length its); intros; lia.
  - apply (T_cover _ _ T).
  - intros i its sp b its' t H H0. split; [|eapply (T_nth _ _ T); eauto].
    pose proof (T_cover _ _ T) as Cv.
    apply (f_equal (fun l => nth_error l i)) in Cv.
    rewrite nth_error_map, H in Cv. simpl in Cv.
    assert (L : i < length (map st_items (g_started s))).
    { rewrite map_length. apply nth_error_Some. congruence. }
    rewrite nth_error_app1, nth_error_map, H0 in Cv by exact L. unfold st_items in Cv. simpl in Cv. congruence.
  - intros W. pose proof (L_slots _ _ I). apply (L_wait _ _ I) in W. lia.
Qed.

Lemma reachable_LInv_lemma c evs : cfg_ok c -> Forall ev_ok evs -> LInv c (snd (run c evs)).
Proof. intros Hc He. exact (proj1 (run_LFT c evs Hc He)). Qed.
