(* Case_C12.v — correspondence cases and trace monitor for C12 (FileLock
   contract, sequential view).  No proofs here; see FLockSeq.v / props/C12.v.

   A case = configuration of the objects (reentrant?, constructor timeout), a
   fault script, a sequence of (thread, call) and what the real FileLock showed
   after every call: result, is_locked of every object, elapsed virtual ticks,
   number of open descriptors on the lock file, number of injected faults that
   fired, and for every (thread, object) the answer of a probe
   "acquire(False) [+ release()]" issued by that thread.                      *)
From Coq Require Import List Arith Bool NArith.
Import ListNotations.
Require Import Aiuti.CaseLib Aiuti.FLock Aiuti.FLockSpec.

Definition sobs := (result * list bool * N * nat * nat * list bool * nat)%type.

Inductive case :=
| CSeq (nT : nat) (cfg : list (bool * tmo)) (fl : list (skind * nat * bool))
       (ops : list (tid * call)) (observed : list sobs) (kernel_mismatches : nat).

Definition FUEL := 600.

Definition result_code (r : result) : nat :=
  match r with RTrue => 0 | RFalse => 1 | RTimeout => 2 | ROSErr => 3 | RNone => 4
             | RRuntime => 5 | RWouldBlock => 6 | ROutOfFuel => 7 end.
Definition result_eqb (a b : result) : bool := Nat.eqb (result_code a) (result_code b).
Definition bools_eqb := list_eqb Bool.eqb.

Definition sobs_eqb (x y : sobs) : bool :=
  let '(r1, l1, e1, f1, i1, p1, q1) := x in
  let '(r2, l2, e2, f2, i2, p2, q2) := y in
  result_eqb r1 r2 && bools_eqb l1 l2 && N.eqb e1 e2 && Nat.eqb f1 f2 && Nat.eqb i1 i2
  && bools_eqb p1 p2 && Nat.eqb q1 q2.

(* ---- the model's trace ------------------------------------------------------ *)

Definition init_seq (nT : nat) (cfg : list (bool * tmo)) (fl : list (skind * nat * bool)) : state :=
  init (map (fun c => obj0 0 (fst c) (snd c)) cfg) (map (fun _ => thr0 0 []) (seq 0 nT)) fl.

Definition probe (s : state) (t : tid) (o : oid) : state * bool :=
  let '(s1, r) := do_call FUEL s t (CAcq o MPlain false TNone 0%N 0) in
  match r with
  | RTrue => (fst (do_call FUEL s1 t (CRel o false)), true)
  | _ => (s1, false)
  end.

Fixpoint probes (s : state) (pairs : list (tid * oid)) : state * list bool :=
  match pairs with
  | [] => (s, [])
  | (t, o) :: r => let '(s1, b) := probe s t o in
                   let '(s2, bs) := probes s1 r in (s2, b :: bs)
  end.

Definition all_pairs (nT nO : nat) : list (tid * oid) :=
  flat_map (fun t => map (fun o => (t, o)) (seq 0 nO)) (seq 0 nT).

Definition locked_all (s : state) (nO : nat) : list bool := map (is_locked s) (seq 0 nO).

Fixpoint run_seq (nT nO : nat) (s : state) (ops : list (tid * call)) : list sobs :=
  match ops with
  | [] => []
  | (t, c) :: rest =>
      let '(s1, r) := do_call FUEL s t c in
      match r with
      | RWouldBlock | ROutOfFuel => [(r, locked_all s1 nO, 0%N, nfds s1, 0, [], 0)]
      | _ =>
          let '(s2, ps) := probes s1 (all_pairs nT nO) in
          (r, locked_all s1 nO, (now s1 - now s)%N, nfds s1, nfired s1 - nfired s, ps, nfired s2 - nfired s1)
            :: run_seq nT nO s2 rest
      end
  end.

Definition model_trace (c : case) : list sobs :=
  match c with CSeq nT cfg fl ops _ _ => run_seq nT (length cfg) (init_seq nT cfg fl) ops end.

Definition agree (c : case) : bool :=
  match c with
  | CSeq _ _ _ _ observed km => list_eqb sobs_eqb (model_trace c) observed && Nat.eqb km 0
  end.

(* ---- monitor: the contract, decided on the observed trace --------------------- *)

Definition cfg_reent (cfg : list (bool * tmo)) (o : oid) : bool := fst (nth o cfg (false, TNeg)).
Definition cfg_dflt (cfg : list (bool * tmo)) (o : oid) : tmo := snd (nth o cfg (false, TNeg)).

(* elapsed-time clause: non-blocking returns at once; a timed acquire stays within its
   timeout plus one poll interval.  (In general each of the two waiting stages — thread lock,
   then OS lock — may take up to the timeout: props/C12.v timed_bound says T + T + poll.  The
   cases here issue one call at a time, so at most ONE stage waits: a thread lock that is
   available is taken at once, one that is not stays unavailable until the timeout.  Proved
   for the model: FLockAcq.time_fin, last clause.) *)
Definition time_ok (dflt : tmo) (blk : bool) (tm : tmo) (poll el : N) : bool :=
  let '(b', tm') := normalise (obj0 0 false dflt) blk tm in
  if negb b' then N.eqb el 0
  else match tm' with TVal T => (el <=? T + poll)%N | _ => true end.

Definition implb_list (obs expd : list bool) : bool :=
  Nat.eqb (length obs) (length expd) &&
  forallb (fun p => implb (fst p) (snd p)) (combine obs expd).

Fixpoint mon (nT : nat) (cfg : list (bool * tmo)) (st : sstate) (ops : list (tid * call))
         (observed : list sobs) : bool :=
  match ops, observed with
  | _, [] => true                      (* nothing (more) was observed *)
  | [], _ :: _ => false
  | (t, c) :: ops', (r, lk, el, fds, fired, pr, pfired) :: obs' =>
      if negb (spec_ok_call st t c) then true      (* outside the contract: not judged *)
      else
      let nO := length cfg in
      let after (st' : sstate) : bool :=
          bools_eqb lk (map (spec_is_locked st') (seq 0 nO))                      (* is_locked iff held *)
          && Nat.eqb fds (match st' with Some _ => 1 | None => 0 end)             (* one descriptor iff held *)
          && (let expd := map (fun p => snd (spec_acquire st' (fst p) (snd p) (cfg_reent cfg (snd p))))
                              (all_pairs nT nO) in
              if Nat.eqb pfired 0 then bools_eqb pr expd else implb_list pr expd)
          && mon nT cfg st' ops' obs' in
      match c with
      | CAcq o m blk tm poll _ =>
          let '(st', b) := spec_acquire st t o (cfg_reent cfg o) in
          let no := spec_no (cfg_dflt cfg o) m blk tm in
          match r with
          | RWouldBlock =>
              negb b && result_eqb no RWouldBlock
              && bools_eqb lk (map (spec_is_locked st) (seq 0 nO))
              && match obs' with [] => true | _ => false end
          | RTrue => b && time_ok (cfg_dflt cfg o) blk tm poll el && after st'
          | _ =>
              (* "no": the state must be as before *)
              (if b then (1 <=? fired) && (result_eqb r (fail_result m) || result_eqb r ROSErr)
               else result_eqb r no || ((1 <=? fired) && result_eqb r ROSErr))
              && time_ok (cfg_dflt cfg o) blk tm poll el && after st
          end
      | CRel o force =>
          result_eqb r RNone && N.eqb el 0 && after (spec_release st o force)
      end
  end.

Definition ok (c : case) : bool :=
  match c with
  | CSeq nT cfg fl ops observed km =>
      mon nT cfg None ops observed && Nat.eqb km 0
      && (Nat.eqb (length observed) (length ops)          (* every call answered, or the last one blocks *)
          || match rev observed with (RWouldBlock, _, _, _, _, _, _) :: _ => true | _ => false end)
  end.

Definition nontrivial (c : case) : bool :=
  match c with
  | CSeq _ _ _ ops observed _ =>
      let rs := map (fun x => match x with (r, _, _, _, _, _, _) => result_code r end) observed in
      (3 <=? length observed)
      && existsb (Nat.eqb 0) rs
      && (existsb (fun k => negb (Nat.eqb k 0) && negb (Nat.eqb k 4)) rs
          || (2 <=? length (filter (Nat.eqb 0) rs)))
  end.

Definition verdict := verdict3 agree ok nontrivial.
