(* Options.v — executable models for C15 (decorator-with-options forms and the
   per-loop registry of async_background_batcher).  MODEL ONLY (no proofs).

   1. Option facts.  For each decorator the translator (harness/c15_translate.py)
      emits into coq/gen/T_Options.v a [deco] record:
        accepted : keyword-only parameters of the public function
        rebound  : (keyword, variable) pairs of functools.partial(...) in the
                   `if func is None` branch                (asyncio.py:370-374, 562-563, 924-931)
        applied  : (keyword, variable) pairs with which the direct branch
                   configures the object it builds (constructor call;
                   for threadsafe_async_cache: `cache` initialises the store, l.378)
        ctor_params : keyword-only parameters of the class' __init__
      [forwardedb] decides "every accepted option is re-bound under its own
      name and applied under its own name".
   2. Small reference semantics of the configured objects, used to say what
      "the option takes effect with the value given" means on the scripted
      histories of the correspondence (no cancellation, no failure — those are
      C03/C04/C07-C11's business):
        buffer  : debounce, flush at (last submission + timeout)
        batcher : collection with size bound / batch_timeout, FIFO semaphore
                  of max_concurrent_batches, retention window
      Times are in fifths of a tick (T5) so that the default batch_timeout
      0.05 s = 51.2 ticks = 256 is an integer.
   3. The per-loop registry as a product construction, generic in the
      single-object step function. *)
From Coq Require Import List Arith Bool NArith String.
Import ListNotations.

(* ---- 1. option facts ----------------------------------------------------- *)

Record deco := mkdeco {
  dname : string;
  accepted : list string;
  rebound : list (string * string);
  applied : list (string * string);
  ctor_params : list string
}.

Definition pair_mem (p : string * string) (l : list (string * string)) : bool :=
  existsb (fun q => String.eqb (fst p) (fst q) && String.eqb (snd p) (snd q)) l.

Definition str_mem (s : string) (l : list string) : bool := existsb (String.eqb s) l.

Definition forwardedb (d : deco) : bool :=
  forallb (fun o => pair_mem (o, o) (rebound d) && pair_mem (o, o) (applied d) &&
                    str_mem o (ctor_params d)) (accepted d).

(* the options the property names, per decorator *)
Definition documented : list (string * list string) :=
  [("threadsafe_async_cache", ["cache"]);
   ("buffer_until_timeout", ["timeout"]);
   ("async_background_batcher",
    ["max_batch_size"; "max_concurrent_batches"; "batch_timeout"; "retention_timeout"])]%string.

Definition documentedb (table : list deco) : bool :=
  forallb (fun p =>
    existsb (fun d => String.eqb (dname d) (fst p) &&
                      forallb (fun o => str_mem o (accepted d)) (snd p)) table) documented.

(* ---- 2a. buffer ----------------------------------------------------------- *)

Inductive bufev := Sub (a : nat) | BAdv (dt : N).

Definition buf_default_timeout : N := 5120.      (* 1 s = 1024 ticks *)

(* cur = (instant of the last submission, arguments buffered so far) *)
Fixpoint buf_run (T : N) (script : list bufev) (now : N) (cur : option (N * list nat))
  : list (N * list nat) :=
  match script with
  | [] => []
  | Sub a :: r =>
      buf_run T r now (Some (now, match cur with Some (_, acc) => acc ++ [a] | None => [a] end))
  | BAdv dt :: r =>
      let target := (now + dt)%N in
      match cur with
      | Some (last, acc) =>
          if (last + T <=? target)%N then (last + T, acc)%N :: buf_run T r target None
          else buf_run T r target cur
      | None => buf_run T r target None
      end
  end.

Definition buf_trace (timeout : option N) (script : list bufev) : list (N * list nat) :=
  buf_run (match timeout with Some t => t | None => buf_default_timeout end) script 0%N None.

(* ---- 2b. batcher ---------------------------------------------------------- *)

Record bcfg := mkcfg { cB : nat; cC : nat; cbt : N; cR : N }.
Definition default_cfg : bcfg := mkcfg 256 5 256 0.

(* options as given by the user: None = not passed *)
Record ocfg := mkocfg { oB : option nat; oC : option nat; obt : option N; oR : option N }.
Definition resolve (o : ocfg) : bcfg :=
  mkcfg (match oB o with Some v => v | None => cB default_cfg end)
        (match oC o with Some v => v | None => cC default_cfg end)
        (match obt o with Some v => v | None => cbt default_cfg end)
        (match oR o with Some v => v | None => cR default_cfg end).

Inductive bev := BCall (k : nat) | BFin (b : nat) | Adv (dt : N).

Inductive rst := RPend (f : nat) | RDone (b : nat) (expiry : N).
Definition tasks := list (nat * nat).               (* (key, future) *)

Record bst := mkb {
  now : N;
  coll : option (tasks * N);            (* batch being collected, deadline of the timed q.get() *)
  waitq : list tasks;                   (* dispatched, waiting for the semaphore (FIFO) *)
  running : list (nat * tasks);         (* batch function started, not finished *)
  ret : list (nat * rst);               (* _retention_cache: key -> pending future | retained result *)
  waiting : list (nat * nat);           (* (caller, future) *)
  ncall : nat; nfut : nat;
  starts : list (N * list nat);         (* observation: (instant, keys) per batch, in start order *)
  dones : list (nat * (N * nat))        (* observation: caller -> (instant, batch index) *)
}.

Definition binit : bst := mkb 0 None [] [] [] [] 0 0 [] [].

Fixpoint assoc {A} (k : nat) (l : list (nat * A)) : option A :=
  match l with
  | [] => None
  | (k', v) :: r => if Nat.eqb k k' then Some v else assoc k r
  end.
Definition unassoc {A} (k : nat) (l : list (nat * A)) : list (nat * A) :=
  filter (fun p => negb (Nat.eqb (fst p) k)) l.

(* `async with self._semaphore`: start waiting batches while there is room *)
Fixpoint start_loop (C : nat) (t : N) (q : list tasks) (run : list (nat * tasks))
         (st : list (N * list nat)) : list tasks * list (nat * tasks) * list (N * list nat) :=
  match q with
  | [] => ([], run, st)
  | b :: q' =>
      if List.length run <? C
      then start_loop C t q' (run ++ [(List.length st, b)]) (st ++ [(t, map fst b)])
      else (q, run, st)
  end.

(* a batch leaves _get_next_batch at instant t *)
Definition dispatch (c : bcfg) (t : N) (b : tasks) (s : bst) : bst :=
  let '(q, run, st) := start_loop (cC c) t (waitq s ++ [b]) (running s) (starts s) in
  mkb (now s) None q run (ret s) (waiting s) (ncall s) (nfut s) st (dones s).

Definition bstep (c : bcfg) (s : bst) (x : bev) : bst :=
  match x with
  | BCall k =>
      let cl := ncall s in
      match assoc k (ret s) with
      | Some (RDone b _) =>                         (* retained result: answered at once *)
          mkb (now s) (coll s) (waitq s) (running s) (ret s) (waiting s) (S cl) (nfut s)
              (starts s) (dones s ++ [(cl, (now s, b))])
      | Some (RPend f) =>                           (* same key in flight: share its future *)
          mkb (now s) (coll s) (waitq s) (running s) (ret s) (waiting s ++ [(cl, f)]) (S cl) (nfut s)
              (starts s) (dones s)
      | None =>
          let f := nfut s in
          let tk := match coll s with Some (t, _) => t ++ [(k, f)] | None => [(k, f)] end in
          let s1 := mkb (now s) (coll s) (waitq s) (running s) ((k, RPend f) :: ret s)
                        (waiting s ++ [(cl, f)]) (S cl) (S f) (starts s) (dones s) in
          if cB c <=? List.length tk then dispatch c (now s) tk s1
          else mkb (now s1) (Some (tk, (now s + cbt c)%N)) (waitq s1) (running s1) (ret s1)
                   (waiting s1) (ncall s1) (nfut s1) (starts s1) (dones s1)
      end
  | BFin b =>
      match assoc b (running s) with
      | None => s
      | Some tk =>
          let fs := map snd tk in
          let isf := fun f => existsb (Nat.eqb f) fs in
          let ret' := fold_left (fun r kf =>
                         if (0 <? cR c)%N then (fst kf, RDone b (now s + cR c)%N) :: unassoc (fst kf) r
                         else unassoc (fst kf) r) tk (ret s) in
          let fin := filter (fun cf => isf (snd cf)) (waiting s) in
          let rest := filter (fun cf => negb (isf (snd cf))) (waiting s) in
          let dn := dones s ++ map (fun cf => (fst cf, (now s, b))) fin in
          let '(q, run, st) := start_loop (cC c) (now s) (waitq s) (unassoc b (running s)) (starts s) in
          mkb (now s) (coll s) q run ret' rest (ncall s) (nfut s) st dn
      end
  | Adv dt =>
      let target := (now s + dt)%N in
      let s1 := match coll s with
                | Some (tk, d) => if (d <=? target)%N then dispatch c d tk s else s
                | None => s
                end in
      let ret' := filter (fun kr => match snd kr with
                                    | RDone _ ex => negb (ex <=? target)%N
                                    | RPend _ => true end) (ret s1) in
      mkb target (coll s1) (waitq s1) (running s1) ret' (waiting s1) (ncall s1) (nfut s1)
          (starts s1) (dones s1)
  end.

Definition btrace := (list (N * list nat) * list (option (N * nat)))%type.

Definition trace_of (s : bst) : btrace :=
  (starts s, map (fun c => assoc c (dones s)) (seq 0 (ncall s))).

Definition brun (c : bcfg) (script : list bev) : bst := fold_left (bstep c) script binit.

(* ---- 3. per-loop registry: product construction -------------------------- *)

Section Product.
  Variables (St E : Type).
  Variable sinit : St.
  Variable sstep : St -> E -> St.

  (* an event addressed to loop l / loop l is closed (and never used again) *)
  Inductive pev := On (l : nat) (x : E) | Close (l : nat).

  Record reg := mkreg {
    live : list (nat * St);       (* loop -> state of ITS object *)
    archive : list (nat * St)     (* ghost: final states of closed loops, for observation *)
  }.

  Definition pstep (r : reg) (p : pev) : reg :=
    match p with
    | On l x =>
        let s := match assoc l (live r) with Some s => s | None => sinit end in
        mkreg ((l, sstep s x) :: unassoc l (live r)) (archive r)
    | Close l =>
        match assoc l (live r) with
        | Some s => mkreg (unassoc l (live r)) ((l, s) :: archive r)
        | None => r
        end
    end.

  Definition prun (evs : list pev) : reg := fold_left pstep evs (mkreg [] []).

  (* the events addressed to l since it was last closed (None: no object) *)
  Definition addr_step (l : nat) (acc : option (list E)) (p : pev) : option (list E) :=
    match p with
    | On l' x => if Nat.eqb l l' then Some (match acc with Some a => a ++ [x] | None => [x] end) else acc
    | Close l' => if Nat.eqb l l' then None else acc
    end.
  Definition addressed (l : nat) (evs : list pev) : option (list E) :=
    fold_left (addr_step l) evs None.

  (* what the harness observes: a loop's object when the loop is closed, or at the end *)
  Definition final_of (l : nat) (r : reg) : option St :=
    match assoc l (live r) with Some s => Some s | None => assoc l (archive r) end.
End Product.

Arguments On {E}. Arguments Close {E}.
Arguments live {St}. Arguments archive {St}. Arguments mkreg {St}.
