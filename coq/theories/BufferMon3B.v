(* BufferMon3B.v — completeness of the walk part of the C03 trace monitor (Case_C03.ok_walk) and hence
   of the whole monitor: it accepts the model's own trace of EVERY event list.
   Ingredients:
     Mono   : within a round the input set only grows — after a failed call its set stays inside the
              round's input set, and every later call set of the round contains it;
     W2, UP : a closed producer has ended; the producers a daemon is parked on are unfinished — so
              "no scripted producer open" (tracker) means the daemon is not parked on a producer;
     the walk on observations decomposes into the call-set automaton, the failed-set automaton,
     "only offered" and "no Hang". *)
From Coq Require Import List Arith NArith Bool Lia Permutation.
Import ListNotations.
Require Import Aiuti.CaseLib Aiuti.Buffer Aiuti.Case_Buffer Aiuti.Case_C03 Aiuti.BufferCore Aiuti.BufferFlag
               Aiuti.BufferInv Aiuti.BufferJoin Aiuti.BufferTime Aiuti.BufferQuiet Aiuti.BufferOnce Aiuti.BufferProgress
               Aiuti.BufferMon Aiuti.BufferMonSound Aiuti.BufferMon8 Aiuti.BufferMon8B Aiuti.BufferTrk Aiuti.BufferMon3.

(* ---- Mono ------------------------------------------------------------------------------------------- *)
Definition okob (f : list nat) (o : obs) : Prop :=
  match o with FnStart _ set _ => incl f set | FnEnd _ _ _ => False | _ => True end.
Definition mono (f : list nat) (r : state * list obs) : Prop :=
  Forall (okob f) (snd r) /\ incl f (cur_ins (dm (fst r))).

Lemma okob_wrets f (ws : list waiter) t n : Forall (okob f) (map (fun w => WaitRet (wid w) t n) ws).
Proof. induction ws; cbn; constructor; cbn; auto. Qed.

Lemma incl_nil_any {A} (f l : list A) : incl f [] -> incl f l.
Proof. intros H x Hx. destruct (H x Hx). Qed.

Lemma run_func0_mono f s ins : incl f ins -> mono f (run_func0 s ins).
Proof.
  intros H. unfold run_func0, mono. destruct ins as [|x r].
  - unfold release; cbn. split; [apply okob_wrets|exact H].
  - cbn. split; [constructor; [exact H|constructor]|exact H].
Qed.

Lemma incl_set_addl ys ins : incl ins (set_addl ys ins).
Proof. intros x Hx. apply set_addl_in. auto. Qed.

Lemma continue_round_mono f s ins ld : incl f ins -> mono f (continue_round s ins ld).
Proof.
  intros H. unfold continue_round. destruct (load_all (ld ++ q s)) as [[rem ys] fs].
  assert (H' : incl f (set_addl ys ins)) by (eapply incl_tran; [exact H|apply incl_set_addl]).
  destruct (unfinished s - length (q s) =? 0); destruct rem; cbn [andb];
    try destruct (wants_cancel _); try (split; [constructor|exact H']); apply run_func0_mono; exact H'.
Qed.

Lemma start_round_mono f s : incl f [] -> mono f (start_round s).
Proof.
  intros H. unfold start_round. destruct (q s); [split; [constructor|exact H]|]. apply continue_round_mono. exact H.
Qed.

Lemma mono_app f (s2 : state) o1 o2 : Forall (okob f) o1 -> mono f (s2, o2) -> mono f (s2, o1 ++ o2).
Proof. intros A [B C]. split; [apply Forall_app; auto|exact C]. Qed.

Lemma run_func_mono f s ins : incl f ins -> mono f (run_func s ins).
Proof.
  intros H. unfold run_func. destruct ins as [|x r].
  - destruct (release s) as [s1 o1] eqn:E. unfold release in E. inversion E; subst s1 o1; clear E. unfold end_round.
    match goal with |- context [start_round ?a] => pose proof (start_round_mono f a H) as M; destruct (start_round a) as [s2 o2] end.
    apply (mono_app f s2); [apply okob_wrets|exact M].
  - cbn. split; [constructor; [exact H|constructor]|exact H].
Qed.

Lemma load_one_mono f s ins p : incl f ins -> mono f (load_one s ins p).
Proof.
  intros H. assert (H' : incl f (set_addl (p_yields p) ins)) by (eapply incl_tran; [exact H|apply incl_set_addl]).
  unfold load_one. destruct (p_fin p); [apply continue_round_mono; exact H'|split; [constructor|exact H']].
Qed.

Lemma after_gather_mono f s ins g : incl f ins -> mono f (after_gather s ins g).
Proof.
  intros H. destruct g; cbn [after_gather]; [split; [constructor|exact H]|apply load_one_mono|apply run_func_mono|apply run_func_mono]; exact H.
Qed.

(* every step except the end of a call: no FnEnd is observed, call sets contain the pending failed set *)
Lemma step_mono f s e :
  incl f (cur_ins (dm s)) -> is_dead s = false ->
  (forall ins, dm s = DRun ins -> e <> FnOk /\ e <> FnFail /\ e <> FnOkThenFClear) ->
  e <> Shutdown -> mono f (step s e).
Proof.
  intros Hf Hd Hrun Hsh. unfold step. rewrite Hd.
  assert (Stay : forall s', dm s' = dm s -> mono f (s', [])) by (intros s' E; split; [constructor|cbn; rewrite E; exact Hf]).
  assert (PutCase : forall p k c, mono f (do_put s p k c)).
  { intros p k c. unfold do_put. destruct (existsb (Nat.eqb p) (seen s)); [apply Stay; reflexivity|].
    match goal with |- mono _ (on_put ?x) => set (s4 := x); assert (E4 : dm s4 = dm s) by (unfold s4; destruct c; reflexivity) end.
    clearbody s4. unfold on_put. rewrite E4. destruct (dm s) as [|ins ld g|ins d|ins pl|ins|] eqn:Ed; cbn [cur_ins] in Hf; try (solve [apply Stay; cbn; auto]).
    - apply start_round_mono. exact Hf.
    - destruct g as [d|p0| |]; try (solve [apply Stay; cbn; auto]). destruct (q s4); [apply Stay; cbn; auto|].
      split; [constructor|cbn; exact Hf].
    - destruct (q s4); [apply Stay; cbn; auto|]. apply load_one_mono. exact Hf. }
  assert (FeedCase : forall n a, mono f (do_feed s n a)).
  { intros n a. unfold do_feed. destruct (negb (open_here s n)); [apply Stay; reflexivity|].
    destruct (dm s) as [|ins ld g|ins d|ins pl|ins|] eqn:Ed; cbn [cur_ins] in Hf; try (solve [apply Stay; cbn; auto]).
    - destruct (load_all (map (feed_if n a) ld)) as [[rem ys] fs].
      assert (H' : incl f (set_addl ys ins)) by (eapply incl_tran; [exact Hf|apply incl_set_addl]).
      destruct rem; [apply after_gather_mono; exact H'|split; [constructor|cbn; exact H']].
    - destruct ((pid pl =? n) && accepts pl); [apply load_one_mono; exact Hf|apply Stay; cbn; auto]. }
  assert (EndCase : forall ok fc, (forall ins, dm s <> DRun ins) -> mono f (do_fn_end s ok fc)).
  { intros ok fc Hn. unfold do_fn_end. destruct (dm s) as [|ins ld g|ins d|ins pl|ins|] eqn:Ed; try (solve [apply Stay; auto]). destruct (Hn ins eq_refl). }
  assert (NotRun : (e = FnOk \/ e = FnFail \/ e = FnOkThenFClear) -> forall ins, dm s <> DRun ins).
  { intros He ins E. destruct (Hrun ins E) as (A & B & C). destruct He as [He|[He|He]]; contradiction. }
  destruct e; try apply PutCase; try apply FeedCase; try (apply EndCase; apply NotRun; auto); try contradiction.
  - unfold do_advance. destruct (dm s) as [|ins ld g|ins d|ins pl|ins|] eqn:Ed; cbn [cur_ins] in Hf; try (solve [apply Stay; cbn; auto]).
    + destruct g as [d|p0| |]; try (solve [apply Stay; cbn; auto]). destruct (d <=? now s + dt)%N; [|apply Stay; cbn; auto].
      split; [constructor|cbn; exact Hf].
    + destruct (d <=? now s + dt)%N; [|apply Stay; cbn; auto].
      match goal with |- context [run_func ?a ?b] => pose proof (run_func_mono f a b Hf) as M; destruct (run_func a b) as [s1 o] end. exact M.
  - unfold do_wait. destruct (existsb (Nat.eqb w) (wseen s)); [apply Stay; reflexivity|].
    unfold wait_core. cbn [unfinished set_gh set_wseen dm evset]. destruct (unfinished s =? 0); [|apply Stay; reflexivity].
    destruct (dm s) as [|ins ld g|ins d|ins pl|ins|] eqn:Ed; cbn [cur_ins] in Hf; try (solve [destruct (evset s); [split; [constructor; [exact I|constructor]|cbn; rewrite ?Ed; cbn; auto]|apply Stay; cbn; auto]]).
    + destruct g as [d|p0| |]; try (solve [destruct (evset s); [split; [constructor; [exact I|constructor]|cbn; rewrite ?Ed; cbn; auto]|apply Stay; cbn; auto]]).
      destruct cancel; [split; [constructor|cbn; exact Hf]|apply Stay; cbn; auto].
    + destruct cancel; [apply run_func_mono; exact Hf|apply Stay; cbn; auto].
  - apply Stay; reflexivity.
Qed.

(* ---- the walk on observations, decomposed ------------------------------------------------------------ *)
Fixpoint fwalk (fl : option (list nat)) (os : list obs) : option (option (list nat)) :=
  match os with
  | [] => Some fl
  | FnStart _ set _ :: r =>
      if match fl with Some f => subset f set | None => true end then fwalk None r else None
  | FnEnd _ true _ :: r => fwalk None r
  | FnEnd _ false set :: r => fwalk (Some set) r
  | _ :: r => fwalk fl r
  end.

Definition oklists (os : list obs) : list (list nat) :=
  flat_map (fun o => match o with FnEnd _ true set => [set] | _ => [] end) os.

Lemma concat_oklists os : concat (oklists os) = okargs os.
Proof.
  induction os as [|o r IH]; [reflexivity|]. unfold oklists, okargs in *. cbn [flat_map]. rewrite concat_app, IH.
  destruct o; try reflexivity. destruct ok; cbn; rewrite ?app_nil_r; reflexivity.
Qed.

Lemma walk_obs3_spec k os : forall x oc' fl',
  (forall c set t, In (FnStart c set t) os -> subset set (offered_args k) = true) ->
  nohang os = true ->
  csets (opencall x) os = Some oc' ->
  fwalk (failed x) os = Some fl' ->
  walk_obs m3 on_ob3 k os x = Some (mk3 (del x ++ okargs os) (oksets x ++ oklists os) oc' fl').
Proof.
  induction os as [|o r IH]; intros x oc' fl' HB HD HA HC; cbn in *.
  - inversion HA; inversion HC; subst. rewrite !app_nil_r. destruct x; reflexivity.
  - apply andb_prop in HD as [HD1 HD2].
    assert (HB' : forall c set t, In (FnStart c set t) r -> subset set (offered_args k) = true)
      by (intros c set t Hin; apply (HB c set t); right; exact Hin).
    destruct o; cbn [on_ob3 csets fwalk] in *; try discriminate.
    + rewrite (HB callno set now (or_introl eq_refl)). cbn [andb].
      destruct (opencall x); [discriminate|].
      destruct (match failed x with Some f => subset f set | None => true end) eqn:Ef; [|discriminate].
      rewrite (IH (mk3 (del x) (oksets x) (Some (callno, set)) None) oc' fl' HB' HD2 HA HC). reflexivity.
    + destruct (opencall x) as [[c' set']|]; [|discriminate].
      destruct (Nat.eqb callno c' && nats_eqb set set'); [|discriminate].
      destruct ok.
      * rewrite (IH (mk3 (del x ++ set) (oksets x ++ [set]) None None) oc' fl' HB' HD2 HA HC). cbn [del oksets].
        rewrite <- !app_assoc. reflexivity.
      * rewrite (IH (mk3 (del x) (oksets x) None (Some set)) oc' fl' HB' HD2 HA HC). reflexivity.
    + apply IH; auto.
    + apply IH; auto.
Qed.

Definition has_start (os : list obs) : bool := existsb is_start os.

Lemma fwalk_quiet f os : Forall (okob f) os ->
  fwalk (Some f) os = Some (if has_start os then None else Some f) /\ fwalk None os = Some None.
Proof.
  induction 1 as [|o r Ho Hr [IH1 IH2]]; cbn [fwalk has_start existsb]; [auto|].
  destruct o; cbn in Ho; try contradiction; cbn [is_start orb].
  - rewrite (subset_of_incl _ _ Ho). auto.
  - auto.
  - auto.
  - auto.
Qed.

(* ---- one step of the model, seen by the walk ------------------------------------------------------------ *)
Definition L3 (s : state) (x : m3) : Prop :=
  opencall x = open_of s /\ forall f, failed x = Some f -> incl f (cur_ins (dm s)).
Definition D3 (s : state) (x : m3) : Prop :=
  del x = g_delivered (gh s) /\ concat (oksets x) = g_delivered (gh s).

Lemma mono_nil_any r : (exists f, mono f r) -> Forall (okob []) (snd r).
Proof.
  intros [f [H _]]. eapply Forall_impl; [|exact H]. intros o Ho. destruct o; cbn in *; auto. intros z [].
Qed.

(* the failed-set automaton over the observations of one step *)
Lemma step_fwalk s e fl :
  is_dead s = false -> e <> Shutdown ->
  (forall f, fl = Some f -> incl f (cur_ins (dm s))) ->
  exists fl', fwalk fl (snd (step s e)) = Some fl' /\ (forall f, fl' = Some f -> incl f (cur_ins (dm (fst (step s e))))).
Proof.
  intros Hd Hsh Hfl.
  assert (Quiet : (forall ins, dm s = DRun ins -> e <> FnOk /\ e <> FnFail /\ e <> FnOkThenFClear) ->
            exists fl', fwalk fl (snd (step s e)) = Some fl' /\ (forall f, fl' = Some f -> incl f (cur_ins (dm (fst (step s e)))))).
  { intros Hq. destruct fl as [f|].
    - destruct (step_mono f s e (Hfl f eq_refl) Hd Hq Hsh) as [M1 M2]. destruct (fwalk_quiet f _ M1) as [F1 _].
      rewrite F1. eexists. split; [reflexivity|]. intros f0 E. destruct (has_start _); inversion E; subst. exact M2.
    - destruct (step_mono [] s e (fun z (H : In z []) => match H with end) Hd Hq Hsh) as [M1 _]. destruct (fwalk_quiet [] _ M1) as [_ F2].
      rewrite F2. eexists. split; [reflexivity|]. discriminate. }
  destruct (dm s) as [|ins0 ld g|ins0 d|ins0 p|ins|] eqn:Ed; try (apply Quiet; intros ? E; discriminate E).
  assert (EndOk : forall fc, exists fl', fwalk fl (snd (do_fn_end s true fc)) = Some fl' /\
                    (forall f, fl' = Some f -> incl f (cur_ins (dm (fst (do_fn_end s true fc)))))).
  { intros fc. unfold do_fn_end. rewrite Ed.
    match goal with |- context [release ?x] => destruct (release x) as [s2 o1] eqn:E end.
    unfold release in E. inversion E; subst s2 o1; clear E.
    assert (Rest : forall (s3 : state) o2, Forall (okob []) o2 ->
              fwalk fl ([FnEnd (callno s - 1) true ins] ++
                        map (fun w => WaitRet (wid w) (now s) (S (nok s))) (filter is_onevent (waiters s)) ++ o2) = Some None).
    { intros s3 o2 H2. cbn [app fwalk]. apply (proj2 (fwalk_quiet [] _ (proj2 (Forall_app _ _ _) (conj (okob_wrets [] _ _ _) H2)))). }
    destruct fc.
    - match goal with |- context [continue_round ?a ?b ?c] => pose proof (continue_round_mono [] a b c (fun z (H : In z []) => match H with end)) as M; destruct (continue_round a b c) as [s3 o2] end.
      cbn [fst snd gh set_gh set_calls now nok waiters] in *. rewrite (Rest s3 o2 (proj1 M)). eexists. split; [reflexivity|discriminate].
    - unfold end_round.
      match goal with |- context [start_round ?a] => pose proof (start_round_mono [] a (fun z (H : In z []) => match H with end)) as M; destruct (start_round a) as [s3 o2] end.
      cbn [fst snd gh set_gh set_calls now nok waiters] in *. rewrite (Rest s3 o2 (proj1 M)). eexists. split; [reflexivity|discriminate]. }
  destruct e; try (apply Quiet; intros ? _; repeat split; discriminate); try contradiction; unfold step; rewrite Hd.
  - apply EndOk.
  - (* FnFail *) unfold do_fn_end. rewrite Ed.
    pose proof (continue_round_mono ins s ins [] (incl_refl _)) as [M1 M2]. destruct (continue_round s ins []) as [s1 o1].
    cbn [fst snd app fwalk] in *. destruct (fwalk_quiet ins o1 M1) as [F1 _]. rewrite F1.
    eexists. split; [reflexivity|]. intros f E. destruct (has_start o1); inversion E; subst. exact M2.
  - apply EndOk.
Qed.

Lemma step3 T done e x :
  let s := final T done in
  D3 s x -> (is_dead s = false -> L3 s x) ->
  exists x', walk_obs m3 on_ob3 (trk_run trk0 (done ++ [e])) (snd (step s e)) x = Some x' /\
             D3 (fst (step s e)) x' /\ (is_dead (fst (step s e)) = false -> L3 (fst (step s e)) x').
Proof.
  intros s [D1 D2] HL.
  destruct (is_dead s) eqn:Hd.
  - unfold step. rewrite Hd. cbn [fst snd walk_obs]. exists x. split; [reflexivity|]. split; [split; assumption|].
    intros H. rewrite Hd in H. discriminate.
  - destruct (HL eq_refl) as [L1 L2].
    (* only offered *)
    assert (HB : forall c set t, In (FnStart c set t) (snd (step s e)) -> subset set (offered_args (trk_run trk0 (done ++ [e]))) = true).
    { intros c set t Hin. apply subset_of_incl. rewrite (offered_args_final T (done ++ [e])), final_snoc.
      destruct (step_post s e (final_inv T done)) as [_ Hs]. exact (Hs c set t Hin). }
    pose proof (step_nohang s e) as HD.
    pose proof (delivered_step s e) as Hdel.
    destruct (Aiuti.BufferInv.is_shutdown e) eqn:Esh.
    + destruct e; try discriminate. unfold step in *. rewrite Hd in *. cbn [fst snd walk_obs on_ob3] in *.
      exists x. split; [reflexivity|]. split; [split; assumption|discriminate].
    + assert (Hsh : e <> Shutdown) by (intros ->; discriminate).
      pose proof (step_cs s e Hd Hsh) as HA. unfold cs_step in HA. rewrite <- L1 in HA.
      destruct (step_fwalk s e (failed x) Hd Hsh L2) as (fl' & HC & Hfl').
      rewrite (walk_obs3_spec _ _ x _ _ HB HD HA HC). eexists. split; [reflexivity|].
      split; [split; cbn [del oksets]|].
      * rewrite D1, Hdel. reflexivity.
      * rewrite concat_app, D2, concat_oklists, Hdel. reflexivity.
      * intros _. split; [reflexivity|exact Hfl'].
Qed.

Lemma walk3_run T more : forall done x,
  D3 (final T done) x -> (is_dead (final T done) = false -> L3 (final T done) x) ->
  exists x', walk m3 on_ev3 on_ob3 more (snd (run (final T done) more)) (trk_run trk0 done) x
             = Some (trk_run trk0 (done ++ more), x') /\ D3 (final T (done ++ more)) x'.
Proof.
  induction more as [|e r IH]; intros done x HD HL; cbn [run].
  - cbn. rewrite app_nil_r. exists x. auto.
  - destruct (step3 T done e x HD HL) as (x1 & W & HD1 & HL1).
    specialize (IH (done ++ [e]) x1). rewrite final_snoc in IH. rewrite trk_run_snoc' in W, IH.
    destruct (step (final T done) e) as [s1 o]. cbn [fst snd] in *.
    destruct (IH HD1 HL1) as (x' & W2 & HD2). rewrite <- app_assoc in W2, HD2. cbn [app] in W2, HD2.
    destruct (run s1 r) as [s2 os]. cbn [snd walk] in *. unfold on_ev3 at 1. rewrite W. exists x'. auto.
Qed.

(* ---- W2: a closed producer has ended ---------------------------------------------------------------------- *)
Definition W2 (ps : list prod) : Prop := forall p, In p ps -> closed p = true -> p_fin p = true.
Definition PW (sn : list nat) (g : ghost) (ins : list nat) (ps : list prod) : Prop := Core g ins ps /\ W2 ps.

Lemma load_all_rem ps : forall rem ys fs, load_all ps = (rem, ys, fs) ->
  forall p, In p rem -> exists p0, In p0 ps /\ p = p_wait p0 /\ p_fin p0 = false.
Proof.
  induction ps as [|p0 r IH]; intros rem ys fs E p Hin; cbn [load_all] in E.
  - inversion E; subst. destruct Hin.
  - destruct (load_all r) as [[rem0 ys0] fs0] eqn:Er. destruct (p_fin p0) eqn:Ef; inversion E; subst; clear E.
    + destruct (IH _ _ _ eq_refl p Hin) as (q0 & A & B & C). exists q0. split; [right; exact A|auto].
    + destruct Hin as [<-|Hin]; [exists p0; split; [left; reflexivity|auto]|].
      destruct (IH _ _ _ eq_refl p Hin) as (q0 & A & B & C). exists q0. split; [right; exact A|auto].
Qed.

Lemma fin_allAY_end a e : forallb is_AY a = true -> (e = AF \/ e = AE) -> finishes false (a ++ [e]) = true.
Proof.
  intros H He. induction a as [|x r IH]; cbn.
  - destruct He; subst; reflexivity.
  - destruct x; try discriminate. cbn in H. apply IH, H.
Qed.

Lemma feed_closed_fin a p : wf_prod p -> closed p = false -> closed (feed a p) = true -> p_fin (feed a p) = true.
Proof.
  intros [_ Ho] Hc. destruct (Ho Hc) as [HA Hs]. unfold p_fin. destruct a; cbn [feed closed single acts].
  - intros E. rewrite E. rewrite (Hs E). reflexivity.
  - intros _. destruct (single p) eqn:Es; [rewrite (Hs eq_refl); reflexivity|apply fin_allAY_end; auto].
  - destruct (single p) eqn:Es; [intros E; rewrite Hc in E; discriminate|].
    cbn [closed single acts]. intros _. apply fin_allAY_end; auto.
Qed.

Lemma step_PW s e : InvP PW s -> InvP PW (fst (step s e)).
Proof.
  intros H. apply (step_postP PW true); auto.
  - intros sn g ins ps ps' Hp [A B]. split; [eapply Core_permP; eauto|]. intros p Hin. apply B. eapply Permutation_in; [apply Permutation_sym; exact Hp|exact Hin].
  - intros sn g ins ps1 ps rem ys fs [A B] E. split; [eapply Core_load; eauto|].
    intros p Hin Hc. apply in_app_or in Hin as [Hin|Hin]; [apply B; [apply in_or_app; auto|exact Hc]|].
    destruct (load_all_rem _ _ _ _ E p Hin) as (p0 & Hin0 & -> & Hnf). cbn in Hc.
    rewrite (B p0 (in_or_app _ _ _ (or_intror Hin0)) Hc) in Hnf. discriminate.
  - intros sn g ins ps [A B]. split; [apply Core_deliver; [exact A|intros x []]|exact B].
  - intros _ sn g ins ps [A B]. split; [apply Core_deliver; [exact A|apply incl_refl]|exact B].
  - intros sn g ins ps p k t b [A B] _. split; [apply Core_put; exact A|].
    intros p0 Hin Hc. apply in_app_or in Hin as [Hin|[<-|[]]]; [apply B; auto|].
    destruct k.
    + apply (proj1 (imm_prod_loads p (Plain x) eq_refl)).
    + apply (proj1 (imm_prod_loads p (SyncList xs) eq_refl)).
    + apply (proj1 (imm_prod_loads p (SyncIter xs failpos) eq_refl)).
    + cbn in Hc. discriminate.
    + cbn in Hc. discriminate.
  - intros sn g ins ps n a [A B] Hex. split; [apply Core_feed; assumption|].
    intros p' Hin Hc. apply in_map_iff in Hin as (p & <- & Hin). unfold feed_if in *.
    destruct ((pid p =? n) && accepts p) eqn:E; [|apply B; assumption].
    apply andb_prop in E as [_ E]. unfold accepts in E. apply negb_true_iff in E.
    apply feed_closed_fin; [apply (c_wf _ _ _ A), Hin|exact E|exact Hc].
  - intros sn g g' ins ps E1 E2 E3 [A B]. split; [eapply Core_ext; eauto|exact B].
  - intros sn g ins ps [A _]. apply (c_ins _ _ _ A).
Qed.

Lemma final_PW T evs : InvP PW (final T evs).
Proof.
  induction evs as [|e r IH] using rev_ind.
  - intros _. split; [apply (init_inv T); reflexivity|intros p []].
  - rewrite final_snoc. apply step_PW, IH.
Qed.

(* ---- UP: the producers a daemon is parked on are unfinished ------------------------------------------------ *)
Definition UPd (d : daemon) : Prop :=
  match d with
  | DGather _ ld _ => ld <> [] /\ forall p, In p ld -> p_fin p = false
  | DLoadOne _ p => p_fin p = false
  | _ => True
  end.
Definition UPr (r : state * list obs) : Prop := UPd (dm (fst r)).

Lemma p_wait_unfin p : p_fin (p_wait p) = false.
Proof. unfold p_fin, p_wait; cbn. destruct (single p); reflexivity. Qed.

Lemma run_func0_UP s ins : UPr (run_func0 s ins).
Proof. unfold UPr, run_func0, release. destruct ins; cbn; auto. Qed.

Lemma continue_round_UP s ins ld : UPr (continue_round s ins ld).
Proof.
  unfold continue_round. destruct (load_all (ld ++ q s)) as [[rem ys] fs] eqn:El.
  assert (Hrem : forall p, In p rem -> p_fin p = false).
  { intros p Hin. destruct (load_all_rem _ _ _ _ El p Hin) as (p0 & _ & -> & _). apply p_wait_unfin. }
  destruct (unfinished s - length (q s) =? 0); destruct rem as [|p0 rem]; cbn [andb];
    try destruct (wants_cancel _); try apply run_func0_UP; unfold UPr; cbn [fst dm set_dm UPd]; try exact I;
    (split; [discriminate|exact Hrem]).
Qed.

Lemma start_round_UP s : UPr (start_round s).
Proof. unfold start_round. destruct (q s); [exact I|apply continue_round_UP]. Qed.

Lemma run_func_UP s ins : UPr (run_func s ins).
Proof.
  unfold run_func. destruct ins; [|exact I]. destruct (release s) as [s1 o1]. unfold end_round.
  pose proof (start_round_UP s1) as H. destruct (start_round s1). exact H.
Qed.

Lemma load_one_UP s ins p : UPr (load_one s ins p).
Proof. unfold load_one. destruct (p_fin p); [apply continue_round_UP|unfold UPr; cbn [fst dm set_dm UPd]; apply (p_wait_unfin p)]. Qed.

Lemma after_gather_UP s ins g : UPr (after_gather s ins g).
Proof. destruct g; cbn [after_gather]; [exact I|apply load_one_UP|apply run_func_UP|apply run_func_UP]. Qed.

Lemma step_UP s e : UPd (dm s) -> UPd (dm (fst (step s e))).
Proof.
  intros HU. unfold step. destruct (is_dead s); [exact HU|].
  assert (PutCase : forall p k c, UPr (do_put s p k c)).
  { intros p k c. unfold do_put. destruct (existsb (Nat.eqb p) (seen s)); [exact HU|].
    match goal with |- UPr (on_put ?x) => set (s4 := x); assert (E4 : dm s4 = dm s) by (unfold s4; destruct c; reflexivity) end.
    clearbody s4. unfold on_put. rewrite E4. destruct (dm s) as [|ins ld g|ins d|ins pl|ins|] eqn:Ed; try (unfold UPr; cbn; rewrite ?E4, ?Ed; exact HU).
    - apply start_round_UP.
    - destruct g as [d|p0| |]; try (unfold UPr; cbn; rewrite ?E4, ?Ed; exact HU).
      destruct (q s4); [unfold UPr; cbn; rewrite ?E4, ?Ed; exact HU|unfold UPr; cbn; exact HU].
    - destruct (q s4); [unfold UPr; cbn; rewrite ?E4, ?Ed; exact HU|apply load_one_UP]. }
  assert (FeedCase : forall n a, UPr (do_feed s n a)).
  { intros n a. unfold do_feed. destruct (negb (open_here s n)); [exact HU|].
    destruct (dm s) as [|ins ld g|ins d|ins pl|ins|] eqn:Ed; try (unfold UPr; cbn; rewrite ?Ed; exact HU).
    - destruct (load_all (map (feed_if n a) ld)) as [[rem ys] fs] eqn:El. destruct rem as [|p0 rem]; [apply after_gather_UP|].
      unfold UPr; cbn. split; [discriminate|]. intros p Hin. destruct (load_all_rem _ _ _ _ El p Hin) as (q0 & _ & -> & _). apply p_wait_unfin.
    - destruct ((pid pl =? n) && accepts pl) eqn:E; [apply load_one_UP|]. unfold UPr; cbn. rewrite ?Ed. exact HU. }
  assert (EndCase : forall ok fc, UPr (do_fn_end s ok fc)).
  { intros ok fc. unfold do_fn_end. destruct (dm s) as [|ins ld g|ins d|ins pl|ins|] eqn:Ed; try (unfold UPr; cbn; rewrite ?Ed; exact HU). destruct ok.
    - match goal with |- context [release ?x] => destruct (release x) as [s2 o1] end. destruct fc.
      + match goal with |- context [continue_round ?a ?b ?c] => pose proof (continue_round_UP a b c) as H; destruct (continue_round a b c) end. exact H.
      + unfold end_round. pose proof (start_round_UP s2) as H. destruct (start_round s2). exact H.
    - pose proof (continue_round_UP s ins []) as H. destruct (continue_round s ins []). exact H. }
  destruct e; try apply PutCase; try apply FeedCase; try apply EndCase; try exact HU; try exact I.
  - unfold do_advance. destruct (dm s) as [|ins ld g|ins d|ins pl|ins|] eqn:Ed; try (cbn; rewrite ?Ed; exact HU).
    + destruct g as [d|p0| |]; try (cbn; rewrite ?Ed; exact HU). destruct (d <=? now s + dt)%N; cbn; rewrite ?Ed; exact HU.
    + destruct (d <=? now s + dt)%N; [|cbn; rewrite ?Ed; exact HU].
      match goal with |- context [run_func ?a ?b] => pose proof (run_func_UP a b) as H; destruct (run_func a b) end. exact H.
  - unfold do_wait. destruct (existsb (Nat.eqb w) (wseen s)); [exact HU|].
    unfold wait_core. cbn [unfinished set_gh set_wseen dm evset]. destruct (unfinished s =? 0); [|exact HU].
    destruct (dm s) as [|ins ld g|ins d|ins pl|ins|] eqn:Ed; try (solve [destruct (evset s); cbn; rewrite ?Ed; exact HU]).
    + destruct g as [d|p0| |]; try (solve [destruct (evset s); cbn; rewrite ?Ed; exact HU]). destruct cancel; cbn; rewrite ?Ed; exact HU.
    + destruct cancel; [apply run_func_UP|cbn; rewrite ?Ed; exact HU].
Qed.

Lemma final_UP T evs : UPd (dm (final T evs)).
Proof.
  induction evs as [|e r IH] using rev_ind; [exact I|]. rewrite final_snoc. apply step_UP, IH.
Qed.

(* ---- a script that lets the buffer settle: everything handed over is delivered ------------------------------ *)
Lemma settle_tail_inv T tl : settle_tail T tl = true -> exists d, tl = tail d /\ (T <= d)%N.
Proof.
  unfold settle_tail, tail.
  destruct tl as [|e1 tl]; [discriminate|]. destruct e1; try discriminate.
  destruct tl as [|e2 tl]; [discriminate|]. destruct e2; try discriminate.
  destruct tl as [|e3 tl]; [discriminate|]. destruct e3; try discriminate.
  destruct tl as [|e4 tl]; [|discriminate].
  intros H. exists dt. split; [reflexivity|]. apply N.leb_le. exact H.
Qed.

Lemma no_open_calm T evs :
  is_dead (final T evs) = false -> (forall n, has_open n (prods (final T evs)) = false) ->
  parked (dm (final T evs)) = true /\ all_fin (q (final T evs)).
Proof.
  intros Hd Hno. set (s := final T evs) in *.
  destruct (final_PW T evs Hd) as [_ HW2]. fold s in HW2.
  assert (Hacc : forall p, In p (prods s) -> accepts p = false).
  { intros p Hin. destruct (accepts p) eqn:E; [|reflexivity]. specialize (Hno (pid p)).
    assert (has_open (pid p) (prods s) = true) by (apply existsb_exists; exists p; rewrite Nat.eqb_refl, E; auto). congruence. }
  assert (Hopenfin : forall p, In p (prods s) -> p_fin p = true).
  { intros p Hin. apply HW2; [exact Hin|]. specialize (Hacc p Hin). unfold accepts in Hacc. apply negb_false_iff in Hacc. exact Hacc. }
  pose proof (final_UP T evs) as HU. fold s in HU. split.
  - unfold prods in Hopenfin. destruct (dm s) as [|ins ld g|ins d|ins p|ins|] eqn:Ed; try reflexivity; cbn [UPd dprods] in *.
    + destruct HU as [Hne Hun]. destruct ld as [|p0 ld]; [contradiction|].
      specialize (Hun p0 (or_introl eq_refl)). rewrite (Hopenfin p0) in Hun; [discriminate|].
      apply in_or_app. right. left. reflexivity.
    + rewrite (Hopenfin p) in HU; [discriminate|]. apply in_or_app. right. left. reflexivity.
  - intros p Hin. apply Hopenfin. unfold prods. apply in_or_app. auto.
Qed.

Lemma settled_delivered T evs :
  settled T evs = true -> incl (off (gh (final T evs))) (g_delivered (gh (final T evs))).
Proof.
  unfold settled. set (n := length evs). intros H.
  apply andb_prop in H as [H H3]. apply andb_prop in H as [_ H2]. apply andb_prop in H3 as [Hdead Hopen].
  destruct (settle_tail_inv _ _ H2) as (d & Etl & Hd).
  set (pre := firstn (n - 3) evs) in *.
  assert (Eevs : evs = pre ++ tail d) by (rewrite <- Etl; unfold pre; symmetry; apply firstn_skipn).
  destruct (final_TRK T pre) as ((_ & K2 & _ & _) & HO & _).
  assert (Hal : is_dead (final T pre) = false) by (rewrite <- K2; apply negb_true_iff; exact Hdead).
  assert (Hno : forall m, has_open m (prods (final T pre)) = false).
  { intros m. destruct (HO Hal) as [_ C]. rewrite (proj1 (C m)). unfold is_open. destruct (k_open (trk_run trk0 pre)); [reflexivity|discriminate]. }
  destruct (no_open_calm T pre Hal Hno) as [Hp Hq].
  intros x Hx. rewrite Eevs in *. unfold off in Hx. rewrite tail_offers in Hx.
  rewrite delivered_is_trace. apply (no_loss_progress_lemma T pre d Hd Hal Hp Hq). exact Hx.
Qed.

(* ---- C03: the whole trace monitor accepts the model's own trace of EVERY event list ----------------------- *)
Lemma c03_walk_complete T evs : Case_C03.ok_walk (Case T evs (trace T evs)) = true.
Proof.
  unfold Case_C03.ok_walk.
  destruct (walk3_run T evs [] m3_0) as (x' & W & [D1 D2]).
  - split; reflexivity.
  - intros _. split; [reflexivity|discriminate].
  - cbn [app trk_run] in W. assert (E : final T [] = init T) by reflexivity. rewrite E in W. unfold trace. rewrite W. cbn [app] in *.
    apply andb_true_intro. split.
    + destruct (settled T evs) eqn:Es; [|reflexivity]. apply subset_of_incl.
      rewrite (offered_args_final T evs), D1. apply settled_delivered. exact Es.
    + destruct (own_thread evs) eqn:Eo; [|reflexivity]. cbn [andb].
      destruct (nodupb (offered_args (trk_run trk0 evs))) eqn:En; [|reflexivity].
      apply nodupb_nodup in En. rewrite (offered_args_final T evs) in En.
      apply nodup_nodupb. rewrite D2, delivered_is_trace. apply exactly_once_nodup; [apply own_thread_no_fc; exact Eo|exact En].
Qed.

Lemma c03_monitor_complete T evs : Case_C03.ok (Case T evs (trace T evs)) = true.
Proof.
  unfold Case_C03.ok. rewrite csets_complete, ok_offered_complete, ok_once_complete, c03_walk_complete. reflexivity.
Qed.
