(* BufferMon3B.v — completeness of the walk part of the C03 trace monitor (Case_C03.ok_walk) and hence
   of the whole monitor: it accepts the model's own trace of EVERY event list.
   Ingredients:
     Mono   : within a round the input set only grows — after a failed call its set stays inside the
              round's input set, and every later call set of the round contains it;
     W2, UP : a closed producer has ended; the producers a daemon is parked on are unfinished — so
              "no scripted producer open" (tracker) means the daemon is not parked on a producer;
     the walk on observations decomposes into the call-set automaton, the failed-set automaton,
     "only offered" and "no Hang". *)
From Coq Require Import List Arith NArith Bool Lia Permutation.
Import ListNotations.
Require Import Aiuti.CaseLib Aiuti.Buffer Aiuti.Case_Buffer Aiuti.Case_C03 Aiuti.BufferCore Aiuti.BufferFlag
               Aiuti.BufferInv Aiuti.BufferJoin Aiuti.BufferTime Aiuti.BufferQuiet Aiuti.BufferOnce Aiuti.BufferProgress
               Aiuti.BufferMon Aiuti.BufferMonSound Aiuti.BufferMon8 Aiuti.BufferMon8B Aiuti.BufferTrk Aiuti.BufferMon3.

(* ---- Mono ------------------------------------------------------------------------------------------- *)
Definition okob (f : list nat) (o : obs) : Prop :=
  match o with FnStart _ set _ => incl f set | FnEnd _ _ _ => False | _ => True end.
Definition mono (f : list nat) (r : state * list obs) : Prop :=
  Forall (okob f) (snd r) /\ incl f (cur_ins (dm (fst r))).

Lemma okob_wrets f (ws : list waiter) t n : Forall (okob f) (map (fun w => WaitRet (wid w) t n) ws).
Proof. induction ws; cbn; constructor; cbn; auto. Qed.

Lemma incl_nil_any {A} (f l : list A) : incl f [] -> incl f l.
Proof. intros H x Hx. destruct (H x Hx). Qed.

Lemma run_func0_mono f s ins : incl f ins -> mono f (run_func0 s ins).
Proof.
  intros H. unfold run_func0, mono. destruct ins as [|x r].
  - unfold release; cbn. split; [apply okob_wrets|exact H].
  - cbn. split; [constructor; [exact H|constructor]|exact H].
Qed.

Lemma incl_set_addl ys ins : incl ins (set_addl ys ins).
Proof. intros x Hx. apply set_addl_in. auto. Qed.

Lemma continue_round_mono f s ins ld : incl f ins -> mono f (continue_round s ins ld).
Proof.
  intros H. unfold continue_round. destruct (load_all (ld ++ q s)) as [[rem ys] fs].
  assert (H' : incl f (set_addl ys ins)) by (eapply incl_tran; [exact H|apply incl_set_addl]).
  destruct (unfinished s - length (q s) =? 0); destruct rem; cbn [andb];
    try destruct (wants_cancel _); try (split; [constructor|exact H']); apply run_func0_mono; exact H'.
Qed.

Lemma start_round_mono f s : incl f [] -> mono f (start_round s).
Proof.
  intros H. unfold start_round. destruct (q s); [split; [constructor|exact H]|]. apply continue_round_mono. exact H.
Qed.

Lemma mono_app f (s2 : state) o1 o2 : Forall (okob f) o1 -> mono f (s2, o2) -> mono f (s2, o1 ++ o2).
Proof. intros A [B C]. split; [apply Forall_app; auto|exact C]. Qed.

Lemma run_func_mono f s ins : incl f ins -> mono f (run_func s ins).
Proof.
  intros H. unfold run_func. destruct ins as [|x r].
  - destruct (release s) as [s1 o1] eqn:E. unfold release in E. inversion E; subst s1 o1; clear E. unfold end_round.
    match goal with |- context [start_round ?a] => pose proof (start_round_mono f a H) as M; destruct (start_round a) as [s2 o2] end.
    apply (mono_app f s2); [apply okob_wrets|exact M].
  - cbn. split; [constructor; [exact H|constructor]|exact H].
Qed.

Lemma load_one_mono f s ins p : incl f ins -> mono f (load_one s ins p).
Proof.
  intros H. assert (H' : incl f (set_addl (p_yields p) ins)) by (eapply incl_tran; [exact H|apply incl_set_addl]).
  unfold load_one. destruct (p_fin p); [apply continue_round_mono; exact H'|split; [constructor|exact H']].
Qed.

Lemma after_gather_mono f s ins g : incl f ins -> mono f (after_gather s ins g).
Proof.
  intros H. destruct g; cbn [after_gather]; [split; [constructor|exact H]|apply load_one_mono|apply run_func_mono|apply run_func_mono]; exact H.
Qed.

(* every step except the end of a call: no FnEnd is observed, call sets contain the pending failed set *)
Lemma step_mono f s e :
  incl f (cur_ins (dm s)) -> is_dead s = false ->
  (forall ins, dm s = DRun ins -> e <> FnOk /\ e <> FnFail /\ e <> FnOkThenFClear) ->
  e <> Shutdown -> mono f (step s e).
Proof.
  intros Hf Hd Hrun Hsh. unfold step. rewrite Hd.
  assert (Stay : forall s', dm s' = dm s -> mono f (s', [])) by (intros s' E; split; [constructor|cbn; rewrite E; exact Hf]).
  assert (PutCase : forall p k c, mono f (do_put s p k c)).
  { intros p k c. unfold do_put. destruct (existsb (Nat.eqb p) (seen s)); [apply Stay; reflexivity|].
    match goal with |- mono _ (on_put ?x) => set (s4 := x); assert (E4 : dm s4 = dm s) by (unfold s4; destruct c; reflexivity) end.
    clearbody s4. unfold on_put. rewrite E4. destruct (dm s) as [|ins ld g|ins d|ins pl|ins|] eqn:Ed; cbn [cur_ins] in Hf; try (solve [apply Stay; cbn; auto]).
    - apply start_round_mono. exact Hf.
    - destruct g as [d|p0| |]; try (solve [apply Stay; cbn; auto]). destruct (q s4); [apply Stay; cbn; auto|].
      split; [constructor|cbn; exact Hf].
    - destruct (q s4); [apply Stay; cbn; auto|]. apply load_one_mono. exact Hf. }
  assert (FeedCase : forall n a, mono f (do_feed s n a)).
  { intros n a. unfold do_feed. destruct (negb (open_here s n)); [apply Stay; reflexivity|].
    destruct (dm s) as [|ins ld g|ins d|ins pl|ins|] eqn:Ed; cbn [cur_ins] in Hf; try (solve [apply Stay; cbn; auto]).
    - destruct (load_all (map (feed_if n a) ld)) as [[rem ys] fs].
      assert (H' : incl f (set_addl ys ins)) by (eapply incl_tran; [exact Hf|apply incl_set_addl]).
      destruct rem; [apply after_gather_mono; exact H'|split; [constructor|cbn; exact H']].
    - destruct ((pid pl =? n) && accepts pl); [apply load_one_mono; exact Hf|apply Stay; cbn; auto]. }
  assert (EndCase : forall ok fc, (forall ins, dm s <> DRun ins) -> mono f (do_fn_end s ok fc)).
  { intros ok fc Hn. unfold do_fn_end. destruct (dm s) as [|ins ld g|ins d|ins pl|ins|] eqn:Ed; try (solve [apply Stay; auto]). destruct (Hn ins eq_refl). }
  assert (NotRun : (e = FnOk \/ e = FnFail \/ e = FnOkThenFClear) -> forall ins, dm s <> DRun ins).
  { intros He ins E. destruct (Hrun ins E) as (A & B & C). destruct He as [He|[He|He]]; contradiction. }
  destruct e; try apply PutCase; try apply FeedCase; try (apply EndCase; apply NotRun; auto); try contradiction.
  - unfold do_advance. destruct (dm s) as [|ins ld g|ins d|ins pl|ins|] eqn:Ed; cbn [cur_ins] in Hf; try (solve [apply Stay; cbn; auto]).
    + destruct g as [d|p0| |]; try (solve [apply Stay; cbn; auto]). destruct (d <=? now s + dt)%N; [|apply Stay; cbn; auto].
      split; [constructor|cbn; exact Hf].
    + destruct (d <=? now s + dt)%N; [|apply Stay; cbn; auto].
      match goal with |- context [run_func ?a ?b] => pose proof (run_func_mono f a b Hf) as M; destruct (run_func a b) as [s1 o] end. exact M.
  - unfold do_wait. destruct (existsb (Nat.eqb w) (wseen s)); [apply Stay; reflexivity|].
    unfold wait_core. cbn [unfinished set_gh set_wseen dm evset]. destruct (unfinished s =? 0); [|apply Stay; reflexivity].
    destruct (dm s) as [|ins ld g|ins d|ins pl|ins|] eqn:Ed; cbn [cur_ins] in Hf; try (solve [destruct (evset s); [split; [constructor; [exact I|constructor]|cbn; rewrite ?Ed; cbn; auto]|apply Stay; cbn; auto]]).
    + destruct g as [d|p0| |]; try (solve [destruct (evset s); [split; [constructor; [exact I|constructor]|cbn; rewrite ?Ed; cbn; auto]|apply Stay; cbn; auto]]).
      destruct cancel; [split; [constructor|cbn; exact Hf]|apply Stay; cbn; auto].
    + destruct cancel; [apply run_func_mono; exact Hf|apply Stay; cbn; auto].
  - apply Stay; reflexivity.
Qed.

(* ---- the walk on observations, decomposed ------------------------------------------------------------ *)
Fixpoint fwalk (fl : option (list nat)) (os : list obs) : option (option (list nat)) :=
  match os with
  | [] => Some fl
  | FnStart _ set _ :: r =>
      if match fl with Some f => subset f set | None => true end then fwalk None r else None
  | FnEnd _ true _ :: r => fwalk None r
  | FnEnd _ false set :: r => fwalk (Some set) r
  | _ :: r => fwalk fl r
  end.

Definition oklists (os : list obs) : list (list nat) :=
  flat_map (fun o => match o with FnEnd _ true set => [set] | _ => [] end) os.

Lemma concat_oklists os : concat (oklists os) = okargs os.
Proof.
  induction os as [|o r IH]; [reflexivity|]. unfold oklists, okargs in *. cbn [flat_map]. rewrite concat_app, IH.
  destruct o; try reflexivity. destruct ok; cbn; rewrite ?app_nil_r; reflexivity.
Qed.

Lemma walk_obs3_spec k os : forall x oc' fl',
  (forall c set t, In (FnStart c set t) os -> subset set (offered_args k) = true) ->
  nohang os = true ->
  csets (opencall x) os = Some oc' ->
  fwalk (failed x) os = Some fl' ->
  walk_obs m3 on_ob3 k os x = Some (mk3 (del x ++ okargs os) (oksets x ++ oklists os) oc' fl').
Proof.
  induction os as [|o r IH]; intros x oc' fl' HB HD HA HC; cbn in *.
  - inversion HA; inversion HC; subst. rewrite !app_nil_r. destruct x; reflexivity.
  - apply andb_prop in HD as [HD1 HD2].
    assert (HB' : forall c set t, In (FnStart c set t) r -> subset set (offered_args k) = true)
      by (intros c set t Hin; apply (HB c set t); right; exact Hin).
    destruct o; cbn [on_ob3 csets fwalk] in *; try discriminate.
    + rewrite (HB callno set now (or_introl eq_refl)). cbn [andb].
      destruct (opencall x); [discriminate|].
      destruct (match failed x with Some f => subset f set | None => true end) eqn:Ef; [|discriminate].
      rewrite (IH (mk3 (del x) (oksets x) (Some (callno, set)) None) oc' fl' HB' HD2 HA HC). reflexivity.
    + destruct (opencall x) as [[c' set']|]; [|discriminate].
      destruct (Nat.eqb callno c' && nats_eqb set set'); [|discriminate].
      destruct ok.
      * rewrite (IH (mk3 (del x ++ set) (oksets x ++ [set]) None None) oc' fl' HB' HD2 HA HC). cbn [del oksets].
        rewrite <- !app_assoc. reflexivity.
      * rewrite (IH (mk3 (del x) (oksets x) None (Some set)) oc' fl' HB' HD2 HA HC). reflexivity.
    + apply IH; auto.
    + apply IH; auto.
Qed.

Definition has_start (os : list obs) : bool := existsb is_start os.

Lemma fwalk_quiet f os : Forall (okob f) os ->
  fwalk (Some f) os = Some (if has_start os then None else Some f) /\ fwalk None os = Some None.
Proof.
  induction 1 as [|o r Ho Hr [IH1 IH2]]; cbn [fwalk has_start existsb]; [auto|].
  destruct o; cbn in Ho; try contradiction; cbn [is_start orb].
  - rewrite (subset_of_incl _ _ Ho). auto.
  - auto.
  - auto.
  - auto.
Qed.

(* ---- one step of the model, seen by the walk ------------------------------------------------------------ *)
Definition L3 (s : state) (x : m3) : Prop :=
  opencall x = open_of s /\ forall f, failed x = Some f -> incl f (cur_ins (dm s)).
Definition D3 (s : state) (x : m3) : Prop :=
  del x = g_delivered (gh s) /\ concat (oksets x) = g_delivered (gh s).

Lemma mono_nil_any r : (exists f, mono f r) -> Forall (okob []) (snd r).
Proof.
  intros [f [H _]]. eapply Forall_impl; [|exact H]. intros o Ho. destruct o; cbn in *; auto. intros z [].
Qed.

(* the failed-set automaton over the observations of one step *)
Lemma step_fwalk s e fl :
  is_dead s = false -> e <> Shutdown ->
  (forall f, fl = Some f -> incl f (cur_ins (dm s))) ->
  exists fl', fwalk fl (snd (step s e)) = Some fl' /\ (forall f, fl' = Some f -> incl f (cur_ins (dm (fst (step s e))))).
Proof.
  intros Hd Hsh Hfl.
  assert (Quiet : (forall ins, dm s = DRun ins -> e <> FnOk /\ e <> FnFail /\ e <> FnOkThenFClear) ->
            exists fl', fwalk fl (snd (step s e)) = Some fl' /\ (forall f, fl' = Some f -> incl f (cur_ins (dm (fst (step s e)))))).
  { intros Hq. destruct fl as [f|].
    - destruct (step_mono f s e (Hfl f eq_refl) Hd Hq Hsh) as [M1 M2]. destruct (fwalk_quiet f _ M1) as [F1 _].
      rewrite F1. eexists. split; [reflexivity|]. intros f0 E. destruct (has_start _); inversion E; subst. exact M2.
    - destruct (step_mono [] s e (fun z (H : In z []) => match H with end) Hd Hq Hsh) as [M1 _]. destruct (fwalk_quiet [] _ M1) as [_ F2].
      rewrite F2. eexists. split; [reflexivity|]. discriminate. }
  destruct (dm s) as [|ins0 ld g|ins0 d|ins0 p|ins|] eqn:Ed; try (apply Quiet; intros ? E; discriminate E).
  assert (EndOk : forall fc, exists fl', fwalk fl (snd (do_fn_end s true fc)) = Some fl' /\
                    (forall f, fl' = Some f -> incl f (cur_ins (dm (fst (do_fn_end s true fc)))))).
  { intros fc. unfold do_fn_end. rewrite Ed.
    match goal with |- context [release ?x] => destruct (release x) as [s2 o1] eqn:E end.
    unfold release in E. inversion E; subst s2 o1; clear E.
    assert (Rest : forall (s3 : state) o2, Forall (okob []) o2 ->
              fwalk fl ([FnEnd (callno s - 1) true ins] ++
                        map (fun w => WaitRet (wid w) (now s) (S (nok s))) (filter is_onevent (waiters s)) ++ o2) = Some None).
    { intros s3 o2 H2. cbn [app fwalk]. apply (proj2 (fwalk_quiet [] _ (proj2 (Forall_app _ _ _) (conj (okob_wrets [] _ _ _) H2)))). }
    destruct fc.
    - match goal with |- context [continue_round ?a ?b ?c] => pose proof (continue_round_mono [] a b c (fun z (H : In z []) => match H with end)) as M; destruct (continue_round a b c) as [s3 o2] end.
      cbn [fst snd gh set_gh set_calls now nok waiters] in *. rewrite (Rest s3 o2 (proj1 M)). eexists. split; [reflexivity|discriminate].
    - unfold end_round.
      match goal with |- context [start_round ?a] => pose proof (start_round_mono [] a (fun z (H : In z []) => match H with end)) as M; destruct (start_round a) as [s3 o2] end.
      cbn [fst snd gh set_gh set_calls now nok waiters] in *. rewrite (Rest s3 o2 (proj1 M)). eexists. split; [reflexivity|discriminate]. }
  destruct e; try (apply Quiet; intros ? _; repeat split; discriminate); try contradiction; unfold step; rewrite Hd.
  - apply EndOk.
  - (* FnFail *) unfold do_fn_end. rewrite Ed.
    pose proof (continue_round_mono ins s ins [] (incl_refl _)) as [M1 M2]. destruct (continue_round s ins []) as [s1 o1].
    cbn [fst snd app fwalk] in *. destruct (fwalk_quiet ins o1 M1) as [F1 _]. rewrite F1.
    eexists. split; [reflexivity|]. intros f E. destruct (has_start o1); inversion E; subst. exact M2.
  - apply EndOk.
Qed.

Lemma step3 T done e x :
  let s := final T done in
  D3 s x -> (is_dead s = false -> L3 s x) ->
  exists x', walk_obs m3 on_ob3 (trk_run trk0 (done ++ [e])) (snd (step s e)) x = Some x' /\
             D3 (fst (step s e)) x' /\ (is_dead (fst (step s e)) = false -> L3 (fst (step s e)) x').
Proof.
  intros s [D1 D2] HL.
  destruct (is_dead s) eqn:Hd.
  - unfold step. rewrite Hd. cbn [fst snd walk_obs]. exists x. split; [reflexivity|]. split; [split; assumption|].
    intros H. rewrite Hd in H. discriminate.
  - destruct (HL eq_refl) as [L1 L2].
    (* only offered *)
    assert (HB : forall c set t, In (FnStart c set t) (snd (step s e)) -> subset set (offered_args (trk_run trk0 (done ++ [e]))) = true).
    { intros c set t Hin. apply subset_of_incl. rewrite (offered_args_final T (done ++ [e])), final_snoc.
      destruct (step_post s e (final_inv T done)) as [_ Hs]. exact (Hs c set t Hin). }
    pose proof (step_nohang s e) as HD.
    pose proof (delivered_step s e) as Hdel.
    destruct (Aiuti.BufferInv.is_shutdown e) eqn:Esh.
    + destruct e; try discriminate. unfold step in *. rewrite Hd in *. cbn [fst snd walk_obs on_ob3] in *.
      exists x. split; [reflexivity|]. split; [split; assumption|discriminate].
    + assert (Hsh : e <> Shutdown) by (intros ->; discriminate).
      pose proof (step_cs s e Hd Hsh) as HA. unfold cs_step in HA. rewrite <- L1 in HA.
      destruct (step_fwalk s e (failed x) Hd Hsh L2) as (fl' & HC & Hfl').
      rewrite (walk_obs3_spec _ _ x _ _ HB HD HA HC). eexists. split; [reflexivity|].
      split; [split; cbn [del oksets]|].
      * rewrite D1, Hdel. reflexivity.
      * rewrite concat_app, D2, concat_oklists, Hdel. reflexivity.
      * intros _. split; [reflexivity|exact Hfl'].
Qed.

Lemma walk3_run T more : forall done x,
  D3 (final T done) x -> (is_dead (final T done) = false -> L3 (final T done) x) ->
  exists x', walk m3 on_ev3 on_ob3 more (snd (run (final T done) more)) (trk_run trk0 done) x
             = Some (trk_run trk0 (done ++ more), x') /\ D3 (final T (done ++ more)) x'.
Proof.
  induction more as [|e r IH]; intros done x HD HL; cbn [run].
  - cbn. rewrite app_nil_r. exists x. auto.
  - destruct (step3 T done e x HD HL) as (x1 & W & HD1 & HL1).
    specialize (IH (done ++ [e]) x1). rewrite final_snoc in IH. rewrite <- trk_run_snoc' .
    destruct (step (final T done) e) as [s1 o]. cbn [fst snd] in *.
    destruct (IH HD1 HL1) as (x' & W2 & HD2). rewrite <- app_assoc in W2, HD2. cbn [app] in W2, HD2.
    destruct (run s1 r) as [s2 os]. cbn [snd walk] in *. unfold on_ev3 at 1. rewrite W. exists x'. auto.
Qed.
