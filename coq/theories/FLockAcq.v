(* FLockAcq.v — one acquire call run to completion by its thread alone (run_alone /
   do_call), for ALL fault scripts: a phase invariant relative to the state s0 in which
   the call started, and what every way of ending the call leaves behind.         *)
From Coq Require Import List Arith NArith Bool Lia ZifyBool ZifyN.
Import ListNotations.
Require Import Aiuti.FLock Aiuti.FLockInv Aiuti.FLockTL Aiuti.FLockFD Aiuti.FLockMutex Aiuti.FLockExec.
Local Arguments Nat.max : simpl never.
Arguments upd : simpl never.
Arguments enter_tlrel : simpl never.
Arguments enter_cleanup : simpl never.
Arguments after_attempt : simpl never.
Arguments k_unlock : simpl never.
Arguments k_close : simpl never.
Arguments tl_release : simpl never.
Arguments tl_try : simpl never.
Arguments tl_rel_raises : simpl never.
Arguments normalise : simpl never.
Arguments faulty : simpl never.
Arguments intr : simpl never.
Arguments enabled : simpl never.
Arguments step : simpl never.
Arguments run_alone : simpl never.
Local Open Scope N_scope.

(* the object after its thread lock was taken (once more) by t and the counter bumped *)
Definition acq_obj (ob : obj) (t : tid) : obj :=
  mkobj (o_proc ob) (o_reent ob) (o_dflt ob) (o_fd ob) (S (o_cnt ob)) (Some t)
        (match o_own ob with None => 1%nat | Some _ => S (o_dep ob) end).

Lemma tl_try_acq ob t ob' : tl_try ob t = Some ob' -> set_cnt ob' (S (o_cnt ob')) = acq_obj ob t.
Proof.
  unfold tl_try, acq_obj. destruct (o_own ob) as [u|] eqn:E.
  - destruct (o_reent ob && Nat.eqb u t) eqn:E2; [|discriminate]. intros [= <-]. cbn.
    apply andb_prop in E2. destruct E2 as [_ E2]. apply Nat.eqb_eq in E2. now subst.
  - intros [= <-]. reflexivity.
Qed.

Lemma enter_cleanup_eq s t a b :
  o_own (objs s (a_o a)) = Some t ->
  enter_cleanup s t a b =
  set_pc (set_obj s (a_o a) (set_cnt (objs s (a_o a)) (pred (o_cnt (objs s (a_o a)))))) t (PCleanRel a b).
Proof. intros H. unfold enter_cleanup. now rewrite (raises_own _ _ H). Qed.

Section Acq.
Variables (s0 : state) (t : tid) (o : oid) (m : amode) (b' : bool) (tm' : tmo) (poll : N) (skip : nat).
Let p := t_proc (thr s0 t).
Let res0 := t_res (thr s0 t).
Let cs0 := t_cs (thr s0 t).
Let ob0 := objs s0 o.

Definition a_ok (a : aloc) : Prop :=
  a_o a = o /\ a_mode a = m /\ a_blk a = b' /\ a_tm a = tm' /\ a_poll a = poll /\ a_skip a = skip.

(* what a running acquire of t on o leaves alone; pend = its descriptor in flight,
   h = the kernel holder *)
Record Frame (s : state) (pend : option fdid) (h : option fdid) : Prop := mkFrame {
  f_thr : forall t', t' <> t -> thr s t' = thr s0 t';
  f_obj : forall o', o' <> o -> objs s o' = objs s0 o';
  f_holder : holder s = h;
  f_fd_old : forall d, (d < nextfd s0)%nat -> fdown s d = fdown s0 d;
  f_fd_new : forall d, (nextfd s0 <= d)%nat -> Some d <> pend -> fdown s d = None;
  f_next : (nextfd s0 <= nextfd s)%nat;
  f_pend : forall d, pend = Some d -> (nextfd s0 <= d < nextfd s)%nat /\ fdown s d = Some p;
  f_dead : dead s = dead s0;
  f_viol : viol s = viol s0;
  f_faults : faults s = faults s0
}.

Definition timed_T : option N := match tm' with TVal T => Some T | _ => None end.

(* stage 1 (waiting for the thread lock) *)
Definition time1 (s : state) (dl : option N) : Prop :=
  dl = (if b' then match tm' with TVal n => Some (now s0 + n) | _ => None end else None) /\
  now s0 <= now s /\
  match dl with None => now s = now s0 | Some D => now s <= N.max (now s0) D end /\
  (* alone, a thread lock that is available is taken without waiting *)
  (tl_try ob0 t <> None -> now s = now s0).

(* stage 2 (polling for the OS lock), start = a_start *)
Definition time2 (s : state) (start : N) : Prop :=
  now s0 <= start /\ start <= now s /\
  (b' = false -> now s = now s0) /\
  (forall T, tm' = TVal T -> start <= now s0 + T /\ now s <= start + T + poll) /\
  (* alone, stage 1 did not wait *)
  start = now s0.

Definition time_fin (s : state) : Prop :=
  now s0 <= now s /\
  (b' = false -> now s = now s0) /\
  (forall T, tm' = TVal T -> now s <= now s0 + T + T + poll) /\
  (* run alone (sequential use): at most ONE of the two stages waits *)
  (forall T, tm' = TVal T -> now s <= now s0 + T + poll).

Inductive Phase (s : state) : Prop :=
| Ph1 a dl :
    thr s t = mkthr p [] (PTLAcq a dl) res0 cs0 -> a_ok a -> Frame s None (holder s0) ->
    objs s o = ob0 -> time1 s dl -> Phase s
| Ph2 a :
    thr s t = mkthr p [] (POpen a) res0 cs0 -> a_ok a -> Frame s None (holder s0) ->
    objs s o = acq_obj ob0 t -> o_fd ob0 = None -> time2 s (a_start a) -> tl_try ob0 t <> None -> Phase s
| Ph2s a w :
    thr s t = mkthr p [] (PSleep a w) res0 cs0 -> a_ok a -> Frame s None (holder s0) ->
    objs s o = acq_obj ob0 t -> o_fd ob0 = None -> time2 s (a_start a) -> b' = true ->
    (forall T, tm' = TVal T -> w <= a_start a + T + poll) -> tl_try ob0 t <> None -> Phase s
| Ph3 a d :
    thr s t = mkthr p [] (PFlock a d) res0 cs0 -> a_ok a -> Frame s (Some d) (holder s0) ->
    objs s o = acq_obj ob0 t -> o_fd ob0 = None -> time2 s (a_start a) -> tl_try ob0 t <> None -> Phase s
| Ph3c a d (i : bool) :
    thr s t = mkthr p [] (PCloseF a d i) res0 cs0 -> a_ok a -> Frame s (Some d) (holder s0) ->
    objs s o = acq_obj ob0 t -> o_fd ob0 = None -> time2 s (a_start a) ->
    (holder s0 <> None \/ faults s0 <> []) -> (i = true -> faults s0 <> []) -> tl_try ob0 t <> None -> Phase s
| Ph4 a (b : bool) :
    thr s t = mkthr p [] (PCleanRel a b) res0 cs0 -> a_ok a -> Frame s None (holder s0) ->
    objs s o = set_cnt (acq_obj ob0 t) (o_cnt ob0) -> o_fd ob0 = None -> time_fin s ->
    (b = true -> faults s0 <> []) ->
    (b = false -> (b' = false \/ exists T, tm' = TVal T) /\ (holder s0 <> None \/ faults s0 <> [])) ->
    tl_try ob0 t <> None -> Phase s.

(* the ways a call can end *)
Inductive Final (s : state) (r : result) : Prop :=
| FinReent :
    r = RTrue -> thr s t = mkthr p [] PIdle (RTrue :: res0) (o :: cs0) -> Frame s None (holder s0) ->
    objs s o = acq_obj ob0 t -> o_fd ob0 <> None -> tl_try ob0 t <> None -> time_fin s -> Final s r
| FinNew d :
    r = RTrue -> thr s t = mkthr p [] PIdle (RTrue :: res0) (o :: cs0) -> Frame s (Some d) (Some d) ->
    objs s o = set_fd (acq_obj ob0 t) (Some d) -> o_fd ob0 = None -> tl_try ob0 t <> None ->
    (holder s0 = None \/ holder s0 = Some d) -> time_fin s -> Final s r
| FinBusy :
    (* the thread lock was not available *)
    r = fail_result m -> thr s t = mkthr p [] PIdle (r :: res0) cs0 -> Frame s None (holder s0) ->
    objs s o = ob0 -> tl_try ob0 t = None -> (b' = false \/ exists T, tm' = TVal T) -> time_fin s -> Final s r
| FinFail (b : bool) :
    (* the OS lock was not obtained (b: an OSError is re-raised) *)
    r = (if b then ROSErr else fail_result m) -> thr s t = mkthr p [] PIdle (r :: res0) cs0 ->
    Frame s None (holder s0) ->
    objs s o = tl_release (set_cnt (acq_obj ob0 t) (o_cnt ob0)) -> o_fd ob0 = None -> tl_try ob0 t <> None ->
    (b = true -> faults s0 <> []) ->
    (b = false -> (b' = false \/ exists T, tm' = TVal T) /\ (holder s0 <> None \/ faults s0 <> [])) ->
    time_fin s -> Final s r.

(* the call waits for something its thread alone will never get *)
Inductive Blocked (s : state) : Prop :=
| BlkTL a : thr s t = mkthr p [] (PTLAcq a None) res0 cs0 -> b' = true -> timed_T = None -> tl_try ob0 t = None ->
            (forall o', o_fd (objs s o') = o_fd (objs s0 o')) -> Blocked s
| BlkOS a d : thr s t = mkthr p [] (PFlock a d) res0 cs0 -> b' = true -> timed_T = None -> o_fd ob0 = None ->
              tl_try ob0 t <> None -> holder s0 <> None ->
              (forall o', o_fd (objs s o') = o_fd (objs s0 o')) ->
              a_ok a -> Frame s (Some d) (holder s0) -> objs s o = acq_obj ob0 t -> Blocked s.

Hypothesis Halive : dead s0 p = false.
Hypothesis Hh0 : forall h, holder s0 = Some h -> (h < nextfd s0)%nat.

(* a transition that touches only thread t, object o *)
Lemma Frame_soft s s' pend h :
  Frame s pend h ->
  (forall t', t' <> t -> thr s' t' = thr s t') -> (forall o', o' <> o -> objs s' o' = objs s o') ->
  holder s' = holder s -> fdown s' = fdown s -> nextfd s' = nextfd s ->
  dead s' = dead s -> viol s' = viol s -> faults s' = faults s ->
  Frame s' pend h.
Proof.
  intros [A B C D E F G H I J] T O Hh Hf Hn Hd Hv Hfl.
  constructor; intros; rewrite ?T, ?O, ?Hh, ?Hf, ?Hn, ?Hd, ?Hv, ?Hfl; auto.
Qed.

Lemma thr_facts s pc :
  thr s t = mkthr p [] pc res0 cs0 ->
  t_pc (thr s t) = pc /\ t_proc (thr s t) = p /\ t_prog (thr s t) = [] /\ t_res (thr s t) = res0 /\ t_cs (thr s t) = cs0.
Proof. intros ->. repeat split. Qed.

Lemma not_dead s pend h pc : Frame s pend h -> thr s t = mkthr p [] pc res0 cs0 -> is_dead s t = false.
Proof. intros F E. unfold is_dead. rewrite E. cbn. rewrite (f_dead _ _ _ F). exact Halive. Qed.

Lemma faulty_nonempty s pend h k : Frame s pend h -> faulty s k = true -> faults s0 <> [].
Proof.
  intros F E. unfold faulty in E. rewrite (f_faults _ _ _ F) in E. intros Z. rewrite Z in E. discriminate.
Qed.

Ltac ev := cbn; rewrite ?upd_same; cbn.

Lemma time2_fin s start : time2 s start -> time_fin s.
Proof.
  intros (A & B & C & D & S0). split; [lia|]. split; [auto|]. split; intros T E; destruct (D T E); lia.
Qed.

Lemma cleanup_phase s a b pcX :
  thr s t = mkthr p [] pcX res0 cs0 -> a_ok a -> Frame s None (holder s0) ->
  objs s o = acq_obj ob0 t -> o_fd ob0 = None -> time_fin s ->
  (b = true -> faults s0 <> []) ->
  (b = false -> (b' = false \/ exists T, tm' = TVal T) /\ (holder s0 <> None \/ faults s0 <> [])) ->
  tl_try ob0 t <> None ->
  Phase (enter_cleanup s t a b).
Proof.
  intros Ht Ha F Ho Hfd Htm R1 R2 Htry. destruct Ha as (Ao & Am & Ab & At & Ap & As).
  rewrite enter_cleanup_eq by (rewrite Ao, Ho; reflexivity).
  apply (Ph4 _ a b); auto.
  - ev. rewrite Ht. reflexivity.
  - repeat split; auto.
  - apply (Frame_soft s); auto; intros; ev; rewrite ?upd_other by congruence; auto.
  - ev. rewrite Ao, upd_same, Ho. reflexivity.
Qed.

Lemma attempt_phase s a pcX :
  thr s t = mkthr p [] pcX res0 cs0 -> a_ok a -> Frame s None (holder s0) ->
  objs s o = acq_obj ob0 t -> o_fd ob0 = None -> time2 s (a_start a) ->
  (holder s0 <> None \/ faults s0 <> []) -> tl_try ob0 t <> None ->
  Phase (after_attempt s t a).
Proof.
  intros Ht Ha F Ho Hfd Htm R Htry. pose proof Ha as (Ao & Am & Ab & At & Ap & As).
  unfold after_attempt. rewrite Ab, At, Ap.
  assert (Cl : (b' = false \/ exists T, tm' = TVal T) -> Phase (enter_cleanup s t a false)).
  { intros Hb. apply (cleanup_phase s a false pcX); auto; [eapply time2_fin; eauto|discriminate]. }
  assert (Sl : b' = true -> (forall T, tm' = TVal T -> (T <? now s - a_start a) = false) ->
               Phase (set_pc s t (PSleep a (now s + poll)))).
  { intros Eb HT. apply (Ph2s _ a (now s + poll)); auto.
    - ev. rewrite Ht. reflexivity.
    - apply (Frame_soft s); auto; intros; ev; rewrite ?upd_other by congruence; auto.
    - intros T E. specialize (HT T E). destruct Htm as (A & B & C & D & S0). destruct (D T E). lia. }
  destruct b' eqn:Eb; cbn [negb]; [|apply Cl; auto].
  destruct tm' as [| |T] eqn:Et.
  - apply Sl; auto; intros; discriminate.
  - apply Sl; auto; intros; discriminate.
  - destruct (T <? now s - a_start a) eqn:El.
    + apply Cl. right. eauto.
    + apply Sl; auto. intros T' [= <-]. exact El.
Qed.

Lemma phase_not_done s : Phase s -> call_done s t = false.
Proof. intros [a dl E|a E|a w E|a d E|a d i E|a b E]; unfold call_done; rewrite E; reflexivity. Qed.

Definition Step_out (s : state) : Prop :=
  (enabled s t = true /\ exists r, Final (step s t) r /\ call_done (step s t) t = true /\ last_result (step s t) t = r)
  \/ (enabled s t = true /\ Phase (step s t))
  \/ (enabled s t = false /\ exists w, deadline s t = Some w /\ Phase (set_now s (N.max (now s) w)))
  \/ (enabled s t = false /\ deadline s t = None /\ Blocked s).

Lemma Frame_now s pend h n : Frame s pend h -> Frame (set_now s n) pend h.
Proof. intros F. apply (Frame_soft s); auto. Qed.

Lemma phase1_step s a dl :
  thr s t = mkthr p [] (PTLAcq a dl) res0 cs0 -> a_ok a -> Frame s None (holder s0) ->
  objs s o = ob0 -> time1 s dl -> Step_out s.
Proof.
  intros Ht Ha F Ho Htm. pose proof Ha as (Ao & Am & Ab & At & Ap & As). unfold Step_out.
  destruct (thr_facts _ _ Ht) as (Tpc & Tpr & _). pose proof (not_dead _ _ _ _ F Ht) as Hnd.
  destruct Htm as (Edl & Hn0 & Hn & Hfree).
  assert (En : enabled s t = if b' then tl_free_for ob0 t || match dl with Some d => d <=? now s | None => false end else true).
  { unfold enabled. rewrite Hnd, Tpc, Ab, Ao, Ho. reflexivity. }
  destruct (tl_try ob0 t) as [ob'|] eqn:Etry.
  - (* the thread lock is available *)
    assert (En' : enabled s t = true).
    { rewrite En. unfold tl_free_for. rewrite Etry. now destruct b'. }
    pose proof (tl_try_acq _ _ _ Etry) as Eacq.
    assert (Efd : o_fd ob' = o_fd ob0) by (unfold tl_try in Etry; destruct (o_own ob0); [destruct (_ && _); [|discriminate]|]; injection Etry as <-; reflexivity).
    rewrite (step_tlacq _ _ a dl En' Tpc). rewrite Ao, Ho, Etry. cbv zeta. rewrite Eacq.
    change (o_fd (acq_obj ob0 t)) with (o_fd ob0).
    destruct (o_fd ob0) as [d0|] eqn:Efd0.
    + left. split; auto. exists RTrue. split; [|split; [unfold call_done; ev; rewrite ?Ht; reflexivity|unfold last_result; ev; reflexivity]].
      apply FinReent; auto.
      * ev. rewrite Ht. cbn. now rewrite Ao.
      * apply (Frame_soft s); auto; intros; ev; rewrite ?upd_other by congruence; auto.
      * ev. reflexivity.
      * congruence.
      * congruence.
      * repeat split; auto.
        -- intros Eb. rewrite Eb in Edl. subst dl. exact Hn.
        -- intros T ET. rewrite ET in Edl. destruct b'; subst dl; cbn; lia.
        -- intros T ET. assert (Z : now s = now s0) by (apply Hfree; congruence). cbn. lia.
    + right. left. split; auto. eapply Ph2; auto.
      * ev. rewrite Ht. reflexivity.
      * cbn. repeat split; auto.
      * apply (Frame_soft s); auto; intros; ev; rewrite ?upd_other by congruence; auto.
      * ev. reflexivity.
      * unfold time2. cbn. repeat split; auto; try lia.
        -- intros Eb. rewrite Eb in Edl. subst dl. exact Hn.
        -- rewrite H in Edl. destruct b'; subst dl; lia.
        -- apply Hfree. congruence.
      * congruence.
  - (* busy *)
    assert (Efail : enabled s t = true ->
              (b' = false \/ exists T, tm' = TVal T) -> time_fin s ->
              exists r, Final (step s t) r /\ call_done (step s t) t = true /\ last_result (step s t) t = r).
    { intros En' Hb Hfin. rewrite (step_tlacq _ _ a dl En' Tpc). rewrite Ao, Ho, Etry, Am.
      exists (fail_result m). split; [|split; [unfold call_done; ev; rewrite ?Ht, ?is_fail_fail_result; cbn; rewrite ?skipn_nil; reflexivity|unfold last_result; ev; reflexivity]].
      apply FinBusy; auto.
      - ev. rewrite Ht. cbn. now rewrite is_fail_fail_result, skipn_nil.
      - apply (Frame_soft s); auto; intros; ev; rewrite ?upd_other by congruence; auto. }
    unfold tl_free_for in En. rewrite Etry in En. cbn [orb] in En.
    destruct b' eqn:Eb.
    + destruct dl as [D|].
      * destruct tm' as [| |T] eqn:ET; try discriminate. injection Edl as ->.
        destruct (now s0 + T <=? now s) eqn:EL.
        -- left. split; auto. apply Efail; auto; [right; eauto|]. repeat split; auto; [congruence| |]; intros T' E'; rewrite ET in E'; injection E' as <-; lia.
        -- right. right. left. split; auto. exists (now s0 + T). split; [unfold deadline; now rewrite Tpc|].
           apply (Ph1 _ a (Some (now s0 + T))); auto.
           ++ apply Frame_now; auto.
           ++ repeat split; auto; cbn; first [lia | rewrite Eb, ET; reflexivity | intros C; congruence].
      * right. right. right. split; auto. split; [unfold deadline; now rewrite Tpc|].
        apply (BlkTL _ a); auto; [unfold timed_T; destruct tm'; auto; discriminate|].
        intros o'. destruct (Nat.eq_dec o' o) as [->|Hne]; [now rewrite Ho|now rewrite (f_obj _ _ _ F)].
    + left. split; auto. apply Efail; auto. subst dl. repeat split; auto; intros T ET; lia.
Qed.

Lemma enabled_simple s pend h pc :
  Frame s pend h -> thr s t = mkthr p [] pc res0 cs0 ->
  match pc with POpen _ | PCloseF _ _ _ | PCleanRel _ _ => True | _ => False end ->
  enabled s t = true.
Proof.
  intros F Ht Hpc. unfold enabled. rewrite (not_dead _ _ _ _ F Ht), Ht. cbn. destruct pc; tauto.
Qed.

Lemma phase2_step s a :
  thr s t = mkthr p [] (POpen a) res0 cs0 -> a_ok a -> Frame s None (holder s0) ->
  objs s o = acq_obj ob0 t -> o_fd ob0 = None -> time2 s (a_start a) -> tl_try ob0 t <> None -> Step_out s.
Proof.
  intros Ht Ha F Ho Hfd Htm Htry. pose proof Ha as (Ao & Am & Ab & At & Ap & As). unfold Step_out.
  destruct (thr_facts _ _ Ht) as (Tpc & Tpr & _).
  assert (En : enabled s t = true) by (eapply enabled_simple; eauto; exact I).
  right. left. split; auto. rewrite (step_open _ _ a En Tpc). cbn.
  destruct (faulty s KOpen) eqn:Ef; [destruct (intr s KOpen)|].
  - apply (cleanup_phase _ a true (POpen a)); auto.
    + apply (Frame_soft s); auto.
    + eapply time2_fin. unfold time2 in *. cbn. exact Htm.
    + intros _. eapply faulty_nonempty; eauto.
    + discriminate.
  - apply (attempt_phase _ a (POpen a)); auto.
    + apply (Frame_soft s); auto.
    + right. eapply faulty_nonempty; eauto.
  - rewrite Tpr. apply (Ph3 _ a (nextfd s)); auto.
    + ev. rewrite Ht. reflexivity.
    + destruct F as [A B C D E G H I0 J K]. constructor; cbn; auto.
      * intros t' Hn. rewrite upd_other; auto.
      * intros d Hd. rewrite upd_other by lia. auto.
      * intros d Hd Hne. rewrite upd_other by (intros ->; apply Hne; reflexivity). apply E; auto. discriminate.
      * intros d [= <-]. rewrite upd_same. split; auto.
Qed.

Lemma phase2s_step s a w :
  thr s t = mkthr p [] (PSleep a w) res0 cs0 -> a_ok a -> Frame s None (holder s0) ->
  objs s o = acq_obj ob0 t -> o_fd ob0 = None -> time2 s (a_start a) -> b' = true ->
  (forall T, tm' = TVal T -> w <= a_start a + T + poll) -> tl_try ob0 t <> None -> Step_out s.
Proof.
  intros Ht Ha F Ho Hfd Htm Hb Hw Htry. unfold Step_out.
  destruct (thr_facts _ _ Ht) as (Tpc & Tpr & _). pose proof (not_dead _ _ _ _ F Ht) as Hnd.
  assert (En : enabled s t = (w <=? now s)).
  { unfold enabled. rewrite Hnd, Tpc. reflexivity. }
  destruct (w <=? now s) eqn:El.
  - right. left. split; auto. rewrite (step_sleep _ _ a w En Tpc).
    apply (Ph2 _ a); auto.
    + ev. rewrite Ht. reflexivity.
    + apply (Frame_soft s); auto; intros; ev; rewrite ?upd_other by congruence; auto.
  - right. right. left. split; auto. exists w. split; [unfold deadline; now rewrite Tpc|].
    apply (Ph2s _ a w); auto.
    + apply Frame_now; auto.
    + destruct Htm as (A & B & C & D & S0). unfold time2. cbn. repeat split; auto; try lia;
        first [apply (D T H)|specialize (Hw T H); lia].
Qed.

Lemma phase3_step s a d :
  thr s t = mkthr p [] (PFlock a d) res0 cs0 -> a_ok a -> Frame s (Some d) (holder s0) ->
  objs s o = acq_obj ob0 t -> o_fd ob0 = None -> time2 s (a_start a) -> tl_try ob0 t <> None -> Step_out s.
Proof.
  intros Ht Ha F Ho Hfd Htm Htry. pose proof Ha as (Ao & Am & Ab & At & Ap & As). unfold Step_out.
  destruct (thr_facts _ _ Ht) as (Tpc & Tpr & _). pose proof (not_dead _ _ _ _ F Ht) as Hnd.
  assert (En : enabled s t = if b' && match tm' with TVal _ => false | _ => true end
                             then holder_free_for s d || faulty s KLock else true).
  { unfold enabled. rewrite Hnd, Tpc, Ab, At. reflexivity. }
  assert (Hfail : forall s1, objs s1 = objs s -> thr s1 = thr s -> holder s1 = holder s -> fdown s1 = fdown s ->
            nextfd s1 = nextfd s -> dead s1 = dead s -> viol s1 = viol s -> faults s1 = faults s -> now s1 = now s ->
            (holder s0 <> None \/ faults s0 <> []) -> forall i, (i = true -> faults s0 <> []) ->
            Phase (set_pc s1 t (PCloseF a d i))).
  { intros s1 E1 E2 E3 E4 E5 E6 E7 E8 E9 R i Hi. apply (Ph3c _ a d i); auto.
    - ev. rewrite E2, Ht. reflexivity.
    - apply (Frame_soft s); auto; intros; ev; rewrite ?upd_other by congruence; rewrite ?E1, ?E2; auto.
    - ev. now rewrite E1.
    - unfold time2 in *. cbn. now rewrite E9. }
  assert (Hfree : holder_free_for s d = false -> holder s0 <> None).
  { unfold holder_free_for. rewrite (f_holder _ _ _ F). destruct (holder s0); [discriminate|discriminate]. }
  destruct (enabled s t) eqn:Een.
  - rewrite (step_flock _ _ a d Een Tpc). cbn.
    destruct (faulty s KLock) eqn:Ef.
    + right. left. split; auto. apply Hfail; auto; [right|intros _]; eapply faulty_nonempty; eauto.
    + change (holder_free_for _ d) with (holder_free_for s d).
      destruct (holder_free_for s d) eqn:Eh.
      * left. split; auto. exists RTrue. split; [|split; [unfold call_done; ev; rewrite ?Ht; reflexivity|unfold last_result; ev; reflexivity]].
        apply (FinNew _ _ d); auto.
        -- ev. rewrite Ht. cbn. now rewrite Ao.
        -- destruct F as [A B C D E G H I0 J K]. constructor; cbn; auto.
           ++ intros t' Hn. rewrite upd_other; auto.
           ++ intros o' Hn. rewrite Ao, upd_other; auto.
        -- ev. rewrite Ao, upd_same, Ho. reflexivity.
        -- unfold holder_free_for in Eh. rewrite (f_holder _ _ _ F) in Eh. destruct (holder s0) as [h|]; auto.
           right. apply Nat.eqb_eq in Eh. now subst.
        -- eapply time2_fin. unfold time2 in *. cbn. exact Htm.
      * right. left. split; auto. apply Hfail; auto. discriminate.
  - right. right. right. split; auto. symmetry in En.
    destruct b' eqn:Eb; [|discriminate]. destruct tm' as [| |T] eqn:ET; try discriminate; cbn in En;
      apply orb_false_elim in En; destruct En as [E1 E2];
      (split; [unfold deadline; now rewrite Tpc|]); apply (BlkOS _ a d); auto; try (unfold timed_T; rewrite ?ET; now auto);
      intros o'; (destruct (Nat.eq_dec o' o) as [->|Hne]; [now rewrite Ho|now rewrite (f_obj _ _ _ F)]).
Qed.

Lemma phase3c_step s a d i :
  thr s t = mkthr p [] (PCloseF a d i) res0 cs0 -> a_ok a -> Frame s (Some d) (holder s0) ->
  objs s o = acq_obj ob0 t -> o_fd ob0 = None -> time2 s (a_start a) ->
  (holder s0 <> None \/ faults s0 <> []) -> (i = true -> faults s0 <> []) -> tl_try ob0 t <> None -> Step_out s.
Proof.
  intros Ht Ha F Ho Hfd Htm R Hi Htry. pose proof Ha as (Ao & Am & Ab & At & Ap & As). unfold Step_out.
  destruct (thr_facts _ _ Ht) as (Tpc & Tpr & _).
  assert (En : enabled s t = true) by (eapply enabled_simple; eauto; exact I).
  right. left. split; auto. rewrite (step_closef _ _ a d i En Tpc). cbn.
  assert (G : forall s1, objs s1 = objs s -> thr s1 = thr s -> holder s1 = holder s -> fdown s1 = fdown s ->
            nextfd s1 = nextfd s -> dead s1 = dead s -> viol s1 = viol s -> faults s1 = faults s -> now s1 = now s ->
            Frame (k_close s1 d) None (holder s0) /\ thr (k_close s1 d) t = mkthr p [] (PCloseF a d i) res0 cs0 /\
            objs (k_close s1 d) o = acq_obj ob0 t /\ time2 (k_close s1 d) (a_start a)).
  { intros s1 E1 E2 E3 E4 E5 E6 E7 E8 E9.
    assert (N2 : now (k_close s1 d) = now s).
    { unfold k_close, k_unlock. cbn. destruct (holder s1) as [x|]; [destruct (Nat.eqb x d)|]; cbn; auto. }
    assert (FL : faults (k_close s1 d) = faults s).
    { unfold k_close, k_unlock. cbn. destruct (holder s1) as [x|]; [destruct (Nat.eqb x d)|]; cbn; auto. }
    split; [|split; [rewrite thr_k_close, E2; exact Ht|split; [rewrite objs_k_close, E1; exact Ho|unfold time2 in *; now rewrite N2]]].
    destruct F as [A B C D E G H I0 J K]. destruct (H d eq_refl) as [Hd1 Hd2].
    constructor; rewrite ?thr_k_close, ?objs_k_close, ?dead_k_close, ?viol_k_close, ?nextfd_k_close, ?E1, ?E2, ?E5, ?E6, ?E7; auto.
    - rewrite holder_k_close, E3, C. unfold unl_holder.
      destruct (holder s0) as [h|] eqn:Eh; auto. specialize (Hh0 h eq_refl).
      destruct (Nat.eqb_spec h d); [lia|reflexivity].
    - intros d' Hd'. rewrite fdown_k_close, E4. destruct (Nat.eqb_spec d' d); [lia|]. apply D; auto.
    - intros d' Hd' _. rewrite fdown_k_close, E4. destruct (Nat.eqb_spec d' d); auto. apply E; auto. congruence.
    - discriminate.
    - rewrite FL. auto. }
  destruct (faulty s KClose || i) eqn:Ef.
  - match goal with |- Phase (enter_cleanup (k_close ?s1 d) _ _ _) =>
      destruct (G s1) as (F2 & T2 & O2 & Tm2); try reflexivity;
      apply (cleanup_phase (k_close s1 d) a true (PCloseF a d i) T2 Ha F2 O2 Hfd); auto end.
    + eapply time2_fin; eauto.
    + intros _. apply orb_prop in Ef. destruct Ef as [Ef|Ef]; [apply (faulty_nonempty s (Some d) (holder s0) KClose F Ef)|auto].
    + discriminate.
  - match goal with |- Phase (after_attempt (k_close ?s1 d) _ _) =>
      destruct (G s1) as (F2 & T2 & O2 & Tm2); try reflexivity;
      apply (attempt_phase (k_close s1 d) a (PCloseF a d i) T2 Ha F2 O2 Hfd Tm2 R Htry) end.
Qed.

Lemma phase4_step s a b :
  thr s t = mkthr p [] (PCleanRel a b) res0 cs0 -> a_ok a -> Frame s None (holder s0) ->
  objs s o = set_cnt (acq_obj ob0 t) (o_cnt ob0) -> o_fd ob0 = None -> time_fin s ->
  (b = true -> faults s0 <> []) ->
  (b = false -> (b' = false \/ exists T, tm' = TVal T) /\ (holder s0 <> None \/ faults s0 <> [])) ->
  tl_try ob0 t <> None ->
  Step_out s.
Proof.
  intros Ht Ha F Ho Hfd Htm R1 R2 Htry. pose proof Ha as (Ao & Am & Ab & At & Ap & As). unfold Step_out.
  destruct (thr_facts _ _ Ht) as (Tpc & Tpr & _).
  assert (En : enabled s t = true) by (eapply enabled_simple; eauto; exact I).
  left. split; auto. rewrite (step_cleanrel _ _ a b En Tpc). rewrite Ao, Ho, Am.
  assert (Hf : is_fail (if b then ROSErr else fail_result m) = true) by (destruct b; [reflexivity|apply is_fail_fail_result]).
  exists (if b then ROSErr else fail_result m).
  split; [|split; [unfold call_done; ev; rewrite ?Ht, ?Hf; cbn; rewrite ?skipn_nil; reflexivity|unfold last_result; ev; reflexivity]].
  apply (FinFail _ _ b); auto.
  - ev. rewrite Ht, Hf. cbn. now rewrite skipn_nil.
  - apply (Frame_soft s); auto; intros; ev; rewrite ?upd_other by congruence; auto.
  - ev. reflexivity.
Qed.

Lemma phase_step s : Phase s -> Step_out s.
Proof.
  intros [a dl A B C D E|a A B C D E G H|a w A B C D E G H I0 J|a d A B C D E G H|a d i A B C D E G H I0 J0|a b A B C D E G H I0 J].
  - eapply phase1_step; eauto.
  - eapply phase2_step; eauto.
  - eapply phase2s_step; eauto.
  - eapply phase3_step; eauto.
  - eapply phase3c_step; eauto.
  - eapply phase4_step; eauto.
Qed.

Definition Outcome (s' : state) (r : result) : Prop :=
  r = ROutOfFuel \/ (r = RWouldBlock /\ Blocked s') \/ Final s' r.

Lemma acq_run fuel : forall s, Phase s -> Outcome (fst (run_alone fuel s t)) (snd (run_alone fuel s t)).
Proof.
  induction fuel as [|f IH]; intros s P; pose proof (phase_not_done _ P) as Hnd.
  - unfold run_alone. rewrite Hnd. left. reflexivity.
  - destruct (phase_step _ P) as [(En & r & Fin & Hd & Hl)|[(En & P')|[(En & w & Hw & P')|(En & Hdl & B)]]].
    + rewrite run_alone_step by auto. rewrite run_alone_done by auto. cbn. rewrite Hl. right. right. exact Fin.
    + rewrite run_alone_step by auto. apply IH; auto.
    + rewrite (run_alone_wait _ _ _ w) by auto. apply IH; auto.
    + rewrite run_alone_block by auto. cbn. right. left. split; auto.
Qed.

End Acq.

(* ---------- do_call of an acquire ------------------------------------------------------ *)

Lemma acquire_begin s0 t o m blk tm poll skip :
  t_pc (thr s0 t) = PIdle -> dead s0 (t_proc (thr s0 t)) = false ->
  o_proc (objs s0 o) = t_proc (thr s0 t) ->
  (forall d q, fdown s0 d = Some q -> (d < nextfd s0)%nat) ->
  let b' := fst (normalise (objs s0 o) blk tm) in
  let tm' := snd (normalise (objs s0 o) blk tm) in
  exists s1 a dl,
    (forall f, do_call (S f) s0 t (CAcq o m blk tm poll skip) = run_alone f s1 t) /\
    do_call 0 s0 t (CAcq o m blk tm poll skip) = (pop_prog s0 t [CAcq o m blk tm poll skip], ROutOfFuel) /\
    Phase s0 t o m b' tm' poll skip s1 /\ t_pc (thr s1 t) = PTLAcq a dl /\ now s1 = now s0.
Proof.
  intros Hpc Hal Hpr Hfo b' tm'. unfold do_call.
  assert (Hcd : call_done (pop_prog s0 t [CAcq o m blk tm poll skip]) t = false).
  { unfold call_done. cbn. rewrite upd_same. cbn. now rewrite Hpc. }
  assert (Hal' : is_dead (pop_prog s0 t [CAcq o m blk tm poll skip]) t = false).
  { unfold is_dead. cbn. rewrite upd_same. cbn. exact Hal. }
  assert (En : enabled (pop_prog s0 t [CAcq o m blk tm poll skip]) t = true).
  { unfold enabled. rewrite Hal'. cbn. rewrite upd_same. cbn. now rewrite Hpc. }
  set (a0 := mkaloc o m b' tm' poll skip 0).
  set (dl0 := if b' then match tm' with TVal n => Some (now s0 + n) | _ => None end else None).
  exists (set_pc (pop_prog (pop_prog s0 t [CAcq o m blk tm poll skip]) t []) t (PTLAcq a0 dl0)), a0, dl0.
  split; [|split; [unfold run_alone; rewrite Hcd; reflexivity|]].
  - intros f. rewrite run_alone_step by assumption.
    rewrite (step_idle _ _ (CAcq o m blk tm poll skip) []);
      [|assumption|cbn; rewrite upd_same; cbn; exact Hpc|cbn; rewrite upd_same; reflexivity].
    unfold begin_call. cbn. rewrite !upd_same. cbn. rewrite Hpr, Nat.eqb_refl.
    rewrite (surjective_pairing (normalise (objs s0 o) blk tm)). fold b' tm'. reflexivity.
  - split; [|split; [cbn; rewrite upd_same; reflexivity|reflexivity]].
    eapply Ph1.
    + cbn. rewrite !upd_same. cbn. reflexivity.
    + repeat split.
    + constructor; cbn; auto; try discriminate.
      * intros t' Hn. rewrite !upd_other; auto.
      * intros d Hd _. destruct (fdown s0 d) as [q|] eqn:E; auto. apply Hfo in E. lia.
    + reflexivity.
    + unfold time1. cbn. repeat split; try lia. destruct b'; [destruct tm'|]; cbn; lia.
Qed.

Theorem do_acquire_outcome s0 t o m blk tm poll skip fuel :
  t_pc (thr s0 t) = PIdle -> dead s0 (t_proc (thr s0 t)) = false ->
  o_proc (objs s0 o) = t_proc (thr s0 t) ->
  (forall h, holder s0 = Some h -> (h < nextfd s0)%nat) ->
  (forall d q, fdown s0 d = Some q -> (d < nextfd s0)%nat) ->
  let b' := fst (normalise (objs s0 o) blk tm) in
  let tm' := snd (normalise (objs s0 o) blk tm) in
  let res := do_call fuel s0 t (CAcq o m blk tm poll skip) in
  Outcome s0 t o m b' tm' poll skip (fst res) (snd res).
Proof.
  intros Hpc Hal Hpr Hh Hfo b' tm' res. unfold res.
  destruct (acquire_begin s0 t o m blk tm poll skip Hpc Hal Hpr Hfo) as (s1 & a & dl & E1 & E0 & P & _).
  destruct fuel as [|f].
  - rewrite E0. left. reflexivity.
  - rewrite E1. apply (acq_run s0 t o m b' tm' poll skip); auto.
Qed.
