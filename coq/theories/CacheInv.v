(* CacheInv.v — inductive invariant of the cache model (Cache.step) and the C01 / C06 state theorems. *)
From Coq Require Import List Arith NArith Bool Lia ZifyBool ZifyNat ZifyN.
Import ListNotations.
Require Import Aiuti.Cache Aiuti.CacheLemmas.

Record Inv (s : state) : Prop := mkInv {
  iA1 : forall c cr e, getc s c = Some cr -> own_ev (cpc cr) = Some e -> e < length (evset s);
  iA2 : forall c c' cr cr' e, getc s c = Some cr -> getc s c' = Some cr' ->
        own_ev (cpc cr) = Some e -> own_ev (cpc cr') = Some e -> c = c';
  iB : forall c cr, getc s c = Some cr -> locked_pc (cpc cr) = true -> lock s = Some c;
  iC : forall c cr, getc s c = Some cr -> run_pc (cpc cr) = true -> lp s (cloop cr) = LRun;
  iD : forall c cr e, getc s c = Some cr -> own_ev (cpc cr) = Some e -> lp s (cloop cr) = LRun ->
       marker_at s (ckey cr) = Some (cloop cr, e);
  iE : forall i ir, nth_error (invs s) i = Some ir -> istat ir = IActive ->
       exists cr e, getc s (icaller ir) = Some cr /\ cpc cr = PComp i e /\ cloop cr = iloop ir
                    /\ ckey cr = ikey ir /\ lp s (iloop ir) = LRun
}.

(* case analysis of a transition, with decide / fin split into their branches *)
(* rewrite a lookup of a caller in a post-state *)
Lemma Inv_init n tbl : Inv (init n tbl).
Proof.
  assert (P : forall c cr, getc (init n tbl) c = Some cr -> cpc cr = PStart).
  { intros c cr H. unfold getc, init in H. simpl in H. rewrite nth_error_map in H.
    destruct (nth_error tbl c); simpl in H; [injection H as <-|discriminate]. reflexivity. }
  constructor; intros.
  - apply P in H. rewrite H in H0. discriminate.
  - apply P in H. rewrite H in H1. discriminate.
  - apply P in H. rewrite H in H0. discriminate.
  - apply P in H. rewrite H in H0. discriminate.
  - apply P in H. rewrite H in H0. discriminate.
  - simpl in H. destruct i; discriminate.
Qed.

Section Pres.
Variables (s s' : state) (e : ev).
Hypothesis I : Inv s.
Hypothesis T : trans s e s'.

Ltac start := start_ s.
Ltac lp_norm := lp_norm_ s.



(* moved caller: expose its old and new pc *)
(* lookups through the caller maps of Cancel / LoopShut / Adv *)
Lemma pres_A1 : forall c cr e, getc s' c = Some cr -> own_ev (cpc cr) = Some e -> e < length (evset s').
Proof.
  pose proof (iA1 s I) as A1.
  tcases T; intros c' cr' e' Hg Ho; start.
  all: try solve [ eapply Nat.lt_le_trans; [eapply A1; eauto|len_tac] ].
  all: mv_simpl; try discriminate; try (injection Ho as <-).
  all: try solve [ eapply Nat.lt_le_trans;
                   [eapply A1; [eassumption|]; match goal with Hc : cpc _ = _ |- _ => rewrite Hc end; reflexivity
                   |len_tac] ].
  all: try solve [len_tac].
Qed.

Lemma pres_A2 : forall c c' cr cr' e, getc s' c = Some cr -> getc s' c' = Some cr' ->
        own_ev (cpc cr) = Some e -> own_ev (cpc cr') = Some e -> c = c'.
Proof.
  pose proof (iA1 s I) as A1. pose proof (iA2 s I) as A2.
  tcases T; intros c1 c2 cr1 cr2 e0 Hg1 Hg2 Ho1 Ho2; start; try reflexivity.
  all: try solve [ eapply A2; eauto ].
  all: mv_simpl; try discriminate; try (injection Ho1 as <-); try (injection Ho2 as <-).
  all: try solve [ eapply A2; eauto; oldown ].
  all: try solve [ symmetry; eapply A2; eauto; oldown ].
  all: try solve [ exfalso; match goal with Hx : getc s _ = Some ?cr, Hy : own_ev (cpc ?cr) = Some (length (evset s)) |- _ =>
                     pose proof (A1 _ _ _ Hx Hy); lia end ].
Qed.

Lemma pres_B : forall c cr, getc s' c = Some cr -> locked_pc (cpc cr) = true -> lock s' = Some c.
Proof.
  pose proof (iB s I) as B.
  tcases T; intros c1 cr1 Hg1 Hl; start; simpl.
  all: try solve [ eapply B; eauto ].
  all: try solve [ match goal with Hx : getc s ?c = Some ?cr, Hy : locked_pc (cpc ?cr) = true |- _ =>
                     pose proof (B _ _ Hx Hy); congruence end ].
  all: mv_simpl; try discriminate; try reflexivity.
  all: try solve [ eapply B; eauto; oldown ].
Qed.


Lemma pres_C : forall c cr, getc s' c = Some cr -> run_pc (cpc cr) = true -> lp s' (cloop cr) = LRun.
Proof.
  pose proof (iC s I) as C. pose proof (iE s I) as E.
  tcases T; intros c1 cr1 Hg1 Hr; start; simpl cloop; lp_norm.
  all: try solve [ eapply C; eauto ].
  all: try solve [ congruence ].
  all: mv_simpl; try discriminate.
  all: try solve [ eapply C; eauto; oldown ].
  all: try solve [ match goal with Hi : nth_error (invs s) _ = Some ?ir, Ha : istat ?ir = IActive |- _ =>
                     destruct (E _ _ Hi Ha) as (crx & ex & Hgx & _ & Hlx & _ & Hrx); congruence end ].
  all: unfold lp in *; simpl loops; rewrite lget_lset.
  all: match goal with |- (if ?a =? ?b then _ else _) = _ => destruct (Nat.eqb_spec a b) end.
  all: try solve [ eapply C; eauto ].
  all: exfalso.
  all: try solve [ match goal with Hx : getc s _ = Some ?cr, Hy : run_pc (cpc ?cr) = true |- _ =>
                     pose proof (C _ _ Hx Hy) as Hc; unfold lp in Hc; congruence end ].
  - (* LoopStop: a running caller is not suspended *)
    pose proof (forallb_nth _ _ _ _ H0 Hg1) as Hs. unfold on_loop in Hs.
    match goal with Heq : _ = cloop _ |- _ => rewrite <- Heq, Nat.eqb_refl in Hs end.
    rewrite (run_pc_not_suspended _ Hr) in Hs. discriminate.
Qed.

Lemma pres_D : forall c cr e, getc s' c = Some cr -> own_ev (cpc cr) = Some e -> lp s' (cloop cr) = LRun ->
       marker_at s' (ckey cr) = Some (cloop cr, e).
Proof.
  pose proof (iD s I) as D. pose proof (iA2 s I) as A2.
  tcases T; intros c1 cr1 e1 Hg1 Ho Hr; start; proj_norm.
  all: try solve [ eapply D; eauto ].
  all: mv_simpl; try discriminate; try (injection Ho as <-).
  all: try solve [ eapply D; eauto; oldown ].
  all: try rewrite lget_lset in Hr.
  all: rewrite ?lget_lset; eqb_split; try discriminate; try reflexivity; try congruence.
  all: try solve [ eapply D; eauto ].
  - (* takeover while another live owner of the key exists: its marker was alive *)
    exfalso. match goal with Hk : ckey _ = ckey _ |- _ => rewrite Hk in Hm end.
    rewrite (D _ _ _ Hg1 Ho Hr) in Hm. destruct Hm as [Hm | (lx & ex & Hm & Hd)]; [discriminate|].
    injection Hm as <- <-. rewrite Hr in Hd. discriminate.
  - (* fin removed the marker of its own event only *)
    exfalso. match goal with Hk : ckey _ = ckey _ |- _ => rewrite Hk in Hm end.
    rewrite (D _ _ _ Hg1 Ho Hr) in Hm. destruct Hm as (l & Hm). injection Hm as <- <-.
    match goal with Hn : _ <> c1 |- _ => apply Hn end.
    eapply A2; eauto. oldown.
Qed.

Lemma pres_E : forall i ir, nth_error (invs s') i = Some ir -> istat ir = IActive ->
       exists cr e, getc s' (icaller ir) = Some cr /\ cpc cr = PComp i e /\ cloop cr = iloop ir
                    /\ ckey cr = ikey ir /\ lp s' (iloop ir) = LRun.
Proof.
  pose proof (iE s I) as E.
  tcases T; intros j jr Hj Ha; proj_norm.
  all: try match goal with
           | Hx : nth_error (_ ++ [_]) ?j = Some _ |- _ =>
               rewrite nth_error_snoc in Hx; destruct (Nat.eqb_spec j (length (invs s)));
               [injection Hx as <-; subst j|]
           | Hx : nth_error (lset _ _ ?i _) ?j = Some _ |- _ =>
               erewrite nth_error_lset in Hx by (eapply nth_error_Some_lt; eassumption);
               destruct (Nat.eqb_spec i j); [injection Hx as <-; simpl in Ha; try discriminate Ha; subst|]
           | Hx : nth_error (map _ _) ?j = Some _ |- _ =>
               let jr0 := fresh "jr0" in let Hj0 := fresh "Hj0" in
               rewrite nth_error_map in Hx; destruct (nth_error (invs s) j) as [jr0|] eqn:Hj0; simpl in Hx;
               [injection Hx as <-|discriminate Hx]
           end.
  all: try match goal with
           | Hx : nth_error (invs s) _ = Some ?r, Hy : istat ?r = IActive |- _ =>
               destruct (E _ _ Hx Hy) as (crx & ex & Hgx & Hpx & Hlx & Hkx & Hrx)
           end.
  all: try solve [
    match goal with
    | |- exists _ _, getc (set_pc ?st ?c ?cr ?p) ?c' = _ /\ _ =>
        erewrite getc_set_pc by eassumption; destruct (Nat.eqb_spec c c');
        [ exfalso; subst; unfold can_probe, rel_pc in *;
          match goal with Hq : getc s ?x = Some ?a, Hq' : getc s ?x = Some ?b |- _ =>
            rewrite Hq in Hq'; injection Hq' as -> end;
          repeat match goal with
                 | Hd : _ \/ _ |- _ => destruct Hd
                 | Hd : exists _, _ |- _ => destruct Hd
                 | Hd : _ /\ _ |- _ => destruct Hd
                 end; try congruence;
          match goal with Hq : cpc ?a = _ , Hr : context [match cpc ?a with _ => _ end] |- _ => rewrite Hq in Hr; contradiction end
        | exists crx, ex; auto ]
    end ].
  - simpl. erewrite getc_set_pc by eassumption. rewrite Nat.eqb_refl. eexists _, _. repeat split; eauto.
  - erewrite getc_set_pc by eassumption. destruct (Nat.eqb_spec (icaller ir) (icaller jr)) as [Hq|Hq].
    + exfalso. rewrite Hq in *. rewrite Hgx in *. congruence.
    + exists crx, ex; auto.
  - erewrite getc_set_pc by eassumption. destruct (Nat.eqb_spec (icaller ir) (icaller jr)) as [Hq|Hq].
    + exfalso. rewrite Hq in *. rewrite Hgx in *. congruence.
    + exists crx, ex; auto.
  - erewrite getc_set_pc by eassumption. destruct (Nat.eqb_spec (icaller ir) (icaller jr)) as [Hq|Hq].
    + exfalso. rewrite Hq in *. rewrite Hgx in *. congruence.
    + exists crx, ex; auto.
  - erewrite getc_cancel by eassumption. destruct (Nat.eqb_spec c (icaller jr)) as [Hq|Hq].
    + subst c. rewrite Hgx in *. injection H as <-. eexists _, ex. simpl. repeat split; eauto.
    + exists crx, ex; auto.
  - unfold abandon in *. destruct (istat jr0) eqn:Hst; simpl in Ha; try discriminate Ha; try congruence.
    destruct (Nat.eqb_spec (iloop jr0) t) as [Hq|Hq]; simpl in Ha; try discriminate Ha.
    destruct (E _ _ Hj0 Hst) as (crx & ex & Hgx & Hpx & Hlx & Hkx & Hrx).
    exists crx, ex. repeat split; auto. rewrite lget_lset_neq; auto.
  - exists crx, ex. repeat split; auto. rewrite lget_lset_neq; auto. intros ->. congruence.
  - exists crx, ex. repeat split; auto. rewrite lget_lset_neq; auto. intros ->. congruence.
  - exists crx, ex. repeat split; auto. rewrite lget_lset_neq; auto. intros ->. congruence.
  - erewrite (getc_map _ (mark_started s)) by reflexivity. rewrite Hgx. simpl.
    eexists _, ex. rewrite ms_loop, ms_key. repeat split; eauto.
    destruct (mark_started_props s crx) as (_ & _ & _ & [-> | (l & e & dl & xd & Hc & _)]); congruence.
  - exists crx, ex; auto.
Qed.

Lemma pres_Inv1 : Inv s'.
Proof.
  constructor; [apply pres_A1|apply pres_A2|apply pres_B|apply pres_C|apply pres_D|apply pres_E].
Qed.
End Pres.

Lemma run_Inv0 : forall tr s s', Inv s -> run s tr = Some s' -> Inv s'.
Proof.
  induction tr as [|e tr IH]; intros s s' I H; simpl in H.
  - injection H as <-. exact I.
  - destruct (step s e) as [s1|] eqn:Hs; [|discriminate].
    apply step_trans in Hs as [_ Ht]. eapply IH; [|exact H]. eapply pres_Inv1; eauto.
Qed.

(* two invocations of one key are never active at once on loops that are running *)
Lemma single_flight_state s : Inv s ->
  forall i j ir jr, nth_error (invs s) i = Some ir -> nth_error (invs s) j = Some jr ->
    istat ir = IActive -> istat jr = IActive -> ikey ir = ikey jr -> i = j.
Proof.
  intros I i j ir jr Hi Hj Hai Haj Hk.
  destruct (iE s I _ _ Hi Hai) as (ci & ei & Hgi & Hpi & Hli & Hki & Hri).
  destruct (iE s I _ _ Hj Haj) as (cj & ej & Hgj & Hpj & Hlj & Hkj & Hrj).
  assert (Di : marker_at s (ckey ci) = Some (cloop ci, ei)).
  { eapply (iD s I); eauto. rewrite Hpi. reflexivity. congruence. }
  assert (Dj : marker_at s (ckey cj) = Some (cloop cj, ej)).
  { eapply (iD s I); eauto. rewrite Hpj. reflexivity. congruence. }
  assert (ei = ej) by congruence. subst ej.
  assert (icaller ir = icaller jr).
  { eapply (iA2 s I); eauto. rewrite Hpi; reflexivity. rewrite Hpj; reflexivity. }
  congruence.
Qed.

(* generic induction principle over accepted event lists, carrying Inv along *)
Lemma run_ind (P : state -> Prop) :
  (forall s e s', Inv s -> P s -> trans s e s' -> P s') ->
  forall tr s s', Inv s -> P s -> run s tr = Some s' -> Inv s' /\ P s'.
Proof.
  intros HP. induction tr as [|e tr IH]; intros s s' I Hs H; simpl in H.
  - injection H as <-. auto.
  - destruct (step s e) as [s1|] eqn:Hs1; [|discriminate].
    apply step_trans in Hs1 as [_ Ht]. eapply IH; [| |exact H].
    + eapply pres_Inv1; eauto.
    + eapply HP; eauto.
Qed.

Definition reachable (s : state) : Prop :=
  exists nloops tbl tr, run (init nloops tbl) tr = Some s.

Lemma reachable_Inv s : reachable s -> Inv s.
Proof. intros (n & tbl & tr & H). eapply run_Inv0; [apply Inv_init|exact H]. Qed.
