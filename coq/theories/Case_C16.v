(* Case_C16.v — correspondence cases and trace monitor for C16 (iterator bridges).
   No proofs here; see BridgeInv.v / BridgeLive.v / BridgeMon.v / props/C16.v.

   A case = the configuration (which bridge, the source, where it fails), harness
   facts (is the inline source's __next__ gated, the ticker's limit) and what the
   gated run of the REAL function showed:
     trace   one entry per decision of the controller: the thread chosen (consumer
             thread/loop c or worker w), the gate it was parked at, how many
             elements the consumer had received after the step, which threads the
             controller found enabled, and which threads' gate timers were due
             (virtual clock; an input of the environment);
     res     0 all threads finished, 1 deadlock, 2 step bound, 3 harness error;
     consumed / outcome / joined / threads_left / nworkers / pull_thread / ticks
             taken when the consumer's iteration ended;
     parks   per pull of the source: (virtual ticks spent inside the source,
             ticker ticks during that time).
   agree: the model, driven by the same thread choices (one W step per worker
   decision, one consumer macro-step — a sequence of D/C/T steps of Bridge.step —
   per consumer decision), predicts every gate, every consumed count, every
   enabled set and the final observation.
   ok: the property decided on the observed data alone.                        *)
From Coq Require Import List Arith Bool.
Import ListNotations.
Require Import Aiuti.CaseLib Aiuti.Bridge.

Inductive who := Wc | Ww | Wother.

(* gate codes: 0 start, 1 pull (sleep inside the source), 2 put / call_soon_threadsafe,
   3 completing the executor future, 4 loop idle, 5 queue.get, 6 future.result,
   7 pool.shutdown(wait=True), 9 anything else *)
Inductive dec := Dc (w : who) (gate cons : nat) (cen wen cdue wdue : bool).

Inductive case :=
| Case (c : cfg) (gated : bool) (limit : nat)
       (trace : list dec) (res : nat)
       (consumed : list nat) (out : option outcome) (joined : bool)
       (threads_left nworkers pull_thread nticks : nat)
       (parks : list (nat * nat))
(* a run scheduled at SOURCE-LINE granularity (every line of the bridge functions is a
   scheduling point of its thread, timed waits may expire early): the gate trace is not
   comparable with the gate-level macro-steps, so only the schedule-independent final
   observation is compared with the model (nlines = line-level decisions taken) *)
| CaseL (c : cfg) (gated : bool) (nlines : nat) (res : nat)
        (consumed : list nat) (out : option outcome) (joined : bool)
        (threads_left nworkers pull_thread : nat)
        (parks : list (nat * nat)).

(* ---- the model driven by thread-level decisions -------------------------- *)

Fixpoint iter (n : nat) (f : state -> state) (s : state) : state :=
  match n with 0 => s | S k => iter k f (f s) end.

Definition nonempty {A} (l : list A) : bool := match l with [] => false | _ => true end.

Definition c_gate (c : cfg) (s : state) : nat :=
  match cst s with
  | CInit => 0
  | CReading => if is_async c then 4 else 5
  | CAwait => if is_async c then 4 else 6
  | CJoin _ => 7
  | CInlinePull => 1
  | CDone _ => 9
  end.

Definition w_gate (s : state) : nat :=
  match wp s with
  | WStart => 0 | WPull => 1 | WPut _ => 2 | WFin => 3 | WNotify => 2 | _ => 9
  end.

(* is the consumer thread enabled (cdue = its gate timer is due) *)
Definition c_en (c : cfg) (s : state) (cdue : bool) : bool :=
  match cst s with
  | CInit => true
  | CReading | CAwait => if is_async c then nonempty (ready s) || cdue else enC c s
  | CJoin _ => enC c s
  | CInlinePull => cdue
  | CDone _ => false
  end.

Definition w_en (s : state) (wdue : bool) : bool :=
  match wp s with WNone | WDone => false | WPull => wdue | _ => true end.

Definition cons_step (c : cfg) (s : state) : state :=
  match cst s with CReading | CAwait => stepC c s | _ => s end.

(* what one scheduling of the consumer thread does, as a sequence of model steps *)
Definition c_macro (c : cfg) (gated : bool) (limit : nat) (cdue : bool) (s : state) : state :=
  match cst s with
  | CInit =>
      let s1 := stepC c s in
      if inline c then (if gated then s1 else iter (length (c_src c) + 1) (stepC c) s1)
      else if is_async c then stepT c s1 else s1
  | CReading | CAwait =>
      if is_async c then
        (* one run of the loop to its next idle point: every thread-safe callback, then the
           consumer task until it suspends or blocks in pool.shutdown, then the ticker if its
           timer was due (the consumer's wake-up is queued before the ticker's; when the
           consumer blocks the loop thread in shutdown the pending tick does not run: T is
           disabled in CJoin) *)
        let s1 := iter (length (ready s)) (stepD c) s in
        let s2 := iter (length (queue s1) + 2) (cons_step c) s1 in
        if cdue && (ticks s <? limit) then stepT c s2 else s2
      else
        let s1 := stepC c s in
        match cst s1 with CAwait => stepC c s1 | _ => s1 end      (* result() of a completed future does not block *)
  | CJoin _ | CInlinePull => stepC c s
  | CDone _ => s
  end.

Fixpoint replay (c : cfg) (gated : bool) (limit : nat) (s : state) (tr : list dec) : bool * state :=
  match tr with
  | [] => (true, s)
  | Dc w g n cen wen cdue wdue :: rest =>
      let good_en := Bool.eqb (c_en c s cdue) cen && Bool.eqb (w_en s wdue) wen in
      let '(good_me, s') :=
        match w with
        | Wc => (cen && Nat.eqb (c_gate c s) g, c_macro c gated limit cdue s)
        | Ww => (wen && Nat.eqb (w_gate s) g, stepW c s)
        | Wother => (false, s)
        end in
      let '(gr, s2) := replay c gated limit s' rest in
      (good_en && good_me && Nat.eqb (length (Bridge.consumed s')) n && gr, s2)
  end.

Definition outcome_eqb (a b : outcome) : bool :=
  match a, b with
  | Stop, Stop => true
  | Raised x, Raised y => Nat.eqb x y
  | _, _ => false
  end.

Definition model_outcome (s : state) : option outcome :=
  match cst s with CDone o => Some o | _ => None end.

Definition all_finished (s : state) : bool :=
  is_done s && match wp s with WNone | WDone => true | _ => false end.

(* measure(init) rounds of W, D, C: finishes every configuration (bridge_terminates) *)
Definition canon (c : cfg) : list choice := concat (repeat [W; D; C] (measure c (init c))).

Definition agree (k : case) : bool :=
  match k with
  | Case c gated limit tr res obsd out joined nleft nw pt nt parks =>
      let '(g, s) := replay c gated limit (init c) tr in
      g && all_finished s && Nat.eqb res 0
      && list_eqb Nat.eqb (Bridge.consumed s) obsd
      && opt_eqb outcome_eqb (model_outcome s) out
      && Bool.eqb (negb (worker_alive s)) joined
      && Nat.eqb nleft 0
      && Nat.eqb nw (if inline c then 0 else 1)
      && Nat.eqb pt (if inline c then (if gated then 2 else 0) else 1)
      && Nat.eqb nt (ticks s)
      (* the source was asked once per element handed out and once more for its end / failure
         (pulls of lists and ranges are invisible to the harness) *)
      && Nat.eqb (length parks) (if inline c && negb gated then 0 else S (pos s))
  | CaseL c gated _ res obsd out joined nleft nw pt parks =>
      (* the final observation does not depend on the schedule (bridge_complete, worker_joined):
         compare with the model's run under the canonical fair schedule *)
      let s := run c (canon c) in
      is_done s && Nat.eqb res 0
      && list_eqb Nat.eqb (Bridge.consumed s) obsd
      && opt_eqb outcome_eqb (model_outcome s) out
      && Bool.eqb (negb (worker_alive s)) joined
      && Nat.eqb nleft 0
      && Nat.eqb nw (if inline c then 0 else 1)
      && Nat.eqb pt (if inline c then (if gated then 2 else 0) else 1)
      && Nat.eqb (length parks) (if inline c && negb gated then 0 else S (pos s))
  end.

(* ---- monitor: the property, decided on what was observed ----------------- *)

Record fobs := mkObs {
  o_res : nat;                     (* 0 = the run ended *)
  o_consumed : list nat;
  o_out : option outcome;          (* None = the iteration never finished *)
  o_joined : bool;                 (* every worker had ended when the iteration finished *)
  o_left : nat;                    (* helper threads alive afterwards *)
  o_starved : bool                 (* the ticker missed more than the one tick a tie can cost *)
}.

Definition ok_obs (c : cfg) (o : fobs) : bool :=
  Nat.eqb (o_res o) 0
  && list_eqb Nat.eqb (o_consumed o) (firstn (delivered c) (c_src c))
  && opt_eqb outcome_eqb (o_out o) (Some (expected_out c))
  && o_joined o && Nat.eqb (o_left o) 0
  && (if is_async c && negb (c_noniter c) then negb (o_starved o) else true).

Definition starved_of (parks : list (nat * nat)) : bool :=
  existsb (fun p : nat * nat => S (snd p) <? fst p) parks.

Definition obs_of_case (k : case) : fobs :=
  match k with
  | Case c _ _ _ res obsd out joined nleft _ _ _ parks =>
      mkObs res obsd out joined nleft (starved_of parks)
  | CaseL c _ _ res obsd out joined nleft _ _ parks =>
      mkObs res obsd out joined nleft (starved_of parks)
  end.

Definition cfg_of (k : case) : cfg :=
  match k with Case c _ _ _ _ _ _ _ _ _ _ _ _ => c | CaseL c _ _ _ _ _ _ _ _ _ _ => c end.

Definition parks_of (k : case) : list (nat * nat) :=
  match k with Case _ _ _ _ _ _ _ _ _ _ _ _ p => p | CaseL _ _ _ _ _ _ _ _ _ _ p => p end.

(* the observation with the ticker part blanked *)
Definition unstarved (o : fobs) : fobs :=
  mkObs (o_res o) (o_consumed o) (o_out o) (o_joined o) (o_left o) false.

Definition ok (k : case) : bool := ok_obs (cfg_of k) (obs_of_case k).

(* what the model shows at a state *)
Definition model_obs (s : state) : fobs :=
  mkObs 0 (Bridge.consumed s) (model_outcome s) (negb (worker_alive s))
        (if worker_alive s then 1 else 0) (starved s).

(* non-trivial: a threaded bridge over a non-empty source in which the consumer
   thread ran (beyond its start) before the worker's last step *)
Fixpoint interleaved (tr : list dec) (seen_c : bool) : bool :=
  match tr with
  | [] => false
  | Dc Wc g _ _ _ _ _ :: rest => interleaved rest (seen_c || negb (Nat.eqb g 0))
  | Dc Ww _ _ _ _ _ _ :: rest => seen_c || interleaved rest seen_c
  | _ :: rest => interleaved rest seen_c
  end.

Definition nontrivial (k : case) : bool :=
  match k with
  | Case c _ _ tr _ _ _ _ _ _ _ _ _ =>
      negb (inline c) && (1 <=? length (c_src c)) && interleaved tr false
  | CaseL c _ nlines _ _ _ _ _ _ _ _ =>
      negb (inline c) && (1 <=? length (c_src c)) && (4 <=? nlines)
  end.

(* ---- one bridge, or two bridges alive at the same time ----------------------- *)

(* The property (and the model) speak about one bridge.  Two bridges of the same function
   alive at once (zip(to_sync_iter(a), to_sync_iter(b)), two consumer tasks on one loop)
   must not disturb each other: the pair is the product of two independent model runs, and
   each bridge is judged separately by agree / ok on its own observation (the run-level
   result code -- deadlock, step bound -- is shared by both components). *)
Inductive pcase := One (k : case) | Two (a b : case).

Definition agree_p (p : pcase) : bool :=
  match p with One k => agree k | Two a b => agree a && agree b end.
Definition ok_p (p : pcase) : bool :=
  match p with One k => ok k | Two a b => ok a && ok b end.
Definition nontrivial_p (p : pcase) : bool :=
  match p with One k => nontrivial k | Two a b => nontrivial a && nontrivial b end.

Definition verdict := verdict3 agree_p ok_p nontrivial_p.
