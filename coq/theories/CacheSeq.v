(* CacheSeq.v — the sequential regime (one caller at a time, one loop): the concurrent cache model Cache.v
   behaves exactly like C14's sequential cache Keys.v on a retaining store. *)
From Coq Require Import List Arith NArith Bool Lia.
Import ListNotations.
Require Import Aiuti.Cache Aiuti.CacheLemmas.
Require Aiuti.Keys Aiuti.KeysInv.

(* ---- the two scripts of one sequential call (loop t, caller c, clock tk) ---- *)
Definition hit_script' (t c v : nat) (tk : N) : list ev := [Get t c; Done c 0 v tk].
Definition miss_script' (t c i : nat) (tk : N) : list ev :=
  [Get t c; Miss t c; Acq t c; Get t c; Miss t c; Rel t c; IStart i c tk; IEnd i 0 tk; SetC t c;
   Acq t c; Rel t c; Done c 0 i tk].
Definition hit_script (j v : nat) : list ev := hit_script' 0 j v 0%N.
Definition miss_script (j i : nat) : list ev := miss_script' 0 j i 0%N.

(* ---- single steps ---- *)
Definition wpc (cr : crec) (p : pc) : crec := mkC (cloop cr) (ckey cr) p (ccanc cr).

Lemma getc_sp s c cr0 cr p : getc s c = Some cr0 -> getc (set_pc s c cr p) c = Some (wpc cr p).
Proof. intros H. erewrite getc_set_pc by eassumption. rewrite Nat.eqb_refl. reflexivity. Qed.

Lemma getc_sp_other s c cr0 cr p c' : getc s c = Some cr0 -> c' <> c -> getc (set_pc s c cr p) c' = getc s c'.
Proof.
  intros H Hn. erewrite getc_set_pc by eassumption. destruct (Nat.eqb_spec c c'); [congruence|reflexivity].
Qed.

Section Steps.
Variables (s : state) (t c : nat) (cr : crec).
Hypothesis He : ended s = false.
Hypothesis Hg : getc s c = Some cr.
Hypothesis Hl : cloop cr = t.
Hypothesis Hr : lp s t = LRun.

Ltac go := unfold step; rewrite He, Hg, ?Hl, ?Nat.eqb_refl, ?Hr; simpl.

Lemma st_get_start : cpc cr = PStart -> ccanc cr = false -> step s (Get t c) = Some (set_pc s c cr (probe_pc s cr)).
Proof. intros Hp Hc. rewrite <- do_probe_eq. go. rewrite Hp, Hc. reflexivity. Qed.
Lemma st_miss1 : cpc cr = PMiss1 -> step s (Miss t c) = Some (set_pc s c cr PLock).
Proof. intros Hp. go. rewrite Hp. reflexivity. Qed.
Lemma st_acq_lock : cpc cr = PLock -> lock s = None ->
  step s (Acq t c) = Some (set_pc (set_lock s (Some c)) c cr PReprobe).
Proof. intros Hp Hk. unfold step. rewrite He, Hg, Hk, Hl, Nat.eqb_refl, Hr, Hp. reflexivity. Qed.
Lemma st_reprobe : cpc cr = PReprobe -> step s (Get t c) = Some (set_pc s c cr (reprobe_pc s cr)).
Proof. intros Hp. go. rewrite Hp. unfold reprobe_pc. destruct (cache_at s (ckey cr)); reflexivity. Qed.
Lemma st_miss2 : cpc cr = PMiss2 -> step s (Miss t c) = Some (decide s c cr).
Proof. intros Hp. go. rewrite Hp. reflexivity. Qed.
Lemma st_rel_comp e : cpc cr = PUnlock (DComp e) -> lock s = Some c ->
  step s (Rel t c) = Some (set_pc (set_lock s None) c cr (PInvoke e)).
Proof. intros Hp Hk. unfold step. rewrite He, Hg, Hk, Hl, !Nat.eqb_refl, Hr, Hp. reflexivity. Qed.
Lemma st_rel_fin o : cpc cr = PFinUnlock o -> lock s = Some c ->
  step s (Rel t c) = Some (set_pc (set_lock s None) c cr (PFinish o)).
Proof. intros Hp Hk. unfold step. rewrite He, Hg, Hk, Hl, !Nat.eqb_refl, Hr, Hp. reflexivity. Qed.
Lemma st_istart e : cpc cr = PInvoke e ->
  step s (IStart (length (invs s)) c (now s)) =
  Some (set_pc (set_invs s (invs s ++ [mkI (ckey cr) (cloop cr) c IActive])) c cr (PComp (length (invs s)) e)).
Proof. intros Hp. unfold step. rewrite He, Hg, N.eqb_refl, Nat.eqb_refl, Hl, Hr, Hp. reflexivity. Qed.
Lemma st_iend_ok i ir e : nth_error (invs s) i = Some ir -> icaller ir = c -> istat ir = IActive ->
  cpc cr = PComp i e -> ccanc cr = false ->
  step s (IEnd i 0 (now s)) = Some (set_pc (set_istat s i ir IOk) c cr (PPublish i e)).
Proof.
  intros Hi Hc Hs Hp Hx. unfold step. rewrite He, Hi, Hc, Hg, N.eqb_refl, Hl, Hr, Hp, Nat.eqb_refl, Hs, Hx. reflexivity.
Qed.
Lemma st_setc i e : cpc cr = PPublish i e ->
  step s (SetC t c) = Some (set_pc (set_cache s (ckey cr) i) c cr (PFinLock e (ORet i))).
Proof. intros Hp. go. rewrite Hp. reflexivity. Qed.
Lemma st_acq_fin e o : cpc cr = PFinLock e o -> lock s = None -> step s (Acq t c) = Some (fin s c cr e o).
Proof. intros Hp Hk. unfold step. rewrite He, Hg, Hk, Hl, Nat.eqb_refl, Hr, Hp. reflexivity. Qed.
Lemma st_done o : cpc cr = PFinish o ->
  step s (Done c (fst (enc o)) (snd (enc o)) (now s)) = Some (set_pc s c cr (PDone o)).
Proof. intros Hp. unfold step. rewrite He, Hg, N.eqb_refl, Hl, Hr, Hp, !Nat.eqb_refl. reflexivity. Qed.
End Steps.

Lemma run_step s e s1 r : step s e = Some s1 -> run s (e :: r) = run s1 r.
Proof. intros H. simpl. rewrite H. reflexivity. Qed.

Lemma run_app : forall a b s, run s (a ++ b) = match run s a with Some s' => run s' b | None => None end.
Proof.
  induction a as [|e a IH]; intros b s; simpl; auto. destruct (step s e); auto.
Qed.

Lemma length_lset_lt {A} (d : A) l n v : n < length l -> length (lset d l n v) = length l.
Proof. revert l. induction n as [|n IH]; intros [|x r] H; simpl in *; try lia. rewrite IH; lia. Qed.

Lemma lget_ge {A} (d : A) l n : length l <= n -> lget d l n = d.
Proof. revert n. induction l as [|x r IH]; intros [|n] H; simpl in *; auto; try lia. apply IH. lia. Qed.

Lemma len_sp st c cr0 cr p : getc st c = Some cr0 -> length (callers (set_pc st c cr p)) = length (callers st).
Proof. intros H. simpl. apply length_lset_lt. apply nth_error_Some_lt with (x := cr0). exact H. Qed.

(* what one sequential call leaves untouched *)
Definition frame (s s' : state) (c : nat) : Prop :=
  ended s' = false /\ lock s' = None /\ loops s' = loops s /\ now s' = now s
  /\ (forall c', c' <> c -> getc s' c' = getc s c')
  /\ length (callers s') = length (callers s).

Section OneCall.
Variables (s : state) (t c : nat) (cr : crec).
Hypothesis He : ended s = false.
Hypothesis Hk : lock s = None.
Hypothesis Hr : lp s t = LRun.
Hypothesis Hg : getc s c = Some cr.
Hypothesis Hl : cloop cr = t.
Hypothesis Hp : cpc cr = PStart.
Hypothesis Hc : ccanc cr = false.


Lemma seq_hit v : cache_at s (ckey cr) = Some v ->
  exists s', run s (hit_script' t c v (now s)) = Some s'
    /\ cache s' = cache s /\ invs s' = invs s /\ marker s' = marker s /\ evset s' = evset s
    /\ getc s' c = Some (wpc cr (PDone (ORet v))) /\ frame s s' c.
Proof.
  intros Hv. unfold hit_script'.
  assert (S1 : step s (Get t c) = Some (set_pc s c cr (PFinish (ORet v)))).
  { rewrite (st_get_start s t c cr); auto. unfold probe_pc. rewrite Hv. reflexivity. }
  set (s1 := set_pc s c cr (PFinish (ORet v))) in *.
  assert (G1 : getc s1 c = Some (wpc cr (PFinish (ORet v)))) by (eapply getc_sp; eauto).
  assert (S2 : step s1 (Done c 0 v (now s)) = Some (set_pc s1 c (wpc cr (PFinish (ORet v))) (PDone (ORet v)))).
  { apply (st_done s1 t c _ He G1 Hl Hr (ORet v)). reflexivity. }
  eexists. split; [erewrite run_step by exact S1; erewrite run_step by exact S2; reflexivity|].
  repeat split; auto.
  - exact (getc_sp s1 c _ (wpc cr (PFinish (ORet v))) (PDone (ORet v)) G1).
  - intros c' Hn. erewrite getc_sp_other by eauto. unfold s1. erewrite getc_sp_other by eauto. reflexivity.
  - erewrite len_sp by exact G1. unfold s1. erewrite len_sp by exact Hg. reflexivity.
Qed.

(* the hit is forced: after the probe the only event of c the model accepts is the return of v *)
Lemma seq_hit_forced v : cache_at s (ckey cr) = Some v ->
  exists s1, step s (Get t c) = Some s1 /\ getc s1 c = Some (wpc cr (PFinish (ORet v)))
    /\ forall e s2, step s1 e = Some s2 ->
         match e with
         | Get _ c' | Miss _ c' | Acq _ c' | Rel _ c' | SetC _ c' | XSub _ c' | IStart _ c' _
         | Cancel c' _ | Proxy _ c' _ => c' <> c
         | Done c' k p tk => c' = c -> k = 0 /\ p = v /\ tk = now s
         | _ => True
         end.
Proof.
  intros Hv.
  assert (S1 : step s (Get t c) = Some (set_pc s c cr (PFinish (ORet v)))).
  { rewrite (st_get_start s t c cr); auto. unfold probe_pc. rewrite Hv. reflexivity. }
  set (s1 := set_pc s c cr (PFinish (ORet v))) in *.
  assert (G1 : getc s1 c = Some (wpc cr (PFinish (ORet v)))) by (eapply getc_sp; eauto).
  exists s1. repeat split; auto. intros e s2 H2. apply step_trans in H2 as [_ T].
  inversion T; subst; auto; try (intros ->);
    repeat match goal with
           | Hx : getc s1 c = Some ?x |- _ => rewrite G1 in Hx; injection Hx as <-
           end; simpl in *; try discriminate.
  all: unfold can_probe, rel_pc in *; simpl in *;
    repeat match goal with
           | Hd : _ \/ _ |- _ => destruct Hd
           | Hd : exists _, _ |- _ => destruct Hd
           | Hd : _ /\ _ |- _ => destruct Hd
           end; try discriminate; try contradiction.
  injection H1 as <-. simpl. auto.
Qed.
End OneCall.

Section OneMiss.
Variables (s : state) (t c : nat) (cr : crec).
Hypothesis He : ended s = false.
Hypothesis Hk : lock s = None.
Hypothesis Hr : lp s t = LRun.
Hypothesis Hg : getc s c = Some cr.
Hypothesis Hl : cloop cr = t.
Hypothesis Hp : cpc cr = PStart.
Hypothesis Hc : ccanc cr = false.
Hypothesis Hm : marker_at s (ckey cr) = None.
Hypothesis Hn : cache_at s (ckey cr) = None.

Let k := ckey cr.
Let E := length (evset s).
Let i := length (invs s).
Let ir := mkI (ckey cr) (cloop cr) c IActive.

Lemma seq_miss :
  exists s', run s (miss_script' t c (length (invs s)) (now s)) = Some s'
    /\ cache_at s' (ckey cr) = Some (length (invs s))
    /\ (forall k', k' <> ckey cr -> cache_at s' k' = cache_at s k')
    /\ invs s' = invs s ++ [mkI (ckey cr) (cloop cr) c IOk]
    /\ marker_at s' (ckey cr) = None
    /\ (forall k', k' <> ckey cr -> marker_at s' k' = marker_at s k')
    /\ getc s' c = Some (wpc cr (PDone (ORet (length (invs s))))) /\ frame s s' c.
Proof.
  unfold miss_script'.
  (* 1 Get: miss *)
  assert (S1 : step s (Get t c) = Some (set_pc s c cr PMiss1)).
  { rewrite (st_get_start s t c cr); auto. unfold probe_pc. rewrite Hn. reflexivity. }
  set (s1 := set_pc s c cr PMiss1) in *.
  assert (G1 : getc s1 c = Some (wpc cr PMiss1)) by (eapply getc_sp; eauto).
  (* 2 Miss *)
  pose proof (st_miss1 s1 t c _ He G1 Hl Hr eq_refl) as S2.
  set (s2 := set_pc s1 c (wpc cr PMiss1) PLock) in *.
  assert (G2 : getc s2 c = Some (wpc cr PLock)) by exact (getc_sp s1 c _ (wpc cr PMiss1) PLock G1).
  (* 3 Acq *)
  pose proof (st_acq_lock s2 t c _ He G2 Hl Hr eq_refl Hk) as S3.
  set (s3 := set_pc (set_lock s2 (Some c)) c (wpc cr PLock) PReprobe) in *.
  assert (G3 : getc s3 c = Some (wpc cr PReprobe)) by exact (getc_sp (set_lock s2 (Some c)) c _ (wpc cr PLock) PReprobe G2).
  (* 4 Get: miss again *)
  assert (S4 : step s3 (Get t c) = Some (set_pc s3 c (wpc cr PReprobe) PMiss2)).
  { rewrite (st_reprobe s3 t c _ He G3 Hl Hr eq_refl). unfold reprobe_pc.
    change (cache_at s3 (ckey (wpc cr PReprobe))) with (cache_at s (ckey cr)). rewrite Hn. reflexivity. }
  set (s4 := set_pc s3 c (wpc cr PReprobe) PMiss2) in *.
  assert (G4 : getc s4 c = Some (wpc cr PMiss2)) by exact (getc_sp s3 c _ (wpc cr PReprobe) PMiss2 G3).
  (* 5 Miss: no marker, take over *)
  assert (S5 : step s4 (Miss t c) =
               Some (set_pc (set_evset (set_marker s4 k (Some (t, E))) (evset s ++ [false])) c (wpc cr PMiss2)
                            (PUnlock (DComp E)))).
  { rewrite (st_miss2 s4 t c _ He G4 Hl Hr eq_refl). unfold decide.
    change (marker_at s4 (ckey (wpc cr PMiss2))) with (marker_at s (ckey cr)). rewrite Hm.
    simpl. rewrite Hl. reflexivity. }
  set (s5 := set_pc (set_evset (set_marker s4 k (Some (t, E))) (evset s ++ [false])) c (wpc cr PMiss2)
                    (PUnlock (DComp E))) in *.
  assert (G5 : getc s5 c = Some (wpc cr (PUnlock (DComp E))))
    by exact (getc_sp (set_evset (set_marker s4 k (Some (t, E))) (evset s ++ [false])) c _ (wpc cr PMiss2) _ G4).
  (* 6 Rel *)
  pose proof (st_rel_comp s5 t c _ He G5 Hl Hr E eq_refl eq_refl) as S6.
  set (s6 := set_pc (set_lock s5 None) c (wpc cr (PUnlock (DComp E))) (PInvoke E)) in *.
  assert (G6 : getc s6 c = Some (wpc cr (PInvoke E)))
    by exact (getc_sp (set_lock s5 None) c _ (wpc cr (PUnlock (DComp E))) _ G5).
  (* 7 IStart *)
  pose proof (st_istart s6 t c _ He G6 Hl Hr E eq_refl) as S7.
  change (length (invs s6)) with i in S7. change (now s6) with (now s) in S7. change (invs s6) with (invs s) in S7.
  set (s7 := set_pc (set_invs s6 (invs s ++ [ir])) c (wpc cr (PInvoke E)) (PComp i E)).
  assert (G7 : getc s7 c = Some (wpc cr (PComp i E)))
    by exact (getc_sp (set_invs s6 (invs s ++ [ir])) c _ (wpc cr (PInvoke E)) _ G6).
  (* 8 IEnd ok *)
  assert (N7 : nth_error (invs s7) i = Some ir).
  { change (invs s7) with (invs s ++ [ir]). rewrite nth_error_snoc. unfold i. rewrite Nat.eqb_refl. reflexivity. }
  pose proof (st_iend_ok s7 t c _ He G7 Hl Hr i ir E N7 eq_refl eq_refl eq_refl Hc) as S8.
  change (now s7) with (now s) in S8.
  set (s8 := set_pc (set_istat s7 i ir IOk) c (wpc cr (PComp i E)) (PPublish i E)) in *.
  assert (G8 : getc s8 c = Some (wpc cr (PPublish i E)))
    by exact (getc_sp (set_istat s7 i ir IOk) c _ (wpc cr (PComp i E)) _ G7).
  (* 9 SetC *)
  pose proof (st_setc s8 t c _ He G8 Hl Hr i E eq_refl) as S9.
  set (s9 := set_pc (set_cache s8 k i) c (wpc cr (PPublish i E)) (PFinLock E (ORet i))) in *.
  assert (G9 : getc s9 c = Some (wpc cr (PFinLock E (ORet i))))
    by exact (getc_sp (set_cache s8 k i) c _ (wpc cr (PPublish i E)) _ G8).
  (* 10 Acq: set the event, remove the own marker *)
  assert (M9 : marker_at s9 k = Some (t, E)).
  { change (marker_at s9 k) with (lget None (lset None (marker s) k (Some (t, E))) k). apply lget_lset_eq. }
  assert (S10 : step s9 (Acq t c) =
                Some (set_pc (set_lock (set_marker (set_evset s9 (lset false (evset s9) E true)) k None) (Some c))
                             c (wpc cr (PFinLock E (ORet i))) (PFinUnlock (ORet i)))).
  { rewrite (st_acq_fin s9 t c _ He G9 Hl Hr E (ORet i) eq_refl eq_refl). unfold fin.
    change (marker_at (set_evset s9 (lset false (evset s9) E true)) (ckey (wpc cr (PFinLock E (ORet i)))))
      with (marker_at s9 k). rewrite M9, Nat.eqb_refl. reflexivity. }
  set (s10 := set_pc (set_lock (set_marker (set_evset s9 (lset false (evset s9) E true)) k None) (Some c))
                     c (wpc cr (PFinLock E (ORet i))) (PFinUnlock (ORet i))) in *.
  assert (G10 : getc s10 c = Some (wpc cr (PFinUnlock (ORet i))))
    by exact (getc_sp (set_lock (set_marker (set_evset s9 (lset false (evset s9) E true)) k None) (Some c))
                      c _ (wpc cr (PFinLock E (ORet i))) _ G9).
  (* 11 Rel *)
  pose proof (st_rel_fin s10 t c _ He G10 Hl Hr (ORet i) eq_refl eq_refl) as S11.
  set (s11 := set_pc (set_lock s10 None) c (wpc cr (PFinUnlock (ORet i))) (PFinish (ORet i))) in *.
  assert (G11 : getc s11 c = Some (wpc cr (PFinish (ORet i))))
    by exact (getc_sp (set_lock s10 None) c _ (wpc cr (PFinUnlock (ORet i))) _ G10).
  (* 12 Done *)
  pose proof (st_done s11 t c _ He G11 Hl Hr (ORet i) eq_refl) as S12.
  change (now s11) with (now s) in S12. simpl fst in S12. simpl snd in S12.
  set (s12 := set_pc s11 c (wpc cr (PFinish (ORet i))) (PDone (ORet i))) in *.
  exists s12. split.
  { erewrite run_step by exact S1. erewrite run_step by exact S2. erewrite run_step by exact S3.
    erewrite run_step by exact S4. erewrite run_step by exact S5. erewrite run_step by exact S6.
    erewrite run_step by exact S7. erewrite run_step by exact S8. erewrite run_step by exact S9.
    erewrite run_step by exact S10. erewrite run_step by exact S11. erewrite run_step by exact S12. reflexivity. }
  split. { change (cache_at s12 (ckey cr)) with (lget None (lset None (cache s) k (Some i)) k). apply lget_lset_eq. }
  split. { intros k' Hne. change (cache_at s12 k') with (lget None (lset None (cache s) k (Some i)) k').
           apply lget_lset_neq. auto. }
  split. { change (invs s12) with (lset dummyI (invs s ++ [ir]) i (mkI (ikey ir) (iloop ir) (icaller ir) IOk)).
           unfold i, ir. simpl. clear. induction (invs s) as [|x r IH]; simpl; [reflexivity|]. rewrite IH. reflexivity. }
  split. { change (marker_at s12 (ckey cr)) with (lget None (lset None (lset None (marker s) k (Some (t, E))) k None) k).
           apply lget_lset_eq. }
  split. { intros k' Hne.
           change (marker_at s12 k') with (lget None (lset None (lset None (marker s) k (Some (t, E))) k None) k').
           rewrite !lget_lset_neq by auto. reflexivity. }
  split. { exact (getc_sp s11 c _ (wpc cr (PFinish (ORet i))) _ G11). }
  repeat split; auto.
  - intros c' Hne. unfold getc.
    assert (O : forall st cr0 cr1 p, getc st c = Some cr0 ->
                nth_error (callers (set_pc st c cr1 p)) c' = nth_error (callers st) c').
    { intros st cr0 cr1 p Hx. exact (getc_sp_other st c cr0 cr1 p c' Hx Hne). }
    unfold s12. erewrite O by exact G11.
    unfold s11. erewrite O by exact G10. cbn [callers set_lock set_marker set_evset set_invs set_cache set_istat].
    unfold s10. erewrite O by exact G9. cbn [callers set_lock set_marker set_evset set_invs set_cache set_istat].
    unfold s9. erewrite O by exact G8. cbn [callers set_lock set_marker set_evset set_invs set_cache set_istat].
    unfold s8. erewrite O by exact G7. cbn [callers set_lock set_marker set_evset set_invs set_cache set_istat].
    unfold s7. erewrite O by exact G6. cbn [callers set_lock set_marker set_evset set_invs set_cache set_istat].
    unfold s6. erewrite O by exact G5. cbn [callers set_lock set_marker set_evset set_invs set_cache set_istat].
    unfold s5. erewrite O by exact G4. cbn [callers set_lock set_marker set_evset set_invs set_cache set_istat].
    unfold s4. erewrite O by exact G3.
    unfold s3. erewrite O by exact G2. cbn [callers set_lock set_marker set_evset set_invs set_cache set_istat].
    unfold s2. erewrite O by exact G1.
    unfold s1. erewrite O by exact Hg. reflexivity.
  - unfold s12. erewrite len_sp by exact G11.
    unfold s11. erewrite len_sp by exact G10. cbn [callers set_lock set_marker set_evset set_invs set_cache set_istat].
    unfold s10. erewrite len_sp by exact G9. cbn [callers set_lock set_marker set_evset set_invs set_cache set_istat].
    unfold s9. erewrite len_sp by exact G8. cbn [callers set_lock set_marker set_evset set_invs set_cache set_istat].
    unfold s8. erewrite len_sp by exact G7. cbn [callers set_lock set_marker set_evset set_invs set_cache set_istat].
    unfold s7. erewrite len_sp by exact G6. cbn [callers set_lock set_marker set_evset set_invs set_cache set_istat].
    unfold s6. erewrite len_sp by exact G5. cbn [callers set_lock set_marker set_evset set_invs set_cache set_istat].
    unfold s5. erewrite len_sp by exact G4. cbn [callers set_lock set_marker set_evset set_invs set_cache set_istat].
    unfold s4. erewrite len_sp by exact G3.
    unfold s3. erewrite len_sp by exact G2. cbn [callers set_lock set_marker set_evset set_invs set_cache set_istat].
    unfold s2. erewrite len_sp by exact G1.
    unfold s1. erewrite len_sp by exact Hg. reflexivity.
Qed.
End OneMiss.

(* 1. one sequential call from ANY idle state: it invokes the wrapped function iff its key is not in the cache,
      stores the result on success and returns the stored value *)
Lemma seq_call_cache_spec s t c cr :
  ended s = false -> lock s = None -> lp s t = LRun -> getc s c = Some cr -> cloop cr = t ->
  cpc cr = PStart -> ccanc cr = false -> marker_at s (ckey cr) = None ->
  match cache_at s (ckey cr) with
  | Some v =>
      (exists s', run s (hit_script' t c v (now s)) = Some s'
         /\ cache s' = cache s /\ invs s' = invs s /\ marker s' = marker s /\ evset s' = evset s
         /\ getc s' c = Some (wpc cr (PDone (ORet v))) /\ frame s s' c)
      /\ (exists s1, step s (Get t c) = Some s1 /\ getc s1 c = Some (wpc cr (PFinish (ORet v)))
          /\ forall e s2, step s1 e = Some s2 ->
               match e with
               | Get _ c' | Miss _ c' | Acq _ c' | Rel _ c' | SetC _ c' | XSub _ c' | IStart _ c' _
               | Cancel c' _ | Proxy _ c' _ => c' <> c
               | Done c' k p tk => c' = c -> k = 0 /\ p = v /\ tk = now s
               | _ => True
               end)
  | None =>
      exists s', run s (miss_script' t c (length (invs s)) (now s)) = Some s'
        /\ cache_at s' (ckey cr) = Some (length (invs s))
        /\ (forall k', k' <> ckey cr -> cache_at s' k' = cache_at s k')
        /\ invs s' = invs s ++ [mkI (ckey cr) (cloop cr) c IOk]
        /\ marker_at s' (ckey cr) = None
        /\ (forall k', k' <> ckey cr -> marker_at s' k' = marker_at s k')
        /\ getc s' c = Some (wpc cr (PDone (ORet (length (invs s))))) /\ frame s s' c
  end.
Proof.
  intros He Hk Hr Hg Hl Hp Hc Hm. destruct (cache_at s (ckey cr)) as [v|] eqn:Hv.
  - split; [eapply seq_hit; eauto|eapply seq_hit_forced; eauto].
  - eapply seq_miss; eauto.
Qed.

(* ---- a whole sequential run: call j uses key (nth j ks) ---- *)
Fixpoint sfind (st : list (nat * nat)) (k : nat) : option nat :=
  match st with
  | [] => None
  | (a, b) :: r => if a =? k then Some b else sfind r k
  end.

(* st: key id -> invocation id whose result is cached; nx: next invocation id; j: next caller *)
Fixpoint seq_go (st : list (nat * nat)) (nx j : nat) (ks : list nat) : list ev * list (nat * nat) :=
  match ks with
  | [] => ([], [])
  | k :: r =>
      match sfind st k with
      | Some v => let (tr, os) := seq_go st nx (S j) r in (hit_script j v ++ tr, (0, v) :: os)
      | None => let (tr, os) := seq_go ((k, nx) :: st) (S nx) (S j) r in (miss_script j nx ++ tr, (1, nx) :: os)
      end
  end.
Definition seq_trace (ks : list nat) : list ev := fst (seq_go [] 0 0 ks).
Definition seq_outcomes (ks : list nat) : list (nat * nat) := snd (seq_go [] 0 0 ks).

Record G (s : state) (st : list (nat * nat)) (nx j : nat) (ks : list nat) : Prop := mkG {
  g_end : ended s = false;
  g_lock : lock s = None;
  g_loops : loops s = [LRun];
  g_now : now s = 0%N;
  g_mark : forall k, marker_at s k = None;
  g_cache : forall k, cache_at s k = sfind st k;
  g_inv : length (invs s) = nx;
  g_done : forall c, c < j -> exists cr, getc s c = Some cr /\ is_done (cpc cr) = true;
  g_todo : forall n k, nth_error ks n = Some k -> getc s (j + n) = Some (mkC 0 k PStart false);
  g_len : length (callers s) = j + length ks
}.

Lemma seq_go_run : forall ks st nx j s, G s st nx j ks ->
  exists s' st' nx', run s (fst (seq_go st nx j ks)) = Some s' /\ G s' st' nx' (j + length ks) [].
Proof.
  induction ks as [|k r IH]; intros st nx j s HG.
  - exists s, st, nx. simpl. split; auto. rewrite Nat.add_0_r. exact HG.
  - destruct HG as [He Hk Hlo Hno Hma Hca Hin Hdo Hto Hle].
    pose proof (Hto 0 k eq_refl) as Hg. rewrite Nat.add_0_r in Hg.
    assert (Hr : lp s 0 = LRun) by (unfold lp; rewrite Hlo; reflexivity).
    pose proof (seq_call_cache_spec s 0 j _ He Hk Hr Hg eq_refl eq_refl eq_refl (Hma _)) as Sp.
    simpl ckey in Sp. rewrite Hca in Sp. simpl seq_go.
    destruct (sfind st k) as [v|] eqn:Hf.
    + destruct Sp as [(s1 & Hrun & Hc1 & Hi1 & Hm1 & _ & Hg1 & (F1 & F2 & F3 & F4 & F5 & F6)) _].
      assert (HG1 : G s1 st nx (S j) r).
      { constructor; auto; try congruence.
        - intros k'. unfold marker_at. rewrite Hm1. apply Hma.
        - intros k'. unfold cache_at. rewrite Hc1. apply Hca.
        - intros c Hc. destruct (Nat.eq_dec c j) as [->|Hn]; [eexists; split; [exact Hg1|reflexivity]|].
          rewrite F5 by auto. apply Hdo. lia.
        - intros n0 k' Hn. rewrite F5 by lia. replace (S j + n0) with (j + S n0) by lia. apply Hto. exact Hn.
        - rewrite F6, Hle. simpl. lia. }
      destruct (IH _ _ _ _ HG1) as (s' & st' & nx' & Hrun' & HG').
      destruct (seq_go st nx (S j) r) as [tr os]. simpl fst in Hrun'.
      exists s', st', nx'. split.
      * change (run s (hit_script j v ++ tr) = Some s'). unfold hit_script. rewrite Hno in Hrun. rewrite run_app, Hrun. exact Hrun'.
      * simpl length. replace (j + S (length r)) with (S j + length r) by lia. exact HG'.
    + destruct Sp as (s1 & Hrun & Hc1 & Hc2 & Hi1 & Hm1 & Hm2 & Hg1 & (F1 & F2 & F3 & F4 & F5 & F6)).
      assert (HG1 : G s1 ((k, nx) :: st) (S nx) (S j) r).
      { constructor; auto; try congruence.
        - intros k'. destruct (Nat.eq_dec k' k) as [->|Hn]; [exact Hm1|]. rewrite Hm2 by auto. apply Hma.
        - intros k'. simpl. destruct (Nat.eqb_spec k k') as [<-|Hn]; [rewrite Hc1; congruence|].
          rewrite Hc2 by auto. apply Hca.
        - rewrite Hi1, app_length. simpl. lia.
        - intros c Hc. destruct (Nat.eq_dec c j) as [->|Hn]; [eexists; split; [exact Hg1|reflexivity]|].
          rewrite F5 by auto. apply Hdo. lia.
        - intros n0 k' Hn. rewrite F5 by lia. replace (S j + n0) with (j + S n0) by lia. apply Hto. exact Hn.
        - rewrite F6, Hle. simpl. lia. }
      destruct (IH _ _ _ _ HG1) as (s' & st' & nx' & Hrun' & HG').
      destruct (seq_go ((k, nx) :: st) (S nx) (S j) r) as [tr os]. simpl fst in Hrun'.
      exists s', st', nx'. split.
      * change (run s (miss_script j nx ++ tr) = Some s'). unfold miss_script. rewrite Hno, Hin in Hrun. rewrite run_app, Hrun. exact Hrun'.
      * simpl length. replace (j + S (length r)) with (S j + length r) by lia. exact HG'.
Qed.

Lemma G_init ks : G (init 1 (map (fun k => (0, k)) ks)) [] 0 0 ks.
Proof.
  constructor.
  - reflexivity.
  - reflexivity.
  - reflexivity.
  - reflexivity.
  - intros k. unfold marker_at. simpl. destruct k; reflexivity.
  - intros k. unfold cache_at. simpl. destruct k; reflexivity.
  - reflexivity.
  - intros c Hc. lia.
  - intros n0 k Hn. unfold getc. simpl. rewrite map_map, nth_error_map, Hn. reflexivity.
  - simpl. rewrite !map_length. reflexivity.
Qed.

Lemma forallb_pointwise {A} (f : A -> bool) l :
  (forall n x, nth_error l n = Some x -> f x = true) -> forallb f l = true.
Proof.
  intros H. apply forallb_forall. intros x Hin. apply In_nth_error in Hin as (n0 & Hn). eauto.
Qed.

(* 2. the model accepts the sequential run *)
Lemma seq_accepts : forall ks,
  accepts 1 (map (fun k => (0, k)) ks) (seq_trace ks ++ [LoopEv 0 0; End 0]) = true.
Proof.
  intros ks. unfold accepts, seq_trace.
  destruct (seq_go_run ks [] 0 0 _ (G_init ks)) as (s' & st' & nx' & Hrun & HG).
  rewrite run_app, Hrun. destruct HG as [He Hk Hlo Hno Hma Hca Hin Hdo Hto Hle].
  assert (S1 : step s' (LoopEv 0 0) =
               Some (set_invs (set_loops s' (lset LClosed (loops s') 0 LStop)) (map (abandon 0) (invs s')))).
  { unfold step. rewrite He. unfold lp. rewrite Hlo. simpl lget. unfold guard.
    replace (forallb _ (callers s')) with true; [reflexivity|]. symmetry.
    apply forallb_pointwise. intros n0 x Hn. unfold on_loop.
    destruct (Hdo n0) as (cr & Hg & Hd).
    { pose proof (nth_error_Some_lt _ _ _ Hn). simpl in Hle. lia. }
    unfold getc in Hg. rewrite Hg in Hn. injection Hn as <-.
    destruct (cloop cr =? 0); auto. destruct (cpc cr); simpl in *; congruence. }
  erewrite run_step by exact S1. simpl run. unfold step. simpl ended. rewrite He. simpl. rewrite Hlo.
  reflexivity.
Qed.

(* ---- 3. the same calls through C14's sequential cache (Keys.v), retaining user mapping ---- *)
Definition K (k : nat) : Keys.key := Keys.eval_key Keys.spec_expr (Keys.mksig [k] []).
Definition kcall (k : nat) : Keys.ev := Keys.Call (Keys.mksig [k] []).
Definition kexec := Keys.exec Keys.spec_expr Keys.IfNotNone (Keys.KUser None) false.
Definition krun (ks : list nat) : list Keys.obs :=
  Keys.run Keys.spec_expr Keys.IfNotNone (Keys.KUser None) false (map kcall ks).
(* tags (= call indices) of the calls that invoked the wrapped function, in order: the v-th entry is the call
   that performed invocation number v *)
Definition miss_tags (obs : list Keys.obs) : list nat :=
  map (fun o => snd (fst o)) (filter (fun o => fst (fst o) =? 1) obs).

Lemma K_eqb k k' : Keys.key_eqb (K k) (K k') = (k =? k').
Proof. unfold K. cbv -[Nat.eqb]. destruct (k =? k'); reflexivity. Qed.

Lemma kfind_kremove_other q q' st : Keys.key_eqb q q' = false -> Keys.kfind q' (Keys.kremove q st) = Keys.kfind q' st.
Proof.
  intros Hne. induction st as [|a r IH]; simpl; auto.
  destruct (Keys.key_eqb (fst a) q) eqn:E1; simpl.
  - assert (E2 : Keys.key_eqb (fst a) q' = false).
    { destruct (Keys.key_eqb (fst a) q') eqn:E2; auto. apply KeysInv.key_eqb_sym in E1.
      rewrite (KeysInv.key_eqb_trans _ _ _ E1 E2) in Hne. discriminate. }
    unfold Keys.kfind in *. simpl. rewrite E2. exact IH.
  - unfold Keys.kfind in *. simpl. destruct (Keys.key_eqb (fst a) q'); auto.
Qed.

Lemma kfind_cons_kremove en q' st :
  Keys.kfind q' (en :: Keys.kremove (fst en) st) = if Keys.key_eqb (fst en) q' then Some en else Keys.kfind q' st.
Proof.
  unfold Keys.kfind at 1. simpl. destruct (Keys.key_eqb (fst en) q') eqn:E; auto.
  apply kfind_kremove_other. exact E.
Qed.

Lemma kstep_hit ust pv cnt0 k en : Keys.kfind (K k) ust = Some en ->
  Keys.step Keys.spec_expr Keys.IfNotNone (Keys.KUser None) false (kcall k) (Keys.mkcst ust pv cnt0)
  = (Keys.mkcst (Keys.touch en ust) pv (S cnt0), (0, snd en, map snd (Keys.touch en ust))).
Proof.
  intros H. unfold Keys.step, kcall, Keys.active, Keys.set_active, Keys.use_user, Keys.tick, Keys.content.
  simpl Keys.user. fold (K k). rewrite H. reflexivity.
Qed.

Lemma kstep_miss ust pv cnt0 k : Keys.kfind (K k) ust = None ->
  Keys.step Keys.spec_expr Keys.IfNotNone (Keys.KUser None) false (kcall k) (Keys.mkcst ust pv cnt0)
  = (Keys.mkcst ((K k, cnt0) :: Keys.kremove (K k) ust) pv (S cnt0),
     (1, cnt0, map snd ((K k, cnt0) :: Keys.kremove (K k) ust))).
Proof.
  intros H. unfold Keys.step, kcall, Keys.active, Keys.set_active, Keys.use_user, Keys.tick, Keys.content.
  simpl Keys.user. fold (K k). rewrite H. reflexivity.
Qed.

Definition Rel (st : list (nat * nat)) (ust : Keys.store) (F : list nat) : Prop :=
  forall k, match sfind st k with
            | None => Keys.kfind (K k) ust = None
            | Some v => exists en, Keys.kfind (K k) ust = Some en /\ nth_error F v = Some (snd en)
            end.

Lemma kexec_cons x r st : kexec (x :: r) st =
  (let '(st1, o) := Keys.step Keys.spec_expr Keys.IfNotNone (Keys.KUser None) false x st in
   let '(os, st2) := kexec r st1 in (o :: os, st2)).
Proof. reflexivity. Qed.

Lemma seq_refines_gen : forall ks st nx j ust pv cnt0 F, length F = nx -> Rel st ust F ->
  let os := snd (seq_go st nx j ks) in
  let obs := fst (kexec (map kcall ks) (Keys.mkcst ust pv cnt0)) in
  map fst os = map (fun o => fst (fst o)) obs
  /\ Forall2 (fun o ob => nth_error (F ++ miss_tags obs) (snd o) = Some (snd (fst ob))) os obs.
Proof.
  induction ks as [|k r IH]; intros st nx j ust pv cnt0 F HF HR; cbv zeta.
  - split; [reflexivity|constructor].
  - pose proof (HR k) as Hk. cbn [map seq_go]. rewrite kexec_cons. destruct (sfind st k) as [v|] eqn:Hs.
    + destruct Hk as (en & Hf & Hn). rewrite (kstep_hit _ _ _ _ _ Hf).
      assert (HR' : Rel st (Keys.touch en ust) F).
      { intros k'. unfold Keys.touch. rewrite kfind_cons_kremove.
        destruct (Keys.key_eqb (fst en) (K k')) eqn:E; [|apply HR].
        assert (k = k').
        { apply KeysInv.kfind_Some in Hf as [_ Hq]. apply KeysInv.key_eqb_sym in Hq.
          pose proof (KeysInv.key_eqb_trans _ _ _ Hq E) as Hx. rewrite K_eqb in Hx. apply Nat.eqb_eq. exact Hx. }
        subst k'. rewrite Hs. eauto. }
      specialize (IH st nx (S j) (Keys.touch en ust) pv (S cnt0) F HF HR').
      cbv zeta in IH. destruct (seq_go st nx (S j) r) as [tr os]. destruct (kexec (map kcall r) _) as [obs st2].
      simpl in *. destruct IH as [IH1 IH2]. split; [f_equal; exact IH1|].
      constructor; [|exact IH2]. simpl. rewrite nth_error_app1; auto. apply nth_error_Some. congruence.
    + rewrite (kstep_miss _ _ _ _ Hk).
      assert (HR' : Rel ((k, nx) :: st) ((K k, cnt0) :: Keys.kremove (K k) ust) (F ++ [cnt0])).
      { intros k'. simpl sfind.
        assert (X : Keys.kfind (K k') ((K k, cnt0) :: Keys.kremove (K k) ust) =
                    if k =? k' then Some (K k, cnt0) else Keys.kfind (K k') ust).
        { rewrite <- K_eqb. apply (kfind_cons_kremove (K k, cnt0)). }
        rewrite X. destruct (k =? k').
        - eexists. split; [reflexivity|]. subst nx. rewrite nth_error_app2 by lia. rewrite Nat.sub_diag. reflexivity.
        - pose proof (HR k') as Hk'. destruct (sfind st k') as [v'|]; auto.
          destruct Hk' as (en' & H1 & H2). exists en'. split; auto. rewrite nth_error_app1; auto.
          apply nth_error_Some. congruence. }
      assert (HF' : length (F ++ [cnt0]) = S nx) by (rewrite app_length; simpl; lia).
      specialize (IH ((k, nx) :: st) (S nx) (S j) _ pv (S cnt0) _ HF' HR').
      cbv zeta in IH. destruct (seq_go ((k, nx) :: st) (S nx) (S j) r) as [tr os].
      destruct (kexec (map kcall r) _) as [obs st2].
      simpl in *. destruct IH as [IH1 IH2]. split; [f_equal; exact IH1|].
      unfold miss_tags in *. simpl. rewrite <- app_assoc in IH2. simpl in IH2.
      constructor; [|exact IH2]. simpl. rewrite nth_error_app2 by lia. rewrite HF, Nat.sub_diag. reflexivity.
Qed.

Lemma krun_eq ks : krun ks = fst (kexec (map kcall ks) (Keys.mkcst [] [] 0)).
Proof. reflexivity. Qed.

Lemma Rel_nil : Rel [] [] [].
Proof. intros k. reflexivity. Qed.

(* 3a. the same calls invoke the wrapped function *)
Lemma seq_call_refines_keys : forall ks,
  map fst (seq_outcomes ks) =
  map (fun o => fst (fst o))
      (Keys.run Keys.spec_expr Keys.IfNotNone (Keys.KUser None) false
                (map (fun k => Keys.Call (Keys.mksig [k] [])) ks)).
Proof. intros ks. exact (proj1 (seq_refines_gen ks [] 0 0 [] [] 0 [] eq_refl Rel_nil)). Qed.

(* 3b. the returned values denote the same invocation: Cache.v returns the id v of an invocation, Keys.v the
   index t of the call that performed it, and the v-th invocation of the run was performed by call t *)
Lemma seq_same_invocation : forall ks,
  Forall2 (fun o ob => nth_error (miss_tags (krun ks)) (snd o) = Some (snd (fst ob))) (seq_outcomes ks) (krun ks).
Proof. intros ks. exact (proj2 (seq_refines_gen ks [] 0 0 [] [] 0 [] eq_refl Rel_nil)). Qed.

Lemma kstep_cnt x st : 
  let '(st1, o) := Keys.step Keys.spec_expr Keys.IfNotNone (Keys.KUser None) false x st in
  Keys.cnt st1 = S (Keys.cnt st) /\ (fst (fst o) = 1 -> snd (fst o) = Keys.cnt st).
Proof.
  destruct x as [sg|v]; simpl.
  - destruct (Keys.kfind _ _); simpl; split; auto; discriminate.
  - split; auto; discriminate.
Qed.

Lemma miss_tags_fresh : forall evs st,
  Forall (fun t => Keys.cnt st <= t) (miss_tags (fst (kexec evs st))) /\ NoDup (miss_tags (fst (kexec evs st))).
Proof.
  induction evs as [|x r IH]; intros st.
  - split; constructor.
  - rewrite kexec_cons. pose proof (kstep_cnt x st) as Hs.
    destruct (Keys.step _ _ _ _ x st) as [st1 o]. destruct Hs as [Hc Ho].
    destruct (IH st1) as [IH1 IH2]. destruct (kexec r st1) as [os st2]. simpl fst in *.
    unfold miss_tags in *. simpl. destruct (fst (fst o) =? 1) eqn:E.
    + apply Nat.eqb_eq in E. simpl. rewrite (Ho E). split.
      * constructor; [lia|]. eapply Forall_impl; [|exact IH1]. simpl. intros; lia.
      * constructor; auto. intros Hin. rewrite Forall_forall in IH1. apply IH1 in Hin. lia.
    + split; auto. eapply Forall_impl; [|exact IH1]. simpl. intros; lia.
Qed.

Lemma Forall2_nth {A B} (P : A -> B -> Prop) l1 l2 : Forall2 P l1 l2 ->
  forall n a b, nth_error l1 n = Some a -> nth_error l2 n = Some b -> P a b.
Proof.
  induction 1; intros [|n] a b H1 H2; simpl in *; try discriminate.
  - injection H1 as <-. injection H2 as <-. assumption.
  - eauto.
Qed.

(* 3c. hence the sharing pattern of the returned values is the same in both models *)
Lemma seq_same_sharing : forall ks j j' o o' ob ob',
  nth_error (seq_outcomes ks) j = Some o -> nth_error (seq_outcomes ks) j' = Some o' ->
  nth_error (krun ks) j = Some ob -> nth_error (krun ks) j' = Some ob' ->
  (snd o = snd o' <-> snd (fst ob) = snd (fst ob')).
Proof.
  intros ks j j' o o' ob ob' H1 H2 H3 H4.
  pose proof (Forall2_nth _ _ _ (seq_same_invocation ks) _ _ _ H1 H3) as A.
  pose proof (Forall2_nth _ _ _ (seq_same_invocation ks) _ _ _ H2 H4) as B. simpl in A, B.
  split; intros E.
  - rewrite E in A. congruence.
  - destruct (miss_tags_fresh (map kcall ks) (Keys.mkcst [] [] 0)) as [_ ND]. rewrite <- krun_eq in ND.
    rewrite NoDup_nth_error in ND. apply ND; [apply nth_error_Some; congruence|]. congruence.
Qed.

(* ---- 4. example ---- *)
Example seq_example :
  seq_outcomes [3; 5; 3; 5; 7] = [(1,0); (1,1); (0,0); (0,1); (1,2)]
  /\ accepts 1 (map (fun k => (0, k)) [3; 5; 3; 5; 7]) (seq_trace [3; 5; 3; 5; 7] ++ [LoopEv 0 0; End 0]) = true
  /\ map (fun o => (fst (fst o), snd (fst o))) (krun [3; 5; 3; 5; 7]) = [(1,0); (1,1); (0,0); (0,1); (1,4)]
  /\ miss_tags (krun [3; 5; 3; 5; 7]) = [0; 1; 4].
Proof. repeat split; vm_compute; reflexivity. Qed.

(* ---- the decorator's own dict (cache=None, Keys.KDefault): the private store plays the role of the user mapping ---- *)
Definition kexec_default := Keys.exec Keys.spec_expr Keys.IfNotNone Keys.KDefault false.
Definition krun_default (ks : list nat) : list Keys.obs :=
  Keys.run Keys.spec_expr Keys.IfNotNone Keys.KDefault false (map kcall ks).

(* on event lists made of calls only, the (invocations, tag) components of the two runs coincide
   (the third component, the content of the USER mapping, of course differs) *)
Lemma kexec_default_same : forall ks a u1 p2 c,
  map fst (fst (kexec_default (map kcall ks) (Keys.mkcst u1 a c)))
  = map fst (fst (kexec (map kcall ks) (Keys.mkcst a p2 c))).
Proof.
  induction ks as [|k r IH]; intros a u1 p2 c; [reflexivity|].
  assert (C1 : forall x r0 st, kexec_default (x :: r0) st =
            (let '(st1, o) := Keys.step Keys.spec_expr Keys.IfNotNone Keys.KDefault false x st in
             let '(os, st2) := kexec_default r0 st1 in (o :: os, st2))) by reflexivity.
  change (map kcall (k :: r)) with (Keys.Call (Keys.mksig [k] []) :: map kcall r). rewrite C1, kexec_cons.
  unfold Keys.step, Keys.active, Keys.set_active, Keys.use_user, Keys.tick, Keys.content.
  simpl Keys.user. simpl Keys.priv. simpl Keys.cnt.
  destruct (Keys.kfind (Keys.eval_key Keys.spec_expr (Keys.mksig [k] [])) a) as [en|].
  - specialize (IH (Keys.touch en a) u1 p2 (S c)).
    destruct (kexec_default (map kcall r) _) as [o1 s1].
    destruct (kexec (map kcall r) _) as [o2 s2]. simpl in *. f_equal. exact IH.
  - specialize (IH (Keys.insert None (Keys.eval_key Keys.spec_expr (Keys.mksig [k] [])) c a) u1 p2 (S c)).
    simpl Keys.cap_of.
    destruct (kexec_default (map kcall r) _) as [o1 s1].
    destruct (kexec (map kcall r) _) as [o2 s2]. simpl in *. f_equal. exact IH.
Qed.

Lemma krun_default_same ks : map fst (krun_default ks) = map fst (krun ks).
Proof. exact (kexec_default_same ks [] [] [] 0). Qed.

Lemma miss_tags_ext : forall obs1 obs2 : list Keys.obs, map fst obs1 = map fst obs2 -> miss_tags obs1 = miss_tags obs2.
Proof.
  induction obs1 as [|a r IH]; intros [|b r2] H; simpl in H; try discriminate; auto.
  injection H as Hab Hr. specialize (IH _ Hr). unfold miss_tags in *. simpl. rewrite Hab.
  destruct (fst (fst b) =? 1); simpl; rewrite IH, ?Hab; reflexivity.
Qed.

Lemma seq_call_refines_keys_default : forall ks,
  map fst (seq_outcomes ks) =
  map (fun o => fst (fst o))
      (Keys.run Keys.spec_expr Keys.IfNotNone Keys.KDefault false
                (map (fun k => Keys.Call (Keys.mksig [k] [])) ks)).
Proof.
  intros ks. rewrite seq_call_refines_keys.
  change (map (fun o => fst (fst o)) (krun ks) = map (fun o => fst (fst o)) (krun_default ks)).
  rewrite <- !(map_map fst fst). rewrite krun_default_same. reflexivity.
Qed.

Lemma seq_same_invocation_default : forall ks,
  Forall2 (fun o ob => nth_error (miss_tags (krun_default ks)) (snd o) = Some (snd (fst ob)))
          (seq_outcomes ks) (krun_default ks).
Proof.
  intros ks. rewrite (miss_tags_ext _ _ (krun_default_same ks)).
  pose proof (seq_same_invocation ks) as H. pose proof (krun_default_same ks) as E.
  revert H E. generalize (miss_tags (krun ks)) as mt. generalize (krun_default ks) as od.
  generalize (krun ks) as ou. generalize (seq_outcomes ks) as os.
  induction os as [|o os IH]; intros ou od mt H E; inversion H; subst.
  - destruct od; [constructor|discriminate].
  - destruct od as [|b od]; [discriminate|]. simpl in E. injection E as Eb Er.
    constructor; [rewrite Eb; assumption|eapply IH; eauto].
Qed.

Example seq_example_default :
  map (fun o => (fst (fst o), snd (fst o))) (krun_default [3; 5; 3; 5; 7]) = [(1,0); (1,1); (0,0); (0,1); (1,4)].
Proof. vm_compute. reflexivity. Qed.
