(* BridgeInv.v — safety of the iterator bridges (model Bridge.v): the inductive
   invariant over ALL schedules, and from it: the consumer receives a prefix of
   the source / exactly the delivered elements and the source's own outcome, the
   worker has ended when the iteration finishes, the loop is never blocked
   while the worker is inside the source. *)
From Coq Require Import List Arith Bool Lia.
Import ListNotations.
Require Import Aiuti.Bridge.

(* ---- the source ------------------------------------------------------------ *)

Lemma pull_lt c p :
  p < delivered c -> exists x, pull c p = PElem x /\ nth_error (c_src c) p = Some x.
Proof.
  unfold delivered, pull, fails_at. intros H.
  destruct (c_fail c) as [k|].
  - destruct (k <=? length (c_src c)) eqn:E.
    + apply Nat.leb_le in E.
      assert (F : Nat.eqb k p = false) by (apply Nat.eqb_neq; lia). rewrite F.
      destruct (nth_error (c_src c) p) eqn:N; [eauto|]. apply nth_error_None in N. lia.
    + apply Nat.leb_gt in E.
      assert (F : Nat.eqb k p = false) by (apply Nat.eqb_neq; lia). rewrite F.
      destruct (nth_error (c_src c) p) eqn:N; [eauto|]. apply nth_error_None in N. lia.
  - destruct (nth_error (c_src c) p) eqn:N; [eauto|]. apply nth_error_None in N. lia.
Qed.

Lemma pull_at_delivered c :
  pull c (delivered c) = match expected_out c with Raised e => PFail e | Stop => PStop end.
Proof.
  unfold delivered, pull, fails_at, expected_out.
  destruct (c_fail c) as [k|].
  - destruct (k <=? length (c_src c)) eqn:E.
    + now rewrite Nat.eqb_refl.
    + apply Nat.leb_gt in E.
      assert (F : Nat.eqb k (length (c_src c)) = false) by (apply Nat.eqb_neq; lia). rewrite F.
      assert (N : nth_error (c_src c) (length (c_src c)) = None) by (apply nth_error_None; lia).
      now rewrite N.
  - assert (N : nth_error (c_src c) (length (c_src c)) = None) by (apply nth_error_None; lia).
    now rewrite N.
Qed.

Lemma pull_elem_nth c p x : pull c p = PElem x -> nth_error (c_src c) p = Some x.
Proof.
  unfold pull. destruct (fails_at c p); [discriminate|].
  destruct (nth_error (c_src c) p); [|discriminate]. now intros [= ->].
Qed.

Lemma pull_elem_lt c p x : p <= delivered c -> pull c p = PElem x -> p < delivered c.
Proof.
  intros L H. destruct (Nat.eq_dec p (delivered c)) as [->|]; [|lia].
  rewrite pull_at_delivered in H. destruct (expected_out c); discriminate.
Qed.

Lemma pull_end_ge c p : (forall x, pull c p <> PElem x) -> delivered c <= p.
Proof.
  intros H. destruct (Nat.le_gt_cases (delivered c) p) as [|L]; [assumption|].
  destruct (pull_lt c p L) as (x & E & _). now elim (H x).
Qed.

Lemma pull_stop_out c : pull c (delivered c) = PStop -> expected_out c = Stop.
Proof. rewrite pull_at_delivered. destruct (expected_out c); [reflexivity|discriminate]. Qed.

Lemma pull_fail_out c e : pull c (delivered c) = PFail e -> expected_out c = Raised e /\ e = c_exc c.
Proof.
  intros H. assert (H' := H). rewrite pull_at_delivered in H.
  destruct (expected_out c) eqn:E; [discriminate|]. injection H as ->. split; [reflexivity|].
  unfold pull in H'. destruct (fails_at c (delivered c)); [now injection H'|].
  destruct (nth_error (c_src c) (delivered c)); discriminate.
Qed.

Lemma delivered_le c : delivered c <= length (c_src c).
Proof.
  unfold delivered. destruct (c_fail c) as [k|]; [|lia].
  destruct (k <=? length (c_src c)) eqn:E; [apply Nat.leb_le in E|]; lia.
Qed.

(* ---- lists ------------------------------------------------------------------- *)

Lemma firstn_S_nth {A} (l : list A) p x :
  nth_error l p = Some x -> firstn (S p) l = firstn p l ++ [x].
Proof.
  revert p; induction l as [|a l IH]; intros [|p] H; simpl in *; try discriminate.
  - now injection H as ->.
  - f_equal. now apply IH.
Qed.

Lemma prefix_items a X b pd :
  map IElem a ++ X = map IElem b ++ pd -> (forall i, In i pd -> i = IDone) ->
  a = firstn (length a) b.
Proof.
  revert b; induction a as [|x a IH]; intros b H Hpd; [reflexivity|].
  destruct b as [|y b]; simpl in H.
  - destruct pd as [|i pd]; [discriminate|]. injection H as H _.
    specialize (Hpd i (or_introl eq_refl)). congruence.
  - injection H as -> H. simpl. f_equal. eapply IH; eauto.
Qed.

Lemma done_split a r b :
  map IElem a ++ IDone :: r = map IElem b ++ [IDone] -> a = b /\ r = [].
Proof.
  revert b; induction a as [|x a IH]; intros [|y b] H; simpl in H.
  - injection H as ->. auto.
  - discriminate.
  - injection H as H _. discriminate.
  - injection H as -> H. destruct (IH _ H) as [-> ->]. auto.
Qed.

Lemma map_IElem_inj a b : map IElem a = map IElem b -> a = b.
Proof.
  revert b; induction a as [|x a IH]; intros [|y b] H; simpl in H; try discriminate; [reflexivity|].
  injection H as -> H. f_equal. now apply IH.
Qed.

Lemma no_done a r b : map IElem a ++ IDone :: r = map IElem b -> False.
Proof.
  intros H. assert (I : In IDone (map IElem b)) by (rewrite <- H; apply in_or_app; right; now left).
  apply in_map_iff in I as (x & E & _). discriminate.
Qed.

(* ---- the invariant (threaded bridges) ----------------------------------------- *)

Definition cdone (k : cstat) : list item :=
  match k with CAwait | CJoin _ | CDone _ => [IDone] | _ => [] end.
Definition puts (l : list cb) : list item :=
  flat_map (fun x => match x with CbPut it => [it] | CbFut => [] end) l.
Definition pend (w : wpc) : list item := match w with WPut it => [it] | _ => [] end.
Definition pdone (p : pstat) : list item := match p with PRunning => [] | _ => [IDone] end.

(* everything the consumer has been handed or that is still in flight, in order ... *)
Definition chanL (s : state) : list item :=
  map IElem (consumed s) ++ cdone (cst s) ++ queue s ++ puts (ready s) ++ pend (wp s).
(* ... is exactly what the worker has pulled so far, closed by the sentinel once the source ended *)
Definition chanR (c : cfg) (s : state) : list item :=
  map IElem (firstn (pos s) (c_src c)) ++ pdone (pst s).

Definition wp_ok (c : cfg) (s : state) : Prop :=
  match wp s with
  | WNone => pst s = PRunning /\ cst s = CInit
  | WStart | WPull | WPut (IElem _) => pst s = PRunning
  | WPut IDone | WFin => pst s <> PRunning
  | WNotify => pst s <> PRunning /\ futdone s = true /\ is_async c = true
  | WDone => pst s <> PRunning /\ futdone s = true /\
             (is_async c = true -> afut s = true \/ In CbFut (ready s))
  end.

Definition cst_ok (s : state) : Prop :=
  match cst s with
  | CInit => wp s = WNone
  | CReading | CAwait => wp s <> WNone
  | CJoin o => o = outcome_of (pst s) /\ pst s <> PRunning /\ wp s <> WNone
  | CDone o => o = outcome_of (pst s) /\ pst s <> PRunning /\ wp s = WDone
  | CInlinePull => False
  end.

Definition pst_ok (c : cfg) (s : state) : Prop :=
  match pst s with
  | PRunning => True
  | PFinished => pull c (pos s) = PStop
  | PFailed e => pull c (pos s) = PFail e
  end.

Record Inv (c : cfg) (s : state) : Prop := mkInv {
  I_pos : pos s <= delivered c;
  I_chan : chanL s = chanR c s;
  I_pst : pst_ok c s;
  I_wp : wp_ok c s;
  I_cst : cst_ok s;
  I_alive : worker_alive s = enW s;
  I_sync : is_async c = false -> ready s = [];
  I_starved : starved s = false
}.

Lemma puts_app l1 l2 : puts (l1 ++ l2) = puts l1 ++ puts l2.
Proof. unfold puts. now rewrite flat_map_app. Qed.
Lemma puts_nil : puts [] = [].
Proof. reflexivity. Qed.
Lemma puts_put it r : puts (CbPut it :: r) = it :: puts r.
Proof. reflexivity. Qed.
Lemma puts_fut r : puts (CbFut :: r) = puts r.
Proof. reflexivity. Qed.

Local Arguments firstn : simpl never.
Local Arguments puts : simpl never.

Lemma init_inv c : Inv c (init c).
Proof. constructor; cbn; auto; lia. Qed.

Ltac cst_tac k := destruct k; cbn in *; intuition congruence.

Lemma stepW_inv c s : Inv c s -> Inv c (stepW c s).
Proof.
  intros HI. destruct HI as [Hpos Hchan Hpst Hwp Hcst Halive Hsync Hstarved].
  destruct s as [p rd qu co ps fd af k w al tk sv].
  unfold stepW, chanL, chanR, wp_ok, cst_ok, pst_ok, enW in *. cbn in *.
  destruct w as [| | |it| | |]; cbn in *.
  - constructor; cbn; auto.
  - (* WStart *)
    constructor; cbn; [assumption|assumption|assumption|assumption|cst_tac k|assumption|assumption|assumption].
  - (* WPull *)
    subst ps. destruct (pull c p) eqn:E.
    + (* element *)
      assert (L := pull_elem_lt c p x Hpos E). apply pull_elem_nth in E.
      constructor; cbn; [lia| |exact I|reflexivity|cst_tac k|assumption|assumption|assumption].
      unfold chanL, chanR. cbn. rewrite (firstn_S_nth _ _ _ E), map_app. cbn.
      rewrite !app_nil_r in *. rewrite <- Hchan. now rewrite <- !app_assoc.
    + constructor; cbn; [assumption| |assumption|discriminate|cst_tac k|assumption|assumption|assumption].
      unfold chanL, chanR. cbn. rewrite !app_nil_r in *. rewrite <- Hchan. now rewrite <- !app_assoc.
    + constructor; cbn; [assumption| |assumption|discriminate|cst_tac k|assumption|assumption|assumption].
      unfold chanL, chanR. cbn. rewrite !app_nil_r in *. rewrite <- Hchan. now rewrite <- !app_assoc.
  - (* WPut *)
    destruct (is_async c) eqn:A.
    + constructor; cbn; [assumption| |assumption| | |destruct it; cbn; assumption|intros; congruence|assumption].
      * unfold chanL, chanR. cbn. rewrite <- Hchan. rewrite puts_app, puts_put, puts_nil.
        destruct it; cbn; now rewrite ?app_nil_r, <- ?app_assoc.
      * destruct it; cbn; assumption.
      * destruct it; cst_tac k.
    + specialize (Hsync eq_refl). subst rd.
      constructor; cbn; [assumption| |assumption| | |destruct it; cbn; assumption|reflexivity|assumption].
      * unfold chanL, chanR. cbn. rewrite <- Hchan. rewrite puts_nil.
        destruct it; cbn; now rewrite ?app_nil_r, <- ?app_assoc.
      * destruct it; cbn; assumption.
      * destruct it; cst_tac k.
  - (* WFin *)
    destruct (is_async c) eqn:A.
    + constructor; cbn; [assumption|assumption|assumption|auto|cst_tac k|assumption|intros; congruence|assumption].
    + unfold wend.
      constructor; cbn; [assumption|assumption|assumption| |cst_tac k|reflexivity|intros; auto|assumption].
      split; [assumption|]. split; [reflexivity|congruence].
  - (* WNotify *)
    unfold wend. destruct Hwp as (Hr & Hf & Ha).
    constructor; cbn; [assumption| |assumption| |cst_tac k|reflexivity|congruence|assumption].
    + unfold chanL, chanR. cbn. rewrite <- Hchan. rewrite puts_app, puts_fut, puts_nil.
      now rewrite ?app_nil_r.
    + split; [assumption|]. split; [assumption|].
      intros _. right. apply in_or_app. right. now left.
  - constructor; cbn; auto.
Qed.

Lemma stepD_inv c s : Inv c s -> Inv c (stepD c s).
Proof.
  intros HI. unfold stepD. destruct (is_async c) eqn:A; [|assumption].
  destruct HI as [Hpos Hchan Hpst Hwp Hcst Halive Hsync Hstarved].
  destruct s as [p rd qu co ps fd af k w al tk sv].
  unfold chanL, chanR, wp_ok, cst_ok, pst_ok, enW in *. cbn in *. rewrite A in *.
  destruct rd as [|[it|] r]; cbn.
  - constructor; cbn; try assumption; [unfold wp_ok; cbn; rewrite A; assumption|reflexivity].
  - constructor; cbn; [assumption| |assumption| |cst_tac k|assumption|intros; congruence|assumption].
    + unfold chanL, chanR. cbn. rewrite <- Hchan. rewrite puts_put. cbn. now rewrite <- !app_assoc.
    + unfold wp_ok; cbn; rewrite A. destruct w as [| | |[x|]| | |]; cbn in *; try assumption.
      destruct Hwp as (H1 & H2 & H3). split; [assumption|]. split; [assumption|].
      intros _. destruct (H3 eq_refl) as [H|[H|H]]; [now left|discriminate|now right].
  - constructor; cbn; [assumption| |assumption| |cst_tac k|assumption|intros; congruence|assumption].
    + unfold chanL, chanR. cbn. rewrite <- Hchan. now rewrite puts_fut.
    + unfold wp_ok; cbn; rewrite A. destruct w as [| | |[x|]| | |]; cbn in *; try assumption.
      destruct Hwp as (H1 & H2 & H3). split; [assumption|]. split; [assumption|]. intros _. now left.
Qed.

Lemma stepT_inv c s : inline c = false -> Inv c s -> Inv c (stepT c s).
Proof.
  intros NI HI. destruct HI as [Hpos Hchan Hpst Hwp Hcst Halive Hsync Hstarved].
  destruct s as [p rd qu co ps fd af k w al tk sv].
  unfold stepT, enT. cbn.
  destruct (is_async c && match k with CInit | CReading | CAwait => true | _ => false end).
  - constructor; cbn; assumption.
  - destruct (is_async c && match k with CInlinePull => true | _ => false end) eqn:E.
    + apply andb_prop in E as [_ E]. unfold cst_ok in Hcst. cbn in Hcst. destruct k; try discriminate. contradiction.
    + constructor; cbn; assumption.
Qed.

Lemma stepC_inv c s : inline c = false -> Inv c s -> Inv c (stepC c s).
Proof.
  intros NI HI. destruct HI as [Hpos Hchan Hpst Hwp Hcst Halive Hsync Hstarved].
  destruct s as [p rd qu co ps fd af k w al tk sv].
  unfold stepC, chanL, chanR, wp_ok, cst_ok, pst_ok, enW in *. cbn in *. rewrite NI.
  destruct k as [| | |o|o|]; cbn in *.
  - (* CInit *) subst w. destruct Hwp as (Hr & _).
    constructor; cbn; [assumption|assumption|assumption|assumption|discriminate|reflexivity|assumption|assumption].
  - (* CReading *)
    destruct qu as [|[x|] q]; cbn.
    + constructor; cbn; assumption.
    + constructor; cbn; [assumption| |assumption|destruct w as [| | |[y|]| | |]; cbn in *; intuition congruence|assumption|assumption|assumption|assumption].
      unfold chanL, chanR. cbn. rewrite <- Hchan. rewrite map_app. cbn. now rewrite <- !app_assoc.
    + constructor; cbn; [assumption|assumption|assumption|destruct w as [| | |[y|]| | |]; cbn in *; intuition congruence|assumption|assumption|assumption|assumption].
  - (* CAwait *)
    assert (R : ps <> PRunning).
    { intros ->. cbn in Hchan. rewrite app_nil_r in Hchan. eapply no_done. exact Hchan. }
    destruct (if is_async c then af else fd).
    + constructor; cbn; [assumption|assumption|assumption|destruct w as [| | |[y|]| | |]; cbn in *; intuition congruence| |assumption|assumption|assumption].
      split; [reflexivity|]. split; assumption.
    + constructor; cbn; assumption.
  - (* CJoin *)
    destruct w as [| | |[y|]| | |]; cbn in *; try (constructor; cbn; assumption).
    constructor; cbn; [assumption|assumption|assumption|assumption| |assumption|assumption|assumption].
    destruct Hcst as (H1 & H2 & _). auto.
  - constructor; cbn; assumption.
  - contradiction.
Qed.

Lemma step_inv c s ch : inline c = false -> Inv c s -> Inv c (step c s ch).
Proof.
  intros NI HI. destruct ch; cbn.
  - now apply stepW_inv.
  - now apply stepD_inv.
  - now apply stepC_inv.
  - now apply stepT_inv.
Qed.

Lemma fold_inv c sch : forall s, inline c = false -> Inv c s -> Inv c (fold_left (step c) sch s).
Proof. induction sch as [|ch sch IH]; intros s NI HI; cbn; [assumption|]. apply IH; [assumption|]. now apply step_inv. Qed.

Lemma run_inv c sch : inline c = false -> Inv c (run c sch).
Proof. intros NI. apply fold_inv; [assumption|apply init_inv]. Qed.

(* ---- the invariant of the inline branch (non-Iterator iterables, l.180-183) ------ *)

Record InvI (c : cfg) (s : state) : Prop := mkInvI {
  J_wp : wp s = WNone;
  J_ready : ready s = [];
  J_queue : queue s = [];
  J_alive : worker_alive s = false;
  J_pos : pos s <= delivered c;
  J_cst : match cst s with
          | CInit | CInlinePull => consumed s = firstn (pos s) (c_src c)
          | CDone o => consumed s = firstn (delivered c) (c_src c) /\ o = expected_out c
          | _ => False
          end
}.

Lemma init_invI c : InvI c (init c).
Proof. constructor; cbn; auto; lia. Qed.

Lemma inline_async c : inline c = true -> is_async c = true.
Proof. unfold inline. intros H. now apply andb_prop in H as [H _]. Qed.

Lemma step_invI c s ch : inline c = true -> InvI c s -> InvI c (step c s ch).
Proof.
  intros IN [Hwp Hrd Hqu Hal Hpos Hk].
  assert (A := inline_async c IN).
  destruct s as [p rd qu co ps fd af k w al tk sv]. cbn in *. subst w rd qu al.
  destruct ch; cbn.
  - constructor; cbn; auto.
  - unfold stepD. rewrite A. cbn. constructor; cbn; auto.
  - unfold stepC. cbn. rewrite IN.
    destruct k as [| | |o|o|]; cbn in *; try contradiction.
    + constructor; cbn; auto.
    + constructor; cbn; auto.
    + destruct (pull c p) eqn:E.
      * assert (L := pull_elem_lt c p x Hpos E). apply pull_elem_nth in E.
        constructor; cbn; auto. rewrite (firstn_S_nth _ _ _ E). now rewrite Hk.
      * assert (G : delivered c <= p) by (apply pull_end_ge; intros x; rewrite E; discriminate).
        assert (p = delivered c) by lia. subst p.
        constructor; cbn; auto. split; [assumption|]. symmetry. now apply pull_stop_out.
      * assert (G : delivered c <= p) by (apply pull_end_ge; intros x; rewrite E; discriminate).
        assert (p = delivered c) by lia. subst p.
        constructor; cbn; auto. split; [assumption|]. symmetry. now apply pull_fail_out.
  - unfold stepT, enT. cbn.
    destruct (is_async c && match k with CInit | CReading | CAwait => true | _ => false end).
    + constructor; cbn; auto.
    + destruct (is_async c && match k with CInlinePull => true | _ => false end); constructor; cbn; auto.
Qed.

(* ---- reachable states ------------------------------------------------------------- *)

Definition Good (c : cfg) (s : state) : Prop := if inline c then InvI c s else Inv c s.

Lemma good_init c : Good c (init c).
Proof. unfold Good. destruct (inline c); [apply init_invI|apply init_inv]. Qed.

Lemma good_step c s ch : Good c s -> Good c (step c s ch).
Proof.
  unfold Good. destruct (inline c) eqn:IN; intros H; [now apply step_invI|now apply step_inv].
Qed.

Lemma good_fold c sch : forall s, Good c s -> Good c (fold_left (step c) sch s).
Proof. induction sch as [|ch sch IH]; intros s H; cbn; [assumption|]. apply IH. now apply good_step. Qed.

Lemma good_run c sch : Good c (run c sch).
Proof. apply good_fold, good_init. Qed.

(* ---- safety theorems ------------------------------------------------------------------ *)

Lemma firstn_len_self {A} (l a : list A) n : a = firstn n l -> a = firstn (length a) l.
Proof.
  intros ->. rewrite firstn_length.
  destruct (Nat.min_spec n (length l)) as [[H E]|[H E]]; rewrite E; [reflexivity|].
  now rewrite firstn_all, firstn_all2 by lia.
Qed.

(* consumed is always a prefix of the source: in order, each once *)
Lemma prefix_state c s : Good c s -> consumed s = firstn (length (consumed s)) (c_src c).
Proof.
  unfold Good. destruct (inline c).
  - intros [_ _ _ _ _ Hk]. destruct (cst s); try contradiction.
    + eapply firstn_len_self; eauto.
    + destruct Hk as [Hk _]. eapply firstn_len_self; eauto.
    + eapply firstn_len_self; eauto.
  - intros [_ Hchan _ _ _ _ _ _]. unfold chanL, chanR in Hchan.
    apply prefix_items in Hchan.
    + eapply firstn_len_self. rewrite Hchan at 1. rewrite firstn_firstn. reflexivity.
    + intros i. destruct (pst s); cbn; intuition.
Qed.

Lemma bridge_prefix_lemma c sch :
  consumed (run c sch) = firstn (length (consumed (run c sch))) (c_src c).
Proof. apply prefix_state, good_run. Qed.

Lemma complete_state c s o :
  Good c s -> cst s = CDone o ->
  consumed s = firstn (delivered c) (c_src c) /\ o = expected_out c.
Proof.
  unfold Good. destruct (inline c).
  - intros [_ _ _ _ _ Hk] E. rewrite E in Hk. exact Hk.
  - intros [Hpos Hchan Hpst _ Hcst _ _ _] E. unfold cst_ok in Hcst. rewrite E in Hcst.
    destruct Hcst as (-> & HR & _).
    unfold chanL, chanR in Hchan. rewrite E in Hchan. cbn [cdone app] in Hchan.
    unfold pst_ok in Hpst.
    destruct (pst s) as [| |e] eqn:P; [congruence| |]; cbn [pdone] in Hchan.
    + apply done_split in Hchan as [Hc _].
      assert (G : delivered c <= pos s) by (apply pull_end_ge; intros x; rewrite Hpst; discriminate).
      assert (Q : pos s = delivered c) by lia. rewrite Q in *.
      split; [assumption|]. cbn. symmetry. now apply pull_stop_out.
    + apply done_split in Hchan as [Hc _].
      assert (G : delivered c <= pos s) by (apply pull_end_ge; intros x; rewrite Hpst; discriminate).
      assert (Q : pos s = delivered c) by lia. rewrite Q in *.
      split; [assumption|]. cbn. symmetry. now apply pull_fail_out.
Qed.

Lemma spec_none c : c_fail c = None -> delivered c = length (c_src c) /\ expected_out c = Stop.
Proof. unfold delivered, expected_out. now intros ->. Qed.

Lemma spec_fail c k :
  c_fail c = Some k -> k <= length (c_src c) -> delivered c = k /\ expected_out c = Raised (c_exc c).
Proof.
  unfold delivered, expected_out. intros -> H. apply Nat.leb_le in H. now rewrite H.
Qed.

Lemma spec_late c k :
  c_fail c = Some k -> length (c_src c) < k -> delivered c = length (c_src c) /\ expected_out c = Stop.
Proof.
  unfold delivered, expected_out. intros -> H. apply Nat.leb_gt in H. now rewrite H.
Qed.

Lemma bridge_complete_lemma c sch o :
  cst (run c sch) = CDone o ->
  exists n, consumed (run c sch) = firstn n (c_src c) /\
    (c_fail c = None -> n = length (c_src c) /\ o = Stop) /\
    (forall k, c_fail c = Some k -> k <= length (c_src c) -> n = k /\ o = Raised (c_exc c)) /\
    (forall k, c_fail c = Some k -> length (c_src c) < k -> n = length (c_src c) /\ o = Stop).
Proof.
  intros E. destruct (complete_state c _ o (good_run c sch) E) as [Hc ->].
  exists (delivered c). split; [assumption|]. split; [|split].
  - apply spec_none.
  - apply spec_fail.
  - apply spec_late.
Qed.

(* when the iteration has finished no helper thread is left *)
Lemma joined_state c s o : Good c s -> cst s = CDone o -> worker_alive s = false /\ enW s = false.
Proof.
  unfold Good. destruct (inline c).
  - intros [Hw _ _ Ha _ _] _. split; [assumption|]. unfold enW. now rewrite Hw.
  - intros [_ _ _ _ Hcst Ha _ _] E. unfold cst_ok in Hcst. rewrite E in Hcst.
    destruct Hcst as (_ & _ & Hw). rewrite Ha. unfold enW. now rewrite Hw.
Qed.

Lemma worker_joined_lemma c sch o :
  cst (run c sch) = CDone o -> worker_alive (run c sch) = false /\ enW (run c sch) = false.
Proof. apply (joined_state c), good_run. Qed.

(* while the worker is inside the source, the consuming loop can run its other tasks *)
Lemma not_blocked_state c s :
  inline c = false -> Inv c s -> is_async c = true -> is_done s = false -> mid_pull s = true ->
  enT c s = true.
Proof.
  intros _ [_ _ _ Hwp Hcst _ _ _] A ND MP. unfold mid_pull in MP. unfold wp_ok in Hwp. unfold cst_ok in Hcst.
  unfold enT. rewrite A. cbn. unfold is_done in ND.
  destruct (wp s); try discriminate.
  destruct (cst s); try reflexivity; try discriminate; intuition congruence.
Qed.

Lemma loop_not_blocked_lemma c sch :
  is_async c = true -> c_noniter c = false ->
  is_done (run c sch) = false -> mid_pull (run c sch) = true -> enT c (run c sch) = true.
Proof.
  intros A NI. assert (IN : inline c = false) by (unfold inline; now rewrite NI, andb_false_r).
  apply not_blocked_state; try assumption.
  pose proof (good_run c sch) as G. unfold Good in G. now rewrite IN in G.
Qed.

Lemma never_starved_lemma c sch : inline c = false -> starved (run c sch) = false.
Proof.
  intros IN. pose proof (good_run c sch) as G. unfold Good in G. rewrite IN in G. apply G.
Qed.
