(* FLockMutex.v — C02: mutual exclusion of the FileLock model for ALL event lists
   (steps of any thread, time advances, crashes), all fault scripts, any number of
   processes / objects / threads.  Built on TL (FLockTL.v) and FD (FLockFD.v).  *)
From Coq Require Import List Arith NArith Bool Lia ZifyBool.
Import ListNotations.
Require Import Aiuti.FLock Aiuti.FLockInv Aiuti.FLockTL Aiuti.FLockFD.
Local Arguments Nat.max : simpl never.
Arguments upd : simpl never.
Arguments enter_tlrel : simpl never.
Arguments enter_cleanup : simpl never.
Arguments after_attempt : simpl never.
Arguments k_unlock : simpl never.
Arguments k_close : simpl never.
Arguments tl_release : simpl never.
Arguments tl_try : simpl never.
Arguments tl_rel_raises : simpl never.
Arguments normalise : simpl never.
Arguments faulty : simpl never.
Arguments intr : simpl never.
Arguments enabled : simpl never.

(* ---------- the ghost flag viol is monotone --------------------------------------- *)

Lemma viol_step_mono s t : viol s = true -> viol (step s t) = true.
Proof.
  intros Hv. unfold step. destruct (negb (enabled s t)); auto.
  destruct (t_pc (thr s t)) as [|a dl|a|a d|a d i|a w|a oserr|o d k|o d k|o k]; cbn.
  - destruct (t_prog (thr s t)); auto. rewrite viol_begin_call, Hv. reflexivity.
  - destruct (tl_try _ _); [destruct (o_fd _)|]; cbn; auto.
  - destruct (faulty s KOpen); [destruct (intr s KOpen); [rewrite viol_enter_cleanup|rewrite viol_after_attempt]|]; cbn; auto.
  - destruct (faulty s KLock); [|destruct (holder_free_for _ _)]; cbn; auto.
  - destruct (faulty s KClose || i); [rewrite viol_enter_cleanup|rewrite viol_after_attempt]; rewrite viol_k_close; cbn; auto.
  - auto.
  - auto.
  - destruct (faulty s KUnlock); cbn; rewrite ?viol_k_unlock; cbn; auto.
  - rewrite viol_enter_tlrel. cbn. rewrite viol_k_close. cbn. auto.
  - rewrite viol_enter_tlrel. cbn. auto.
Qed.

Lemma viol_apply_mono s e : viol s = true -> viol (apply s e) = true.
Proof. destruct e; cbn; auto. apply viol_step_mono. Qed.

Lemma viol_run_mono evs : forall s, viol s = true -> viol (run s evs) = true.
Proof. induction evs as [|e r IH]; [cbn; auto|]. intros s Hv. change (run s (e :: r)) with (run (apply s e) r). apply IH, viol_apply_mono, Hv. Qed.

(* ---------- crash and time advance --------------------------------------------------- *)

Lemma TL_crash s p : TL s -> TL (crash s p).
Proof. apply TL_same; reflexivity. Qed.

Lemma TL_adv s n : TL s -> TL (set_now s n).
Proof. apply TL_same; reflexivity. Qed.

Lemma FD_adv s n : FD s -> FD (set_now s n).
Proof. intros []. constructor; cbn; auto. Qed.

Lemma owned_by_false s p d q : fdown s d = Some q -> q <> p -> owned_by s p d = false.
Proof. unfold owned_by. intros -> Hn. now apply Nat.eqb_neq. Qed.

Lemma FD_crash s p : FD s -> FD (crash s p).
Proof.
  intros [fd_obj_lt0 fd_pc_lt0 fd_open_lt0 fd_obj_inj0 fd_obj_pc0 fd_pc_inj0 fd_pc_own0 fd_hold0 fd_open_live0 fd_holder_open0 pr_pc0 pr_cs0 fd_holder_ref0].
  constructor; cbn; intros *.
  - eauto.
  - eauto.
  - destruct (owned_by s p d); [discriminate|eauto].
  - eauto.
  - eauto.
  - eauto.
  - intros A B. unfold upd in B. destruct (Nat.eqb_spec (t_proc (thr s t)) p); [discriminate|].
    pose proof (fd_pc_own0 _ _ A B) as E. now rewrite (owned_by_false _ _ _ _ E).
  - intros A B. unfold upd in B. destruct (Nat.eqb_spec (o_proc (objs s o)) p); [discriminate|].
    destruct (fd_hold0 _ _ A B) as [E1 E2]. rewrite E1, (owned_by_false _ _ _ _ E2); auto.
  - destruct (owned_by s p d) eqn:E; [discriminate|]. intros A. unfold upd.
    destruct (Nat.eqb_spec p0 p) as [->|]; [|eauto].
    unfold owned_by in E. rewrite A, Nat.eqb_refl in E. discriminate.
  - destruct (holder s) as [h|] eqn:E; [|discriminate].
    destruct (owned_by s p h) eqn:E2; [discriminate|]. intros [= <-]. rewrite E2. eauto.
  - eauto.
  - eauto.
  - destruct (holder s) as [h|] eqn:E; [|discriminate].
    destruct (owned_by s p h) eqn:E2; [discriminate|]. intros [= <-].
    assert (Hq : forall q, fdown s h = Some q -> upd (dead s) p true q = dead s q).
    { intros q Eq. unfold upd. destruct (Nat.eqb_spec q p) as [->|]; auto.
      unfold owned_by in E2. rewrite Eq, Nat.eqb_refl in E2. discriminate. }
    destruct (fd_holder_ref0 _ eq_refl) as [(o & B & C)|(t & B & C)].
    + left. exists o. split; auto. destruct (fd_hold0 _ _ B C) as [_ D]. now rewrite (Hq _ D).
    + right. exists t. split; auto. pose proof (fd_pc_own0 _ _ B C) as D. now rewrite (Hq _ D).
Qed.

(* ---------- the combined invariant ------------------------------------------------------ *)

Definition Inv (s : state) : Prop := TL s /\ FD s.

Lemma Inv_apply s e : Inv s -> viol (apply s e) = false -> Inv (apply s e).
Proof.
  intros [HT HF] Hv. destruct e as [t|n|p]; cbn in *.
  - split; [apply TL_step|apply FD_step]; auto.
  - split; [apply TL_adv|apply FD_adv]; auto.
  - split; [apply TL_crash|apply FD_crash]; auto.
Qed.

Lemma Inv_run evs : forall s, Inv s -> viol (run s evs) = false -> Inv (run s evs).
Proof.
  induction evs as [|e r IH]; [cbn; auto|]. intros s HI Hv. change (run s (e :: r)) with (run (apply s e) r) in *.
  apply IH; auto. apply Inv_apply; auto.
  destruct (viol (apply s e)) eqn:E; auto. rewrite (viol_run_mono r _ E) in Hv. discriminate.
Qed.

(* initial states: any objects (process, reentrant?, default timeout), any threads
   (process, program), any fault script *)
Definition init_cfg (ocfg : list (pid * bool * tmo)) (tcfg : list (pid * list call)) (fl : list (skind * nat * bool)) : state :=
  init (map (fun c => obj0 (fst (fst c)) (snd (fst c)) (snd c)) ocfg)
       (map (fun c => thr0 (fst c) (snd c)) tcfg) fl.

Lemma nth_fun_map_obj0 l o :
  exists p r d, nth_fun (map (fun c : pid * bool * tmo => obj0 (fst (fst c)) (snd (fst c)) (snd c)) l) (obj0 0 false TNeg) o = obj0 p r d.
Proof.
  revert o. induction l as [|x r IH]; intros o; cbn; [destruct o; eauto|].
  destruct o; eauto.
Qed.

Lemma nth_fun_map_thr0 l t :
  exists p pr, nth_fun (map (fun c : pid * list call => thr0 (fst c) (snd c)) l) (thr0 0 []) t = thr0 p pr.
Proof.
  revert t. induction l as [|x r IH]; intros t; cbn; [destruct t; eauto|].
  destruct t; eauto.
Qed.

Lemma Inv_init ocfg tcfg fl : Inv (init_cfg ocfg tcfg fl).
Proof.
  unfold init_cfg, init. split.
  - constructor; unfold lev; cbn; intros *;
      try (destruct (nth_fun_map_obj0 ocfg o) as (p & r & d & ->));
      try (destruct (nth_fun_map_thr0 tcfg t) as (q & pr & ->)); unfold occ; cbn; try lia; try discriminate; auto.
  - constructor; cbn; intros *;
      try (destruct (nth_fun_map_obj0 ocfg o) as (p' & r & d' & ->));
      try (destruct (nth_fun_map_obj0 ocfg o1) as (p' & r & d' & ->));
      try (destruct (nth_fun_map_thr0 tcfg t) as (q & pr & ->));
      try (destruct (nth_fun_map_thr0 tcfg t1) as (q & pr & ->)); cbn; try discriminate; try tauto.
Qed.

(* ---------- mutual exclusion -------------------------------------------------------------- *)

Lemma inside_In s t : inside_b s t = true ->
  dead s (t_proc (thr s t)) = false /\ exists o, In o (t_cs (thr s t)).
Proof.
  unfold inside_b, is_dead. destruct (dead s (t_proc (thr s t))); cbn; [discriminate|].
  destruct (t_cs (thr s t)) as [|o r]; [discriminate|]. intros _. split; auto. exists o. now left.
Qed.

(* I2: a live thread inside on o: o records the descriptor that carries the kernel
   lock, and the thread owns o's thread lock *)
Lemma inside_holds s t o :
  Inv s -> dead s (t_proc (thr s t)) = false -> In o (t_cs (thr s t)) ->
  exists d, o_fd (objs s o) = Some d /\ holder s = Some d /\ o_own (objs s o) = Some t.
Proof.
  intros [HT HF] Hal Hin. destruct (pr_cs _ HF _ _ Hin) as [Hp Hfd].
  destruct (o_fd (objs s o)) as [d|] eqn:E; [|congruence]. exists d.
  destruct (fd_hold _ HF _ _ E) as [Hh _]; [congruence|]. repeat split; auto.
  destruct HT as [HL _ _ _ _ _]. apply occ_pos_in in Hin. destruct (HL t o) as [A _]; [unfold lev; lia|auto].
Qed.

Lemma mutex_inv s t1 t2 : Inv s -> inside_b s t1 = true -> inside_b s t2 = true -> t1 = t2.
Proof.
  intros HI H1 H2. destruct (inside_In _ _ H1) as [A1 [o1 I1]]. destruct (inside_In _ _ H2) as [A2 [o2 I2]].
  destruct (inside_holds _ _ _ HI A1 I1) as (d1 & F1 & K1 & O1).
  destruct (inside_holds _ _ _ HI A2 I2) as (d2 & F2 & K2 & O2).
  assert (d1 = d2) by congruence. subst d2.
  assert (o1 = o2) by (eapply (fd_obj_inj _ (proj2 HI)); eauto). subst o2. congruence.
Qed.

Theorem mutex_lemma :
  forall ocfg tcfg fl evs t1 t2,
    let s := run (init_cfg ocfg tcfg fl) evs in
    viol s = false -> inside_b s t1 = true -> inside_b s t2 = true -> t1 = t2.
Proof.
  intros ocfg tcfg fl evs t1 t2 s Hv. apply mutex_inv. apply Inv_run; auto. apply Inv_init.
Qed.

(* ---------- a step of one thread leaves the other threads and the dead set alone ---------- *)

Lemma begin_call_frame s t c rest t' :
  t' <> t -> thr (begin_call s t c rest) t' = thr s t' /\ dead (begin_call s t c rest) = dead s.
Proof.
  intros Hn. destruct c as [o m blk tm poll skip|o force]; unfold begin_call; cbn.
  - destruct (normalise _ _ _). destruct (Nat.eqb _ _); cbn; rewrite !upd_other by auto; auto.
  - destruct (Nat.eqb (o_proc (objs s o)) _); cbn; (destruct (o_fd (objs s o)); cbn; [|rewrite !upd_other by auto; auto]);
      destruct (own_is _ _); cbn; destruct (_ || _); cbn;
      rewrite ?(u_thr _ _ _ _ (ta_upd _ _ _ _ (Tail_enter_tlrel _ _ _ _))) by auto;
      rewrite ?(u_dead _ _ _ _ (ta_upd _ _ _ _ (Tail_enter_tlrel _ _ _ _)));
      cbn; rewrite !upd_other by auto; auto.
Qed.

Lemma step_frame s t t' : t' <> t -> thr (step s t) t' = thr s t' /\ dead (step s t) = dead s.
Proof.
  intros Hn. unfold step. destruct (negb (enabled s t)); auto.
  destruct (t_pc (thr s t)) as [|a dl|a|a d|a d i|a w|a oserr|o d k|o d k|o k]; cbn.
  - destruct (t_prog (thr s t)); auto. now apply begin_call_frame.
  - destruct (tl_try _ _); [destruct (o_fd _)|]; cbn; rewrite !upd_other by auto; auto.
  - destruct (faulty s KOpen); [destruct (intr s KOpen)|]; cbn.
    + rewrite (u_thr _ _ _ _ (ta_upd _ _ _ _ (Tail_enter_cleanup _ _ _ _))) by auto.
      rewrite (u_dead _ _ _ _ (ta_upd _ _ _ _ (Tail_enter_cleanup _ _ _ _))). auto.
    + rewrite (u_thr _ _ _ _ (ta_upd _ _ _ _ (Tail_after_attempt _ _ _))) by auto.
      rewrite (u_dead _ _ _ _ (ta_upd _ _ _ _ (Tail_after_attempt _ _ _))). auto.
    + rewrite !upd_other by auto; auto.
  - destruct (faulty s KLock); [|destruct (holder_free_for _ _)]; cbn; rewrite !upd_other by auto; auto.
  - destruct (faulty s KClose || i); cbn.
    + rewrite (u_thr _ _ _ _ (ta_upd _ _ _ _ (Tail_enter_cleanup _ _ _ _))) by auto.
      rewrite (u_dead _ _ _ _ (ta_upd _ _ _ _ (Tail_enter_cleanup _ _ _ _))).
      rewrite thr_k_close, dead_k_close. auto.
    + rewrite (u_thr _ _ _ _ (ta_upd _ _ _ _ (Tail_after_attempt _ _ _))) by auto.
      rewrite (u_dead _ _ _ _ (ta_upd _ _ _ _ (Tail_after_attempt _ _ _))).
      rewrite thr_k_close, dead_k_close. auto.
  - rewrite !upd_other by auto; auto.
  - rewrite !upd_other by auto; auto.
  - destruct (faulty s KUnlock); cbn; rewrite ?thr_k_unlock, ?dead_k_unlock; cbn; rewrite !upd_other by auto; auto.
  - rewrite (u_thr _ _ _ _ (ta_upd _ _ _ _ (Tail_enter_tlrel _ _ _ _))) by auto.
    rewrite (u_dead _ _ _ _ (ta_upd _ _ _ _ (Tail_enter_tlrel _ _ _ _))).
    cbn. rewrite thr_k_close, dead_k_close. auto.
  - rewrite (u_thr _ _ _ _ (ta_upd _ _ _ _ (Tail_enter_tlrel _ _ _ _))) by auto.
    rewrite (u_dead _ _ _ _ (ta_upd _ _ _ _ (Tail_enter_tlrel _ _ _ _))). auto.
Qed.

(* an event of somebody else: a step of another thread, a time advance, the crash
   of another process *)
Definition foreign (s : state) (t : tid) (e : ev) : Prop :=
  match e with
  | EStep t' => t' <> t
  | EAdv _ => True
  | ECrash p => p <> t_proc (thr s t)
  end.

Lemma foreign_keeps s t e : foreign s t e ->
  thr (apply s e) t = thr s t /\ dead (apply s e) (t_proc (thr s t)) = dead s (t_proc (thr s t)).
Proof.
  destruct e as [t'|n|p]; cbn; intros Hf; auto.
  - destruct (step_frame s t' t) as [A B]; auto. now rewrite A, B.
  - split; auto. unfold upd. destruct (Nat.eqb_spec (t_proc (thr s t)) p); congruence.
Qed.

Theorem holder_until_release_lemma :
  forall ocfg tcfg fl evs e t o,
    let s := run (init_cfg ocfg tcfg fl) evs in
    let s' := apply s e in
    viol s' = false -> foreign s t e ->
    inside_b s t = true -> In o (t_cs (thr s t)) ->
    inside_b s' t = true /\ In o (t_cs (thr s' t)) /\
    exists d, o_fd (objs s' o) = Some d /\ holder s' = Some d /\ o_own (objs s' o) = Some t.
Proof.
  intros ocfg tcfg fl evs e t o s s' Hv Hf Hin Ho.
  assert (HI' : Inv s').
  { unfold s', s. change (apply (run (init_cfg ocfg tcfg fl) evs) e) with (fold_left apply [e] (run (init_cfg ocfg tcfg fl) evs)).
    unfold run. rewrite <- fold_left_app. apply Inv_run; [apply Inv_init|].
    unfold run. rewrite fold_left_app. exact Hv. }
  destruct (foreign_keeps _ _ _ Hf) as [A B]. fold s' in A, B.
  assert (Hin' : inside_b s' t = true).
  { unfold inside_b, is_dead in *. rewrite A, B. exact Hin. }
  split; auto. split; [now rewrite A|].
  apply inside_holds; auto; rewrite A; auto.
  - rewrite B. unfold inside_b, is_dead in Hin. destruct (dead s (t_proc (thr s t))); [discriminate|auto].
Qed.
