(* BufferQuiet.v — timing invariants of the buffer model for C08:
   (1) TimeOK: whenever the quiet timer (the timed q.get(), l.758) is armed, its
       deadline lies at least [timeout] after the latest submission and at most
       [timeout] after the present;
   (2) fnstart_cause: why a call of the wrapped function can start in a macro
       step — the timer fired a full timeout after the latest submission, or a
       wait(cancel=True) forced the flush, or the daemon had been kept waiting
       by a slow producer after the timer fired / the flush was forced;
   (3) with immediate producers only the daemon is never kept waiting, which
       gives not_early;
   (4) debounce for every reachable idle state. *)
From Coq Require Import List Arith NArith Bool Lia ZifyBool ZifyNat ZifyN.
Import ListNotations.
Require Import Aiuti.Buffer Aiuti.BufferJoin Aiuti.BufferTime Aiuti.Case_Buffer.

(* ---- (1) ---------------------------------------------------------------------- *)
Record TimeOK (T : N) (s : state) : Prop := {
  t_tmo : tmo s = T;
  t_last : (g_lastsub (gh s) <= now s)%N;
  t_arm : forall d, armed_deadline (dm s) = Some d -> (g_lastsub (gh s) + T <= d /\ d <= now s + T)%N
}.

Definition TP (s : state) (r : state * list obs) : Prop :=
  tmo (fst r) = tmo s /\ now (fst r) = now s /\ g_lastsub (gh (fst r)) = g_lastsub (gh s) /\
  (forall d, armed_deadline (dm (fst r)) = Some d -> d = (now s + tmo s)%N).

Lemma release_T s :
  tmo (fst (release s)) = tmo s /\ now (fst (release s)) = now s /\
  g_lastsub (gh (fst (release s))) = g_lastsub (gh s) /\ dm (fst (release s)) = dm s.
Proof. unfold release; cbn. auto. Qed.

Lemma run_func0_T s ins : TP s (run_func0 s ins).
Proof.
  unfold run_func0, TP. destruct ins.
  - destruct (release_T s) as (R1 & R2 & R3 & R4). destruct (release s) as [s1 o]. cbn in *. repeat split; auto. discriminate.
  - cbn. repeat split; auto. discriminate.
Qed.

Lemma TP_trans s s1 r :
  tmo s1 = tmo s -> now s1 = now s -> g_lastsub (gh s1) = g_lastsub (gh s) -> TP s1 r -> TP s r.
Proof. unfold TP. intros E1 E2 E3 (H1 & H2 & H3 & H4). rewrite <- E1, <- E2, <- E3. auto. Qed.

Lemma continue_round_T s ins ld : TP s (continue_round s ins ld).
Proof.
  unfold continue_round. destruct (load_all (ld ++ q s)) as [[rem ys] fs].
  set (u := unfinished s - length (q s)).
  destruct rem as [|p rem].
  - destruct ((u =? 0) && wants_cancel (waiters (set_q s [] u))).
    + eapply TP_trans; [| | |apply run_func0_T]; destruct (u =? 0); reflexivity.
    + unfold TP; destruct (u =? 0); cbn; repeat split; auto; intros d H; inversion H; reflexivity.
  - unfold TP. destruct ((u =? 0) && wants_cancel _); destruct (u =? 0); cbn; repeat split; auto;
      intros d H; inversion H; reflexivity.
Qed.

Lemma start_round_T s : TP s (start_round s).
Proof.
  unfold start_round. destruct (q s).
  - unfold TP; cbn; repeat split; auto; discriminate.
  - eapply TP_trans; [| | |apply continue_round_T]; reflexivity.
Qed.

Lemma run_func_T s ins : TP s (run_func s ins).
Proof.
  unfold run_func. destruct ins.
  - destruct (release_T s) as (R1 & R2 & R3 & R4). destruct (release s) as [s1 o1]. cbn [fst] in *.
    unfold end_round. pose proof (start_round_T s1) as P. destruct (start_round s1) as [s2 o2].
    eapply TP_trans; eauto.
  - unfold TP; cbn; repeat split; auto; discriminate.
Qed.

Lemma load_one_T s ins p : TP s (load_one s ins p).
Proof.
  unfold load_one. destruct (p_fin p).
  - eapply TP_trans; [| | |apply continue_round_T]; reflexivity.
  - unfold TP; cbn; repeat split; auto; discriminate.
Qed.

Lemma after_gather_T s ins g :
  tmo (fst (after_gather s ins g)) = tmo s /\ now (fst (after_gather s ins g)) = now s /\
  g_lastsub (gh (fst (after_gather s ins g))) = g_lastsub (gh s) /\
  (forall d, armed_deadline (dm (fst (after_gather s ins g))) = Some d -> d = (now s + tmo s)%N \/ g = GArmed d).
Proof.
  destruct g; cbn [after_gather].
  - cbn. repeat split; auto. intros d0 H; inversion H; auto.
  - destruct (load_one_T s ins p) as (H1 & H2 & H3 & H4). repeat split; auto.
  - destruct (run_func_T s ins) as (H1 & H2 & H3 & H4). repeat split; auto.
  - destruct (run_func_T s ins) as (H1 & H2 & H3 & H4). repeat split; auto.
Qed.

(* a helper result that arms freshly (or not at all) re-establishes TimeOK *)
Lemma TP_ok T s r : tmo s = T -> (g_lastsub (gh s) <= now s)%N -> TP s r -> TimeOK T (fst r).
Proof.
  intros E Hl (H1 & H2 & H3 & H4). constructor; rewrite ?H1, ?H2, ?H3; auto.
  intros d Hd. rewrite (H4 d Hd). lia.
Qed.

Lemma stay_T T s s' :
  TimeOK T s -> tmo s' = tmo s -> now s' = now s -> g_lastsub (gh s') = g_lastsub (gh s) ->
  (forall d, armed_deadline (dm s') = Some d -> armed_deadline (dm s) = Some d) -> TimeOK T s'.
Proof.
  intros [H1 H2 H3] E1 E2 E3 E4. constructor; rewrite ?E1, ?E2, ?E3; auto.
Qed.

Lemma on_put_T T s :
  tmo s = T -> g_lastsub (gh s) = now s -> q s <> [] -> TimeOK T (fst (on_put s)).
Proof.
  intros E El Hq. assert (Hl : (g_lastsub (gh s) <= now s)%N) by lia.
  assert (Hs : forall s', tmo s' = tmo s -> now s' = now s -> g_lastsub (gh s') = g_lastsub (gh s) ->
               armed_deadline (dm s') = None -> TimeOK T s').
  { intros s' E1 E2 E3 E4. constructor; rewrite ?E1, ?E2, ?E3, ?E4; auto. discriminate. }
  unfold on_put. destruct (dm s) eqn:Ed.
  - eapply TP_ok; eauto. apply start_round_T.
  - destruct g; try (cbn [fst]; apply Hs; auto; rewrite Ed; reflexivity).
    destruct (q s); [contradiction|]. cbn [fst]. apply Hs; reflexivity.
  - destruct (q s) as [|p r]; [contradiction|].
    eapply TP_ok; [| |apply load_one_T]; cbn; auto.
  - cbn [fst]. apply Hs; auto. rewrite Ed; reflexivity.
  - cbn [fst]. apply Hs; auto. rewrite Ed; reflexivity.
  - cbn [fst]. apply Hs; auto. rewrite Ed; reflexivity.
Qed.

Lemma do_put_T T s p k c : TimeOK T s -> TimeOK T (fst (do_put s p k c)).
Proof.
  intros HT. pose proof HT as [H1 H2 H3]. unfold do_put. destruct (existsb (Nat.eqb p) (seen s)); [exact HT|].
  apply on_put_T; destruct c; cbn; auto; intros H; apply app_eq_nil in H as [_ H]; discriminate.
Qed.

Lemma do_feed_T T s n a : TimeOK T s -> TimeOK T (fst (do_feed s n a)).
Proof.
  intros HT. pose proof HT as [H1 H2 H3]. unfold do_feed. destruct (negb (open_here s n)); [exact HT|].
  destruct (dm s) eqn:Ed; try (cbn [fst]; apply (stay_T T s); auto; cbn; rewrite Ed; auto).
  - destruct (load_all (map (feed_if n a) ld)) as [[rem ys] fs]. destruct rem as [|p0 rem].
    + match goal with |- context [after_gather ?a ?b ?c] => destruct (after_gather_T a b c) as (A1 & A2 & A3 & A4) end.
      cbn [tmo now gh set_gh set_q load_gh gh_load gh_offer1 g_lastsub] in *.
      constructor; rewrite ?A1, ?A2, ?A3; auto.
      intros d Hd. destruct (A4 d Hd) as [->|Hg]; [lia|].
      apply H3. destruct g; cbn in Hg; try discriminate. inversion Hg; subst. reflexivity.
    + cbn [fst]. apply (stay_T T s); auto. cbn. rewrite Ed. destruct g; cbn; auto; discriminate.
  - destruct ((pid p =? n) && accepts p).
    + eapply TP_ok; [| |apply load_one_T]; cbn; auto.
    + cbn [fst]. apply (stay_T T s); auto; cbn; rewrite Ed; auto.
Qed.

Lemma do_advance_T T s dt : TimeOK T s -> TimeOK T (fst (do_advance s dt)).
Proof.
  intros HT. pose proof HT as [H1 H2 H3]. unfold do_advance.
  assert (Stay : armed_deadline (dm s) = None -> TimeOK T (set_now s (now s + dt))).
  { intros Hn. constructor; cbn; auto; [lia|]. rewrite Hn. discriminate. }
  destruct (dm s) as [|ins ld g|ins d|ins p|ins|] eqn:Ed; cbn [fst]; try (apply Stay; reflexivity).
  - destruct g as [d|p| |]; try (apply Stay; reflexivity).
    destruct (d <=? now s + dt)%N eqn:El; cbn [fst].
    + constructor; cbn; auto; [lia|discriminate].
    + specialize (H3 d eq_refl). constructor; cbn; auto; [lia|]. intros d0 H; rewrite ?Ed in H; cbn in H; inversion H; subst. lia.
  - specialize (H3 d eq_refl). destruct (d <=? now s + dt)%N eqn:El.
    + match goal with |- context [run_func ?a ?b] => destruct (run_func_T a b) as (A1 & A2 & A3 & A4); destruct (run_func a b) as [s1 o] end.
      cbn [fst tmo now gh set_lastfire set_now] in *.
      constructor; cbn; rewrite ?A1, ?A3; auto; [lia|]. intros d0 Hd. rewrite (A4 d0 Hd). lia.
    + cbn [fst]. constructor; cbn; auto; [lia|]. intros d0 H; rewrite ?Ed in H; cbn in H; inversion H; subst. lia.
Qed.

Lemma do_wait_T T s w c : TimeOK T s -> TimeOK T (fst (do_wait s w c)).
Proof.
  intros HT. pose proof HT as [H1 H2 H3]. unfold do_wait. destruct (existsb (Nat.eqb w) (wseen s)); [exact HT|].
  set (s' := set_gh (set_wseen s (wseen s ++ [w])) (gh_tie (gh s) (tie_now s))).
  assert (HT' : TimeOK T s') by (constructor; cbn; auto).
  assert (Ed' : dm s' = dm s) by reflexivity. clearbody s'. clear HT H1 H2 H3. pose proof HT' as [H1 H2 H3].
  unfold wait_core. destruct (unfinished s' =? 0); [|cbn [fst]; apply (stay_T T s'); auto].
  destruct (dm s') eqn:Ed; try (destruct (evset s'); cbn [fst]; apply (stay_T T s'); auto; cbn; rewrite Ed; auto).
  - destruct g; try (destruct (evset s'); cbn [fst]; apply (stay_T T s'); auto; cbn; rewrite Ed; auto).
    destruct c; cbn [fst]; [|apply (stay_T T s'); auto; cbn; rewrite Ed; auto].
    constructor; cbn; auto. discriminate.
  - destruct c; cbn [fst]; [|apply (stay_T T s'); auto; cbn; rewrite Ed; auto].
    eapply TP_ok; [| |apply run_func_T]; cbn; auto.
Qed.

Lemma do_fn_end_T T s ok fc : TimeOK T s -> TimeOK T (fst (do_fn_end s ok fc)).
Proof.
  intros HT. pose proof HT as [H1 H2 H3]. unfold do_fn_end. destruct (dm s) eqn:Ed; try exact HT.
  destruct ok.
  - match goal with |- context [release ?x] => destruct (release_T x) as (R1 & R2 & R3 & R4); destruct (release x) as [s2 o1] end.
    cbn [fst tmo now gh set_gh set_calls gh_deliver g_lastsub] in *.
    destruct fc.
    + pose proof (continue_round_T (set_event s2 false) ins []) as P.
      destruct (continue_round (set_event s2 false) ins []) as [s3 o2]. cbn [fst].
      apply (TP_ok T (set_event s2 false) (s3, o2 )); cbn; auto; congruence.
    + unfold end_round. pose proof (start_round_T s2) as P. destruct (start_round s2) as [s3 o2]. cbn [fst].
      apply (TP_ok T s2 (s3, o2)); auto; congruence.
  - pose proof (continue_round_T s ins []) as P. destruct (continue_round s ins []) as [s1 o1]. cbn [fst].
    apply (TP_ok T s (s1, o1)); auto.
Qed.

Lemma step_time T s e : TimeOK T s -> TimeOK T (fst (step s e)).
Proof.
  intros HT. unfold step. destruct (is_dead s); [exact HT|].
  destruct e.
  - apply do_put_T; exact HT.
  - apply do_feed_T; exact HT.
  - apply do_feed_T; exact HT.
  - apply do_feed_T; exact HT.
  - apply do_advance_T; exact HT.
  - apply do_wait_T; exact HT.
  - apply do_fn_end_T; exact HT.
  - apply do_fn_end_T; exact HT.
  - destruct HT as [H1 H2 H3]. constructor; cbn; auto. discriminate.
  - apply (stay_T T s); auto.
  - apply do_put_T; exact HT.
  - apply do_fn_end_T; exact HT.
Qed.

Lemma init_time T : TimeOK T (init T).
Proof. constructor; cbn; auto; [lia|discriminate]. Qed.

Lemma run_time T evs : forall s, TimeOK T s -> TimeOK T (fst (run s evs)).
Proof.
  induction evs as [|e r IH]; intros s HS; cbn [run]; [exact HS|].
  pose proof (step_time T s e HS) as H1. destruct (step s e) as [s1 o]. cbn [fst] in H1.
  specialize (IH s1 H1). destruct (run s1 r). exact IH.
Qed.

Lemma final_time T evs : TimeOK T (final T evs).
Proof. apply run_time, init_time. Qed.

(* ---- (2) why a call starts ------------------------------------------------------ *)
(* some task inside wait(cancel=True) has not returned yet *)
Definition forcedw (s : state) : Prop := exists w, In w (waiters s) /\ wcancel w = true.
(* the daemon is still gathering slow producers although the timer has fired /
   the timed read was cancelled *)
Definition kept_waiting (d : daemon) : Prop :=
  exists ins ld, d = DGather ins ld GTimedOut \/ d = DGather ins ld GCancelled.

Definition FS (s : state) (r : state * list obs) (P : Prop) : Prop :=
  forall c set t, In (FnStart c set t) (snd r) -> t = now s /\ P.

Lemma FS_weaken s r (P Q : Prop) : (P -> Q) -> FS s r P -> FS s r Q.
Proof. intros H HF c set t Hin. destruct (HF c set t Hin). auto. Qed.

Lemma FS_nil s s' P : FS s (s', []) P.
Proof. intros c set t []. Qed.

Lemma release_FS s :
  (forall c set t, ~ In (FnStart c set t) (snd (release s))) /\
  now (fst (release s)) = now s /\
  (forall w, In w (waiters (fst (release s))) -> In w (waiters s)).
Proof.
  unfold release; cbn. split; [|split; [reflexivity|]].
  - intros c set t H. apply in_map_iff in H as (w & E & _). discriminate.
  - intros w H. apply filter_In in H as [H _]. exact H.
Qed.

Lemma run_func0_FS s ins : FS s (run_func0 s ins) True.
Proof.
  unfold run_func0. destruct ins.
  - destruct (release_FS s) as (R1 & _). destruct (release s) as [s1 o]. intros c set t Hin. cbn in Hin. destruct (R1 _ _ _ Hin).
  - intros c set t [H|[]]. inversion H; subst. auto.
Qed.

Lemma wants_cancel_forced ws : wants_cancel ws = true -> exists w, In w ws /\ wcancel w = true.
Proof.
  unfold wants_cancel. rewrite existsb_exists. intros (w & Hin & H). apply andb_prop in H as [_ H]. eauto.
Qed.

Lemma continue_round_FS s ins ld : FS s (continue_round s ins ld) (forcedw s).
Proof.
  unfold continue_round. destruct (load_all (ld ++ q s)) as [[rem ys] fs].
  set (u := unfinished s - length (q s)).
  destruct rem as [|p rem]; [|destruct ((u =? 0) && wants_cancel _); apply FS_nil].
  destruct ((u =? 0) && wants_cancel (waiters (set_q s [] u))) eqn:Ec; [|apply FS_nil].
  apply andb_prop in Ec as [_ Ec]. apply wants_cancel_forced in Ec. cbn in Ec.
  intros c set t Hin.
  match type of Hin with In _ (snd (run_func0 ?a ?b)) => destruct (run_func0_FS a b c set t Hin) as [Ht _] end.
  split; [|exact Ec]. rewrite Ht. destruct (u =? 0); reflexivity.
Qed.

Lemma start_round_FS s : FS s (start_round s) (forcedw s).
Proof.
  unfold start_round. destruct (q s); [apply FS_nil|].
  intros c set t Hin. apply continue_round_FS in Hin. exact Hin.
Qed.

Lemma run_func_FS s ins : FS s (run_func s ins) True.
Proof.
  unfold run_func. destruct ins.
  - destruct (release_FS s) as (R1 & R2 & R3). destruct (release s) as [s1 o1]. cbn [fst snd] in *.
    unfold end_round. pose proof (start_round_FS s1) as P. destruct (start_round s1) as [s2 o2].
    intros c set t Hin. cbn [snd] in Hin. apply in_app_or in Hin as [Hin|Hin]; [destruct (R1 _ _ _ Hin)|].
    destruct (P c set t Hin) as [Ht _]. split; [congruence|exact I].
  - intros c set t [H|[]]. inversion H; subst. auto.
Qed.

Lemma load_one_FS s ins p : FS s (load_one s ins p) (forcedw s).
Proof.
  unfold load_one. destruct (p_fin p); [|apply FS_nil].
  intros c set t Hin. apply continue_round_FS in Hin. exact Hin.
Qed.

Lemma after_gather_FS s ins g : FS s (after_gather s ins g) (forcedw s \/ g = GTimedOut \/ g = GCancelled).
Proof.
  destruct g; cbn [after_gather].
  - apply FS_nil.
  - eapply FS_weaken; [|apply load_one_FS]. auto.
  - eapply FS_weaken; [|apply run_func_FS]. auto.
  - eapply FS_weaken; [|apply run_func_FS]. auto.
Qed.

Lemma fnstart_cause T s e c set t :
  TimeOK T s -> In (FnStart c set t) (snd (step s e)) ->
  (now s <= t <= now (fst (step s e)))%N /\
  ((g_lastsub (gh (fst (step s e))) + T <= t)%N \/ forcedw s \/ (exists w, e = Wait w true) \/ kept_waiting (dm s)).
Proof.
  intros HT. pose proof HT as [H1 H2 H3]. unfold step. destruct (is_dead s); [intros []|].
  assert (K : forall r, tmo (fst r) = tmo s -> now (fst r) = now s ->
              FS s r (forcedw s \/ (exists w, e = Wait w true) \/ kept_waiting (dm s)) ->
              In (FnStart c set t) (snd r) ->
              (now s <= t <= now (fst r))%N /\
              ((g_lastsub (gh (fst r)) + T <= t)%N \/ forcedw s \/ (exists w, e = Wait w true) \/ kept_waiting (dm s))).
  { intros r E1 E2 HF Hin. destruct (HF c set t Hin) as [-> HP]. split; [lia|]. right. exact HP. }
  assert (PutCase : forall p k cl, In (FnStart c set t) (snd (do_put s p k cl)) ->
            (now s <= t <= now (fst (do_put s p k cl)))%N /\
            ((g_lastsub (gh (fst (do_put s p k cl))) + T <= t)%N \/ forcedw s \/ (exists w, e = Wait w true) \/ kept_waiting (dm s))).
  { intros p k cl. unfold do_put. destruct (existsb (Nat.eqb p) (seen s)); [intros []|].
    match goal with |- context [on_put ?x] => set (s4 := x) end.
    assert (E4 : now s4 = now s /\ tmo s4 = tmo s /\ waiters s4 = waiters s /\ dm s4 = dm s /\ q s4 = q s ++ [mk_prod p k])
      by (unfold s4; destruct cl; cbn; auto).
    destruct E4 as (E41 & E42 & E43 & E44 & E45). clearbody s4.
    assert (Hw : forcedw s4 -> forcedw s) by (unfold forcedw; rewrite E43; auto).
    pose proof (on_put_T T s4) as _.
    unfold on_put. rewrite E44. destruct (dm s) eqn:Ed.
    - pose proof (start_round_T s4) as (A1 & A2 & _). apply K; try congruence.
      intros c0 set0 t0 Hin. destruct (start_round_FS s4 c0 set0 t0 Hin) as [-> HP]. split; [congruence|auto].
    - destruct g; try (intros []). destruct (q s4); intros [].
    - rewrite E45. destruct (q s) as [|p1 r1]; cbn [app].
      + pose proof (load_one_T (set_q s4 [] (unfinished s4)) ins (mk_prod p k)) as (A1 & A2 & _). apply K; cbn in *; try congruence.
        intros c0 set0 t0 Hin. destruct (load_one_FS _ _ _ c0 set0 t0 Hin) as [-> HP]. split; [cbn; congruence|auto].
      + pose proof (load_one_T (set_q s4 (r1 ++ [mk_prod p k]) (unfinished s4)) ins p1) as (A1 & A2 & _). apply K; cbn in *; try congruence.
        intros c0 set0 t0 Hin. destruct (load_one_FS _ _ _ c0 set0 t0 Hin) as [-> HP]. split; [cbn; congruence|auto].
    - intros [].
    - intros [].
    - intros []. }
  assert (FeedCase : forall n a, In (FnStart c set t) (snd (do_feed s n a)) ->
            (now s <= t <= now (fst (do_feed s n a)))%N /\
            ((g_lastsub (gh (fst (do_feed s n a))) + T <= t)%N \/ forcedw s \/ (exists w, e = Wait w true) \/ kept_waiting (dm s))).
  { intros n a. unfold do_feed. destruct (negb (open_here s n)); [intros []|].
    destruct (dm s) eqn:Ed; try (intros []).
    - destruct (load_all (map (feed_if n a) ld)) as [[rem ys] fs]. destruct rem; [|intros []].
      match goal with |- context [after_gather ?a ?b ?c] =>
        destruct (after_gather_T a b c) as (A1 & A2 & _); pose proof (after_gather_FS a b c) as HF end.
      apply K; cbn in *; auto.
      intros c0 set0 t0 Hin. destruct (HF c0 set0 t0 Hin) as [-> HP]. split; [reflexivity|].
      destruct HP as [HP|HP]; [left; exact HP|]. right; right. exists ins, ld.
      destruct g; cbn in HP; destruct HP as [HP|HP]; try discriminate; auto.
    - destruct ((pid p =? n) && accepts p); [|intros []].
      match goal with |- context [load_one ?a ?b ?c] =>
        destruct (load_one_T a b c) as (A1 & A2 & _); pose proof (load_one_FS a b c) as HF end.
      apply K; cbn in *; auto.
      intros c0 set0 t0 Hin. destruct (HF c0 set0 t0 Hin) as [-> HP]. split; [reflexivity|auto]. }
  assert (EndCase : forall ok fc, In (FnStart c set t) (snd (do_fn_end s ok fc)) ->
            (now s <= t <= now (fst (do_fn_end s ok fc)))%N /\
            ((g_lastsub (gh (fst (do_fn_end s ok fc))) + T <= t)%N \/ forcedw s \/ (exists w, e = Wait w true) \/ kept_waiting (dm s))).
  { intros ok fc. unfold do_fn_end. destruct (dm s) eqn:Ed; try (intros []).
    destruct ok.
    - match goal with |- context [release ?x] =>
        destruct (release_FS x) as (R1 & R2 & R3); destruct (release_T x) as (R4 & _); destruct (release x) as [s2 o1] end.
      cbn [fst snd now tmo waiters set_gh set_calls] in *.
      assert (Hw : forcedw s2 -> forcedw s) by (intros (w & Hin & Hc); exists w; auto).
      destruct fc.
      + pose proof (continue_round_T (set_event s2 false) ins []) as (A1 & A2 & _).
        pose proof (continue_round_FS (set_event s2 false) ins []) as HF.
        destruct (continue_round (set_event s2 false) ins []) as [s3 o2]. cbn [fst snd] in *.
        apply (K (s3, [FnEnd (callno s - 1) true ins] ++ o1 ++ o2)); cbn [fst snd tmo now set_event] in *; [congruence|congruence|].
        intros c0 set0 t0 Hin. apply in_app_or in Hin as [[Hin|[]]|Hin]; [discriminate|].
        apply in_app_or in Hin as [Hin|Hin]; [destruct (R1 _ _ _ Hin)|].
        destruct (HF c0 set0 t0 Hin) as [-> HP]. split; [cbn; congruence|auto].
      + unfold end_round. pose proof (start_round_T s2) as (A1 & A2 & _).
        pose proof (start_round_FS s2) as HF.
        destruct (start_round s2) as [s3 o2]. cbn [fst snd] in *.
        apply (K (s3, [FnEnd (callno s - 1) true ins] ++ o1 ++ o2)); cbn [fst snd tmo now set_event] in *; [congruence|congruence|].
        intros c0 set0 t0 Hin. apply in_app_or in Hin as [[Hin|[]]|Hin]; [discriminate|].
        apply in_app_or in Hin as [Hin|Hin]; [destruct (R1 _ _ _ Hin)|].
        destruct (HF c0 set0 t0 Hin) as [-> HP]. split; [congruence|auto].
    - pose proof (continue_round_T s ins []) as (A1 & A2 & _).
      pose proof (continue_round_FS s ins []) as HF.
      destruct (continue_round s ins []) as [s1 o1]. cbn [fst snd] in *.
      apply (K (s1, [FnEnd (callno s - 1) false ins] ++ o1)); cbn [fst snd] in *; [congruence|congruence|].
      intros c0 set0 t0 Hin. apply in_app_or in Hin as [[Hin|[]]|Hin]; [discriminate|].
      destruct (HF c0 set0 t0 Hin) as [-> HP]. split; [congruence|auto]. }
  destruct e; try apply PutCase; try apply FeedCase; try apply EndCase; try (intros [H|[]]; discriminate); try (intros []).
  - (* Advance *)
    unfold do_advance. destruct (dm s) as [|ins ld g|ins d|ins p|ins|] eqn:Ed; try (intros []).
    + destruct g; try (intros []). destruct (d <=? now s + dt)%N; intros [].
    + specialize (H3 d eq_refl). destruct (d <=? now s + dt)%N eqn:El; [|intros []].
      match goal with |- context [run_func ?a ?b] =>
        destruct (run_func_T a b) as (A1 & A2 & A3 & _); pose proof (run_func_FS a b) as HF; destruct (run_func a b) as [s1 o] end.
      cbn [fst snd now tmo gh set_now set_lastfire] in *.
      intros Hin. destruct (HF c set t Hin) as [-> _]. cbn [now set_now set_lastfire]. split; [lia|]. left. rewrite A3. lia.
  - (* Wait *)
    unfold do_wait. destruct (existsb (Nat.eqb w) (wseen s)); [intros []|].
    unfold wait_core. match goal with |- context [unfinished ?x =? 0] => destruct (unfinished x =? 0) end; [|intros []].
    cbn [dm set_gh set_wseen evset].
    destruct (dm s) eqn:Ed; try (destruct (evset s); [intros [H|[]]; discriminate|intros []]).
    + destruct g; try (destruct (evset s); [intros [H|[]]; discriminate|intros []]). destruct cancel; intros [].
    + destruct cancel; [|intros []].
      match goal with |- context [run_func ?a ?b] =>
        destruct (run_func_T a b) as (A1 & A2 & _); pose proof (run_func_FS a b) as HF end.
      apply K; cbn in *; auto.
      intros c0 set0 t0 Hin. destruct (HF c0 set0 t0 Hin) as [-> _]. split; [reflexivity|]. right; left. eauto.
Qed.

(* ---- (3) nothing slow: every producer the buffer still has to look at has
        already ended (or failed), and the daemon is not parked on a producer ------ *)
Definition all_fin (ps : list prod) : Prop := forall p, In p ps -> p_fin p = true.
Definition parked (d : daemon) : bool :=
  match d with DGather _ _ _ | DLoadOne _ _ => false | _ => true end.
Definition Calm (s : state) : Prop := parked (dm s) = true /\ all_fin (q s).

Lemma all_fin_nil : all_fin [].
Proof. intros p []. Qed.

Lemma load_all_fin ps : all_fin ps -> exists ys fs, load_all ps = ([], ys, fs).
Proof.
  induction ps as [|p r IH]; intros H; cbn [load_all]; [eauto|].
  destruct IH as (ys & fs & E); [intros p0 H0; apply H; right; exact H0|].
  rewrite E, (H p (or_introl eq_refl)). eauto.
Qed.

Lemma run_func0_C s ins : q s = [] -> Calm (fst (run_func0 s ins)).
Proof.
  intros Hq. unfold run_func0. destruct ins.
  - unfold release, Calm; cbn. rewrite Hq. split; [reflexivity|apply all_fin_nil].
  - unfold Calm; cbn. rewrite Hq. split; [reflexivity|apply all_fin_nil].
Qed.

Lemma continue_round_C s ins ld : all_fin (ld ++ q s) -> Calm (fst (continue_round s ins ld)).
Proof.
  intros H. unfold continue_round. destruct (load_all_fin _ H) as (ys & fs & E). rewrite E.
  set (u := unfinished s - length (q s)).
  destruct ((u =? 0) && wants_cancel (waiters (set_q s [] u))).
  - apply run_func0_C. destruct (u =? 0); reflexivity.
  - destruct (u =? 0); cbn; (split; [reflexivity|apply all_fin_nil]).
Qed.

Lemma start_round_C s : all_fin (q s) -> Calm (fst (start_round s)).
Proof.
  intros H. unfold start_round. destruct (q s) as [|p r] eqn:Eq.
  - unfold Calm; cbn. rewrite Eq. split; [reflexivity|apply all_fin_nil].
  - apply continue_round_C. cbn. exact H.
Qed.

Lemma run_func_C s ins : all_fin (q s) -> Calm (fst (run_func s ins)).
Proof.
  intros H. unfold run_func. destruct ins.
  - unfold end_round. pose proof (start_round_C (fst (release s))) as P.
    destruct (release s) as [s1 o1] eqn:E. cbn [fst] in P.
    assert (Hq : q s1 = q s) by (unfold release in E; inversion E; reflexivity).
    destruct (start_round s1) as [s2 o2]. cbn [fst] in *. apply P. rewrite Hq. exact H.
  - unfold Calm; cbn. split; [reflexivity|exact H].
Qed.

Lemma load_one_C s ins p : p_fin p = true -> all_fin (q s) -> Calm (fst (load_one s ins p)).
Proof.
  intros Hp H. unfold load_one. rewrite Hp. apply continue_round_C. cbn. exact H.
Qed.

Lemma Calm_now s t : Calm s -> Calm (set_now s t).
Proof. intros H; exact H. Qed.

Lemma calm_stay s s' : Calm s -> dm s' = dm s -> q s' = q s -> Calm s'.
Proof. unfold Calm. intros H E1 E2. rewrite E1, E2. exact H. Qed.

Lemma step_calm s e : Calm s -> is_imm_ev e = true -> Calm (fst (step s e)).
Proof.
  intros HC He. pose proof HC as [Hp Hq]. unfold step. destruct (is_dead s) eqn:Hdead; [exact HC|].
  destruct e; try discriminate.
  - (* Submit *)
    cbn in He. unfold do_put. destruct (existsb (Nat.eqb p) (seen s)); [exact HC|].
    match goal with |- context [on_put ?x] => set (s4 := x) end.
    assert (E4 : dm s4 = dm s /\ q s4 = q s ++ [mk_prod p k]) by (unfold s4; cbn; auto).
    destruct E4 as (E41 & E42). clearbody s4.
    assert (Hq4 : all_fin (q s4)).
    { rewrite E42. intros p0 Hin. apply in_app_or in Hin as [Hin|[<-|[]]]; [auto|]. apply (imm_prod_loads p k He). }
    assert (HC4 : Calm s4) by (split; [rewrite E41; exact Hp|exact Hq4]).
    clear HC Hp Hq E41 E42.
    unfold on_put. destruct (dm s4) eqn:Ed; try exact HC4.
    + apply start_round_C. exact Hq4.
    + destruct HC4 as [H _]. rewrite Ed in H. discriminate.
    + destruct (q s4) as [|p1 r1] eqn:Eq4; [exact HC4|].
      apply load_one_C; [apply Hq4; left; reflexivity|]. cbn. intros p0 H0. apply Hq4. right. exact H0.
  - (* Advance *)
    unfold do_advance. destruct (dm s) as [|ins ld g|ins d|ins p|ins|] eqn:Ed;
      try (solve [apply (calm_stay s _ HC); cbn; auto]).
    + try rewrite Ed in Hp; discriminate.
    + destruct (d <=? now s + dt)%N; [|apply (calm_stay s _ HC); cbn; auto].
      match goal with |- context [run_func ?a ?b] => pose proof (run_func_C a b Hq) as P; destruct (run_func a b) as [s1 o] end.
      exact P.
  - (* Wait *)
    unfold do_wait. destruct (existsb (Nat.eqb w) (wseen s)); [exact HC|].
    unfold wait_core. match goal with |- context [unfinished ?x =? 0] => destruct (unfinished x =? 0) end;
      [|apply (calm_stay s _ HC); cbn; auto].
    cbn [dm set_gh set_wseen evset].
    destruct (dm s) eqn:Ed; try (solve [destruct (evset s); apply (calm_stay s _ HC); cbn; auto]).
    + try rewrite Ed in Hp; discriminate.
    + destruct cancel; [apply run_func_C; exact Hq|apply (calm_stay s _ HC); cbn; auto].
  - (* FnOk *)
    unfold do_fn_end. destruct (dm s) eqn:Ed; try exact HC.
    match goal with |- context [release ?x] => destruct (release x) as [s2 o1] eqn:E end.
    assert (Hq2 : q s2 = q s) by (unfold release in E; inversion E; reflexivity).
    unfold end_round. pose proof (start_round_C s2) as P. destruct (start_round s2) as [s3 o2]. apply P. rewrite Hq2. exact Hq.
  - (* FnFail *)
    unfold do_fn_end. destruct (dm s) eqn:Ed; try exact HC.
    pose proof (continue_round_C s ins []) as P. destruct (continue_round s ins []) as [s1 o1]. apply P. exact Hq.
  - (* Shutdown *)
    split; [reflexivity|exact Hq].
Qed.

Lemma run_calm evs : forall s, Calm s -> imm_only evs = true -> Calm (fst (run s evs)).
Proof.
  induction evs as [|e r IH]; intros s HS Hi; cbn [run]; [exact HS|].
  unfold imm_only in Hi. cbn [forallb] in Hi. apply andb_prop in Hi as [He Hr].
  pose proof (step_calm s e HS He) as H1. destruct (step s e) as [s1 o]. cbn [fst] in H1.
  specialize (IH s1 H1 Hr). destruct (run s1 r). exact IH.
Qed.

Lemma final_calm T evs : imm_only evs = true -> Calm (final T evs).
Proof. apply run_calm. split; [reflexivity|apply all_fin_nil]. Qed.

(* C08 not_early *)
Lemma not_early_lemma T evs e c set t :
  imm_only (evs ++ [e]) = true ->
  In (FnStart c set t) (snd (step (final T evs) e)) ->
  (g_lastsub (gh (fst (step (final T evs) e))) + T <= t)%N \/
  forcedw (final T evs) \/ (exists w, e = Wait w true).
Proof.
  intros Hi Hin. unfold imm_only in Hi. rewrite forallb_app in Hi. apply andb_prop in Hi as [Hi _].
  destruct (fnstart_cause T _ e c set t (final_time T evs) Hin) as [_ [H|[H|[H|H]]]]; auto.
  destruct (final_calm T evs Hi) as [Hp _]. destruct H as (ins & ld & [H|H]); rewrite H in Hp; discriminate.
Qed.

(* the ghost [g_lastsub] is the instant of the latest accepted submission *)
Definition accepted_submit (s : state) (e : event) : bool :=
  negb (is_dead s) &&
  match e with Submit p _ | FPut p _ => negb (existsb (Nat.eqb p) (seen s)) | _ => false end.

Lemma lastsub_step T s e : TimeOK T s ->
  g_lastsub (gh (fst (step s e))) = if accepted_submit s e then now s else g_lastsub (gh s).
Proof.
  intros HT. unfold step, accepted_submit. destruct (is_dead s); [reflexivity|]. cbn [negb andb].
  assert (PutCase : forall p k cl, g_lastsub (gh (fst (do_put s p k cl))) =
                      if negb (existsb (Nat.eqb p) (seen s)) then now s else g_lastsub (gh s)).
  { intros p k cl. unfold do_put. destruct (existsb (Nat.eqb p) (seen s)); [reflexivity|]. cbn [negb].
    match goal with |- context [on_put ?x] => set (s4 := x) end.
    assert (E4 : g_lastsub (gh s4) = now s) by (unfold s4; destruct cl; reflexivity). clearbody s4.
    unfold on_put. destruct (dm s4); try exact E4.
    - destruct (start_round_T s4) as (_ & _ & A & _). congruence.
    - destruct g; try exact E4. destruct (q s4); exact E4.
    - destruct (q s4); [exact E4|]. match goal with |- context [load_one ?a ?b ?c] => destruct (load_one_T a b c) as (_ & _ & A & _) end.
      cbn in A. congruence. }
  assert (FeedCase : forall n a, g_lastsub (gh (fst (do_feed s n a))) = g_lastsub (gh s)).
  { intros n a. unfold do_feed. destruct (negb (open_here s n)); [reflexivity|].
    destruct (dm s); try reflexivity.
    - destruct (load_all (map (feed_if n a) ld)) as [[rem ys] fs]. destruct rem; [|reflexivity].
      match goal with |- context [after_gather ?a ?b ?c] => destruct (after_gather_T a b c) as (_ & _ & A & _) end. exact A.
    - destruct ((pid p =? n) && accepts p); [|reflexivity].
      match goal with |- context [load_one ?a ?b ?c] => destruct (load_one_T a b c) as (_ & _ & A & _) end. exact A. }
  assert (EndCase : forall ok fc, g_lastsub (gh (fst (do_fn_end s ok fc))) = g_lastsub (gh s)).
  { intros ok fc. unfold do_fn_end. destruct (dm s); try reflexivity. destruct ok.
    - match goal with |- context [release ?x] => destruct (release_T x) as (_ & _ & R & _); destruct (release x) as [s2 o1] end.
      cbn in R. destruct fc.
      + destruct (continue_round_T (set_event s2 false) ins []) as (_ & _ & A & _).
        destruct (continue_round (set_event s2 false) ins []). cbn in *. congruence.
      + unfold end_round. destruct (start_round_T s2) as (_ & _ & A & _). destruct (start_round s2). cbn in *. congruence.
    - destruct (continue_round_T s ins []) as (_ & _ & A & _). destruct (continue_round s ins []). exact A. }
  destruct e; try apply PutCase; try apply FeedCase; try apply EndCase; try reflexivity.
  - unfold do_advance. destruct (dm s) as [|ins ld g|ins d|ins p|ins|]; try reflexivity.
    + destruct g; try reflexivity. destruct (d <=? now s + dt)%N; reflexivity.
    + destruct (d <=? now s + dt)%N; [|reflexivity].
      match goal with |- context [run_func ?a ?b] => destruct (run_func_T a b) as (_ & _ & A & _); destruct (run_func a b) end. exact A.
  - unfold do_wait. destruct (existsb (Nat.eqb w) (wseen s)); [reflexivity|].
    unfold wait_core. match goal with |- context [unfinished ?x =? 0] => destruct (unfinished x =? 0) end; [|reflexivity].
    cbn [dm set_gh set_wseen evset]. destruct (dm s); try (destruct (evset s); reflexivity).
    + destruct g; try (destruct (evset s); reflexivity). destruct cancel; reflexivity.
    + destruct cancel; [|reflexivity].
      match goal with |- context [run_func ?a ?b] => destruct (run_func_T a b) as (_ & _ & A & _) end. exact A.
Qed.

(* ---- (4) debounce from every reachable idle state -------------------------------- *)
Lemma debounce_reachable T evs g0 p0 k0 rest d :
  (0 < T)%N -> let s := final T evs in
  dm s = DIdle -> waiters s = [] ->
  is_imm k0 = true -> existsb (Nat.eqb p0) (seen s) = false ->
  burst_ok T (seen s ++ [p0]) rest -> (T <= d)%N ->
  let b := (g0, p0, k0) :: rest in
  snd (run s (burst_events b ++ [Advance d])) =
  quiet (length (burst_events b)) ++
  [call_obs (callno s) (set_addl (burst_args b) []) (now s + burst_span b + T)].
Proof.
  intros HT s Hd Hw Hk Hf Hok Hdd b.
  destruct (idle_settled T evs Hd) as [Hq Hu].
  pose proof (t_tmo _ _ (final_time T evs)) as Etmo. fold s in Hq, Hu, Etmo.
  pose proof (debounce_lemma s g0 p0 k0 rest d) as L. rewrite Etmo in L.
  apply L; auto. repeat split; auto.
Qed.

(* ---- statements over reachable states, as used by props/C08.v -------------------- *)
Lemma call_start_cause_lemma (T : N) (evs : list event) (e : event) c set t :
    let s := final T evs in
    In (FnStart c set t) (snd (step s e)) ->
    (now s <= t <= now (fst (step s e)))%N /\
    ((g_lastsub (gh (fst (step s e))) + T <= t)%N \/
     forcedw s \/ (exists w, e = Wait w true) \/ kept_waiting (dm s)).
Proof. intros s. apply fnstart_cause. apply final_time. Qed.

Lemma lastsub_final (T : N) (evs : list event) (e : event) :
    let s := final T evs in
    g_lastsub (gh (fst (step s e))) = if accepted_submit s e then now s else g_lastsub (gh s).
Proof. intros s. apply (lastsub_step T). apply final_time. Qed.

Lemma armed_bounds_final (T : N) (evs : list event) d :
    let s := final T evs in
    armed_deadline (dm s) = Some d ->
    (g_lastsub (gh s) + T <= d /\ d <= now s + T)%N /\ tmo s = T.
Proof.
  intros s H. destruct (final_time T evs) as [H1 H2 H3]. split; [apply H3; exact H|exact H1].
Qed.
