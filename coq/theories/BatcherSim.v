(* BatcherSim.v — model-side facts used by the completeness proof of the monitor
   ok_C11 (Case_Batcher_C11.v), for event lists without Chain events:
   * [ZInv]: no caller task has further calls to make, so [wake_all] = [wake];
   * [RA]: how [running] and [g_started] grow together;
   * [do_call_view]: what one call does to the retention cache, the requests, the
     callers and the observations. *)
From Coq Require Import List Arith NArith Bool Lia ZifyBool ZifyNat ZifyN.
Import ListNotations.
Require Import Aiuti.Batcher Aiuti.BatcherLift Aiuti.BatcherLimits Aiuti.BatcherTime Aiuti.BatcherInv Aiuti.BatcherProps
               Aiuti.BatcherBasic.

Local Arguments N.add : simpl never.
Local Arguments N.leb : simpl never.
Local Arguments N.max : simpl never.
Local Arguments Nat.ltb : simpl never.
Local Arguments Nat.leb : simpl never.

Definition is_chain (e : event) : bool := match e with Chain _ _ _ => true | _ => false end.

(* ---- no chained tasks ---------------------------------------------------------------------- *)

Definition ZInv (s : state) : Prop := forall cl, In cl (callers s) -> cl_more cl = 0.

Lemma recalls_nil fd cs : (forall cl, In cl cs -> cl_more cl = 0) -> recalls_of fd cs = [].
Proof.
  induction cs as [|cl r IH]; simpl; auto. intros H.
  rewrite (H cl (or_introl eq_refl)). rewrite IH by (intros; apply H; now right).
  destruct (cl_st cl); auto. destruct (lookup fd (cl_fid cl)); auto.
Qed.

Lemma wake_all_Z c s : ZInv s -> wake_all c s = (fst (wake s), snd (wake s) ++ []).
Proof.
  intros Z. unfold wake_all. rewrite (recalls_nil _ _ Z). unfold sort_rc. simpl.
  destruct (wake s) as [s1 o1]. reflexivity.
Qed.

Lemma wake_Z s : ZInv s -> ZInv (fst (wake s)) /\ length (callers (fst (wake s))) = length (callers s).
Proof.
  intros Z. unfold wake. pose proof (wake_from_spec (fdone s) (now s) (callers s) 0) as (L & A & _).
  destruct (wake_from _ _ _ _) as [cs os]. simpl in *. split; auto.
  intros cl' H. simpl in H. apply In_nth_error in H as (j & Hj).
  assert (Lj : j < length (callers s)) by (rewrite <- L; apply nth_error_Some; congruence).
  destruct (nth_error (callers s) j) as [cl|] eqn:E; [|apply nth_error_None in E; lia].
  destruct (A j cl E) as (cl'' & H1 & _ & _ & _ & _ & H6 & _).
  assert (cl'' = cl') by congruence. subst. rewrite H6. apply Z. eapply nth_error_In; eauto.
Qed.

Lemma same_callers_Z s s' : callers s' = callers s -> ZInv s -> ZInv s'.
Proof. unfold ZInv. now intros ->. Qed.

Lemma do_call_Z c a ko s :
  ZInv s -> ZInv (fst (do_call c a ko 0 s)) /\ length (callers (fst (do_call c a ko 0 s))) = S (length (callers s)).
Proof.
  intros Z. unfold do_call. destruct (lookup (ret s) _) as [f|].
  - destruct (lookup (fdone s) f) as [[o t]|]; simpl; (split; [|rewrite app_length; simpl; lia]);
      intros cl H; apply in_app_or in H as [H|[<-|[]]]; auto.
  - match goal with |- context [take c ?it ?s1] => destruct (take_sameC c it s1) as (E & _) end.
    unfold ZInv. rewrite E. simpl. split; [|rewrite app_length; simpl; lia].
    intros cl H. apply in_app_or in H as [H|[<-|[]]]; auto.
Qed.

Lemma do_calls_Z c l : forall s,
  ZInv s -> ZInv (fst (do_calls c l s)) /\ length (callers (fst (do_calls c l s))) = length l + length (callers s).
Proof.
  induction l as [|[a ko] r IH]; intros s Z; simpl; auto.
  destruct (do_call_Z c a ko s Z) as [Z1 L1]. destruct (do_call c a ko 0 s) as [s1 o1]. simpl in *.
  destruct (IH s1 Z1) as [Z2 L2]. destruct (do_calls c r s1) as [s2 o2]. simpl in *. split; auto. lia.
Qed.

Lemma end_batch_Z c B o s :
  ZInv s -> ZInv (fst (end_batch c B o s)) /\ length (callers (fst (end_batch c B o s))) = length (callers s).
Proof.
  intros Z. unfold end_batch. set (s0 := set_running s _).
  pose proof (release_slot_sameC s0) as (E1 & _). destruct (release_slot s0) as [s1 o1]. simpl in *.
  pose proof (fanout_callers c (b_futs B) o s1) as E2. destruct (fanout c (b_futs B) o s1) as [s2 died]. simpl in *.
  assert (Z2 : ZInv s2) by (apply (same_callers_Z s); [congruence | exact Z]).
  rewrite (wake_all_Z c s2 Z2). simpl. destruct (wake_Z s2 Z2) as [Z3 L3]. split; auto. congruence.
Qed.

Lemma step_Z c s e :
  is_chain e = false -> ZInv s ->
  ZInv (fst (step c s e)) /\
  length (callers (fst (step c s e))) = length (callers s) +
    match e with Call _ _ => 1 | Burst l => length l | _ => 0 end.
Proof.
  intros Hc Z. destruct e as [a ko|a ko m|l|dt|b k r|b e|b|cid|n]; simpl; try discriminate.
  - destruct (do_call_Z c a ko s Z). split; auto. lia.
  - destruct (do_calls_Z c l s Z). split; auto. lia.
  - unfold ZInv. rewrite advance_callers. split; [exact Z | lia].
  - destruct (find_batch s b) as [B|]; [|split; [exact Z | simpl; lia]].
    destruct (lookup (b_futs B) k) as [f|].
    + unfold set_fut. match goal with |- context [is_done ?s0 f] => destruct (is_done s0 f) end.
      * match goal with |- context [end_batch c ?B' ?o' ?s0] => destruct (end_batch_Z c B' o' s0 Z) as [H1 H2] end.
        split; auto. simpl in H2. lia.
      * match goal with |- context [wake_all c ?s1] =>
          assert (Z1 : ZInv s1) by (apply (same_callers_Z s); [unfold resolve; destruct (0 <? c_rt c)%N; reflexivity | exact Z]);
          rewrite (wake_all_Z c s1 Z1); destruct (wake_Z s1 Z1) as [H1 H2] end.
        simpl. split; auto. rewrite H2. unfold resolve. destruct (0 <? c_rt c)%N; simpl; lia.
    + match goal with |- context [end_batch c ?B' ?o' ?s0] => destruct (end_batch_Z c B' o' s0 Z) as [H1 H2] end.
      split; auto. simpl in H2. lia.
  - destruct (find_batch s b) as [B|]; [|split; [exact Z | simpl; lia]].
    match goal with |- context [end_batch c ?B' ?o' ?s0] => destruct (end_batch_Z c B' o' s0 Z) as [H1 H2] end.
    split; auto. simpl in H2. lia.
  - destruct (find_batch s b) as [B|]; [|split; [exact Z | simpl; lia]].
    match goal with |- context [end_batch c ?B' ?o' ?s0] => destruct (end_batch_Z c B' o' s0 Z) as [H1 H2] end.
    split; auto. simpl in H2. lia.
  - unfold cancel_caller. destruct (nth_error (callers s) cid) as [cl|] eqn:E; [|split; [exact Z | simpl; lia]].
    destruct (cl_st cl); [split; [exact Z | simpl; lia]|]. cbn [fst].
    assert (Lc : cid < length (callers s)) by (apply nth_error_Some; congruence).
    set (cl1 := mkcaller _ _ _ _ (Some Cancelled) _ _ _).
    match goal with |- ZInv ?s' /\ _ =>
      assert (Ec : callers s' = firstn cid (callers s) ++ cl1 :: skipn (S cid) (callers s)) by reflexivity end.
    unfold ZInv. rewrite Ec. split.
    + intros cl' H. apply in_replace_nth in H as [->|H]; [simpl; apply Z; eapply nth_error_In; eauto | now apply Z].
    + rewrite app_length. cbn [length]. rewrite firstn_length, skipn_length. lia.
  - split; [exact Z | simpl; lia].
Qed.

(* every completion of a step whose event makes no call is for a caller that existed before *)
Lemma step_old_ids c s e i o t :
  is_chain e = false -> ZInv s -> match e with Call _ _ | Burst _ => False | _ => True end ->
  In (CallerDone i o t) (snd (step c s e)) -> i < length (callers s).
Proof.
  intros Hc Z He H. destruct (step_Dn c s e) as [_ D]. destruct (D i o t H) as (cl & Hn & _).
  destruct (step_Z c s e Hc Z) as [_ L].
  assert (i < length (callers (fst (step c s e)))) by (apply nth_error_Some; congruence).
  destruct e; try contradiction; lia.
Qed.

(* ---- running and g_started grow together ----------------------------------------------------------- *)

Definition B_of (x : nat * list item * N) : batch := let '(b, its, _) := x in mkbatch b its (futs_of its).

Definition RA (s s' : state) : Prop :=
  exists new, g_started s' = g_started s ++ new /\ running s' = running s ++ map B_of new.

Lemma RA_refl s s' : g_started s' = g_started s -> running s' = running s -> RA s s'.
Proof. intros E1 E2. exists []. simpl. now rewrite !app_nil_r. Qed.

Lemma RA_trans s1 s2 s3 : RA s1 s2 -> RA s2 s3 -> RA s1 s3.
Proof.
  intros (n1 & A1 & B1) (n2 & A2 & B2). exists (n1 ++ n2).
  rewrite A2, A1, B2, B1, map_app, <- !app_assoc. auto.
Qed.

Lemma start_batch_RA its s : RA s (fst (start_batch its s)).
Proof. exists [(nbid s, its, now s)]. split; reflexivity. Qed.

Lemma dispatch_RA its s : RA s (fst (dispatch its s)).
Proof.
  unfold dispatch. cbn [free set_spawn waiting]. destruct (0 <? free s).
  - match goal with |- RA _ (fst (start_batch its ?s1)) => pose proof (start_batch_RA its s1) as H end. exact H.
  - now apply RA_refl.
Qed.

Lemma release_slot_RA s : RA s (fst (release_slot s)).
Proof.
  unfold release_slot. destruct (waiting s) as [|w ws]; [now apply RA_refl|].
  pose proof (start_batch_RA w (set_waiting s ws)) as H. exact H.
Qed.

Lemma take_RA c it s : RA s (fst (take c it s)).
Proof.
  unfold take. destruct (_ <? maxb s); [now apply RA_refl|].
  match goal with |- RA _ (fst (dispatch ?x ?s1)) => pose proof (dispatch_RA x s1) as H end. exact H.
Qed.

Lemma do_call_RA c a ko m s : RA s (fst (do_call c a ko m s)).
Proof.
  unfold do_call. destruct (lookup (ret s) _) as [f|].
  - destruct (lookup (fdone s) f) as [[o t]|]; now apply RA_refl.
  - match goal with |- RA _ (fst (take c ?it ?s1)) => pose proof (take_RA c it s1) as H end. exact H.
Qed.

Lemma call_RA_ok c a ko m s :
  True -> True /\ (fun s s' (_ : list obs) => RA s s') s (fst (do_call c a ko m s)) (snd (do_call c a ko m s)).
Proof. intros _. split; auto. apply do_call_RA. Qed.

Lemma do_calls_RA c l s : RA s (fst (do_calls c l s)).
Proof.
  apply (lift_calls c (fun _ => True) (fun s s' _ => RA s s') (fun s _ => RA_refl s s eq_refl eq_refl)
           (fun s1 s2 s3 _ _ => RA_trans s1 s2 s3) (call_RA_ok c) l s Logic.I).
Qed.

Lemma wake_all_RA c s : RA s (fst (wake_all c s)).
Proof.
  apply (lift_wake_all c (fun _ => True) (fun s s' _ => RA s s') (fun s _ => RA_refl s s eq_refl eq_refl)
           (fun s1 s2 s3 _ _ => RA_trans s1 s2 s3) (call_RA_ok c)); auto.
  intros s0 _. split; auto. unfold wake. destruct (wake_from _ _ _ _). now apply RA_refl.
Qed.

Lemma fanout_RA c l o s : RA s (fst (fanout c l o s)).
Proof. destruct (fanout_sameS c l o s) as (_ & _ & E3 & _ & E5 & _). now apply RA_refl. Qed.

Lemma fire_at_RA t s : RA s (fst (fire_at t s)).
Proof.
  unfold fire_at. set (s2 := set_rtimers _ _). destruct (coll s2) as [[its dl]|]; [|now apply RA_refl].
  destruct (dl <=? t)%N; [|now apply RA_refl].
  match goal with |- RA _ (fst (dispatch its ?s3)) => pose proof (dispatch_RA its s3) as H end. exact H.
Qed.

Lemma advance_RA fuel target : forall s, RA s (fst (advance fuel target s)).
Proof.
  induction fuel as [|n IH]; intros s; simpl; [now apply RA_refl|].
  destruct (next_deadline s) as [t|]; [|now apply RA_refl]. destruct (t <=? target)%N; [|now apply RA_refl].
  pose proof (fire_at_RA t s) as H1. destruct (fire_at t s) as [s1 o1].
  specialize (IH s1). destruct (advance n target s1) as [s2 o2]. simpl in *. eapply RA_trans; eauto.
Qed.

(* the end of batch B: B leaves, then appends *)
Lemma end_batch_RA c B o s :
  RA (set_running s (filter (fun x => negb (Nat.eqb (b_id x) (b_id B))) (running s))) (fst (end_batch c B o s)).
Proof.
  unfold end_batch. set (s0 := set_running s _).
  pose proof (release_slot_RA s0) as D1. destruct (release_slot s0) as [s1 o1]. simpl in *.
  pose proof (fanout_RA c (b_futs B) o s1) as D2. destruct (fanout c (b_futs B) o s1) as [s2 died]. simpl in *.
  pose proof (wake_all_RA c s2) as D3. destruct (wake_all c s2) as [s3 o3]. simpl in *.
  eapply RA_trans; [exact D1|]. eapply RA_trans; eauto.
Qed.
