(* Cache.v — executable small-step model of aiuti.asyncio.threadsafe_async_cache
   (aiuti/asyncio.py l.387-499, after the fix commits F1, F2, F2b).  No proofs here.

   The model is an event-labelled transition system: [step s e = Some s'] means "in state s the
   cache (or its environment) may perform the visible event e and the state becomes s'";
   [None] means "the model cannot do e here".  The events are exactly the entries of the canonical
   trace recorded by harness/cache_drv.py when it runs the REAL code under gated threads:

     Get/Miss/Acq/Rel/SetC/XSub t c   thread t performs a gated primitive on behalf of caller c
                                 (cache lookup, second gate of a lookup that missed, lock acquire,
                                 lock release, cache store, run_coroutine_threadsafe)
     IStart i c tick / IEnd i r tick   the wrapped function is entered / left (r: 0 ok 1 raise 2 cancelled)
     Cancel c tick               the environment cancels caller c's task
     Done c kind payload tick    caller c's call ends (0 Ret v, 1 UserExc inv, 2 Cancelled, 3 LibExc)
     Proxy t c r                 the cross-loop wait registered by c finished on the computing loop t
     LoopEv t w                  loop life cycle: 0 stops running, 1 shutdown begins, 2 shutdown done, 3 closed
     Adv tick                    virtual time jumps (nothing at all was enabled)
     End r                       end of the run (0 = every thread finished)

   Only the completion path of a cancelled caller (IEnd 2, Acq/Rel of the finally block, Done) and
   proxy results can happen on a loop that is being shut down; everything else needs a loop that
   has never stopped running (LRun).

   Every field of an event is a CHECKED observation: the model compares it with its own state
   (thread of the caller, hit/miss, who may run, which result a proxy may deliver, current tick).

   Source lines mirrored by the caller program counter:
     PStart/PProbe --Get-->            l.397 unlocked probe (hit: return) ; miss: second gate (PMiss1)
     PLock --Acq-->                    l.403 with event_making_lock
     PReprobe --Get-->                 l.405 locked re-probe; miss: second gate (PMiss2)
     PMiss2 --Miss-->                  l.409-424 read marker, liveness of that loop, own marker or wait
     PUnlock d --Rel-->                l.424 leaving the with-block; then
         DComp e: PInvoke e --IStart--> PComp i e     l.428 await _func
         DWait l e: same loop: PWait e (now+60s)      l.446,460,469
                    other loop: PXSub l e --XSub--> run_coroutine_threadsafe l.449
                                (closed loop: RuntimeError, l.453 -> PProbe) else PWaitX l e (now+60s)
     PComp --IEnd 0--> PPublish --SetC--> l.432 ; --IEnd 1/2--> PFinLock (exception / cancellation)
     PFinLock --Acq-->                 l.434-441 set the event, remove the marker iff still one's own (F1)
     PFinUnlock --Rel--> PFinish o --Done--> PDone o
     PWait/PWaitX --Get-->             woken (event set / proxy finished with any result, F2 F2b) or
                                        60 s timeout (l.470) -> next round of the while-loop (= probe)
     PWait/PWaitX + cancelled --Done 2-->   l.472-484
   Modelled, not verified: asyncio Event/wait_for/shield/create_task/run_coroutine_threadsafe/
   wrap_future/Task.cancel, threading.Lock, dict.  *)
From Coq Require Import List Arith NArith Bool.
Import ListNotations.

Definition SAFETY : N := 61440%N.          (* 60 s in ticks of 2^-10 s *)

(* ---- maps over nat keys as lists ---- *)
Fixpoint lget {A} (d : A) (l : list A) (n : nat) : A :=
  match l, n with
  | [], _ => d
  | x :: _, 0 => x
  | _ :: r, S m => lget d r m
  end.

Fixpoint lset {A} (d : A) (l : list A) (n : nat) (v : A) : list A :=
  match n, l with
  | 0, [] => [v]
  | 0, _ :: r => v :: r
  | S m, [] => d :: lset d [] m v
  | S m, x :: r => x :: lset d r m v
  end.

Inductive lstate := LRun | LStop | LShut | LClosed.
Inductive outcome := ORet (v : nat) | OExc (i : nat) | OCanc.
Inductive decision := DHit (v : nat) | DComp (e : nat) | DWait (l e : nat).

Inductive pc :=
| PStart | PProbe | PMiss1 | PLock | PReprobe | PMiss2
| PUnlock (d : decision)
| PInvoke (e : nat) | PComp (i e : nat) | PPublish (i e : nat)
| PFinLock (e : nat) (o : outcome) | PFinUnlock (o : outcome)
| PXSub (l e : nat)
| PWait (e : nat) (dl : N) | PWaitX (l e : nat) (dl : N) (xd : option nat) (xs : bool)
| PFinish (o : outcome) | PDone (o : outcome).

Record crec := mkC { cloop : nat; ckey : nat; cpc : pc; ccanc : bool }.

Inductive istatus := IActive | IAband | IOk | IExc | ICanc.
Record irec := mkI { ikey : nat; iloop : nat; icaller : nat; istat : istatus }.

Record state := mkS {
  cache : list (option nat);           (* _cache: key -> value (= id of the invocation that produced it) *)
  marker : list (option (nat * nat));  (* events: key -> (loop, event id) *)
  evset : list bool;                   (* event id -> is_set; length = number of events created *)
  lock : option nat;                   (* event_making_lock: owner caller *)
  loops : list lstate;
  callers : list crec;
  invs : list irec;
  now : N;
  ended : bool }.

Inductive ev :=
| Get (t c : nat) | Miss (t c : nat) | Acq (t c : nat) | Rel (t c : nat) | SetC (t c : nat) | XSub (t c : nat)
| IStart (i c : nat) (tick : N) | IEnd (i r : nat) (tick : N)
| Cancel (c : nat) (tick : N)
| Done (c kind payload : nat) (tick : N)
| Proxy (t c r : nat)
| LoopEv (t w : nat)
| Adv (tick : N)
| End (r : nat)
| Bad (code : nat).                    (* anything the driver could not classify *)

Definition dummyC := mkC 0 0 (PDone OCanc) false.
Definition dummyI := mkI 0 0 0 ICanc.

Definition init (nloops : nat) (tbl : list (nat * nat)) : state :=
  mkS [] [] [] None (repeat LRun nloops)
      (map (fun lk => mkC (fst lk) (snd lk) PStart false) tbl) [] 0%N false.

Definition lp (s : state) (t : nat) : lstate := lget LClosed (loops s) t.
Definition alive (st : lstate) : bool := match st with LRun | LShut => true | _ => false end.
Definition running (st : lstate) : bool := match st with LRun => true | _ => false end.
Definition getc (s : state) (c : nat) : option crec := nth_error (callers s) c.
Definition cache_at (s : state) (k : nat) : option nat := lget None (cache s) k.
Definition marker_at (s : state) (k : nat) : option (nat * nat) := lget None (marker s) k.
Definition isset (s : state) (e : nat) : bool := lget false (evset s) e.

Definition set_pc (s : state) (c : nat) (cr : crec) (p : pc) : state :=
  mkS (cache s) (marker s) (evset s) (lock s) (loops s)
      (lset dummyC (callers s) c (mkC (cloop cr) (ckey cr) p (ccanc cr))) (invs s) (now s) (ended s).
Definition set_lock (s : state) (o : option nat) : state :=
  mkS (cache s) (marker s) (evset s) o (loops s) (callers s) (invs s) (now s) (ended s).
Definition set_cache (s : state) (k v : nat) : state :=
  mkS (lset None (cache s) k (Some v)) (marker s) (evset s) (lock s) (loops s) (callers s) (invs s) (now s) (ended s).
Definition set_marker (s : state) (k : nat) (m : option (nat * nat)) : state :=
  mkS (cache s) (lset None (marker s) k m) (evset s) (lock s) (loops s) (callers s) (invs s) (now s) (ended s).
Definition set_evset (s : state) (l : list bool) : state :=
  mkS (cache s) (marker s) l (lock s) (loops s) (callers s) (invs s) (now s) (ended s).
Definition set_loops (s : state) (l : list lstate) : state :=
  mkS (cache s) (marker s) (evset s) (lock s) l (callers s) (invs s) (now s) (ended s).
Definition set_callers (s : state) (l : list crec) : state :=
  mkS (cache s) (marker s) (evset s) (lock s) (loops s) l (invs s) (now s) (ended s).
Definition set_invs (s : state) (l : list irec) : state :=
  mkS (cache s) (marker s) (evset s) (lock s) (loops s) (callers s) l (now s) (ended s).
Definition set_now (s : state) (t : N) : state :=
  mkS (cache s) (marker s) (evset s) (lock s) (loops s) (callers s) (invs s) t (ended s).
Definition set_ended (s : state) : state :=
  mkS (cache s) (marker s) (evset s) (lock s) (loops s) (callers s) (invs s) (now s) true.

Definition set_istat (s : state) (i : nat) (ir : irec) (st : istatus) : state :=
  set_invs s (lset dummyI (invs s) i (mkI (ikey ir) (iloop ir) (icaller ir) st)).

(* the unlocked probe of l.397 (also the first action of every further round of the while-loop) *)
Definition do_probe (s : state) (c : nat) (cr : crec) : state :=
  match cache_at s (ckey cr) with
  | Some v => set_pc s c cr (PFinish (ORet v))
  | None => set_pc s c cr PMiss1
  end.

(* l.409-424, executed under the lock right after the re-probe missed *)
Definition decide (s : state) (c : nat) (cr : crec) : state :=
  let takeover :=
    let e := length (evset s) in
    set_pc (set_evset (set_marker s (ckey cr) (Some (cloop cr, e))) (evset s ++ [false]))
           c cr (PUnlock (DComp e)) in
  match marker_at s (ckey cr) with
  | Some (l, e) => if alive (lp s l) then set_pc s c cr (PUnlock (DWait l e)) else takeover
  | None => takeover
  end.

(* l.434-441 *)
Definition fin (s : state) (c : nat) (cr : crec) (e : nat) (o : outcome) : state :=
  let s1 := set_evset s (lset false (evset s) e true) in
  let s2 := match marker_at s1 (ckey cr) with
            | Some (_, e') => if e' =? e then set_marker s1 (ckey cr) None else s1
            | None => s1
            end in
  set_pc (set_lock s2 (Some c)) c cr (PFinUnlock o).

(* a caller is at an asyncio suspension point (its thread is not inside one of its steps) *)
Definition suspended (p : pc) : bool :=
  match p with
  | PStart | PComp _ _ | PWait _ _ | PWaitX _ _ _ _ _ | PDone _ => true
  | _ => false
  end.

Definition is_done (p : pc) : bool := match p with PDone _ => true | _ => false end.
Definition done_or_unstarted (p : pc) : bool := match p with PDone _ | PStart => true | _ => false end.

Definition on_loop (t : nat) (f : crec -> bool) (cr : crec) : bool :=
  if cloop cr =? t then f cr else true.

(* nothing can move without the clock: the guard of Adv *)
Definition blocked (s : state) (tick : N) (cr : crec) : bool :=
  match lp s (cloop cr) with
  | LRun =>
    match cpc cr with
    | PStart | PDone _ => true
    | PComp _ _ => negb (ccanc cr)
    | PWait e dl => negb (ccanc cr) && negb (isset s e) && (now s <? dl)%N && (tick <=? dl)%N
    | PWaitX l e dl xd _ =>
        negb (ccanc cr) && match xd with None => true | Some _ => false end
        && (now s <? dl)%N && (tick <=? dl)%N
        && negb (isset s e && alive (lp s l))
    | _ => false
    end
  | LShut => done_or_unstarted (cpc cr)   (* the shutdown run cancels and finishes every started call at once *)
  | _ => true
  end.

Definition quiescent (s : state) (tick : N) : bool :=
  match lock s with None => forallb (blocked s tick) (callers s) | Some _ => false end.

Definition enc (o : outcome) : nat * nat :=
  match o with ORet v => (0, v) | OExc i => (1, i) | OCanc => (2, 0) end.

Definition abandon (t : nat) (ir : irec) : irec :=
  match istat ir with
  | IActive => if iloop ir =? t then mkI (ikey ir) (iloop ir) (icaller ir) IAband else ir
  | _ => ir
  end.

(* when the clock moves every loop has run dry: a proxy wait registered on a loop that is running
   has been started there (its coroutine is parked inside event.wait) *)
Definition mark_started (s : state) (cr : crec) : crec :=
  match cpc cr with
  | PWaitX l e dl xd false =>
      if alive (lp s l) then mkC (cloop cr) (ckey cr) (PWaitX l e dl xd true) (ccanc cr) else cr
  | _ => cr
  end.

Definition guard (b : bool) (s : state) : option state := if b then Some s else None.

Definition step (s : state) (e : ev) : option state :=
  if ended s then None else
  match e with
  | Get t c =>
      match getc s c with
      | Some cr =>
          if (cloop cr =? t) && running (lp s t) then
            match cpc cr with
            | PStart => guard (negb (ccanc cr)) (do_probe s c cr)
            | PProbe => Some (do_probe s c cr)
            | PWait e dl => guard (negb (ccanc cr) && (isset s e || (dl <=? now s)%N)) (do_probe s c cr)
            | PWaitX _ _ dl xd _ =>
                guard (negb (ccanc cr) && (match xd with Some _ => true | None => false end || (dl <=? now s)%N))
                      (do_probe s c cr)
            | PReprobe =>
                Some (match cache_at s (ckey cr) with
                      | Some v => set_pc s c cr (PUnlock (DHit v))
                      | None => set_pc s c cr PMiss2
                      end)
            | _ => None
            end
          else None
      | None => None
      end
  | Miss t c =>
      match getc s c with
      | Some cr =>
          if (cloop cr =? t) && running (lp s t) then
            match cpc cr with
            | PMiss1 => Some (set_pc s c cr PLock)
            | PMiss2 => Some (decide s c cr)
            | _ => None
            end
          else None
      | None => None
      end
  | Acq t c =>
      match getc s c, lock s with
      | Some cr, None =>
          if (cloop cr =? t) && alive (lp s t) then
            match cpc cr with
            | PLock => guard (running (lp s t)) (set_pc (set_lock s (Some c)) c cr PReprobe)
            | PFinLock e o => Some (fin s c cr e o)
            | _ => None
            end
          else None
      | _, _ => None
      end
  | Rel t c =>
      match getc s c, lock s with
      | Some cr, Some o =>
          if (o =? c) && (cloop cr =? t) && alive (lp s t) then
            let s1 := set_lock s None in
            match cpc cr with
            | PUnlock (DHit v) => Some (set_pc s1 c cr (PFinish (ORet v)))
            | PUnlock (DComp e) => Some (set_pc s1 c cr (PInvoke e))
            | PUnlock (DWait l e) =>
                Some (if l =? cloop cr then set_pc s1 c cr (PWait e (now s + SAFETY))
                      else set_pc s1 c cr (PXSub l e))
            | PFinUnlock oc => Some (set_pc s1 c cr (PFinish oc))
            | _ => None
            end
          else None
      | _, _ => None
      end
  | XSub t c =>
      match getc s c with
      | Some cr =>
          if (cloop cr =? t) && running (lp s t) then
            match cpc cr with
            | PXSub l e =>
                Some (match lp s l with
                      | LClosed => set_pc s c cr PProbe
                      | _ => set_pc s c cr (PWaitX l e (now s + SAFETY) None false)
                      end)
            | _ => None
            end
          else None
      | None => None
      end
  | SetC t c =>
      match getc s c with
      | Some cr =>
          if (cloop cr =? t) && running (lp s t) then
            match cpc cr with
            | PPublish i e => Some (set_pc (set_cache s (ckey cr) i) c cr (PFinLock e (ORet i)))
            | _ => None
            end
          else None
      | None => None
      end
  | IStart i c tick =>
      match getc s c with
      | Some cr =>
          if (tick =? now s)%N && (i =? length (invs s)) && running (lp s (cloop cr)) then
            match cpc cr with
            | PInvoke e =>
                Some (set_pc (set_invs s (invs s ++ [mkI (ckey cr) (cloop cr) c IActive])) c cr (PComp i e))
            | _ => None
            end
          else None
      | None => None
      end
  | IEnd i r tick =>
      match nth_error (invs s) i with
      | Some ir =>
          match getc s (icaller ir) with
          | Some cr =>
              if (tick =? now s)%N && alive (lp s (cloop cr)) then
                match cpc cr with
                | PComp i' e =>
                    if i' =? i then
                      match r, istat ir with
                      | 0, IActive =>
                          guard (negb (ccanc cr)) (set_pc (set_istat s i ir IOk) (icaller ir) cr (PPublish i e))
                      | 1, IActive =>
                          guard (negb (ccanc cr)) (set_pc (set_istat s i ir IExc) (icaller ir) cr (PFinLock e (OExc i)))
                      | 2, IActive | 2, IAband =>
                          guard (ccanc cr) (set_pc (set_istat s i ir ICanc) (icaller ir) cr (PFinLock e OCanc))
                      | _, _ => None
                      end
                    else None
                | _ => None
                end
              else None
          | None => None
          end
      | None => None
      end
  | Cancel c tick =>
      match getc s c with
      | Some cr =>
          if (tick =? now s)%N && alive (lp s (cloop cr)) && suspended (cpc cr) && negb (is_done (cpc cr)) then
            Some (set_callers s (lset dummyC (callers s) c (mkC (cloop cr) (ckey cr) (cpc cr) true)))
          else None
      | None => None
      end
  | Done c kind payload tick =>
      match getc s c with
      | Some cr =>
          if (tick =? now s)%N && alive (lp s (cloop cr)) then
            match cpc cr with
            | PFinish o =>
                guard ((fst (enc o) =? kind) && (snd (enc o) =? payload)) (set_pc s c cr (PDone o))
            | PWait _ _ | PWaitX _ _ _ _ _ =>
                guard (ccanc cr && (kind =? 2) && (payload =? 0)) (set_pc s c cr (PDone OCanc))
            | _ => None
            end
          else None
      | None => None
      end
  | Proxy t c r =>
      match getc s c with
      | Some cr =>
          match cpc cr with
          | PWaitX l e dl None xs =>
              guard ((l =? t) &&
                     match r with
                     | 0 => isset s e && alive (lp s l)
                     | 1 => match lp s l with LShut => true | _ => false end
                     | 2 => match lp s l with LShut => negb xs | _ => false end
                     | _ => false
                     end)
                    (set_pc s c cr (PWaitX l e dl (Some r) xs))
          | _ => None
          end
      | None => None
      end
  | LoopEv t w =>
      match w, lp s t with
      | 0, LRun =>
          guard (forallb (on_loop t (fun cr => suspended (cpc cr))) (callers s))
                (set_invs (set_loops s (lset LClosed (loops s) t LStop)) (map (abandon t) (invs s)))
      | 1, LStop => Some (set_loops s (lset LClosed (loops s) t LShut))
      | 2, LShut =>
          guard (forallb (on_loop t (fun cr => done_or_unstarted (cpc cr))) (callers s))
                (set_loops s (lset LClosed (loops s) t LStop))
      | 3, LStop => Some (set_loops s (lset LClosed (loops s) t LClosed))
      | _, _ => None
      end
  | Adv tick =>
      guard ((now s <=? tick)%N && quiescent s tick)
            (set_now (set_callers s (map (mark_started s) (callers s))) tick)
  | End r =>
      guard ((r =? 0) && forallb (fun st => negb (alive st)) (loops s)) (set_ended s)
  | Bad _ => None
  end.

Fixpoint run (s : state) (tr : list ev) : option state :=
  match tr with
  | [] => Some s
  | e :: r => match step s e with Some s' => run s' r | None => None end
  end.

(* number of events accepted before the first rejection (for replays / explanations) *)
Fixpoint accepted_prefix (s : state) (tr : list ev) (n : nat) : nat * option state :=
  match tr with
  | [] => (n, Some s)
  | e :: r => match step s e with Some s' => accepted_prefix s' r (S n) | None => (n, Some s) end
  end.

Definition accepts (nloops : nat) (tbl : list (nat * nat)) (tr : list ev) : bool :=
  match run (init nloops tbl) tr with Some s => ended s | None => false end.
