(* BufferTime.v — timing theorems of the buffer model for C08: a burst of
   immediately available arguments whose gaps stay below the timeout causes no
   call while it lasts and exactly one call, with the whole burst, [timeout]
   after the last arrival. *)
From Coq Require Import List Arith NArith Bool Lia ZifyBool ZifyNat ZifyN.
Import ListNotations.
Require Import Aiuti.Buffer.

Lemma yields_imm xs a : (a = AF \/ a = AE) -> yields_of false (map AY xs ++ [a]) = xs.
Proof. intros Ha; induction xs as [|x r IH]; simpl; [destruct Ha; subst; reflexivity|]. now rewrite IH. Qed.
Lemma finishes_imm xs a : (a = AF \/ a = AE) -> finishes false (map AY xs ++ [a]) = true.
Proof. intros Ha; induction xs as [|x r IH]; simpl; [destruct Ha; subst; reflexivity|]. exact IH. Qed.

Lemma imm_prod_loads p k : is_imm k = true ->
  p_fin (mk_prod p k) = true /\ p_yields (mk_prod p k) = imm_args k /\ pid (mk_prod p k) = p.
Proof.
  intros H. unfold p_fin, p_yields. destruct k; try discriminate; cbn [mk_prod single acts pid].
  all: rewrite yields_imm, finishes_imm; auto.
  all: destruct (imm_fails _); auto.
Qed.

(* the buffer has nothing outstanding: daemon parked on the first q.get() *)
Definition settled_idle (s : state) : Prop :=
  dm s = DIdle /\ q s = [] /\ unfinished s = 0 /\ waiters s = [].

(* ... is collecting: [ins] loaded, the last arrival was at [tl], the timed read
   is armed at tl + timeout and has not fired, nobody is inside wait() *)
Definition collecting (s : state) (ins : list nat) (tl : N) : Prop :=
  dm s = DAwait ins (tl + tmo s) /\ (tl <= now s /\ now s < tl + tmo s)%N /\
  q s = [] /\ unfinished s = 0 /\ waiters s = [].

Definition fresh (p : nat) (s : state) : Prop := existsb (Nat.eqb p) (seen s) = false.

Lemma submit_idle s p k :
  settled_idle s -> (0 < tmo s)%N -> fresh p s -> is_imm k = true ->
  exists s', step s (Submit p k) = (s', []) /\
             collecting s' (set_addl (imm_args k) []) (now s) /\ now s' = now s /\
             tmo s' = tmo s /\ callno s' = callno s /\ seen s' = seen s ++ [p].
Proof.
  intros (Hd & Hq & Hu & Hw) HT Hf Hk. destruct (imm_prod_loads p k Hk) as (Hfin & Hy & Hp).
  unfold step, is_dead. rewrite Hd. unfold do_put. rewrite Hf.
  unfold on_put. cbn [dm set_gh set_q set_event set_seen]. rewrite Hd.
  unfold start_round. cbn [q set_gh set_q set_event set_seen]. rewrite Hq. cbn [app].
  unfold continue_round. cbn [q set_gh set_q set_event set_seen unfinished app length waiters]. rewrite Hu, Hw.
  cbn [load_all]. rewrite Hfin, Hy, Hp. cbn [Nat.sub Nat.eqb andb wants_cancel existsb].
  eexists. split; [reflexivity|].
  unfold collecting. cbn. rewrite app_nil_r. repeat split; try reflexivity; lia.
Qed.

Lemma submit_collecting s ins tl p k :
  collecting s ins tl -> fresh p s -> is_imm k = true ->
  exists s', step s (Submit p k) = (s', []) /\
             collecting s' (set_addl (imm_args k) ins) (now s) /\ now s' = now s /\
             tmo s' = tmo s /\ callno s' = callno s /\ seen s' = seen s ++ [p].
Proof.
  intros (Hd & Hn & Hq & Hu & Hw) Hf Hk. destruct (imm_prod_loads p k Hk) as (Hfin & Hy & Hp).
  unfold step, is_dead. rewrite Hd. unfold do_put. rewrite Hf.
  unfold on_put. cbn [dm set_gh set_q set_event set_seen]. rewrite Hd.
  cbn [q set_gh set_q set_event set_seen]. rewrite Hq. cbn [app].
  unfold load_one. rewrite Hfin, Hy, Hp.
  unfold continue_round. cbn [q set_gh set_q set_event set_seen unfinished app length waiters load_gh]. rewrite Hu, Hw.
  cbn [load_all Nat.sub Nat.eqb andb wants_cancel existsb].
  eexists. split; [reflexivity|].
  unfold collecting. cbn. repeat split; try reflexivity; lia.
Qed.

(* time passes without reaching the deadline: nothing happens *)
Lemma advance_quiet s ins tl g :
  collecting s ins tl -> (now s + g < tl + tmo s)%N ->
  exists s', step s (Advance g) = (s', []) /\ collecting s' ins tl /\ now s' = (now s + g)%N /\
             tmo s' = tmo s /\ callno s' = callno s /\ seen s' = seen s.
Proof.
  intros (Hd & Hn & Hq & Hu & Hw) Hg.
  unfold step, is_dead. rewrite Hd. unfold do_advance. rewrite Hd.
  assert (E : (tl + tmo s <=? now s + g)%N = false) by lia. rewrite E.
  eexists. split; [reflexivity|]. unfold collecting. cbn. repeat split; try assumption; try reflexivity; lia.
Qed.

Lemma advance_idle s g :
  settled_idle s ->
  exists s', step s (Advance g) = (s', []) /\ settled_idle s' /\ now s' = (now s + g)%N /\
             tmo s' = tmo s /\ callno s' = callno s /\ seen s' = seen s.
Proof.
  intros (Hd & Hq & Hu & Hw).
  unfold step, is_dead. rewrite Hd. unfold do_advance. rewrite Hd.
  eexists. split; [reflexivity|]. unfold settled_idle. cbn. repeat split; assumption.
Qed.

(* the deadline is reached: the function is called, at the deadline, with
   everything collected (or not at all when that is nothing) *)
Definition call_obs (c : nat) (ins : list nat) (t : N) : list obs :=
  match ins with [] => [] | _ => [FnStart c ins t] end.

Lemma advance_fire s ins tl d :
  collecting s ins tl -> (tl + tmo s <= now s + d)%N ->
  exists s', step s (Advance d) = (s', call_obs (callno s) ins (tl + tmo s)).
Proof.
  intros (Hd & Hn & Hq & Hu & Hw) Hg.
  unfold step, is_dead. rewrite Hd. unfold do_advance. rewrite Hd.
  assert (E : (tl + tmo s <=? now s + d)%N = true) by lia. rewrite E.
  assert (Em : N.max (now s) (tl + tmo s) = (tl + tmo s)%N) by lia. rewrite Em.
  unfold run_func. destruct ins as [|x r].
  - unfold release. cbn [waiters set_lastfire set_now]. rewrite Hw. cbn [filter map].
    unfold end_round, start_round. cbn [q set_gh set_waiters set_event set_lastfire set_now]. rewrite Hq.
    eexists. reflexivity.
  - eexists. reflexivity.
Qed.

Lemma set_addl_app a b l : set_addl (a ++ b) l = set_addl b (set_addl a l).
Proof. unfold set_addl. apply fold_left_app. Qed.

(* ---- bursts ---------------------------------------------------------------- *)
Definition item := (N * nat * pkind)%type.      (* gap before the submission, pid, producer *)
Definition item_events (i : item) : list event := let '(g, p, k) := i in [Advance g; Submit p k].
Definition burst_events (b : list item) : list event := flat_map item_events b.
Definition burst_args (b : list item) : list nat := flat_map (fun i => imm_args (snd i)) b.
Definition burst_span (b : list item) : N := fold_right (fun i acc => (fst (fst i) + acc)%N) 0%N b.
Definition quiet (n : nat) : list (list obs) := repeat [] n.

(* every producer immediate, pids new and distinct, gaps below the timeout *)
Fixpoint burst_ok (T : N) (seen : list nat) (b : list item) : Prop :=
  match b with
  | [] => True
  | (g, p, k) :: r =>
      (g < T)%N /\ is_imm k = true /\ existsb (Nat.eqb p) seen = false /\ burst_ok T (seen ++ [p]) r
  end.

Lemma burst_from_collecting b : forall s ins tl d,
  collecting s ins tl -> now s = tl -> burst_ok (tmo s) (seen s) b -> (tmo s <= d)%N ->
  snd (run s (burst_events b ++ [Advance d])) =
  quiet (length (burst_events b)) ++
  [call_obs (callno s) (set_addl (burst_args b) ins) (tl + burst_span b + tmo s)].
Proof.
  induction b as [|[[g p] k] r IH]; intros s ins tl d Hc Hnow Hok Hd.
  - cbn [burst_events flat_map app run length quiet repeat burst_args burst_span fold_right set_addl fold_left].
    destruct (advance_fire s ins tl d Hc) as (s' & E); [lia|]. rewrite E. cbn. f_equal. f_equal. lia.
  - destruct Hok as (Hg & Hk & Hf & Hok).
    cbn [burst_events flat_map item_events app run].
    destruct (advance_quiet s ins tl g Hc) as (s1 & E1 & Hc1 & Hn1 & HT1 & Hcn1 & Hs1); [lia|].
    rewrite E1.
    assert (Hf1 : fresh p s1) by (unfold fresh; rewrite Hs1; exact Hf).
    destruct (submit_collecting s1 ins tl p k Hc1 Hf1 Hk) as (s2 & E2 & Hc2 & Hn2 & HT2 & Hcn2 & Hs2).
    rewrite E2.
    specialize (IH s2 (set_addl (imm_args k) ins) (now s1) d Hc2 Hn2).
    rewrite HT2, HT1, Hs2, Hs1 in IH. specialize (IH Hok Hd).
    fold (burst_events r).
    destruct (run s2 (burst_events r ++ [Advance d])) as [s3 os]. cbn [snd] in *. rewrite IH.
    cbn [length quiet repeat app burst_args flat_map snd burst_span fold_right fst].
    fold (burst_args r). rewrite set_addl_app.
    rewrite Hcn2, Hcn1, Hn1, Hnow. fold (burst_span r). unfold quiet.
    replace (tl + (g + burst_span r) + tmo s)%N with (tl + g + burst_span r + tmo s)%N by lia. reflexivity.
Qed.

(* C08 debounce_single_call_at_timeout.  From a settled buffer: a burst of
   immediately available producers (first one after any delay g0, the others
   less than [timeout] after their predecessor), followed by a quiet period of
   at least [timeout], produces no observation during the burst and exactly one
   call — with the whole burst — exactly [timeout] after the last arrival (no
   call at all when the burst carried no argument). *)
Lemma debounce_lemma s g0 p0 k0 rest d :
  settled_idle s -> (0 < tmo s)%N ->
  is_imm k0 = true -> existsb (Nat.eqb p0) (seen s) = false ->
  burst_ok (tmo s) (seen s ++ [p0]) rest -> (tmo s <= d)%N ->
  let b := (g0, p0, k0) :: rest in
  snd (run s (burst_events b ++ [Advance d])) =
  quiet (length (burst_events b)) ++
  [call_obs (callno s) (set_addl (burst_args b) []) (now s + burst_span b + tmo s)].
Proof.
  intros Hi HT Hk Hf Hok Hd b. subst b.
  cbn [burst_events flat_map item_events app run].
  destruct (advance_idle s g0 Hi) as (s1 & E1 & Hi1 & Hn1 & HT1 & Hcn1 & Hs1). rewrite E1.
  assert (Hf1 : fresh p0 s1) by (unfold fresh; rewrite Hs1; exact Hf).
  assert (HT1' : (0 < tmo s1)%N) by lia.
  destruct (submit_idle s1 p0 k0 Hi1 HT1' Hf1 Hk) as (s2 & E2 & Hc2 & Hn2 & HT2 & Hcn2 & Hs2).
  rewrite E2. fold (burst_events rest).
  pose proof (burst_from_collecting rest s2 _ (now s1) d Hc2 Hn2) as IH.
  rewrite HT2, HT1, Hs2, Hs1 in IH. specialize (IH Hok Hd).
  destruct (run s2 (burst_events rest ++ [Advance d])) as [s3 os]. cbn [snd] in *. rewrite IH.
  cbn [length quiet repeat app burst_args flat_map snd burst_span fold_right fst].
  fold (burst_args rest). rewrite set_addl_app.
  rewrite Hcn2, Hcn1, Hn1. fold (burst_span rest). unfold quiet.
  replace (now s + (g0 + burst_span rest) + tmo s)%N with (now s + g0 + burst_span rest + tmo s)%N by lia. reflexivity.
Qed.
