(* FLock.v — executable model of aiuti/filelock.py (BaseFileLock / UnixFileLock)
   shared by C02, C12, C13.   MODEL ONLY (no proofs here).

   Kernel part (ASSUMPTION about flock(2), validated by the shims' holder table
   and by the F-runs / crash enumeration, never proved):
     one lock path; [holder : option fdid] is the open file description (ofd)
     that carries the exclusive lock; open creates a fresh ofd owned by the
     calling process; flock(EX|NB) succeeds iff holder ∈ {None, this ofd};
     a blocking flock is enabled iff it would succeed; flock(UN) / close of the
     holder frees the lock; [ECrash p] closes every ofd of p.  The n-th syscall
     of a kind raises when (kind, n, flavour) is in the fault script (a faulting
     close still closes the descriptor, as on Linux); flavour false = OSError,
     true = a BaseException that is not an Exception (KeyboardInterrupt: what a
     signal handler raises inside a system call).  The library tells the two
     apart only at os.open (an OSError is swallowed l.263-264, anything else
     leaves acquire through its bare except l.181) and at flock (OSError: close,
     go on polling l.267-268; anything else: close and re-raise l.269-272, fix
     ad374ce); close / unlock treat them alike.
     File content / existence is not part of the state: ownership is decided by
     [holder] only (C13 no_soft_state).

   Object part = the fields of BaseFileLock:  _lock_file_fd (o_fd),
   _lock_counter (o_cnt), _thread_lock (o_own/o_dep; Lock or RLock by o_reent),
   timeout (o_dflt).  threading.Lock/RLock are modelled primitives.

   Small-step semantics: ONE STEP PER GATED PRIMITIVE of the harness
   (harness/flock_shims.py).  A thread's pc names its *pending* primitive; a
   step executes that primitive and then the thread-local code that follows it
   up to the next primitive (that is exactly one controller decision):
     PIdle    'call'   harness gate at the start of every API call; the step
                       runs the call's prologue: filelock.py l.135-143 for
                       acquire; l.222-229 + 281 for release (is_locked check,
                       depth, counter-1, fd:=None)
     PTLAcq   l.144    _thread_lock.acquire(blocking, timeout), then l.148-153
                       (counter+1, is_locked early return, start_time)
     POpen    l.262    os.open            (on OSError: l.263-264, then l.164-180;
                       on an interrupt: l.181-184 cleanup, re-raise)
     PFlock   l.266    fcntl.flock(EX[|NB]) (success: l.274, l.164-166, 186)
     PCloseF  l.268/271 os.close after a failed / interrupted flock; then, failed:
                       the check l.164-180 (non-blocking -> cleanup;
                       0<=timeout<now-start -> cleanup; else sleep); interrupted
                       (flag) or raising close -> l.181-184 (cleanup, re-raise)
     PSleep   l.180    time.sleep(poll_interval) in virtual time
     PCleanRel l.157   _thread_lock.release() of _cleanup_thread_lock (counter
                       already decremented l.156), then return False / raise
     PUnlock  l.284    fcntl.flock(UN)
     PCloseR  l.286    os.close, then l.236-242 (counter := 0 in `finally`)
     PTLRel   l.244    _thread_lock.release(), max(1,depth) times; a
                       RuntimeError ends the loop (l.247)
   acquire_ctx / with-statement = the same acquire with a TimeoutError instead
   of False (l.199-200, l.310-311); their exit is release().              *)
From Coq Require Import List Arith Bool NArith.
Import ListNotations.

Definition tid := nat.
Definition oid := nat.
Definition pid := nat.
Definition fdid := nat.

Inductive tmo := TNone | TNeg | TVal (n : N).          (* timeout argument: None / <0 / >=0 ticks *)
Inductive amode := MPlain | MCtx | MWith.              (* acquire() / acquire_ctx().__enter__ / __enter__ *)
Inductive result :=
| RTrue | RFalse | RTimeout | ROSErr | RNone | RRuntime (* what a call returned / raised *)
| RWouldBlock | ROutOfFuel.                             (* do_call only *)
Inductive call :=
| CAcq (o : oid) (m : amode) (blk : bool) (t : tmo) (poll : N) (skip : nat)
       (* skip = number of following program items dropped when this acquire fails
          (the harness' `if not ok: continue` around the critical section) *)
| CRel (o : oid) (force : bool).
Inductive skind := KOpen | KLock | KUnlock | KClose.

Definition skind_eqb (a b : skind) : bool :=
  match a, b with
  | KOpen, KOpen | KLock, KLock | KUnlock, KUnlock | KClose, KClose => true
  | _, _ => false
  end.

Record obj := mkobj {
  o_proc : pid;  o_reent : bool;  o_dflt : tmo;
  o_fd : option fdid;  o_cnt : nat;
  o_own : option tid;  o_dep : nat }.

(* locals of a running acquire *)
Record aloc := mkaloc {
  a_o : oid; a_mode : amode; a_blk : bool; a_tm : tmo; a_poll : N; a_skip : nat; a_start : N }.

Inductive pc :=
| PIdle
| PTLAcq (a : aloc) (dl : option N)
| POpen (a : aloc)
| PFlock (a : aloc) (d : fdid)
| PCloseF (a : aloc) (d : fdid) (intr : bool)  (* intr: flock was interrupted: re-raise after the close *)
| PSleep (a : aloc) (wake : N)
| PCleanRel (a : aloc) (oserr : bool)      (* oserr: re-raise the OSError afterwards, else return False *)
| PUnlock (o : oid) (d : fdid) (k : nat)
| PCloseR (o : oid) (d : fdid) (k : nat)
| PTLRel (o : oid) (k : nat).

Record thread := mkthr {
  t_proc : pid;
  t_prog : list call;
  t_pc : pc;
  t_res : list result;      (* ghost: results of completed calls, newest first *)
  t_cs : list oid }.        (* ghost: successful, not yet released acquires = "inside" *)

Record state := mkst {
  objs : oid -> obj;
  thr : tid -> thread;
  holder : option fdid;            (* kernel: ofd carrying the flock *)
  fdown : fdid -> option pid;      (* kernel: open ofds and their process *)
  nextfd : fdid;
  now : N;
  faults : list (skind * nat * bool);   (* (kind, index, interrupt flavour?) *)
  nsys : skind -> nat;             (* syscalls of each kind executed so far *)
  nfired : nat;                    (* ghost: injected faults that fired *)
  dead : pid -> bool;
  viol : bool;                     (* ghost: some call was outside the contract *)
  file : nat }.                    (* content of the lock file (os.open truncates it); NOTHING reads it *)

Definition upd {A} (f : nat -> A) (k : nat) (v : A) : nat -> A :=
  fun x => if Nat.eqb x k then v else f x.

Definition set_obj (s : state) (o : oid) (v : obj) : state :=
  mkst (upd (objs s) o v) (thr s) (holder s) (fdown s) (nextfd s) (now s) (faults s) (nsys s) (nfired s) (dead s) (viol s) (file s).
Definition set_thr (s : state) (t : tid) (v : thread) : state :=
  mkst (objs s) (upd (thr s) t v) (holder s) (fdown s) (nextfd s) (now s) (faults s) (nsys s) (nfired s) (dead s) (viol s) (file s).
Definition set_holder (s : state) (h : option fdid) : state :=
  mkst (objs s) (thr s) h (fdown s) (nextfd s) (now s) (faults s) (nsys s) (nfired s) (dead s) (viol s) (file s).
Definition set_fdown (s : state) (f : fdid -> option pid) (n : fdid) : state :=
  mkst (objs s) (thr s) (holder s) f n (now s) (faults s) (nsys s) (nfired s) (dead s) (viol s) (file s).
Definition set_now (s : state) (n : N) : state :=
  mkst (objs s) (thr s) (holder s) (fdown s) (nextfd s) n (faults s) (nsys s) (nfired s) (dead s) (viol s) (file s).
Definition set_viol (s : state) : state :=
  mkst (objs s) (thr s) (holder s) (fdown s) (nextfd s) (now s) (faults s) (nsys s) (nfired s) (dead s) true (file s).

Definition set_pc (s : state) (t : tid) (p : pc) : state :=
  let th := thr s t in set_thr s t (mkthr (t_proc th) (t_prog th) p (t_res th) (t_cs th)).

(* -------- kernel ---------------------------------------------------------- *)

Definition faulty (s : state) (k : skind) : bool :=
  existsb (fun p => skind_eqb (fst (fst p)) k && Nat.eqb (snd (fst p)) (nsys s k)) (faults s).

(* the pending syscall of kind k is scripted to raise the interrupt flavour *)
Definition intr (s : state) (k : skind) : bool :=
  existsb (fun p => skind_eqb (fst (fst p)) k && Nat.eqb (snd (fst p)) (nsys s k) && snd p) (faults s).

(* count one syscall of kind k; returns (it raises OSError?, state) *)
Definition sys (s : state) (k : skind) : bool * state :=
  let f := faulty s k in
  (f, mkst (objs s) (thr s) (holder s) (fdown s) (nextfd s) (now s) (faults s)
           (fun k' => if skind_eqb k' k then S (nsys s k') else nsys s k')
           (if f then S (nfired s) else nfired s) (dead s) (viol s) (file s)).

Definition holder_free_for (s : state) (d : fdid) : bool :=
  match holder s with None => true | Some h => Nat.eqb h d end.

Definition set_file (s : state) (c : nat) : state :=
  mkst (objs s) (thr s) (holder s) (fdown s) (nextfd s) (now s) (faults s) (nsys s) (nfired s) (dead s) (viol s) c.

(* O_RDWR | O_CREAT | O_TRUNC: creates / empties the file, new open file description *)
Definition k_open (s : state) (p : pid) : fdid * state :=
  (nextfd s, set_file (set_fdown s (upd (fdown s) (nextfd s) (Some p)) (S (nextfd s))) 0).

Definition k_unlock (s : state) (d : fdid) : state :=
  match holder s with
  | Some h => if Nat.eqb h d then set_holder s None else s
  | None => s
  end.

Definition k_close (s : state) (d : fdid) : state :=
  let s1 := k_unlock s d in set_fdown s1 (upd (fdown s1) d None) (nextfd s1).

Definition owned_by (s : state) (p : pid) (d : fdid) : bool :=
  match fdown s d with Some q => Nat.eqb q p | None => false end.

Definition crash (s : state) (p : pid) : state :=
  let h := match holder s with
           | Some d => if owned_by s p d then None else Some d
           | None => None end in
  mkst (objs s) (thr s) h (fun d => if owned_by s p d then None else fdown s d) (nextfd s) (now s)
       (faults s) (nsys s) (nfired s) (upd (dead s) p true) (viol s) (file s).

(* -------- threading.Lock / RLock (modelled primitives) -------------------- *)

Definition tl_try (ob : obj) (t : tid) : option obj :=
  match o_own ob with
  | None => Some (mkobj (o_proc ob) (o_reent ob) (o_dflt ob) (o_fd ob) (o_cnt ob) (Some t) 1)
  | Some u => if o_reent ob && Nat.eqb u t
              then Some (mkobj (o_proc ob) (o_reent ob) (o_dflt ob) (o_fd ob) (o_cnt ob) (Some u) (S (o_dep ob)))
              else None
  end.

(* would release() raise RuntimeError? (Lock: unlocked; RLock: not the owner) *)
Definition tl_rel_raises (ob : obj) (t : tid) : bool :=
  match o_own ob with
  | None => true
  | Some u => o_reent ob && negb (Nat.eqb u t)
  end.

Definition tl_release (ob : obj) : obj :=
  if o_reent ob && (2 <=? o_dep ob)
  then mkobj (o_proc ob) (o_reent ob) (o_dflt ob) (o_fd ob) (o_cnt ob) (o_own ob) (pred (o_dep ob))
  else mkobj (o_proc ob) (o_reent ob) (o_dflt ob) (o_fd ob) (o_cnt ob) None 0.

Definition set_cnt (ob : obj) (c : nat) : obj :=
  mkobj (o_proc ob) (o_reent ob) (o_dflt ob) (o_fd ob) c (o_own ob) (o_dep ob).
Definition set_fd (ob : obj) (f : option fdid) : obj :=
  mkobj (o_proc ob) (o_reent ob) (o_dflt ob) f (o_cnt ob) (o_own ob) (o_dep ob).

(* -------- call epilogue / prologue ---------------------------------------- *)

Definition is_fail (r : result) : bool :=
  match r with RTrue | RNone => false | _ => true end.

Definition fail_result (m : amode) : result :=
  match m with MPlain => RFalse | _ => RTimeout end.

Fixpoint remove_one (o : oid) (l : list oid) : list oid :=
  match l with
  | [] => []
  | x :: r => if Nat.eqb x o then r else x :: remove_one o r
  end.
Definition remove_all (o : oid) (l : list oid) : list oid :=
  filter (fun x => negb (Nat.eqb x o)) l.

(* an acquire returns r *)
Definition finish_acq (s : state) (t : tid) (a : aloc) (r : result) : state :=
  let th := thr s t in
  set_thr s t (mkthr (t_proc th)
                     (if is_fail r then skipn (a_skip a) (t_prog th) else t_prog th)
                     PIdle (r :: t_res th)
                     (if is_fail r then t_cs th else a_o a :: t_cs th)).

Definition finish_rel (s : state) (t : tid) : state :=
  let th := thr s t in
  set_thr s t (mkthr (t_proc th) (t_prog th) PIdle (RNone :: t_res th) (t_cs th)).

(* release(): the loop `for _ in range(max(1, depth)): tl.release()` inside
   try/except RuntimeError; the check that raises happens before the gate *)
Definition enter_tlrel (s : state) (t : tid) (o : oid) (k : nat) : state :=
  match k with
  | 0 => finish_rel s t
  | S _ => if tl_rel_raises (objs s o) t then finish_rel s t else set_pc s t (PTLRel o k)
  end.

Definition normalise (ob : obj) (blk : bool) (tm : tmo) : bool * tmo :=
  match tm with
  | TNone => (blk, if blk then o_dflt ob else TNeg)
  | TNeg => (blk, TNeg)
  | TVal n => (true, TVal n)
  end.

(* _cleanup_thread_lock: counter-1 now, the thread-lock release is the next gate *)
Definition enter_cleanup (s : state) (t : tid) (a : aloc) (oserr : bool) : state :=
  let ob := objs s (a_o a) in
  let s1 := set_obj s (a_o a) (set_cnt ob (pred (o_cnt ob))) in
  if tl_rel_raises ob t then finish_acq s1 t a RRuntime     (* unreachable in contract-respecting runs *)
  else set_pc s1 t (PCleanRel a oserr).

(* filelock.py l.164-180 when the attempt did not get the lock *)
Definition after_attempt (s : state) (t : tid) (a : aloc) : state :=
  if negb (a_blk a) then enter_cleanup s t a false
  else match a_tm a with
       | TVal T => if (T <? now s - a_start a)%N then enter_cleanup s t a false
                   else set_pc s t (PSleep a (now s + a_poll a)%N)
       | _ => set_pc s t (PSleep a (now s + a_poll a)%N)
       end.

Definition pop_prog (s : state) (t : tid) (rest : list call) : state :=
  let th := thr s t in set_thr s t (mkthr (t_proc th) rest (t_pc th) (t_res th) (t_cs th)).

Definition set_cs (s : state) (t : tid) (l : list oid) : state :=
  let th := thr s t in set_thr s t (mkthr (t_proc th) (t_prog th) (t_pc th) (t_res th) l).

Definition own_is (ob : obj) (t : tid) : bool :=
  match o_own ob with Some u => Nat.eqb u t | None => false end.

Definition begin_call (s : state) (t : tid) (c : call) (rest : list call) : state :=
  let s := pop_prog s t rest in
  let p := t_proc (thr s t) in
  match c with
  | CAcq o m blk tm poll skip =>
      let ob := objs s o in
      let s := if Nat.eqb (o_proc ob) p then s else set_viol s in
      let '(b', tm') := normalise ob blk tm in
      let dl := if b' then match tm' with TVal n => Some (now s + n)%N | _ => None end else None in
      set_pc s t (PTLAcq (mkaloc o m b' tm' poll skip 0%N) dl)
  | CRel o force =>
      let ob := objs s o in
      let s := if Nat.eqb (o_proc ob) p then s else set_viol s in
      match o_fd ob with
      | None => finish_rel s t                                   (* l.222-223 *)
      | Some d =>
          let s := if own_is ob t then s else set_viol s in       (* releasing what it does not hold *)
          let depth := if force then o_cnt ob else 1 in
          let c' := pred (o_cnt ob) in
          let s := set_cs s t (if force then remove_all o (t_cs (thr s t))
                               else remove_one o (t_cs (thr s t))) in
          if Nat.eqb c' 0 || force
          then let s := set_obj s o (set_fd (set_cnt ob c') None) in
               set_pc s t (PUnlock o d (Nat.max 1 depth))
          else let s := set_obj s o (set_cnt ob c') in
               enter_tlrel s t o 1
      end
  end.

(* -------- enabledness and the step function -------------------------------- *)

Definition is_dead (s : state) (t : tid) : bool := dead s (t_proc (thr s t)).

Definition tl_free_for (ob : obj) (t : tid) : bool :=
  match tl_try ob t with Some _ => true | None => false end.

Definition enabled (s : state) (t : tid) : bool :=
  negb (is_dead s t) &&
  match t_pc (thr s t) with
  | PIdle => match t_prog (thr s t) with [] => false | _ => true end
  | PTLAcq a dl =>
      if a_blk a then
        tl_free_for (objs s (a_o a)) t ||
        match dl with Some d => (d <=? now s)%N | None => false end
      else true
  | PFlock a d =>
      if a_blk a && match a_tm a with TVal _ => false | _ => true end
      then holder_free_for s d || faulty s KLock
      else true
  | PSleep _ w => (w <=? now s)%N
  | _ => true
  end.

Definition step (s : state) (t : tid) : state :=
  if negb (enabled s t) then s else
  let p := t_proc (thr s t) in
  match t_pc (thr s t) with
  | PIdle => match t_prog (thr s t) with
             | [] => s
             | c :: rest => begin_call s t c rest
             end
  | PTLAcq a dl =>
      let ob := objs s (a_o a) in
      match tl_try ob t with
      | Some ob' =>
          let ob'' := set_cnt ob' (S (o_cnt ob')) in                    (* l.148 *)
          let s1 := set_obj s (a_o a) ob'' in
          match o_fd ob'' with
          | Some _ => finish_acq s1 t a RTrue                            (* l.150-151 *)
          | None => set_pc s1 t (POpen (mkaloc (a_o a) (a_mode a) (a_blk a) (a_tm a) (a_poll a) (a_skip a) (now s)))
          end
      | None => finish_acq s t a (fail_result (a_mode a))                (* l.145-146 *)
      end
  | POpen a =>
      let '(f, s1) := sys s KOpen in
      if f then (if intr s KOpen then enter_cleanup s1 t a true      (* l.181-184: nothing was opened *)
                 else after_attempt s1 t a)
      else let '(d, s2) := k_open s1 p in set_pc s2 t (PFlock a d)
  | PFlock a d =>
      let '(f, s1) := sys s KLock in
      if f then set_pc s1 t (PCloseF a d (intr s KLock))
      else if holder_free_for s1 d
           then let s2 := set_holder s1 (Some d) in
                let s3 := set_obj s2 (a_o a) (set_fd (objs s2 (a_o a)) (Some d)) in   (* l.268 *)
                finish_acq s3 t a RTrue
           else set_pc s1 t (PCloseF a d false)
  | PCloseF a d i =>
      let '(f, s1) := sys s KClose in
      let s2 := k_close s1 d in
      if f || i then enter_cleanup s2 t a true                         (* l.181-184 *)
      else after_attempt s2 t a
  | PSleep a _ => set_pc s t (POpen a)
  | PCleanRel a oserr =>
      let s1 := set_obj s (a_o a) (tl_release (objs s (a_o a))) in
      finish_acq s1 t a (if oserr then ROSErr else fail_result (a_mode a))
  | PUnlock o d k =>
      let '(f, s1) := sys s KUnlock in
      let s2 := if f then s1 else k_unlock s1 d in
      set_pc s2 t (PCloseR o d k)
  | PCloseR o d k =>
      let '(f, s1) := sys s KClose in
      let s2 := k_close s1 d in
      let s3 := set_obj s2 o (set_cnt (objs s2 o) 0) in                 (* `finally: counter = 0` *)
      enter_tlrel s3 t o k
  | PTLRel o k =>
      let s1 := set_obj s o (tl_release (objs s o)) in
      enter_tlrel s1 t o (pred k)
  end.

Inductive ev := EStep (t : tid) | EAdv (n : N) | ECrash (p : pid).

Definition apply (s : state) (e : ev) : state :=
  match e with
  | EStep t => step s t
  | EAdv n => set_now s (N.max (now s) n)
  | ECrash p => crash s p
  end.

Definition run (s : state) (evs : list ev) : state := fold_left apply evs s.

(* "inside": the thread's acquire reported success and it has not yet called
   the release that gives the lock up *)
Definition inside_b (s : state) (t : tid) : bool :=
  negb (is_dead s t) && match t_cs (thr s t) with [] => false | _ => true end.

(* -------- initial states ---------------------------------------------------- *)

Definition obj0 (p : pid) (reent : bool) (dflt : tmo) : obj := mkobj p reent dflt None 0 None 0.
Definition thr0 (p : pid) (prog : list call) : thread := mkthr p prog PIdle [] [].

Fixpoint nth_fun {A} (l : list A) (d : A) (n : nat) : A :=
  match l, n with
  | [], _ => d
  | x :: _, 0 => x
  | _ :: r, S n' => nth_fun r d n'
  end.

(* objects and threads given as lists (index = id); everything else idle/empty *)
Definition init (os : list obj) (ts : list thread) (fl : list (skind * nat * bool)) : state :=
  mkst (nth_fun os (obj0 0 false TNeg)) (nth_fun ts (thr0 0 [])) None (fun _ => None) 0 0%N fl
       (fun _ => 0) 0 (fun _ => false) false 0.

(* -------- observations -------------------------------------------------------- *)

Definition opcode (s : state) (t : tid) : nat :=
  match t_pc (thr s t) with
  | PIdle => 1 | PTLAcq _ _ => 2 | POpen _ => 3 | PFlock _ _ => 4 | PCloseF _ _ _ => 5
  | PSleep _ _ => 6 | PCleanRel _ _ => 7 | PUnlock _ _ _ => 8 | PCloseR _ _ _ => 5 | PTLRel _ _ => 7
  end.

Definition nfds (s : state) : nat :=
  length (filter (fun d => match fdown s d with Some _ => true | None => false end) (seq 0 (nextfd s))).

Definition is_locked (s : state) (o : oid) : bool :=
  match o_fd (objs s o) with Some _ => true | None => false end.

(* -------- big-step: one thread alone until its call returns ------------------- *)

Definition deadline (s : state) (t : tid) : option N :=
  match t_pc (thr s t) with
  | PSleep _ w => Some w
  | PTLAcq _ (Some d) => Some d
  | _ => None
  end.

Definition call_done (s : state) (t : tid) : bool :=
  match t_pc (thr s t), t_prog (thr s t) with PIdle, [] => true | _, _ => false end.

Definition last_result (s : state) (t : tid) : result :=
  match t_res (thr s t) with r :: _ => r | [] => RNone end.

Fixpoint run_alone (fuel : nat) (s : state) (t : tid) : state * result :=
  if call_done s t then (s, last_result s t) else
  match fuel with
  | 0 => (s, ROutOfFuel)
  | S f =>
      if enabled s t then run_alone f (step s t) t
      else match deadline s t with
           | Some w => run_alone f (set_now s (N.max (now s) w)) t
           | None => (s, RWouldBlock)           (* waits for something nobody else will do *)
           end
  end.

Definition do_call (fuel : nat) (s : state) (t : tid) (c : call) : state * result :=
  run_alone fuel (pop_prog s t [c]) t.
