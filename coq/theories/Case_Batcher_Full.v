(* Case_Batcher_Full.v — COMPLETENESS of the monitors on ALL event lists (Chain events
   included): the monitor accepts the canonical trace of the model for every
   configuration and every event list.  Case_Batcher_C11 / _C04 / _C10 prove this for
   event lists without Chain events; here the simulation is redone with
     * the monitor's calls mirroring the callers field by field (key, argument, explicit
       key, remaining calls of the task, answered or not),
     * every macro step seen in two phases: the event resolves futures and wakes callers
       (state s_r), then the calls of the step — the event's own calls, or the calls the
       resumed tasks make — are registered one by one against the monitor's
       [reg_chain] ([JR], lifted from one call to chains and lists of chains),
     * the order in which resumed tasks call again: the model sorts by future id, the
       monitor groups by produced key in futs order; they agree because the futs of a
       batch carry ascending future ids ([recalls_match]). *)
From Coq Require Import List Arith NArith Bool Lia ZifyBool ZifyNat ZifyN.
Import ListNotations.
Require Import Aiuti.CaseLib Aiuti.Batcher Aiuti.BatcherLift Aiuti.BatcherLimits Aiuti.BatcherTime Aiuti.BatcherOrder
               Aiuti.BatcherWithin Aiuti.BatcherInv Aiuti.BatcherProps Aiuti.BatcherBasic Aiuti.BatcherSim Aiuti.BatcherChain
               Aiuti.Case_Batcher Aiuti.Case_Batcher_Sound Aiuti.Case_Batcher_Basic Aiuti.Case_Batcher_C11
               Aiuti.Case_Batcher_C10 Aiuti.Case_Batcher_C04.

Local Arguments N.add : simpl never.
Local Arguments N.leb : simpl never.
Local Arguments N.ltb : simpl never.
Local Arguments N.eqb : simpl never.
Local Arguments N.max : simpl never.
Local Arguments Nat.ltb : simpl never.
Local Arguments Nat.leb : simpl never.

(* ---- the monitor's registration, one call at a time ---------------------------------------------------- *)

Definition q4 := (list mcall * list (nat * entry) * list mitem * list (nat * outcome))%type.
Definition q_calls (q : q4) := fst (fst (fst q)).
Definition q_es (q : q4) := snd (fst (fst q)).
Definition q_ex (q : q4) := snd (fst q).
Definition q_imm (q : q4) := snd q.

Definition reg1 (c : cfg) (now : N) (mx st a : nat) (ko : option nat) (m : nat) (q : q4) : q4 :=
  let '(calls, es, ex, imm) := q in
  let k := key_of a ko in
  let calls' := calls ++ [mkmcall k st false a ko m] in
  match spec_lookup c now es k with
  | SFree => (calls', (k, EPending st) :: es, ex ++ [mkmitem k a now mx], imm)
  | SPend => (calls', es, ex, imm)
  | SDone o => (calls', es, ex, imm ++ [(length calls, o)])
  end.

Definition regc (c : cfg) (now : N) (mx st a : nat) (ko : option nat) (m : nat) (q : q4) : q4 :=
  let '(calls, es, ex, imm) := q in reg_chain c now mx st a ko m calls es ex imm.

Definition regs (c : cfg) (now : N) (mx st : nat) (l : list (nat * option nat * nat)) (q : q4) : q4 :=
  let '(calls, es, ex, imm) := q in reg_calls c now mx st l calls es ex imm.

Definition is_sdone (c : cfg) (now : N) (q : q4) (k : nat) : bool :=
  match spec_lookup c now (q_es q) k with SDone _ => true | _ => false end.

Lemma regc_unfold c now mx st a ko m q :
  regc c now mx st a ko m q =
  match m with
  | 0 => reg1 c now mx st a ko 0 q
  | S m' => if is_sdone c now q (key_of a ko)
            then regc c now mx st a ko m' (reg1 c now mx st a ko (S m') q)
            else reg1 c now mx st a ko (S m') q
  end.
Proof.
  destruct q as [[[calls es] ex] imm]. unfold is_sdone, q_es. simpl.
  destruct m; simpl; destruct (spec_lookup c now es (key_of a ko)); reflexivity.
Qed.

Lemma regs_cons c now mx st a ko m r q :
  regs c now mx st ((a, ko, m) :: r) q = regs c now mx st r (regc c now mx st a ko m q).
Proof.
  destruct q as [[[calls es] ex] imm]. simpl.
  destruct (reg_chain c now mx st a ko m calls es ex imm) as [[[c1 e1] x1] i1]. reflexivity.
Qed.

Lemma regs_nil c now mx st q : regs c now mx st [] q = q.
Proof. destruct q as [[[calls es] ex] imm]. reflexivity. Qed.

Lemma regs_app c now mx st l1 : forall l2 q, regs c now mx st (l1 ++ l2) q = regs c now mx st l2 (regs c now mx st l1 q).
Proof.
  induction l1 as [|[[a ko] m] r IH]; intros l2 q; simpl app; [now rewrite regs_nil|].
  rewrite !regs_cons. apply IH.
Qed.

(* an invariant between the model state, the observations so far and the monitor's registration
   state that one call preserves is preserved by chains and by lists of chains *)
Section RegLift.
  Variables (c : cfg) (t0 : N) (mx st : nat).
  Variable J : state -> list obs -> q4 -> Prop.
  Hypothesis J_branch : forall s os q k, J s os q -> cached_done s k = is_sdone c t0 q k.
  Hypothesis J_call : forall s os q a ko m, J s os q ->
    J (fst (do_call c a ko m s)) (os ++ snd (do_call c a ko m s)) (reg1 c t0 mx st a ko m q).

  Lemma lift_regc : forall m a ko s os q, J s os q ->
    J (fst (do_chain c a ko m s)) (os ++ snd (do_chain c a ko m s)) (regc c t0 mx st a ko m q).
  Proof.
    induction m as [|m IH]; intros a ko s os q H; rewrite regc_unfold; cbn [do_chain].
    - pose proof (J_call s os q a ko 0 H) as H1. destruct (do_call c a ko 0 s) as [s1 o1]. exact H1.
    - pose proof (J_call s os q a ko (S m) H) as H1. rewrite <- (J_branch s os q _ H).
      destruct (do_call c a ko (S m) s) as [s1 o1]. cbn [fst snd] in *.
      destruct (cached_done s (key_of a ko)); [|exact H1].
      specialize (IH a ko s1 (os ++ o1) _ H1). destruct (do_chain c a ko m s1) as [s2 o2]. cbn [fst snd] in *.
      now rewrite app_assoc.
  Qed.

  Lemma lift_regs : forall l s os q, J s os q ->
    J (fst (do_chains c l s)) (os ++ snd (do_chains c l s)) (regs c t0 mx st l q).
  Proof.
    induction l as [|[[a ko] m] r IH]; intros s os q H.
    - rewrite regs_nil. simpl. now rewrite app_nil_r.
    - rewrite regs_cons. cbn [do_chains]. pose proof (lift_regc m a ko s os q H) as H1.
      destruct (do_chain c a ko m s) as [s1 o1]. cbn [fst snd] in *.
      specialize (IH s1 (os ++ o1) _ H1). destruct (do_chains c r s1) as [s2 o2]. cbn [fst snd] in *.
      now rewrite app_assoc.
  Qed.
End RegLift.

(* ---- one call of the model against one registration of the monitor ---------------------------------------- *)

(* a caller registered in this step, before the step's completions are marked *)
Definition NR (mc : mcall) (cl : caller) : Prop :=
  mc_key mc = cl_key cl /\ mc_arg mc = cl_arg cl /\ mc_ko mc = cl_ko cl /\ mc_more mc = cl_more cl /\ mc_done mc = false.

(* the completions reported for calls answered at once *)
Fixpoint imm_of (i : nat) (t : N) (cls : list caller) : list (nat * outcome * N) :=
  match cls with
  | [] => []
  | cl :: r => match cl_st cl with
               | Some o => (i, o, t) :: imm_of (S i) t r
               | None => imm_of (S i) t r
               end
  end.

Lemma imm_of_app t l1 : forall i l2, imm_of i t (l1 ++ l2) = imm_of i t l1 ++ imm_of (i + length l1) t l2.
Proof.
  induction l1 as [|cl r IH]; intros i l2; simpl; [now rewrite Nat.add_0_r|].
  rewrite IH. replace (S i + length r) with (i + S (length r)) by lia. destruct (cl_st cl); reflexivity.
Qed.

Definition mstamp (t : N) (mx : nat) (it : item) : mitem := mkmitem (it_key it) (it_arg it) t mx.

Record JR (c : cfg) (st mx : nat) (s0 : state) (q0 : q4) (s : state) (os : list obs) (q : q4) : Prop := {
  J_inv : Inv c s;
  J_now : now s = now s0;
  J_mx : maxb s = maxb s0;
  J_fd : fdone s = fdone s0;
  J_len : length (q_calls q) = length (callers s);
  J_ent : ent_ok st s (q_es q);
  J_cal : exists newc newcl, q_calls q = q_calls q0 ++ newc /\ callers s = callers s0 ++ newcl /\
            Forall2 NR newc newcl /\ dones_of os = imm_of (length (callers s0)) (now s0) newcl /\
            (forall last, YL s0 last -> forall cl o, In cl newcl -> cl_st cl = Some o -> lookup last (cl_key cl) = Some o);
  J_yl : forall last, YL s0 last -> YL s last;
  J_imm : q_imm q = q_imm q0 ++ map fst (dones_of os);
  J_itm : exists nit, g_items s = g_items s0 ++ nit /\ q_ex q = q_ex q0 ++ map (mstamp (now s0) mx) nit /\
            forall it, In it nit -> it_t it = now s0 /\ it_max it = maxb s0;
  J_ret : forall k', lookup (ret s0) k' <> None -> lookup (q_es q) k' = lookup (q_es q0) k' /\ lookup (ret s) k' <> None
}.

Lemma JR_init c st mx s0 q0 :
  Inv c s0 -> ent_ok st s0 (q_es q0) -> length (q_calls q0) = length (callers s0) -> JR c st mx s0 q0 s0 [] q0.
Proof.
  intros HI E L. constructor; auto.
  - exists [], []. rewrite !app_nil_r. split; [reflexivity|]. split; [reflexivity|]. split; [constructor|]. split; [reflexivity|]. intros ? ? ? ? [].
  - simpl. now rewrite app_nil_r.
  - exists []. simpl. rewrite !app_nil_r. split; [reflexivity|]. split; [reflexivity|]. intros ? [].
Qed.

Lemma JR_branch c st mx s0 q0 s os q k : JR c st mx s0 q0 s os q -> cached_done s k = is_sdone c (now s0) q k.
Proof.
  intros H. unfold is_sdone. rewrite <- (J_now _ _ _ _ _ _ _ _ H).
  rewrite (spec_ret c s st (q_es q) k (J_inv _ _ _ _ _ _ _ _ H) (J_ent _ _ _ _ _ _ _ _ H)).
  unfold cached_done, ret_view, is_done. destruct (lookup (ret s) k) as [f|]; auto.
  destruct (lookup (fdone s) f) as [[o t]|]; reflexivity.
Qed.

Lemma Inv_call_m c a ko m s : Inv c s -> Inv c (fst (do_call c a ko m s)).
Proof.
  intros (I & F & T & K). split; [now apply do_call_L|]. split; [now apply do_call_fifo|].
  split; [now apply do_call_T | now apply do_call_K].
Qed.

Lemma Forall2_snoc {A B} (R : A -> B -> Prop) la lb a b : Forall2 R la lb -> R a b -> Forall2 R (la ++ [a]) (lb ++ [b]).
Proof. intros H1 H2. apply Forall2_app; auto. Qed.

Lemma JR_call c st mx s0 q0 s os q a ko m :
  JR c st mx s0 q0 s os q ->
  JR c st mx s0 q0 (fst (do_call c a ko m s)) (os ++ snd (do_call c a ko m s)) (reg1 c (now s0) mx st a ko m q).
Proof.
  intros H. destruct H as [HI Hn Hmx Hfd L E (newc & newcl & Ec & Ecl & NRs & Hd & Himm) HYL Him (nit & Gi & Ex & Hst) Rk].
  pose proof HI as (I & F & T & S & K & _).
  pose proof (Inv_call_m c a ko m s HI) as HI1.
  destruct (do_call_clock c a ko m s) as [Hnow _].
  destruct (do_call_grows c a ko m s I) as (Hmaxb & _).
  destruct q as [[[calls es] ex] imm]. unfold q_calls, q_es, q_ex, q_imm in *. cbn [fst snd] in *.
  pose proof (spec_ret c s st es (key_of a ko) HI E) as SR.
  unfold reg1. rewrite <- Hn, SR. unfold ret_view.
  assert (Lc : length (callers s) = length (callers s0) + length newcl) by (rewrite Ecl, app_length; reflexivity).
  remember (do_call c a ko m s) as r eqn:Er. unfold do_call in Er.
  destruct (lookup (ret s) (key_of a ko)) as [f|] eqn:R.
  - destruct (lookup (fdone s) f) as [[o t]|] eqn:D; subst r; cbn [fst snd] in *.
    + (* answered at once *)
      constructor; cbn [fst snd q_calls q_es q_ex q_imm]; auto.
      * unfold add_caller. simpl. rewrite !app_length. simpl. lia.
      * exists (newc ++ [mkmcall (key_of a ko) st false a ko m]),
               (newcl ++ [mkcaller (key_of a ko) f false (now s) (Some o) a ko m]).
        split; [rewrite Ec, app_assoc; reflexivity|]. split; [unfold add_caller; simpl; rewrite Ecl, app_assoc; reflexivity|].
        split; [apply Forall2_snoc; [exact NRs | repeat split]|]. split.
        -- rewrite dones_of_app, imm_of_app, Hd. simpl. rewrite <- Lc, Hn. reflexivity.
        -- intros last HL cl o' Hin St. apply in_app_or in Hin as [Hin|[<-|[]]]; [eapply Himm; eauto|].
           simpl in St. injection St as <-. simpl.
           destruct (P_last _ _ _ K _ _ R) as (it & Lk & Ef). rewrite <- Ef in D. exact (HYL last HL _ it o t Lk D).
      * rewrite dones_of_app, map_app, Him, <- app_assoc. simpl. now rewrite L.
      * exists nit. repeat split; auto; apply Hst; auto.
    + (* waits for the remembered future *)
      constructor; cbn [fst snd q_calls q_es q_ex q_imm]; auto.
      * unfold add_caller. simpl. rewrite !app_length. simpl. lia.
      * exists (newc ++ [mkmcall (key_of a ko) st false a ko m]),
               (newcl ++ [mkcaller (key_of a ko) f false (now s) None a ko m]).
        split; [rewrite Ec, app_assoc; reflexivity|]. split; [unfold add_caller; simpl; rewrite Ecl, app_assoc; reflexivity|].
        split; [apply Forall2_snoc; [exact NRs | repeat split]|]. split.
        -- rewrite app_nil_r, imm_of_app, Hd. simpl. now rewrite app_nil_r.
        -- intros last HL cl o' Hin St. apply in_app_or in Hin as [Hin|[<-|[]]]; [eapply Himm; eauto | discriminate].
      * now rewrite app_nil_r.
      * exists nit. repeat split; auto; apply Hst; auto.
  - (* a new request *)
    set (k := key_of a ko) in *. set (it := mkitem k a (nfut s) (now s) (maxb s)) in *.
    match type of Er with _ = take c it ?s0 => set (s1 := s0) in * end.
    assert (I1 : LInv c s1) by (destruct I; constructor; auto).
    destruct (take_ghost c it s1 I1) as (_ & G2 & _).
    pose proof (take_sameC c it s1) as (C1 & C2 & _).
    pose proof (take_os c it s1) as Hos.
    assert (Rt : ret (fst (take c it s1)) = ret s1).
    { unfold take. destruct (_ <? _); [reflexivity|]. unfold dispatch. cbn [free set_spawn waiting].
      destruct (0 <? _); reflexivity. }
    subst r.
    constructor; cbn [q_calls q_es q_ex q_imm fst snd]; auto.
    + congruence.
    + congruence.
    + rewrite C2. exact Hfd.
    + rewrite C1. simpl. rewrite !app_length. simpl. lia.
    + intros k'. rewrite G2, C2. simpl. rewrite last_key_snoc. simpl.
      destruct (Nat.eqb_spec k k') as [Ek|Nk].
      * subst k'. simpl.
        assert (Dn : lookup (fdone s) (nfut s) = None).
        { destruct (lookup (fdone s) (nfut s)) eqn:D; auto. apply (P_dlt _ _ _ K) in D. lia. }
        rewrite Dn. eauto.
      * specialize (E k'). destruct (Nat.eqb_spec k k'); [congruence|]. exact E.
    + exists (newc ++ [mkmcall k st false a ko m]), (newcl ++ [mkcaller k (nfut s) true (now s) None a ko m]).
      split; [rewrite Ec, app_assoc; reflexivity|]. split; [rewrite C1; simpl; rewrite Ecl, app_assoc; reflexivity|].
      split; [apply Forall2_snoc; [exact NRs | repeat split]|]. split.
      * rewrite dones_of_app, (dones_of_starts _ Hos), app_nil_r, imm_of_app, Hd. simpl. now rewrite app_nil_r.
      * intros last HL cl o' Hin St. apply in_app_or in Hin as [Hin|[<-|[]]]; [eapply Himm; eauto | discriminate].
    + intros last HL k' it' o t Lk Hdn. rewrite G2 in Lk. rewrite C2 in Hdn. simpl in Lk, Hdn. rewrite last_key_snoc in Lk. simpl in Lk.
      destruct (Nat.eqb_spec k k') as [Ek|Nk].
      * injection Lk as <-. simpl in Hdn. apply (P_dlt _ _ _ K) in Hdn. lia.
      * eapply (HYL last HL); eauto.
    + rewrite dones_of_app, (dones_of_starts _ Hos), app_nil_r. exact Him.
    + exists (nit ++ [it]). rewrite G2. simpl. split; [rewrite Gi, app_assoc; reflexivity|].
      split; [rewrite Ex, map_app, <- app_assoc; unfold mstamp; simpl; now rewrite Hn|].
      intros it' Hin. apply in_app_or in Hin as [Hin|[<-|[]]]; [now apply Hst | simpl; split; congruence].
    + intros k' Hk'. rewrite Rt. simpl. destruct (Rk k' Hk') as [A1 A2].
      destruct (Nat.eqb_spec k k') as [Ek|Nk]; [congruence|]. auto.
Qed.

(* every list of chains *)
Lemma JR_chains c st mx s0 q0 l :
  Inv c s0 -> ent_ok st s0 (q_es q0) -> length (q_calls q0) = length (callers s0) ->
  JR c st mx s0 q0 (fst (do_chains c l s0)) (snd (do_chains c l s0)) (regs c (now s0) mx st l q0).
Proof.
  intros HI E L.
  apply (lift_regs c (now s0) mx st (JR c st mx s0 q0) (JR_branch c st mx s0 q0) (JR_call c st mx s0 q0) l s0 [] q0).
  now apply JR_init.
Qed.

(* ---- the monitor's calls mirror the callers ----------------------------------------------------------------- *)

Definition CR (mc : mcall) (cl : caller) : Prop :=
  mc_key mc = cl_key cl /\ mc_arg mc = cl_arg cl /\ mc_ko mc = cl_ko cl /\ mc_more mc = cl_more cl /\
  mc_done mc = st_done cl.

(* callers after the resolve phase of a step: same calls, those with an id in [ds] are now answered *)
Definition Woken (cs cs_r : list caller) (ds : list nat) : Prop :=
  length cs_r = length cs /\
  forall j cl, nth_error cs j = Some cl -> exists cl', nth_error cs_r j = Some cl' /\
     cl_key cl' = cl_key cl /\ cl_arg cl' = cl_arg cl /\ cl_ko cl' = cl_ko cl /\ cl_more cl' = cl_more cl /\
     st_done cl' = (st_done cl || memb j ds).

Lemma Woken_refl cs : Woken cs cs [].
Proof. split; auto. intros j cl H. exists cl. repeat split; auto. simpl. now rewrite orb_false_r. Qed.

Lemma mark_done_nthF calls : forall i0 ds j mc',
  nth_error (mark_done calls i0 ds) j = Some mc' ->
  exists mc, nth_error calls j = Some mc /\ mc_key mc' = mc_key mc /\ mc_arg mc' = mc_arg mc /\ mc_ko mc' = mc_ko mc /\
             mc_more mc' = mc_more mc /\ mc_done mc' = (mc_done mc || memb (i0 + j) ds).
Proof.
  induction calls as [|mc r IH]; intros i0 ds [|j] mc' H; simpl in H; try discriminate.
  - injection H as <-. exists mc. split; auto. rewrite Nat.add_0_r. destruct (memb i0 ds); simpl; repeat split; auto;
      [now rewrite orb_true_r | now rewrite orb_false_r].
  - destruct (IH (S i0) ds j mc' H) as (mc0 & H1 & H2). exists mc0. split; auto.
    replace (i0 + S j) with (S i0 + j) by lia. exact H2.
Qed.

Lemma imm_of_ge t cls : forall i d, In d (imm_of i t cls) -> i <= fst (fst d) < i + length cls.
Proof.
  induction cls as [|cl r IH]; intros i d H; simpl in *; [contradiction|].
  destruct (cl_st cl); [destruct H as [<-|H]; [simpl; lia|]|]; apply IH in H; lia.
Qed.

Lemma imm_of_asc t cls : forall i, asc i (map (fun d => fst (fst d)) (imm_of i t cls)).
Proof.
  induction cls as [|cl r IH]; intros i; simpl; auto.
  destruct (cl_st cl); [simpl; split; auto | eapply asc_weaken; [|apply IH]; lia].
Qed.

Lemma asc_ge n l x : asc n l -> In x l -> n <= x.
Proof.
  revert n. induction l as [|y r IH]; intros n H Hx; [destruct Hx|]. destruct H as [H1 H2].
  destruct Hx as [<-|Hx]; auto. specialize (IH _ H2 Hx). lia.
Qed.

Lemma imm_of_memb t cls : forall i j,
  memb (i + j) (map (fun d => fst (fst d)) (imm_of i t cls)) =
  match nth_error cls j with Some cl => st_done cl | None => false end.
Proof.
  induction cls as [|cl r IH]; intros i j; simpl; [now destruct j|].
  assert (Hlow : memb i (map (fun d => fst (fst d)) (imm_of (S i) t r)) = false).
  { destruct (memb i _) eqn:E; auto. apply memb_In in E. pose proof (asc_ge _ _ _ (imm_of_asc t r (S i)) E). lia. }
  destruct j as [|j]; simpl.
  - rewrite Nat.add_0_r. unfold st_done. destruct (cl_st cl); simpl; [unfold memb; simpl; now rewrite Nat.eqb_refl | exact Hlow].
  - replace (i + S j) with (S i + j) by lia. rewrite <- (IH (S i) j). destruct (cl_st cl); auto.
    unfold memb. cbn [map existsb fst]. assert ((S i + j =? i) = false) by lia. now rewrite H.
Qed.

Lemma memb_app x a b : memb x (a ++ b) = memb x a || memb x b.
Proof. unfold memb. apply existsb_app. Qed.

Lemma memb_false_lt x l n : (forall y, In y l -> y < n) -> n <= x -> memb x l = false.
Proof. intros H L. destruct (memb x l) eqn:E; auto. apply memb_In in E. apply H in E. lia. Qed.

Lemma memb_false_ge x l n : (forall y, In y l -> n <= y) -> x < n -> memb x l = false.
Proof. intros H L. destruct (memb x l) eqn:E; auto. apply memb_In in E. apply H in E. lia. Qed.

Lemma Forall2_nth_l {A B} (R : A -> B -> Prop) la lb i a : Forall2 R la lb -> nth_error la i = Some a ->
  exists b, nth_error lb i = Some b /\ R a b.
Proof.
  intros H. revert i. induction H as [|x y la' lb' H H' IH]; intros [|i] Hi; simpl in *; try discriminate.
  - injection Hi as <-. eauto.
  - eauto.
Qed.

Lemma Forall2_nth_r {A B} (R : A -> B -> Prop) la lb i b : Forall2 R la lb -> nth_error lb i = Some b ->
  exists a, nth_error la i = Some a /\ R a b.
Proof.
  intros H. revert i. induction H as [|x y la' lb' H H' IH]; intros [|i] Hi; simpl in *; try discriminate.
  - injection Hi as <-. eauto.
  - eauto.
Qed.

(* the calls after a step: the old ones with the step's completions marked, then the new ones *)
Lemma crel_mark calls cs newc cs_r newcl ds_r t :
  Forall2 CR calls cs -> Woken cs cs_r ds_r -> (forall x, In x ds_r -> x < length cs) ->
  Forall2 NR newc newcl ->
  Forall2 CR (mark_done (calls ++ newc) 0 (ds_r ++ map (fun d => fst (fst d)) (imm_of (length cs) t newcl))) (cs_r ++ newcl).
Proof.
  intros HC [WL W] Hlt HN.
  pose proof (Forall2_len _ _ _ HC) as L1. pose proof (Forall2_len _ _ _ HN) as L2.
  set (ds_c := map (fun d => fst (fst d)) (imm_of (length cs) t newcl)).
  assert (Hge : forall y, In y ds_c -> length cs <= y).
  { intros y Hy. apply in_map_iff in Hy as (d & <- & Hd). apply imm_of_ge in Hd. lia. }
  apply Forall2_nth; [rewrite mark_done_len, !app_length; lia|].
  intros i mc' cl' Hm Hc. destruct (mark_done_nthF _ _ _ _ _ Hm) as (mc & Hm0 & E1 & E2 & E3 & E4 & E5). simpl in E5.
  rewrite memb_app in E5.
  destruct (Nat.lt_ge_cases i (length cs)) as [Li|Li].
  - rewrite nth_error_app1 in Hm0 by lia. rewrite nth_error_app1 in Hc by lia.
    destruct (Forall2_nth_l _ _ _ _ _ HC Hm0) as (cl & Hcl & (A1 & A2 & A3 & A4 & A5)).
    destruct (W i cl Hcl) as (cl'' & B0 & B1 & B2 & B3 & B4 & B5). assert (cl'' = cl') by congruence. subst cl''.
    rewrite (memb_false_ge i ds_c (length cs) Hge Li), orb_false_r in E5.
    repeat split; congruence.
  - rewrite nth_error_app2 in Hm0 by lia. rewrite nth_error_app2 in Hc by lia. rewrite L1 in Hm0. rewrite WL in Hc.
    destruct (Forall2_nth_l _ _ _ _ _ HN Hm0) as (cl & Hcl & (A1 & A2 & A3 & A4 & A5)).
    assert (cl = cl') by congruence. subst cl.
    rewrite (memb_false_lt i ds_r (length cs) Hlt Li) in E5.
    replace i with (length cs + (i - length cs)) in E5 at 1 by lia. unfold ds_c in E5. rewrite imm_of_memb, Hcl, A5 in E5. simpl in E5.
    repeat split; congruence.
Qed.

(* ---- the order in which resumed tasks call again ------------------------------------------------------------ *)

Lemma flat_map_ext_in {A B} (f g : A -> list B) l : (forall x, In x l -> f x = g x) -> flat_map f l = flat_map g l.
Proof.
  induction l as [|x r IH]; intros H; simpl; auto. rewrite (H x (or_introl eq_refl)), IH; auto.
  intros y Hy. apply H. now right.
Qed.

Lemma map_flat_map {A B C} (g : B -> C) (f : A -> list B) l : map g (flat_map f l) = flat_map (fun x => map g (f x)) l.
Proof. induction l as [|x r IH]; simpl; auto. now rewrite map_app, IH. Qed.

Lemma flat_map_map {A B C} (g : A -> B) (f : B -> list C) l : flat_map f (map g l) = flat_map (fun x => f (g x)) l.
Proof. induction l as [|x r IH]; simpl; auto. now rewrite IH. Qed.

Lemma in_recalls_of fd cs x : In x (recalls_of fd cs) ->
  exists cl, In cl cs /\ cl_st cl = None /\ lookup fd (cl_fid cl) <> None /\ fst x = cl_fid cl.
Proof.
  induction cs as [|cl r IH]; simpl; [intros []|]. intros H.
  destruct (cl_st cl) eqn:St; [destruct (IH H) as (cl0 & A & B); exists cl0; split; auto|].
  destruct (lookup fd (cl_fid cl)) eqn:Lk; [|destruct (IH H) as (cl0 & A & B); exists cl0; split; auto].
  destruct (cl_more cl); [destruct (IH H) as (cl0 & A & B); exists cl0; split; auto|].
  destruct H as [<-|H]; [exists cl; repeat split; auto; congruence|].
  destruct (IH H) as (cl0 & A & B); exists cl0; split; auto.
Qed.

Lemma recalls_pointwise fd k f calls cs :
  Forall2 CR calls cs ->
  (forall cl, In cl cs -> cl_st cl = None ->
     (cl_fid cl = f -> lookup fd (cl_fid cl) <> None) /\ (cl_key cl = k <-> cl_fid cl = f)) ->
  map snd (filter (fun x => Nat.eqb (fst x) f) (recalls_of fd cs)) = recalls_for calls k.
Proof.
  induction 1 as [|mc cl calls' cs' (A1 & A2 & A3 & A4 & A5) H IH]; intros Hc; [reflexivity|].
  assert (IH' : map snd (filter (fun x => Nat.eqb (fst x) f) (recalls_of fd cs')) = recalls_for calls' k).
  { apply IH. intros cl0 Hin. apply Hc. now right. }
  unfold recalls_for in *. cbn [flat_map recalls_of]. rewrite <- IH'. rewrite A5, A1. unfold st_done.
  destruct (cl_st cl) eqn:St; [now rewrite andb_false_r|].
  destruct (Hc cl (or_introl eq_refl) St) as [B1 B2]. cbn [negb]. rewrite andb_true_r.
  destruct (Nat.eqb_spec (cl_key cl) k) as [Ek|Nk].
  - assert (Ef : cl_fid cl = f) by now apply B2. specialize (B1 Ef).
    destruct (lookup fd (cl_fid cl)); [|congruence]. rewrite A4.
    destruct (cl_more cl); [reflexivity|]. cbn [filter fst]. rewrite Ef, Nat.eqb_refl. cbn [map snd app]. now rewrite A2, A3.
  - assert (Nf : cl_fid cl <> f) by (intros Ef; apply Nk; now apply B2).
    destruct (lookup fd (cl_fid cl)); [|reflexivity]. destruct (cl_more cl); [reflexivity|].
    cbn [filter fst]. destruct (Nat.eqb_spec (cl_fid cl) f); [congruence | reflexivity].
Qed.

Lemma recalls_match o (P : list (nat * nat)) fd calls cs :
  Forall2 CR calls cs -> sasc 0 (map snd P) ->
  (forall cl, In cl cs -> cl_st cl = None -> (lookup fd (cl_fid cl) <> None <-> In (cl_fid cl) (map snd P))) ->
  (forall k f cl, In (k, f) P -> In cl cs -> cl_st cl = None -> (cl_key cl = k <-> cl_fid cl = f)) ->
  map snd (sort_rc (recalls_of fd cs)) = recall_list calls (const_out o P).
Proof.
  intros HC Hs Hfd Hkf.
  rewrite (sort_group 0 (map snd P) (recalls_of fd cs) Hs).
  - unfold group, recall_list, const_out. rewrite map_flat_map, !flat_map_map. apply flat_map_ext_in.
    intros [k f] Hin. cbn [fst snd]. apply recalls_pointwise; auto.
    intros cl Hcl St. split; [|now apply Hkf].
    intros Ef. apply (Hfd cl Hcl St). rewrite Ef. apply in_map_iff. exists (k, f). auto.
  - intros x Hx. destruct (in_recalls_of _ _ _ Hx) as (cl & Hcl & St & Lk & Ex). rewrite Ex. now apply (Hfd cl Hcl St).
Qed.

(* ---- one monitor step in terms of its components (for ok_C11), recalls included -------------------------- *)

Definition eff_of (m : mst) (e : event) : nat * list (nat * outcome) * list mbatch * bool :=
  match bat_effect (m_live m) e with Some x => x | None => (0, [], m_live m, false) end.

Definition now_of (m : mst) (e : event) : N := match e with Advance dt => (m_now m + dt)%N | _ => m_now m end.
Definition mx_of (m : mst) (e : event) : nat := match e with SetMax n => n | _ => m_maxb m end.

(* the registration state after the step's calls: the event's own calls, or the calls of the resumed tasks *)
Definition q3_of (c : cfg) (m : mst) (e : event) (produced : list (nat * outcome)) : q4 :=
  regs c (now_of m e) (mx_of m e) (m_step m) (calls_of e ++ recall_list (m_calls m) produced)
       (m_calls m, set_done (now_of m e) (m_entries m) produced, m_expect m, []).

Lemma recall_list_nil' calls : recall_list calls [] = [].
Proof. reflexivity. Qed.

Lemma mon_step_F c m e obsd new rest bstep produced live1 freed :
  eff_of m e = (bstep, produced, live1, freed) ->
  (calls_of e = [] \/ produced = []) ->
  prod_ok (m_entries m) bstep produced = true ->
  map fst (filter (fun d => negb (fst (fst d) <? length (m_calls m))) (dones_of obsd)) = q_imm (q3_of c m e produced) ->
  starts_of obsd = map obs_st new ->
  map mka (q_ex (q3_of c m e produced)) = map ka (flat_map st_items new) ++ rest ->
  (forall x, In x new -> NoDup (map it_key (st_items x))) ->
  let m' := mon_step c m e obsd in
  m_bad11 m' = m_bad11 m /\ m_now m' = now_of m e /\ m_step m' = S (m_step m) /\
  m_calls m' = mark_done (q_calls (q3_of c m e produced)) 0 (map (fun d => fst (fst d)) (dones_of obsd)) /\
  m_entries m' = q_es (q3_of c m e produced) /\ map mka (m_expect m') = rest /\
  m_live m' = live1 ++ map (mb_of (m_step m)) new.
Proof.
  unfold eff_of, q3_of, now_of, mx_of. intros Heff Hshape Hp Hi Hs He Hnd. unfold mon_step.
  set (now' := match e with Advance dt => (m_now m + dt)%N | _ => m_now m end) in *.
  set (mx := match e with SetMax n => n | _ => m_maxb m end) in *.
  rewrite Heff.
  destruct Hshape as [Hc|Hpr].
  - rewrite Hc in *. cbn [reg_calls app regs] in *.
    destruct (reg_calls c now' mx (m_step m) (recall_list (m_calls m) produced) (m_calls m)
                (set_done now' (m_entries m) produced) (m_expect m) []) as [[[calls3 es3] ex3] imm].
    unfold q_imm, q_ex, q_calls, q_es in *. cbn [fst snd] in *.
    rewrite Hs, Hp, Hi. rewrite (list_eqb_refl co_eqb co_eqb_refl). simpl andb. cbn [negb]. rewrite orb_false_r.
    match goal with |- context [fold_left ?f (map obs_st new) ?m1] =>
      destruct (fold_check_start_ok c (length (m_live m)) freed new m1 rest He Hnd) as (A1 & A2 & A3 & (B1 & B2 & B3 & B4));
      set (m2 := fold_left f (map obs_st new) m1) in * end.
    cbn [m_bad11 m_now m_step m_calls m_entries m_expect m_live] in *.
    split; [exact A3|]. split; [exact B1|]. split; [now rewrite B2|]. split; [exact B3|].
    split; [exact B4|]. split; [exact A1 | exact A2].
  - subst produced. rewrite app_nil_r in *. cbn [set_done fold_left regs] in *.
    destruct (reg_calls c now' mx (m_step m) (calls_of e) (m_calls m) (m_entries m) (m_expect m) []) as [[[calls3 es3] ex3] imm].
    unfold q_imm, q_ex, q_calls, q_es in *. cbn [fst snd] in *.
    cbn [recall_list flat_map reg_calls prod_ok fold_left].
    rewrite Hs, Hi. rewrite (list_eqb_refl co_eqb co_eqb_refl). simpl andb. cbn [negb]. rewrite orb_false_r.
    match goal with |- context [fold_left ?f (map obs_st new) ?m1] =>
      destruct (fold_check_start_ok c (length (m_live m)) freed new m1 rest He Hnd) as (A1 & A2 & A3 & (B1 & B2 & B3 & B4));
      set (m2 := fold_left f (map obs_st new) m1) in * end.
    cbn [m_bad11 m_now m_step m_calls m_entries m_expect m_live] in *.
    split; [exact A3|]. split; [exact B1|]. split; [now rewrite B2|]. split; [exact B3|].
    split; [exact B4|]. split; [exact A1 | exact A2].
Qed.

(* ---- the simulation relation ---------------------------------------------------------------------------------- *)

Record SimF (c : cfg) (s : state) (m : mst) : Prop := {
  F_now : m_now m = now s;
  F_calls : Forall2 CR (m_calls m) (callers s);
  F_live : Forall2 (LR (m_entries m)) (m_live m) (running s);
  F_asc : forall B, In B (running s) -> sasc 0 (map snd (b_futs B));
  F_ent : ent_ok (m_step m) s (m_entries m);
  F_exp : map mka (m_expect m) = map ka (Q s)
}.

Lemma simF_init c : SimF c (init c) (minit c).
Proof. constructor; simpl; auto; try constructor; try (intros ? []); try (intros k; reflexivity). Qed.

Lemma now_of_adv c s m e : SimF c s m -> now_of m e = (now s + adv_of e)%N.
Proof. intros SM. unfold now_of. rewrite (F_now _ _ _ SM). destruct e; simpl; lia. Qed.

Lemma filter_app_old_new (l1 l2 : list (nat * outcome * N)) n :
  (forall d, In d l1 -> fst (fst d) < n) -> (forall d, In d l2 -> n <= fst (fst d)) ->
  filter (fun d => negb (fst (fst d) <? n)) (l1 ++ l2) = l2 /\ filter (fun d => fst (fst d) <? n) (l1 ++ l2) = l1.
Proof.
  intros H1 H2. rewrite !filter_app. destruct (filter_all_old l1 n H1) as [A B]. rewrite A, B.
  rewrite (filter_all_new l2 n H2). simpl. split; auto.
  assert (X : filter (fun d => fst (fst d) <? n) l2 = []).
  { clear - H2. induction l2 as [|d r IH]; simpl; auto. assert (n <= fst (fst d)) by (apply H2; now left).
    assert ((fst (fst d) <? n) = false) by lia. rewrite H0. apply IH. intros d' Hd'. apply H2. now right. }
  now rewrite X, app_nil_r.
Qed.

Lemma set_done_nil t es : set_done t es [] = es.
Proof. reflexivity. Qed.

(* what the layers for ok_C04 and ok_C10 need to know about one step *)
Record PkW (c : cfg) (s : state) (m : mst) (e : event) (s_r : state) (os_r : list obs)
       (chains : list (nat * option nat * nat)) (P : list (nat * nat)) (o : outcome)
       (bstep : nat) (live1 : list mbatch) (freed : bool) : Prop := {
  W_sim : SimF c (fst (step c s e)) (mon_step c m e (canon (snd (step c s e))));
  W_b11 : m_bad11 (mon_step c m e (canon (snd (step c s e)))) = m_bad11 m;
  W_eff : eff_of m e = (bstep, const_out o P, live1, freed);
  W_shape : calls_of e = [] \/ P = [];
  W_adv : P = [] \/ adv_of e = 0%N;
  W_invr : Inv c s_r;
  W_nowr : now s_r = (now s + adv_of e)%N;
  W_step : step c s e = (fst (do_chains c chains s_r), os_r ++ snd (do_chains c chains s_r));
  W_chains : chains = calls_of e ++ recall_list (m_calls m) (const_out o P);
  W_pend : forall k f, In (k, f) P -> pend s k f /\ exists it, In it (g_items s) /\ kf it = (k, f);
  W_fd : forall f', lookup (fdone s_r) f' = lk_of s o P f';
  W_gi : g_items s_r = g_items s;
  W_jr : JR c (m_step m) (mx_of m e) s_r (m_calls m, set_done (now s) (m_entries m) (const_out o P), m_expect m, [])
            (fst (step c s e)) (snd (do_chains c chains s_r)) (q3_of c m e (const_out o P));
  W_dn : dones_of (canon (snd (step c s e))) = dones_of os_r ++ dones_of (snd (do_chains c chains s_r));
  W_old : forall d, In d (dones_of os_r) -> fst (fst d) < length (m_calls m);
  W_new : forall d, In d (dones_of (snd (do_chains c chains s_r))) -> length (m_calls m) <= fst (fst d);
  W_late : map fst (dones_of os_r) = late_exp_of m e (const_out o P)
}.

Definition StepPk (c : cfg) (s : state) (m : mst) (e : event) : Prop :=
  exists s_r os_r chains P o bstep live1 freed, PkW c s m e s_r os_r chains P o bstep live1 freed.

(* the general step: the event resolves the futures P with outcome o and wakes their callers
   (state s_r, observations os_r), then the calls [chains] are made *)
Lemma simF_master c s m e s_r os_r chains (P : list (nat * nat)) o bstep live1 freed run1 :
  ev_ok e -> Inv c s -> SimF c s m ->
  step c s e = (fst (do_chains c chains s_r), os_r ++ snd (do_chains c chains s_r)) ->
  Inv c s_r -> now s_r = (now s + adv_of e)%N ->
  eff_of m e = (bstep, const_out o P, live1, freed) ->
  (calls_of e = [] \/ P = []) -> (P = [] \/ adv_of e = 0%N) ->
  prod_ok (m_entries m) bstep (const_out o P) = true ->
  chains = calls_of e ++ recall_list (m_calls m) (const_out o P) ->
  (forall k f, In (k, f) P -> pend s k f /\ exists it, In it (g_items s) /\ kf it = (k, f)) ->
  (forall f', lookup (fdone s_r) f' = lk_of s o P f') -> g_items s_r = g_items s ->
  Woken (callers s) (callers s_r) (done_ids os_r) ->
  (forall x, In x (done_ids os_r) -> x < length (callers s)) -> asc 0 (done_ids os_r) ->
  map fst (dones_of os_r) = late_exp_of m e (const_out o P) ->
  (forall B, In B run1 -> In B (running s_r) /\ sasc 0 (map snd (b_futs B))) ->
  (exists new, g_started (fst (step c s e)) = g_started s ++ new /\ running (fst (step c s e)) = run1 ++ map B_of new) ->
  Forall2 (LR (set_done (now s) (m_entries m) (const_out o P))) live1 run1 ->
  PkW c s m e s_r os_r chains P o bstep live1 freed.
Proof.
  intros Hev HI SM Hstep HIr Hnr Heff Hshape Hadv Hprod Hch Hpend' Hfd Hgi HW Hlt Hasc Hlate Hrun1 (new & Hst & Hrun) Hlive.
  assert (Hpend : forall k f, In (k, f) P -> pend s k f) by (intros k f H; apply (Hpend' k f H)).
  pose proof (Inv_step c s e Hev HI) as HI'. pose proof HI as (I & F & T & S & K & _). pose proof HI' as (I' & F' & T' & S' & K' & _).
  pose proof HIr as (Ir & Fr & Tr & Sr & Kr & _).
  destruct (step_emits c s e) as (new' & A & Bq).
  assert (new' = new) by (rewrite Hst in A; now apply app_inv_head in A). subst new'.
  destruct (step_clock c s e) as [_ Hnow].
  pose proof (now_of_adv c s m e SM) as Enow.
  assert (Eset : set_done (now_of m e) (m_entries m) (const_out o P) = set_done (now s) (m_entries m) (const_out o P)).
  { destruct Hadv as [->|Ha]; [reflexivity|]. rewrite Enow, Ha. f_equal. lia. }
  set (q0 := (m_calls m, set_done (now s) (m_entries m) (const_out o P), m_expect m, []) : q4).
  assert (E0 : ent_ok (m_step m) s_r (q_es q0)).
  { unfold q0, q_es. cbn [fst snd]. eapply (ent_resolved c s s_r); eauto. apply (F_ent _ _ _ SM). }
  destruct HW as [WL W].
  assert (L0 : length (q_calls q0) = length (callers s_r)).
  { unfold q0, q_calls. cbn [fst snd]. rewrite (Forall2_len _ _ _ (F_calls _ _ _ SM)). now rewrite WL. }
  pose proof (JR_chains c (m_step m) (mx_of m e) s_r q0 chains HIr E0 L0) as J.
  assert (Eq3 : q3_of c m e (const_out o P) = regs c (now s_r) (mx_of m e) (m_step m) chains q0).
  { unfold q3_of, q0. rewrite Eset, <- Hch, Hnr, Enow. reflexivity. }
  rewrite <- Eq3 in J.
  assert (Es' : fst (step c s e) = fst (do_chains c chains s_r)) by now rewrite Hstep.
  assert (Eos : snd (step c s e) = os_r ++ snd (do_chains c chains s_r)) by now rewrite Hstep.
  rewrite <- Es' in J.
  (* the simulation *)
    pose proof J as [_ Jn Jmx Jfd Jl Je (newc & newcl & Ec & Ecl & NRs & Hd & _) _ Jim (nit & Gi & Ex & _) Jr].
    set (s' := fst (step c s e)) in *. set (os_c := snd (do_chains c chains s_r)) in *.
    unfold q0 in Ec, Jim, Ex, Jr. unfold q_calls, q_es, q_ex, q_imm in Ec, Jim, Ex, Jr. cbn [fst snd] in Ec, Jim, Ex, Jr.
    assert (Hidc : done_ids os_c = map (fun d => fst (fst d)) (imm_of (length (callers s)) (now s_r) newcl)).
    { rewrite <- dones_ids, Hd, WL. reflexivity. }
    assert (Hasc' : asc 0 (done_ids (snd (step c s e)))).
    { rewrite Eos, done_ids_app. eapply (asc_app 0 _ _ (length (callers s))); eauto; [lia|]. rewrite Hidc. apply imm_of_asc. }
    assert (Edn : dones_of (canon (snd (step c s e))) = dones_of os_r ++ dones_of os_c).
    { rewrite (dones_canon_sorted _ 0 Hasc'), Eos, dones_of_app. reflexivity. }
    assert (Hold : forall d, In d (dones_of os_r) -> fst (fst d) < length (m_calls m)).
    { intros d Hin. rewrite (Forall2_len _ _ _ (F_calls _ _ _ SM)). apply Hlt. rewrite <- dones_ids. apply in_map_iff. exists d. auto. }
    assert (Hnew : forall d, In d (dones_of os_c) -> length (m_calls m) <= fst (fst d)).
    { intros d Hin. rewrite Hd in Hin. apply imm_of_ge in Hin. rewrite (Forall2_len _ _ _ (F_calls _ _ _ SM)). lia. }
    destruct (filter_app_old_new _ _ _ Hold Hnew) as [Fn Fo].
    assert (Gs : g_items s' = g_items s ++ nit) by (rewrite Gi, Hgi; reflexivity).
    assert (Hq : Q s ++ nit = flat_map st_items new ++ Q s').
    { pose proof (g_items_split _ F) as G0. pose proof (g_items_split _ F') as G'. fold s' in G'.
      rewrite Hst, Gs, G0, flat_map_app in G'. unfold Q. rewrite <- !app_assoc in G'.
      apply app_inv_head in G'. rewrite <- app_assoc. exact G'. }
    assert (Hnd : forall x, In x new -> NoDup (map it_key (st_items x))).
    { intros x Hx. eapply (new_nodup c s' new x HI'); eauto. }
    destruct (mon_step_F c m e (canon (snd (step c s e))) new (map ka (Q s')) bstep (const_out o P) live1 freed Heff)
      as (G1 & G2 & G3 & G4 & G5 & G6 & G7).
    + destruct Hshape as [Hc|Hp]; [now left | right; subst P; reflexivity].
    + exact Hprod.
    + unfold q_imm. rewrite Edn, Fn, Jim. reflexivity.
    + now apply starts_of_canon.
    + unfold q_ex. rewrite Ex, map_app, (F_exp _ _ _ SM), map_map. unfold mstamp, mka. cbn [mi_key mi_arg].
      change (map (fun x => (it_key x, it_arg x)) nit) with (map ka nit). rewrite <- map_app, Hq, map_app. reflexivity.
    + exact Hnd.
    + assert (Hrk : forall mb k, In mb live1 -> In k (mb_unans mb) -> lookup (ret s_r) k <> None).
      { intros mb k Hin Hk. destruct (Forall2_In_l _ _ _ _ Hlive Hin) as (B & HB & (_ & E2 & _)).
        rewrite E2 in Hk. apply in_map_iff in Hk as ([k0 f] & Ek & Hf). simpl in Ek. subst k0.
        destruct (Hrun1 B HB) as [HBr _]. destruct (P_run _ _ _ Kr B k f HBr Hf) as [_ R]. congruence. }
      assert (SMf : SimF c s' (mon_step c m e (canon (snd (step c s e))))); [constructor|constructor; auto].
      * rewrite G2, Enow. symmetry. exact Hnow.
      * rewrite G4, Edn, map_app, !dones_ids. unfold q_calls. rewrite Ec, Ecl, Hidc. apply crel_mark; auto.
        -- apply (F_calls _ _ _ SM).
        -- split; auto.
      * rewrite G5, G7, Hrun. unfold q_es. apply Forall2_app.
        -- eapply Forall2_LR_mono; [exact Hlive|]. intros mb k Hin Hk. apply Jr. now apply (Hrk mb k).
        -- apply (new_live c s' (m_step m) _ new HI' Je); auto.
           intros x Hx. fold s'. rewrite Hrun. apply in_or_app. right. now apply in_map.
      * intros B HB. fold s' in HB. rewrite Hrun in HB. apply in_app_or in HB as [HB|HB]; [now apply Hrun1|].
        apply in_map_iff in HB as ([[b its] t] & <- & Hx). simpl.
        rewrite (futs_of_nodup its (Hnd _ Hx)), map_snd_kf.
        apply (started_fids_asc s' b its t F' S'). fold s'. rewrite Hst. apply in_or_app. now right.
      * rewrite G5, G3. eapply ent_ok_mono; [|exact Je]. lia.
      * exact G6.
Qed.

(* ---- the resolve phase of a batch-function event: [wake] after futures were resolved -------------------- *)

(* the invariants that hold between the resolution of futures and [wake] *)
Definition Pre (c : cfg) (s : state) : Prop :=
  LInv c s /\ Fifo s /\ TInv c s /\ SInv s /\ PInv c s [] /\ CInv s.

Lemma pre_wake_inv c s : Pre c s -> Inv c (fst (wake s)).
Proof.
  intros (I & F & T & S & K & C).
  destruct (wake_LF c s (conj I F)) as [[I1 F1] _].
  split; [exact I1|]. split; [exact F1|]. split; [now apply wake_T|].
  split; [eapply same_S_inv; [apply wake_sameS | exact S]|].
  split; [eapply same_P_inv; [apply wake_sameP | exact K]|].
  apply wake_CW; exact C.
Qed.

Lemma wake_from_fields fd t cs : forall i j cl,
  nth_error cs j = Some cl ->
  exists cl', nth_error (fst (wake_from fd t i cs)) j = Some cl' /\ cl_key cl' = cl_key cl /\ cl_arg cl' = cl_arg cl /\
    cl_ko cl' = cl_ko cl /\ cl_more cl' = cl_more cl /\
    st_done cl' = (st_done cl || is_some (lookup fd (cl_fid cl))).
Proof.
  induction cs as [|c0 r IH]; intros i [|j] cl H; simpl in H; try discriminate.
  - injection H as <-. simpl. destruct (wake_from fd t (S i) r) as [r' os]. unfold st_done.
    destruct (cl_st c0) eqn:St; [|destruct (lookup fd (cl_fid c0)) as [[o t0]|] eqn:Lk]; simpl;
      eexists; (split; [reflexivity|]); simpl; rewrite ?St; auto.
  - destruct (IH (S i) j cl H) as (cl' & H1 & H2). simpl. destruct (wake_from fd t (S i) r) as [r' os]. simpl in *.
    exists cl'. split; auto. destruct (cl_st c0); auto. destruct (lookup fd (cl_fid c0)) as [[o t0]|]; auto.
Qed.

Lemma wake_woken s :
  Woken (callers s) (callers (fst (wake s))) (done_ids (snd (wake s))) /\
  (forall x, In x (done_ids (snd (wake s))) -> x < length (callers s)) /\ asc 0 (done_ids (snd (wake s))) /\
  dones_of (snd (wake s)) = dones_spec (lookup (fdone s)) (now s) 0 (callers s).
Proof.
  destruct (wake_out s) as (W1 & W2 & _).
  assert (Eid : done_ids (snd (wake s)) = map (fun d => fst (fst d)) (dones_spec (lookup (fdone s)) (now s) 0 (callers s))).
  { rewrite <- dones_ids, W1. reflexivity. }
  split; [|split; [|split; [|exact W1]]].
  - split; [exact W2|]. intros j cl Hn.
    unfold wake. pose proof (wake_from_fields (fdone s) (now s) (callers s) 0 j cl Hn) as H.
    destruct (wake_from (fdone s) (now s) 0 (callers s)) as [cs os] eqn:Ew. simpl in *.
    destruct H as (cl' & A0 & A1 & A2 & A3 & A4 & A5). exists cl'. repeat split; auto.
    rewrite A5. assert (Eid' : done_ids os = map (fun d => fst (fst d)) (dones_spec (lookup (fdone s)) (now s) 0 (callers s))).
    { unfold wake in Eid. rewrite Ew in Eid. exact Eid. }
    rewrite Eid'. pose proof (dones_spec_memb (lookup (fdone s)) (now s) (callers s) 0 j) as M. simpl in M. rewrite M, Hn.
    destruct (st_done cl); reflexivity.
  - intros x Hx. rewrite Eid in Hx. apply in_map_iff in Hx as (d & <- & Hd). apply dones_spec_ids_lt in Hd. lia.
  - rewrite Eid. apply dones_spec_asc.
Qed.

Lemma done_ids_os o1 o2 : only_starts o1 -> done_ids (o1 ++ o2) = done_ids o2.
Proof. intros H. now rewrite done_ids_app, (done_ids_starts _ H). Qed.

Lemma simF_wake c s m e s2 o1 (P : list (nat * nat)) o bstep live1 freed run1 :
  ev_ok e -> Inv c s -> SimF c s m ->
  step c s e = (fst (wake_all c s2), o1 ++ snd (wake_all c s2)) -> only_starts o1 ->
  Pre c s2 -> now s2 = now s -> callers s2 = callers s -> g_items s2 = g_items s ->
  (forall f', lookup (fdone s2) f' = lk_of s o P f') ->
  calls_of e = [] -> adv_of e = 0%N -> is_cancel e = None ->
  eff_of m e = (bstep, const_out o P, live1, freed) ->
  prod_ok (m_entries m) bstep (const_out o P) = true ->
  (forall k f, In (k, f) P -> pend s k f /\ exists it, In it (g_items s) /\ kf it = (k, f)) ->
  sasc 0 (map snd P) ->
  (forall B, In B run1 -> In B (running s2) /\ sasc 0 (map snd (b_futs B))) ->
  (exists new, g_started (fst (step c s e)) = g_started s ++ new /\ running (fst (step c s e)) = run1 ++ map B_of new) ->
  Forall2 (LR (set_done (now s) (m_entries m) (const_out o P))) live1 run1 ->
  PkW c s m e (fst (wake s2)) (o1 ++ snd (wake s2)) (chains_of s2) P o bstep live1 freed.
Proof.
  intros Hev HI SM Hstep Hos HP Hn2 Hc2 Hg2 Hfd Hcalls Hadv Hcan Heff Hprod Hpend Hasc Hrun1 Hra Hlive.
  pose proof HI as (I & F & T & S & K & C & W).
  destruct (wake_woken s2) as (WK & Wlt & Wasc & Wd).
  destruct (wake_sameP s2) as ((G1 & _ & _ & _ & G5 & _) & G6 & _ & _ & G9).
  rewrite wake_all_split in Hstep. cbn [fst snd] in Hstep. rewrite app_assoc in Hstep.
  assert (Ech : chains_of s2 = recall_list (m_calls m) (const_out o P)).
  { unfold chains_of. rewrite Hc2. apply recalls_match; auto.
    - apply (F_calls _ _ _ SM).
    - intros cl Hcl St. rewrite Hfd. unfold lk_of.
      assert (Hd : lookup (fdone s) (cl_fid cl) = None).
      { specialize (W cl Hcl St). unfold is_done in W. destruct (lookup (fdone s) (cl_fid cl)); [discriminate|auto]. }
      destruct (memb (cl_fid cl) (map snd P)) eqn:M.
      + split; [intros _; now apply memb_In | discriminate].
      + rewrite Hd. split; [congruence|]. intros Hin. apply memb_In in Hin. congruence.
    - intros k f cl Hin Hcl St. destruct (Hpend k f Hin) as [[_ R] (it' & Hit' & Ekf')].
      destruct (C_item _ C cl Hcl) as (it & Hit & Ekf).
      assert (Hd : lookup (fdone s) (cl_fid cl) = None).
      { specialize (W cl Hcl St). unfold is_done in W. destruct (lookup (fdone s) (cl_fid cl)); [discriminate|auto]. }
      assert (R' : lookup (ret s) (cl_key cl) = Some (cl_fid cl)).
      { unfold kf in Ekf. injection Ekf as E1 E2. rewrite <- E1, <- E2. apply (undone_in_ret c s it HI Hit). now rewrite E2. }
      split; [intros <-; congruence|]. intros <-. symmetry. eapply (kf_item_key s it' it); eauto. }
  assert (Hlate : map fst (dones_of (o1 ++ snd (wake s2))) = late_exp_of m e (const_out o P)).
  { rewrite dones_of_app, (dones_of_starts _ Hos), Wd. cbn [app]. unfold late_exp_of. rewrite Hcan. symmetry.
    rewrite Hc2. apply late_match.
    pose proof (F_calls _ _ _ SM) as HC.
    apply Forall2_nth; [exact (Forall2_len _ _ _ HC)|]. intros i mc cl Hm Hc'.
    destruct (Forall2_nth_l _ _ _ _ _ HC Hm) as (cl0 & Hcl0 & (A1 & _ & _ & _ & A5)).
    assert (cl0 = cl) by congruence. subst cl0. pose proof (nth_error_In _ _ Hc') as Hin.
    unfold opt_m, opt_s. rewrite A5. unfold st_done. destruct (cl_st cl) eqn:St; auto.
    assert (Hdn : lookup (fdone s) (cl_fid cl) = None).
    { specialize (W cl Hin St). unfold is_done in W. destruct (lookup (fdone s) (cl_fid cl)); [discriminate|auto]. }
    rewrite lookup_const_out, A1, (key_fid_P c s P cl HI Hin St Hpend), Hfd. unfold lk_of.
    destruct (memb (cl_fid cl) (map snd P)); auto. now rewrite Hdn. }
  apply (simF_master c s m e (fst (wake s2)) (o1 ++ snd (wake s2)) (chains_of s2) P o bstep live1 freed run1); auto.
  - now apply pre_wake_inv.
  - rewrite G9, Hn2, Hadv. lia.
  - rewrite Hcalls, Ech. reflexivity.
  - intros f'. rewrite G6. apply Hfd.
  - rewrite G1. exact Hg2.
  - rewrite (done_ids_os _ _ Hos), <- Hc2. exact WK.
  - rewrite (done_ids_os _ _ Hos), <- Hc2. exact Wlt.
  - rewrite (done_ids_os _ _ Hos). exact Wasc.
  - intros B HB. rewrite G5. now apply Hrun1.
Qed.

(* ---- batch-function events ---------------------------------------------------------------------------------- *)

Lemma sasc_remove_key k (l : list (nat * nat)) n : sasc n (map snd l) -> sasc n (map snd (remove_key k l)).
Proof. unfold remove_key. apply sasc_filter. Qed.

Lemma simF_yield c s m B k f r :
  Inv c s -> SimF c s m -> In B (running s) -> lookup (b_futs B) k = Some f ->
  let e := BYield (b_id B) k r in
  StepPk c s m e.
Proof.
  intros HI SM HB Lk e. pose proof HI as (I & F & T & S & K & C & W).
  pose proof (lookup_In _ _ _ Lk) as Hin.
  destruct (P_run _ _ _ K B k f HB Hin) as [Hd R].
  pose proof (find_corr (m_entries m) (m_live m) (running s) (b_id B) (F_live _ _ _ SM)) as FC.
  pose proof (find_batch_in c s B I HB) as FB. pose proof FB as FB'. unfold find_batch in FB. rewrite FB in FC.
  destruct (find_live (m_live m) (b_id B)) as [mb|] eqn:FL; [|contradiction].
  pose proof FC as (E1 & E2 & E3).
  destruct (byield_detach c s B k f r I F S K HB Lk) as (S1 & K1 & Sp).
  set (s1 := set_batch_futs (log_bev s (b_id B) (EvYield k r)) (b_id B) (remove_key k (b_futs B))) in *.
  set (s2 := resolve c k f (of_res r) s1).
  assert (Hstep : step c s e = (fst (wake_all c s2), [] ++ snd (wake_all c s2))).
  { unfold e. simpl. rewrite FB', Lk. unfold set_fut. fold s1.
    change (is_done s1 f) with (is_done s f). rewrite Hd. fold s2. destruct (wake_all c s2); reflexivity. }
  assert (I1 : LInv c s1) by (apply set_batch_futs_L; destruct I; constructor; auto).
  assert (F1 : Fifo s1) by exact F.
  assert (C1 : CInv s1) by (destruct C; constructor; auto).
  assert (T1 : TInv c s1) by (apply set_batch_futs_T, log_bev_T, T).
  pose proof (resolve_same c k f (of_res r) s1) as SL.
  assert (HP : Pre c s2).
  { split; [eapply same_L_inv; eauto|]. split; [eapply same_L_fifo; eauto|]. split; [now apply resolve_T|].
    split; [eapply same_S_inv; [apply resolve_sameS | exact S1]|]. split; [now apply resolve_P|].
    apply resolve_C; auto. }
  assert (Hbat : eff_of m e = (mb_step mb, const_out (of_res r) [(k, f)],
                       upd_live (m_live m) (b_id B) (remove_nat k (mb_unans mb)), false)).
  { unfold eff_of, e. simpl. rewrite FL. rewrite E2, memb_map_fst, Lk. reflexivity. }
  pose (upd := fun x => if Nat.eqb (b_id x) (b_id B) then mkbatch (b_id x) (b_items x) (remove_key k (b_futs B)) else x).
  assert (Er2 : running s2 = map upd (running s)) by (unfold s2, resolve; destruct (0 <? c_rt c)%N; reflexivity).
  do 8 eexists.
  apply (simF_wake c s m e s2 [] [(k, f)] (of_res r) (mb_step mb) (upd_live (m_live m) (b_id B) (remove_nat k (mb_unans mb))) false (map upd (running s)) Logic.I HI SM Hstep); auto.
  - intros ? [].
  - unfold s2, resolve. destruct (0 <? c_rt c)%N; reflexivity.
  - unfold s2, resolve. destruct (0 <? c_rt c)%N; reflexivity.
  - unfold s2, resolve. destruct (0 <? c_rt c)%N; reflexivity.
  - intros f'. unfold s2. rewrite fdone_resolve. unfold lk_of, memb. simpl. rewrite (Nat.eqb_sym f' f).
    destruct (Nat.eqb f f'); reflexivity.
  - apply (prod_ok_const _ _ (of_res r) [(k, f)]). intros k' [<-|[]]. apply E3. rewrite E2.
    apply in_map_iff. exists (k, f). auto.
  - intros k' f' [H|[]]. injection H as <- <-. split; [split; auto|].
    destruct (futs_item s B k f S HB Hin) as (it & Hit & Hk & Hf). exists it.
    split; [exact (running_sub s B it F S HB Hit) | unfold kf; congruence].
  - simpl. split; [lia | exact Logic.I].
  - intros B' HB'. rewrite Er2. split; [exact HB'|].
    apply in_map_iff in HB' as (B0 & <- & HB0). unfold upd.
    destruct (Nat.eqb (b_id B0) (b_id B)); simpl; [apply sasc_remove_key|]; now apply (F_asc _ _ _ SM).
  - rewrite Hstep. cbn [fst]. destruct (wake_all_RA c s2) as (new & R1 & R2). exists new.
    rewrite R1, R2, Er2. split; [|reflexivity]. unfold s2, resolve. destruct (0 <? c_rt c)%N; reflexivity.
  - unfold upd_live. apply (Forall2_map2 (LR (m_entries m))); [apply (F_live _ _ _ SM)|].
    intros mb' B' Hmb HB' (A1 & A2 & A3). rewrite A1. unfold upd.
    destruct (Nat.eqb_spec (b_id B') (b_id B)) as [Eb|Nb].
    + assert (B' = B) by exact (same_id_same_batch c s B B' I HB HB' Eb). subst B'.
      split; [simpl; auto|]. split; [simpl; rewrite E2; apply remove_nat_map_fst|].
      cbn [mb_unans mb_step]. intros k' Hk'. unfold remove_nat in Hk'. apply filter_In in Hk' as [Hk1 Hk2].
      rewrite lookup_set_done. unfold memb. cbn [map fst existsb]. rewrite orb_false_r.
      destruct (Nat.eqb_spec k' k) as [Ek|Nk]; [discriminate|]. apply A3. rewrite A2, <- E2. exact Hk1.
    + split; auto. split; auto. intros k' Hk'. rewrite lookup_set_done.
      assert (M : memb k' (map fst (b_futs B)) = false).
      { eapply (other_batch_keys c s _ _ mb' B k' HI (F_live _ _ _ SM)); eauto. congruence. }
      unfold memb. cbn [map fst existsb]. rewrite orb_false_r. destruct (Nat.eqb_spec k' k) as [Ek|Nk]; [|apply A3; exact Hk'].
      exfalso. assert (memb k (map fst (b_futs B)) = true) by (apply memb_In; apply in_map_iff; exists (k, f); auto).
      congruence.
Qed.

Lemma simF_end c s m e B o ev :
  ev_ok e -> Inv c s -> SimF c s m -> In B (running s) -> calls_of e = [] -> adv_of e = 0%N -> is_cancel e = None ->
  step c s e = end_batch c B o (log_bev s (b_id B) ev) -> ends_with B ev o ->
  (forall mb, find_live (m_live m) (b_id B) = Some mb -> mb_unans mb = map fst (b_futs B) ->
     bat_effect (m_live m) e =
     Some (mb_step mb, map (fun k => (k, o)) (mb_unans mb), drop_live (m_live m) (mb_id mb), true)) ->
  StepPk c s m e.
Proof.
  intros Hev HI SM HB Hcalls Hadv Hcan Hstep Hends Hbat. pose proof HI as (I & F & T & S & K & C & W).
  pose proof (find_corr (m_entries m) (m_live m) (running s) (b_id B) (F_live _ _ _ SM)) as FC.
  pose proof (find_batch_in c s B I HB) as FB. unfold find_batch in FB. rewrite FB in FC.
  destruct (find_live (m_live m) (b_id B)) as [mb|] eqn:FL; [|contradiction].
  pose proof FC as (E1 & E2 & E3). specialize (Hbat mb eq_refl E2).
  assert (Eprod : map (fun k => (k, o)) (mb_unans mb) = const_out o (b_futs B)).
  { rewrite E2. unfold const_out. now rewrite map_map. }
  rewrite Eprod in Hbat.
  destruct (log_end c s B ev o I F S K HB Hends) as (S0 & K0 & Hspec).
  set (s0 := log_bev s (b_id B) ev) in *.
  assert (I0 : LInv c s0) by (destruct I; constructor; auto).
  assert (F0 : Fifo s0) by exact F.
  assert (C0 : CInv s0) by (destruct C; constructor; auto).
  assert (T0 : TInv c s0) by (apply log_bev_T, T).
  assert (HB0 : In B (running s0)) by exact HB.
  destruct (end_batch_mid c B o s0 I0 F0 HB0) as (I1 & F1 & I2 & F2).
  destruct (end_detach c s0 B I0 F0 S0 K0 HB0) as [S00 K00].
  pose proof (end_batch_RA c B o s0) as (new & R1 & R2).
  unfold end_batch in *. set (s00 := set_running s0 (filter (fun x => negb (Nat.eqb (b_id x) (b_id B))) (running s0))) in *.
  assert (T00 : TInv c s00) by (destruct T0; constructor; auto).
  pose proof (release_slot_S s00 S00) as S1. pose proof (release_slot_P c s00 _ S00 K00) as K1.
  pose proof (release_slot_T c s00 T00) as T1.
  pose proof (release_slot_sameC s00) as (C1a & C1b & C1c). destruct (release_slot_clock s00) as [N1 _].
  pose proof (release_slot_os s00) as O1. destruct (release_slot_mono s00) as (M1 & M2 & M3).
  pose proof (release_slot_RA s00) as (new1 & Q1 & Q2).
  destruct (release_slot s00) as [s1 o1]. cbn [fst snd] in *.
  assert (CI1 : CInv s1) by (eapply same_C_inv; [split; [exact C1a | split; [exact C1b | exact C1c]]|]; destruct C0; constructor; auto).
  assert (Hspec1 : forall k f, In (k, f) (b_futs B) -> spec_of s1 k f o).
  { intros k f H. eapply spec_of_mono; [| | |exact (Hspec k f H)]; auto. now rewrite M1. }
  rewrite <- (app_nil_r (b_futs B)) in K1.
  destruct (fanout_P c o (b_futs B) s1 [] S1 K1 Hspec1) as [K2 Hdied].
  pose proof (same_S_inv _ _ (fanout_sameS c (b_futs B) o s1) S1) as S2.
  pose proof (fanout_C c (b_futs B) o s1 CI1) as C2. pose proof (fanout_T c (b_futs B) o s1 T1) as T2.
  assert (Hd1 : forall k f, In (k, f) (b_futs B) -> is_done s1 f = false).
  { intros k f H. unfold is_done. rewrite C1b. apply (P_run _ _ _ K B k f HB H). }
  pose proof (futs_snd_nodup c s B I F S HB) as ND.
  pose proof (fanout_fdone c o (b_futs B) s1 Hd1 ND) as Hf.
  destruct (fanout_sameS c (b_futs B) o s1) as (G1 & _ & _ & _ & G5 & _).
  pose proof (fanout_callers c (b_futs B) o s1) as Cf. destruct (fanout_clock c (b_futs B) o s1) as [N2 _].
  destruct (fanout c (b_futs B) o s1) as [s2 died]. cbn [fst snd] in *. subst died.
  assert (Hshape : step c s e = (fst (wake_all c s2), o1 ++ snd (wake_all c s2))).
  { rewrite Hstep. destruct (wake_all c s2) as [s3 o3]. simpl. now rewrite app_nil_r. }
  assert (Hres : fst (step c s e) = fst (let '(s3, o3) := wake_all c s2 in (s3, o1 ++ o3 ++ []))) by now rewrite Hstep.
  do 8 eexists.
  apply (simF_wake c s m e s2 o1 (b_futs B) o (mb_step mb) (drop_live (m_live m) (mb_id mb)) true
              (filter (fun x => negb (Nat.eqb (b_id x) (b_id B))) (running s)) Hev HI SM Hshape); auto.
  - split; [exact I2|]. split; [exact F2|]. split; [exact T2|]. split; [exact S2|]. split; [exact K2 | exact C2].
  - rewrite N2, N1. reflexivity.
  - rewrite Cf, C1a. reflexivity.
  - rewrite G1, C1c. reflexivity.
  - intros f'. rewrite Hf, N1, C1b. reflexivity.
  - unfold eff_of. now rewrite Hbat.
  - apply prod_ok_const. intros k Hk. apply E3. now rewrite E2.
  - intros k f H. split; [apply (P_run _ _ _ K B k f HB H)|].
    destruct (futs_item s B k f S HB H) as (it & Hit & Hk & Hf'). exists it.
    split; [exact (running_sub s B it F S HB Hit) | unfold kf; congruence].
  - now apply (F_asc _ _ _ SM).
  - intros B' HB'. split; [rewrite G5, Q2; apply in_or_app; left; exact HB'|].
    apply filter_In in HB' as [HB' _]. now apply (F_asc _ _ _ SM).
  - exists new. rewrite Hres. split; [exact R1 | exact R2].
  - rewrite E1. eapply Forall2_LR_mono; [apply Forall2_filter_LR, (F_live _ _ _ SM)|].
    intros mb' k Hin Hk. apply in_drop_live in Hin as [Hin Hid]. rewrite lookup_set_done.
    rewrite (other_batch_keys c s _ _ mb' B k HI (F_live _ _ _ SM) HB Hin Hid Hk). reflexivity.
Qed.

(* ---- Call / Chain / Burst ------------------------------------------------------------------------------------ *)

Lemma do_chain_RA c a ko m s : RA s (fst (do_chain c a ko m s)).
Proof.
  apply (lift_chain c (fun _ => True) (fun s s' _ => RA s s') (fun s _ => RA_refl s s eq_refl eq_refl)
           (fun s1 s2 s3 _ _ => RA_trans s1 s2 s3) (call_RA_ok c) a ko m s Logic.I).
Qed.

Definition is_call_ev (e : event) : bool := match e with Call _ _ | Chain _ _ _ | Burst _ => true | _ => false end.

Lemma step_calls_shape c s e : is_call_ev e = true ->
  step c s e = (fst (do_chains c (calls_of e) s), [] ++ snd (do_chains c (calls_of e) s)) /\ RA s (fst (step c s e)).
Proof.
  destruct e as [a ko|a ko mm|l|dt|b k r|b x|b|cid|n]; try discriminate; intros _.
  - split; [|apply do_call_RA]. cbn [step calls_of]. rewrite do_chains_one, do_chain_0. cbn [fst snd app].
    destruct (do_call c a ko 0 s). simpl. now rewrite app_nil_r.
  - split; [|apply do_chain_RA]. cbn [step calls_of]. rewrite do_chains_one. cbn [fst snd app].
    destruct (do_chain c a ko mm s). simpl. now rewrite app_nil_r.
  - split; [|apply do_calls_RA]. cbn [step calls_of]. rewrite do_calls_chains. cbn [app].
    destruct (do_chains c _ s). reflexivity.
Qed.

Lemma simF_calls c s m e :
  is_call_ev e = true -> Inv c s -> SimF c s m ->
  StepPk c s m e.
Proof.
  intros He HI SM. destruct (step_calls_shape c s e He) as [Hstep (new & R1 & R2)].
  assert (Hev : ev_ok e) by (destruct e; try discriminate; exact Logic.I).
  assert (Hadv : adv_of e = 0%N) by (destruct e; try discriminate; reflexivity).
  do 8 eexists.
  apply (simF_master c s m e s [] (calls_of e) [] Missing 0 (m_live m) false (running s) Hev HI SM Hstep HI); auto.
  - rewrite Hadv. lia.
  - unfold eff_of. destruct e; try discriminate; reflexivity.
  - cbn. now rewrite app_nil_r.
  - intros ? ? [].
  - apply Woken_refl.
  - intros ? [].
  - exact Logic.I.
  - unfold late_exp_of. destruct e; try discriminate; cbn [is_cancel const_out map dones_of]; symmetry; apply late_expected_nil.
  - intros B HB. split; [exact HB | now apply (F_asc _ _ _ SM)].
  - exists new. split; assumption.
  - apply (F_live _ _ _ SM).
Qed.

(* ---- events that resolve nothing and make no call ------------------------------------------------------------- *)

Lemma simF_quiet c s m e :
  ev_ok e -> Inv c s -> SimF c s m -> calls_of e = [] -> bat_effect (m_live m) e = None ->
  fdone (fst (step c s e)) = fdone s -> g_items (fst (step c s e)) = g_items s -> RA s (fst (step c s e)) ->
  Woken (callers s) (callers (fst (step c s e))) (done_ids (snd (step c s e))) ->
  (forall x, In x (done_ids (snd (step c s e))) -> x < length (callers s)) -> asc 0 (done_ids (snd (step c s e))) ->
  map fst (dones_of (snd (step c s e))) = late_exp_of m e [] ->
  StepPk c s m e.
Proof.
  intros Hev HI SM Hcalls Hbat Hfd Hgi (new & R1 & R2) HW Hlt Hasc Hlate.
  pose proof (Inv_step c s e Hev HI) as HI'. destruct (step_clock c s e) as [_ Hnow].
  assert (Hstep : step c s e = (fst (do_chains c [] (fst (step c s e))),
                                snd (step c s e) ++ snd (do_chains c [] (fst (step c s e))))).
  { simpl. rewrite app_nil_r. apply surjective_pairing. }
  do 8 eexists.
  apply (simF_master c s m e (fst (step c s e)) (snd (step c s e)) [] [] Missing 0 (m_live m) false (running s)
              Hev HI SM Hstep HI' Hnow); auto.
  - unfold eff_of. now rewrite Hbat.
  - rewrite Hcalls. reflexivity.
  - intros ? ? [].
  - intros f'. now rewrite Hfd.
  - intros B HB. split; [rewrite R2; apply in_or_app; now left | now apply (F_asc _ _ _ SM)].
  - exists new. split; assumption.
  - apply (F_live _ _ _ SM).
Qed.

Lemma cancel_woken s cid cl :
  nth_error (callers s) cid = Some cl -> cl_st cl = None ->
  let cl1 := mkcaller (cl_key cl) (cl_fid cl) (cl_creator cl) (cl_t cl) (Some Cancelled) (cl_arg cl) (cl_ko cl) (cl_more cl) in
  Woken (callers s) (firstn cid (callers s) ++ cl1 :: skipn (S cid) (callers s)) [cid].
Proof.
  intros Ec St cl1.
  assert (Lc : cid < length (callers s)) by (apply nth_error_Some; congruence).
  assert (Lf : length (firstn cid (callers s)) = cid) by (rewrite firstn_length; lia).
  split.
  - rewrite app_length. cbn [length]. rewrite Lf, skipn_length. lia.
  - intros j cl0 Hj. destruct (Nat.eq_dec j cid) as [->|Nj].
    + exists cl1. rewrite nth_error_app2 by lia. rewrite Lf, Nat.sub_diag. assert (cl0 = cl) by congruence. subst cl0.
      repeat split; auto. unfold st_done, memb. simpl. rewrite Nat.eqb_refl. now rewrite orb_true_r.
    + exists cl0. split.
      * destruct (Nat.lt_ge_cases j cid) as [Lj|Lj].
        -- rewrite nth_error_app1 by lia. now rewrite nth_firstn_lt by lia.
        -- rewrite nth_error_app2 by lia. rewrite Lf. destruct (j - cid) as [|d] eqn:Ej; [lia|]. cbn [nth_error].
           rewrite nth_skipn'. replace (S cid + d) with j by lia. exact Hj.
      * repeat split; auto. unfold memb. simpl. assert ((j =? cid) = false) by lia. rewrite H. now rewrite !orb_false_r.
Qed.

(* ---- every step ------------------------------------------------------------------------------------------------ *)

Lemma find_live_noneF c s m b : SimF c s m -> find_batch s b = None -> find_live (m_live m) b = None.
Proof.
  intros SM H. pose proof (find_corr (m_entries m) (m_live m) (running s) b (F_live _ _ _ SM)) as FC.
  unfold find_batch in H. rewrite H in FC. destruct (find_live (m_live m) b); [contradiction|reflexivity].
Qed.

Lemma simF_noop c s m e :
  ev_ok e -> Inv c s -> SimF c s m -> calls_of e = [] -> bat_effect (m_live m) e = None -> step c s e = (s, []) ->
  late_exp_of m e [] = [] ->
  StepPk c s m e.
Proof.
  intros Hev HI SM Hc Hb Hs Hl. apply simF_quiet; auto; rewrite Hs; cbn [fst snd done_ids filter map dones_of]; auto.
  - now apply RA_refl.
  - apply Woken_refl.
  - intros ? [].
  - exact Logic.I.
Qed.

Lemma simF_step c s m e : ev_ok e -> Inv c s -> SimF c s m -> StepPk c s m e.
Proof.
  intros Hev HI SM. pose proof HI as (I & F & T & S0 & K & _).
  destruct e as [a ko|a ko mm|l|dt|b k r|b x|b|cid|n].
  - now apply simF_calls.
  - now apply simF_calls.
  - now apply simF_calls.
  - apply simF_quiet; auto; cbn [step].
    + apply advance_fdone.
    + apply advance_gitems.
    + apply advance_RA.
    + rewrite advance_callers, (done_ids_starts _ (advance_os _ _ _)). apply Woken_refl.
    + rewrite (done_ids_starts _ (advance_os _ _ _)). intros ? [].
    + rewrite (done_ids_starts _ (advance_os _ _ _)). exact Logic.I.
    + rewrite (dones_of_starts _ (advance_os _ _ _)). symmetry. now apply late_nil.
  - destruct (find_batch s b) as [B|] eqn:FB.
    + apply find_batch_some in FB as [HB Hid]. subst b.
      destruct (lookup (b_futs B) k) as [f|] eqn:Lk.
      * exact (simF_yield c s m B k f r HI SM HB Lk).
      * apply (simF_end c s m _ B ProtocolErr (EvYield k r)); auto.
        -- simpl. rewrite (find_batch_in c s B I HB), Lk. reflexivity.
        -- simpl. eauto.
        -- intros mb FL E2. simpl. rewrite FL, E2, memb_map_fst, Lk. reflexivity.
    + apply simF_noop; auto; simpl; try rewrite FB; auto; [now rewrite (find_live_noneF c s m b SM FB) | now apply late_nil].
  - destruct (find_batch s b) as [B|] eqn:FB.
    + apply find_batch_some in FB as [HB Hid]. subst b.
      apply (simF_end c s m _ B (RaisedExc x) (EvRaise x)); auto.
      * simpl. rewrite (find_batch_in c s B I HB). reflexivity.
      * reflexivity.
      * intros mb FL E2. simpl. rewrite FL. reflexivity.
    + apply simF_noop; auto; simpl; try rewrite FB; auto; [now rewrite (find_live_noneF c s m b SM FB) | now apply late_nil].
  - destruct (find_batch s b) as [B|] eqn:FB.
    + apply find_batch_some in FB as [HB Hid]. subst b.
      apply (simF_end c s m _ B Missing EvFin); auto.
      * simpl. rewrite (find_batch_in c s B I HB). reflexivity.
      * reflexivity.
      * intros mb FL E2. simpl. rewrite FL. reflexivity.
    + apply simF_noop; auto; simpl; try rewrite FB; auto; [now rewrite (find_live_noneF c s m b SM FB) | now apply late_nil].
  - destruct (nth_error (callers s) cid) as [cl|] eqn:Ec.
    + destruct (Forall2_nth_r _ _ _ _ _ (F_calls _ _ _ SM) Ec) as (mc & Em & (_ & _ & _ & _ & Ed)).
      destruct (cl_st cl) eqn:St.
      * apply simF_noop; auto; [simpl; unfold cancel_caller; now rewrite Ec, St|].
        unfold late_exp_of. simpl. rewrite Em, Ed. unfold st_done. now rewrite St.
      * assert (Lc : cid < length (callers s)) by (apply nth_error_Some; congruence).
        assert (Es : step c s (Cancel cid) =
                     (set_callers s (firstn cid (callers s)
                          ++ mkcaller (cl_key cl) (cl_fid cl) (cl_creator cl) (cl_t cl) (Some Cancelled)
                                      (cl_arg cl) (cl_ko cl) (cl_more cl) :: skipn (S cid) (callers s)),
                      [CallerDone cid Cancelled (now s)])).
        { simpl. unfold cancel_caller. now rewrite Ec, St. }
        apply simF_quiet; auto; rewrite Es; cbn [fst snd]; auto.
        -- now apply RA_refl.
        -- apply (cancel_woken s cid cl Ec St).
        -- intros x [<-|[]]. exact Lc.
        -- simpl. split; [lia | exact Logic.I].
        -- unfold late_exp_of. simpl. rewrite Em, Ed. unfold st_done. now rewrite St.
    + apply simF_noop; auto; [simpl; unfold cancel_caller; now rewrite Ec|].
      unfold late_exp_of. simpl.
      assert (Em : nth_error (m_calls m) cid = None).
      { apply nth_error_None. apply nth_error_None in Ec. rewrite (Forall2_len _ _ _ (F_calls _ _ _ SM)). exact Ec. }
      now rewrite Em.
  - apply simF_quiet; auto; cbn [step fst snd done_ids filter map dones_of]; auto.
    + now apply RA_refl.
    + apply Woken_refl.
    + intros ? [].
    + exact Logic.I.
    + symmetry. now apply late_nil.
Qed.

Lemma simF_run c evs : forall s m,
  Forall ev_ok evs -> Inv c s -> SimF c s m ->
  exists m', mon_run c m evs (map canon (fst (run_from c s evs))) = Some m' /\ m_bad11 m' = m_bad11 m.
Proof.
  induction evs as [|e r IH]; intros s m He HI SM; simpl.
  - exists m. auto.
  - inversion He as [|? ? H1 H2]; subst.
    destruct (simF_step c s m e H1 HI SM) as (s_r & os_r & ch & P & o & bs & l1 & fr & W).
    pose proof (W_sim _ _ _ _ _ _ _ _ _ _ _ _ W) as SM1. pose proof (W_b11 _ _ _ _ _ _ _ _ _ _ _ _ W) as B1. clear W.
    pose proof (Inv_step c s e H1 HI) as HI1.
    destruct (step c s e) as [s1 os]. simpl in *.
    destruct (IH s1 (mon_step c m e (canon os)) H2 HI1 SM1) as (m' & R & Bm).
    destruct (run_from c s1 r) as [tr s2]. simpl in *. exists m'. split; [exact R | congruence].
Qed.

(* COMPLETENESS of ok_C11 on ALL event lists *)
Theorem ok_C11_complete_all c evs w :
  cfg_ok c -> Forall ev_ok evs -> ok_C11 (BCase c evs (map canon (fst (run c evs))) w) = true.
Proof.
  intros Hc He. unfold ok_C11. rewrite (ok_basic_complete c evs w Hc He). simpl.
  destruct (init_LF c Hc) as [I0 F0].
  assert (HI : Inv c (init c)) by (split; [exact I0|]; split; [exact F0|]; split; [apply init_T | apply init_K]).
  destruct (simF_run c evs (init c) (minit c) He HI (simF_init c)) as (m' & R & Bm).
  unfold run. rewrite R. simpl in Bm. now rewrite Bm.
Qed.

(* ================================================================================================================ *)
(* ok_C04 on all event lists                                                                                         *)
(* ================================================================================================================ *)

Definition idle_ofF (m : mst) (e : event) (produced : list (nat * outcome)) : N :=
  match e with
  | Advance dt => (m_idle m + dt)%N
  | Call _ _ => 0%N
  | Chain _ _ _ => 0%N
  | Burst (_ :: _) => 0%N
  | _ => match recall_list (m_calls m) produced with [] => m_idle m | _ => 0%N end
  end.

Lemma mon_step_04F c m e obsd bstep produced live1 freed :
  eff_of m e = (bstep, produced, live1, freed) ->
  (calls_of e = [] \/ produced = []) ->
  let last2 := fold_left (fun l ko => ko :: l) produced (m_last m) in
  let ds := dones_of obsd in
  map fst (filter (fun d => fst (fst d) <? length (m_calls m)) ds) = late_exp_of m e produced ->
  forallb (imm_ok04 (q_calls (q3_of c m e produced)) last2)
          (map fst (filter (fun d => negb (fst (fst d) <? length (m_calls m))) ds)) = true ->
  nodup_nat (map (fun d => fst (fst d)) ds) = true ->
  forallb (fun d => N.eqb (snd d) (now_of m e)) ds = true ->
  existsb is_died obsd = false ->
  let m' := mon_step c m e obsd in
  m_bad04 m' = m_bad04 m /\ m_last m' = last2 /\ m_idle m' = idle_ofF m e produced.
Proof.
  unfold eff_of, q3_of, now_of, mx_of, late_exp_of, idle_ofF. intros Heff Hshape H1 H2 H3 H4 H5. unfold mon_step.
  set (now' := match e with Advance dt => (m_now m + dt)%N | _ => m_now m end) in *.
  set (mx := match e with SetMax n => n | _ => m_maxb m end) in *.
  rewrite Heff.
  destruct Hshape as [Hc|Hpr].
  - rewrite Hc in *. cbn [reg_calls app regs] in *.
    destruct (reg_calls c now' mx (m_step m) (recall_list (m_calls m) produced) (m_calls m)
                (set_done now' (m_entries m) produced) (m_expect m) []) as [[[calls3 es3] ex3] imm].
    unfold q_calls in *. cbn [fst snd] in *.
    match goal with |- context [fold_left ?f (starts_of obsd) ?m1] =>
      destruct (fold_check_start_04 c (length (m_live m)) freed (starts_of obsd) m1) as (A1 & A2 & A3 & A4) end.
    cbn [m_bad04 m_calls m_last m_idle] in *. rewrite A1, A3, A4. rewrite H1, H2, H3, H4, H5.
    rewrite (list_eqb_refl co_eqb co_eqb_refl). simpl. rewrite orb_false_r.
    split; [reflexivity|]. split; [reflexivity|]. destruct e; try reflexivity; discriminate.
  - subst produced. rewrite app_nil_r in *. cbn [set_done fold_left regs] in *.
    destruct (reg_calls c now' mx (m_step m) (calls_of e) (m_calls m) (m_entries m) (m_expect m) []) as [[[calls3 es3] ex3] imm].
    unfold q_calls in *. cbn [fst snd] in *. cbn [recall_list flat_map reg_calls fold_left] in *.
    match goal with |- context [fold_left ?f (starts_of obsd) ?m1] =>
      destruct (fold_check_start_04 c (length (m_live m)) freed (starts_of obsd) m1) as (A1 & A2 & A3 & A4) end.
    cbn [m_bad04 m_calls m_last m_idle] in *. rewrite A1, A3, A4. rewrite H1, H2, H3, H4, H5.
    rewrite (list_eqb_refl co_eqb co_eqb_refl). simpl. rewrite orb_false_r.
    split; [reflexivity|]. split; [reflexivity|]. destruct e; try reflexivity; destruct l; reflexivity.
Qed.

Record Y4F (s : state) (m : mst) : Prop := {
  YF_last : YL s (m_last m);
  YF_idle : forall it, In it (g_items s) -> (it_t it + m_idle m <= now s)%N
}.

Lemma in_imm_of t cls : forall i d, In d (imm_of i t cls) ->
  exists j cl, fst (fst d) = i + j /\ nth_error cls j = Some cl /\ cl_st cl = Some (snd (fst d)).
Proof.
  induction cls as [|cl r IH]; intros i d H; simpl in H; [contradiction|].
  destruct (cl_st cl) eqn:St.
  - destruct H as [<-|H]; [exists 0, cl; simpl; split; [lia|]; split; [reflexivity | exact St]|].
    destruct (IH _ _ H) as (j & cl0 & A & B & C). exists (S j), cl0. repeat split; auto. lia.
  - destruct (IH _ _ H) as (j & cl0 & A & B & C). exists (S j), cl0. repeat split; auto. lia.
Qed.

Lemma basic_stepF c s m e :
  ev_ok e -> Inv c s -> SimF c s m ->
  let os := canon (snd (step c s e)) in
  nodup_nat (map (fun d => fst (fst d)) (dones_of os)) = true /\
  forallb (fun d => N.eqb (snd d) (now_of m e)) (dones_of os) = true /\ existsb is_died os = false.
Proof.
  intros Hev HI SM. destruct (basic_step c s e Hev HI) as (B1 & B2 & B3). split; [exact B1|]. split; [|exact B3].
  unfold now_of. rewrite (F_now _ _ _ SM). exact B2.
Qed.

Lemma y4_step c s m e s_r os_r chains P o bstep live1 freed :
  ev_ok e -> Inv c s -> SimF c s m -> Y4F s m -> PkW c s m e s_r os_r chains P o bstep live1 freed ->
  Y4F (fst (step c s e)) (mon_step c m e (canon (snd (step c s e)))) /\
  m_bad04 (mon_step c m e (canon (snd (step c s e)))) = m_bad04 m.
Proof.
  intros Hev HI SM Y W. pose proof HI as (I & F & T & S & K & _).
  destruct W as [_ _ Heff Hshape Hadv HIr Hnr Hstep Hch Hpend Hfd Hgi J Hdn Hold Hnew Hlate].
  pose proof HIr as (Ir & Fr & Tr & Sr & Kr & _).
  destruct (basic_stepF c s m e Hev HI SM) as (B1 & B2 & B3).
  destruct (filter_app_old_new _ _ _ Hold Hnew) as [Fn Fo].
  destruct (step_clock c s e) as [_ Hnow].
  set (last2 := fold_left (fun l ko => ko :: l) (const_out o P) (m_last m)).
  (* the latest outcomes after the resolve phase *)
  assert (HLr : YL s_r last2).
  { intros k it o' t' Lk Hdone. rewrite Hgi in Lk. rewrite Hfd in Hdone. unfold last2. rewrite lookup_last2.
    destruct (last_key_in _ _ _ Lk) as [Hit Hk]. unfold lk_of in Hdone.
    destruct (memb (it_fid it) (map snd P)) eqn:Mf.
    - injection Hdone as <- _.
      apply memb_In in Mf. apply in_map_iff in Mf as ([k0 f0] & Ef & Hin). simpl in Ef. subst f0.
      destruct (Hpend _ _ Hin) as [_ (it' & Hit' & Ekf')].
      assert (it' = it). { apply (item_unique s it' it S Hit' Hit). unfold kf in Ekf'. injection Ekf' as _ Ef0. exact Ef0. }
      subst it'. unfold kf in Ekf'. injection Ekf' as Ek0.
      assert (memb k (map fst P) = true) by (apply memb_In; apply in_map_iff; exists (k0, it_fid it); split; [simpl; congruence | auto]).
      now rewrite H.
    - destruct (memb k (map fst P)) eqn:Mk; [|eapply (YF_last _ _ Y); eauto]. exfalso.
      apply memb_In in Mk. apply in_map_iff in Mk as ([k0 f0] & Ek & Hin). simpl in Ek. subst k0.
      destruct (Hpend _ _ Hin) as [[_ R] _]. destruct (P_last _ _ _ K k f0 R) as (it' & Lk' & Ef').
      assert (it' = it) by congruence. subst it'.
      assert (memb (it_fid it) (map snd P) = true) by (apply memb_In; apply in_map_iff; exists (k, f0); auto).
      congruence. }
  destruct J as [_ Jn _ _ Jl _ (newc & newcl & Ec & Ecl & NRs & Hd & Himm) Jyl _ (nit & Gi & _ & Hst) _].
  unfold q_calls in Ec, Jl. cbn [fst snd] in Ec, Jl.
  assert (WL : length (m_calls m) = length (callers s_r)).
  { rewrite Ec, Ecl, !app_length, (Forall2_len _ _ _ NRs) in Jl. lia. }
  destruct (mon_step_04F c m e (canon (snd (step c s e))) bstep (const_out o P) live1 freed Heff) as (G1 & G2 & G3).
  - destruct Hshape as [Hc|Hp]; [now left | right; subst P; reflexivity].
  - rewrite Hdn, Fo. exact Hlate.
  - rewrite Hdn, Fn. apply forallb_forall. intros d Hd'. apply in_map_iff in Hd' as (d0 & <- & Hd0).
    rewrite Hd in Hd0. destruct (in_imm_of _ _ _ _ Hd0) as (j & cl & Ei & Hj & St).
    destruct (Forall2_nth_r _ _ _ _ _ NRs Hj) as (mc & Hmc & (A1 & _)).
    unfold imm_ok04. unfold q_calls. cbn [fst snd]. rewrite Ec, Ei, <- WL.
    rewrite nth_error_app2 by lia. replace (length (m_calls m) + j - length (m_calls m)) with j by lia. rewrite Hmc, A1.
    fold last2. rewrite (Himm last2 HLr cl _ (nth_error_In _ _ Hj) St). apply outcome_eqb_refl.
  - exact B1.
  - exact B2.
  - exact B3.
  - split; [|exact G1]. constructor.
    + rewrite G2. exact (Jyl last2 HLr).
    + assert (Hnit : nit <> [] -> idle_ofF m e (const_out o P) = 0%N).
      { intros Hne.
        assert (Hcn : chains <> []).
        { intros E. apply Hne. rewrite Hstep, E in Gi. cbn [fst do_chains] in Gi.
          rewrite <- (app_nil_r (g_items s_r)) in Gi at 1. now apply app_inv_head in Gi. }
        rewrite Hch in Hcn. unfold eff_of in Heff.
        destruct e as [a ko|a ko mm|l|dt|b k r|b x|b|cid|n]; cbn [idle_ofF calls_of app] in *; try reflexivity;
          try (destruct (recall_list (m_calls m) (const_out o P)); [congruence | reflexivity]).
        - destruct l; [|reflexivity]. cbn [map app] in Hcn.
          destruct (recall_list (m_calls m) (const_out o P)); [congruence | reflexivity].
        - cbn [bat_effect] in Heff. injection Heff as _ Hp _ _. rewrite <- Hp in Hcn. now elim Hcn. }
      assert (Hle : (idle_ofF m e (const_out o P) <= m_idle m + adv_of e)%N).
      { unfold idle_ofF. destruct e as [a ko|a ko mm|l|dt|b k r|b x|b|cid|n]; cbn [adv_of]; try lia;
          try (destruct (recall_list (m_calls m) (const_out o P)); lia).
        destruct l; [destruct (recall_list (m_calls m) (const_out o P))|]; lia. }
      intros it Hit. rewrite G3, Hnow. rewrite Gi, Hgi in Hit. apply in_app_or in Hit as [Hit|Hit].
      * pose proof (YF_idle _ _ Y it Hit). lia.
      * destruct (Hst it Hit) as [Et _]. rewrite Hnit by (intros E; rewrite E in Hit; destruct Hit). rewrite Et, Hnr. lia.
Qed.

Lemma y4_run c evs : forall s m,
  Forall ev_ok evs -> Inv c s -> SimF c s m -> Y4F s m ->
  exists m', mon_run c m evs (map canon (fst (run_from c s evs))) = Some m' /\ m_bad04 m' = m_bad04 m /\
             Inv c (snd (run_from c s evs)) /\ SimF c (snd (run_from c s evs)) m' /\ Y4F (snd (run_from c s evs)) m'.
Proof.
  induction evs as [|e r IH]; intros s m He HI SM Y; simpl.
  - exists m. auto.
  - inversion He as [|? ? H1 H2]; subst.
    destruct (simF_step c s m e H1 HI SM) as (s_r & os_r & ch & P & o & bs & l1 & fr & W).
    pose proof (W_sim _ _ _ _ _ _ _ _ _ _ _ _ W) as SM1.
    destruct (y4_step c s m e _ _ _ _ _ _ _ _ H1 HI SM Y W) as [Y1 B1]. clear W.
    pose proof (Inv_step c s e H1 HI) as HI1.
    destruct (step c s e) as [s1 os]. simpl in *.
    destruct (IH s1 (mon_step c m e (canon os)) H2 HI1 SM1 Y1) as (m' & R & Bm & A1 & A2 & A3).
    destruct (run_from c s1 r) as [tr s2]. simpl in *. exists m'. split; [exact R|]. split; [congruence|]. auto.
Qed.

(* COMPLETENESS of ok_C04 on ALL event lists (batch_timeout > 0) *)
Theorem ok_C04_complete_all c evs :
  cfg_ok c -> (0 < c_bt c)%N -> Forall ev_ok evs ->
  ok_C04 (BCase c evs (map canon (fst (run c evs))) (waiting_callers (snd (run c evs)))) = true.
Proof.
  intros Hc Hbt He. unfold ok_C04. rewrite (ok_basic_complete c evs _ Hc He). simpl.
  destruct (init_LF c Hc) as [I0 F0].
  assert (HI : Inv c (init c)) by (split; [exact I0|]; split; [exact F0|]; split; [apply init_T | apply init_K]).
  assert (Y0 : Y4F (init c) (minit c)).
  { constructor; simpl; [intros ? ? ? ? H; discriminate | intros ? []]. }
  destruct (y4_run c evs (init c) (minit c) He HI (simF_init c) Y0) as (m' & R & Bm & HIf & SMf & Yf).
  unfold run. rewrite R. simpl in Bm. rewrite Bm. simpl.
  set (sf := snd (run_from c (init c) evs)) in *. pose proof HIf as (If & Ff & Tf & Sf & Kf & Cf & Wf).
  unfold end_ok04, waiting_callers.
  assert (PW : Forall2 (fun mc cl => mc_done mc = st_done cl) (m_calls m') (callers sf)).
  { pose proof (F_calls _ _ _ SMf) as HC. induction HC as [|mc cl l1 l2 (_ & _ & _ & _ & A5) HC' IH]; constructor; auto. }
  rewrite (not_done_waiting _ _ 0 PW), list_eqb_nat_refl. simpl.
  unfold drained. destruct (length (m_live m') =? 0) eqn:El; simpl; auto.
  destruct (c_bt c <=? m_idle m')%N eqn:Ei; auto.
  rewrite waiting_from_nil; [reflexivity|].
  intros cl Hcl St.
  assert (Hd : is_done sf (cl_fid cl) = false) by (apply Wf; auto).
  destruct (C_item _ Cf cl Hcl) as (it & Hit & Ekf). unfold kf in Ekf. injection Ekf as E1 E2.
  rewrite <- E2 in Hd.
  assert (Lr : length (running sf) = 0).
  { rewrite <- (Forall2_len _ _ _ (F_live _ _ _ SMf)). lia. }
  destruct (undone_located c sf it If Ff Sf Kf Hit Hd) as [H|[(w & Hw & H)|(B & HB & _)]].
  - unfold coll_items in H. destruct (coll sf) as [[its dl]|] eqn:C; [|contradiction].
    destruct (T_coll _ _ Tf its dl C) as (x & [[pre Ep] _] & _ & Hdl & _ & _ & Hlt). specialize (Hlt Hbt).
    assert (Hx : In x (g_items sf)).
    { apply (coll_sub sf x Ff). unfold coll_items. rewrite C, Ep. apply in_or_app. right. now left. }
    pose proof (YF_idle _ _ Yf x Hx). lia.
  - assert (free sf = 0) by (apply (L_wait _ _ If); intros E; rewrite E in Hw; destruct Hw).
    pose proof (L_slots _ _ If). destruct Hc as [_ Hc2]. lia.
  - destruct (running sf); [destruct HB | discriminate].
Qed.

(* the verdict of the C09 check is the conjunction ok_C04 && ok_C11 *)
Theorem ok_C09_complete_all c evs :
  cfg_ok c -> (0 < c_bt c)%N -> Forall ev_ok evs ->
  ok_C04 (BCase c evs (map canon (fst (run c evs))) (waiting_callers (snd (run c evs)))) &&
  ok_C11 (BCase c evs (map canon (fst (run c evs))) (waiting_callers (snd (run c evs)))) = true.
Proof.
  intros Hc Hbt He. rewrite (ok_C04_complete_all c evs Hc Hbt He), (ok_C11_complete_all c evs _ Hc He). reflexivity.
Qed.

(* ================================================================================================================ *)
(* ok_C10 on all event lists                                                                                         *)
(* ================================================================================================================ *)

Lemma mon_step_10F c m e obsd bstep produced live1 freed :
  eff_of m e = (bstep, produced, live1, freed) ->
  (calls_of e = [] \/ produced = []) ->
  exists m1, m_expect m1 = q_ex (q3_of c m e produced) /\ m_live m1 = live1 /\ m_prev m1 = m_prev m /\
             m_now m1 = now_of m e /\ m_bad10 m1 = m_bad10 m /\ m_maxb m1 = mx_of m e /\
    let m2 := fold_left (fun mm st => check_start c mm (length (m_live m)) freed st) (starts_of obsd) m1 in
    m_bad10 (mon_step c m e obsd) = m_bad10 m2 /\ m_prev (mon_step c m e obsd) = m_prev m2 /\
    m_expect (mon_step c m e obsd) = m_expect m2 /\ m_maxb (mon_step c m e obsd) = m_maxb m2 /\
    m_now (mon_step c m e obsd) = m_now m2 /\ m_live (mon_step c m e obsd) = m_live m2.
Proof.
  unfold eff_of, q3_of, now_of, mx_of. intros Heff Hshape. unfold mon_step.
  set (now' := match e with Advance dt => (m_now m + dt)%N | _ => m_now m end) in *.
  set (mx := match e with SetMax n => n | _ => m_maxb m end) in *.
  rewrite Heff.
  destruct Hshape as [Hc|Hpr].
  - rewrite Hc in *. cbn [reg_calls app regs] in *.
    destruct (reg_calls c now' mx (m_step m) (recall_list (m_calls m) produced) (m_calls m)
                (set_done now' (m_entries m) produced) (m_expect m) []) as [[[calls3 es3] ex3] imm].
    unfold q_ex. cbn [fst snd].
    eexists. split; [|split; [|split; [|split; [|split; [|split]]]]]; cycle 6.
    + cbv zeta. repeat split; reflexivity.
    + reflexivity.
    + reflexivity.
    + reflexivity.
    + reflexivity.
    + reflexivity.
    + reflexivity.
  - subst produced. rewrite app_nil_r in *. cbn [set_done fold_left regs] in *.
    destruct (reg_calls c now' mx (m_step m) (calls_of e) (m_calls m) (m_entries m) (m_expect m) []) as [[[calls3 es3] ex3] imm].
    unfold q_ex. cbn [fst snd]. cbn [recall_list flat_map reg_calls fold_left].
    eexists. split; [|split; [|split; [|split; [|split; [|split]]]]]; cycle 6.
    + cbv zeta. repeat split; reflexivity.
    + reflexivity.
    + reflexivity.
    + reflexivity.
    + reflexivity.
    + reflexivity.
    + reflexivity.
Qed.

(* why a batch starts, with the kind of event that releases a queued batch *)
Definition ends_batch (s : state) (e : event) : Prop :=
  match e with
  | BYield b k r => exists B, find_batch s b = Some B /\
                      (lookup (b_futs B) k = None \/ exists f, lookup (b_futs B) k = Some f /\ is_done s f = true)
  | BRaise b _ => exists B, find_batch s b = Some B
  | BFinish b => exists B, find_batch s b = Some B
  | _ => False
  end.

Lemma ss_left s s' new x :
  SpawnStart s s' -> g_started s' = g_started s ++ new -> In x new -> In (st_items x, snd x) (g_spawn s').
Proof.
  intros (nsp & nst & S1 & S2 & S3) Hn Hx. rewrite S2 in Hn. apply app_inv_head in Hn. subst nst.
  destruct x as [[b its] t]. rewrite S1. apply in_or_app. right. apply (S3 b its t Hx).
Qed.

Lemma rs_either s s' new x :
  RelSpawn s s' -> g_started s' = g_started s ++ new -> In x new ->
  In (st_items x, snd x) (g_spawn s') \/ exists ws, waiting s = st_items x :: ws /\ snd x = now s.
Proof.
  intros (sm & [R1 R2] & (nsp & nst & S1 & S2 & S3)) Hn Hx.
  destruct R2 as [R2|(w & ws & W & R2)].
  - left. rewrite S2, R2 in Hn. apply app_inv_head in Hn. subst nst.
    destruct x as [[b its] t]. rewrite S1. apply in_or_app. right. apply (S3 b its t Hx).
  - rewrite S2, R2, <- app_assoc in Hn. apply app_inv_head in Hn. subst new. destruct Hx as [<-|Hx].
    + right. exists ws. split; auto.
    + left. destruct x as [[b its] t]. rewrite S1. apply in_or_app. right. apply (S3 b its t Hx).
Qed.

Lemma start_cause_entryF c s e new x :
  g_started (fst (step c s e)) = g_started s ++ new -> In x new ->
  In (st_items x, snd x) (g_spawn (fst (step c s e))) \/
  (ends_batch s e /\ exists ws, waiting s = st_items x :: ws /\ snd x = now s).
Proof.
  intros Hn Hx.
  assert (SS : SpawnStart s (fst (step c s e)) -> In (st_items x, snd x) (g_spawn (fst (step c s e))) \/
               (ends_batch s e /\ exists ws, waiting s = st_items x :: ws /\ snd x = now s)).
  { intros H. left. eapply ss_left; eauto. }
  assert (RS : RelSpawn s (fst (step c s e)) -> ends_batch s e ->
               In (st_items x, snd x) (g_spawn (fst (step c s e))) \/
               (ends_batch s e /\ exists ws, waiting s = st_items x :: ws /\ snd x = now s)).
  { intros H He. destruct (rs_either _ _ _ _ H Hn Hx) as [A|A]; [now left | right; auto]. }
  destruct e as [a ko|a ko m|l|dt|b k r|b e|b|cid|n]; simpl in *.
  - apply SS, do_call_ss.
  - apply SS, do_chain_ss.
  - apply SS, do_calls_ss.
  - apply SS, advance_ss.
  - destruct (find_batch s b) as [B|] eqn:FB; [|apply SS; now apply ss_refl].
    destruct (lookup (b_futs B) k) as [f|] eqn:Lk.
    + unfold set_fut in *.
      change (is_done (set_batch_futs (log_bev s b (EvYield k r)) b (remove_key k (b_futs B))) f) with (is_done s f) in *.
      destruct (is_done s f) eqn:Hd.
      * apply RS; [|exists B; split; auto; right; eauto].
        match goal with |- RelSpawn _ (fst (end_batch c ?B' ?o ?s0)) => exact (end_batch_rs c B' o s0) end.
      * apply SS.
        match goal with |- SpawnStart _ (fst (wake_all c ?s1)) => pose proof (wake_all_ss c s1) as S3 end.
        eapply ss_trans; [|exact S3]. apply ss_refl; unfold resolve; destruct (0 <? c_rt c)%N; reflexivity.
    + apply RS; [|exists B; split; auto].
      match goal with |- RelSpawn _ (fst (end_batch c ?B' ?o ?s0)) => exact (end_batch_rs c B' o s0) end.
  - destruct (find_batch s b) as [B|] eqn:FB; [|apply SS; now apply ss_refl].
    apply RS; [|exists B; auto].
    match goal with |- RelSpawn _ (fst (end_batch c ?B' ?o ?s0)) => exact (end_batch_rs c B' o s0) end.
  - destruct (find_batch s b) as [B|] eqn:FB; [|apply SS; now apply ss_refl].
    apply RS; [|exists B; auto].
    match goal with |- RelSpawn _ (fst (end_batch c ?B' ?o ?s0)) => exact (end_batch_rs c B' o s0) end.
  - apply SS. unfold cancel_caller. destruct (nth_error _ _) as [cl|]; [|now apply ss_refl].
    destruct (cl_st cl); now apply ss_refl.
  - apply SS. now apply ss_refl.
Qed.

(* when the event ends a batch the monitor's [freed] is true *)
Lemma freed_ends c s m e :
  Inv c s -> SimF c s m -> ends_batch s e ->
  let '(_, _, _, freed) := eff_of m e in freed = true.
Proof.
  intros HI SM He. pose proof HI as (I & F & T & S & K & _). unfold eff_of.
  destruct e as [a ko|a ko mm|l|dt|b k r|b x|b|cid|n]; simpl in He; try contradiction; simpl.
  - destruct He as (B & FB & Hk).
    pose proof (find_corr (m_entries m) (m_live m) (running s) b (F_live _ _ _ SM)) as FC.
    unfold find_batch in FB. rewrite FB in FC. destruct (find_live (m_live m) b) as [mb|]; [|contradiction].
    destruct FC as (E1 & E2 & E3). rewrite E2, memb_map_fst.
    destruct Hk as [Lk|(f & Lk & Hd)]; rewrite Lk; [reflexivity|]. exfalso.
    fold (find_batch s b) in FB. apply find_batch_some in FB as [HB Hid].
    apply lookup_In in Lk. destruct (P_run _ _ _ K B k f HB Lk) as [Hn _]. congruence.
  - destruct He as (B & FB).
    pose proof (find_corr (m_entries m) (m_live m) (running s) b (F_live _ _ _ SM)) as FC.
    unfold find_batch in FB. rewrite FB in FC. destruct (find_live (m_live m) b) as [mb|]; [reflexivity|contradiction].
  - destruct He as (B & FB).
    pose proof (find_corr (m_entries m) (m_live m) (running s) b (F_live _ _ _ SM)) as FC.
    unfold find_batch in FB. rewrite FB in FC. destruct (find_live (m_live m) b) as [mb|]; [reflexivity|contradiction].
Qed.

Lemma x10_stepF c s m e s_r os_r chains P o bstep live1 freed :
  ev_ok e -> (0 < c_bt c)%N -> Inv c s -> OInv s -> WB c s -> SimF c s m -> X10 c s m ->
  PkW c s m e s_r os_r chains P o bstep live1 freed ->
  X10 c (fst (step c s e)) (mon_step c m e (canon (snd (step c s e)))) /\
  m_bad10 (mon_step c m e (canon (snd (step c s e)))) = m_bad10 m.
Proof.
  intros Hev Hbt HI O W SM X PK.
  pose proof (Inv_step c s e Hev HI) as HI'. pose proof HI as (I & F & T & K). pose proof HI' as (I' & F' & T' & K').
  pose proof (step_O c s e I F T O) as O'. pose proof (step_WB c Hbt s e I F T W) as W'.
  destruct PK as [SM' _ Heff Hshape Hadv HIr Hnr Hstep Hch Hpend Hfd Hgi J Hdn Hold Hnew Hlate].
  destruct (step_emits c s e) as (new & A & Bq). pose proof (starts_of_canon _ _ Bq) as Hst.
  destruct (step_ST c s e) as [_ Hstt]. destruct (step_clock c s e) as [_ Hnow].
  assert (Hshape' : calls_of e = [] \/ const_out o P = []).
  { destruct Hshape as [Hc|Hp]; [now left | right; subst P; reflexivity]. }
  destruct (mon_step_10F c m e (canon (snd (step c s e))) bstep (const_out o P) live1 freed Heff Hshape')
    as (m1 & G1 & G2 & G3 & G4 & G5 & G6 & G7 & G8 & G9 & G10 & G11 & G12).
  pose proof (freed_ends c s m e HI SM) as FR. rewrite Heff in FR.
  destruct J as [_ Jn Jmx _ _ _ _ _ _ (nit & Gi0 & Ex & Hstamp) _].
  unfold q_ex in Ex. cbn [fst snd] in Ex.
  rewrite Hst in *.
  set (s' := fst (step c s e)) in *.
  assert (Emx : mx_of m e = maxb s_r).
  { rewrite <- Jmx. unfold s'. rewrite (step_maxb c s e I F). unfold mx_of. rewrite (X_maxb _ _ _ X). destruct e; reflexivity. }
  assert (Gi : g_items s' = g_items s ++ nit) by (rewrite Gi0, Hgi; reflexivity).
  assert (Ex' : q_ex (q3_of c m e (const_out o P)) = m_expect m ++ map mit nit).
  { unfold q_ex. rewrite Ex. f_equal. apply map_ext_in. intros it Hit. destruct (Hstamp it Hit) as [E1 E2].
    unfold mstamp, mit. rewrite E1, E2, Emx. reflexivity. }
  assert (Hq : Q s ++ nit = flat_map st_items new ++ Q s').
  { pose proof (g_items_split _ F) as G0. pose proof (g_items_split _ F') as G'. fold s' in G'.
    rewrite A, Gi, G0, flat_map_app in G'. unfold Q. rewrite <- !app_assoc in G'.
    apply app_inv_head in G'. rewrite <- app_assoc. exact G'. }
  assert (Hexp : m_expect m1 = map mit (flat_map st_items new) ++ map mit (Q s')).
  { rewrite G1, Ex', (X_exp _ _ _ X), <- !map_app, Hq. reflexivity. }
  assert (Enow : m_now m1 = now s').
  { rewrite G4, (now_of_adv c s m e SM), Hnow. reflexivity. }
  assert (Hlen : length live1 + length new <= c_conc c).
  { pose proof (Forall2_len _ _ _ (F_live _ _ _ SM')) as L. fold s' in L. rewrite G12 in L.
    rewrite length_fold_check_start, G2, map_length in L. pose proof (L_slots _ _ I'). fold s' in H. lia. }
  assert (Hok : starts_ok c (m_now m1) (length (m_live m)) freed (m_prev m1) (length (m_live m1)) new).
  { apply starts_ok_intro. intros a x b Enew. destruct x as [[bx its] t]. unfold st_items. cbn [fst snd].
    assert (Hx : In (bx, its, t) new) by (rewrite Enew; apply in_or_app; right; now left).
    assert (Hg : In (bx, its, t) (g_started s')) by (rewrite A; apply in_or_app; now right).
    destruct (started_spawned c s' bx its t HI' Hg) as (sp & x0 & pre & Hsp & Eits & Hl & Esp & Hle).
    destruct (L_ssz _ _ I' _ _ _ Hg) as [Hne Hsz].
    exists pre, x0. split; [exact Eits|]. split; [destruct its; simpl; [congruence|lia]|]. split; [exact Hsz|].
    split; [|split; [|split; [|split; [|split]]]].
    - (* split *)
      rewrite G3, (X_prev _ _ _ X), <- last_prev_app.
      destruct (g_started s ++ a) as [|e0 l0] eqn:El; [exact Logic.I|].
      assert (Hne' : e0 :: l0 <> []) by discriminate.
      destruct (last_prev_some (e0 :: l0) None Hne') as (pre' & e1 & E1 & E2). rewrite E2.
      assert (Egs : g_started s' = pre' ++ e1 :: (bx, its, t) :: b).
      { rewrite A, Enew, app_assoc, El, E1, <- app_assoc. reflexivity. }
      destruct (split_consecutive c s' pre' e1 (bx, its, t) b HI' O' Egs) as (pre1 & x1 & Ee1 & Hsplit).
      destruct e1 as [[b1 its1] t1]. unfold st_items in Ee1. simpl in Ee1. subst its1.
      rewrite prev_of_last. destruct its as [|f r]; [exact Logic.I|].
      apply (Hsplit f). now left.
    - apply (W_spawn _ _ W' its sp Hsp).
    - rewrite <- Esp. exact Hle.
    - destruct (start_cause_entryF c s e new (bx, its, t) A Hx) as [Hs|(Hb & ws & Ew & Et)].
      + left. unfold st_items in Hs. simpl in Hs. destruct (T_spawn _ _ T' its t Hs) as [(x' & [[pre2 E2] _] & Ht) _].
        assert (x' = x0). { rewrite Eits in E2. apply app_inj_tail in E2. destruct E2. congruence. } now subst x'.
      + right. unfold st_items in Ew. simpl in Ew.
        split; [apply (FR Hb)|].
        rewrite (Forall2_len _ _ _ (F_live _ _ _ SM)). pose proof (L_slots _ _ I).
        assert (free s = 0) by (apply (L_wait _ _ I); rewrite Ew; discriminate). lia.
    - rewrite G2. assert (length new = length a + S (length b)) by (rewrite Enew, app_length; reflexivity). lia.
    - rewrite Enow. eapply Hstt. apply filter_In with (f := is_start).
      rewrite Bq. apply in_map_iff. exists (bx, its, t). split; [reflexivity | exact Hx]. }
  destruct (fold_check_start_10 c (length (m_live m)) freed new m1 _ Hexp Hok) as (B1 & B2 & B3 & B4 & B5).
  split; [|congruence]. constructor.
  - rewrite G10, B5, G6, Emx. symmetry. exact Jmx.
  - rewrite G9. exact B1.
  - rewrite G8, B3, G3, (X_prev _ _ _ X), <- last_prev_app. now rewrite A.
Qed.

Lemma x10_runF c evs : (0 < c_bt c)%N -> forall s m,
  Forall ev_ok evs -> Inv c s -> OInv s -> WB c s -> SimF c s m -> X10 c s m ->
  exists m', mon_run c m evs (map canon (fst (run_from c s evs))) = Some m' /\ m_bad10 m' = m_bad10 m /\
             Inv c (snd (run_from c s evs)) /\ SimF c (snd (run_from c s evs)) m' /\ X10 c (snd (run_from c s evs)) m'.
Proof.
  intros Hbt. induction evs as [|e r IH]; intros s m He HI O W SM X; simpl.
  - exists m. auto.
  - inversion He as [|? ? H1 H2]; subst.
    destruct (simF_step c s m e H1 HI SM) as (s_r & os_r & ch & P & o & bs & l1 & fr & PK).
    pose proof (W_sim _ _ _ _ _ _ _ _ _ _ _ _ PK) as SM1.
    destruct (x10_stepF c s m e _ _ _ _ _ _ _ _ H1 Hbt HI O W SM X PK) as [X1 B1]. clear PK.
    pose proof (Inv_step c s e H1 HI) as HI1.
    pose proof HI as (I & F & T & K).
    pose proof (step_O c s e I F T O) as O1. pose proof (step_WB c Hbt s e I F T W) as W1.
    destruct (step c s e) as [s1 os]. simpl in *.
    destruct (IH s1 (mon_step c m e (canon os)) H2 HI1 O1 W1 SM1 X1) as (m' & R & Bm & A1 & A2 & A3).
    destruct (run_from c s1 r) as [tr s2]. simpl in *. exists m'. split; [exact R|]. split; [congruence|]. auto.
Qed.

(* COMPLETENESS of ok_C10 on ALL event lists (batch_timeout > 0) *)
Theorem ok_C10_complete_all c evs w :
  cfg_ok c -> (0 < c_bt c)%N -> Forall ev_ok evs ->
  ok_C10 (BCase c evs (map canon (fst (run c evs))) w) = true.
Proof.
  intros Hc Hbt He. unfold ok_C10. rewrite (ok_basic_complete c evs w Hc He). simpl.
  destruct (init_LF c Hc) as [I0 F0].
  assert (HI : Inv c (init c)) by (split; [exact I0|]; split; [exact F0|]; split; [apply init_T | apply init_K]).
  assert (O0 : OInv (init c)) by (constructor; simpl; auto; intros ? ? ? []).
  assert (X0 : X10 c (init c) (minit c)) by (constructor; reflexivity).
  destruct (x10_runF c evs Hbt (init c) (minit c) He HI O0 (init_WB c) (simF_init c) X0)
    as (m' & R & Bm & HIf & SMf & Xf).
  unfold run. rewrite R. simpl in Bm. rewrite Bm. simpl.
  set (sf := snd (run_from c (init c) evs)) in *. pose proof HIf as (If & Ff & Tf & Kf).
  unfold end_ok10. rewrite (X_exp _ _ _ Xf), last_item_map_mit.
  destruct (rev (Q sf)) as [|it r] eqn:Er; auto.
  destruct (length (m_live m') <? c_conc c) eqn:El; auto.
  rewrite (Forall2_len _ _ _ (F_live _ _ _ SMf)) in El.
  assert (Wf : waiting sf = []).
  { destruct (waiting sf) eqn:Ew; auto. assert (free sf = 0) by (apply (L_wait _ _ If); rewrite Ew; discriminate).
    pose proof (L_slots _ _ If). lia. }
  unfold Q in Er. rewrite Wf in Er. simpl in Er.
  unfold coll_items in Er. destruct (coll sf) as [[its dl]|] eqn:C; [|discriminate].
  destruct (T_coll _ _ Tf its dl C) as (x & [[pre Ep] _] & _ & Hdl & _ & _ & Hlt). specialize (Hlt Hbt).
  rewrite Ep, rev_app_distr in Er. simpl in Er. injection Er as <- _.
  rewrite (F_now _ _ _ SMf). simpl. lia.
Qed.
