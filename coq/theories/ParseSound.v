(* ParseSound.v — C19: whenever the trace monitor [Case_C19.ok] accepts an
   observed run of parse_to_dict, that run satisfies a readable statement about
   the OBSERVATION alone (input, oracle table, returned dict / error, parser call
   log, tripwire count) — and conversely.  The statement is relational and does
   not mention the model's functions (parse_to_dict / build / split_once) nor the
   monitor's (ref_result / first_occ / ref_dict). *)
From Coq Require Import List Arith Bool Lia.
Import ListNotations.
Require Import Aiuti.CaseLib Aiuti.Parse Aiuti.ParseInv Aiuti.Case_C19 Aiuti.ParseMon.

(* ---- the dictionary, by insertion -------------------------------------------- *)
(* [Insert d k v d']: d' is d after d[k] = v.  A key equal (Python ==: [key_eqb],
   strings by content, other values by equality class) to an existing key keeps
   that FIRST key object and its position and replaces the value; otherwise the
   pair is appended. *)
Inductive Insert : dict -> obj -> obj -> dict -> Prop :=
| Ins_new d k v :
    (forall k0 v0, In (k0, v0) d -> key_eqb k0 k = false) ->
    Insert d k v (d ++ [(k, v)])
| Ins_replace d1 k0 v0 d2 k v :
    key_eqb k0 k = true ->
    (forall k1 v1, In (k1, v1) d1 -> key_eqb k1 k = false) ->
    Insert (d1 ++ (k0, v0) :: d2) k v (d1 ++ (k0, v) :: d2).

(* [Built ps d d']: inserting the pairs ps, in order, into d gives d' *)
Inductive Built : list (obj * obj) -> dict -> dict -> Prop :=
| Built_nil d : Built [] d d
| Built_cons k v ps d d' d'' : Insert d k v d' -> Built ps d' d'' -> Built ((k, v) :: ps) d d''.

Lemma insert_cons k0 v0 d k v d' :
  key_eqb k0 k = false -> Insert d k v d' -> Insert ((k0, v0) :: d) k v ((k0, v0) :: d').
Proof.
  intros E H. destruct H as [d k v Hnew|d1 k1 v1 d2 k v Hk Hd1].
  - apply (Ins_new ((k0, v0) :: d) k v).
    intros k2 v2 [[= <- <-]|Hin]; [exact E|eauto].
  - apply (Ins_replace ((k0, v0) :: d1) k1 v1 d2 k v Hk).
    intros k2 v2 [[= <- <-]|Hin]; [exact E|eauto].
Qed.

Lemma insert_dict_set d k v : Insert d k v (dict_set d k v).
Proof.
  induction d as [|[k0 v0] r IH]; simpl.
  - apply (Ins_new [] k v). intros ? ? [].
  - destruct (key_eqb k0 k) eqn:E.
    + apply (Ins_replace [] k0 v0 r k v E). intros ? ? [].
    + now apply insert_cons.
Qed.

Lemma dict_set_app_new d : forall k v,
  (forall k0 v0, In (k0, v0) d -> key_eqb k0 k = false) -> dict_set d k v = d ++ [(k, v)].
Proof.
  induction d as [|[k0 v0] r IH]; intros k v H; simpl; [reflexivity|].
  rewrite (H k0 v0 (or_introl eq_refl)). f_equal. apply IH. intros; eapply H; right; eauto.
Qed.

Lemma dict_set_app_replace d1 : forall k0 v0 d2 k v,
  key_eqb k0 k = true -> (forall k1 v1, In (k1, v1) d1 -> key_eqb k1 k = false) ->
  dict_set (d1 ++ (k0, v0) :: d2) k v = d1 ++ (k0, v) :: d2.
Proof.
  induction d1 as [|[k1 v1] r IH]; intros k0 v0 d2 k v Hk H; simpl.
  - now rewrite Hk.
  - rewrite (H k1 v1 (or_introl eq_refl)). f_equal. apply IH; [exact Hk|].
    intros; eapply H; right; eauto.
Qed.

Lemma insert_spec d k v d' : Insert d k v d' <-> d' = dict_set d k v.
Proof.
  split.
  - intros H. destruct H.
    + symmetry. now apply dict_set_app_new.
    + symmetry. now apply dict_set_app_replace.
  - intros ->. apply insert_dict_set.
Qed.

Lemma built_spec ps : forall d d', Built ps d d' <-> d' = dict_of ps d.
Proof.
  induction ps as [|[k v] ps IH]; intros d d'; simpl.
  - split; [intros H; inversion H; reflexivity|intros ->; constructor].
  - split.
    + intros H. inversion H as [|k' v' ps' d0 d1 d2 Hi Hb]; subst.
      apply insert_spec in Hi. subst d1. now apply IH.
    + intros ->. econstructor; [apply insert_dict_set|]. apply IH. reflexivity.
Qed.

(* ---- boolean equalities of Case_C19 ------------------------------------------ *)
Lemma obj_eqb_eq x y : obj_eqb x y = true -> x = y.
Proof.
  destruct x as [a|v1 c1 h1], y as [b|v2 c2 h2]; simpl; try discriminate.
  - intros H. apply str_eqb_eq in H. now subst.
  - intros H. apply andb_prop in H as [H H3]. apply andb_prop in H as [H1 H2].
    apply Nat.eqb_eq in H1, H2. apply eqb_prop in H3. now subst.
Qed.

Lemma dict_eqb_eq d1 d2 : list_eqb (pair_eqb obj_eqb obj_eqb) d1 d2 = true -> d1 = d2.
Proof.
  apply list_eqb_eq. intros [a b] [a' b']. unfold pair_eqb. simpl. intros H.
  apply andb_prop in H as [H1 H2]. apply obj_eqb_eq in H1, H2. now subst.
Qed.

Lemma strs_eqb_iff l1 l2 : list_eqb str_eqb l1 l2 = true <-> l1 = l2.
Proof.
  split; [apply list_eqb_eq; intros x y; apply str_eqb_eq|].
  intros ->. apply list_eqb_refl. apply str_eqb_refl.
Qed.

Section Sound.
  Variable t : table.       (* what the parser in force answers: Some o = returned o, None = raised *)
  Variable sep : str.
  Variable pk : bool.

  (* [Lit x y]: y is x after "replace a string by the literal it denotes": a string
     the parser accepts becomes what the parser returned, a string the parser
     rejects (raised anything) is kept, a non-string is untouched *)
  Inductive Lit : obj -> obj -> Prop :=
  | Lit_parsed s o : lookup t s = Some o -> Lit (OStr s) o
  | Lit_kept s : lookup t s = None -> Lit (OStr s) (OStr s)
  | Lit_nonstr vid c hh : Lit (OVal vid c hh) (OVal vid c hh).

  (* [KV it k v]: the (key, value) an item stands for BEFORE parsing: a string is
     cut at the FIRST occurrence of the (non-empty) separator — no other way of
     writing s = k' ++ sep ++ v' has a shorter k' —, a pair is taken as is *)
  Inductive KV : item -> obj -> obj -> Prop :=
  | KV_str s k v :
      sep <> [] -> s = k ++ sep ++ v ->
      (forall k' v', s = k' ++ sep ++ v' -> length k <= length k') ->
      KV (IStr s) (OStr k) (OStr v)
  | KV_pair k v : KV (IPair k v) k v.

  (* a string item that is not like KEY<sep>VALUE *)
  Definition NoSep (it : item) : Prop :=
    exists s, it = IStr s /\ (sep = [] \/ ~ exists k v, s = k ++ sep ++ v).

  (* the parsed pair of an item: value always through Lit, key iff parse_keys *)
  Definition ParsedPair (it : item) (kv : obj * obj) : Prop :=
    exists k v, KV it k v /\ (if pk then Lit k (fst kv) else fst kv = k) /\ Lit v (snd kv).

  Definition GoodItem (it : item) : Prop :=
    exists kv, ParsedPair it kv /\ hashable (fst kv) = true.

  (* the strings an item makes the parser see: the key (iff parse_keys) then the
     value, each only if it is a string; nothing for an item without separator *)
  Definition strs (x : obj) : list str := match x with OStr s => [s] | _ => [] end.
  Definition ItemCalls (it : item) (l : list str) : Prop :=
    (NoSep it /\ l = []) \/
    (exists k v, KV it k v /\ l = (if pk then strs k else []) ++ strs v).
  Definition CallsOf (its : list item) (log : list str) : Prop :=
    exists ls, Forall2 ItemCalls its ls /\ log = concat ls.

  (* ---- each relation is what the reference / model functions compute -------- *)
  Lemma lit_spec x y : Lit x y <-> y = ref_lit t x.
  Proof.
    split.
    - intros H. destruct H as [s o E|s E|]; simpl; try rewrite E; reflexivity.
    - intros ->. destruct x as [s|vid c hh]; simpl; [|constructor].
      destruct (lookup t s) eqn:E; now constructor.
  Qed.

  Lemma kv_spec it k v : KV it k v <-> kv_of sep it = Some (k, v).
  Proof.
    split.
    - intros H. destruct H as [s k v Hsep Hs Hmin|k v]; simpl; [|reflexivity].
      assert (E : split_once sep s = Some (k, v)) by (apply split_once_first; auto).
      unfold split_py. destruct sep; [congruence|]. now rewrite E.
    - destruct it as [s|k0 v0]; simpl.
      + unfold split_py. destruct sep as [|c sp] eqn:Es; [discriminate|]. rewrite <- Es.
        destruct (split_once sep s) as [[k1 v1]|] eqn:E; [|discriminate].
        intros [= <- <-]. apply split_once_first in E as [Hs Hmin].
        constructor; auto. rewrite Es. discriminate.
      + intros [= <- <-]. constructor.
  Qed.

  Lemma nosep_spec it : NoSep it <-> kv_of sep it = None.
  Proof.
    split.
    - intros (s & -> & H). simpl. unfold split_py. destruct sep as [|c sp] eqn:Es; [reflexivity|].
      rewrite <- Es in *. destruct H as [H|H]; [congruence|].
      apply split_once_none in H. now rewrite H.
    - destruct it as [s|k v]; simpl; [|discriminate]. intros H. exists s. split; [reflexivity|].
      unfold split_py in H. destruct sep as [|c sp] eqn:Es; [now left|]. rewrite <- Es in *. right.
      destruct (split_once sep s) as [[k v]|] eqn:E; [discriminate|]. now apply split_once_none.
  Qed.

  Lemma parsed_spec it kv : ParsedPair it kv <-> ref_pair t sep pk it = Some kv.
  Proof.
    rewrite ref_pair_eq. unfold ParsedPair, parse_pair, parse_tuple. split.
    - intros (k & v & Hkv & Hk & Hv). apply kv_spec in Hkv. rewrite Hkv.
      apply lit_spec in Hv. destruct kv as [k' v']. simpl in *. subst v'.
      destruct pk; [apply lit_spec in Hk|]; subst k'; reflexivity.
    - destruct (kv_of sep it) as [[k v]|] eqn:E; [|discriminate]. apply kv_spec in E.
      intros H. exists k, v. split; [exact E|].
      destruct pk; injection H as <-; simpl; repeat split; now apply lit_spec.
  Qed.

  Lemma nosep_ref_pair it : NoSep it <-> ref_pair t sep pk it = None.
  Proof.
    rewrite ref_pair_eq, nosep_spec. unfold parse_pair.
    destruct (kv_of sep it) as [[k v]|]; split; congruence.
  Qed.

  Lemma good_spec it : GoodItem it <-> bad_item t sep pk it = false.
  Proof.
    unfold GoodItem, bad_item. split.
    - intros (kv & H & Hh). apply parsed_spec in H. rewrite H. destruct kv. simpl in *. now rewrite Hh.
    - destruct (ref_pair t sep pk it) as [[k v]|] eqn:E; [|discriminate].
      intros H. exists (k, v). split; [now apply parsed_spec|]. simpl. now apply negb_false_iff.
  Qed.

  Lemma item_calls_spec it l : ItemCalls it l <-> l = ref_item_calls sep pk it.
  Proof.
    rewrite ref_item_calls_eq. unfold ItemCalls, pair_calls. split.
    - intros [[Hn ->]|(k & v & Hkv & ->)].
      + apply nosep_spec in Hn. now rewrite Hn.
      + apply kv_spec in Hkv. rewrite Hkv. reflexivity.
    - intros ->. destruct (kv_of sep it) as [[k v]|] eqn:E.
      + right. exists k, v. split; [now apply kv_spec|reflexivity].
      + left. split; [now apply nosep_spec|reflexivity].
  Qed.

  Lemma calls_of_spec its log : CallsOf its log <-> log = flat_map (ref_item_calls sep pk) its.
  Proof.
    unfold CallsOf. split.
    - intros (ls & HF & ->). induction HF as [|it l its ls H HF IH]; simpl; [reflexivity|].
      apply item_calls_spec in H. now rewrite H, IH.
    - intros ->. exists (map (ref_item_calls sep pk) its). split.
      + induction its as [|it r IH]; simpl; constructor; [now apply item_calls_spec|exact IH].
      + now rewrite flat_map_concat_map.
  Qed.

  Lemma ref_calls_good its :
    (forall it, In it its -> bad_item t sep pk it = false) ->
    ref_calls t sep pk its = flat_map (ref_item_calls sep pk) its.
  Proof.
    induction its as [|it r IH]; intros H; simpl; [reflexivity|].
    rewrite (H it (or_introl eq_refl)), IH; [reflexivity|]. intros; apply H; now right.
  Qed.

  Lemma ref_calls_bad good : forall it rest,
    (forall g, In g good -> bad_item t sep pk g = false) -> bad_item t sep pk it = true ->
    ref_calls t sep pk (good ++ it :: rest) = flat_map (ref_item_calls sep pk) (good ++ [it]).
  Proof.
    induction good as [|g r IH]; intros it rest Hg Hb; simpl.
    - now rewrite Hb, !app_nil_r.
    - rewrite (Hg g (or_introl eq_refl)), IH; [reflexivity| |exact Hb]. intros; apply Hg; now right.
  Qed.

  Lemma first_bad_none' items : forall i,
    first_bad t sep pk i items = None <-> forall it, In it items -> bad_item t sep pk it = false.
  Proof.
    induction items as [|x r IH]; intros i; simpl.
    - split; [intros _ ? []|reflexivity].
    - destruct (bad_item t sep pk x) eqn:E.
      + split; [discriminate|]. intros H. rewrite (H x (or_introl eq_refl)) in E. discriminate.
      + rewrite IH. split.
        * intros H it [<-|Hin]; auto.
        * intros H it Hin. apply H. now right.
  Qed.

  Lemma first_bad_split good : forall it rest i,
    (forall g, In g good -> bad_item t sep pk g = false) -> bad_item t sep pk it = true ->
    first_bad t sep pk i (good ++ it :: rest) = Some (i + length good, it).
  Proof.
    induction good as [|g r IH]; intros it rest i Hg Hb; simpl.
    - rewrite Hb. f_equal. f_equal. lia.
    - rewrite (Hg g (or_introl eq_refl)), IH; [f_equal; f_equal; lia| |exact Hb].
      intros; apply Hg; now right.
  Qed.

  Lemma first_bad_some' items : forall i j it,
    first_bad t sep pk i items = Some (j, it) ->
    exists good rest, items = good ++ it :: rest /\ j = i + length good /\
      (forall g, In g good -> bad_item t sep pk g = false) /\ bad_item t sep pk it = true.
  Proof.
    intros i j it H. destruct (first_bad_some _ _ _ _ _ _ _ H) as (good & rest & E & Ej & Hg & Hb).
    exists good, rest. rewrite bad_item_eq. repeat split; auto.
    intros g Hin. rewrite bad_item_eq. auto.
  Qed.

  Lemma parsed_pairs_spec items ps :
    Forall2 ParsedPair items ps ->
    ref_pairs t sep pk items = ps.
  Proof.
    unfold ref_pairs. induction 1 as [|it p its ps H HF IH]; simpl; [reflexivity|].
    apply parsed_spec in H. now rewrite H, IH.
  Qed.

  Lemma parsed_pairs_exist items :
    (forall it, In it items -> bad_item t sep pk it = false) ->
    Forall2 ParsedPair items (ref_pairs t sep pk items) /\
    forall kv, In kv (ref_pairs t sep pk items) -> hashable (fst kv) = true.
  Proof.
    unfold ref_pairs. induction items as [|it r IH]; intros H; simpl.
    - split; [constructor|intros ? []].
    - pose proof (H it (or_introl eq_refl)) as Hb. apply good_spec in Hb as (kv & Hp & Hh).
      pose proof Hp as Hp'. apply parsed_spec in Hp'. rewrite Hp'. simpl.
      destruct IH as [IH1 IH2]; [intros; apply H; now right|].
      split; [now constructor|]. intros kv' [<-|Hin]; auto.
  Qed.

  (* ---- the statement about the observation ----------------------------------- *)
  Definition observed_ok (custom : bool) (items : list item) (ores : result) (olog : list str)
             (trip : nat) : Prop :=
    (* nothing was evaluated: the tripwire object saw no attribute access / call *)
    trip = 0 /\
    ( (* (a) some item is not like KEY<sep>VALUE, or its parsed key is unhashable:
             the FIRST such item decides the error, the items before it are fine,
             the parser saw the strings of the items before it (and of that item
             when it could be split) *)
      (exists good it rest,
          items = good ++ it :: rest /\ Forall GoodItem good /\
          ((NoSep it /\ ores = ErrNotKV (length good)) \/
           (exists kv j, ParsedPair it kv /\ hashable (fst kv) = false /\ ores = ErrUnhashable j)) /\
          (custom = true -> CallsOf (good ++ [it]) olog))
      \/
      (* (b) otherwise the result is the dictionary built by inserting the parsed
             pair of every item, in order; the parser saw the strings of all items *)
      (exists ps d,
          Forall2 ParsedPair items ps /\ Forall (fun kv => hashable (fst kv) = true) ps /\
          Built ps [] d /\ ores = Ok d /\
          (custom = true -> CallsOf items olog)) ).

  Lemma ok_sound custom items ores olog trip :
    ok (Case sep pk custom t items ores olog trip) = true ->
    observed_ok custom items ores olog trip.
  Proof.
    unfold ok, observed_ok. intros H. apply andb_prop in H as [H Htrip].
    apply andb_prop in H as [Hres Hlog]. apply Nat.eqb_eq in Htrip. split; [exact Htrip|].
    unfold ref_result in Hres.
    destruct (first_bad t sep pk 0 items) as [[j it]|] eqn:Efb.
    - left. apply first_bad_some' in Efb as (good & rest & -> & -> & Hg & Hb).
      exists good, it, rest. split; [reflexivity|]. split.
      { apply Forall_forall. intros g Hin. apply good_spec. auto. }
      split.
      + unfold bad_item in Hb. destruct (ref_pair t sep pk it) as [[k v]|] eqn:Ep.
        * right. destruct ores; simpl in Hres; try discriminate.
          exists (k, v), i. split; [now apply parsed_spec|]. split; [|reflexivity].
          simpl. now apply negb_true_iff.
        * left. split; [now apply nosep_ref_pair|].
          destruct ores; simpl in Hres; try discriminate. apply Nat.eqb_eq in Hres. now subst.
      + intros ->. apply strs_eqb_iff in Hlog. rewrite <- Hlog.
        apply calls_of_spec. now apply ref_calls_bad.
    - right. pose proof (proj1 (first_bad_none' items 0) Efb) as Hgood.
      destruct (parsed_pairs_exist items Hgood) as [HF Hh].
      exists (ref_pairs t sep pk items), (ref_dict (ref_pairs t sep pk items)).
      split; [exact HF|]. split; [now apply Forall_forall|]. split.
      { apply built_spec. apply ref_dict_eq. }
      split.
      + destruct ores; simpl in Hres; try discriminate. apply dict_eqb_eq in Hres. now subst.
      + intros ->. apply strs_eqb_iff in Hlog. rewrite <- Hlog.
        apply calls_of_spec. now apply ref_calls_good.
  Qed.

  Lemma ok_complete custom items ores olog trip :
    observed_ok custom items ores olog trip ->
    ok (Case sep pk custom t items ores olog trip) = true.
  Proof.
    unfold ok, observed_ok. intros [-> H]. rewrite Nat.eqb_refl, andb_true_r.
    destruct H as [(good & it & rest & -> & Hg & Herr & Hlog)|(ps & d & HF & Hh & Hb & -> & Hlog)].
    - assert (Hg' : forall g, In g good -> bad_item t sep pk g = false).
      { intros g Hin. apply good_spec. rewrite Forall_forall in Hg. auto. }
      assert (Hbad : bad_item t sep pk it = true).
      { unfold bad_item. destruct Herr as [[Hn _]|(kv & j & Hp & Hh & _)].
        - apply nosep_ref_pair in Hn. now rewrite Hn.
        - apply parsed_spec in Hp. rewrite Hp. destruct kv. simpl in *. now rewrite Hh. }
      unfold ref_result. rewrite (first_bad_split good it rest 0 Hg' Hbad).
      apply andb_true_intro. split.
      + destruct Herr as [[Hn ->]|(kv & j & Hp & Hh & ->)].
        * apply nosep_ref_pair in Hn. rewrite Hn. simpl. apply Nat.eqb_refl.
        * apply parsed_spec in Hp. rewrite Hp. reflexivity.
      + destruct custom; [|reflexivity]. specialize (Hlog eq_refl).
        apply calls_of_spec in Hlog. apply strs_eqb_iff. rewrite Hlog.
        now apply ref_calls_bad.
    - assert (Hgood : forall it, In it items -> bad_item t sep pk it = false).
      { clear Hb Hlog. induction HF as [|it p its ps H HF IH]; [intros ? []|].
        inversion Hh; subst. intros x [<-|Hin]; [|now apply IH].
        apply good_spec. exists p. auto. }
      unfold ref_result. rewrite (proj2 (first_bad_none' items 0) Hgood).
      apply built_spec in Hb. rewrite (parsed_pairs_spec _ _ HF), ref_dict_eq, <- Hb.
      apply andb_true_intro. split; [apply res_eqb_refl|].
      destruct custom; [|reflexivity]. specialize (Hlog eq_refl).
      apply calls_of_spec in Hlog. apply strs_eqb_iff. rewrite Hlog. now apply ref_calls_good.
  Qed.
End Sound.

(* ---- the monitor is the comparison with the model, as a decider --------------- *)
Lemma ok_eq_agree c : ok c = agree c.
Proof.
  destruct c as [sep pk custom t items ores olog trip]. unfold ok, agree.
  now rewrite ref_result_eq, ref_calls_eq.
Qed.

(* the model's own trace satisfies the readable statement *)
Lemma model_observed_ok sep pk custom t items :
  observed_ok t sep pk custom items (parse_to_dict (lookup t) sep pk items)
              (calls (lookup t) sep pk items) 0.
Proof. apply ok_sound. apply monitor_accepts_model_lemma. Qed.
