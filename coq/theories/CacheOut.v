(* CacheOut.v — C06 over the cache model (Cache.step): the invariant Out (every pc that carries an
   outcome / value, and every cache entry, is justified by the invocation table), the outcome
   trichotomy, "failures are not cached", isolation of cancellation, and soundness of the trace
   monitor CacheMon.ok_C06 for every event list the model accepts. *)
From Coq Require Import List Arith NArith Bool Lia ZifyBool ZifyNat ZifyN.
Import ListNotations.
Require Import Aiuti.Cache Aiuti.CacheLemmas Aiuti.CacheInv Aiuti.CacheMon.

Definition exc_of (p : pc) : option nat :=
  match p with
  | PFinish (OExc i) | PFinLock _ (OExc i) | PFinUnlock (OExc i) | PDone (OExc i) => Some i
  | _ => None
  end.
Definition canc_of (p : pc) : bool :=
  match p with
  | PFinish OCanc | PFinLock _ OCanc | PFinUnlock OCanc | PDone OCanc => true
  | _ => false
  end.
Definition final_st (st : istatus) : bool :=
  match st with IOk | IExc | ICanc => true | _ => false end.

Lemma ms_exc s cr : exc_of (cpc (mark_started s cr)) = exc_of (cpc cr).
Proof. apply ms_class. reflexivity. Qed.
Lemma ms_canc s cr : canc_of (cpc (mark_started s cr)) = canc_of (cpc cr).
Proof. apply ms_class. reflexivity. Qed.
Lemma ms_ccanc s cr : ccanc (mark_started s cr) = ccanc cr.
Proof. apply mark_started_props. Qed.
Lemma ms_done s cr : is_done (cpc (mark_started s cr)) = is_done (cpc cr).
Proof. apply ms_class. reflexivity. Qed.

Lemma invs_stable s e s' : trans s e s' ->
  forall i ir, nth_error (invs s) i = Some ir -> final_st (istat ir) = true -> nth_error (invs s') i = Some ir.
Proof.
  intros T. tcases T; intros j jr Hj Hf; proj_norm; auto.
  - rewrite nth_error_app1; auto. eapply nth_error_Some_lt; eauto.
  - erewrite nth_error_lset by (eapply nth_error_Some_lt; eassumption).
    destruct (Nat.eqb_spec i j); auto. subst. rewrite Hj in H. injection H as <-. rewrite H3 in Hf. discriminate.
  - erewrite nth_error_lset by (eapply nth_error_Some_lt; eassumption).
    destruct (Nat.eqb_spec i j); auto. subst. rewrite Hj in H. injection H as <-. rewrite H3 in Hf. discriminate.
  - erewrite nth_error_lset by (eapply nth_error_Some_lt; eassumption).
    destruct (Nat.eqb_spec i j); auto. subst. rewrite Hj in H. injection H as <-.
    destruct H3 as [H3|H3]; rewrite H3 in Hf; discriminate.
  - rewrite nth_error_map, Hj. simpl. unfold abandon. destruct (istat jr); try discriminate; reflexivity.
Qed.

Definition okval (s : state) (v k : nat) : Prop :=
  exists ir, nth_error (invs s) v = Some ir /\ istat ir = IOk /\ ikey ir = k.

Record Out (s : state) : Prop := mkOut {
  oV : forall c cr v, getc s c = Some cr -> val_of (cpc cr) = Some v -> okval s v (ckey cr);
  oC : forall k v, cache_at s k = Some v -> okval s v k;
  oE : forall c cr i, getc s c = Some cr -> exc_of (cpc cr) = Some i ->
       exists ir, nth_error (invs s) i = Some ir /\ icaller ir = c /\ istat ir = IExc;
  oX : forall c cr, getc s c = Some cr -> canc_of (cpc cr) = true -> ccanc cr = true
}.

Section Pres.
Variables (s s' : state) (e : ev).
Hypothesis I : Inv s.
Hypothesis O : Out s.
Hypothesis T : trans s e s'.
Ltac start := start_ s; rewrite ?ms_exc, ?ms_canc, ?ms_ccanc, ?ms_done in *.

Lemma okval_lift v k : okval s v k -> okval s' v k.
Proof.
  intros (ir & H1 & H2 & H3). exists ir. repeat split; auto.
  eapply invs_stable; eauto. rewrite H2. reflexivity.
Qed.

Lemma pres_oV : forall c cr v, getc s' c = Some cr -> val_of (cpc cr) = Some v -> okval s' v (ckey cr).
Proof.
  pose proof (oV s O) as V. pose proof (oC s O) as C. pose proof (iE s I) as E. pose proof okval_lift as L. revert L.
  tcases T; intros L c' cr' v' Hg Hv; start.
  all: try solve [ apply L; eapply V; eauto ].
  all: mv_simpl; try discriminate; try (injection Hv as <-).
  all: try solve [ apply L; eapply V; eauto; oldown ].
  all: try solve [ apply L; eapply C; eauto ].
  all: try match goal with o : outcome |- _ => destruct o; simpl in *; try discriminate; try (injection Hv as <-) end.
  all: try solve [ apply L; eapply V; eauto; oldown ].
  - destruct (E _ _ H H3) as (crx & ex & Hgx & _ & _ & Hkx & _). rewrite H0 in Hgx. injection Hgx as <-.
    unfold okval. proj_norm. erewrite nth_error_lset by (eapply nth_error_Some_lt; eassumption).
    rewrite Nat.eqb_refl. eexists. split; [reflexivity|]. simpl. auto.
Qed.

Lemma pres_oC : forall k v, cache_at s' k = Some v -> okval s' v k.
Proof.
  pose proof (oV s O) as V. pose proof (oC s O) as C. pose proof okval_lift as L. revert L.
  tcases T; intros L k v Hc; proj_norm.
  all: try solve [ apply L; eapply C; eauto ].
  rewrite lget_lset in Hc. destruct (Nat.eqb_spec (ckey cr) k).
  - injection Hc as <-. subst k. apply L. eapply V; eauto. rewrite H2. reflexivity.
  - apply L; eapply C; eauto.
Qed.

Lemma pres_oE : forall c cr i, getc s' c = Some cr -> exc_of (cpc cr) = Some i ->
       exists ir, nth_error (invs s') i = Some ir /\ icaller ir = c /\ istat ir = IExc.
Proof.
  pose proof (oE s O) as X.
  assert (L : forall i c, (exists ir, nth_error (invs s) i = Some ir /\ icaller ir = c /\ istat ir = IExc) ->
                          exists ir, nth_error (invs s') i = Some ir /\ icaller ir = c /\ istat ir = IExc).
  { intros i c (ir & H1 & H2 & H3). exists ir. repeat split; auto.
    eapply invs_stable; eauto. rewrite H3. reflexivity. }
  revert L.
  tcases T; intros L c' cr' v' Hg Hv; start.
  all: try solve [ apply L; eapply X; eauto ].
  all: mv_simpl; try discriminate; try (injection Hv as <-).
  all: try solve [ apply L; eapply X; eauto; oldown ].
  all: try match goal with o : outcome |- _ => destruct o; simpl in *; try discriminate; try (injection Hv as <-) end.
  all: try solve [ apply L; eapply X; eauto; oldown ].
  - erewrite nth_error_lset by (eapply nth_error_Some_lt; eassumption).
    rewrite Nat.eqb_refl. eexists. split; [reflexivity|]. simpl. auto.
Qed.

Lemma pres_oX : forall c cr, getc s' c = Some cr -> canc_of (cpc cr) = true -> ccanc cr = true.
Proof.
  pose proof (oX s O) as X.
  tcases T; intros c' cr' Hg Hv; start.
  all: try solve [ eapply X; eauto ].
  all: mv_simpl; try discriminate.
  all: try solve [ eapply X; eauto; oldown ].
  all: try match goal with o : outcome |- _ => destruct o; simpl in *; try discriminate end.
  all: try solve [ eapply X; eauto; oldown ].
  all: auto.
Qed.

Lemma pres_Out1 : Out s'.
Proof. constructor; [apply pres_oV|apply pres_oC|apply pres_oE|apply pres_oX]. Qed.
End Pres.

Lemma Out_init n tbl : Out (init n tbl).
Proof.
  assert (P : forall c cr, getc (init n tbl) c = Some cr -> cpc cr = PStart).
  { intros c cr H. unfold getc, init in H. simpl in H. rewrite nth_error_map in H.
    destruct (nth_error tbl c); simpl in H; [injection H as <-|discriminate]. reflexivity. }
  constructor; intros.
  - apply P in H. rewrite H in H0. discriminate.
  - unfold cache_at, init in H. simpl in H. destruct k; discriminate.
  - apply P in H. rewrite H in H0. discriminate.
  - apply P in H. rewrite H in H0. discriminate.
Qed.

Lemma run_Out tr : forall s s', Inv s -> Out s -> run s tr = Some s' -> Inv s' /\ Out s'.
Proof. apply run_ind. intros. eapply pres_Out1; eauto. Qed.

Lemma reach_Out n tbl tr s : run (init n tbl) tr = Some s -> Inv s /\ Out s.
Proof. apply run_Out; [apply Inv_init|apply Out_init]. Qed.

(* ---- 1. outcome trichotomy ---- *)
Lemma outcome_trichotomy_l nloops tbl tr s : run (init nloops tbl) tr = Some s ->
  forall c cr o, getc s c = Some cr -> cpc cr = PDone o ->
    match o with
    | ORet v => exists ir, nth_error (invs s) v = Some ir /\ istat ir = IOk /\ ikey ir = ckey cr
    | OExc i => exists ir, nth_error (invs s) i = Some ir /\ icaller ir = c /\ istat ir = IExc
    | OCanc => ccanc cr = true
    end.
Proof.
  intros H c cr o Hg Hp. apply reach_Out in H as [_ O]. destruct o.
  - eapply (oV s O); eauto. rewrite Hp. reflexivity.
  - eapply (oE s O); eauto. rewrite Hp. reflexivity.
  - eapply (oX s O); eauto. rewrite Hp. reflexivity.
Qed.

Lemma no_lib_exc_l s c kind p t s' : step s (Done c kind p t) = Some s' -> kind <= 2.
Proof.
  intros H. apply step_trans in H as [_ T]. inversion T; subst; try lia.
  destruct o; simpl; lia.
Qed.

Lemma done_once_l s c cr o kind p t : getc s c = Some cr -> cpc cr = PDone o -> step s (Done c kind p t) = None.
Proof.
  intros Hg Hp. unfold step. destruct (ended s); auto. rewrite Hg, Hp.
  destruct (_ && _); reflexivity.
Qed.

(* an outcome, once delivered, is never replaced *)
Section Stable.
Variables (s s' : state) (e : ev).
Hypothesis T : trans s e s'.
Lemma done_stable : forall c cr o, getc s c = Some cr -> cpc cr = PDone o ->
  exists cr', getc s' c = Some cr' /\ cpc cr' = PDone o.
Proof.
  tcases T; intros c' cr' o' Hg Hp.
  all: try solve [ exists cr'; split; auto ].
  all: try solve [ erewrite getc_set_pc by eassumption;
                   match goal with |- context [if ?a =? ?b then _ else _] => destruct (Nat.eqb_spec a b) end;
                   [ exfalso; subst; unfold can_probe, rel_pc in *;
                     match goal with Hq : getc s ?x = Some ?a, Hq' : getc s ?x = Some ?b |- _ =>
                       rewrite Hq in Hq'; injection Hq' as -> end;
                     repeat match goal with
                            | Hd : _ \/ _ |- _ => destruct Hd
                            | Hd : exists _, _ |- _ => destruct Hd
                            | Hd : _ /\ _ |- _ => destruct Hd
                            end; try congruence;
                     match goal with Hq : cpc ?a = _ , Hr : context [match cpc ?a with _ => _ end] |- _ =>
                       rewrite Hq in Hr; contradiction end
                   | exists cr'; split; auto ] ].
  - erewrite getc_cancel by eassumption. destruct (Nat.eqb_spec c c').
    + subst. rewrite Hg in H. injection H as <-. rewrite Hp in H2. discriminate.
    + eauto.
  - erewrite (getc_map _ (mark_started s)) by reflexivity. rewrite Hg. simpl. eexists. split; [reflexivity|].
    destruct (mark_started_props s cr') as (_ & _ & _ & [-> | (l & e0 & dl & xd & Hc & _)]); congruence.
Qed.
End Stable.

Lemma outcome_final_l : forall tr s s' c cr o, run s tr = Some s' -> getc s c = Some cr -> cpc cr = PDone o ->
  exists cr', getc s' c = Some cr' /\ cpc cr' = PDone o.
Proof.
  induction tr as [|e tr IH]; intros s s' c cr o H Hg Hp; simpl in H.
  - injection H as <-. eauto.
  - destruct (step s e) as [s1|] eqn:Hs; [|discriminate]. apply step_trans in Hs as [_ T].
    destruct (done_stable _ _ _ T _ _ _ Hg Hp) as (cr1 & Hg1 & Hp1). eapply IH; eauto.
Qed.

(* ---- 2. failures are not cached ---- *)
Lemma failure_not_cached_l nloops tbl tr s : run (init nloops tbl) tr = Some s ->
  forall e s' k, step s e = Some s' -> cache_at s' k <> cache_at s k ->
  exists t c i, e = SetC t c /\ cache_at s' k = Some i /\
    exists ir, nth_error (invs s') i = Some ir /\ istat ir = IOk /\ ikey ir = k.
Proof.
  intros H e s' k Hs Hne. apply reach_Out in H as [I O]. apply step_trans in Hs as [_ T].
  pose proof (pres_Out1 _ _ _ I O T) as O'.
  assert (Hx : forall t c, e = SetC t c -> exists t c i, e = SetC t c /\ cache_at s' k = Some i /\
    exists ir, nth_error (invs s') i = Some ir /\ istat ir = IOk /\ ikey ir = k).
  { intros t c ->. destruct (cache_at s' k) as [i|] eqn:Hc.
    - exists t, c, i. repeat split; auto. apply (oC s' O'). exact Hc.
    - exfalso. inversion T; subst. apply Hne. unfold cache_at in *. simpl in *.
      rewrite lget_lset in *. destruct (ckey cr =? k); [discriminate|symmetry; assumption]. }
  revert Hx Hne. clear O'. tcases T; intros Hx Hne; try solve [exfalso; apply Hne; reflexivity].
  eapply Hx; reflexivity.
Qed.

Lemma failed_invocation_leaves_cache_l s i r t s' : step s (IEnd i r t) = Some s' -> cache s' = cache s.
Proof. intros H. apply step_trans in H as [_ T]. inversion T; subst; reflexivity. Qed.

(* ---- 3. cancellation is isolated ---- *)
Lemma cancel_isolated_l s c t s' : step s (Cancel c t) = Some s' ->
  (forall c', c' <> c -> getc s' c' = getc s c')
  /\ (exists cr, getc s c = Some cr /\ getc s' c = Some (mkC (cloop cr) (ckey cr) (cpc cr) true))
  /\ cache s' = cache s /\ marker s' = marker s /\ evset s' = evset s /\ lock s' = lock s
  /\ loops s' = loops s /\ invs s' = invs s /\ now s' = now s.
Proof.
  intros H. apply step_trans in H as [_ T]. inversion T; subst. repeat split; auto.
  - intros c' Hc. erewrite getc_cancel by eassumption. destruct (Nat.eqb_spec c c'); congruence.
  - exists cr. split; auto. erewrite getc_cancel by eassumption. rewrite Nat.eqb_refl. reflexivity.
Qed.

Lemma done_touches_nothing_l s c kind p t s' : step s (Done c kind p t) = Some s' ->
  (forall c', c' <> c -> getc s' c' = getc s c')
  /\ (exists cr o, getc s c = Some cr /\ getc s' c = Some (mkC (cloop cr) (ckey cr) (PDone o) (ccanc cr)))
  /\ cache s' = cache s /\ marker s' = marker s /\ evset s' = evset s /\ lock s' = lock s
  /\ loops s' = loops s /\ invs s' = invs s /\ now s' = now s.
Proof.
  intros H. apply step_trans in H as [_ T]. inversion T; subst; repeat split; auto.
  all: try (intros c' Hc; erewrite getc_set_pc by eassumption; destruct (Nat.eqb_spec c c'); congruence).
  all: eexists cr, _; split; auto; erewrite getc_set_pc by eassumption; rewrite Nat.eqb_refl; reflexivity.
Qed.

Lemma cancelled_waiter_touches_nothing_l s c cr kind p t s' :
  getc s c = Some cr ->
  ((exists e dl, cpc cr = PWait e dl) \/ (exists l e dl xd xs, cpc cr = PWaitX l e dl xd xs)) ->
  step s (Done c kind p t) = Some s' ->
  kind = 2 /\ p = 0 /\ ccanc cr = true
  /\ getc s' c = Some (mkC (cloop cr) (ckey cr) (PDone OCanc) true)
  /\ (forall c', c' <> c -> getc s' c' = getc s c')
  /\ cache s' = cache s /\ marker s' = marker s /\ evset s' = evset s /\ lock s' = lock s
  /\ loops s' = loops s /\ invs s' = invs s /\ now s' = now s.
Proof.
  intros Hg Hw H. pose proof (done_touches_nothing_l _ _ _ _ _ _ H) as (Ho & _ & Hrest).
  apply step_trans in H as [_ T]. inversion T; subst.
  all: match goal with Hx : getc _ _ = Some ?x |- _ => rewrite Hg in Hx; injection Hx as <- end.
  - exfalso. destruct Hw as [(e & dl & Hw) | (l & e & dl & xd & xs & Hw)]; congruence.
  - repeat split; auto; try apply Hrest.
    erewrite getc_set_pc by eassumption. rewrite Nat.eqb_refl.
    match goal with Hx : ccanc cr = true |- _ => rewrite Hx end. reflexivity.
Qed.

(* ---- 4. soundness of the C06 trace monitor ---- *)
Definition code (st : istatus) : nat :=
  match st with IOk => 0 | IExc => 1 | ICanc => 2 | IActive | IAband => 9 end.

Record Stat (tbl : list (nat * nat)) (s : state) : Prop := mkStat {
  stC : forall c cr, getc s c = Some cr -> cloop cr = tbl_loop tbl c /\ ckey cr = tbl_key tbl c;
  stI : forall i ir, nth_error (invs s) i = Some ir -> ikey ir = tbl_key tbl (icaller ir)
}.

Record Sim (s : state) (m : m6) : Prop := mkSim {
  sI : forall i ir, nth_error (invs s) i = Some ir -> assoc2 (iv6 m) i = Some (icaller ir, code (istat ir));
  sN : forall i, length (invs s) <= i -> assoc2 (iv6 m) i = None;
  sC : forall c cr, getc s c = Some cr -> ccanc cr = true -> mem c (canc6 m) = true;
  sF : forall c cr, getc s c = Some cr -> is_done (cpc cr) = false -> mem c (fin6 m) = false;
  sK : ok6 m = true
}.

Lemma nth_error_lget {A} (d : A) l n x : nth_error l n = Some x -> lget d l n = x.
Proof. revert n. induction l as [|y r IH]; intros [|n] H; simpl in *; try discriminate; auto. congruence. Qed.

Lemma Stat_init n tbl : Stat tbl (init n tbl).
Proof.
  constructor.
  - intros c cr H. unfold getc, init in H. simpl in H. rewrite nth_error_map in H.
    destruct (nth_error tbl c) as [lk|] eqn:Hn; simpl in H; [injection H as <-|discriminate].
    unfold tbl_loop, tbl_key. rewrite (nth_error_lget _ _ _ _ Hn). auto.
  - intros i ir H. destruct i; discriminate.
Qed.

Lemma Sim_init n tbl : Sim (init n tbl) m6_init.
Proof.
  constructor; simpl; auto.
  - intros i ir H. destruct i; discriminate.
  - intros c cr H Hc. unfold getc, init in H. simpl in H. rewrite nth_error_map in H.
    destruct (nth_error tbl c); simpl in H; [injection H as <-|discriminate]. discriminate.
Qed.

Section PresStat.
Variables (tbl : list (nat * nat)) (s s' : state) (e : ev).
Hypothesis S : Stat tbl s.
Hypothesis T : trans s e s'.
Ltac start := start_ s; rewrite ?ms_exc, ?ms_canc, ?ms_ccanc, ?ms_done in *.

Lemma pres_stC : forall c cr, getc s' c = Some cr -> cloop cr = tbl_loop tbl c /\ ckey cr = tbl_key tbl c.
Proof.
  pose proof (stC tbl s S) as C.
  tcases T; intros c' cr' Hg; start; simpl; eauto.
Qed.

Lemma pres_stI : forall i ir, nth_error (invs s') i = Some ir -> ikey ir = tbl_key tbl (icaller ir).
Proof.
  pose proof (stC tbl s S) as C. pose proof (stI tbl s S) as J.
  tcases T; intros j jr Hj; proj_norm; eauto.
  all: try match goal with
           | Hx : nth_error (_ ++ [_]) ?j = Some _ |- _ =>
               rewrite nth_error_snoc in Hx; destruct (Nat.eqb_spec j (length (invs s)));
               [injection Hx as <-; subst j|]
           | Hx : nth_error (lset _ _ ?i _) ?j = Some _ |- _ =>
               erewrite nth_error_lset in Hx by (eapply nth_error_Some_lt; eassumption);
               destruct (Nat.eqb_spec i j); [injection Hx as <-; subst|]
           | Hx : nth_error (map _ _) ?j = Some _ |- _ =>
               let jr0 := fresh "jr0" in let Hj0 := fresh "Hj0" in
               rewrite nth_error_map in Hx; destruct (nth_error (invs s) j) as [jr0|] eqn:Hj0; simpl in Hx;
               [injection Hx as <-|discriminate Hx]
           end; simpl; eauto.
  - apply C in H. apply H.
  - unfold abandon. destruct (istat jr0); try destruct (_ =? _); simpl; eauto.
Qed.

Lemma pres_Stat1 : Stat tbl s'.
Proof. constructor; [apply pres_stC|apply pres_stI]. Qed.
End PresStat.

Section PresSim.
Variables (tbl : list (nat * nat)) (s s' : state) (e : ev) (m : m6).
Hypothesis I : Inv s.
Hypothesis O : Out s.
Hypothesis S : Stat tbl s.
Hypothesis M : Sim s m.
Hypothesis T : trans s e s'.
Ltac start := start_ s; rewrite ?ms_exc, ?ms_canc, ?ms_ccanc, ?ms_done in *.

Ltac notdone cr :=
  unfold can_probe, rel_pc in *;
  repeat match goal with
         | Hd : _ \/ _ |- _ => destruct Hd
         | Hd : exists _, _ |- _ => destruct Hd
         | Hd : _ /\ _ |- _ => destruct Hd
         end;
  first [ match goal with Hq : cpc cr = _ |- _ => rewrite Hq; reflexivity end
        | destruct (cpc cr); try contradiction; reflexivity ].

Lemma pres_sI : forall i ir, nth_error (invs s') i = Some ir ->
  assoc2 (iv6 (m6_step tbl m e)) i = Some (icaller ir, code (istat ir)).
Proof.
  pose proof (sI s m M) as MI. pose proof (sN s m M) as MN.
  tcases T; intros j jr Hj; proj_norm; try solve [simpl; eauto].
  all: try match goal with
           | Hx : nth_error (_ ++ [_]) ?j = Some _ |- _ =>
               rewrite nth_error_snoc in Hx; destruct (Nat.eqb_spec j (length (invs s)));
               [injection Hx as <-; subst j|]
           | Hx : nth_error (lset _ _ ?i _) ?j = Some _ |- _ =>
               erewrite nth_error_lset in Hx by (eapply nth_error_Some_lt; eassumption);
               destruct (Nat.eqb_spec i j); [injection Hx as <-; subst|]
           | Hx : nth_error (map _ _) ?j = Some _ |- _ =>
               let jr0 := fresh "jr0" in let Hj0 := fresh "Hj0" in
               rewrite nth_error_map in Hx; destruct (nth_error (invs s) j) as [jr0|] eqn:Hj0; simpl in Hx;
               [injection Hx as <-|discriminate Hx]
           end.
  - simpl. rewrite Nat.eqb_refl. reflexivity.
  - simpl. destruct (Nat.eqb_spec (length (invs s)) j); [congruence|]. eauto.
  - unfold m6_step. rewrite (MI _ _ H). simpl. rewrite Nat.eqb_refl. reflexivity.
  - unfold m6_step. rewrite (MI _ _ H). simpl. destruct (Nat.eqb_spec i j); [congruence|]. eauto.
  - unfold m6_step. rewrite (MI _ _ H). simpl. rewrite Nat.eqb_refl. reflexivity.
  - unfold m6_step. rewrite (MI _ _ H). simpl. destruct (Nat.eqb_spec i j); [congruence|]. eauto.
  - unfold m6_step. rewrite (MI _ _ H). simpl. rewrite Nat.eqb_refl. reflexivity.
  - unfold m6_step. rewrite (MI _ _ H). simpl. destruct (Nat.eqb_spec i j); [congruence|]. eauto.
  - simpl. rewrite (MI _ _ Hj0). unfold abandon. destruct (istat jr0) eqn:Hs; try destruct (_ =? _); simpl; rewrite ?Hs; reflexivity.
Qed.

Lemma pres_sN : forall i, length (invs s') <= i -> assoc2 (iv6 (m6_step tbl m e)) i = None.
Proof.
  pose proof (sI s m M) as MI. pose proof (sN s m M) as MN.
  tcases T; intros j Hj; proj_norm; try solve [simpl; eauto].
  all: try (unfold m6_step; rewrite (MI _ _ H); simpl;
            pose proof (nth_error_Some_lt _ _ _ H);
            pose proof (length_lset_ge dummyI (invs s) i (mkI (ikey ir) (iloop ir) (icaller ir) IOk));
            pose proof (length_lset_ge dummyI (invs s) i (mkI (ikey ir) (iloop ir) (icaller ir) IExc));
            pose proof (length_lset_ge dummyI (invs s) i (mkI (ikey ir) (iloop ir) (icaller ir) ICanc));
            destruct (Nat.eqb_spec i j); [lia|apply MN; lia]).
  - rewrite app_length in Hj. simpl in *. destruct (Nat.eqb_spec (length (invs s)) j); [lia|apply MN; lia].
  - rewrite map_length in Hj. simpl. auto.
Qed.

Lemma pres_sC : forall c cr, getc s' c = Some cr -> ccanc cr = true -> mem c (canc6 (m6_step tbl m e)) = true.
Proof.
  pose proof (sC s m M) as MC. pose proof (sI s m M) as MI.
  tcases T; intros c' cr' Hg Hc; start; simpl in Hc; try solve [simpl; eauto].
  all: try (unfold m6_step; rewrite (MI _ _ H); simpl; eauto).
  - simpl. unfold mem. simpl. rewrite Nat.eqb_refl. reflexivity.
  - simpl. unfold mem. simpl. apply orb_true_iff. right. eapply MC; eauto.
Qed.

Lemma pres_sF : forall c cr, getc s' c = Some cr -> is_done (cpc cr) = false -> mem c (fin6 (m6_step tbl m e)) = false.
Proof.
  pose proof (sF s m M) as MF. pose proof (sI s m M) as MI.
  tcases T; intros c' cr' Hg Hd; start; simpl in Hd; try discriminate.
  all: try solve [simpl; eauto].
  all: try solve [unfold m6_step; rewrite (MI _ _ H); simpl; eauto].
  all: try solve [simpl; eapply MF; eauto; notdone cr].
  all: try solve [unfold m6_step; rewrite (MI _ _ H); simpl; eapply MF; eauto; notdone cr].
  all: simpl; unfold mem; simpl; apply orb_false_iff; split;
         [apply Nat.eqb_neq; congruence | eapply MF; eauto].
Qed.

Lemma pres_sK : ok6 (m6_step tbl m e) = true.
Proof.
  pose proof (sK s m M) as MK. pose proof (sI s m M) as MI. pose proof (sF s m M) as MF.
  pose proof (sC s m M) as MC.
  tcases T; try solve [simpl; auto].
  all: try solve [unfold m6_step; rewrite (MI _ _ H); simpl; auto].
  - assert (Hf : mem c (fin6 m) = false) by (eapply MF; eauto; rewrite H1; reflexivity).
    destruct o as [v|i|]; simpl; rewrite MK, Hf; simpl.
    + destruct (oV s O c cr v H) as (ir & Hn & Hs & Hk); [rewrite H1; reflexivity|].
      rewrite (MI _ _ Hn), Hs. simpl.
      rewrite <- (stI tbl s S _ _ Hn), Hk. destruct (stC tbl s S _ _ H) as [_ ->]. apply Nat.eqb_refl.
    + destruct (oE s O c cr i H) as (ir & Hn & Hc & Hs); [rewrite H1; reflexivity|].
      rewrite (MI _ _ Hn), Hs, Hc. simpl. apply Nat.eqb_refl.
    + eapply MC; eauto. eapply (oX s O); eauto. rewrite H1. reflexivity.
  - assert (Hf : mem c (fin6 m) = false).
    { eapply MF; eauto. destruct H1 as [(e0 & dl & ->) | (l & e0 & dl & xd & xs & ->)]; reflexivity. }
    simpl. rewrite MK, Hf. simpl. eapply MC; eauto.
  - simpl. rewrite MK. simpl. destruct r as [|[|[|r]]]; try reflexivity. contradiction.
Qed.

Lemma pres_Sim1 : Sim s' (m6_step tbl m e).
Proof. constructor; [apply pres_sI|apply pres_sN|apply pres_sC|apply pres_sF|apply pres_sK]. Qed.
End PresSim.

Lemma run_Sim tbl : forall tr s m s', Inv s -> Out s -> Stat tbl s -> Sim s m -> run s tr = Some s' ->
  Sim s' (fold_left (m6_step tbl) tr m).
Proof.
  induction tr as [|e tr IH]; intros s m s' I O S M H; simpl in H.
  - injection H as <-. exact M.
  - destruct (step s e) as [s1|] eqn:Hs; [|discriminate]. apply step_trans in Hs as [_ T]. simpl.
    eapply IH; [| | | |exact H].
    + eapply pres_Inv1; eauto.
    + eapply pres_Out1; eauto.
    + eapply pres_Stat1; eauto.
    + eapply pres_Sim1; eauto.
Qed.

Lemma ok_C06_sound_run nloops tbl tr s : run (init nloops tbl) tr = Some s -> ok_C06 tbl tr = true.
Proof.
  intros H. unfold ok_C06. eapply sK. eapply run_Sim; [apply Inv_init|apply Out_init|apply Stat_init|apply Sim_init|exact H].
Qed.

Lemma ok_C06_sound_l nloops tbl tr : accepts nloops tbl tr = true -> ok_C06 tbl tr = true.
Proof.
  unfold accepts. destruct (run (init nloops tbl) tr) as [s|] eqn:H; [|discriminate].
  intros _. eapply ok_C06_sound_run; eauto.
Qed.
