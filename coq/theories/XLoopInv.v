(* XLoopInv.v — safety invariants of the cross-loop model XLoop.v, by induction over
   ALL accepted event lists (any number of callers, any scripts, any mode). *)
From Coq Require Import List Arith NArith Bool Lia ZifyBool ZifyNat ZifyN.
Import ListNotations.
Require Import Aiuti.XLoop.


(* ---- generic facts about run ------------------------------------------------ *)

Lemma run_from_app : forall c evs1 evs2 s,
  run_from c s (evs1 ++ evs2) =
  match run_from c s evs1 with Some s1 => run_from c s1 evs2 | None => None end.
Proof.
  induction evs1 as [|e r IH]; intros evs2 s; simpl; [reflexivity|].
  destruct (step c s e); [apply IH|reflexivity].
Qed.

Lemma run_snoc : forall c evs e s',
  run c (evs ++ [e]) = Some s' <-> exists s, run c evs = Some s /\ step c s e = Some s'.
Proof.
  intros c evs e s'. unfold run. rewrite run_from_app. split.
  - destruct (run_from c (init c) evs) as [s|] eqn:E; [|discriminate].
    simpl. destruct (step c s e) as [s2|] eqn:E2; [|discriminate].
    intros H. injection H as <-. eauto.
  - intros (s & H1 & H2). rewrite H1. simpl. now rewrite H2.
Qed.

Lemma run_split : forall c pre e post s',
  run c (pre ++ e :: post) = Some s' ->
  exists s0 s1, run c pre = Some s0 /\ step c s0 e = Some s1 /\ run_from c s1 post = Some s'.
Proof.
  intros c pre e post s'. unfold run. rewrite run_from_app.
  destruct (run_from c (init c) pre) as [s0|]; [|discriminate].
  simpl. destruct (step c s0 e) as [s1|] eqn:E; [|discriminate]. eauto.
Qed.

(* induction over accepted logs *)
Lemma run_ind : forall c (P : list event -> state -> Prop),
  P [] (init c) ->
  (forall evs s e s', run c evs = Some s -> P evs s -> step c s e = Some s' -> P (evs ++ [e]) s') ->
  forall evs s, run c evs = Some s -> P evs s.
Proof.
  intros c P H0 HS evs. induction evs as [|e r IH] using rev_ind; intros s H.
  - unfold run in H. simpl in H. injection H as <-. exact H0.
  - apply run_snoc in H as (s0 & H1 & H2). eapply HS; eauto.
Qed.

Definition reachable (c : cfg) (s : state) : Prop := exists evs, run c evs = Some s.

Lemma reach_ind : forall c (P : state -> Prop),
  P (init c) ->
  (forall s e s', reachable c s -> P s -> step c s e = Some s' -> P s') ->
  forall s, reachable c s -> P s.
Proof.
  intros c P H0 HS s [evs H]. revert s H.
  apply (run_ind c (fun _ s => P s)); auto.
  intros evs0 s0 e s' Hr Hp Hs. eapply HS; eauto. now exists evs0.
Qed.

(* ---- small reflection lemmas -------------------------------------------------- *)

Lemma tid_eqb_eq : forall a b, tid_eqb a b = true <-> a = b.
Proof.
  intros a b; destruct a, b; simpl; split; intros H; try discriminate; try reflexivity;
    try (apply Nat.eqb_eq in H; now subst); try (injection H as ->; apply Nat.eqb_refl).
Qed.
Lemma tid_eqb_refl : forall a, tid_eqb a a = true.
Proof. intros a. now apply tid_eqb_eq. Qed.
Lemma tid_eqb_neq : forall a b, tid_eqb a b = false <-> a <> b.
Proof.
  intros a b. split.
  - intros H E. apply tid_eqb_eq in E. congruence.
  - intros H. destruct (tid_eqb a b) eqn:E; [apply tid_eqb_eq in E; contradiction|reflexivity].
Qed.
Lemma tid_eq_dec : forall a b : tid, {a = b} + {a <> b}.
Proof. intros a b. destruct (tid_eqb a b) eqn:E; [left; now apply tid_eqb_eq|right; now apply tid_eqb_neq]. Qed.

Lemma bool_eqb_eq : forall a b, bool_eqb a b = true <-> a = b.
Proof. intros [] []; simpl; split; congruence. Qed.
Lemma optnat_eqb_eq : forall a b, optnat_eqb a b = true <-> a = b.
Proof.
  intros [x|] [y|]; simpl; split; intros H; try discriminate; try reflexivity.
  - apply Nat.eqb_eq in H. now subst.
  - injection H as ->. apply Nat.eqb_refl.
Qed.
Lemma okind_eqb_eq : forall a b, okind_eqb a b = true <-> a = b.
Proof. intros [] []; simpl; split; congruence. Qed.
Lemma outcome_eqb_eq : forall a b, outcome_eqb a b = true <-> a = b.
Proof.
  intros [k1 n1] [k2 n2]. unfold outcome_eqb. simpl. rewrite andb_true_iff, okind_eqb_eq, Nat.eqb_eq.
  split; [intros [-> ->]; reflexivity|intros H; injection H as -> ->; auto].
Qed.
Lemma optout_eqb_eq : forall a b, optout_eqb a b = true <-> a = Some b.
Proof.
  intros [x|] b; simpl; [rewrite outcome_eqb_eq|]; split; intros H; try discriminate; congruence.
Qed.
Lemma is_none_true : forall {A} (o : option A), is_none o = true <-> o = None.
Proof. intros A [x|]; simpl; split; congruence. Qed.
Lemma owned_by_eq : forall s l t, owned_by s l t = true <-> owner s l = Some t.
Proof.
  intros s l t. unfold owned_by. destruct (owner s l) as [u|]; [rewrite tid_eqb_eq|]; split; congruence.
Qed.
Lemma running_false : forall s, running s = false <-> inside s = [].
Proof. intros s. unfold running. destruct (inside s); split; congruence. Qed.

Lemma upd_same : forall {A} (f : nat -> A) i v, upd f i v i = v.
Proof. intros. unfold upd. now rewrite Nat.eqb_refl. Qed.
Lemma upd_other : forall {A} (f : nat -> A) i v j, j <> i -> upd f i v j = f j.
Proof. intros. unfold upd. destruct (Nat.eqb_spec j i); congruence. Qed.
Lemma updt_same : forall {A} (f : tid -> A) t v, updt f t v t = v.
Proof. intros. unfold updt. now rewrite tid_eqb_refl. Qed.
Lemma updt_other : forall {A} (f : tid -> A) t v u, u <> t -> updt f t v u = f u.
Proof. intros. unfold updt. destruct (tid_eqb u t) eqn:E; [apply tid_eqb_eq in E; congruence|reflexivity]. Qed.

(* ---- inversion of one step ------------------------------------------------------ *)

(* turn boolean guards in the context into propositions *)
Ltac norm_guards :=
  repeat match goal with
  | H : _ && _ = true |- _ => apply andb_prop in H; destruct H
  | H : Nat.eqb _ _ = true |- _ => apply (proj1 (Nat.eqb_eq _ _)) in H
  | H : (_ <? _) = true |- _ => apply (proj1 (Nat.ltb_lt _ _)) in H
  | H : negb _ = true |- _ => apply (proj1 (negb_true_iff _)) in H
  | H : bool_eqb _ _ = true |- _ => apply (proj1 (bool_eqb_eq _ _)) in H
  | H : optnat_eqb _ _ = true |- _ => apply (proj1 (optnat_eqb_eq _ _)) in H
  | H : outcome_eqb _ _ = true |- _ => apply (proj1 (outcome_eqb_eq _ _)) in H
  | H : optout_eqb _ _ = true |- _ => apply (proj1 (optout_eqb_eq _ _)) in H
  | H : is_none _ = true |- _ => apply (proj1 (is_none_true _)) in H
  | H : owned_by _ _ _ = true |- _ => apply (proj1 (owned_by_eq _ _ _)) in H
  | H : running _ = false |- _ => apply (proj1 (running_false _)) in H
  end.

(* split [H : <nested ifs and matches> = Some s'] into its successful branches *)
Ltac split_step H :=
  repeat (match type of H with
  | (if ?b then _ else _) = Some _ => let G := fresh "G" in destruct b eqn:G; [|discriminate H]
  | match ?x with _ => _ end = Some _ =>
      let E := fresh "E" in destruct x eqn:E; cbv beta iota in H; try discriminate H
  end).

Ltac inv_step H :=
  match type of H with
  | step ?c ?s ?e = Some ?s' =>
      let t := fresh "t" in let o := fresh "o" in
      destruct e as [t o]; destruct t; cbv beta iota delta [step] in H;
      try discriminate H;
      unfold step_m, step_job, step_c, loop_ev in H;
      split_step H; try discriminate H;
      injection H as H; subst s'; norm_guards; subst
  end.


(* ---- simplification of states after a step ----------------------------------- *)

Lemma tid_eqb_spec : forall a b, reflect (a = b) (tid_eqb a b).
Proof. intros a b. destruct (tid_eqb a b) eqn:E; constructor; [now apply tid_eqb_eq|now apply tid_eqb_neq]. Qed.

Ltac simp := cbn [now inside tbl nlocks owner aw res cp cres jp mp stopp xsub
                  set_now set_inside set_tbl set_owner set_aw set_res set_cp set_cres set_jp set_mp set_stopp set_xsub setj] in *.

Lemma sa_now : forall s i, now (sched_aw s i) = now s. Proof. intros; unfold sched_aw; destruct (aw s i); reflexivity. Qed.
Lemma sa_inside : forall s i, inside (sched_aw s i) = inside s. Proof. intros; unfold sched_aw; destruct (aw s i); reflexivity. Qed.
Lemma sa_tbl : forall s i, tbl (sched_aw s i) = tbl s. Proof. intros; unfold sched_aw; destruct (aw s i); reflexivity. Qed.
Lemma sa_nlocks : forall s i, nlocks (sched_aw s i) = nlocks s. Proof. intros; unfold sched_aw; destruct (aw s i); reflexivity. Qed.
Lemma sa_owner : forall s i, owner (sched_aw s i) = owner s. Proof. intros; unfold sched_aw; destruct (aw s i); reflexivity. Qed.
Lemma sa_res : forall s i, res (sched_aw s i) = res s. Proof. intros; unfold sched_aw; destruct (aw s i); reflexivity. Qed.
Lemma sa_cp : forall s i, cp (sched_aw s i) = cp s. Proof. intros; unfold sched_aw; destruct (aw s i); reflexivity. Qed.
Lemma sa_cres : forall s i, cres (sched_aw s i) = cres s. Proof. intros; unfold sched_aw; destruct (aw s i); reflexivity. Qed.
Lemma sa_jp : forall s i, jp (sched_aw s i) = jp s. Proof. intros; unfold sched_aw; destruct (aw s i); reflexivity. Qed.
Lemma sa_mp : forall s i, mp (sched_aw s i) = mp s. Proof. intros; unfold sched_aw; destruct (aw s i); reflexivity. Qed.
Lemma sa_stopp : forall s i, stopp (sched_aw s i) = stopp s. Proof. intros; unfold sched_aw; destruct (aw s i); reflexivity. Qed.
Lemma sa_xsub : forall s i, xsub (sched_aw s i) = xsub s. Proof. intros; unfold sched_aw; destruct (aw s i); reflexivity. Qed.
Lemma sa_aw : forall s i j, aw (sched_aw s i) j =
  if Nat.eqb j i then match aw s i with AwNew => AwSched | x => x end else aw s j.
Proof.
  intros; unfold sched_aw. destruct (Nat.eqb_spec j i) as [->|N].
  - destruct (aw s i) eqn:E; simpl; rewrite ?upd_same; auto.
  - destruct (aw s i) eqn:E; simpl; rewrite ?upd_other; auto.
Qed.
#[export] Hint Rewrite sa_now sa_inside sa_tbl sa_nlocks sa_owner sa_res sa_cp sa_cres sa_jp sa_mp sa_stopp sa_xsub sa_aw : xl.

Ltac simp2 := simp; autorewrite with xl in *; simp.

Ltac dupd :=
  unfold upd, updt in *;
  repeat match goal with
  | |- context [Nat.eqb ?a ?b] => destruct (Nat.eqb_spec a b)
  | H : context [Nat.eqb ?a ?b] |- _ => destruct (Nat.eqb_spec a b)
  | |- context [tid_eqb ?a ?b] => destruct (tid_eqb_spec a b)
  | H : context [tid_eqb ?a ?b] |- _ => destruct (tid_eqb_spec a b)
  end.

