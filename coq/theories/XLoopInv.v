(* XLoopInv.v — safety invariants of the cross-loop model XLoop.v, by induction over
   ALL accepted event lists (any number of callers, any scripts, any mode). *)
From Coq Require Import List Arith NArith Bool Lia ZifyBool ZifyNat ZifyN.
Import ListNotations.
Require Import Aiuti.XLoop.


(* ---- generic facts about run ------------------------------------------------ *)

Lemma run_from_app : forall c evs1 evs2 s,
  run_from c s (evs1 ++ evs2) =
  match run_from c s evs1 with Some s1 => run_from c s1 evs2 | None => None end.
Proof.
  induction evs1 as [|e r IH]; intros evs2 s; simpl; [reflexivity|].
  destruct (step c s e); [apply IH|reflexivity].
Qed.

Lemma run_snoc : forall c evs e s',
  run c (evs ++ [e]) = Some s' <-> exists s, run c evs = Some s /\ step c s e = Some s'.
Proof.
  intros c evs e s'. unfold run. rewrite run_from_app. split.
  - destruct (run_from c (init c) evs) as [s|] eqn:E; [|discriminate].
    simpl. destruct (step c s e) as [s2|] eqn:E2; [|discriminate].
    intros H. injection H as <-. eauto.
  - intros (s & H1 & H2). rewrite H1. simpl. now rewrite H2.
Qed.

Lemma run_split : forall c pre e post s',
  run c (pre ++ e :: post) = Some s' ->
  exists s0 s1, run c pre = Some s0 /\ step c s0 e = Some s1 /\ run_from c s1 post = Some s'.
Proof.
  intros c pre e post s'. unfold run. rewrite run_from_app.
  destruct (run_from c (init c) pre) as [s0|]; [|discriminate].
  simpl. destruct (step c s0 e) as [s1|] eqn:E; [|discriminate]. eauto.
Qed.

(* induction over accepted logs *)
Lemma run_ind : forall c (P : list event -> state -> Prop),
  P [] (init c) ->
  (forall evs s e s', run c evs = Some s -> P evs s -> step c s e = Some s' -> P (evs ++ [e]) s') ->
  forall evs s, run c evs = Some s -> P evs s.
Proof.
  intros c P H0 HS evs. induction evs as [|e r IH] using rev_ind; intros s H.
  - unfold run in H. simpl in H. injection H as <-. exact H0.
  - apply run_snoc in H as (s0 & H1 & H2). eapply HS; eauto.
Qed.

Definition reachable (c : cfg) (s : state) : Prop := exists evs, run c evs = Some s.

Lemma reach_ind : forall c (P : state -> Prop),
  P (init c) ->
  (forall s e s', reachable c s -> P s -> step c s e = Some s' -> P s') ->
  forall s, reachable c s -> P s.
Proof.
  intros c P H0 HS s [evs H]. revert s H.
  apply (run_ind c (fun _ s => P s)); auto.
  intros evs0 s0 e s' Hr Hp Hs. eapply HS; eauto. now exists evs0.
Qed.

(* ---- small reflection lemmas -------------------------------------------------- *)

Lemma tid_eqb_eq : forall a b, tid_eqb a b = true <-> a = b.
Proof.
  intros a b; destruct a, b; simpl; split; intros H; try discriminate; try reflexivity;
    try (apply Nat.eqb_eq in H; now subst); try (injection H as ->; apply Nat.eqb_refl).
Qed.
Lemma tid_eqb_refl : forall a, tid_eqb a a = true.
Proof. intros a. now apply tid_eqb_eq. Qed.
Lemma tid_eqb_neq : forall a b, tid_eqb a b = false <-> a <> b.
Proof.
  intros a b. split.
  - intros H E. apply tid_eqb_eq in E. congruence.
  - intros H. destruct (tid_eqb a b) eqn:E; [apply tid_eqb_eq in E; contradiction|reflexivity].
Qed.
Lemma tid_eq_dec : forall a b : tid, {a = b} + {a <> b}.
Proof. intros a b. destruct (tid_eqb a b) eqn:E; [left; now apply tid_eqb_eq|right; now apply tid_eqb_neq]. Qed.

Lemma bool_eqb_eq : forall a b, bool_eqb a b = true <-> a = b.
Proof. intros [] []; simpl; split; congruence. Qed.
Lemma optnat_eqb_eq : forall a b, optnat_eqb a b = true <-> a = b.
Proof.
  intros [x|] [y|]; simpl; split; intros H; try discriminate; try reflexivity.
  - apply Nat.eqb_eq in H. now subst.
  - injection H as ->. apply Nat.eqb_refl.
Qed.
Lemma okind_eqb_eq : forall a b, okind_eqb a b = true <-> a = b.
Proof. intros [] []; simpl; split; congruence. Qed.
Lemma outcome_eqb_eq : forall a b, outcome_eqb a b = true <-> a = b.
Proof.
  intros [k1 n1] [k2 n2]. unfold outcome_eqb. simpl. rewrite andb_true_iff, okind_eqb_eq, Nat.eqb_eq.
  split; [intros [-> ->]; reflexivity|intros H; injection H as -> ->; auto].
Qed.
Lemma optout_eqb_eq : forall a b, optout_eqb a b = true <-> a = Some b.
Proof.
  intros [x|] b; simpl; [rewrite outcome_eqb_eq|]; split; intros H; try discriminate; congruence.
Qed.
Lemma is_none_true : forall {A} (o : option A), is_none o = true <-> o = None.
Proof. intros A [x|]; simpl; split; congruence. Qed.
Lemma owned_by_eq : forall s l t, owned_by s l t = true <-> owner s l = Some t.
Proof.
  intros s l t. unfold owned_by. destruct (owner s l) as [u|]; [rewrite tid_eqb_eq|]; split; congruence.
Qed.
Lemma running_false : forall s, running s = false <-> inside s = [].
Proof. intros s. unfold running. destruct (inside s); split; congruence. Qed.

Lemma upd_same : forall {A} (f : nat -> A) i v, upd f i v i = v.
Proof. intros. unfold upd. now rewrite Nat.eqb_refl. Qed.
Lemma upd_other : forall {A} (f : nat -> A) i v j, j <> i -> upd f i v j = f j.
Proof. intros. unfold upd. destruct (Nat.eqb_spec j i); congruence. Qed.
Lemma updt_same : forall {A} (f : tid -> A) t v, updt f t v t = v.
Proof. intros. unfold updt. now rewrite tid_eqb_refl. Qed.
Lemma updt_other : forall {A} (f : tid -> A) t v u, u <> t -> updt f t v u = f u.
Proof. intros. unfold updt. destruct (tid_eqb u t) eqn:E; [apply tid_eqb_eq in E; congruence|reflexivity]. Qed.

(* ---- inversion of one step ------------------------------------------------------ *)

(* turn boolean guards in the context into propositions *)
Ltac norm_guards :=
  repeat match goal with
  | H : _ && _ = true |- _ => apply andb_prop in H; destruct H
  | H : Nat.eqb _ _ = true |- _ => apply (proj1 (Nat.eqb_eq _ _)) in H
  | H : (_ <? _) = true |- _ => apply (proj1 (Nat.ltb_lt _ _)) in H
  | H : negb _ = true |- _ => apply (proj1 (negb_true_iff _)) in H
  | H : bool_eqb _ _ = true |- _ => apply (proj1 (bool_eqb_eq _ _)) in H
  | H : optnat_eqb _ _ = true |- _ => apply (proj1 (optnat_eqb_eq _ _)) in H
  | H : outcome_eqb _ _ = true |- _ => apply (proj1 (outcome_eqb_eq _ _)) in H
  | H : optout_eqb _ _ = true |- _ => apply (proj1 (optout_eqb_eq _ _)) in H
  | H : is_none _ = true |- _ => apply (proj1 (is_none_true _)) in H
  | H : owned_by _ _ _ = true |- _ => apply (proj1 (owned_by_eq _ _ _)) in H
  | H : running _ = false |- _ => apply (proj1 (running_false _)) in H
  end.

(* split [H : <nested ifs and matches> = Some s'] into its successful branches *)
Ltac split_step H :=
  repeat (match type of H with
  | (if ?b then _ else _) = Some _ => let G := fresh "G" in destruct b eqn:G; [|discriminate H]
  | match ?x with _ => _ end = Some _ =>
      let E := fresh "E" in destruct x eqn:E; cbv beta iota in H; try discriminate H
  end).

Ltac inv_step H :=
  match type of H with
  | step ?c ?s ?e = Some ?s' =>
      let t := fresh "t" in let o := fresh "o" in
      destruct e as [t o]; destruct t; cbv beta iota delta [step] in H;
      try discriminate H;
      unfold step_m, step_job, step_c, loop_ev in H;
      split_step H; try discriminate H;
      injection H as H; subst s'; norm_guards; subst
  end.


(* ---- simplification of states after a step ----------------------------------- *)

Lemma tid_eqb_spec : forall a b, reflect (a = b) (tid_eqb a b).
Proof. intros a b. destruct (tid_eqb a b) eqn:E; constructor; [now apply tid_eqb_eq|now apply tid_eqb_neq]. Qed.

Ltac simp := cbn [now inside tbl nlocks owner aw res cp cres jp mp stopp xsub
                  set_now set_inside set_tbl set_owner set_aw set_res set_cp set_cres set_jp set_mp set_stopp set_xsub setj] in *.

Lemma sa_now : forall s i, now (sched_aw s i) = now s. Proof. intros; unfold sched_aw; destruct (aw s i); reflexivity. Qed.
Lemma sa_inside : forall s i, inside (sched_aw s i) = inside s. Proof. intros; unfold sched_aw; destruct (aw s i); reflexivity. Qed.
Lemma sa_tbl : forall s i, tbl (sched_aw s i) = tbl s. Proof. intros; unfold sched_aw; destruct (aw s i); reflexivity. Qed.
Lemma sa_nlocks : forall s i, nlocks (sched_aw s i) = nlocks s. Proof. intros; unfold sched_aw; destruct (aw s i); reflexivity. Qed.
Lemma sa_owner : forall s i, owner (sched_aw s i) = owner s. Proof. intros; unfold sched_aw; destruct (aw s i); reflexivity. Qed.
Lemma sa_res : forall s i, res (sched_aw s i) = res s. Proof. intros; unfold sched_aw; destruct (aw s i); reflexivity. Qed.
Lemma sa_cp : forall s i, cp (sched_aw s i) = cp s. Proof. intros; unfold sched_aw; destruct (aw s i); reflexivity. Qed.
Lemma sa_cres : forall s i, cres (sched_aw s i) = cres s. Proof. intros; unfold sched_aw; destruct (aw s i); reflexivity. Qed.
Lemma sa_jp : forall s i, jp (sched_aw s i) = jp s. Proof. intros; unfold sched_aw; destruct (aw s i); reflexivity. Qed.
Lemma sa_mp : forall s i, mp (sched_aw s i) = mp s. Proof. intros; unfold sched_aw; destruct (aw s i); reflexivity. Qed.
Lemma sa_stopp : forall s i, stopp (sched_aw s i) = stopp s. Proof. intros; unfold sched_aw; destruct (aw s i); reflexivity. Qed.
Lemma sa_xsub : forall s i, xsub (sched_aw s i) = xsub s. Proof. intros; unfold sched_aw; destruct (aw s i); reflexivity. Qed.
Lemma sa_aw : forall s i j, aw (sched_aw s i) j =
  if Nat.eqb j i then match aw s i with AwNew => AwSched | x => x end else aw s j.
Proof.
  intros; unfold sched_aw. destruct (Nat.eqb_spec j i) as [->|N].
  - destruct (aw s i) eqn:E; simpl; rewrite ?upd_same; auto.
  - destruct (aw s i) eqn:E; simpl; rewrite ?upd_other; auto.
Qed.
#[export] Hint Rewrite sa_now sa_inside sa_tbl sa_nlocks sa_owner sa_res sa_cp sa_cres sa_jp sa_mp sa_stopp sa_xsub sa_aw : xl.

Ltac simp2 := simp; autorewrite with xl in *; simp.

Ltac dupd :=
  unfold upd, updt in *;
  repeat match goal with
  | |- context [Nat.eqb ?a ?b] => destruct (Nat.eqb_spec a b)
  | H : context [Nat.eqb ?a ?b] |- _ => destruct (Nat.eqb_spec a b)
  | |- context [tid_eqb ?a ?b] => destruct (tid_eqb_spec a b)
  | H : context [tid_eqb ?a ?b] |- _ => destruct (tid_eqb_spec a b)
  end.


(* ---- the safety invariant ----------------------------------------------------- *)

Definition held (p : jph) : option nat :=
  match p with JCin | JCmk | JCrel _ => Some 0 | JHold l | JRun l | JBad l | JPost l _ => Some l | _ => None end.
Definition lockof (p : jph) : option nat :=
  match p with JCrel l | JAcq l | JHold l | JRun l | JBad l | JPost l _ => Some l | _ => None end.
Definition runsb (s : state) (t : tid) : bool :=
  match t with
  | TJM | TJ _ => match jp s t with JRun _ | JBad _ => true | _ => false end
  | TC i => match cp s i with COwn | COwnDone => true | _ => false end
  | _ => false
  end.
Definition nofail (p : jph) : Prop :=
  match p with JBad _ => False | JPost _ true => False | JRel true => False | _ => True end.

Record Inv (c : cfg) (s : state) : Prop := {
  d_j : forall t, jp s t <> JNone -> t = TJM \/ exists i, t = TJ i /\ i < c_n c;
  d_c : forall i, c_n c <= i -> cp s i = CInit;
  p_m : mp s = MNone \/ mp s = M0 -> jp s TJM = JNone;
  p_c : forall i, jp s (TJ i) <> JNone -> cp s i = CPwait \/ cp s i = CGot \/ cp s i = CDone;
  m_none : match c_mode c with MForever | MRace => mp s <> MNone | _ => mp s = MNone end;
  l_a : forall t l, held (jp s t) = Some l -> owner s l = Some t;
  l_b : forall t l, owner s l = Some t -> held (jp s t) = Some l;
  t_1 : forall t l, lockof (jp s t) = Some l -> tbl s = Some l;
  t_2 : match tbl s with Some l => l = 1 /\ nlocks s = 1 | None => nlocks s = 0 end;
  t_3 : forall t, jp s t = JCmk -> tbl s = None;
  i_1 : forall t, In t (inside s) -> runsb s t = true;
  i_2 : forall t, runsb s t = true -> inside s = [t];
  n_f : forall t, nofail (jp s t);
  o_1 : c_mode c = MOwn -> forall t, jp s t = JNone;
  o_2 : c_mode c = MOwn -> forall i, i <> 0 -> cp s i <> CInit -> cp s i <> CDone -> runsb s (TC 0) = true;
  o_3 : forall i, c_mode c <> MOwn \/ i <> 0 -> cp s i <> COwn /\ cp s i <> COwnDone;
  o_5 : c_mode c = MOwn -> forall i, cp s i <> CPsub /\ cp s i <> CPwait /\ cp s i <> CClosedP;
  c_1 : c_mode c = MClosed -> inside s = [] /\ (forall t, jp s t = JNone) /\
        (forall i, cp s i = CInit \/ cp s i = CBegun \/ cp s i = CClosedP \/ cp s i = CDone);
  c_2 : forall i, cp s i = CClosedP -> c_mode c = MClosed;
  r_1 : forall i, match aw s i with AwFin => res s i = Some (expected c i) | _ => res s i = None end;
  r_2 : forall i, cp s i = CGot -> cres s i = Some (expected c i);
  r_3 : forall i, (exists l, jp s (TJ i) = JPost l false) \/ jp s (TJ i) = JRel false -> aw s i = AwFin
}.

Lemma Inv_init : forall c, Inv c (init c).
Proof.
  intros c. constructor; simpl; intros; try congruence; auto; try tauto.
  all: try (destruct (c_mode c); congruence).
  all: try (destruct (c_form c i); reflexivity).
  all: try (destruct H as [[l H]|H]; discriminate).
  all: try (repeat split; auto; discriminate).
  destruct t; simpl in H; discriminate.
Qed.

(* rewrite the known phases everywhere *)
Ltac rw_phases :=
  repeat match goal with
  | E : jp ?s ?t = _ |- context [jp ?s ?t] => rewrite E
  | E : jp ?s ?t = _, H : context [jp ?s ?t] |- _ => lazymatch H with E => fail | _ => rewrite E in H end
  | E : cp ?s ?t = _ |- context [cp ?s ?t] => rewrite E
  | E : cp ?s ?t = _, H : context [cp ?s ?t] |- _ => lazymatch H with E => fail | _ => rewrite E in H end
  | E : mp ?s = _ |- context [mp ?s] => rewrite E
  | E : mp ?s = _, H : context [mp ?s] |- _ => lazymatch H with E => fail | _ => rewrite E in H end
  | E : aw ?s ?t = _ |- context [aw ?s ?t] => rewrite E
  | E : aw ?s ?t = _, H : context [aw ?s ?t] |- _ => lazymatch H with E => fail | _ => rewrite E in H end
  | E : tbl ?s = _ |- context [tbl ?s] => rewrite E
  | E : tbl ?s = _, H : context [tbl ?s] |- _ => lazymatch H with E => fail | _ => rewrite E in H end
  | E : inside ?s = _ |- context [inside ?s] => rewrite E
  | E : inside ?s = _, H : context [inside ?s] |- _ => lazymatch H with E => fail | _ => rewrite E in H end
  end.

Ltac fwd := repeat match goal with
  | H1 : ?P -> _, H2 : ?P |- _ =>
      lazymatch type of P with Prop => specialize (H1 H2) | _ => fail end
  | H1 : ?P -> _ |- _ =>
      lazymatch type of P with Prop => idtac | _ => fail end;
      let Hp := fresh in
      assert (Hp : P) by (clear H1; solve [discriminate | congruence | lia | auto]);
      specialize (H1 Hp); clear Hp
  end.
Ltac inst_nat H :=
  repeat match goal with
  | x : nat |- _ => let T := type of (H x) in
                    lazymatch goal with | _ : T |- _ => fail | _ => pose proof (H x) end
  end;
  (let T := type of (H 0) in lazymatch goal with | _ : T |- _ => idtac | _ => pose proof (H 0) end).
Ltac inst_tid H :=
  repeat match goal with
  | x : tid |- _ => let T := type of (H x) in
                    lazymatch goal with | _ : T |- _ => fail | _ => pose proof (H x) end
  | x : nat |- _ => let T := type of (H (TJ x)) in
                    lazymatch goal with | _ : T |- _ => fail | _ => pose proof (H (TJ x)) end
  | x : nat |- _ => let T := type of (H (TC x)) in
                    lazymatch goal with | _ : T |- _ => fail | _ => pose proof (H (TC x)) end
  end;
  (let T := type of (H TJM) in lazymatch goal with | _ : T |- _ => idtac | _ => pose proof (H TJM) end);
  (let T := type of (H (TC 0)) in lazymatch goal with | _ : T |- _ => idtac | _ => pose proof (H (TC 0)) end).
Ltac brk := repeat match goal with
  | H : _ /\ _ |- _ => destruct H
  | H : exists _, _ |- _ => destruct H
  | H : _ \/ _ |- _ => destruct H
  end.
Ltac tid_inj :=
  repeat match goal with
  | H : TJ _ = TJ _ |- _ => injection H as H
  | H : TC _ = TC _ |- _ => injection H as H
  | H : TJ ?a <> TJ ?b |- _ => assert (a <> b) by (intro; apply H; congruence); clear H
  | H : TC ?a <> TC ?b |- _ => assert (a <> b) by (intro; apply H; congruence); clear H
  | H : ?a = ?a |- _ => clear H
  end.
Ltac finish := intros; dupd; tid_inj; subst; rw_phases; fwd; rw_phases; brk; subst; simpl in *;
  try congruence; try lia; eauto.

Ltac fw2 L := repeat match goal with H : _ |- _ =>
  let T := type of (L _ _ H) in lazymatch goal with _ : T |- _ => fail | _ => pose proof (L _ _ H) end end.
Ltac fw1 L := repeat match goal with H : _ |- _ =>
  let T := type of (L _ H) in lazymatch goal with _ : T |- _ => fail | _ => pose proof (L _ H) end end.
Ltac gen_held := repeat match goal with E : jp ?s ?t = ?P |- _ =>
  let h := eval cbn in (held P) in
  lazymatch h with
  | Some ?l => lazymatch goal with
               | _ : held (jp s t) = Some l |- _ => fail
               | _ => assert (held (jp s t) = Some l) by (rewrite E; reflexivity)
               end
  | _ => fail
  end end.
Ltac gen_lockof := repeat match goal with E : jp ?s ?t = ?P |- _ =>
  let h := eval cbn in (lockof P) in
  lazymatch h with
  | Some ?l => lazymatch goal with
               | _ : lockof (jp s t) = Some l |- _ => fail
               | _ => assert (lockof (jp s t) = Some l) by (rewrite E; reflexivity)
               end
  | _ => fail
  end end.

(* a pool thread that holds L's lock and is about to run L finds it idle *)
Lemma hold_idle : forall c s u l, Inv c s -> jp s u = JHold l -> inside s = [].
Proof.
  intros c s u l HI E.
  destruct (inside s) as [|t r] eqn:Ei; [reflexivity|exfalso].
  pose proof (i_1 _ _ HI t) as I1. rewrite Ei in I1. specialize (I1 (or_introl eq_refl)).
  pose proof (l_a _ _ HI) as La. pose proof (t_1 _ _ HI) as T1.
  assert (Hu : owner s l = Some u) by (apply La; rewrite E; reflexivity).
  assert (Tu : tbl s = Some l) by (apply (T1 u); rewrite E; reflexivity).
  assert (J : forall t', t' = TJM \/ (exists i, t' = TJ i) -> runsb s t' = true -> False).
  { intros t' Ht' R.
    assert (exists l', (jp s t' = JRun l' \/ jp s t' = JBad l')) as (l' & Hl').
    { destruct Ht' as [->|[i ->]]; simpl in R.
      - destruct (jp s TJM) eqn:Ej; try discriminate; eauto.
      - destruct (jp s (TJ i)) eqn:Ej; try discriminate; eauto. }
    assert (held (jp s t') = Some l') by (destruct Hl' as [-> | ->]; reflexivity).
    assert (lockof (jp s t') = Some l') by (destruct Hl' as [-> | ->]; reflexivity).
    assert (l' = l) by (pose proof (T1 _ _ H0); congruence). subst l'.
    assert (t' = u) by (pose proof (La _ _ H); congruence). subst t'.
    destruct Hl'; congruence. }
  destruct t; simpl in I1; try discriminate.
  - apply (J TJM); auto.
  - destruct (o_3 _ _ HI i) as [N1 N2].
    + destruct (c_mode c) eqn:Em; try (left; congruence).
      destruct i; [|right; congruence].
      pose proof (o_1 _ _ HI Em u). congruence.
    + destruct (cp s i); try discriminate; congruence.
  - apply (J (TJ i)); eauto.
Qed.

Lemma unspawned_c : forall c s i, Inv c s -> cp s i = CPsub -> jp s (TJ i) = JNone.
Proof.
  intros c s i HI E. destruct (jp s (TJ i)) eqn:Ej; auto.
  all: destruct (p_c _ _ HI i) as [H|[H|H]]; congruence.
Qed.
Lemma unspawned_m : forall c s, Inv c s -> mp s = M0 -> jp s TJM = JNone.
Proof. intros c s HI E. apply (p_m _ _ HI). auto. Qed.
Ltac gen_unspawned HI := repeat match goal with
  | E : cp ?s ?i = CPsub |- _ =>
      lazymatch goal with
      | _ : jp s (TJ i) = JNone |- _ => fail
      | _ => pose proof (unspawned_c _ _ _ HI E)
      end
  | E : mp ?s = M0 |- _ =>
      lazymatch goal with
      | _ : jp s TJM = JNone |- _ => fail
      | _ => pose proof (unspawned_m _ _ HI E)
      end
  end.

Lemma own_running : forall c s, Inv c s -> c_mode c = MOwn -> running s = true -> runsb s (TC 0) = true.
Proof.
  intros c s HI Em R. unfold running in R. destruct (inside s) as [|t r] eqn:Ei; [discriminate|].
  pose proof (i_1 _ _ HI t) as I1. rewrite Ei in I1. specialize (I1 (or_introl eq_refl)).
  destruct t; simpl in I1; try discriminate.
  - rewrite (o_1 _ _ HI Em) in I1. discriminate.
  - destruct i; [exact I1|].
    destruct (o_3 _ _ HI (S i)) as [N1 N2]; [right; congruence|].
    destruct (cp s (S i)); try discriminate; congruence.
  - rewrite (o_1 _ _ HI Em) in I1. discriminate.
Qed.

Lemma others_completed_spec : forall c s i, others_completed c s i = true ->
  forall k, k < c_n c -> k <> i -> completedb s k = true.
Proof.
  intros c s i H k Hk Hn. unfold others_completed in H. rewrite forallb_forall in H.
  specialize (H k). rewrite in_seq in H. specialize (H ltac:(lia)).
  apply orb_prop in H as [H|H]; auto. apply Nat.eqb_eq in H. congruence.
Qed.
Lemma all_completed_spec : forall c s, all_completed c s = true ->
  forall k, k < c_n c -> completedb s k = true.
Proof.
  intros c s H k Hk. unfold all_completed in H. rewrite forallb_forall in H.
  apply H. apply in_seq. lia.
Qed.

Lemma remove_tid_single : forall t, remove_tid t [t] = [].
Proof. intros t. simpl. now rewrite tid_eqb_refl. Qed.

Ltac fold_runs s :=
  repeat match goal with
  | H : context [jp s ?t] |- _ =>
      lazymatch type of H with
      | runsb _ _ = true => fail
      | _ = true => change (runsb s t = true) in H
      end
  | H : context [cp s ?i] |- _ =>
      lazymatch type of H with
      | runsb _ _ = true => fail
      | _ = true => change (runsb s (TC i) = true) in H
      end
  end.
(* the acting thread's own phase tells whether it is inside the loop *)
Ltac gen_runs I2 := repeat match goal with
  | E : jp ?s ?t = JRun ?l |- _ =>
      lazymatch goal with
      | _ : inside s = [t] |- _ => fail
      | _ => assert (inside s = [t]) by (apply I2; simpl; rewrite E; reflexivity)
      end
  | E : jp ?s ?t = JBad ?l |- _ =>
      lazymatch goal with
      | _ : inside s = [t] |- _ => fail
      | _ => assert (inside s = [t]) by (apply I2; simpl; rewrite E; reflexivity)
      end
  | E : cp ?s ?i = COwn |- _ =>
      lazymatch goal with
      | _ : inside s = [TC i] |- _ => fail
      | _ => assert (inside s = [TC i]) by (apply I2; simpl; rewrite E; reflexivity)
      end
  | E : cp ?s ?i = COwnDone |- _ =>
      lazymatch goal with
      | _ : inside s = [TC i] |- _ => fail
      | _ => assert (inside s = [TC i]) by (apply I2; simpl; rewrite E; reflexivity)
      end
  end.
Ltac gen_idle HI := repeat match goal with
  | E : jp ?s ?t = JHold ?l |- _ =>
      lazymatch goal with
      | _ : inside s = [] |- _ => fail
      | _ => pose proof (hold_idle _ _ _ _ HI E)
      end
  end.
Ltac mode_guard := repeat match goal with
  | H : match c_mode ?c with _ => _ end = true |- _ => destruct (c_mode c) eqn:?; try discriminate H
  end; norm_guards; subst.
Ltac running_contra := try match goal with
  | G : running ?s = true, Hi : inside ?s = [] |- _ => unfold running in G; rewrite Hi in G; discriminate G
  end.

Section Step.
Variables (c : cfg) (s : state).
Hypothesis HI : Inv c s.

Lemma s_d_j : forall e s', step c s e = Some s' ->
  forall t, jp s' t <> JNone -> t = TJM \/ exists i, t = TJ i /\ i < c_n c.
Proof.
  intros e s' H. pose proof (d_j _ _ HI) as Dj. inv_step H; simp2.
  all: try assumption.
  all: finish.
Qed.

Lemma s_d_c : forall e s', step c s e = Some s' -> forall i, c_n c <= i -> cp s' i = CInit.
Proof.
  intros e s' H. pose proof (d_c _ _ HI) as Dc. inv_step H; simp2.
  all: try assumption.
  all: finish; try lia.
Qed.

Lemma s_p_m : forall e s', step c s e = Some s' -> mp s' = MNone \/ mp s' = M0 -> jp s' TJM = JNone.
Proof.
  intros e s' H. pose proof (p_m _ _ HI) as Pm. inv_step H; simp2.
  all: try assumption.
  all: finish.
  all: try (destruct H; congruence).
Qed.

Lemma s_p_c : forall e s', step c s e = Some s' ->
  forall i, jp s' (TJ i) <> JNone -> cp s' i = CPwait \/ cp s' i = CGot \/ cp s' i = CDone.
Proof.
  intros e s' H. pose proof (p_c _ _ HI) as Pc. inv_step H; simp2.
  all: try assumption.
  all: try solve [finish].
  all: intros; inst_nat Pc; finish.
Qed.

Lemma s_m_none : forall e s', step c s e = Some s' ->
  match c_mode c with MForever | MRace => mp s' <> MNone | _ => mp s' = MNone end.
Proof.
  intros e s' H. pose proof (m_none _ _ HI) as Mn. inv_step H; simp2.
  all: try assumption.
  all: destruct (c_mode c); congruence.
Qed.

Ltac pose_locks :=
  pose proof (l_a _ _ HI) as La; pose proof (l_b _ _ HI) as Lb; pose proof (t_1 _ _ HI) as T1;
  pose proof (t_2 _ _ HI) as T2; pose proof (t_3 _ _ HI) as T3; pose proof (p_m _ _ HI) as Pm;
  pose proof (p_c _ _ HI) as Pc.

Ltac locks_tac La Lb T1 T3 := intros; dupd; tid_inj; subst; gen_held; gen_lockof; fw2 La; fw2 Lb; fw2 T1; fw1 T3; finish.

Lemma s_l_a : forall e s', step c s e = Some s' ->
  forall t l, held (jp s' t) = Some l -> owner s' l = Some t.
Proof.
  intros e s' H. pose_locks. inv_step H; simp2.
  all: try assumption.
  all: try solve [finish].
  all: locks_tac La Lb T1 T3.
Qed.

Lemma s_l_b : forall e s', step c s e = Some s' ->
  forall t l, owner s' l = Some t -> held (jp s' t) = Some l.
Proof.
  intros e s' H. pose_locks. inv_step H; simp2.
  all: try assumption.
  all: try solve [finish].
  all: try solve [locks_tac La Lb T1 T3].
  all: intros; dupd; tid_inj; subst; fw2 Lb; inst_nat Pc;
    match goal with H : held (jp s ?t) = _ |- _ => destruct (jp s t) eqn:?; finish end.
Qed.

Lemma s_t_1 : forall e s', step c s e = Some s' ->
  forall t l, lockof (jp s' t) = Some l -> tbl s' = Some l.
Proof.
  intros e s' H. pose_locks. inv_step H; simp2.
  all: try assumption.
  all: try solve [finish].
  all: locks_tac La Lb T1 T3.
Qed.

Lemma s_t_2 : forall e s', step c s e = Some s' ->
  match tbl s' with Some l => l = 1 /\ nlocks s' = 1 | None => nlocks s' = 0 end.
Proof.
  intros e s' H. pose_locks. inv_step H; simp2.
  all: try assumption.
  all: try solve [finish].
  all: locks_tac La Lb T1 T3.
Qed.

Lemma s_t_3 : forall e s', step c s e = Some s' -> forall t, jp s' t = JCmk -> tbl s' = None.
Proof.
  intros e s' H. pose_locks. inv_step H; simp2.
  all: try assumption.
  all: try solve [finish].
  all: locks_tac La Lb T1 T3.
  Qed.

Lemma s_i_2 : forall e s', step c s e = Some s' -> forall t, runsb s' t = true -> inside s' = [t].
Proof.
  intros e s' H. pose proof (i_1 _ _ HI) as I1. pose proof (i_2 _ _ HI) as I2.
  inv_step H; simp2.
  all: try assumption.
  all: gen_idle HI; running_contra; gen_runs I2; mode_guard.
  all: intros t Hr; destruct t; unfold runsb in Hr; simp2; try discriminate Hr.
  all: dupd; tid_inj; subst; fold_runs s; fw1 I2; rw_phases; simpl in *; try discriminate; rewrite ?tid_eqb_refl; try reflexivity.
  all: try congruence.
Qed.

Lemma s_i_1 : forall e s', step c s e = Some s' -> forall t, In t (inside s') -> runsb s' t = true.
Proof.
  intros e s' H. pose proof (i_1 _ _ HI) as I1. pose proof (i_2 _ _ HI) as I2.
  inv_step H; simp2.
  all: try assumption.
  all: gen_idle HI; running_contra; gen_runs I2; mode_guard.
  all: gen_unspawned HI.
  all: intros t Hr; simp2; rw_phases; rewrite ?remove_tid_single in Hr; simpl in Hr; try contradiction.
  all: try (destruct Hr as [<-|[]]; unfold runsb; simp2; rewrite ?updt_same, ?upd_same; reflexivity).
  all: try (pose proof (I1 _ Hr) as R; destruct t; unfold runsb in *; simp2; try discriminate R;
            dupd; tid_inj; subst; rw_phases; simpl in *; congruence).
Qed.

Lemma s_n_f : forall e s', step c s e = Some s' -> forall t, nofail (jp s' t).
Proof.
  intros e s' H. pose proof (n_f _ _ HI) as Nf.
  inv_step H; simp2.
  all: try assumption.
  all: gen_idle HI; running_contra.
  all: intros t; specialize (Nf t); dupd; tid_inj; subst; rw_phases; simpl in *; auto.
Qed.

Lemma s_o_3 : forall e s', step c s e = Some s' ->
  forall i, c_mode c <> MOwn \/ i <> 0 -> cp s' i <> COwn /\ cp s' i <> COwnDone.
Proof.
  intros e s' H. pose proof (o_3 _ _ HI) as O3.
  inv_step H; simp2.
  all: try assumption.
  all: mode_guard.
  all: intros k Hk; specialize (O3 k Hk); dupd; tid_inj; subst; rw_phases; simpl in *; try (split; congruence); auto.
  all: exfalso; brk; congruence.
Qed.

Lemma s_o_5 : forall e s', step c s e = Some s' ->
  c_mode c = MOwn -> forall i, cp s' i <> CPsub /\ cp s' i <> CPwait /\ cp s' i <> CClosedP.
Proof.
  intros e s' H Em. pose proof (o_5 _ _ HI Em) as O5. pose proof (o_2 _ _ HI Em) as O2.
  pose proof (i_2 _ _ HI) as I2.
  inv_step H; simp2.
  all: try assumption.
  all: try (rewrite Em in *; try discriminate).
  all: norm_guards.
  all: intros k; pose proof (O5 k); dupd; tid_inj; subst; rw_phases; simpl in *; try (repeat split; congruence); auto.
  all: exfalso; try (destruct (O5 i) as (?&?&?); congruence).
  all: assert (R : runsb s (TC 0) = true) by (apply (O2 i); congruence).
  all: apply I2 in R; unfold running in *; rewrite R in *; discriminate.
Qed.

Lemma s_o_1 : forall e s', step c s e = Some s' -> c_mode c = MOwn -> forall t, jp s' t = JNone.
Proof.
  intros e s' H Em. pose proof (o_1 _ _ HI Em) as O1. pose proof (o_5 _ _ HI Em) as O5.
  pose proof (m_none _ _ HI) as Mn. rewrite Em in Mn.
  inv_step H; simp2.
  all: try assumption.
  all: try congruence.
  all: try (pose proof (O1 TJM); congruence).
  all: try (pose proof (O1 (TJ i)); congruence).
  all: try (destruct (O5 i) as (?&?&?); congruence).
Qed.

Lemma s_o_2 : forall e s', step c s e = Some s' -> c_mode c = MOwn ->
  forall i, i <> 0 -> cp s' i <> CInit -> cp s' i <> CDone -> runsb s' (TC 0) = true.
Proof.
  intros e s' H Em. pose proof (o_2 _ _ HI Em) as O2. pose proof (o_1 _ _ HI Em) as O1.
  pose proof (o_3 _ _ HI) as O3. pose proof (d_c _ _ HI) as Dc.
  pose proof (i_1 _ _ HI) as I1.
  inv_step H; simp2.
  all: try assumption.
  all: try (pose proof (O1 TJM); congruence).
  all: try (pose proof (O1 (TJ i)); congruence).
  all: try (rewrite Em in *; try discriminate).
  all: norm_guards.
  all: unfold runsb in *; simp2.
  all: try (pose proof (own_running _ _ HI Em) as Orun; unfold runsb in Orun).
  all: intros k K1 K2 K3; pose proof (O2 k K1); dupd; tid_inj; subst; rw_phases; simpl in *; try congruence; auto.
  all: fwd; try assumption; try congruence.
  exfalso. destruct (Nat.lt_ge_cases k (c_n c)) as [Hk|Hk]; [|apply K2; auto].
  pose proof (others_completed_spec _ _ _ G0 k Hk n) as Hc. unfold completedb in Hc.
  destruct (O3 k) as [N1 N2]; auto.
  destruct (cp s k); try discriminate; congruence.
Qed.

Lemma s_c_2 : forall e s', step c s e = Some s' -> forall i, cp s' i = CClosedP -> c_mode c = MClosed.
Proof.
  intros e s' H. pose proof (c_2 _ _ HI) as C2.
  inv_step H; simp2.
  all: try assumption.
  all: intros k Hk; pose proof (C2 k); dupd; tid_inj; subst; rw_phases; simpl in *; try congruence; auto.
Qed.

Lemma s_c_1 : forall e s', step c s e = Some s' -> c_mode c = MClosed ->
  inside s' = [] /\ (forall t, jp s' t = JNone) /\
  (forall i, cp s' i = CInit \/ cp s' i = CBegun \/ cp s' i = CClosedP \/ cp s' i = CDone).
Proof.
  intros e s' H Em. destruct (c_1 _ _ HI Em) as (C1 & C1j & C1c).
  pose proof (m_none _ _ HI) as Mn. rewrite Em in Mn.
  inv_step H; simp2.
  all: try (split; [|split]; assumption).
  all: try congruence.
  all: try (pose proof (C1j TJM); congruence).
  all: try (pose proof (C1j (TJ i)); congruence).
  all: try (rewrite Em in *; try discriminate).
  all: try (destruct (C1c i) as [?|[?|[?|?]]]; congruence).
  all: norm_guards; unfold running in *; try (rewrite C1 in *; discriminate).
  all: (split; [|split]; try assumption).
  all: intros k; pose proof (C1c k); dupd; tid_inj; subst; rw_phases; simpl in *; auto.
Qed.

Lemma s_r_1 : forall e s', step c s e = Some s' ->
  forall i, match aw s' i with AwFin => res s' i = Some (expected c i) | _ => res s' i = None end.
Proof.
  intros e s' H. pose proof (r_1 _ _ HI) as R1.
  inv_step H; simp2.
  all: try assumption.
  all: intros k; simp2; pose proof (R1 k); dupd; tid_inj; subst; rw_phases; simpl in *; try congruence; auto.
  all: try (destruct (aw s k); auto; fail).
  all: match goal with |- context [aw s ?j] => destruct (aw s j); auto end.
Qed.

Lemma s_r_3 : forall e s', step c s e = Some s' ->
  forall i, (exists l, jp s' (TJ i) = JPost l false) \/ jp s' (TJ i) = JRel false -> aw s' i = AwFin.
Proof.
  intros e s' H. pose proof (r_3 _ _ HI) as R3.
  inv_step H; simp2.
  all: try assumption.
  all: intros k Hk; simp2; pose proof (R3 k); dupd; tid_inj; subst; rw_phases; simpl in *; try congruence; auto.
  all: fwd; try congruence.
  all: try (brk; congruence).
  all: try (destruct Hk as [[? Hk]|Hk]; [discriminate|]; injection Hk as ->; apply H; eauto; fail).
  all: try (match goal with |- context [aw s ?j] => destruct (aw s j); auto; try congruence end).
Qed.

Lemma s_r_2 : forall e s', step c s e = Some s' -> forall i, cp s' i = CGot -> cres s' i = Some (expected c i).
Proof.
  intros e s' H. pose proof (r_2 _ _ HI) as R2. pose proof (r_1 _ _ HI) as R1. pose proof (r_3 _ _ HI) as R3.
  pose proof (n_f _ _ HI) as Nf.
  inv_step H; simp2.
  all: try assumption.
  all: intros k Hk; simp2; pose proof (R2 k); pose proof (R1 k); dupd; tid_inj; subst; rw_phases; simpl in *; try congruence; auto.
  - exfalso. pose proof (Nf (TJ i)) as N. rewrite E in N. exact N.
  - assert (A : aw s i = AwFin) by (apply R3; auto). rewrite A in H0. exact H0.
Qed.
End Step.

Lemma Inv_step : forall c s e s', Inv c s -> step c s e = Some s' -> Inv c s'.
Proof.
  intros c s e s' HI H. constructor.
  - eapply s_d_j; eauto.
  - eapply s_d_c; eauto.
  - eapply s_p_m; eauto.
  - eapply s_p_c; eauto.
  - eapply s_m_none; eauto.
  - eapply s_l_a; eauto.
  - eapply s_l_b; eauto.
  - eapply s_t_1; eauto.
  - eapply s_t_2; eauto.
  - eapply s_t_3; eauto.
  - eapply s_i_1; eauto.
  - eapply s_i_2; eauto.
  - eapply s_n_f; eauto.
  - eapply s_o_1; eauto.
  - eapply s_o_2; eauto.
  - eapply s_o_3; eauto.
  - eapply s_o_5; eauto.
  - eapply s_c_1; eauto.
  - eapply s_c_2; eauto.
  - eapply s_r_1; eauto.
  - eapply s_r_2; eauto.
  - eapply s_r_3; eauto.
Qed.

Lemma Inv_reach : forall c s, reachable c s -> Inv c s.
Proof.
  intros c. apply reach_ind; [apply Inv_init|]. intros s e s' _ HI H. eapply Inv_step; eauto.
Qed.
