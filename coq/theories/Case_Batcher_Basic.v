(* Case_Batcher_Basic.v — the basic monitor [ok_basic] of Case_Batcher.v (a conjunct
   of ok_C04, ok_C10 and ok_C11) is
   * COMPLETE: it accepts the canonical trace of the model for ALL configurations
     (max_batch_size, max_concurrent_batches >= 1) and ALL event lists
     ([ok_basic_complete]) — it can never raise a false alarm on a case on which the
     implementation agrees with the model;
   * SOUND: acceptance of an observed trace implies, per macro step: no TaskDied, no
     caller completing twice, every batch non-empty and without a repeated key
     ([ok_basic_sound]). *)
From Coq Require Import List Arith NArith Bool Lia Permutation.
Import ListNotations.
Require Import Aiuti.CaseLib Aiuti.Batcher Aiuti.BatcherLimits Aiuti.BatcherTime Aiuti.BatcherInv Aiuti.BatcherProps
               Aiuti.BatcherBasic Aiuti.Case_Batcher Aiuti.Case_Batcher_Sound.

(* ---- the canonical order of a macro step's observations ------------------------------- *)

Lemma insert_perm o l : Permutation (insert_done o l) (o :: l).
Proof.
  induction l as [|x r IH]; simpl; auto. destruct (done_id o <? done_id x); auto.
  eapply perm_trans; [apply perm_skip, IH | apply perm_swap].
Qed.

Lemma sort_perm l : Permutation (fold_right insert_done [] l) l.
Proof.
  induction l as [|x r IH]; simpl; auto. eapply perm_trans; [apply insert_perm | now apply perm_skip].
Qed.

Lemma in_canon x os : In x (canon os) -> In x os.
Proof.
  unfold canon. intros H. apply in_app_or in H as [H|H]; [now apply filter_In in H|].
  apply in_app_or in H as [H|H]; [|now apply filter_In in H].
  apply (Permutation_in _ (sort_perm _)) in H. now apply filter_In in H.
Qed.

Lemma filter_perm {A} (f : A -> bool) l l' : Permutation l l' -> Permutation (filter f l) (filter f l').
Proof.
  induction 1; simpl; auto.
  - destruct (f x); auto.
  - destruct (f x), (f y); auto. apply perm_swap.
  - eapply perm_trans; eauto.
Qed.

Lemma done_ids_perm l l' : Permutation l l' -> Permutation (done_ids l) (done_ids l').
Proof. intros H. unfold done_ids. apply Permutation_map. now apply filter_perm. Qed.

Lemma filter_filter_done os : filter is_done_obs (filter is_done_obs os) = filter is_done_obs os.
Proof. induction os as [|x r IH]; simpl; auto. destruct (is_done_obs x) eqn:E; simpl; rewrite ?E, IH; auto. Qed.

Lemma done_ids_none (f : obs -> bool) os : (forall x, f x = true -> is_done_obs x = false) -> done_ids (filter f os) = [].
Proof.
  intros H. unfold done_ids. induction os as [|x r IH]; simpl; auto.
  destruct (f x) eqn:E; auto. simpl. rewrite (H x E). exact IH.
Qed.

Lemma done_ids_canon os : Permutation (done_ids (canon os)) (done_ids os).
Proof.
  unfold canon. rewrite !done_ids_app.
  rewrite (done_ids_none is_start) by (intros [] H; simpl in *; congruence).
  rewrite (done_ids_none is_died) by (intros [] H; simpl in *; congruence).
  rewrite app_nil_r. simpl.
  eapply perm_trans; [apply done_ids_perm, sort_perm|].
  unfold done_ids. now rewrite filter_filter_done.
Qed.

Lemma dones_ids os : map (fun d => fst (fst d)) (dones_of os) = done_ids os.
Proof.
  unfold done_ids. induction os as [|x r IH]; simpl; auto. destruct x; simpl; rewrite ?IH; auto.
Qed.

Lemma NoDup_nodup_nat l : NoDup l -> nodup_nat l = true.
Proof.
  induction 1 as [|x r Hn ND IH]; simpl; auto. rewrite IH, andb_true_r.
  destruct (memb x r) eqn:E; auto. apply memb_In in E. contradiction.
Qed.

(* ---- completeness ------------------------------------------------------------------------------- *)

Lemma basic_complete_from c evs : forall s,
  Forall ev_ok evs -> LInv c s -> Fifo s -> TInv c s -> KInv c s ->
  basic_run (now s) evs (map canon (fst (run_from c s evs))) = true.
Proof.
  induction evs as [|e r IH]; intros s He I F T K; simpl; auto.
  inversion He as [|? ? H1 H2]; subst.
  destruct (step_LF c s e H1 I F) as [I1 F1]. pose proof (step_T c s e I F T) as T1.
  destruct (step_K c s e I F K) as [K1 N1].
  destruct (step_clock c s e) as [_ Hnow].
  pose proof (step_done_times c s e) as Hdt. pose proof (step_DD c s e) as Hdd.
  destruct (step_ST c s e) as [_ Hst]. destruct (step_emits c s e) as (new & Hnew & Hem).
  destruct (step c s e) as [s1 os]. simpl in *.
  specialize (IH s1 H2 I1 F1 T1 K1). destruct (run_from c s1 r) as [tr s2]. simpl in *.
  assert (Enow : match e with Advance dt => (now s + dt)%N | _ => now s end = now s1).
  { rewrite Hnow. destruct e; simpl; lia. }
  rewrite Enow, IH, andb_true_r.
  repeat (apply andb_true_intro; split).
  - apply negb_true_iff. destruct (existsb is_died (canon os)) eqn:E; auto.
    apply existsb_exists in E as (x & Hx & Ex). destruct x; try discriminate.
    exfalso. apply N1. now apply in_canon.
  - apply forallb_forall. intros [[i o] t] Hin. apply in_dones_of in Hin. apply in_canon in Hin.
    destruct (Hdt i o t Hin) as [-> Ha]. simpl. apply N.eqb_eq. rewrite Hnow.
    destruct e; simpl in *; try discriminate; lia.
  - apply NoDup_nodup_nat. rewrite dones_ids.
    eapply Permutation_NoDup; [apply Permutation_sym, done_ids_canon | exact Hdd].
  - apply forallb_forall. intros [[b items] t] Hin. apply in_starts_of in Hin. apply in_canon in Hin.
    unfold start_basic.
    assert (Hf : In (BatchStart b items t) (filter is_start os)) by (apply filter_In; auto).
    rewrite Hem in Hf. apply in_map_iff in Hf as ([[b' its] t'] & E & Hin'). simpl in E. injection E as <- <- <-.
    assert (Hg : In (b', its, t') (g_started s1)) by (rewrite Hnew; apply in_or_app; now right).
    destruct (L_ssz _ _ I1 _ _ _ Hg) as [Hne Hle]. destruct K1 as (S1 & _).
    pose proof (S_kst _ S1 _ _ _ Hg) as Hk.
    repeat (apply andb_true_intro; split).
    + apply Nat.leb_le. rewrite map_length. destruct its; simpl; [congruence|lia].
    + apply NoDup_nodup_nat. rewrite map_map. exact Hk.
    + apply N.leb_le. eapply Hst; eauto.
Qed.

Lemma ok_basic_complete c evs w :
  cfg_ok c -> Forall ev_ok evs -> ok_basic (BCase c evs (map canon (fst (run c evs))) w) = true.
Proof.
  intros Hc He. simpl. destruct (init_LF c Hc) as [I0 F0].
  apply (basic_complete_from c evs (init c)); auto; [apply init_T | apply init_K].
Qed.

(* ---- soundness ------------------------------------------------------------------------------------ *)

Lemma basic_sound : forall evs observed now,
  basic_run now evs observed = true ->
  forall os, In os observed ->
    ~ In TaskDied os /\ NoDup (map (fun d => fst (fst d)) (dones_of os)) /\
    forall b items t, In (BatchStart b items t) os -> 1 <= length items /\ NoDup (map fst items).
Proof.
  induction evs as [|e er IH]; intros [|os or] now H; simpl in H; try discriminate; [intros ? []|].
  repeat (apply andb_prop in H as [H ?]).
  intros os' [<-|Hin]; [|eauto].
  split; [|split].
  - intros Hd. apply negb_true_iff in H.
    assert (existsb is_died os = true) by (apply existsb_exists; exists TaskDied; auto). congruence.
  - now apply nodup_nat_NoDup.
  - intros b items t Hs. apply in_starts_of in Hs.
    match goal with Hf : forallb (start_basic _) _ = true |- _ =>
      rewrite forallb_forall in Hf; pose proof (Hf _ Hs) as Hb end.
    unfold start_basic in Hb. apply andb_prop in Hb as [Hb _]. apply andb_prop in Hb as [Hb1 Hb2].
    split; [now apply Nat.leb_le | now apply nodup_nat_NoDup].
Qed.

Lemma ok_basic_sound c evs observed w :
  ok_basic (BCase c evs observed w) = true ->
  forall os, In os observed ->
    ~ In TaskDied os /\ NoDup (map (fun d => fst (fst d)) (dones_of os)) /\
    forall b items t, In (BatchStart b items t) os -> 1 <= length items /\ NoDup (map fst items).
Proof. apply basic_sound. Qed.
