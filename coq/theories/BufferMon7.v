(* BufferMon7.v — completeness of the walk part of the C07 trace monitor (Case_C07.ok_walk), and hence
   of the whole monitor: it accepts the model's own trace of EVERY event list.
   Ingredients:
     WC   : waiters are conserved — the wait ids inside wait() before a step (plus the one of an accepted
            Wait event) are, as a multiset, those still inside afterwards plus those whose WaitRet the step
            shows; every WaitRet carries the number of successful calls so far;
     IEa  : unless a bare foreign clear is pending, an idle daemon has the flag set; the flag set means
            nobody is inside wait();
     rets : what holds at every event.set(), with the tracker's open-producer set (BufferTrk);
     the simulation between the monitor's pending-wait list and the model's waiters. *)
From Coq Require Import List Arith NArith Bool Lia Permutation.
Import ListNotations.
Require Import Aiuti.CaseLib Aiuti.Buffer Aiuti.Case_Buffer Aiuti.BufferCore Aiuti.BufferFlag
               Aiuti.BufferInv Aiuti.BufferJoin Aiuti.BufferTime Aiuti.BufferQuiet Aiuti.BufferOnce Aiuti.BufferProgress
               Aiuti.BufferWait Aiuti.BufferReturn Aiuti.BufferMon Aiuti.BufferMonSound Aiuti.BufferMon8 Aiuti.BufferMon8B
               Aiuti.BufferTrk Aiuti.BufferMon3 Aiuti.BufferMon3B.
Require Aiuti.Case_C07.

(* ---- WC: conservation of waiters --------------------------------------------------------------------- *)
Definition rets (os : list obs) : list nat :=
  flat_map (fun o => match o with WaitRet w _ _ => [w] | _ => [] end) os.
Definition wids (s : state) : list nat := map wid (waiters s).

Definition WCp (s : state) (r : state * list obs) : Prop :=
  Permutation (wids s) (wids (fst r) ++ rets (snd r)) /\ nok (fst r) = nok s /\
  (forall w t n, In (WaitRet w t n) (snd r) -> n = nok s).

Lemma rets_app a b : rets (a ++ b) = rets a ++ rets b.
Proof. unfold rets. apply flat_map_app. Qed.

Lemma rets_wrets (ws : list waiter) t n : rets (map (fun w => WaitRet (wid w) t n) ws) = map wid ws.
Proof. induction ws as [|w r IH]; cbn; [reflexivity|]. f_equal. exact IH. Qed.

Lemma partition_perm {A} (f : A -> bool) l : Permutation l (filter f l ++ filter (fun x => negb (f x)) l).
Proof.
  induction l as [|x r IH]; cbn; [constructor|]. destruct (f x); cbn.
  - constructor. exact IH.
  - eapply Permutation_trans; [constructor; exact IH|]. apply Permutation_middle.
Qed.

Lemma onevent_negb ws : filter is_onevent ws = filter (fun w => negb (is_joining w)) ws.
Proof. apply filter_ext. intros w. unfold is_onevent, is_joining. destruct (wstate w); reflexivity. Qed.

Lemma release_WC s : WCp s (release s).
Proof.
  unfold WCp, release, wids; cbn. split; [|split; [reflexivity|]].
  - rewrite rets_wrets, <- map_app. apply Permutation_map. rewrite onevent_negb. apply partition_perm.
  - intros w t n Hin. apply in_map_iff in Hin as (w0 & E & _). inversion E; reflexivity.
Qed.

Lemma WC_seq s s1 o1 s2 o2 : WCp s (s1, o1) -> WCp s1 (s2, o2) -> WCp s (s2, o1 ++ o2).
Proof.
  intros (A1 & A2 & A3) (B1 & B2 & B3). unfold WCp. cbn [fst snd] in *. split; [|split; [congruence|]].
  - rewrite rets_app. eapply Permutation_trans; [exact A1|].
    eapply Permutation_trans; [apply Permutation_app_tail; exact B1|].
    rewrite <- !app_assoc. apply Permutation_app_head, Permutation_app_comm.
  - intros w t n Hin. apply in_app_or in Hin as [Hin|Hin]; [eauto|]. rewrite <- A2. eauto.
Qed.

Lemma WC_same s s' : wids s' = wids s -> nok s' = nok s -> WCp s (s', []).
Proof. intros E1 E2. unfold WCp. cbn [fst snd rets flat_map]. split; [rewrite E1, app_nil_r; reflexivity|]. split; [exact E2|intros w t n []]. Qed.

Lemma WC_obs s s' o : wids s' = wids s -> nok s' = nok s -> rets o = [] -> (forall w t n, ~ In (WaitRet w t n) o) -> WCp s (s', o).
Proof.
  intros E1 E2 E3 E4. unfold WCp. cbn [fst snd]. split; [rewrite E1, E3, app_nil_r; reflexivity|]. split; [exact E2|]. intros w t n Hin. destruct (E4 _ _ _ Hin).
Qed.

Lemma run_func0_WC s ins : WCp s (run_func0 s ins).
Proof.
  unfold run_func0. destruct ins as [|y r].
  - pose proof (release_WC s) as H. destruct (release s) as [s1 o]. exact H.
  - apply WC_obs; try reflexivity. intros w t n [H|[]]. discriminate.
Qed.

Lemma WC_trans s s1 r : wids s1 = wids s -> nok s1 = nok s -> WCp s1 r -> WCp s r.
Proof. intros E1 E2 (A & B & C). unfold WCp. rewrite <- E1, <- E2. auto. Qed.

Lemma continue_round_WC s ins ld : WCp s (continue_round s ins ld).
Proof.
  unfold continue_round. destruct (load_all (ld ++ q s)) as [[rem ys] fs].
  set (u := unfinished s - length (q s)).
  assert (Hw : forall s2, s2 = (if u =? 0 then set_waiters (set_q s [] u) (join_pass (waiters (set_q s [] u))) else set_q s [] u) ->
               wids s2 = wids s /\ nok s2 = nok s).
  { intros s2 ->. unfold wids. destruct (u =? 0); cbn; [rewrite wid_pass|]; auto. }
  destruct (Hw _ eq_refl) as [W1 W2].
  destruct rem as [|p rem].
  - destruct ((u =? 0) && wants_cancel (waiters (set_q s [] u))).
    + eapply WC_trans; [| |apply run_func0_WC]; cbn; [exact W1|exact W2].
    + apply WC_same; cbn; [exact W1|exact W2].
  - apply WC_same; cbn; [exact W1|exact W2].
Qed.

Lemma start_round_WC s : WCp s (start_round s).
Proof.
  unfold start_round. destruct (q s); [apply WC_same; reflexivity|].
  eapply WC_trans; [| |apply continue_round_WC]; reflexivity.
Qed.

Lemma run_func_WC s ins : WCp s (run_func s ins).
Proof.
  unfold run_func. destruct ins as [|y r].
  - pose proof (release_WC s) as H. destruct (release s) as [s1 o1]. unfold end_round.
    pose proof (start_round_WC s1) as H2. destruct (start_round s1) as [s2 o2]. eapply WC_seq; eauto.
  - apply WC_obs; try reflexivity. intros w t n [H|[]]. discriminate.
Qed.

Lemma load_one_WC s ins p : WCp s (load_one s ins p).
Proof.
  unfold load_one. destruct (p_fin p); [|apply WC_same; reflexivity].
  eapply WC_trans; [| |apply continue_round_WC]; reflexivity.
Qed.

Lemma after_gather_WC s ins g : WCp s (after_gather s ins g).
Proof.
  destruct g; cbn [after_gather]; [apply WC_same; reflexivity|apply load_one_WC|apply run_func_WC|apply run_func_WC].
Qed.

Definition newwid (s : state) (e : event) : list nat :=
  match e with Wait w _ => if is_dead s || existsb (Nat.eqb w) (wseen s) then [] else [w] | _ => [] end.

Definition WCs (s : state) (e : event) (r : state * list obs) : Prop :=
  Permutation (wids s ++ newwid s e) (wids (fst r) ++ rets (snd r)) /\
  (forall w t n, In (WaitRet w t n) (snd r) -> n = nok (fst r)).

Lemma WCp_WCs s e r : newwid s e = [] -> WCp s r -> WCs s e r.
Proof. intros E (A & B & C). split; [rewrite E, app_nil_r; exact A|]. intros w t n Hin. rewrite B. eauto. Qed.

Definition WCs' (s : state) (w : nat) (r : state * list obs) : Prop :=
  Permutation (wids s ++ [w]) (wids (fst r) ++ rets (snd r)) /\
  (forall w' t n, In (WaitRet w' t n) (snd r) -> n = nok (fst r)).

Lemma step_WC s e : is_dead s = false -> e <> Shutdown -> WCs s e (step s e).
Proof.
  intros Hd Hsh. unfold step. rewrite Hd.
  assert (PutCase : forall p k c, WCp s (do_put s p k c)).
  { intros p k c. unfold do_put. destruct (existsb (Nat.eqb p) (seen s)); [apply WC_same; reflexivity|].
    match goal with |- WCp _ (on_put ?x) => set (s4 := x);
      assert (E4 : wids s4 = wids s /\ nok s4 = nok s) by (unfold s4; destruct c; auto) end.
    destruct E4 as [E1 E2]. clearbody s4. eapply WC_trans; [exact E1|exact E2|].
    unfold on_put. destruct (dm s4); try (apply WC_same; reflexivity).
    - apply start_round_WC.
    - destruct g; try (apply WC_same; reflexivity). destruct (q s4); apply WC_same; reflexivity.
    - destruct (q s4); [apply WC_same; reflexivity|]. eapply WC_trans; [| |apply load_one_WC]; reflexivity. }
  assert (FeedCase : forall n a, WCp s (do_feed s n a)).
  { intros n a. unfold do_feed. destruct (negb (open_here s n)); [apply WC_same; reflexivity|].
    destruct (dm s); try (apply WC_same; reflexivity).
    - destruct (load_all (map (feed_if n a) ld)) as [[rem ys] fs]. destruct rem; [|apply WC_same; reflexivity].
      eapply WC_trans; [| |apply after_gather_WC]; reflexivity.
    - destruct ((pid p =? n) && accepts p); [|apply WC_same; reflexivity].
      eapply WC_trans; [| |apply load_one_WC]; reflexivity. }
  assert (EndCase : forall ok fc : bool, WCs s (if ok then (if fc then FnOkThenFClear else FnOk) else FnFail) (do_fn_end s ok fc)).
  { intros ok fc. assert (En : newwid s (if ok then (if fc then FnOkThenFClear else FnOk) else FnFail) = []) by (destruct ok, fc; reflexivity).
    unfold do_fn_end. destruct (dm s); try (apply WCp_WCs; [exact En|apply WC_same; reflexivity]).
    destruct ok.
    - match goal with |- context [release ?x] => set (s1 := x); pose proof (release_WC s1) as R; destruct (release s1) as [s2 o1] end.
      assert (E1 : wids s1 = wids s /\ nok s1 = S (nok s)) by (unfold s1; auto). destruct E1 as [E1 E2].
      assert (K : forall r, WCp s2 r -> WCs s (if fc then FnOkThenFClear else FnOk)
                    (let '(s3, o2) := r in (s3, [FnEnd (callno s - 1) true ins] ++ o1 ++ o2))).
      { intros [s3 o2] H2. pose proof (WC_seq _ _ _ _ _ R H2) as (A & B & C). cbn [fst snd] in *.
        split; cbn [fst snd app rets flat_map]; [rewrite En, app_nil_r, <- E1; exact A|].
        intros w t n [Hin|Hin]; [discriminate|]. rewrite B. eauto. }
      destruct fc.
      + match goal with |- context [continue_round ?a ?b ?c] => pose proof (continue_round_WC a b c) as H2 end.
        apply (K _ (WC_trans s2 _ _ eq_refl eq_refl H2)).
      + unfold end_round. apply (K _ (start_round_WC s2)).
    - pose proof (continue_round_WC s ins []) as H. destruct (continue_round s ins []) as [s1 o1].
      destruct H as (A & B & C). cbn [fst snd] in *. split; cbn [fst snd app rets flat_map newwid]; [rewrite app_nil_r; exact A|].
      intros w t n [Hin|Hin]; [discriminate|]. rewrite B. eauto. }
  destruct e; try contradiction;
    try (solve [apply WCp_WCs; [reflexivity|apply PutCase]]); try (solve [apply WCp_WCs; [reflexivity|apply FeedCase]]).
  - apply WCp_WCs; [reflexivity|]. unfold do_advance. destruct (dm s) as [|ins ld g|ins d|ins p|ins|]; try (apply WC_same; reflexivity).
    + destruct g; try (apply WC_same; reflexivity). destruct (d <=? now s + dt)%N; apply WC_same; reflexivity.
    + destruct (d <=? now s + dt)%N; [|apply WC_same; reflexivity].
      match goal with |- context [run_func ?a ?b] => pose proof (run_func_WC a b) as H; destruct (run_func a b) as [s1 o] end.
      destruct H as (A & B & C). split; [exact A|]. split; [exact B|exact C].
  - (* Wait *)
    unfold WCs, newwid. rewrite Hd. cbn [orb]. unfold do_wait. destruct (existsb (Nat.eqb w) (wseen s)).
    + cbn [fst snd rets flat_map]. rewrite !app_nil_r. split; [reflexivity|intros ? ? ? []].
    + set (s0 := set_gh (set_wseen s (wseen s ++ [w])) (gh_tie (gh s) (tie_now s))).
      assert (E0 : wids s0 = wids s /\ nok s0 = nok s) by auto. destruct E0 as [E1 E2].
      assert (Add : forall st, WCs' s w (set_waiters s0 (waiters s0 ++ [mkw w cancel st (seen s0)]), [])).
      { intros st. unfold WCs'. cbn [fst snd rets flat_map]. split; [|intros ? ? ? []]. unfold wids. cbn. rewrite map_app, app_nil_r. reflexivity. }
      change (WCs' s w (wait_core s0 w cancel)).
      unfold wait_core. destruct (unfinished s0 =? 0); [|apply Add].
      assert (EV : WCs' s w (if evset s0
                then (set_gh s0 (gh_return (gh s0) [(w, seen s0)]), [WaitRet w (now s0) (nok s0)])
                else (set_waiters s0 (waiters s0 ++ [mkw w cancel OnEvent (seen s0)]), []))).
      { destruct (evset s0); [|apply Add]. unfold WCs'. cbn [fst snd rets flat_map]. split; [unfold wids; cbn; reflexivity|].
        intros ? ? ? [H|[]]. inversion H. reflexivity. }
      destruct (dm s0) as [|ins ld g|ins d|ins p|ins|]; try exact EV.
      * destruct g as [d|p| |]; try exact EV.
        destruct cancel; [|apply Add]. unfold WCs'. cbn [fst snd rets flat_map]. split; [|intros ? ? ? []].
        unfold wids. cbn. rewrite map_app, app_nil_r. reflexivity.
      * destruct cancel; [|apply Add].
        match goal with |- context [run_func ?a ?b] => pose proof (run_func_WC a b) as H; destruct (run_func a b) as [s1 o] end.
        destruct H as (A & B & C). unfold WCs'. cbn [fst snd] in *. split.
        -- eapply Permutation_trans; [|exact A]. unfold wids. cbn. rewrite map_app. reflexivity.
        -- intros w' t n Hin. rewrite B. eauto.
  - apply (EndCase true false).
  - apply (EndCase false false).
  - apply WCp_WCs; [reflexivity|]. apply WC_same; reflexivity.
  - apply (EndCase true true).
Qed.

(* wait ids inside wait() are distinct and have been used *)
Definition NDW (s : state) : Prop := NoDup (wids s) /\ forall w, In w (wids s) -> In w (wseen s).

Lemma newwid_fresh s e w : In w (newwid s e) -> ~ In w (wseen s) /\ exists c, e = Wait w c.
Proof.
  unfold newwid. destruct e; try (intros []). destruct (is_dead s || existsb (Nat.eqb w0) (wseen s)) eqn:E; [intros []|].
  intros [<-|[]]. apply orb_false_elim in E as [_ E]. split; [apply BufferOnce.existsb_eqb_false; exact E|eauto].
Qed.

Lemma NoDup_new s e : NDW s -> NoDup (wids s ++ newwid s e).
Proof.
  intros [A B]. unfold newwid. destruct e; rewrite ?app_nil_r; auto.
  destruct (is_dead s || existsb (Nat.eqb w) (wseen s)) eqn:E; rewrite ?app_nil_r; auto.
  apply orb_false_elim in E as [_ E]. apply BufferOnce.NoDup_app_snoc; [exact A|].
  intros Hin. apply (BufferOnce.existsb_eqb_false _ _ E). apply B, Hin.
Qed.

Lemma nodup_app_l {A} (l l' : list A) : NoDup (l ++ l') -> NoDup l.
Proof.
  induction l as [|x r IH]; cbn; intros H; [constructor|]. inversion H as [|? ? Hn Hr]; subst.
  constructor; [intros Hin; apply Hn, in_or_app; auto|apply IH, Hr].
Qed.

Lemma step_NDW s e : NDW s -> NDW (fst (step s e)).
Proof.
  intros HN. destruct (is_dead s) eqn:Hd; [unfold step; rewrite Hd; exact HN|].
  destruct (Aiuti.BufferInv.is_shutdown e) eqn:Esh.
  - destruct e; try discriminate. unfold step. rewrite Hd. split; [constructor|intros w []].
  - assert (Hsh : e <> Shutdown) by (intros ->; discriminate).
    destruct (step_WC s e Hd Hsh) as [Hp _]. pose proof (NoDup_new s e HN) as Hn.
    pose proof (Permutation_NoDup Hp Hn) as Hn'. split; [apply (nodup_app_l _ _ Hn')|].
    intros w Hin. assert (Hin' : In w (wids s ++ newwid s e)).
    { eapply Permutation_in; [apply Permutation_sym; exact Hp|apply in_or_app; auto]. }
    rewrite wseen_step. destruct HN as [_ B]. apply in_app_or in Hin' as [H|H].
    + destruct e; try (apply B; exact H). destruct (is_dead s || existsb (Nat.eqb w0) (wseen s)); [apply B, H|apply in_or_app; left; apply B, H].
    + destruct (newwid_fresh s e w H) as [_ [c ->]]. unfold newwid in H. rewrite Hd in *. cbn [orb] in *.
      destruct (existsb (Nat.eqb w) (wseen s)); [destruct H|apply in_or_app; right; left; reflexivity].
Qed.

Lemma final_NDW T evs : NDW (final T evs).
Proof.
  induction evs as [|e r IH] using rev_ind; [split; [constructor|intros w []]|]. rewrite final_snoc. apply step_NDW, IH.
Qed.

(* ---- IEa: the completion flag, with a bare foreign clear possibly pending ------------------------------ *)
Definition IEa (a : bool) (s : state) : Prop :=
  (a = true -> dm s = DIdle -> evset s = true) /\ (evset s = true -> waiters s = []).

Definition a_next (a : bool) (s : state) (e : event) : bool :=
  if is_dead s then a else
  match e with
  | FClear => false
  | Submit p _ | FPut p _ => if existsb (Nat.eqb p) (seen s) then a else true
  | _ => a
  end.

Lemma IE_IEa a s : IE s -> IEa a s.
Proof. intros [A B]. split; auto. Qed.

Lemma step_IEa a s e :
  IEa a s -> Struct s -> (is_dead s = false -> FL s) -> IEa (a_next a s e) (fst (step s e)).
Proof.
  intros [IA IB] HS HF. unfold a_next. destruct (is_dead s) eqn:Hd; [unfold step; rewrite Hd; split; assumption|].
  assert (Full : (dm s = DIdle -> evset s = true) -> e <> FClear -> forall a', IEa a' (fst (step s e))).
  { intros HA He a'. apply IE_IEa. apply (step_IR s e (conj HA IB) HS (fun _ => HF eq_refl) He). }
  destruct (dm s) eqn:Ed; try (destruct e; try (apply Full; [intros H; discriminate H|discriminate]);
    unfold step; rewrite Hd; split; cbn; [discriminate|discriminate]).
  destruct (evset s) eqn:Ee.
  - destruct e; try (apply Full; [auto|discriminate]). unfold step. rewrite Hd. split; cbn; discriminate.
  - (* idle with the flag cleared by a foreign thread *)
    specialize (HS Hd). destruct HS as [S1 S2 S3]. rewrite Ed in *. pose proof (S2 eq_refl) as Hq. rewrite Hq in S1. cbn in S1.
    assert (Ha : a = false) by (destruct a; [discriminate (IA eq_refl eq_refl)|reflexivity]). subst a.
    assert (Stay : forall s', evset s' = false -> IEa false s') by (intros s' E; split; [discriminate|congruence]).
    unfold step. rewrite Hd.
    destruct e.
    + unfold do_put. destruct (existsb (Nat.eqb p) (seen s)); [apply Stay; exact Ee|].
      unfold on_put. cbn [dm set_gh set_q set_event set_seen]. rewrite Ed.
      apply IE_IEa. match goal with |- context [start_round ?x] => destruct (start_round_IR x) as [A _] end; [|exact A].
      cbn. intros H. apply app_eq_nil in H as [_ H]. discriminate.
    + unfold do_feed. assert (Eo : open_here s p = false) by (unfold open_here; rewrite Hq, Ed; reflexivity). rewrite Eo. apply Stay, Ee.
    + unfold do_feed. assert (Eo : open_here s p = false) by (unfold open_here; rewrite Hq, Ed; reflexivity). rewrite Eo. apply Stay, Ee.
    + unfold do_feed. assert (Eo : open_here s p = false) by (unfold open_here; rewrite Hq, Ed; reflexivity). rewrite Eo. apply Stay, Ee.
    + unfold do_advance. rewrite Ed. apply Stay. exact Ee.
    + unfold do_wait. destruct (existsb (Nat.eqb w) (wseen s)); [apply Stay, Ee|].
      unfold wait_core. cbn [unfinished set_gh set_wseen dm evset]. rewrite S1, Ed, Ee. apply Stay. exact Ee.
    + unfold do_fn_end. rewrite Ed. apply Stay, Ee.
    + unfold do_fn_end. rewrite Ed. apply Stay, Ee.
    + split; cbn; [discriminate|auto].
    + apply Stay. reflexivity.
    + unfold do_put. destruct (existsb (Nat.eqb p) (seen s)); [apply Stay; exact Ee|].
      unfold on_put. cbn [dm set_gh set_q set_event set_seen]. rewrite Ed.
      apply IE_IEa. match goal with |- context [start_round ?x] => destruct (start_round_IR x) as [A _] end; [|exact A].
      cbn. intros H. apply app_eq_nil in H as [_ H]. discriminate.
    + unfold do_fn_end. rewrite Ed. apply Stay, Ee.
Qed.

Lemma pend_next k s e : TL k s -> negb (k_pendclear (trk_ev k e)) = a_next (negb (k_pendclear k)) s e.
Proof.
  intros (K1 & K2 & K3 & K4). unfold trk_ev, a_next. rewrite K2. destruct (is_dead s); [reflexivity|].
  destruct e; try reflexivity.
  - rewrite K3, mem_existsb. destruct (existsb (Nat.eqb p) (seen s)); reflexivity.
  - destruct (is_open p k); reflexivity.
  - destruct (is_open p k); reflexivity.
  - destruct (is_open p k && negb (is_single p k)); reflexivity.
  - destruct (mem w (k_wseen k)); reflexivity.
  - rewrite K3, mem_existsb. destruct (existsb (Nat.eqb p) (seen s)); reflexivity.
Qed.

Lemma final_IEa T evs : IEa (negb (k_pendclear (trk_run trk0 evs))) (final T evs).
Proof.
  induction evs as [|e r IH] using rev_ind; [split; cbn; auto|].
  rewrite trk_run_snoc', final_snoc. destruct (final_TRK T r) as (HTL & _ & _).
  rewrite (pend_next _ _ e HTL). apply step_IEa; [exact IH|apply final_struct|apply final_FL].
Qed.

(* ---- the producers submitted before a returned wait() are closed in the tracker ---------------------- *)
Lemma notopen_lemma T evs e w t n :
  In (WaitRet w t n) (snd (step (final T evs) e)) ->
  forall pre c post,
    evs ++ [e] = pre ++ Wait w c :: post -> is_dead (final T pre) = false ->
    existsb (Nat.eqb w) (wseen (final T pre)) = false ->
    forall p, In p (seen (final T pre)) -> is_open p (trk_run trk0 (evs ++ [e])) = false.
Proof.
  intros Hin pre c post E D F p Hp. set (s := final T evs) in *.
  assert (Hd : is_dead s = false).
  { destruct (is_dead s) eqn:Hd; [|reflexivity]. unfold step in Hin. rewrite Hd in Hin. destruct Hin. }
  destruct (final_TRK T evs) as (HTL & HOT & _). fold s in HTL, HOT.
  pose proof (final_W T evs Hd) as [W1 W2]. fold s in W1, W2.
  pose proof (final_struct T evs Hd) as [S1 S2 S3]. fold s in S1, S2, S3.
  rewrite trk_run_snoc'.
  destruct (step_rets3 _ s e Hd HTL HOT w t n Hin) as [(sr & w0 & HP & Ew & Hrel & _ & _)|(c0 & -> & He & Hobs)].
  - assert (Hfw : from_wait T (evs ++ [e]) w (wbefore w0) /\ (forall p0, In p0 (wbefore w0) -> ~ In p0 (map pid (q sr)))).
    { destruct Hrel as [[Hq Hf]|(Hin0 & Hon & Hpq)].
      - split; [|rewrite Hq; intros p0 _ []].
        destruct Hf as (w1 & Hin1 & E1 & E2). apply in_app_or in Hin1 as [Hin1|Hin1].
        + rewrite <- Ew, <- E1, <- E2. apply from_wait_snoc, waiters_from_wait, Hin1.
        + destruct e; cbn [new_waiter] in Hin1; try (destruct Hin1; fail). destruct Hin1 as [<-|[]]. cbn in E1, E2.
          destruct (wait_obs_accepted _ _ _ _ _ _ Hin) as [A B].
          exists evs, cancel, []. rewrite <- Ew, <- E1, <- E2. fold s. auto.
      - apply in_app_or in Hin0 as [Hin0|Hin0].
        + split; [rewrite <- Ew; apply from_wait_snoc, waiters_from_wait, Hin0|].
          intros p0 Hp0 Hin'. rewrite Hpq in Hin'. apply (W1 w0 Hin0 Hon p0 Hp0). rewrite map_app. apply in_or_app; auto.
        + destruct e; cbn [new_waiter] in Hin0; try (destruct Hin0; fail). destruct Hin0 as [<-|[]]. cbn in Ew. subst w1.
          destruct (wait_obs_accepted _ _ _ _ _ _ Hin) as [A B].
          split; [exists evs, cancel, []; fold s; auto|].
          assert (Hu : unfinished s = 0).
          { unfold step in Hin. rewrite Hd in Hin. unfold do_wait in Hin. rewrite B in Hin. unfold wait_core in Hin.
            cbn [unfinished set_gh set_wseen] in Hin. destruct (unfinished s =? 0) eqn:Eu; [apply Nat.eqb_eq; exact Eu|destruct Hin]. }
          rewrite Hu in S1. intros p0 _ Hin'. rewrite Hpq in Hin'. destruct (q s); [destruct Hin'|cbn in S1; lia]. }
    destruct Hfw as [(pre0 & c0 & post0 & E0 & D0 & F0 & Eb) Hnq].
    destruct (accepted_wait_unique T _ w _ _ _ _ _ _ E0 E D0 F0 D F) as (-> & _ & _).
    destruct HP as [_ HOpen]. destruct (HOpen p) as [HO1 _]. cbv beta in HO1. rewrite <- HO1.
    unfold has_open. apply not_true_is_false. intros Hex. apply existsb_exists in Hex as (pr & Hpr & Hc).
    apply andb_prop in Hc as [Hc _]. apply Nat.eqb_eq in Hc. apply (Hnq p); [rewrite Eb; exact Hp|]. rewrite <- Hc. apply in_map, Hpr.
  - (* immediate return: the flag was set, the buffer holds no producer at all *)
    destruct (flag_means_delivered T evs Hd He) as (Hdm & Hq & _). fold s in Hdm, Hq.
    unfold trk_ev. destruct HTL as (K1 & K2 & K3 & K4). rewrite K2, Hd.
    assert (Hno : is_open p (trk_run trk0 evs) = false).
    { destruct (HOT Hd) as [_ C]. destruct (C p) as [C1 _]. cbv beta in C1. rewrite <- C1. unfold prods. rewrite Hq, Hdm. reflexivity. }
    destruct (mem w (k_wseen (trk_run trk0 evs))); [exact Hno|]. unfold is_open in *. cbn [k_open]. exact Hno.
Qed.

(* ---- the shape of a step's observations, and the success counter ----------------------------------------- *)
Definition keeps_nok (s : state) (r : state * list obs) : Prop := nok (fst r) = nok s.

Lemma run_func0_nok s ins : keeps_nok s (run_func0 s ins).
Proof. unfold keeps_nok, run_func0, release. destruct ins; reflexivity. Qed.

Lemma continue_round_nok s ins ld : keeps_nok s (continue_round s ins ld).
Proof.
  unfold keeps_nok, continue_round. destruct (load_all (ld ++ q s)) as [[rem ys] fs].
  destruct (unfinished s - length (q s) =? 0); destruct rem; cbn [andb];
    try destruct (wants_cancel _); try reflexivity; rewrite run_func0_nok; reflexivity.
Qed.

Lemma start_round_nok s : keeps_nok s (start_round s).
Proof. unfold keeps_nok, start_round. destruct (q s); [reflexivity|]. rewrite continue_round_nok. reflexivity. Qed.

Lemma run_func_nok s ins : keeps_nok s (run_func s ins).
Proof.
  unfold keeps_nok, run_func. destruct ins; [|reflexivity].
  destruct (release s) as [s1 o1] eqn:E. unfold end_round.
  pose proof (start_round_nok s1) as H. destruct (start_round s1) as [s2 o2]. unfold keeps_nok in H; cbn [fst] in *.
  rewrite H. unfold release in E. inversion E; reflexivity.
Qed.

Lemma load_one_nok s ins p : keeps_nok s (load_one s ins p).
Proof. unfold keeps_nok, load_one. destruct (p_fin p); [rewrite continue_round_nok|]; reflexivity. Qed.

Lemma after_gather_nok s ins g : keeps_nok s (after_gather s ins g).
Proof. destruct g; cbn [after_gather]; [reflexivity|apply load_one_nok|apply run_func_nok|apply run_func_nok]. Qed.

Definition is_end_ev (e : event) : bool := match e with FnOk | FnFail | FnOkThenFClear => true | _ => false end.

(* a step that is not the end of a running call: no FnEnd is observed, the counter stays *)
Lemma step_quiet s e :
  is_dead s = false -> e <> Shutdown ->
  (forall ins, dm s = DRun ins -> is_end_ev e = false) ->
  Forall (okob []) (snd (step s e)) /\ nok (fst (step s e)) = nok s.
Proof.
  intros Hd Hsh Hq. split.
  - apply (step_mono [] s e); auto. intros z [].
    intros ins E. specialize (Hq ins E). destruct e; try discriminate; repeat split; discriminate.
  - unfold step. rewrite Hd.
    assert (PutCase : forall p k c, nok (fst (do_put s p k c)) = nok s).
    { intros p k c. unfold do_put. destruct (existsb (Nat.eqb p) (seen s)); [reflexivity|].
      unfold on_put. cbn [dm set_gh set_q set_event set_seen]. destruct c; cbn [dm set_event set_seen].
      all: destruct (dm s); try reflexivity.
      all: try (rewrite start_round_nok; reflexivity).
      all: try (destruct g; try reflexivity; cbn [q set_gh set_q set_event set_seen]; destruct (q s ++ _); reflexivity).
      all: cbn [q set_gh set_q set_event set_seen]; destruct (q s ++ _); [reflexivity|rewrite load_one_nok; reflexivity]. }
    assert (FeedCase : forall n a, nok (fst (do_feed s n a)) = nok s).
    { intros n a. unfold do_feed. destruct (negb (open_here s n)); [reflexivity|].
      destruct (dm s); try reflexivity.
      - destruct (load_all (map (feed_if n a) ld)) as [[rem ys] fs]. destruct rem; [rewrite after_gather_nok|]; reflexivity.
      - destruct ((pid p =? n) && accepts p); [rewrite load_one_nok|]; reflexivity. }
    assert (EndCase : forall ok fc, is_end_ev e = true -> nok (fst (do_fn_end s ok fc)) = nok s).
    { intros ok fc He. unfold do_fn_end. destruct (dm s) eqn:Ed; try reflexivity. rewrite (Hq ins eq_refl) in He. discriminate. }
    destruct e; try apply PutCase; try apply FeedCase; try (apply EndCase; reflexivity); try reflexivity; try contradiction.
    + unfold do_advance. destruct (dm s) as [|ins ld g|ins d|ins p|ins|]; try reflexivity.
      * destruct g; try reflexivity. destruct (d <=? now s + dt)%N; reflexivity.
      * destruct (d <=? now s + dt)%N; [|reflexivity].
        match goal with |- context [run_func ?a ?b] => pose proof (run_func_nok a b) as H; destruct (run_func a b) end. exact H.
    + unfold do_wait. destruct (existsb (Nat.eqb w) (wseen s)); [reflexivity|].
      unfold wait_core. cbn [unfinished set_gh set_wseen dm evset]. destruct (unfinished s =? 0); [|reflexivity].
      destruct (dm s); try (solve [destruct (evset s); reflexivity]).
      * destruct g; try (solve [destruct (evset s); reflexivity]). destruct cancel; reflexivity.
      * destruct cancel; [|reflexivity]. rewrite run_func_nok. reflexivity.
Qed.

(* the end of a running call: exactly one FnEnd, first *)
Lemma step_end s e ins :
  is_dead s = false -> dm s = DRun ins -> is_end_ev e = true ->
  exists b R, snd (step s e) = FnEnd (callno s - 1) b ins :: R /\ Forall (okob []) R /\
              nok (fst (step s e)) = (if b then S (nok s) else nok s).
Proof.
  intros Hd Ed He. unfold step. rewrite Hd.
  assert (Ok : forall fc, exists b R, snd (do_fn_end s true fc) = FnEnd (callno s - 1) b ins :: R /\ Forall (okob []) R /\
                 nok (fst (do_fn_end s true fc)) = (if b then S (nok s) else nok s)).
  { intros fc. unfold do_fn_end. rewrite Ed.
    match goal with |- context [release ?x] => destruct (release x) as [s2 o1] eqn:E end.
    unfold release in E. inversion E; subst s2 o1; clear E.
    destruct fc.
    - match goal with |- context [continue_round ?a ?b ?c] =>
        pose proof (continue_round_mono [] a b c (fun z (H : In z []) => match H with end)) as M;
        pose proof (continue_round_nok a b c) as N; destruct (continue_round a b c) as [s3 o2] end.
      exists true. eexists. cbn [fst snd app] in *. split; [reflexivity|]. split; [apply Forall_app; split; [apply okob_wrets|exact (proj1 M)]|exact N].
    - unfold end_round.
      match goal with |- context [start_round ?a] =>
        pose proof (start_round_mono [] a (fun z (H : In z []) => match H with end)) as M;
        pose proof (start_round_nok a) as N; destruct (start_round a) as [s3 o2] end.
      exists true. eexists. cbn [fst snd app] in *. split; [reflexivity|]. split; [apply Forall_app; split; [apply okob_wrets|exact (proj1 M)]|exact N]. }
  destruct e; try discriminate.
  - apply Ok.
  - unfold do_fn_end. rewrite Ed.
    pose proof (continue_round_mono [] s ins [] (fun z (H : In z []) => match H with end)) as M.
    pose proof (continue_round_nok s ins []) as N. destruct (continue_round s ins []) as [s1 o1].
    exists false, o1. cbn [fst snd app] in *. split; [reflexivity|]. split; [exact (proj1 M)|exact N].
  - apply Ok.
Qed.

(* ================= the simulation: monitor state vs model state ========================================= *)
Module M7.
Import Aiuti.Case_C07.

Lemma find_w_some w l ps0 : In (w, ps0) l -> exists ps, find_w w l = Some ps.
Proof.
  intros Hin. unfold find_w. destruct (filter (fun p => Nat.eqb (fst p) w) l) as [|[w1 ps1] r] eqn:E; [|eauto].
  exfalso. assert (H : In (w, ps0) (filter (fun p => Nat.eqb (fst p) w) l)).
  { apply filter_In. split; [exact Hin|]. cbn. apply Nat.eqb_refl. }
  rewrite E in H. destruct H.
Qed.

Lemma nodup_app_r {A} (l l' : list A) : NoDup (l ++ l') -> NoDup l'.
Proof. induction l as [|a l IH]; cbn; [auto|]. intros H. inversion H; auto. Qed.

Lemma in_rets w t n R : In (WaitRet w t n) R -> In w (rets R).
Proof. intros H. unfold rets. apply in_flat_map. exists (WaitRet w t n). split; [exact H|left; reflexivity]. Qed.

Lemma rets_in w R : In w (rets R) -> exists t n, In (WaitRet w t n) R.
Proof.
  unfold rets. intros H. apply in_flat_map in H as (o & Ho & Hw).
  destruct o; cbn in Hw; try contradiction. destruct Hw as [<-|[]]. eauto.
Qed.

Lemma ok_sets_quiet R : Forall (okob []) R -> ok_sets R = [].
Proof.
  induction 1 as [|o r Ho _ IH]; [reflexivity|]. unfold ok_sets in *. cbn [flat_map]. rewrite IH.
  destruct o; try reflexivity. destruct Ho.
Qed.

Lemma ok_sets_app a b : ok_sets (a ++ b) = ok_sets a ++ ok_sets b.
Proof. unfold ok_sets. apply flat_map_app. Qed.

(* the monitor over observations that contain only FnStart and WaitRet *)
Lemma walkR k R : forall x,
  Forall (okob []) R -> forallb plain R = true -> shut x = false -> NoDup (rets R) ->
  (forall w t n, In (WaitRet w t n) R -> n = nokc x /\ exists ps, In (w, ps) (pend x)) ->
  (forall w ps, In w (rets R) -> In (w, ps) (pend x) ->
      subset (args_of_pids k ps) (del x) = true /\ existsb (fun p => is_open p k) ps = false) ->
  exists x', walk_obs m7 on_ob7 k R x = Some x' /\ del x' = del x /\ nokc x' = nokc x /\
             shut x' = shut x /\ ended x' = ended x /\
             forall q, In q (pend x') <-> (In q (pend x) /\ ~ In (fst q) (rets R)).
Proof.
  induction R as [|o R IH]; intros x HF HP Hs ND HW HB; cbn [walk_obs].
  - exists x. repeat (split; [reflexivity|]). intros q. split; [intros H; split; [exact H|intros []]|intros [H _]; exact H].
  - inversion HF as [|? ? Ho HF']; subst. cbn [forallb] in HP. apply andb_prop in HP as [Hpo HP'].
    destruct o as [c set t|c ok set|w t n| |]; try discriminate; try (destruct Ho).
    + cbn [on_ob7]. replace (if shut x then None else Some x) with (Some x) by (rewrite Hs; reflexivity).
      change (rets (FnStart c set t :: R)) with (rets R) in *. apply IH; auto.
      intros w t' n Hin. apply (HW w t' n). right. exact Hin.
    + cbn [on_ob7]. destruct (HW w t n (or_introl eq_refl)) as [En (ps0 & Hin0)].
      destruct (find_w_some w _ _ Hin0) as [ps Ef]. rewrite Ef.
      pose proof (C7.find_w_in _ _ _ Ef) as Hin.
      destruct (HB w ps (or_introl eq_refl) Hin) as [B1 B2].
      replace (negb (shut x) && subset (args_of_pids k ps) (del x) && negb (existsb (fun p => is_open p k) ps) && Nat.eqb n (nokc x))
        with true by (rewrite Hs, B1, B2, En, Nat.eqb_refl; reflexivity).
      cbn [rets flat_map app] in ND. fold (rets R) in ND. inversion ND as [|? ? Hnw ND']; subst.
      match goal with |- context [walk_obs _ _ _ _ ?y] => destruct (IH y) as (x' & W & A1 & A2 & A3 & A4 & A5) end; auto.
      * cbn. intros w' t' n' Hin'. destruct (HW w' t' n' (or_intror Hin')) as [En' (ps' & Hp')]. split; [exact En'|].
        exists ps'. apply filter_In. split; [exact Hp'|]. cbn. apply negb_true_iff, Nat.eqb_neq.
        intros ->. apply Hnw. eapply in_rets; eauto.
      * cbn. intros w' ps' Hw' Hin'. apply filter_In in Hin' as [Hin' _]. apply (HB w' ps'); [right; exact Hw'|exact Hin'].
      * exists x'. split; [exact W|]. cbn in A1, A2, A3, A4. repeat (split; [assumption|]).
        intros q. rewrite A5. cbn [pend]. rewrite filter_In. cbn [rets flat_map app]. fold (rets R). cbn [In].
        rewrite negb_true_iff, Nat.eqb_neq. split.
        -- intros [[Q1 Q2] Q3]. split; [exact Q1|]. intros [Q|Q]; [apply Q2; symmetry; exact Q|apply Q3; exact Q].
        -- intros [Q1 Q2]. split; [split; [exact Q1|intros Q; apply Q2; left; symmetry; exact Q]|intros Q; apply Q2; right; exact Q].
Qed.

Definition acc_wait (T : N) (done : list event) (w : nat) (ps : list nat) : Prop :=
  exists pre c post, done = pre ++ Wait w c :: post /\ is_dead (final T pre) = false /\
                     existsb (Nat.eqb w) (wseen (final T pre)) = false /\ ps = seen (final T pre).

Definition R7 (T : N) (done : list event) (x : m7) : Prop :=
  del x = g_delivered (gh (final T done)) /\ nokc x = nok (final T done) /\
  shut x = is_dead (final T done) /\ ended x = is_dead (final T done) /\
  (is_dead (final T done) = false ->
     (forall w, In w (wids (final T done)) -> exists ps, In (w, ps) (pend x)) /\
     (forall w ps, In (w, ps) (pend x) -> In w (wids (final T done)))) /\
  (forall w ps, In (w, ps) (pend x) -> acc_wait T done w ps).

Lemma acc_wait_ext T done e w ps : acc_wait T done w ps -> acc_wait T (done ++ [e]) w ps.
Proof. intros (pre & c & post & E & A). exists pre, c, (post ++ [e]). rewrite E, <- app_assoc. auto. Qed.

Lemma step7 T done e x :
  R7 T done x ->
  exists x1, walk_obs m7 on_ob7 (trk_ev (trk_run trk0 done) e) (snd (step (final T done) e))
               (on_ev7 (trk_run trk0 done) (trk_ev (trk_run trk0 done) e) e x) = Some x1 /\
             R7 T (done ++ [e]) x1.
Proof.
  intros (R1 & R2 & R3 & R4 & R5 & R6).
  destruct (final_TRK T done) as ((K1 & K2 & K3 & K4) & _ & _).
  destruct (final_TRK T (done ++ [e])) as (_ & _ & Hoff'). rewrite trk_run_snoc', final_snoc in Hoff'.
  pose proof (notopen_lemma T done e) as NO. rewrite trk_run_snoc' in NO.
  pose proof (delivered_is_trace T (done ++ [e])) as DT. rewrite final_snoc in DT.
  pose proof (final_NDW T done) as HN. pose proof (final_struct T done) as HS.
  unfold R7. rewrite final_snoc.
  set (s := final T done) in *. set (k := trk_run trk0 done) in *.
  destruct (is_dead s) eqn:Hd.
  - (* after shutdown nothing happens *)
    assert (E1 : step s e = (s, [])) by (unfold step; rewrite Hd; reflexivity).
    assert (E2 : on_ev7 k (trk_ev k e) e x = x).
    { destruct e; cbn [on_ev7]; try reflexivity; [unfold wait_accepted|]; rewrite K2; reflexivity. }
    rewrite E1, E2. cbn [snd fst walk_obs]. exists x. split; [reflexivity|]. rewrite Hd.
    split; [exact R1|]. split; [exact R2|]. split; [exact R3|]. split; [exact R4|]. split; [discriminate|]. intros w ps Hin. apply acc_wait_ext, R6, Hin.
  - assert (Hsh : e = Shutdown \/ e <> Shutdown) by (destruct e; auto; right; discriminate).
    destruct Hsh as [->|Hne].
    + cbn [on_ev7]. rewrite K2. unfold step. rewrite Hd. cbn [snd fst walk_obs on_ob7 shut ended]. rewrite R4. cbn [negb andb].
      eexists. split; [reflexivity|]. cbn.
      split; [exact R1|]. split; [exact R2|]. split; [reflexivity|]. split; [reflexivity|]. split; [discriminate|].
      intros w ps Hin. apply acc_wait_ext, R6, Hin.
    + destruct (R5 eq_refl) as [R5a R5b]. clear R5.
      pose proof (step_WC s e Hd Hne) as [WP Wn].
      pose proof (step_allp s e Hne) as HPl. unfold allp in HPl.
      pose proof (delivered_step s e) as Hdel.
      pose proof (NoDup_new s e HN) as ND0.
      pose proof (step_alive s e HS Hd Hne) as Hd'.
      assert (ND1 : NoDup (wids (fst (step s e)) ++ rets (snd (step s e)))) by (eapply Permutation_NoDup; eauto).
      set (x0 := on_ev7 k (trk_ev k e) e x).
      assert (P0 : del x0 = del x /\ nokc x0 = nokc x /\ shut x0 = false /\ ended x0 = false /\
                   pend x0 = pend x ++ map (fun w => (w, seen s)) (newwid s e)).
      { unfold x0. destruct e; cbn [on_ev7 newwid map]; rewrite ?app_nil_r; auto; try contradiction.
        unfold wait_accepted, mem. rewrite K2, K4, Hd. cbn [negb andb orb].
        destruct (existsb (Nat.eqb w) (wseen s)); cbn; rewrite ?app_nil_r, ?K3; auto. }
      destruct P0 as (P1 & P2 & P3 & P4 & P5).
      assert (E0a : forall w, In w (wids s ++ newwid s e) -> exists ps, In (w, ps) (pend x0)).
      { intros w Hw. rewrite P5. apply in_app_or in Hw as [Hw|Hw].
        - destruct (R5a w Hw) as [ps Hp]. exists ps. apply in_or_app. left. exact Hp.
        - exists (seen s). apply in_or_app. right. apply in_map_iff. exists w. auto. }
      assert (E0b : forall w ps, In (w, ps) (pend x0) -> In w (wids s ++ newwid s e)).
      { intros w ps Hin. rewrite P5 in Hin. apply in_or_app. apply in_app_or in Hin as [Hin|Hin].
        - left. eapply R5b; eauto.
        - right. apply in_map_iff in Hin as (w0 & E & Hw0). inversion E; subst. exact Hw0. }
      assert (E0c : forall w ps, In (w, ps) (pend x0) -> acc_wait T (done ++ [e]) w ps).
      { intros w ps Hin. rewrite P5 in Hin. apply in_app_or in Hin as [Hin|Hin]; [apply acc_wait_ext, R6, Hin|].
        apply in_map_iff in Hin as (w0 & E & Hw0). inversion E; subst w0 ps.
        destruct (newwid_fresh s e w Hw0) as [Hf (c & ->)]. exists done, c, []. fold s. repeat split; auto.
        destruct (existsb (Nat.eqb w) (wseen s)) eqn:Ex; [|reflexivity].
        apply existsb_exists in Ex as (y & Hy & Ey). apply Nat.eqb_eq in Ey. subst y. contradiction. }
      (* the shape of the observations *)
      assert (Sh : exists E R, snd (step s e) = E ++ R /\ Forall (okob []) R /\
                ((E = [] /\ nok (fst (step s e)) = nok s) \/
                 (exists c set, E = [FnEnd c true set] /\ nok (fst (step s e)) = S (nok s)) \/
                 (exists c set, E = [FnEnd c false set] /\ nok (fst (step s e)) = nok s))).
      { assert (Q : (exists ins, dm s = DRun ins /\ is_end_ev e = true) \/ (forall ins, dm s = DRun ins -> is_end_ev e = false)).
        { destruct (is_end_ev e) eqn:Ee; [|right; auto]. destruct (dm s) eqn:Ed; try (right; intros; discriminate). left; eauto. }
        destruct Q as [(ins & Ed & Ee)|Q].
        - destruct (step_end s e ins Hd Ed Ee) as (b & R & A & B & C).
          exists [FnEnd (callno s - 1) b ins], R. split; [exact A|]. split; [exact B|].
          destruct b; [right; left|right; right]; eauto.
        - destruct (step_quiet s e Hd Hne Q) as [A B]. exists [], (snd (step s e)). auto. }
      destruct Sh as (E & R & EO & HFR & HE).
      assert (RE : rets E = []) by (destruct HE as [[-> _]|[(c & set & -> & _)|(c & set & -> & _)]]; reflexivity).
      assert (PE : exists x0', (forall R', walk_obs m7 on_ob7 (trk_ev k e) (E ++ R') x0 = walk_obs m7 on_ob7 (trk_ev k e) R' x0') /\
                   del x0' = g_delivered (gh (fst (step s e))) /\ nokc x0' = nok (fst (step s e)) /\
                   shut x0' = false /\ ended x0' = false /\ pend x0' = pend x0).
      { rewrite Hdel, EO, ok_sets_app, (ok_sets_quiet R HFR), app_nil_r.
        destruct HE as [[-> En]|[(c & set & -> & En)|(c & set & -> & En)]].
        - exists x0. rewrite En, P1, P2, R1, R2. cbn. rewrite app_nil_r. auto 10.
        - eexists. split; [intros R'; cbn [app walk_obs on_ob7]; reflexivity|]. cbn. rewrite En, P1, P2, R1, R2, app_nil_r. auto 10.
        - exists x0. split; [intros R'; cbn [app walk_obs on_ob7]; reflexivity|]. rewrite En, P1, P2, R1, R2. cbn. rewrite app_nil_r. auto 10. }
      destruct PE as (x0' & PW & Q1 & Q2 & Q3 & Q4 & Q5).
      rewrite EO, PW. rewrite EO, rets_app, RE in ND1. cbn [app] in ND1.
      rewrite EO, forallb_app in HPl. apply andb_prop in HPl as [_ HPR].
      assert (InO : forall o, In o R -> In o (snd (step s e))) by (intros o Ho; rewrite EO; apply in_or_app; auto).
      assert (WPR : Permutation (wids s ++ newwid s e) (wids (fst (step s e)) ++ rets R)).
      { rewrite EO, rets_app, RE in WP. exact WP. }
      destruct (walkR (trk_ev k e) R x0') as (x1 & W & A1 & A2 & A3 & A4 & A5); auto.
      * apply nodup_app_r in ND1. exact ND1.
      * intros w t n Hin. split; [rewrite Q2; eapply Wn, InO; eauto|]. rewrite Q5. apply E0a.
        eapply Permutation_in; [apply Permutation_sym; exact WPR|]. apply in_or_app. right. eapply in_rets; eauto.
      * intros w ps Hw Hin. rewrite Q5 in Hin. destruct (E0c w ps Hin) as (pre & c & post & Ed & D & F & ->).
        destruct (rets_in w R Hw) as (t & n & Hr). apply InO in Hr. split.
        -- unfold subset. apply forallb_forall. intros y Hy. unfold args_of_pids in Hy.
           apply in_map_iff in Hy as ([p y'] & Ey & Hy). cbn in Ey. subst y'. apply filter_In in Hy as [Hy Hm]. cbn in Hm.
           unfold mem in Hm. apply existsb_exists in Hm as (p' & Hp' & Ep). apply Nat.eqb_eq in Ep. subst p'.
           rewrite Hoff' in Hy.
           assert (Hy' : In (p, y) (g_offered (gh (final T (done ++ [e]))))) by (rewrite final_snoc; exact Hy).
           pose proof (wait_barrier_forall T done e w t n Hr pre c post Ed D F p y Hp' Hy') as HB.
           rewrite <- DT in HB. rewrite Q1. unfold mem. apply existsb_exists. exists y. split; [exact HB|apply Nat.eqb_refl].
        -- destruct (existsb (fun p => is_open p (trk_ev k e)) (seen (final T pre))) eqn:Ex; [|reflexivity].
           apply existsb_exists in Ex as (p & Hp & Ho). rewrite (NO w t n Hr pre c post Ed D F p Hp) in Ho. discriminate.
      * exists x1. split; [exact W|]. rewrite A1, A2, A3, A4, Q1, Q2, Q3, Q4, Hd'.
        repeat (split; [reflexivity|]). split.
        -- intros _. split.
           ++ intros w Hw. assert (Hw0 : In w (wids s ++ newwid s e)).
              { eapply Permutation_in; [apply Permutation_sym; exact WPR|]. apply in_or_app. left. exact Hw. }
              destruct (E0a w Hw0) as [ps Hp]. exists ps. apply A5. rewrite Q5. split; [exact Hp|]. cbn [fst].
              intros Hr. clear - ND1 Hw Hr. induction (wids (fst (step s e))) as [|a l IH]; [destruct Hw|].
              cbn in ND1. inversion ND1; subst. destruct Hw as [->|Hw]; [apply H1, in_or_app; auto|auto].
           ++ intros w ps Hin. apply A5 in Hin as [Hin Hnr]. rewrite Q5 in Hin. cbn [fst] in Hnr.
              pose proof (Permutation_in _ WPR (E0b w ps Hin)) as Hw. apply in_app_or in Hw as [Hw|Hw]; [exact Hw|contradiction].
        -- intros w ps Hin. apply A5 in Hin as [Hin _]. rewrite Q5 in Hin. apply E0c, Hin.
Qed.
Lemma walk7_run T more : forall done x,
  R7 T done x ->
  exists x', walk m7 on_ev7 on_ob7 more (snd (run (final T done) more)) (trk_run trk0 done) x
             = Some (trk_run trk0 (done ++ more), x') /\ R7 T (done ++ more) x'.
Proof.
  induction more as [|e r IH]; intros done x HR; cbn [run].
  - cbn. rewrite app_nil_r. exists x. auto.
  - destruct (step7 T done e x HR) as (x1 & W & HR1).
    specialize (IH (done ++ [e]) x1). rewrite final_snoc in IH. rewrite trk_run_snoc' in IH.
    destruct (step (final T done) e) as [s1 o]. cbn [fst snd] in *.
    destruct (IH HR1) as (x' & W2 & HR2). rewrite <- app_assoc in W2, HR2. cbn [app] in W2, HR2.
    destruct (run s1 r) as [s2 os]. cbn [snd walk] in *. rewrite W. exists x'. auto.
Qed.

Lemma pendclear_tail k d : k_pendclear (trk_run k (tail d)) = k_pendclear k.
Proof. unfold tail. cbn [trk_run]. unfold trk_ev. destruct (k_dead k) eqn:E; cbn; rewrite ?E; reflexivity. Qed.

Lemma trk_run_app a : forall k b, trk_run k (a ++ b) = trk_run (trk_run k a) b.
Proof. induction a as [|x r IH]; intros k b; cbn; [reflexivity|apply IH]. Qed.

(* settled and no bare foreign clear pending: nobody is left inside wait() *)
Lemma settled_no_waiters T evs :
  settled_waits T evs = true -> is_dead (final T evs) = false /\ waiters (final T evs) = [].
Proof.
  unfold settled_waits, settled. set (n := length evs). intros H.
  apply andb_prop in H as [H Hpc]. apply andb_prop in H as [H H3]. apply andb_prop in H as [_ H2]. apply andb_prop in H3 as [Hdead Hopen].
  destruct (settle_tail_inv _ _ H2) as (d & Etl & Hd).
  set (pre := firstn (n - 3) evs) in *.
  assert (Eevs : evs = pre ++ tail d) by (rewrite <- Etl; unfold pre; symmetry; apply firstn_skipn).
  destruct (final_TRK T pre) as ((_ & K2 & _ & _) & HO & _).
  assert (Hal : is_dead (final T pre) = false) by (rewrite <- K2; apply negb_true_iff; exact Hdead).
  assert (Hno : forall m, has_open m (prods (final T pre)) = false).
  { intros m. destruct (HO Hal) as [_ C]. rewrite (proj1 (C m)). unfold is_open. destruct (k_open (trk_run trk0 pre)); [reflexivity|discriminate]. }
  destruct (no_open_calm T pre Hal Hno) as [Hp Hq].
  destruct (settle_lemma T pre d Hd Hal Hp Hq) as (S1 & S2 & S3).
  pose proof (final_IEa T evs) as [I1 I2]. rewrite Eevs in *. rewrite trk_run_app, pendclear_tail in I1.
  split; [exact S3|]. apply I2, I1; [exact Hpc|exact S1].
Qed.

Lemma c07_walk_complete T evs : ok_walk (Case T evs (trace T evs)) = true.
Proof.
  unfold ok_walk.
  destruct (walk7_run T evs [] m7_0) as (x' & W & (R1 & R2 & R3 & R4 & R5 & R6)).
  - unfold R7. cbn. split; [reflexivity|]. split; [reflexivity|]. split; [reflexivity|]. split; [reflexivity|].
    split; [intros _; split; [intros w []|intros w ps []]|intros w ps []].
  - cbn [app trk_run] in W. assert (E : final T [] = init T) by reflexivity. rewrite E in W. unfold trace. rewrite W. cbn [app] in *.
    apply andb_true_intro. split.
    + rewrite R3, R4. destruct (is_dead (final T evs)); reflexivity.
    + destruct (settled_waits T evs) eqn:Es; [|reflexivity].
      destruct (settled_no_waiters T evs Es) as [Hd Hw]. destruct (R5 Hd) as [_ R5b].
      destruct (pend x') as [|[w ps] r]; [reflexivity|]. exfalso.
      specialize (R5b w ps (or_introl eq_refl)). unfold wids in R5b. rewrite Hw in R5b. destruct R5b.
Qed.

(* ---- C07: the whole trace monitor accepts the model's own trace of EVERY event list ---------------------- *)
Theorem c07_monitor_complete T evs : ok (Case T evs (trace T evs)) = true.
Proof. unfold ok. rewrite c07_walk_complete, andb_true_r. apply shut_ok_complete. Qed.
End M7.
