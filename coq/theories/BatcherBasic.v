(* BatcherBasic.v — facts about the observations of one macro step of the model
   Batcher.v that need no invariant beyond LInv / SInv: completion ticks, distinct
   completions, batch start ticks.  Used by Case_Batcher_Basic.v to prove that the
   basic monitor accepts every trace of the model. *)
From Coq Require Import List Arith NArith Bool Lia ZifyBool ZifyNat ZifyN.
Import ListNotations.
Require Import Aiuti.Batcher Aiuti.BatcherLift Aiuti.BatcherLimits Aiuti.BatcherTime Aiuti.BatcherInv Aiuti.BatcherProps.

Local Arguments N.add : simpl never.
Local Arguments N.leb : simpl never.
Local Arguments N.max : simpl never.
Local Arguments Nat.ltb : simpl never.
Local Arguments Nat.leb : simpl never.

(* ---- completions carry the clock of the step; the clock does not move --------------------- *)

Definition DT (s s' : state) (os : list obs) : Prop :=
  now s' = now s /\ forall i o t, In (CallerDone i o t) os -> t = now s.

Lemma DT_refl s : True -> DT s s [].
Proof. intros _. split; auto. intros ? ? ? []. Qed.

Lemma DT_trans s1 s2 s3 o1 o2 : DT s1 s2 o1 -> DT s2 s3 o2 -> DT s1 s3 (o1 ++ o2).
Proof.
  intros [A1 A2] [B1 B2]. split; [congruence|]. intros i o t H.
  apply in_app_or in H as [H|H]; [eauto|]. rewrite <- A1. eauto.
Qed.

Lemma DT_starts s s' os : now s' = now s -> only_starts os -> DT s s' os.
Proof. intros E H. split; auto. intros i o t Hin. apply H in Hin. discriminate. Qed.

Lemma do_call_DT c a ko m s : DT s (fst (do_call c a ko m s)) (snd (do_call c a ko m s)).
Proof.
  destruct (do_call_clock c a ko m s) as [E _]. split; auto.
  unfold do_call. destruct (lookup (ret s) _) as [f|].
  - destruct (lookup (fdone s) f) as [[o t]|]; simpl; [|intros ? ? ? []].
    intros i o' t' [H|[]]. now injection H as _ _ <-.
  - intros i o t H. match goal with H : In _ (snd (take c ?it ?s1)) |- _ => apply (take_os c it s1) in H end. discriminate.
Qed.

Lemma call_DT_ok c a ko m s : True -> True /\ DT s (fst (do_call c a ko m s)) (snd (do_call c a ko m s)).
Proof. intros _. split; auto. apply do_call_DT. Qed.

Lemma wake_DT s : DT s (fst (wake s)) (snd (wake s)).
Proof.
  destruct (wake_clock s) as [E _]. split; auto.
  unfold wake. pose proof (wake_from_spec (fdone s) (now s) (callers s) 0) as (_ & _ & Hw).
  destruct (wake_from _ _ _ _) as [cs os]. simpl. intros i o t H.
  apply Hw in H as (j & cl & o' & t0 & E' & _). now injection E' as _ _ ->.
Qed.

Lemma do_chain_DT c a ko m s : DT s (fst (do_chain c a ko m s)) (snd (do_chain c a ko m s)).
Proof. apply (lift_chain c (fun _ => True) DT DT_refl DT_trans (call_DT_ok c) a ko m s Logic.I). Qed.

Lemma do_calls_DT c l s : DT s (fst (do_calls c l s)) (snd (do_calls c l s)).
Proof. apply (lift_calls c (fun _ => True) DT DT_refl DT_trans (call_DT_ok c) l s Logic.I). Qed.

Lemma wake_all_DT c s : DT s (fst (wake_all c s)) (snd (wake_all c s)).
Proof.
  apply (lift_wake_all c (fun _ => True) DT DT_refl DT_trans (call_DT_ok c)); auto.
  intros s0 _. split; auto. apply wake_DT.
Qed.

Lemma end_batch_DT c B o s : DT s (fst (end_batch c B o s)) (snd (end_batch c B o s)).
Proof.
  unfold end_batch. set (s0 := set_running s _).
  pose proof (release_slot_clock s0) as [C1 _]. pose proof (release_slot_os s0) as O1.
  destruct (release_slot s0) as [s1 o1]. simpl in *.
  pose proof (fanout_clock c (b_futs B) o s1) as [C2 _]. destruct (fanout c (b_futs B) o s1) as [s2 died]. simpl in *.
  pose proof (wake_all_DT c s2) as D3. destruct (wake_all c s2) as [s3 o3]. simpl in *.
  assert (D1 : DT s s2 o1) by (apply DT_starts; [congruence | exact O1]).
  assert (D4 : DT s3 s3 (if died then [TaskDied] else [])).
  { split; auto. intros i o' t H. destruct died; [destruct H as [H|[]]; discriminate | destruct H]. }
  eapply DT_trans; [exact D1|]. eapply DT_trans; [exact D3 | exact D4].
Qed.

Definition is_advance (e : event) : bool := match e with Advance _ => true | _ => false end.

(* every completion of a macro step carries the clock of that step (Advance steps complete nobody) *)
Lemma step_done_times c s e i o t :
  In (CallerDone i o t) (snd (step c s e)) -> t = now s /\ is_advance e = false.
Proof.
  assert (X : forall s' os, DT s s' os -> In (CallerDone i o t) os -> t = now s) by (intros s' os [_ H]; apply H).
  destruct e as [a ko|a ko m|l|dt|b k r|b e|b|cid|n]; simpl; intros H; (split; [|try reflexivity]).
  - eapply X; [apply do_call_DT | exact H].
  - eapply X; [apply do_chain_DT | exact H].
  - eapply X; [apply do_calls_DT | exact H].
  - apply advance_os in H. discriminate.
  - apply advance_os in H. discriminate.
  - destruct (find_batch s b) as [B|]; [|destruct H].
    destruct (lookup (b_futs B) k) as [f|].
    + unfold set_fut in H. match type of H with context [is_done ?s0 f] => destruct (is_done s0 f) end.
      * match type of H with In _ (snd (end_batch c ?B' ?o' ?s0)) => destruct (end_batch_DT c B' o' s0) as [_ D] end.
        now apply D in H.
      * match type of H with In _ (snd (wake_all c ?s1)) => destruct (wake_all_DT c s1) as [_ D] end.
        apply D in H. rewrite H. unfold resolve. destruct (0 <? c_rt c)%N; reflexivity.
    + match type of H with In _ (snd (end_batch c ?B' ?o' ?s0)) => destruct (end_batch_DT c B' o' s0) as [_ D] end.
      now apply D in H.
  - destruct (find_batch s b) as [B|]; [|destruct H].
    match type of H with In _ (snd (end_batch c ?B' ?o' ?s0)) => destruct (end_batch_DT c B' o' s0) as [_ D] end.
    now apply D in H.
  - destruct (find_batch s b) as [B|]; [|destruct H].
    match type of H with In _ (snd (end_batch c ?B' ?o' ?s0)) => destruct (end_batch_DT c B' o' s0) as [_ D] end.
    now apply D in H.
  - unfold cancel_caller in H. destruct (nth_error _ _) as [cl|]; [|destruct H].
    destruct (cl_st cl); [destruct H|]. destruct H as [H|[]]. now injection H as _ _ <-.
  - destruct H.
Qed.

(* ---- no caller completes twice in a macro step -------------------------------------------------- *)

Definition done_ids (os : list obs) : list nat := map done_id (filter is_done_obs os).

Lemma done_ids_app o1 o2 : done_ids (o1 ++ o2) = done_ids o1 ++ done_ids o2.
Proof. unfold done_ids. now rewrite filter_app, map_app. Qed.

Lemma done_ids_starts os : only_starts os -> done_ids os = [].
Proof.
  unfold done_ids. induction os as [|x r IH]; simpl; auto. intros H.
  assert (Hx : is_start x = true) by (apply H; now left).
  destruct x; try discriminate. simpl. apply IH. intros y Hy. apply H. now right.
Qed.

Definition settled (s : state) (i : nat) : Prop := exists cl, nth_error (callers s) i = Some cl /\ cl_st cl <> None.
Definition open_or_new (s : state) (i : nat) : Prop := forall cl, nth_error (callers s) i = Some cl -> cl_st cl = None.

Definition DD (s s' : state) (os : list obs) : Prop :=
  ext_callers s s' /\ NoDup (done_ids os) /\ forall i, In i (done_ids os) -> settled s' i /\ open_or_new s i.

Lemma DD_refl s : True -> DD s s [].
Proof. intros _. split; [now apply ext_refl|]. split; [constructor | intros ? []]. Qed.

Lemma ext_trans s1 s2 s3 : ext_callers s1 s2 -> ext_callers s2 s3 -> ext_callers s1 s3.
Proof.
  intros E1 E2 i cl H. destruct (E1 i cl H) as (cl1 & H1 & A1 & A2 & A3 & A4 & A5).
  destruct (E2 i cl1 H1) as (cl2 & H2 & B1 & B2 & B3 & B4 & B5). exists cl2.
  repeat split; try congruence. intros o Ho. auto.
Qed.

Lemma NoDup_app_intro {A} (l1 l2 : list A) :
  NoDup l1 -> NoDup l2 -> (forall x, In x l1 -> In x l2 -> False) -> NoDup (l1 ++ l2).
Proof.
  induction l1 as [|x r IH]; simpl; intros H1 H2 Hd; auto.
  inversion H1 as [|? ? Hn H1']; subst. constructor.
  - intros H. apply in_app_or in H as [H|H]; [auto | apply (Hd x); auto].
  - apply IH; auto. intros y Hy. apply Hd. now right.
Qed.

Lemma DD_trans s1 s2 s3 o1 o2 : DD s1 s2 o1 -> DD s2 s3 o2 -> DD s1 s3 (o1 ++ o2).
Proof.
  intros (E1 & N1 & A1) (E2 & N2 & A2). split; [eapply ext_trans; eauto|].
  rewrite done_ids_app. split.
  - apply NoDup_app_intro; auto. intros i H1 H2.
    destruct (A1 i H1) as [(cl & Hn & Hs) _]. destruct (A2 i H2) as [_ Ho]. apply Hs. now apply Ho.
  - intros i H. apply in_app_or in H as [H|H].
    + destruct (A1 i H) as [(cl & Hn & Hs) Ho]. split; auto.
      destruct (E2 i cl Hn) as (cl2 & H2 & _ & _ & _ & _ & B5). exists cl2. split; auto.
      destruct (cl_st cl) as [o|] eqn:St; [|congruence]. rewrite (B5 o eq_refl). discriminate.
    + destruct (A2 i H) as [Hs Ho]. split; auto.
      intros cl Hn. destruct (E1 i cl Hn) as (cl1 & H1 & _ & _ & _ & _ & B5).
      specialize (Ho cl1 H1). destruct (cl_st cl) as [o|] eqn:St; auto. rewrite (B5 o eq_refl) in Ho. discriminate.
Qed.

Lemma DD_frame s s' os : callers s' = callers s -> only_starts os -> DD s s' os.
Proof.
  intros E H. split; [now apply ext_refl|]. rewrite (done_ids_starts os H). split; [constructor | intros ? []].
Qed.

Lemma do_call_DD c a ko m s : DD s (fst (do_call c a ko m s)) (snd (do_call c a ko m s)).
Proof.
  destruct (do_call_Dn c a ko m s) as [E D]. split; auto.
  unfold do_call in *. destruct (lookup (ret s) _) as [f|].
  - destruct (lookup (fdone s) f) as [[o t]|]; simpl in *.
    + unfold done_ids. simpl. split; [constructor; [intros []|constructor]|].
      intros i [<-|[]]. split.
      * destruct (D _ _ _ (or_introl eq_refl)) as (cl & Hn & St). exists cl. split; auto. congruence.
      * intros cl Hn. assert (length (callers s) < length (callers s)) by (apply nth_error_Some; congruence). lia.
    + unfold done_ids. simpl. split; [constructor | intros ? []].
  - match goal with |- context [take c ?it ?s1] => pose proof (take_os c it s1) as Hos end.
    rewrite (done_ids_starts _ Hos). split; [constructor | intros ? []].
Qed.

Lemma call_DD_ok c a ko m s : True -> True /\ DD s (fst (do_call c a ko m s)) (snd (do_call c a ko m s)).
Proof. intros _. split; auto. apply do_call_DD. Qed.

(* [wake] reports each resumed caller once: the ids are increasing *)
Lemma wake_from_ids fd t cs : forall i,
  NoDup (done_ids (snd (wake_from fd t i cs))) /\ forall x, In x (done_ids (snd (wake_from fd t i cs))) -> i <= x.
Proof.
  induction cs as [|cl r IH]; intros i; simpl; [split; [constructor | intros ? []]|].
  destruct (IH (S i)) as [N L]. destruct (wake_from fd t (S i) r) as [r' os]. simpl in *.
  destruct (cl_st cl); [split; auto; intros x H; apply L in H; lia|].
  destruct (lookup fd (cl_fid cl)) as [[o t0]|]; simpl; [|split; auto; intros x H; apply L in H; lia].
  unfold done_ids in *. simpl. split.
  - constructor; auto. intros H. apply L in H. lia.
  - intros x [<-|H]; [lia|]. apply L in H. lia.
Qed.

Lemma wake_DD s : DD s (fst (wake s)) (snd (wake s)).
Proof.
  destruct (wake_Dn s) as [E D]. split; auto.
  unfold wake in *. pose proof (wake_from_spec (fdone s) (now s) (callers s) 0) as (_ & _ & Hw).
  destruct (wake_from_ids (fdone s) (now s) (callers s) 0) as [N _].
  destruct (wake_from _ _ _ _) as [cs os]. simpl in *. split; auto.
  intros i Hi. unfold done_ids in Hi. apply in_map_iff in Hi as (x & Ex & Hx). apply filter_In in Hx as [Hx Hd].
  destruct x as [| i' o t |]; try discriminate. simpl in Ex. subst i'.
  split.
  - destruct (D i o t Hx) as (cl & Hn & St). exists cl. split; auto. congruence.
  - destruct (Hw _ Hx) as (j & cl & o' & t0 & Ej & Hn & St & _). injection Ej as -> _ _. simpl.
    intros cl' Hn'. congruence.
Qed.

Lemma do_chain_DD c a ko m s : DD s (fst (do_chain c a ko m s)) (snd (do_chain c a ko m s)).
Proof. apply (lift_chain c (fun _ => True) DD DD_refl DD_trans (call_DD_ok c) a ko m s Logic.I). Qed.

Lemma do_calls_DD c l s : DD s (fst (do_calls c l s)) (snd (do_calls c l s)).
Proof. apply (lift_calls c (fun _ => True) DD DD_refl DD_trans (call_DD_ok c) l s Logic.I). Qed.

Lemma wake_all_DD c s : DD s (fst (wake_all c s)) (snd (wake_all c s)).
Proof.
  apply (lift_wake_all c (fun _ => True) DD DD_refl DD_trans (call_DD_ok c)); auto.
  intros s0 _. split; auto. apply wake_DD.
Qed.

Lemma end_batch_DD c B o s : DD s (fst (end_batch c B o s)) (snd (end_batch c B o s)).
Proof.
  unfold end_batch. set (s0 := set_running s _).
  pose proof (release_slot_sameC s0) as (E1 & _). pose proof (release_slot_os s0) as O1.
  destruct (release_slot s0) as [s1 o1]. simpl in *.
  pose proof (fanout_callers c (b_futs B) o s1) as E2. destruct (fanout c (b_futs B) o s1) as [s2 died]. simpl in *.
  pose proof (wake_all_DD c s2) as D3. destruct (wake_all c s2) as [s3 o3]. simpl in *.
  assert (D1 : DD s s2 o1) by (apply DD_frame; [congruence | exact O1]).
  assert (D4 : DD s3 s3 (if died then [TaskDied] else [])).
  { split; [now apply ext_refl|]. destruct died; unfold done_ids; simpl; (split; [constructor | intros ? []]). }
  eapply DD_trans; [exact D1|]. eapply DD_trans; [exact D3 | exact D4].
Qed.

Lemma step_DD c s e : NoDup (done_ids (snd (step c s e))).
Proof.
  assert (X : forall s' os, DD s s' os -> NoDup (done_ids os)) by (intros s' os (_ & H & _); exact H).
  destruct e as [a ko|a ko m|l|dt|b k r|b e|b|cid|n]; simpl.
  - eapply X, do_call_DD.
  - eapply X, do_chain_DD.
  - eapply X, do_calls_DD.
  - rewrite done_ids_starts; [constructor | apply advance_os].
  - destruct (find_batch s b) as [B|]; [|constructor].
    destruct (lookup (b_futs B) k) as [f|].
    + unfold set_fut. match goal with |- context [is_done ?s0 f] => destruct (is_done s0 f) end.
      * match goal with |- context [end_batch c ?B' ?o' ?s0] => destruct (end_batch_DD c B' o' s0) as (_ & H & _) end. exact H.
      * match goal with |- context [wake_all c ?s1] => destruct (wake_all_DD c s1) as (_ & H & _) end. exact H.
    + match goal with |- context [end_batch c ?B' ?o' ?s0] => destruct (end_batch_DD c B' o' s0) as (_ & H & _) end. exact H.
  - destruct (find_batch s b) as [B|]; [|constructor].
    match goal with |- context [end_batch c ?B' ?o' ?s0] => destruct (end_batch_DD c B' o' s0) as (_ & H & _) end. exact H.
  - destruct (find_batch s b) as [B|]; [|constructor].
    match goal with |- context [end_batch c ?B' ?o' ?s0] => destruct (end_batch_DD c B' o' s0) as (_ & H & _) end. exact H.
  - unfold cancel_caller. destruct (nth_error _ _) as [cl|]; [|constructor].
    destruct (cl_st cl); [constructor|]. unfold done_ids. simpl. constructor; [intros []|constructor].
  - constructor.
Qed.

(* ---- batches never start in the future ----------------------------------------------------------- *)

Definition ST (s s' : state) (os : list obs) : Prop :=
  (now s <= now s')%N /\ forall b items t, In (BatchStart b items t) os -> (t <= now s')%N.

Lemma ST_refl s : True -> ST s s [].
Proof. intros _. split; [lia | intros ? ? ? []]. Qed.

Lemma ST_trans s1 s2 s3 o1 o2 : ST s1 s2 o1 -> ST s2 s3 o2 -> ST s1 s3 (o1 ++ o2).
Proof.
  intros [A1 A2] [B1 B2]. split; [lia|]. intros b items t H. apply in_app_or in H as [H|H]; [|eauto].
  apply A2 in H. lia.
Qed.

Lemma ST_none s s' os : (now s <= now s')%N -> (forall x, In x os -> is_start x = false) -> ST s s' os.
Proof. intros H1 H2. split; auto. intros b items t H. apply H2 in H. discriminate. Qed.

Lemma start_batch_ST its s : ST s (fst (start_batch its s)) (snd (start_batch its s)).
Proof. unfold start_batch, ST. simpl. split; [lia|]. intros b items t [H|[]]. injection H as _ _ <-. lia. Qed.

Lemma dispatch_ST its s : ST s (fst (dispatch its s)) (snd (dispatch its s)).
Proof.
  unfold dispatch. cbn [free set_spawn waiting]. destruct (0 <? free s).
  - match goal with |- ST _ (fst (start_batch its ?s1)) _ => pose proof (start_batch_ST its s1) as H end. exact H.
  - split; [simpl; lia | intros ? ? ? []].
Qed.

Lemma release_slot_ST s : ST s (fst (release_slot s)) (snd (release_slot s)).
Proof.
  unfold release_slot. destruct (waiting s) as [|w ws]; [split; [simpl; lia | intros ? ? ? []]|].
  pose proof (start_batch_ST w (set_waiting s ws)) as H. exact H.
Qed.

Lemma take_ST c it s : ST s (fst (take c it s)) (snd (take c it s)).
Proof.
  unfold take. destruct (_ <? maxb s); [split; [simpl; lia | intros ? ? ? []]|].
  match goal with |- ST _ (fst (dispatch ?x ?s1)) _ => pose proof (dispatch_ST x s1) as H end. exact H.
Qed.

Lemma do_call_ST c a ko m s : ST s (fst (do_call c a ko m s)) (snd (do_call c a ko m s)).
Proof.
  unfold do_call. destruct (lookup (ret s) _) as [f|].
  - destruct (lookup (fdone s) f) as [[o t]|]; unfold ST; simpl; (split; [lia|]); [|intros ? ? ? []].
    intros b items t' [H|[]]. discriminate.
  - match goal with |- ST _ (fst (take c ?it ?s1)) _ => pose proof (take_ST c it s1) as H end. exact H.
Qed.

Lemma call_ST_ok c a ko m s : True -> True /\ ST s (fst (do_call c a ko m s)) (snd (do_call c a ko m s)).
Proof. intros _. split; auto. apply do_call_ST. Qed.

Lemma wake_ST s : ST s (fst (wake s)) (snd (wake s)).
Proof.
  destruct (wake_clock s) as [E _]. apply ST_none; [lia|].
  intros x H. pose proof (wake_from_no_start (fdone s) (now s) (callers s) 0) as Hn.
  unfold wake in H. destruct (wake_from _ _ _ _) as [cs os]. simpl in *.
  destruct (is_start x) eqn:Ex; auto. assert (In x (filter is_start os)) by (apply filter_In; auto).
  rewrite Hn in H0. destruct H0.
Qed.

Lemma do_chain_ST c a ko m s : ST s (fst (do_chain c a ko m s)) (snd (do_chain c a ko m s)).
Proof. apply (lift_chain c (fun _ => True) ST ST_refl ST_trans (call_ST_ok c) a ko m s Logic.I). Qed.

Lemma do_calls_ST c l s : ST s (fst (do_calls c l s)) (snd (do_calls c l s)).
Proof. apply (lift_calls c (fun _ => True) ST ST_refl ST_trans (call_ST_ok c) l s Logic.I). Qed.

Lemma wake_all_ST c s : ST s (fst (wake_all c s)) (snd (wake_all c s)).
Proof.
  apply (lift_wake_all c (fun _ => True) ST ST_refl ST_trans (call_ST_ok c)); auto.
  intros s0 _. split; auto. apply wake_ST.
Qed.

Lemma end_batch_ST c B o s : ST s (fst (end_batch c B o s)) (snd (end_batch c B o s)).
Proof.
  unfold end_batch. set (s0 := set_running s _).
  pose proof (release_slot_ST s0) as D1. destruct (release_slot s0) as [s1 o1]. simpl in *.
  pose proof (fanout_clock c (b_futs B) o s1) as [C2 _]. destruct (fanout c (b_futs B) o s1) as [s2 died]. simpl in *.
  pose proof (wake_all_ST c s2) as D3. destruct (wake_all c s2) as [s3 o3]. simpl in *.
  assert (D2 : ST s1 s2 []) by (split; [lia | intros ? ? ? []]).
  assert (D4 : ST s3 s3 (if died then [TaskDied] else [])).
  { split; [lia|]. intros b items t H. destruct died; [destruct H as [H|[]]; discriminate | destruct H]. }
  pose proof (ST_trans _ _ _ _ _ D1 (ST_trans _ _ _ _ _ D2 (ST_trans _ _ _ _ _ D3 D4))) as H. exact H.
Qed.

Lemma fire_at_ST t s : ST s (fst (fire_at t s)) (snd (fire_at t s)).
Proof.
  unfold fire_at. set (s1 := set_now s (N.max (now s) t)). set (s2 := set_rtimers _ _).
  assert (H2 : ST s s2 []) by (split; [simpl; lia | intros ? ? ? []]).
  destruct (coll s2) as [[its dl]|]; [|exact H2]. destruct (dl <=? t)%N; [|exact H2].
  match goal with |- ST _ (fst (dispatch its ?s3)) _ =>
    pose proof (dispatch_ST its s3) as H3; assert (H23 : ST s s3 []) by (split; [simpl; lia | intros ? ? ? []]) end.
  pose proof (ST_trans _ _ _ _ _ H23 H3) as H. exact H.
Qed.

Lemma advance_ST fuel target : forall s, ST s (fst (advance fuel target s)) (snd (advance fuel target s)).
Proof.
  induction fuel as [|n IH]; intros s; simpl; [split; [simpl; lia | intros ? ? ? []]|].
  destruct (next_deadline s) as [t|]; [|split; [simpl; lia | intros ? ? ? []]].
  destruct (t <=? target)%N; [|split; [simpl; lia | intros ? ? ? []]].
  pose proof (fire_at_ST t s) as H1. destruct (fire_at t s) as [s1 o1].
  specialize (IH s1). destruct (advance n target s1) as [s2 o2]. simpl in *. eapply ST_trans; eauto.
Qed.

Lemma step_ST c s e : ST s (fst (step c s e)) (snd (step c s e)).
Proof.
  destruct e as [a ko|a ko m|l|dt|b k r|b e|b|cid|n]; simpl.
  - apply do_call_ST.
  - apply do_chain_ST.
  - apply do_calls_ST.
  - apply advance_ST.
  - destruct (find_batch s b) as [B|]; [|now apply ST_refl].
    destruct (lookup (b_futs B) k) as [f|].
    + unfold set_fut. match goal with |- context [is_done ?s0 f] => destruct (is_done s0 f) end.
      * match goal with |- ST _ (fst (end_batch c ?B' ?o' ?s0)) _ => pose proof (end_batch_ST c B' o' s0) as H end. exact H.
      * match goal with |- ST _ (fst (wake_all c ?s1)) _ => pose proof (wake_all_ST c s1) as [H1 H2] end.
        split; auto. etransitivity; [|exact H1]. unfold resolve. destruct (0 <? c_rt c)%N; simpl; lia.
    + match goal with |- ST _ (fst (end_batch c ?B' ?o' ?s0)) _ => pose proof (end_batch_ST c B' o' s0) as H end. exact H.
  - destruct (find_batch s b) as [B|]; [|now apply ST_refl].
    match goal with |- ST _ (fst (end_batch c ?B' ?o' ?s0)) _ => pose proof (end_batch_ST c B' o' s0) as H end. exact H.
  - destruct (find_batch s b) as [B|]; [|now apply ST_refl].
    match goal with |- ST _ (fst (end_batch c ?B' ?o' ?s0)) _ => pose proof (end_batch_ST c B' o' s0) as H end. exact H.
  - unfold cancel_caller. destruct (nth_error _ _) as [cl|]; [|now apply ST_refl].
    destruct (cl_st cl); [now apply ST_refl|]. simpl. split; [simpl; lia|]. intros b items t [H|[]]. discriminate.
  - split; [simpl; lia | intros ? ? ? []].
Qed.
