(* Bridge.v — executable model of the sync/async iterator bridges
   to_async_iter / to_sync_iter (aiuti/asyncio.py:146-266).  No proofs here
   (see BridgeInv.v, BridgeLive.v, props/C16.v).

   Two parties: the producer worker (the one thread of ThreadPoolExecutor(1))
   and the consumer (for to_async_iter: the consuming event loop's thread, which
   runs the loop's callbacks, the consumer task and every other task of that
   loop; for to_sync_iter: the calling thread).  Small-step machine

       step : cfg -> state -> choice -> state          run c sch = fold_left (step c) sch (init c)

   with choice = W (worker's next operation) | D (the loop runs one callback
   scheduled with call_soon_threadsafe) | C (the consumer's next operation) |
   T (another task of the consuming loop runs: the "ticker").  A disabled choice
   is a stutter, so theorems quantify over ALL schedules (lists of choices).
   Ghost history: consumed (what the consumer was handed, in order), ticks,
   starved (a tick was wanted while the loop thread sat inside the source).

   Source lines (asyncio.py):
     l.180-183  non-Iterator iterables are iterated inline         -> CInlinePull
     l.185-190  _queue_elements: for x in iterable: put(x) / finally put(_DONE)
     l.192-198  q = aio.Queue(); put = call_soon_threadsafe(q.put_nowait, .)
     l.199-203  with ThreadPoolExecutor(1): run_in_executor; while (await q.get()) is not _DONE: yield; await future
     l.251-256  async _queue_elements (to_sync_iter), same shape
     l.258-266  q = queue.Queue(); pool.submit; while q.get() is not _DONE: yield; finally future.result()
   Since fix F10 (23b50d7) the to_async_iter producer stores the source's exception in a
   side slot (`errors`) and returns normally; the consumer re-raises the slot after
   `await future`.  In the model `pst` IS that slot (PFailed e = the exception object the
   source raised; for to_sync_iter it is the exception carried by the executor future) and
   `futdone`/`afut` only say "the worker's function has ended / the loop knows it": the step
   structure, the gates and every observation are unchanged, so the model reads the same.
   Modelled, not verified: asyncio.Queue / queue.Queue (FIFO lists), the loop's
   thread-safe ready queue (FIFO list of callbacks), concurrent.futures.Future
   and asyncio.wrap_future (futdone / afut flags), ThreadPoolExecutor(1)
   (one worker, shutdown(wait=True) = wait until the worker has ended). *)
From Coq Require Import List Arith Bool.
Import ListNotations.

(* ---- configuration ------------------------------------------------------- *)

Inductive fn := FAsync | FSync.          (* to_async_iter | to_sync_iter *)

Record cfg := mkCfg {
  c_fn : fn;
  c_noniter : bool;        (* to_async_iter only: the argument is not an Iterator (list, range, ...) *)
  c_src : list nat;        (* element identities, arbitrary (duplicates, "None", falsy ... are just ids) *)
  c_fail : option nat;     (* Some k: the source raises when asked for element k (after k elements) *)
  c_exc : nat              (* identity of the exception object the source raises *)
}.

Definition is_async (c : cfg) : bool := match c_fn c with FAsync => true | FSync => false end.
Definition inline (c : cfg) : bool := is_async c && c_noniter c.

Inductive pres := PElem (x : nat) | PStop | PFail (e : nat).

Definition fails_at (c : cfg) (p : nat) : bool :=
  match c_fail c with Some k => Nat.eqb k p | None => false end.

(* asking the source for its element number p *)
Definition pull (c : cfg) (p : nat) : pres :=
  if fails_at c p then PFail (c_exc c)
  else match nth_error (c_src c) p with Some x => PElem x | None => PStop end.

(* number of elements the source hands out before it stops or raises *)
Definition delivered (c : cfg) : nat :=
  match c_fail c with
  | Some k => if k <=? length (c_src c) then k else length (c_src c)
  | None => length (c_src c)
  end.

(* how the iteration must end: the source's own exception if it raises, else a normal stop *)
Inductive outcome := Stop | Raised (e : nat).

Definition expected_out (c : cfg) : outcome :=
  match c_fail c with
  | Some k => if k <=? length (c_src c) then Raised (c_exc c) else Stop
  | None => Stop
  end.

(* ---- state --------------------------------------------------------------- *)

Inductive item := IElem (x : nat) | IDone.        (* what travels through the hand-off queue; IDone = _DONE *)
Inductive cb := CbPut (it : item) | CbFut.         (* callbacks handed to the loop with call_soon_threadsafe *)

Inductive pstat := PRunning | PFinished | PFailed (e : nat).

(* where the worker thread is parked (the operation it performs next) *)
Inductive wpc :=
| WNone                 (* not submitted yet *)
| WStart                (* submitted, thread not started *)
| WPull                 (* inside the source's __next__ / __anext__ ("mid-pull") *)
| WPut (it : item)      (* about to call put(it) *)
| WFin                  (* function returned / raised: about to complete the executor future *)
| WNotify               (* to_async_iter: about to call_soon_threadsafe the wrap_future callback *)
| WDone.                (* thread ended *)

Inductive cstat :=
| CInit                 (* generator not started *)
| CReading              (* at (await) q.get() *)
| CAwait                (* saw _DONE: at await future / future.result() *)
| CJoin (o : outcome)   (* leaving the with block: pool.shutdown(wait=True) *)
| CDone (o : outcome)   (* iteration finished: StopIteration / the exception *)
| CInlinePull.          (* inline branch: the loop thread is inside the source's __next__ *)

Record state := mkSt {
  pos : nat;                 (* source position = elements pulled so far *)
  ready : list cb;           (* loop's thread-safe ready queue (to_async_iter) *)
  queue : list item;         (* asyncio.Queue / queue.Queue *)
  consumed : list nat;       (* ghost: elements yielded to the consumer, in order *)
  pst : pstat;               (* how the source ended: PFailed e carries the source's own exception object
                                (the `errors` slot of to_async_iter / the executor future's exception of to_sync_iter) *)
  futdone : bool;            (* executor future completed *)
  afut : bool;               (* asyncio future (wrap_future) completed *)
  cst : cstat;
  wp : wpc;
  worker_alive : bool;
  ticks : nat;               (* ghost: ticks of the other task *)
  starved : bool             (* ghost: a tick was due while the loop thread was blocked inside the source *)
}.

Definition init (c : cfg) : state :=
  mkSt 0 [] [] [] PRunning false false CInit WNone false 0 false.

Definition set_pos s v := mkSt v (ready s) (queue s) (consumed s) (pst s) (futdone s) (afut s) (cst s) (wp s) (worker_alive s) (ticks s) (starved s).
Definition set_ready s v := mkSt (pos s) v (queue s) (consumed s) (pst s) (futdone s) (afut s) (cst s) (wp s) (worker_alive s) (ticks s) (starved s).
Definition set_queue s v := mkSt (pos s) (ready s) v (consumed s) (pst s) (futdone s) (afut s) (cst s) (wp s) (worker_alive s) (ticks s) (starved s).
Definition set_consumed s v := mkSt (pos s) (ready s) (queue s) v (pst s) (futdone s) (afut s) (cst s) (wp s) (worker_alive s) (ticks s) (starved s).
Definition set_pst s v := mkSt (pos s) (ready s) (queue s) (consumed s) v (futdone s) (afut s) (cst s) (wp s) (worker_alive s) (ticks s) (starved s).
Definition set_futdone s v := mkSt (pos s) (ready s) (queue s) (consumed s) (pst s) v (afut s) (cst s) (wp s) (worker_alive s) (ticks s) (starved s).
Definition set_afut s v := mkSt (pos s) (ready s) (queue s) (consumed s) (pst s) (futdone s) v (cst s) (wp s) (worker_alive s) (ticks s) (starved s).
Definition set_cst s v := mkSt (pos s) (ready s) (queue s) (consumed s) (pst s) (futdone s) (afut s) v (wp s) (worker_alive s) (ticks s) (starved s).
Definition set_wp s v := mkSt (pos s) (ready s) (queue s) (consumed s) (pst s) (futdone s) (afut s) (cst s) v (worker_alive s) (ticks s) (starved s).
Definition set_alive s v := mkSt (pos s) (ready s) (queue s) (consumed s) (pst s) (futdone s) (afut s) (cst s) (wp s) v (ticks s) (starved s).
Definition set_ticks s v := mkSt (pos s) (ready s) (queue s) (consumed s) (pst s) (futdone s) (afut s) (cst s) (wp s) (worker_alive s) v (starved s).
Definition set_starved s v := mkSt (pos s) (ready s) (queue s) (consumed s) (pst s) (futdone s) (afut s) (cst s) (wp s) (worker_alive s) (ticks s) v.

(* ---- steps --------------------------------------------------------------- *)

Inductive choice := W | D | C | T.

Definition outcome_of (p : pstat) : outcome :=
  match p with PFailed e => Raised e | _ => Stop end.

Definition wend (s : state) : state := set_alive (set_wp s WDone) false.

(* ProdNext, split at the gates of the implementation: pull, put, complete future, notify loop *)
Definition stepW (c : cfg) (s : state) : state :=
  match wp s with
  | WNone | WDone => s
  | WStart => set_wp s WPull
  | WPull =>
      match pull c (pos s) with
      | PElem x => set_wp (set_pos s (S (pos s))) (WPut (IElem x))
      | PStop => set_wp (set_pst s PFinished) (WPut IDone)          (* finally: put(_DONE) *)
      | PFail e => set_wp (set_pst s (PFailed e)) (WPut IDone)      (* finally: put(_DONE) *)
      end
  | WPut it =>
      let s1 := if is_async c then set_ready s (ready s ++ [CbPut it])
                else set_queue s (queue s ++ [it]) in
      set_wp s1 (match it with IElem _ => WPull | IDone => WFin end)
  | WFin =>
      let s1 := set_futdone s true in
      if is_async c then set_wp s1 WNotify else wend s1
  | WNotify => wend (set_ready s (ready s ++ [CbFut]))
  end.

(* Deliver: the consuming loop runs the oldest thread-safe callback *)
Definition stepD (c : cfg) (s : state) : state :=
  if is_async c then
    match ready s with
    | [] => s
    | CbPut it :: r => set_queue (set_ready s r) (queue s ++ [it])
    | CbFut :: r => set_afut (set_ready s r) true
    end
  else s.

(* ConsRead / ConsFinish (await future, then join the worker) / inline iteration *)
Definition stepC (c : cfg) (s : state) : state :=
  match cst s with
  | CInit =>
      if inline c then set_cst s CInlinePull
      else set_alive (set_wp (set_cst s CReading) WStart) true
  | CReading =>
      match queue s with
      | [] => s
      | IElem x :: q => set_consumed (set_queue s q) (consumed s ++ [x])
      | IDone :: q => set_cst (set_queue s q) CAwait
      end
  | CAwait =>
      if (if is_async c then afut s else futdone s) then set_cst s (CJoin (outcome_of (pst s))) else s
  | CJoin o =>
      match wp s with WDone => set_cst s (CDone o) | _ => s end
  | CDone _ => s
  | CInlinePull =>
      match pull c (pos s) with
      | PElem x => set_consumed (set_pos s (S (pos s))) (consumed s ++ [x])
      | PStop => set_cst s (CDone Stop)
      | PFail e => set_cst s (CDone (Raised e))
      end
  end.

(* Tick: may another task of the consuming loop run now? *)
Definition enT (c : cfg) (s : state) : bool :=
  is_async c && match cst s with CInit | CReading | CAwait => true | _ => false end.

Definition stepT (c : cfg) (s : state) : state :=
  if enT c s then set_ticks s (S (ticks s))
  else if is_async c && match cst s with CInlinePull => true | _ => false end
       then set_starved s true else s.

Definition step (c : cfg) (s : state) (ch : choice) : state :=
  match ch with W => stepW c s | D => stepD c s | C => stepC c s | T => stepT c s end.

Definition run (c : cfg) (sch : list choice) : state := fold_left (step c) sch (init c).

(* ---- enabledness --------------------------------------------------------- *)

Definition enW (s : state) : bool := match wp s with WNone | WDone => false | _ => true end.
Definition enD (c : cfg) (s : state) : bool :=
  is_async c && match ready s with [] => false | _ => true end.
Definition enC (c : cfg) (s : state) : bool :=
  match cst s with
  | CInit | CInlinePull => true
  | CReading => match queue s with [] => false | _ => true end
  | CAwait => if is_async c then afut s else futdone s
  | CJoin _ => match wp s with WDone => true | _ => false end
  | CDone _ => false
  end.
Definition enabled (c : cfg) (s : state) (ch : choice) : bool :=
  match ch with W => enW s | D => enD c s | C => enC c s | T => enT c s end.

Definition is_done (s : state) : bool := match cst s with CDone _ => true | _ => false end.
Definition mid_pull (s : state) : bool := match wp s with WPull => true | _ => false end.

(* ---- measure: exact number of non-Tick steps still to be taken ------------ *)

Definition rem_elems (c : cfg) (s : state) : nat := delivered c - pos s.
Definition afl (c : cfg) : nat := if is_async c then 1 else 0.

(* W steps left *)
Definition wrem (c : cfg) (s : state) : nat :=
  if inline c then 0 else
  match wp s with
  | WNone => 2 * rem_elems c s + 4 + afl c
  | WStart => 2 * rem_elems c s + 4 + afl c
  | WPull => 2 * rem_elems c s + 3 + afl c
  | WPut (IElem _) => 2 * rem_elems c s + 4 + afl c
  | WPut IDone => 2 + afl c
  | WFin => 1 + afl c
  | WNotify => 1
  | WDone => 0
  end.

(* callbacks not yet handed to the loop *)
Definition cb_topost (c : cfg) (s : state) : nat :=
  if inline c then 0 else
  match wp s with
  | WNone | WStart | WPull => rem_elems c s + 2
  | WPut (IElem _) => rem_elems c s + 3
  | WPut IDone => 2
  | WFin | WNotify => 1
  | WDone => 0
  end.
Definition drem (c : cfg) (s : state) : nat :=
  if is_async c then length (ready s) + cb_topost c s else 0.

(* items not yet put *)
Definition it_toput (c : cfg) (s : state) : nat :=
  if inline c then 0 else
  match wp s with
  | WNone | WStart | WPull => rem_elems c s + 1
  | WPut (IElem _) => rem_elems c s + 2
  | WPut IDone => 1
  | _ => 0
  end.
Definition is_put (x : cb) : bool := match x with CbPut _ => true | CbFut => false end.
Definition cstage (c : cfg) (s : state) : nat :=
  match cst s with
  | CInit => if inline c then rem_elems c s + 2 else 3
  | CReading => 2
  | CAwait => 2
  | CJoin _ => 1
  | CDone _ => 0
  | CInlinePull => rem_elems c s + 1
  end.
Definition crem (c : cfg) (s : state) : nat :=
  cstage c s + length (queue s) + length (filter is_put (ready s)) + it_toput c s.

Definition measure (c : cfg) (s : state) : nat := wrem c s + drem c s + crem c s.
