(* CacheRetry.v — C05 retry_measure: no spinning.  The run of the cache model (Cache.step) is
   instrumented from outside: a step is classified by (pre-state, event); counters are folds
   along the accepted event list.  Every further round of a caller's while-loop is paid for by an
   invocation ending, a proxy result, a loop being closed, or 60 virtual seconds. *)
From Coq Require Import List Arith NArith Bool Lia ZifyBool ZifyNat ZifyN.
Import ListNotations.
Require Import Aiuti.Cache Aiuti.CacheLemmas Aiuti.CacheInv Aiuti.CacheLive.

(* ---- instrumentation ---- *)
Inductive rkind := RClosed | RWake | RProxy | RTimeout.

Definition rkind_eqb (a b : rkind) : bool :=
  match a, b with
  | RClosed, RClosed | RWake, RWake | RProxy, RProxy | RTimeout, RTimeout => true
  | _, _ => false
  end.

(* a retry of caller c = an accepted Get of c that starts a further round of its while-loop *)
Definition retry_kind (c : nat) (s : state) (e : ev) : option rkind :=
  match e with
  | Get _ c' =>
      if c' =? c then
        match getc s c with
        | Some cr =>
            match cpc cr with
            | PProbe => Some RClosed
            | PWait e _ => Some (if isset s e then RWake else RTimeout)
            | PWaitX _ _ _ xd _ => Some (match xd with Some _ => RProxy | None => RTimeout end)
            | _ => None
            end
        | None => None
        end
      else None
  | _ => None
  end.

Definition is_retry (c : nat) (s : state) (e : ev) : bool :=
  match retry_kind c s e with Some _ => true | None => false end.
Definition is_kind (k : rkind) (c : nat) (s : state) (e : ev) : bool :=
  match retry_kind c s e with Some k' => rkind_eqb k k' | None => false end.

Definition b2n (b : bool) : nat := if b then 1 else 0.

(* number of accepted events, classified in their pre-state; counting stops at the first rejected event *)
Fixpoint count_run (f : state -> ev -> bool) (s : state) (tr : list ev) : nat :=
  match tr with
  | [] => 0
  | e :: r => match step s e with Some s' => b2n (f s e) + count_run f s' r | None => 0 end
  end.

Definition retries (c : nat) := count_run (is_retry c).
Definition wakes (c : nat) := count_run (is_kind RWake c).
Definition proxies (c : nat) := count_run (is_kind RProxy c).
Definition timeouts (c : nat) := count_run (is_kind RTimeout c).
Definition closed (c : nat) := count_run (is_kind RClosed c).

Definition n_ev (p : ev -> bool) (tr : list ev) : nat := length (filter p tr).
Definition is_iend (e : ev) : bool := match e with IEnd _ _ _ => true | _ => false end.
Definition is_proxy (c : nat) (e : ev) : bool := match e with Proxy _ c' _ => c' =? c | _ => false end.
Definition is_close (e : ev) : bool := match e with LoopEv _ 3 => true | _ => false end.
Definition n_iend := n_ev is_iend.
Definition n_proxy (c : nat) := n_ev (is_proxy c).
Definition n_close := n_ev is_close.

(* ---- 1. the kinds partition the retries ---- *)
Lemma retry_split c s tr :
  retries c s tr = wakes c s tr + proxies c s tr + timeouts c s tr + closed c s tr.
Proof.
  unfold retries, wakes, proxies, timeouts, closed. revert s.
  induction tr as [|e r IH]; intros s; simpl; [reflexivity|].
  destruct (step s e) as [s'|]; [|reflexivity]. rewrite IH.
  unfold is_retry, is_kind. destruct (retry_kind c s e) as [[]|]; simpl; lia.
Qed.

(* ---- ghost state carried along a run ---- *)
Section Ghost.
Context {G : Type}.
Variable upd : G -> state -> ev -> G.

Fixpoint ghost_run (g : G) (s : state) (tr : list ev) : G :=
  match tr with
  | [] => g
  | e :: r => match step s e with Some s' => ghost_run (upd g s e) s' r | None => g end
  end.

Lemma ghost_ind (P : G -> state -> Prop) :
  (forall g s e s', Inv s -> LInv s -> P g s -> step s e = Some s' -> P (upd g s e) s') ->
  forall tr g s s', Inv s -> LInv s -> P g s -> run s tr = Some s' -> P (ghost_run g s tr) s'.
Proof.
  intros HP. induction tr as [|e r IH]; intros g s s' I LI Hg H; simpl in *.
  - injection H as <-. exact Hg.
  - destruct (step s e) as [s1|] eqn:Hs; [|discriminate].
    eapply IH; [| | |exact H].
    + apply step_trans in Hs as [_ Ht]. eapply pres_Inv1; eauto.
    + eapply pres_LInv; eauto.
    + eapply HP; eauto.
Qed.

Lemma ghost_count (proj : G -> nat) (f : state -> ev -> bool) :
  (forall g s e, proj (upd g s e) = proj g + b2n (f s e)) ->
  forall tr g s, proj (ghost_run g s tr) = proj g + count_run f s tr.
Proof.
  intros Hp. induction tr as [|e r IH]; intros g s; simpl; [lia|].
  destruct (step s e) as [s1|]; [|lia]. rewrite IH, Hp. lia.
Qed.
End Ghost.

Lemma count_run_trace (p : ev -> bool) : forall tr s s', run s tr = Some s' ->
  count_run (fun _ e => p e) s tr = n_ev p tr.
Proof.
  unfold n_ev. induction tr as [|e r IH]; intros s s' H; simpl in *; [reflexivity|].
  destruct (step s e) as [s1|]; [|discriminate]. rewrite (IH _ _ H).
  destruct (p e); reflexivity.
Qed.

(* ---- what a retry step looks like ---- *)
Definition kind_pre (s : state) (cr : crec) (k : rkind) : Prop :=
  match k with
  | RClosed => cpc cr = PProbe
  | RWake => exists e dl, cpc cr = PWait e dl /\ isset s e = true
  | RProxy => exists l e dl r xs, cpc cr = PWaitX l e dl (Some r) xs
  | RTimeout => (exists e dl, cpc cr = PWait e dl /\ isset s e = false /\ (dl <= now s)%N)
                \/ (exists l e dl xs, cpc cr = PWaitX l e dl None xs /\ (dl <= now s)%N)
  end.

Lemma kind_inv c s e s' k : trans s e s' -> retry_kind c s e = Some k ->
  exists t cr, e = Get t c /\ getc s c = Some cr /\ s' = set_pc s c cr (probe_pc s cr)
               /\ kind_pre s cr k.
Proof.
  intros T Hk. destruct e; try discriminate Hk. simpl in Hk.
  destruct (Nat.eqb_spec c0 c); [subst c0|discriminate].
  remember (Get t c) as ev eqn:Hev. destruct T; try discriminate Hev; injection Hev as <- <-.
  - rewrite H in Hk. exists t0, cr. repeat split; auto.
    destruct H2 as [(Hp & _) | [Hp | [(e & dl & Hp & _ & Hw) | (l & e & dl & xd & xs & Hp & _ & Hw)]]];
      rewrite Hp in Hk; try discriminate Hk; injection Hk as <-; simpl.
    + assumption.
    + destruct (isset s e) eqn:Hs; simpl in *; eauto.
      left. exists e, dl. repeat split; auto. apply N.leb_le. assumption.
    + destruct xd; simpl in *; eauto 10.
      right. exists l, e, dl, xs. split; auto. apply N.leb_le. assumption.
  - rewrite H, H2 in Hk. discriminate.
Qed.

(* the caller's own record after a retry step *)
Lemma getc_probe s c cr : getc s c = Some cr ->
  getc (set_pc s c cr (probe_pc s cr)) c = Some (mkC (cloop cr) (ckey cr) (probe_pc s cr) (ccanc cr)).
Proof. intros H. erewrite getc_set_pc by eassumption. rewrite Nat.eqb_refl. reflexivity. Qed.

Lemma probe_pc_cases s cr : (exists v, probe_pc s cr = PFinish (ORet v)) \/ probe_pc s cr = PMiss1.
Proof. unfold probe_pc. destruct (cache_at s (ckey cr)); eauto. Qed.

(* non-retry steps: case analysis with the classifier already decided *)
Ltac nonretry Hk :=
  simpl in Hk;
  repeat match type of Hk with
         | context [if ?a =? ?b then _ else _] => destruct (Nat.eqb_spec a b); [subst|]
         end;
  repeat match goal with
         | Hg : getc ?s ?c = Some _ |- _ =>
             match type of Hk with context [getc s c] => rewrite Hg in Hk end
         end.

(* ---- 2. proxy-resumes are paid for by Proxy events ---- *)
Definition xdone (p : pc) : nat := match p with PWaitX _ _ _ (Some _) _ => 1 | _ => 0 end.
Lemma ms_xdone s cr : xdone (cpc (mark_started s cr)) = xdone (cpc cr).
Proof. apply ms_class. reflexivity. Qed.

Definition updP (c : nat) (g : nat * nat) (s : state) (e : ev) : nat * nat :=
  (fst g + b2n (is_kind RProxy c s e), snd g + b2n (is_proxy c e)).
Definition PP (c : nat) (g : nat * nat) (s : state) : Prop :=
  fst g <= snd g /\ forall cr, getc s c = Some cr -> fst g + xdone (cpc cr) <= snd g.

Lemma PP_step c g s e s' : PP c g s -> step s e = Some s' -> PP c (updP c g s e) s'.
Proof.
  intros [P1 P2] Hs. apply step_trans in Hs as [_ T]. destruct g as [kp kn].
  unfold PP, updP, is_kind in *. simpl fst in *. simpl snd in *.
  destruct (retry_kind c s e) as [k|] eqn:Hk.
  - destruct (kind_inv _ _ _ _ _ T Hk) as (t & cr & -> & Hg & -> & Hpre). simpl is_proxy. simpl b2n at 2 4.
    specialize (P2 _ Hg). rewrite (getc_probe _ _ _ Hg).
    assert (Hx : xdone (probe_pc s cr) = 0) by (destruct (probe_pc_cases s cr) as [(v & ->) | ->]; reflexivity).
    destruct k; simpl in *; try (split; [lia|]; intros ? Hq; injection Hq as <-; simpl; lia).
    destruct Hpre as (l & e & dl & r & xs & Hp). rewrite Hp in P2. simpl in P2.
    split; [lia|]. intros ? Hq; injection Hq as <-; simpl; lia.
  - simpl b2n at 1 3.
    tcases T; simpl is_proxy.
    all: split; [simpl; try lia; destruct (_ =? _); simpl; lia|].
    all: intros cr1 Hg1; start_ s; rewrite ?ms_xdone; simpl b2n; simpl xdone;
         try solve [ specialize (P2 _ Hg1); lia ].
    all: try match goal with Hg : getc _ _ = Some _ |- _ => pose proof (P2 _ Hg) as P2' end.
    all: try lia.
    all: mv_simpl; try lia.
    all: try match goal with Hc : cpc _ = _ |- _ => rewrite Hc in *; simpl in *; lia end.
    all: specialize (P2 _ eq_refl); lia.
Qed.

Lemma proxies_bound n tbl tr s c : run (init n tbl) tr = Some s ->
  proxies c (init n tbl) tr <= n_proxy c tr.
Proof.
  intros H.
  assert (HP : PP c (ghost_run (updP c) (0, 0) (init n tbl) tr) s).
  { eapply (ghost_ind (updP c) (PP c)); [| apply Inv_init | apply LInv_init | | exact H].
    - intros g s0 e s1 _ _. apply PP_step.
    - split; simpl; [lia|]. intros cr Hg. apply init_pc in Hg. rewrite Hg. simpl. lia. }
  destruct HP as [HP _].
  rewrite (ghost_count (updP c) fst (is_kind RProxy c)) in HP by reflexivity.
  rewrite (ghost_count (updP c) snd (fun _ e => is_proxy c e)) in HP by reflexivity.
  rewrite (count_run_trace _ _ _ _ H) in HP. exact HP.
Qed.


(* ---- 3. every timed-out wait round costs 60 virtual seconds ---- *)
Definition updT (c : nat) (k : nat) (s : state) (e : ev) : nat := k + b2n (is_kind RTimeout c s e).
Definition PT (c : nat) (k : nat) (s : state) : Prop :=
  (N.of_nat k * SAFETY <= now s)%N
  /\ forall cr dl, getc s c = Some cr -> dl_of (cpc cr) = Some dl -> (N.of_nat k * SAFETY + SAFETY <= dl)%N.

Lemma probe_dl s cr : dl_of (probe_pc s cr) = None.
Proof. destruct (probe_pc_cases s cr) as [(v & ->) | ->]; reflexivity. Qed.

Lemma PT_step c k s e s' : PT c k s -> step s e = Some s' -> PT c (updT c k s e) s'.
Proof.
  intros [P1 P2] Hs. apply step_trans in Hs as [_ T].
  unfold PT, updT, is_kind in *.
  destruct (retry_kind c s e) as [kd|] eqn:Hk.
  - destruct (kind_inv _ _ _ _ _ T Hk) as (t & cr & -> & Hg & -> & Hpre).
    rewrite (getc_probe _ _ _ Hg). change (now (set_pc s c cr (probe_pc s cr))) with (now s).
    split.
    + destruct kd; simpl in *; try lia.
      destruct Hpre as [(e & dl & Hp & _ & Hd) | (l & e & dl & xs & Hp & Hd)];
        (assert (Hq : dl_of (cpc cr) = Some dl) by (rewrite Hp; reflexivity));
        specialize (P2 _ _ Hg Hq); unfold SAFETY in *; lia.
    + intros ? dl Hq Hd. injection Hq as <-. simpl in Hd. rewrite probe_dl in Hd. discriminate.
  - simpl b2n. rewrite Nat.add_0_r.
    tcases T.
    all: split; [simpl now; try lia|].
    all: intros cr1 dl1 Hg1 Hd1; start_ s; rewrite ?ms_dl in *; proj_norm.
    all: try solve [ eapply P2; eauto ].
    all: try (rewrite probe_dl in Hd1; discriminate Hd1).
    all: mv_simpl; try discriminate; try (injection Hd1 as <-); try lia.
    all: try solve [ eapply P2; eauto; oldown ].
Qed.

Lemma timeouts_cost n tbl tr s c : run (init n tbl) tr = Some s ->
  (N.of_nat (timeouts c (init n tbl) tr) * SAFETY <= now s)%N.
Proof.
  intros H.
  assert (HP : PT c (ghost_run (updT c) 0 (init n tbl) tr) s).
  { eapply (ghost_ind (updT c) (PT c)); [| apply Inv_init | apply LInv_init | | exact H].
    - intros g s0 e s1 _ _. apply PT_step.
    - split; simpl; [lia|]. intros cr dl Hg Hd. apply init_pc in Hg. rewrite Hg in Hd. discriminate. }
  destruct HP as [HP _].
  rewrite (ghost_count (updT c) (fun k => k) (is_kind RTimeout c)) in HP by reflexivity.
  exact HP.
Qed.


(* ---- counting lemmas ---- *)
Definition cnt {A} (p : A -> bool) (l : list A) : nat := length (filter p l).

Lemma cnt_app {A} (p : A -> bool) l1 l2 : cnt p (l1 ++ l2) = cnt p l1 + cnt p l2.
Proof. unfold cnt. rewrite filter_app, app_length. reflexivity. Qed.

Lemma cnt_lset {A} (p : A -> bool) (d : A) l n old v : nth_error l n = Some old ->
  cnt p (lset d l n v) + b2n (p old) = cnt p l + b2n (p v).
Proof.
  unfold cnt. revert l. induction n as [|n IH]; intros [|x r] H; simpl in *; try discriminate.
  - injection H as ->. destruct (p old), (p v); simpl; lia.
  - specialize (IH r H). destruct (p x); simpl; lia.
Qed.

Lemma cnt_map {A B} (p : B -> bool) (q : A -> bool) (f : A -> B) l :
  (forall x, p (f x) = q x) -> cnt p (map f l) = cnt q l.
Proof.
  intros H. unfold cnt. induction l as [|x r IH]; simpl; [reflexivity|].
  rewrite H. destruct (q x); simpl; rewrite IH; reflexivity.
Qed.

Lemma lget_nth {A} (d : A) l n x : nth_error l n = Some x -> lget d l n = x.
Proof. revert n. induction l as [|a r IH]; intros [|n] H; simpl in *; try discriminate; [congruence|auto]. Qed.

Lemma nth_lget {A} (d : A) l n : n < length l -> nth_error l n = Some (lget d l n).
Proof. revert n. induction l as [|a r IH]; intros [|n] H; simpl in *; try lia; [reflexivity|apply IH; lia]. Qed.

Lemma lget_neq_lt {A} (d : A) l n : lget d l n <> d -> n < length l.
Proof.
  intros H. destruct (Nat.lt_ge_cases n (length l)); auto. exfalso. apply H. apply lget_ge. assumption.
Qed.

Definition idx {A} (p : A -> bool) (l : list A) : list nat :=
  filter (fun i => match nth_error l i with Some x => p x | None => false end) (seq 0 (length l)).

Lemma filter_map_len {A B} (f : B -> bool) (g : A -> B) l :
  length (filter f (map g l)) = length (filter (fun x => f (g x)) l).
Proof. induction l as [|x r IH]; simpl; [reflexivity|]. destruct (f (g x)); simpl; rewrite IH; reflexivity. Qed.

Lemma idx_len {A} (p : A -> bool) l : length (idx p l) = cnt p l.
Proof.
  unfold idx, cnt. induction l as [|a r IH]; [reflexivity|].
  cbn [length seq filter nth_error]. rewrite <- seq_shift.
  assert (Hq : length (filter (fun i => match nth_error (a :: r) i with Some x => p x | None => false end)
                              (map S (seq 0 (length r))))
               = length (filter p r)).
  { rewrite filter_map_len. exact IH. }
  destruct (p a); simpl; rewrite Hq; reflexivity.
Qed.

Lemma nodup_cnt {A} (p : A -> bool) (l : list A) (W : list nat) : NoDup W ->
  (forall i, In i W -> exists x, nth_error l i = Some x /\ p x = true) -> length W <= cnt p l.
Proof.
  intros Hn Hw. rewrite <- idx_len. apply NoDup_incl_length; [assumption|].
  intros i Hi. destruct (Hw i Hi) as (x & Hx & Hp). unfold idx. apply filter_In. split.
  - apply in_seq. apply nth_error_Some_lt in Hx. lia.
  - rewrite Hx. assumption.
Qed.

(* ---- 5. closed-loop retries are paid for by loops being closed ---- *)
Definition isclosed (st : lstate) : bool := match st with LClosed => true | _ => false end.

Definition updL (k : nat) (s : state) (e : ev) : nat := k + b2n (is_close e).
Definition PL (k : nat) (s : state) : Prop := cnt isclosed (loops s) <= k.

Lemma lp_nth s t : lp s t <> LClosed -> nth_error (loops s) t = Some (lp s t).
Proof. intros H. unfold lp in *. apply nth_lget. eapply lget_neq_lt; eauto. Qed.

Lemma PL_step k s e s' : PL k s -> step s e = Some s' -> PL (updL k s e) s'.
Proof.
  unfold PL, updL. intros P Hs. apply step_trans in Hs as [_ T].
  tcases T; simpl is_close; simpl b2n; try (simpl loops; lia).
  all: match goal with Hl : lp ?s0 ?t = _ |- _ =>
         assert (Hn : nth_error (loops s0) t = Some (lp s0 t)) by (apply lp_nth; rewrite Hl; discriminate);
         rewrite Hl in Hn end.
  all: simpl loops.
  all: match goal with |- context [lset LClosed (loops ?s0) ?t ?v] =>
         pose proof (cnt_lset isclosed LClosed (loops s0) t _ v Hn) as Hc; simpl in Hc; lia end.
Qed.

Lemma cnt_repeat_run n : cnt isclosed (repeat LRun n) = 0.
Proof. induction n; simpl; auto. Qed.

Definition closed_on (c : nat) (s : state) (e : ev) : option nat :=
  match e with
  | XSub _ c' =>
      if c' =? c then
        match getc s c with
        | Some cr => match cpc cr with
                     | PXSub l _ => match lp s l with LClosed => Some l | _ => None end
                     | _ => None
                     end
        | None => None
        end
      else None
  | _ => None
  end.

Lemma closed_inv c s e s' l : trans s e s' -> closed_on c s e = Some l ->
  exists t cr e0, e = XSub t c /\ getc s c = Some cr /\ cpc cr = PXSub l e0 /\ lp s l = LClosed
                  /\ s' = set_pc s c cr PProbe.
Proof.
  intros T Hc. destruct e; try discriminate Hc. simpl in Hc.
  destruct (Nat.eqb_spec c0 c); [subst c0|discriminate].
  remember (XSub t c) as ev eqn:Hev. destruct T; try discriminate Hev; injection Hev as <- <-.
  - rewrite H, H2 in Hc. rewrite H3 in Hc. injection Hc as <-. exists t0, cr, e. auto.
  - rewrite H, H2 in Hc. destruct (lp s l0) eqn:Hl; try discriminate Hc. congruence.
Qed.

Definition await_loop (p : pc) : option nat :=
  match p with PUnlock (DWait l _) | PXSub l _ => Some l | _ => None end.
Definition pb (p : pc) : nat := match p with PProbe => 1 | _ => 0 end.
Lemma ms_pb s cr : pb (cpc (mark_started s cr)) = pb (cpc cr).
Proof. apply ms_class. reflexivity. Qed.
Lemma ms_aloop s cr : await_loop (cpc (mark_started s cr)) = await_loop (cpc cr).
Proof. apply ms_class. reflexivity. Qed.

Definition updC (c : nat) (g : nat * list nat) (s : state) (e : ev) : nat * list nat :=
  (fst g + b2n (is_kind RClosed c s e),
   match closed_on c s e with Some l => l :: snd g | None => snd g end).

Record PC (c : nat) (g : nat * list nat) (s : state) : Prop := mkPC {
  pc0 : fst g <= length (snd g);
  pc1 : forall cr, getc s c = Some cr -> fst g + pb (cpc cr) = length (snd g);
  pc2 : NoDup (snd g);
  pc3 : forall l, In l (snd g) -> nth_error (loops s) l = Some LClosed;
  pc4 : forall cr l, getc s c = Some cr -> await_loop (cpc cr) = Some l ->
        l < length (loops s) /\ ~ In l (snd g)
}.

Lemma probe_pb s cr : pb (probe_pc s cr) = 0.
Proof. destruct (probe_pc_cases s cr) as [(v & ->) | ->]; reflexivity. Qed.
Lemma probe_aloop s cr : await_loop (probe_pc s cr) = None.
Proof. destruct (probe_pc_cases s cr) as [(v & ->) | ->]; reflexivity. Qed.

Lemma trans_loops_len s e s' : trans s e s' -> length (loops s) <= length (loops s').
Proof. intros T. tcases T; simpl loops; try lia; apply length_lset_ge. Qed.

Lemma PC_step c g s e s' : PC c g s -> step s e = Some s' -> PC c (updC c g s e) s'.
Proof.
  intros [P0 P1 P2 P3 P4] Hs. apply step_trans in Hs as [_ T]. destruct g as [kc CL].
  unfold updC, is_kind. simpl fst in *. simpl snd in *.
  destruct (retry_kind c s e) as [kd|] eqn:Hk.
  - destruct (kind_inv _ _ _ _ _ T Hk) as (t & cr & -> & Hg & -> & Hpre). simpl closed_on.
    specialize (P1 _ Hg).
    constructor; simpl fst; simpl snd; auto.
    + destruct kd; simpl in *; try lia. rewrite Hpre in P1. simpl in P1. lia.
    + rewrite (getc_probe _ _ _ Hg). intros ? Hq. injection Hq as <-. simpl cpc. rewrite probe_pb.
      destruct kd; simpl in *.
      * rewrite Hpre in P1. simpl in P1. lia.
      * destruct Hpre as (e & dl & Hp & _). rewrite Hp in P1. simpl in *. lia.
      * destruct Hpre as (l & e & dl & r & xs & Hp). rewrite Hp in P1. simpl in *. lia.
      * destruct Hpre as [(e & dl & Hp & _) | (l & e & dl & xs & Hp & _)]; rewrite Hp in P1; simpl in *; lia.
    + rewrite (getc_probe _ _ _ Hg). intros ? l Hq Hl. injection Hq as <-. simpl in Hl.
      rewrite probe_aloop in Hl. discriminate.
  - simpl b2n. rewrite Nat.add_0_r.
    destruct (closed_on c s e) as [l|] eqn:Hc.
    + destruct (closed_inv _ _ _ _ _ T Hc) as (t & cr & e0 & -> & Hg & Hp & Hl & ->).
      assert (Ha : await_loop (cpc cr) = Some l) by (rewrite Hp; reflexivity).
      destruct (P4 _ _ Hg Ha) as [Hlt Hni]. specialize (P1 _ Hg). rewrite Hp in P1. simpl in P1.
      constructor; simpl fst; simpl snd.
      * simpl. lia.
      * erewrite getc_set_pc by eassumption. rewrite Nat.eqb_refl. intros ? Hq. injection Hq as <-. simpl. lia.
      * constructor; assumption.
      * intros l' [<- | Hin]; [|apply P3; assumption].
        change (loops (set_pc s c cr PProbe)) with (loops s). unfold lp in Hl. rewrite <- Hl. apply nth_lget. assumption.
      * erewrite getc_set_pc by eassumption. rewrite Nat.eqb_refl. intros ? l' Hq Hx. injection Hq as <-. discriminate Hx.
    + constructor; simpl fst; simpl snd; auto.
      * tcases T; intros cr1 Hg1; start_ s; rewrite ?ms_pb; simpl cpc.
        all: try solve [ eapply P1; eauto ].
        all: try match goal with Hg : getc _ _ = Some _ |- _ => pose proof (P1 _ Hg) as P1' end.
        all: nonretry Hk; nonretry Hc.
        all: mv_simpl; try lia.
        all: try match goal with Hp : cpc _ = _ |- _ => rewrite Hp in *; simpl in *; try lia; try discriminate end.
        all: try solve [ destruct (cpc cr); simpl in *; try discriminate; lia ].
        all: try solve [ exfalso; match goal with Hl : lp _ _ = LClosed |- _ => rewrite Hl in Hc; discriminate Hc end ].
        destruct H1 as [(?&?&Hp)|(?&?&?&?&?&Hp)]; rewrite Hp in P1'; exact P1'.
      * (* closed loops stay closed *)
        tcases T; intros l0 Hin; try (apply P3; exact Hin).
        all: simpl loops; pose proof (P3 _ Hin) as Hn;
          match goal with Hl : lp _ ?t = _ |- _ =>
            assert (Hlt : t < length (loops s)) by (eapply (lget_neq_lt LClosed); unfold lp in Hl; rewrite Hl; discriminate);
            rewrite nth_error_lset by assumption;
            destruct (Nat.eqb_spec t l0); [subst; exfalso; apply (lget_nth LClosed) in Hn; unfold lp in Hl; congruence|assumption]
          end.
      * pose proof (trans_loops_len _ _ _ T) as Hlen.
        tcases T; intros cr1 l1 Hg1 Ha1; start_ s; rewrite ?ms_aloop in *; simpl cpc in *.
        all: try solve [ destruct (P4 _ _ Hg1 Ha1); split; [lia|assumption] ].
        all: try (rewrite probe_aloop in Ha1; discriminate Ha1).
        all: mv_simpl; try discriminate; try (injection Ha1 as <-).
        all: try solve [ match goal with Hg : getc _ _ = Some ?x, Hp : cpc ?x = _ |- _ =>
                           assert (Hq : await_loop (cpc x) = Some l1) by (rewrite Hp; reflexivity);
                           destruct (P4 _ _ Hg Hq); split; [lia|assumption] end ].
        all: try solve [ split;
                         [ eapply (lget_neq_lt LClosed); intros Hx; unfold lp in Hal; rewrite Hx in Hal; discriminate
                         | intros Hin; apply P3 in Hin; apply (lget_nth LClosed) in Hin; unfold lp in Hal;
                           rewrite Hin in Hal; discriminate ] ].
        all: try solve [ match goal with Hg : getc _ _ = Some ?x, Hp : cpc ?x = _ |- _ =>
                           eapply P4; [exact Hg|rewrite Hp; reflexivity] end ].
        all: try solve [ eapply P4; eauto ].
Qed.

Lemma closed_bound n tbl tr s c : run (init n tbl) tr = Some s ->
  closed c (init n tbl) tr <= n_close tr.
Proof.
  intros H.
  assert (HP : PC c (ghost_run (updC c) (0, []) (init n tbl) tr) s).
  { eapply (ghost_ind (updC c) (PC c)); [| apply Inv_init | apply LInv_init | | exact H].
    - intros g s0 e s1 _ _. apply PC_step.
    - constructor; simpl; auto.
      + intros cr Hg. apply init_pc in Hg. rewrite Hg. reflexivity.
      + constructor.
      + contradiction.
      + intros cr l Hg Ha. apply init_pc in Hg. rewrite Hg in Ha. discriminate. }
  assert (HL : PL (ghost_run updL 0 (init n tbl) tr) s).
  { eapply (ghost_ind updL PL); [| apply Inv_init | apply LInv_init | | exact H].
    - intros g s0 e s1 _ _. apply PL_step.
    - unfold PL. simpl. rewrite cnt_repeat_run. lia. }
  unfold PL in HL.
  rewrite (ghost_count updL (fun k => k) (fun _ e => is_close e)) in HL by reflexivity.
  rewrite (count_run_trace _ _ _ _ H) in HL.
  destruct HP as [Q0 _ Q2 Q3 _].
  rewrite (ghost_count (updC c) fst (is_kind RClosed c)) in Q0 by reflexivity.
  assert (Hle : length (snd (ghost_run (updC c) (0, []) (init n tbl) tr)) <= cnt isclosed (loops s)).
  { apply nodup_cnt; auto. intros i Hi. exists LClosed. split; auto. }
  unfold closed, n_close. simpl in *. lia.
Qed.


(* ---- 4. same-loop wake-ups are paid for by invocations ending ---- *)
(* state invariant: an owned event is not set; a marker's event is owned by a caller of that key *)
Definition kowned (s : state) (k e : nat) : Prop :=
  exists d dr, getc s d = Some dr /\ own_ev (cpc dr) = Some e /\ ckey dr = k.

Lemma kowned_set_pc st s c cr p k e :
  callers st = callers s -> getc s c = Some cr -> kowned s k e ->
  (own_ev (cpc cr) = Some e -> own_ev p = Some e) -> kowned (set_pc st c cr p) k e.
Proof.
  intros Hc Hg (d & dr & Hd & Ho & Hk) Hp.
  assert (Hg' : getc st c = Some cr) by (unfold getc in *; rewrite Hc; assumption).
  destruct (Nat.eq_dec c d) as [->|Hn].
  - exists d, (mkC (cloop cr) (ckey cr) p (ccanc cr)). split.
    + erewrite getc_set_pc by eassumption. rewrite Nat.eqb_refl. reflexivity.
    + simpl. split; [apply Hp|]; congruence.
  - exists d, dr. split; auto. erewrite getc_set_pc by eassumption.
    destruct (Nat.eqb_spec c d); [contradiction|]. unfold getc in *. rewrite Hc. assumption.
Qed.

Lemma kowned_same st s k e : callers st = callers s -> kowned s k e -> kowned st k e.
Proof. intros Hc (d & dr & Hd & Ho). exists d, dr. split; auto. unfold getc in *. rewrite Hc. auto. Qed.

Lemma kowned_cancel s c cr k e : getc s c = Some cr -> kowned s k e ->
  kowned (set_callers s (lset dummyC (callers s) c (mkC (cloop cr) (ckey cr) (cpc cr) true))) k e.
Proof.
  intros Hg (d & dr & Hd & Ho & Hk). destruct (Nat.eq_dec c d) as [->|Hn].
  - eexists d, _. erewrite getc_cancel by eassumption. rewrite Nat.eqb_refl. split; [reflexivity|]. simpl.
    split; congruence.
  - exists d, dr. erewrite getc_cancel by eassumption. destruct (Nat.eqb_spec c d); [contradiction|]. auto.
Qed.

Lemma kowned_ms s tick k e : kowned s k e ->
  kowned (set_now (set_callers s (map (mark_started s) (callers s))) tick) k e.
Proof.
  intros (d & dr & Hd & Ho & Hk). exists d, (mark_started s dr). split.
  - erewrite (getc_map s (mark_started s)) by reflexivity. rewrite Hd. reflexivity.
  - rewrite ms_own, ms_key. auto.
Qed.

Section RPres.
Variables (s s' : state) (e : ev).
Hypothesis I : Inv s.
Hypothesis T : trans s e s'.
Hypothesis OU : forall d dr e, getc s d = Some dr -> own_ev (cpc dr) = Some e -> isset s e = false.
Hypothesis MO : forall k l e, marker_at s k = Some (l, e) -> kowned s k e.

Lemma pres_OU : forall d dr e, getc s' d = Some dr -> own_ev (cpc dr) = Some e -> isset s' e = false.
Proof.
  pose proof (iA1 s I) as A1. pose proof (iA2 s I) as A2.
  tcases T; intros d1 dr1 e1 Hg1 Ho1; start_ s; proj_norm.
  all: try solve [ eapply OU; eauto ].
  all: mv_simpl; try discriminate; try (injection Ho1 as <-).
  all: try solve [ eapply OU; eauto; oldown ].
  - rewrite lget_app_default. apply lget_ge. lia.
  - rewrite lget_app_default. eapply OU; eauto.
  - rewrite lget_lset_neq; [eapply OU; eauto|]. intros ->. apply n. eapply A2; eauto. oldown.
  - rewrite lget_lset_neq; [eapply OU; eauto|]. intros ->. apply n. eapply A2; eauto. oldown.
Qed.

Lemma pres_MO : forall k l e, marker_at s' k = Some (l, e) -> kowned s' k e.
Proof.
  pose proof (iA2 s I) as A2.
  tcases T; intros k0 l0 e0 Hm0.
  all: try solve [ apply MO in Hm0;
                   first [ apply kowned_ms; exact Hm0 | eapply kowned_cancel; eassumption
                         | eapply kowned_same; [reflexivity|exact Hm0] ] ].
  all: try solve [ apply MO in Hm0;
    eapply kowned_set_pc; [reflexivity|eassumption|exact Hm0|];
    intros Hx;
    match goal with
    | Hp : can_probe _ _ |- _ => rewrite (can_probe_own _ _ Hp) in Hx; discriminate
    | Hp : _ \/ _ |- _ => rewrite (waiting_own _ Hp) in Hx; discriminate
    | |- _ => mv_simpl; try congruence; try (rewrite Hx in *; discriminate);
              match goal with Hc : cpc _ = _ |- _ => rewrite Hc in Hx; simpl in Hx; congruence end
    end ].
  - (* takeover *)
    unfold marker_at in Hm0. simpl in Hm0. rewrite lget_lset in Hm0.
    destruct (Nat.eqb_spec (ckey cr) k0) as [<-|Hn].
    + injection Hm0 as <- <-. eexists c, _. split.
      * erewrite getc_set_pc by eassumption. rewrite Nat.eqb_refl. reflexivity.
      * simpl. auto.
    + apply MO in Hm0. eapply kowned_set_pc; [reflexivity|eassumption|exact Hm0|].
      intros Hx. rewrite H2 in Hx. discriminate.
  - (* fin, marker removed *)
    unfold marker_at in Hm0. simpl in Hm0. rewrite lget_lset in Hm0.
    destruct (Nat.eqb_spec (ckey cr) k0) as [<-|Hn]; [discriminate|].
    apply MO in Hm0 as Hk. eapply kowned_set_pc; [reflexivity|eassumption|exact Hk|].
    intros Hx. exfalso. destruct Hk as (d & dr & Hd & Ho & Hkk).
    assert (c = d) by (eapply A2; eauto). subst d. rewrite H in Hd. injection Hd as <-. auto.
  - (* fin, marker kept *)
    change (marker_at s k0 = Some (l0, e0)) in Hm0.
    apply MO in Hm0 as Hk. eapply kowned_set_pc; [reflexivity|eassumption|exact Hk|].
    intros Hx. exfalso. destruct Hk as (d & dr & Hd & Ho & Hkk).
    assert (c = d) by (eapply A2; eauto). subst d. rewrite H in Hd. injection Hd as <-.
    rewrite H3 in Hx. simpl in Hx. injection Hx as <-. subst k0. eapply Hm; eauto.
Qed.
End RPres.

Record RInv (s : state) : Prop := mkRInv {
  rOU : forall d dr e, getc s d = Some dr -> own_ev (cpc dr) = Some e -> isset s e = false;
  rMO : forall k l e, marker_at s k = Some (l, e) -> kowned s k e
}.

Lemma RInv_init n tbl : RInv (init n tbl).
Proof.
  constructor; intros.
  - apply init_pc in H. rewrite H in H0. discriminate.
  - unfold marker_at in H. simpl in H. destruct k; discriminate.
Qed.

Lemma pres_RInv s e s' : Inv s -> RInv s -> step s e = Some s' -> RInv s'.
Proof.
  intros I [OU MO] Hs. apply step_trans in Hs as [_ T]. constructor.
  - eapply pres_OU; eauto.
  - eapply pres_MO; eauto.
Qed.

Lemma marker_unset s : RInv s -> forall k l e, marker_at s k = Some (l, e) -> isset s e = false.
Proof. intros [OU MO] k l e Hm. destruct (MO _ _ _ Hm) as (d & dr & Hd & Ho & _). eapply OU; eauto. Qed.


(* every set event and every caller between the end of its invocation and its Fin is paid for by an IEnd *)
Definition pfp (p : pc) : bool := match p with PPublish _ _ | PFinLock _ _ => true | _ => false end.
Definition pf (cr : crec) : bool := pfp (cpc cr).
Definition isT (b : bool) : bool := b.
Definition updI (k : nat) (s : state) (e : ev) : nat := k + b2n (is_iend e).
Definition PI (k : nat) (s : state) : Prop := cnt isT (evset s) + cnt pf (callers s) <= k.

Lemma pf_set_pc st s c cr p : callers st = callers s -> getc s c = Some cr ->
  cnt pf (callers (set_pc st c cr p)) + b2n (pfp (cpc cr)) = cnt pf (callers s) + b2n (pfp p).
Proof.
  intros Hc Hg. simpl callers. rewrite Hc.
  exact (cnt_lset pf dummyC (callers s) c cr (mkC (cloop cr) (ckey cr) p (ccanc cr)) Hg).
Qed.

Lemma can_probe_pf s cr : can_probe s cr -> pfp (cpc cr) = false.
Proof.
  intros H. apply can_probe_pc in H.
  destruct H as [H | [H | [(e & dl & H) | (l & e & dl & xd & xs & H)]]]; rewrite H; reflexivity.
Qed.
Lemma waiting_pf cr : waiting cr -> pfp (cpc cr) = false.
Proof. intros [(e & dl & H) | (l & e & dl & xd & xs & H)]; rewrite H; reflexivity. Qed.
Lemma probe_pf s cr : pfp (probe_pc s cr) = false.
Proof. destruct (probe_pc_cases s cr) as [(v & ->) | ->]; reflexivity. Qed.
Lemma ms_pf s cr : pf (mark_started s cr) = pf cr.
Proof. unfold pf. apply ms_class. reflexivity. Qed.

Lemma PI_step k s e s' : Inv s -> PI k s -> step s e = Some s' -> PI (updI k s e) s'.
Proof.
  unfold PI, updI. intros I P Hs. apply step_trans in Hs as [_ T]. pose proof (iA1 s I) as A1.
  tcases T; simpl is_iend; simpl b2n.
  all: try match goal with
           | H : getc ?s0 ?c = Some ?cr |- context [callers (set_pc ?st ?c ?cr ?p)] =>
               pose proof (pf_set_pc st s0 c cr p eq_refl H) as Hpf
           end.
  all: try match goal with Hp : can_probe _ _ |- _ => rewrite (can_probe_pf _ _ Hp), ?probe_pf in Hpf end.
  all: try match goal with Hp : _ \/ _ |- _ => rewrite (waiting_pf _ Hp) in Hpf end.
  all: simpl evset.
  all: try solve [ mv_simpl; repeat match goal with Hc : cpc _ = _ |- _ => rewrite Hc in Hpf; clear Hc end;
                   simpl in Hpf; simpl; lia ].
  all: try solve [ simpl callers; lia ].
  - rewrite cnt_app. rewrite H2 in Hpf. change (cnt isT [false]) with 0. simpl in *. lia.
  - assert (Hn : nth_error (evset s) e = Some (lget false (evset s) e)).
    { apply nth_lget. eapply A1; eauto. rewrite H3. reflexivity. }
    pose proof (cnt_lset isT false (evset s) e _ true Hn) as Hc. rewrite H3 in Hpf. simpl in *. lia.
  - assert (Hn : nth_error (evset s) e = Some (lget false (evset s) e)).
    { apply nth_lget. eapply A1; eauto. rewrite H3. reflexivity. }
    pose proof (cnt_lset isT false (evset s) e _ true Hn) as Hc. rewrite H3 in Hpf. simpl in *. lia.
  - simpl callers.
    pose proof (cnt_lset pf dummyC (callers s) c cr (mkC (cloop cr) (ckey cr) (cpc cr) true) H) as Hc.
    change (pf (mkC (cloop cr) (ckey cr) (cpc cr) true)) with (pf cr) in Hc. lia.
  - simpl callers. rewrite (cnt_map pf pf (mark_started s)); [lia|]. intros x. apply ms_pf.
Qed.


(* the events caller c has woken on: all different, all set, never awaited again *)
Definition wake_on (c : nat) (s : state) (e : ev) : option nat :=
  match e with
  | Get _ c' =>
      if c' =? c then
        match getc s c with
        | Some cr => match cpc cr with
                     | PWait ev _ => if isset s ev then Some ev else None
                     | _ => None
                     end
        | None => None
        end
      else None
  | _ => None
  end.

Lemma wake_on_kind c s e :
  is_kind RWake c s e = match wake_on c s e with Some _ => true | None => false end.
Proof.
  unfold is_kind. destruct e; try reflexivity. simpl.
  destruct (c0 =? c); [|reflexivity]. destruct (getc s c) as [cr|]; [|reflexivity].
  destruct (cpc cr); try reflexivity.
  - destruct (isset s e); reflexivity.
  - destruct xd; reflexivity.
Qed.

Definition updW (c : nat) (W : list nat) (s : state) (e : ev) : list nat :=
  match wake_on c s e with Some ev => ev :: W | None => W end.

Lemma updW_len c W s e : length (updW c W s e) = length W + b2n (is_kind RWake c s e).
Proof. unfold updW. rewrite wake_on_kind. destruct (wake_on c s e); simpl; lia. Qed.

Record PW (c : nat) (W : list nat) (s : state) : Prop := mkPW {
  pwR : RInv s;
  pw1 : NoDup W;
  pw2 : forall e, In e W -> isset s e = true;
  pw3 : forall cr e, getc s c = Some cr -> await_ev (cpc cr) = Some e -> ~ In e W
}.

Lemma trans_isset_mono s e s' x : trans s e s' -> isset s x = true -> isset s' x = true.
Proof.
  intros T Hx. tcases T; try exact Hx; proj_norm.
  - rewrite lget_app_default. exact Hx.
  - rewrite lget_lset. destruct (e =? x); auto.
  - rewrite lget_lset. destruct (e =? x); auto.
Qed.

Lemma probe_await s cr : await_ev (probe_pc s cr) = None.
Proof. destruct (probe_pc_cases s cr) as [(v & ->) | ->]; reflexivity. Qed.

Lemma PW_step c W s e s' : Inv s -> PW c W s -> step s e = Some s' -> PW c (updW c W s e) s'.
Proof.
  intros I [R P1 P2 P3] Hs. pose proof (pres_RInv _ _ _ I R Hs) as R'.
  apply step_trans in Hs as [_ T]. unfold updW.
  destruct (retry_kind c s e) as [kd|] eqn:Hk.
  - destruct (kind_inv _ _ _ _ _ T Hk) as (t & cr & -> & Hg & -> & Hpre).
    assert (P3' : forall W', forall cr0 e0,
               getc (set_pc s c cr (probe_pc s cr)) c = Some cr0 -> await_ev (cpc cr0) = Some e0 -> ~ In e0 W').
    { intros W' cr0 e0 Hq Ha. rewrite (getc_probe _ _ _ Hg) in Hq. injection Hq as <-. simpl in Ha.
      rewrite probe_await in Ha. discriminate. }
    simpl wake_on. rewrite Nat.eqb_refl, Hg.
    destruct kd; simpl in Hpre.
    + rewrite Hpre. constructor; auto; try apply P3'.
    + destruct Hpre as (ev & dl & Hp & Hs). rewrite Hp, Hs. constructor; auto; try apply P3'.
      * constructor; auto. eapply P3; eauto. rewrite Hp. reflexivity.
      * intros x [<- | Hin]; [exact Hs|apply P2; assumption].
    + destruct Hpre as (l & ev & dl & r & xs & Hp). rewrite Hp. constructor; auto; try apply P3'.
    + destruct Hpre as [(ev & dl & Hp & Hs & _) | (l & ev & dl & xs & Hp & _)]; rewrite Hp, ?Hs;
        constructor; auto; try apply P3'.
  - assert (Hw : wake_on c s e = None).
    { pose proof (wake_on_kind c s e) as Hq. unfold is_kind in Hq. rewrite Hk in Hq.
      destruct (wake_on c s e); [discriminate|reflexivity]. }
    rewrite Hw. constructor; auto.
    + intros x Hin. eapply trans_isset_mono; eauto.
    + pose proof (marker_unset s R) as MU.
      tcases T; intros cr1 e1 Hg1 Ha1; start_ s; rewrite ?ms_await in *; simpl cpc in *.
      all: try solve [ eapply P3; eauto ].
      all: try (rewrite probe_await in Ha1; discriminate Ha1).
      all: mv_simpl; try discriminate; try (injection Ha1 as <-).
      all: try solve [ match goal with Hg : getc _ _ = Some ?x, Hp : cpc ?x = _ |- _ =>
                         eapply P3; [exact Hg|rewrite Hp; reflexivity] end ].
      intros Hin. apply P2 in Hin. rewrite (MU _ _ _ Hm) in Hin. discriminate.
Qed.

Lemma wakes_bound n tbl tr s c : run (init n tbl) tr = Some s ->
  wakes c (init n tbl) tr <= n_iend tr.
Proof.
  intros H.
  assert (HP : PW c (ghost_run (updW c) [] (init n tbl) tr) s).
  { eapply (ghost_ind (updW c) (PW c)); [| apply Inv_init | apply LInv_init | | exact H].
    - intros g s0 e s1 I0 _. apply PW_step. exact I0.
    - constructor; [apply RInv_init|constructor|contradiction|auto]. }
  assert (HI : PI (ghost_run updI 0 (init n tbl) tr) s).
  { eapply (ghost_ind updI PI); [| apply Inv_init | apply LInv_init | | exact H].
    - intros g s0 e s1 I0 _. apply PI_step. exact I0.
    - unfold PI. simpl. clear. induction tbl; simpl; auto. }
  unfold PI in HI.
  rewrite (ghost_count updI (fun k => k) (fun _ e => is_iend e)) in HI by reflexivity.
  rewrite (count_run_trace _ _ _ _ H) in HI.
  destruct HP as [_ Q1 Q2 _].
  assert (Hlen : length (ghost_run (updW c) [] (init n tbl) tr) = wakes c (init n tbl) tr).
  { rewrite (ghost_count (updW c) (@length nat) (is_kind RWake c)); [reflexivity|].
    intros g s0 e. apply updW_len. }
  assert (Hle : length (ghost_run (updW c) [] (init n tbl) tr) <= cnt isT (evset s)).
  { apply nodup_cnt; auto. intros i Hi. exists true. split; auto.
    apply Q2 in Hi. unfold isset in Hi. rewrite <- Hi. apply nth_lget.
    eapply (lget_neq_lt false). rewrite Hi. discriminate. }
  unfold n_iend. simpl in *. lia.
Qed.


(* ---- 6. no spinning ---- *)
Lemma retry_measure n tbl tr s c : run (init n tbl) tr = Some s ->
  retries c (init n tbl) tr <= n_iend tr + n_proxy c tr + n_close tr + timeouts c (init n tbl) tr
  /\ (N.of_nat (timeouts c (init n tbl) tr) * SAFETY <= now s)%N.
Proof.
  intros H. split; [|eapply timeouts_cost; eauto].
  rewrite retry_split.
  pose proof (wakes_bound _ _ _ _ c H). pose proof (proxies_bound _ _ _ _ c H).
  pose proof (closed_bound _ _ _ _ c H). lia.
Qed.

(* non-vacuity: the computing loop 0 stops mid-computation; caller 1 (loop 1) waits across loops,
   times out after 61440 ticks, retries once and takes the key over: one retry, kind time-out *)
Definition retry_demo : list ev :=
  [Get 0 0; Miss 0 0; Acq 0 0; Get 0 0; Miss 0 0; Rel 0 0; IStart 0 0 0%N;
   Get 1 1; Miss 1 1; Acq 1 1; Get 1 1; Miss 1 1; Rel 1 1; XSub 1 1; LoopEv 0 0;
   Adv 61440%N; Get 1 1; Miss 1 1; Acq 1 1; Get 1 1; Miss 1 1].

Example retry_demo_counts :
  let s0 := init 2 [(0,0); (1,0)] in
  (exists s, run s0 retry_demo = Some s /\ now s = 61440%N)
  /\ retries 1 s0 retry_demo = 1 /\ timeouts 1 s0 retry_demo = 1
  /\ wakes 1 s0 retry_demo = 0 /\ proxies 1 s0 retry_demo = 0 /\ closed 1 s0 retry_demo = 0
  /\ retries 0 s0 retry_demo = 0.
Proof. split; [eexists; split; vm_compute; reflexivity|]. vm_compute. repeat split. Qed.

(* a prompt same-loop wake-up: callers 0 and 1 share loop 0; 1 waits on the event of 0 and is woken
   by 0's Fin in the same tick: one retry, kind wake, paid for by the IEnd *)
Definition wake_demo : list ev :=
  [Get 0 0; Miss 0 0; Acq 0 0; Get 0 0; Miss 0 0; Rel 0 0; IStart 0 0 0%N;
   Get 0 1; Miss 0 1; Acq 0 1; Get 0 1; Miss 0 1; Rel 0 1;
   IEnd 0 0 0%N; SetC 0 0; Acq 0 0; Rel 0 0; Get 0 1].

Example wake_demo_counts :
  let s0 := init 1 [(0,0); (0,0)] in
  (exists s, run s0 wake_demo = Some s /\ now s = 0%N)
  /\ retries 1 s0 wake_demo = 1 /\ wakes 1 s0 wake_demo = 1 /\ timeouts 1 s0 wake_demo = 0
  /\ n_iend wake_demo = 1.
Proof. split; [eexists; split; vm_compute; reflexivity|]. vm_compute. repeat split. Qed.
