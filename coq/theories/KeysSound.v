(* KeysSound.v — the trace monitor of Case_C14.v decides the property: [ok]
   accepts an observed trace IF AND ONLY IF the trace satisfies a statement
   that speaks about the events and the observations alone — no model, no key
   expression ([trace_spec] below; props/C14.v monitor_sound /
   monitor_sound_converse restate it unfolded).  Likewise for [mon_n]. *)
From Coq Require Import List Arith Bool Lia.
Import ListNotations.
Require Import Aiuti.CaseLib Aiuti.Keys Aiuti.KeysInv Aiuti.Case_C14 Aiuti.KeysMon Aiuti.KeysMonN.

(* ---- vocabulary of the statement ----------------------------------------- *)

(* value tags in the caller's mapping when the decorated function is created *)
Definition initial_tags (kind : mkind) (pf : bool) : list nat :=
  match kind with KDefault => [] | KUser _ => map snd (init_user pf) end.

(* value tags the caller's mapping held just before event i = what the harness
   read from it after event i-1 *)
Definition held_before (kind : mkind) (pf : bool) (observed : list obs) (i : nat) : list nat :=
  match i with
  | 0 => initial_tags kind pf
  | S j => match nth_error observed j with Some o => snd o | None => [] end
  end.

(* the same tags, the same number of them *)
Definition same_tags (a b : list nat) : Prop := incl a b /\ incl b a /\ length a = length b.

(* value tag t names a call before event i that had the same arguments as s *)
Definition computed_for (evs : list ev) (i t : nat) (s : sig) : Prop :=
  t < i /\ exists s', nth_error evs t = Some (Call s') /\ sig_equiv s' s.

(* event t invoked the wrapped function (once) *)
Definition invoked (observed : list obs) (t : nat) : Prop :=
  exists r c, nth_error observed t = Some (1, r, c).

Definition without (v : nat) (l : list nat) : list nat := filter (fun t => negb (Nat.eqb t v)) l.

Definition call_spec (kind : mkind) (pf : bool) (evs : list ev) (observed : list obs)
           (i : nat) (s : sig) (ninv r : nat) (cont : list nat) : Prop :=
  ((ninv = 1 /\ r = i) \/ (ninv = 0 /\ computed_for evs i r s)) /\
  match kind with
  | KDefault =>
      cont = [] /\
      (ninv = 0 <-> exists j, computed_for evs i j s) /\
      (ninv = 0 -> invoked observed r)
  | KUser cap =>
      let B := held_before kind pf observed i in
      (ninv = 0 <-> exists t, In t B /\ computed_for evs i t s) /\
      (ninv = 0 -> In r B /\ same_tags cont B) /\
      (ninv = 1 -> incl cont (i :: B) /\
                   match cap with
                   | None => same_tags cont (i :: B)
                   | Some n => (n = 0 \/ In i cont) /\ length cont = Nat.min n (S (length B))
                   end)
  end.

Definition evict_spec (kind : mkind) (pf : bool) (observed : list obs)
           (i v ninv : nat) (cont : list nat) : Prop :=
  ninv = 0 /\
  match kind with
  | KDefault => cont = []
  | KUser _ => same_tags cont (without v (held_before kind pf observed i))
  end.

Definition trace_spec (kind : mkind) (pf : bool) (evs : list ev) (observed : list obs) : Prop :=
  length observed = length evs /\
  (forall i s ninv r cont,
     nth_error evs i = Some (Call s) -> nth_error observed i = Some (ninv, r, cont) ->
     call_spec kind pf evs observed i s ninv r cont) /\
  (forall i v ninv r cont,
     nth_error evs i = Some (Evict v) -> nth_error observed i = Some (ninv, r, cont) ->
     evict_spec kind pf observed i v ninv cont).

(* ---- small facts ---------------------------------------------------------- *)

Lemma sig_equiv_trans s1 s2 s3 : sig_equiv s1 s2 -> sig_equiv s2 s3 -> sig_equiv s1 s3.
Proof.
  intros [H1 H2] [H3 H4]. split; [congruence|]. intros n c. rewrite H2. apply H4.
Qed.

Lemma nset_eqb_iff a b : nset_eqb a b = true <-> same_tags a b.
Proof.
  unfold nset_eqb, same_tags. rewrite !andb_true_iff, !nsubset_incl, Nat.eqb_eq. tauto.
Qed.

Lemma nth_error_mid {A} (pre : list A) x suf : nth_error (pre ++ x :: suf) (length pre) = Some x.
Proof. rewrite nth_error_app2 by lia. now rewrite Nat.sub_diag. Qed.

Lemma nth_error_pre {A} (pre suf : list A) t x :
  nth_error pre t = Some x <-> t < length pre /\ nth_error (pre ++ suf) t = Some x.
Proof.
  split.
  - intros H. assert (Hl : t < length pre) by (apply nth_error_Some; congruence).
    split; [assumption|]. now rewrite nth_error_app1.
  - intros [Hl H]. now rewrite nth_error_app1 in H.
Qed.

Lemma tags_for_In pre suf s before t :
  In t (tags_for (map ev_sig pre) s before) <->
  In t before /\ computed_for (pre ++ suf) (length pre) t s.
Proof.
  unfold tags_for, computed_for. rewrite filter_In. split.
  - intros [Hb Hp]. split; [assumption|].
    destruct (sig_of_tag (map ev_sig pre) t) as [s'|] eqn:Es; [|discriminate].
    apply sig_of_tag_hist in Es. apply (nth_error_pre pre suf) in Es as [Hl Hn].
    split; [assumption|]. exists s'. split; [assumption | now apply same_args_iff].
  - intros [Hb [Hl [s' [Hn He]]]]. split; [assumption|].
    assert (Es : sig_of_tag (map ev_sig pre) t = Some s').
    { apply sig_of_tag_hist. apply (nth_error_pre pre suf). now split. }
    rewrite Es. now apply same_args_iff.
Qed.

Lemma computed_for_trans evs i j t s s' :
  computed_for evs j t s' -> j < i -> sig_equiv s' s -> computed_for evs i t s.
Proof.
  intros [Hl [s0 [Hn He]]] Hji Hs. split; [lia|]. exists s0. split; [assumption|].
  eapply sig_equiv_trans; eassumption.
Qed.

Section Mon.
  Variable kind : mkind.
  Variable pf : bool.
  Variable evs : list ev.
  Variable observed : list obs.

  Notation held := (held_before kind pf observed).

  Definition event_spec (i : nat) : Prop :=
    (forall s ninv r cont,
       nth_error evs i = Some (Call s) -> nth_error observed i = Some (ninv, r, cont) ->
       call_spec kind pf evs observed i s ninv r cont) /\
    (forall v ninv r cont,
       nth_error evs i = Some (Evict v) -> nth_error observed i = Some (ninv, r, cont) ->
       evict_spec kind pf observed i v ninv cont).

  (* what the monitor's accumulator [before] is, at event i *)
  Definition before_inv (i : nat) (before : list nat) : Prop :=
    if observable kind then before = held i
    else forall t, In t before <->
                   (t < i /\ (exists s, nth_error evs t = Some (Call s)) /\ invoked observed t).

  Lemma observable_user : observable kind = true -> exists cap, kind = KUser cap.
  Proof. destruct kind as [|cap]; [discriminate|]. intros _. now exists cap. Qed.

  Lemma observable_default : observable kind = false -> kind = KDefault.
  Proof. destruct kind; [reflexivity | discriminate]. Qed.

  (* the decorator's own dict: every earlier call with the same arguments is
     represented in [before] by the call that computed the value it received *)
  Lemma default_cover i before s :
    kind = KDefault -> before_inv i before -> i <= length observed ->
    (forall j, j < i -> event_spec j) ->
    (exists j, computed_for evs i j s) ->
    exists t, In t before /\ computed_for evs i t s.
  Proof.
    intros Hk Hb Hlen Hprev [j [Hj [s' [Hn He]]]].
    unfold before_inv in Hb. rewrite Hk in Hb. cbn [observable] in Hb.
    destruct (nth_error observed j) as [[[ninv r] cont]|] eqn:Eo.
    2:{ apply nth_error_None in Eo. lia. }
    destruct (Hprev j Hj) as [Hc _]. specialize (Hc _ _ _ _ Hn Eo).
    unfold call_spec in Hc. rewrite Hk in Hc. destruct Hc as [Hfirst [_ [_ Hinv]]].
    destruct Hfirst as [[H1 H2]|[H0 Hcf]].
    - exists j. split.
      + apply Hb. split; [assumption|]. split; [now exists s'|]. subst ninv. now exists r, cont.
      + split; [assumption|]. now exists s'.
    - exists r. split.
      + apply Hb. destruct Hcf as [Hr [s0 [Hn0 _]]]. split; [lia|]. split; [now exists s0|]. now apply Hinv.
      + eapply computed_for_trans; eassumption.
  Qed.

  Lemma before_inv_call i before s ninv r cont :
    nth_error evs i = Some (Call s) -> nth_error observed i = Some (ninv, r, cont) ->
    ninv = 0 \/ ninv = 1 ->
    before_inv i before ->
    before_inv (S i) (if observable kind then cont
                      else if Nat.eqb ninv 0 then before else i :: before).
  Proof.
    intros Hn Ho Hninv Hb. unfold before_inv in *. destruct (observable kind).
    - cbn [held_before]. now rewrite Ho.
    - intros t. destruct Hninv as [-> | ->]; cbn [Nat.eqb].
      + rewrite Hb. split.
        * intros [H1 H2]. split; [lia | assumption].
        * intros [H1 [H2 H3]]. split; [|now split].
          assert (t <> i); [|lia]. intros ->. destruct H3 as [r' [c' H3]]. congruence.
      + cbn [In]. rewrite Hb. split.
        * intros [<-|[H1 H2]].
          -- split; [lia|]. split; [now exists s | now exists r, cont].
          -- split; [lia | assumption].
        * intros [H1 H2]. destruct (Nat.eq_dec i t) as [E|E]; [now left|]. right. split; [lia | assumption].
  Qed.

  Lemma before_inv_evict i before v ninv r cont :
    nth_error evs i = Some (Evict v) -> nth_error observed i = Some (ninv, r, cont) ->
    before_inv i before ->
    before_inv (S i) (if observable kind then cont else before).
  Proof.
    intros Hn Ho Hb. unfold before_inv in *. destruct (observable kind).
    - cbn [held_before]. now rewrite Ho.
    - intros t. rewrite Hb. split.
      + intros [H1 H2]. split; [lia | assumption].
      + intros [H1 [[s H2] H3]]. split; [|split; [now exists s | assumption]].
        assert (t <> i); [|lia]. intros ->. congruence.
  Qed.

  (* ---- soundness: accepted => statement ---------------------------------- *)

  Lemma mon_sound_gen : forall suf sufobs pre preobs before,
    evs = pre ++ suf -> observed = preobs ++ sufobs -> length preobs = length pre ->
    before_inv (length pre) before ->
    (forall j, j < length pre -> event_spec j) ->
    mon kind suf sufobs (map ev_sig pre) before (length pre) = true ->
    length sufobs = length suf /\ forall i, event_spec i.
  Proof.
    induction suf as [|x suf IH]; intros sufobs pre preobs before Hevs Hobs Hlen Hb Hprev Hmon.
    - destruct sufobs; [|discriminate]. split; [reflexivity|].
      intros i. destruct (Nat.lt_ge_cases i (length pre)) as [Hi|Hi]; [now apply Hprev|].
      assert (Hnone : nth_error evs i = None).
      { apply nth_error_None. rewrite Hevs, app_nil_r. exact Hi. }
      split; intros; congruence.
    - destruct sufobs as [|[[ninv r] cont] sufobs]; [destruct x; discriminate|].
      assert (Hn : nth_error evs (length pre) = Some x) by (rewrite Hevs; apply nth_error_mid).
      assert (Ho : nth_error observed (length pre) = Some (ninv, r, cont)).
      { rewrite Hobs, <- Hlen. apply nth_error_mid. }
      assert (Hevs' : evs = (pre ++ [x]) ++ suf) by (rewrite <- app_assoc; exact Hevs).
      assert (Hobs' : observed = (preobs ++ [(ninv, r, cont)]) ++ sufobs) by (rewrite <- app_assoc; exact Hobs).
      assert (Hlen' : length (preobs ++ [(ninv, r, cont)]) = length (pre ++ [x])).
      { rewrite !app_length, Hlen. reflexivity. }
      assert (HS : length (pre ++ [x]) = S (length pre)) by (rewrite app_length; simpl; lia).
      assert (Hlo : length pre <= length observed).
      { rewrite Hobs, app_length. lia. }
      enough (Hgoal : event_spec (length pre) /\
                      exists after, before_inv (S (length pre)) after /\
                                    mon kind suf sufobs (map ev_sig (pre ++ [x])) after (S (length pre)) = true).
      { destruct Hgoal as [Hspec [after [Hb' Hmon']]].
        rewrite <- HS in Hb', Hmon'.
        destruct (IH sufobs (pre ++ [x]) (preobs ++ [(ninv, r, cont)]) after Hevs' Hobs' Hlen' Hb') as [Hl Hall].
        - intros j Hj. rewrite HS in Hj. destruct (Nat.eq_dec j (length pre)) as [->|Hne]; [exact Hspec|].
          apply Hprev. lia.
        - exact Hmon'.
        - split; [simpl; now rewrite Hl | exact Hall]. }
      destruct x as [s|v].
      + (* a call *)
        cbn [mon] in Hmon. rewrite map_app. cbn [map ev_sig].
        apply andb_true_iff in Hmon as [Hmon Hrest]. apply andb_true_iff in Hmon as [Hcall Hstore].
        assert (Htf : forall t, In t (tags_for (map ev_sig pre) s before) <->
                                In t before /\ computed_for evs (length pre) t s).
        { intros t. rewrite Hevs. apply tags_for_In. }
        (* what call_ok says *)
        assert (Hc : (tags_for (map ev_sig pre) s before = [] /\ ninv = 1 /\ r = length pre) \/
                     (ninv = 0 /\ In r (tags_for (map ev_sig pre) s before))).
        { destruct (tags_for (map ev_sig pre) s before) as [|t0 tr].
          - left. apply andb_true_iff in Hcall as [H1 H2]. apply Nat.eqb_eq in H1, H2. auto.
          - right. apply andb_true_iff in Hcall as [H1 H2]. apply Nat.eqb_eq in H1.
            apply nmem_In in H2. auto. }
        assert (Hninv : ninv = 0 \/ ninv = 1) by (destruct Hc as [[_ [H _]]|[H _]]; auto).
        split.
        * split; [|intros; congruence].
          intros s0 ninv0 r0 cont0 Hn0 Ho0. rewrite Hn in Hn0. rewrite Ho in Ho0.
          injection Hn0 as <-. injection Ho0 as <- <- <-.
          unfold call_spec. split.
          { destruct Hc as [[_ [H1 H2]]|[H1 H2]]; [left; auto|]. right. split; [assumption|].
            now apply Htf in H2. }
          destruct (observable kind) eqn:Ob.
          -- destruct (observable_user Ob) as [cap Hk]. rewrite Hk. cbv zeta.
             unfold before_inv in Hb. rewrite Ob in Hb. rewrite <- Hk, <- Hb.
             split; [|split].
             ++ split.
                ** intros ->. destruct Hc as [[_ [H1 _]]|[_ H2]]; [discriminate|].
                   exists r. now apply Htf.
                ** intros [t Ht]. apply Htf in Ht. destruct Hc as [[H1 _]|[H1 _]]; [|assumption].
                   rewrite H1 in Ht. contradiction.
             ++ intros ->. destruct Hc as [[_ [H1 _]]|[_ H2]]; [discriminate|].
                split; [now apply Htf in H2|]. cbn [Nat.eqb] in Hstore. now apply nset_eqb_iff.
             ++ intros ->. cbn [Nat.eqb] in Hstore. apply andb_true_iff in Hstore as [H1 H2].
                split; [now apply nsubset_incl|].
                rewrite Hk in H2. cbn [cap_kind] in H2. destruct cap as [n|].
                ** apply andb_true_iff in H2 as [H2 H3]. apply Nat.eqb_eq in H3. split; [|assumption].
                   apply orb_true_iff in H2 as [H2|H2]; [left; now apply Nat.eqb_eq | right; now apply nmem_In].
                ** now apply nset_eqb_iff.
          -- pose proof (observable_default Ob) as Hk. rewrite Hk.
             split; [destruct cont; [reflexivity|discriminate]|]. split.
             ++ split.
                ** intros ->. destruct Hc as [[_ [H1 _]]|[_ H2]]; [discriminate|].
                   exists r. now apply Htf in H2.
                ** intros Hex.
                   destruct (default_cover (length pre) before s Hk Hb Hlo Hprev Hex) as [t Ht].
                   apply Htf in Ht. destruct Hc as [[H1 _]|[H1 _]]; [|assumption].
                   rewrite H1 in Ht. contradiction.
             ++ intros ->. destruct Hc as [[_ [H1 _]]|[_ H2]]; [discriminate|].
                apply Htf in H2 as [H2 _]. unfold before_inv in Hb. rewrite Ob in Hb.
                now apply Hb in H2.
        * eexists. split; [|exact Hrest].
          exact (before_inv_call (length pre) before s ninv r cont Hn Ho Hninv Hb).
      + (* an eviction *)
        cbn [mon] in Hmon. rewrite map_app. cbn [map ev_sig].
        apply andb_true_iff in Hmon as [Hmon Hrest]. apply andb_true_iff in Hmon as [Hz Hstore].
        apply Nat.eqb_eq in Hz.
        split.
        * split; [intros; congruence|].
          intros v0 ninv0 r0 cont0 Hn0 Ho0. rewrite Hn in Hn0. rewrite Ho in Ho0.
          injection Hn0 as <-. injection Ho0 as <- <- <-.
          unfold evict_spec. split; [assumption|].
          destruct (observable kind) eqn:Ob.
          -- destruct (observable_user Ob) as [cap Hk]. rewrite Hk.
             unfold before_inv in Hb. rewrite Ob in Hb. rewrite <- Hk, <- Hb.
             now apply nset_eqb_iff.
          -- rewrite (observable_default Ob). destruct cont; [reflexivity|discriminate].
        * eexists. split; [|exact Hrest].
          exact (before_inv_evict (length pre) before v ninv r cont Hn Ho Hb).
  Qed.

  Lemma before_inv_init : before_inv 0 (initial_tags kind pf).
  Proof.
    unfold before_inv. destruct kind as [|cap]; cbn [observable]; [|reflexivity].
    intros t. cbn [initial_tags In]. split; [contradiction | intros [H _]; lia].
  Qed.

  Lemma mon_sound :
    mon kind evs observed [] (initial_tags kind pf) 0 = true -> trace_spec kind pf evs observed.
  Proof.
    intros H.
    destruct (mon_sound_gen evs observed [] [] (initial_tags kind pf) eq_refl eq_refl eq_refl
                before_inv_init) as [Hl Hall].
    - intros j Hj. simpl in Hj. lia.
    - exact H.
    - split; [exact Hl|]. split.
      + intros i s ninv r cont Hn Ho. exact (proj1 (Hall i) s ninv r cont Hn Ho).
      + intros i v ninv r cont Hn Ho. exact (proj2 (Hall i) v ninv r cont Hn Ho).
  Qed.

  (* ---- converse: statement => accepted ----------------------------------- *)

  Hypothesis Hspec : trace_spec kind pf evs observed.

  Lemma spec_event i : event_spec i.
  Proof.
    destruct Hspec as [_ [H1 H2]]. split.
    - intros s ninv r cont. apply H1.
    - intros v ninv r cont. apply H2.
  Qed.

  Lemma mon_complete_gen : forall suf sufobs pre preobs before,
    evs = pre ++ suf -> observed = preobs ++ sufobs -> length preobs = length pre ->
    before_inv (length pre) before ->
    mon kind suf sufobs (map ev_sig pre) before (length pre) = true.
  Proof.
    induction suf as [|x suf IH]; intros sufobs pre preobs before Hevs Hobs Hlen Hb.
    - destruct sufobs as [|o sufobs]; [reflexivity|]. exfalso.
      destruct Hspec as [Hl _]. rewrite Hevs, Hobs, !app_length in Hl. simpl in Hl. lia.
    - destruct sufobs as [|[[ninv r] cont] sufobs].
      { exfalso. destruct Hspec as [Hl _]. rewrite Hevs, Hobs, !app_length in Hl. simpl in Hl. lia. }
      assert (Hn : nth_error evs (length pre) = Some x) by (rewrite Hevs; apply nth_error_mid).
      assert (Ho : nth_error observed (length pre) = Some (ninv, r, cont)).
      { rewrite Hobs, <- Hlen. apply nth_error_mid. }
      assert (Hevs' : evs = (pre ++ [x]) ++ suf) by (rewrite <- app_assoc; exact Hevs).
      assert (Hobs' : observed = (preobs ++ [(ninv, r, cont)]) ++ sufobs) by (rewrite <- app_assoc; exact Hobs).
      assert (Hlen' : length (preobs ++ [(ninv, r, cont)]) = length (pre ++ [x])).
      { rewrite !app_length, Hlen. reflexivity. }
      assert (HS : length (pre ++ [x]) = S (length pre)) by (rewrite app_length; simpl; lia).
      assert (Hlo : length pre <= length observed).
      { rewrite Hobs, app_length. lia. }
      specialize (IH sufobs (pre ++ [x]) (preobs ++ [(ninv, r, cont)])).
      rewrite HS, map_app in IH. cbn [map] in IH. rewrite HS in Hlen'.
      destruct x as [s|v].
      + pose proof (proj1 (spec_event (length pre)) s ninv r cont Hn Ho) as Hc.
        unfold call_spec in Hc. destruct Hc as [Hfirst Hkind].
        assert (Hninv : ninv = 0 \/ ninv = 1) by (destruct Hfirst as [[H _]|[H _]]; auto).
        cbn [mon]. cbn [ev_sig] in IH.
        rewrite (IH _ Hevs' Hobs' Hlen' (before_inv_call (length pre) before s ninv r cont Hn Ho Hninv Hb)).
        rewrite andb_true_r.
        assert (Htf : forall t, In t (tags_for (map ev_sig pre) s before) <->
                                In t before /\ computed_for evs (length pre) t s).
        { intros t. rewrite Hevs. apply tags_for_In. }
        destruct (observable kind) eqn:Ob.
        * destruct (observable_user Ob) as [cap Hk]. rewrite Hk in Hkind. cbv zeta in Hkind.
          unfold before_inv in Hb. rewrite Ob in Hb. rewrite <- Hk, <- Hb in Hkind.
          destruct Hkind as [Hiff [Hhit Hmiss]].
          apply andb_true_iff. split.
          -- destruct (tags_for (map ev_sig pre) s before) as [|t0 tr] eqn:Et.
             ++ destruct Hfirst as [[H1 H2]|[H1 _]].
                ** subst. now rewrite !Nat.eqb_refl.
                ** exfalso. apply Hiff in H1 as [t Ht]. apply Htf in Ht. contradiction.
             ++ assert (H0 : ninv = 0).
                { apply Hiff. exists t0. apply Htf. now left. }
                subst ninv. cbn [Nat.eqb andb]. apply nmem_In.
                destruct Hfirst as [[H1 _]|[_ Hcf]]; [discriminate|].
                apply Htf. split; [exact (proj1 (Hhit eq_refl)) | assumption].
          -- destruct Hninv as [-> | ->]; cbn [Nat.eqb].
             ++ apply nset_eqb_iff. exact (proj2 (Hhit eq_refl)).
             ++ destruct (Hmiss eq_refl) as [H1 H2]. apply andb_true_iff. split; [now apply nsubset_incl|].
                rewrite Hk. cbn [cap_kind]. destruct cap as [n|].
                ** destruct H2 as [H2 H3]. apply andb_true_iff. split; [|now apply Nat.eqb_eq].
                   apply orb_true_iff. destruct H2 as [H2|H2]; [left; now apply Nat.eqb_eq | right; now apply nmem_In].
                ** now apply nset_eqb_iff.
        * pose proof (observable_default Ob) as Hk. rewrite Hk in Hkind.
          destruct Hkind as [Hcont [Hiff Hinv]]. subst cont. rewrite andb_true_r.
          assert (Hprev : forall j, j < length pre -> event_spec j) by (intros j _; apply spec_event).
          destruct (tags_for (map ev_sig pre) s before) as [|t0 tr] eqn:Et.
          -- destruct Hfirst as [[H1 H2]|[H1 _]].
             ++ subst. now rewrite !Nat.eqb_refl.
             ++ exfalso. apply Hiff in H1.
                destruct (default_cover (length pre) before s Hk Hb Hlo Hprev H1) as [t Ht].
                apply Htf in Ht. contradiction.
          -- assert (H0 : ninv = 0).
             { apply Hiff. exists t0. assert (Hin : In t0 (t0 :: tr)) by now left.
               now apply Htf in Hin. }
             subst ninv. cbn [Nat.eqb andb]. apply nmem_In.
             destruct Hfirst as [[H1 _]|[_ Hcf]]; [discriminate|].
             apply Htf. split; [|assumption].
             unfold before_inv in Hb. rewrite Ob in Hb. apply Hb.
             destruct Hcf as [Hr [s0 [Hn0 _]]]. split; [assumption|]. split; [now exists s0 | now apply Hinv].
      + pose proof (proj2 (spec_event (length pre)) v ninv r cont Hn Ho) as Hc.
        unfold evict_spec in Hc. destruct Hc as [Hz Hkind]. subst ninv.
        cbn [mon]. cbn [ev_sig] in IH.
        rewrite (IH _ Hevs' Hobs' Hlen' (before_inv_evict (length pre) before v 0 r cont Hn Ho Hb)).
        rewrite andb_true_r. cbn [Nat.eqb andb].
        destruct (observable kind) eqn:Ob.
        * destruct (observable_user Ob) as [cap Hk]. rewrite Hk in Hkind.
          unfold before_inv in Hb. rewrite Ob in Hb. rewrite <- Hk, <- Hb in Hkind.
          now apply nset_eqb_iff.
        * rewrite (observable_default Ob) in Hkind. now subst cont.
  Qed.

  Lemma mon_complete : mon kind evs observed [] (initial_tags kind pf) 0 = true.
  Proof. exact (mon_complete_gen evs observed [] [] (initial_tags kind pf) eq_refl eq_refl eq_refl before_inv_init). Qed.

End Mon.

(* ---- the two directions, in the form props/C14.v states them ---------------- *)

Lemma ok_sound kind pf evs observed :
  ok (C14 kind pf evs observed) = true -> trace_spec kind pf evs observed.
Proof. apply mon_sound. Qed.

Lemma ok_complete kind pf evs observed :
  trace_spec kind pf evs observed -> ok (C14 kind pf evs observed) = true.
Proof. apply mon_complete. Qed.

(* ---- the second monitor (identity-less results) --------------------------- *)

(* per call: 0 or 1 invocations, and 0 exactly when an earlier call had the same arguments *)
Definition ninv_spec (evs : list ev) (ninvs : list nat) : Prop :=
  length ninvs = length evs /\
  forall i s n, nth_error evs i = Some (Call s) -> nth_error ninvs i = Some n ->
    (n = 0 \/ n = 1) /\ (n = 0 <-> exists j, computed_for evs i j s).

Lemma existsb_sigs pre suf s :
  existsb (fun s' => same_args s' s) (KeysMonN.sigs pre) = true <->
  exists j, computed_for (pre ++ suf) (length pre) j s.
Proof.
  rewrite existsb_exists. split.
  - intros [s' [Hin Hs]]. apply KeysMonN.in_sigs in Hin. apply In_nth_error in Hin as [j Hj].
    exists j. apply (nth_error_pre pre suf) in Hj as [Hl Hj]. split; [assumption|].
    exists s'. split; [assumption | now apply same_args_iff].
  - intros [j [Hl [s' [Hj Hs]]]]. exists s'. split; [|now apply same_args_iff].
    apply KeysMonN.in_sigs. apply nth_error_In with j. apply (nth_error_pre pre suf). now split.
Qed.

Section MonN.
  Variable evs : list ev.
  Variable ninvs : list nat.

  Definition n_event_spec (i : nat) : Prop :=
    forall s n, nth_error evs i = Some (Call s) -> nth_error ninvs i = Some n ->
      (n = 0 \/ n = 1) /\ (n = 0 <-> exists j, computed_for evs i j s).

  Lemma mon_n_sound_gen : forall suf sufn pre pren,
    evs = pre ++ suf -> ninvs = pren ++ sufn -> length pren = length pre ->
    mon_n suf sufn (KeysMonN.sigs pre) = true ->
    length sufn = length suf /\ forall i, length pre <= i -> n_event_spec i.
  Proof.
    induction suf as [|x suf IH]; intros sufn pre pren Hevs Hn Hlen Hmon.
    - destruct sufn; [|discriminate]. split; [reflexivity|]. intros i Hi s n H.
      assert (nth_error evs i = None); [|congruence].
      apply nth_error_None. now rewrite Hevs, app_nil_r.
    - destruct x as [s|v]; [|discriminate]. destruct sufn as [|n sufn]; [discriminate|].
      cbn [mon_n] in Hmon. apply andb_true_iff in Hmon as [H1 H2]. apply Nat.eqb_eq in H1.
      assert (Hevs' : evs = (pre ++ [Call s]) ++ suf) by (rewrite <- app_assoc; exact Hevs).
      assert (Hn' : ninvs = (pren ++ [n]) ++ sufn) by (rewrite <- app_assoc; exact Hn).
      assert (Hlen' : length (pren ++ [n]) = length (pre ++ [Call s])) by (rewrite !app_length, Hlen; reflexivity).
      replace (KeysMonN.sigs pre ++ [s]) with (KeysMonN.sigs (pre ++ [Call s])) in H2
        by (rewrite KeysMonN.sigs_app; reflexivity).
      destruct (IH sufn _ _ Hevs' Hn' Hlen' H2) as [Hl Hall].
      split; [simpl; now rewrite Hl|].
      intros i Hi. destruct (Nat.eq_dec i (length pre)) as [->|Hne].
      + intros s0 n0 He Ho.
        rewrite Hevs, nth_error_mid in He. rewrite Hn, <- Hlen, nth_error_mid in Ho.
        injection He as <-. injection Ho as <-.
        pose proof (existsb_sigs pre (Call s :: suf) s) as Hex. rewrite <- Hevs in Hex.
        destruct (existsb (fun s' => same_args s' s) (KeysMonN.sigs pre)).
        * subst n. split; [now left|]. split; [intros _; now apply Hex | reflexivity].
        * subst n. split; [now right|]. split; [discriminate|]. intros H. apply Hex in H. discriminate.
      + apply Hall. rewrite app_length. simpl. lia.
  Qed.

  Lemma mon_n_complete_gen : ninv_spec evs ninvs -> forall suf sufn pre pren,
    evs = pre ++ suf -> ninvs = pren ++ sufn -> length pren = length pre ->
    forallb is_call suf = true ->
    mon_n suf sufn (KeysMonN.sigs pre) = true.
  Proof.
    intros [HL Hspec]. induction suf as [|x suf IH]; intros sufn pre pren Hevs Hn Hlen Hcalls.
    - destruct sufn; [reflexivity|]. exfalso. rewrite Hevs, Hn, !app_length in HL. simpl in HL. lia.
    - destruct sufn as [|n sufn].
      { exfalso. rewrite Hevs, Hn, !app_length in HL. simpl in HL. lia. }
      cbn [forallb] in Hcalls. apply andb_true_iff in Hcalls as [Hx Hcalls].
      destruct x as [s|v]; [|discriminate]. cbn [mon_n].
      assert (Hevs' : evs = (pre ++ [Call s]) ++ suf) by (rewrite <- app_assoc; exact Hevs).
      assert (Hn' : ninvs = (pren ++ [n]) ++ sufn) by (rewrite <- app_assoc; exact Hn).
      assert (Hlen' : length (pren ++ [n]) = length (pre ++ [Call s])) by (rewrite !app_length, Hlen; reflexivity).
      specialize (IH sufn _ _ Hevs' Hn' Hlen' Hcalls). rewrite KeysMonN.sigs_app in IH. cbn [KeysMonN.sigs] in IH.
      rewrite IH, andb_true_r. apply Nat.eqb_eq.
      assert (He : nth_error evs (length pre) = Some (Call s)) by (rewrite Hevs; apply nth_error_mid).
      assert (Ho : nth_error ninvs (length pre) = Some n) by (rewrite Hn, <- Hlen; apply nth_error_mid).
      destruct (Hspec _ _ _ He Ho) as [H01 Hiff].
      pose proof (existsb_sigs pre (Call s :: suf) s) as Hex. rewrite <- Hevs in Hex.
      destruct (existsb (fun s' => same_args s' s) (KeysMonN.sigs pre)).
      + apply Hiff. now apply Hex.
      + destruct H01 as [H0|H1]; [|assumption]. apply Hiff, Hex in H0. discriminate.
  Qed.
End MonN.

Lemma ok_n_sound kind evs ninvs :
  ok (C14N kind evs ninvs) = true ->
  retaining kind = true -> forallb is_call evs = true -> ninv_spec evs ninvs.
Proof.
  unfold ok. intros H Hr Hc. rewrite Hr, Hc in H. cbn [andb negb orb] in H.
  destruct (mon_n_sound_gen evs ninvs evs ninvs [] [] eq_refl eq_refl eq_refl H) as [Hl Hall].
  split; [exact Hl|]. intros i s n. apply Hall. simpl. lia.
Qed.

Lemma ok_n_complete kind evs ninvs :
  ninv_spec evs ninvs -> ok (C14N kind evs ninvs) = true.
Proof.
  intros H. unfold ok. destruct (retaining kind && forallb is_call evs) eqn:E; [|reflexivity].
  apply andb_true_iff in E as [_ Hc]. cbn [negb orb].
  exact (mon_n_complete_gen evs ninvs H evs ninvs [] [] eq_refl eq_refl eq_refl Hc).
Qed.

(* ---- eviction => exactly one recomputation, from the statement alone ------- *)

Section Evict.
  Variable cap : option nat.
  Variable pf : bool.
  Variable evs : list ev.
  Variable observed : list obs.
  Hypothesis Hspec : trace_spec (KUser cap) pf evs observed.
  (* tag 99 is reserved for the foreign entry of a pre-populated mapping *)
  Hypothesis Hbound : pf = true -> length evs <= prefill_tag.

  Notation held := (held_before (KUser cap) pf observed).

  Lemma obs_at i : i < length evs -> exists ninv r cont, nth_error observed i = Some (ninv, r, cont).
  Proof.
    intros Hi. destruct Hspec as [Hl _].
    destruct (nth_error observed i) as [[[ninv r] cont]|] eqn:E; [now exists ninv, r, cont|].
    apply nth_error_None in E. lia.
  Qed.

  Lemma held_S i ninv r cont : nth_error observed i = Some (ninv, r, cont) -> held (S i) = cont.
  Proof. intros H. cbn [held_before]. now rewrite H. Qed.

  (* what event i does to the tags: nothing new but (for a computing call) i itself *)
  Lemma held_step i : i < length evs -> forall t, In t (held (S i)) -> In t (held i) \/ (t = i /\ exists s, nth_error evs i = Some (Call s) /\ invoked observed i).
  Proof.
    intros Hi t Ht. destruct (obs_at i Hi) as [ninv [r [cont Ho]]]. rewrite (held_S _ _ _ _ Ho) in Ht.
    destruct Hspec as [_ [Hc He]].
    destruct (nth_error evs i) as [[s|v]|] eqn:En.
    - destruct (Hc _ _ _ _ _ En Ho) as [Hfirst [_ [Hhit Hmiss]]].
      destruct Hfirst as [[H1 _]|[H0 _]].
      + destruct (Hmiss H1) as [Hincl _]. apply Hincl in Ht. destruct Ht as [<-|Ht]; [|now left].
        right. split; [reflexivity|]. exists s. split; [reflexivity|]. subst ninv. now exists r, cont.
      + destruct (Hhit H0) as [_ [Hincl _]]. left. now apply Hincl.
    - destruct (He _ _ _ _ _ En Ho) as [_ [Hincl _]]. apply Hincl in Ht. left.
      unfold without in Ht. now apply filter_In in Ht.
    - apply nth_error_None in En. lia.
  Qed.

  Lemma held_bound : forall i, i <= length evs ->
    forall t, In t (held i) -> t < i \/ (pf = true /\ t = prefill_tag).
  Proof.
    induction i as [|i IH]; intros Hi t Ht.
    - cbn [held_before initial_tags] in Ht. unfold init_user in Ht. destruct pf; simpl in Ht; [|contradiction].
      destruct Ht as [<-|[]]. right. now split.
    - destruct (held_step i Hi t Ht) as [H|[-> _]]; [|left; lia].
      destruct (IH (Nat.lt_le_incl _ _ Hi) t H) as [H1|H1]; [left; lia | now right].
  Qed.

  Lemma held_lt i t x : i <= length evs -> In t (held i) -> nth_error evs t = Some x -> t < i.
  Proof.
    intros Hi Ht Hx. destruct (held_bound i Hi t Ht) as [H|[Hp ->]]; [assumption|].
    assert (prefill_tag < length evs) by (apply nth_error_Some; congruence).
    specialize (Hbound Hp). lia.
  Qed.

  (* the mapping never holds two values computed for the same arguments *)
  Lemma held_unique : forall i, i <= length evs ->
    forall t1 t2 s1 s2, In t1 (held i) -> In t2 (held i) ->
      nth_error evs t1 = Some (Call s1) -> nth_error evs t2 = Some (Call s2) ->
      sig_equiv s1 s2 -> t1 = t2.
  Proof.
    induction i as [|i IH]; intros Hi t1 t2 s1 s2 H1 H2 E1 E2 Hs.
    - pose proof (held_lt 0 t1 _ Hi H1 E1). lia.
    - assert (Hi' : i <= length evs) by lia.
      assert (Hmiss : forall t s s', In t (held i) -> nth_error evs t = Some (Call s') ->
                        nth_error evs i = Some (Call s) -> invoked observed i -> sig_equiv s' s -> False).
      { intros t s s' Ht Et Ei [r [c Ho]] Hss. destruct Hspec as [_ [Hc _]].
        destruct (Hc _ _ _ _ _ Ei Ho) as [_ [Hiff _]].
        assert (H0 : 1 = 0); [|discriminate]. apply Hiff. exists t. split; [assumption|].
        split; [exact (held_lt i t _ Hi' Ht Et)|]. now exists s'. }
      destruct (held_step i Hi t1 H1) as [H1'|[-> [sa [Ea Ia]]]];
      destruct (held_step i Hi t2 H2) as [H2'|[-> [sb [Eb Ib]]]].
      + exact (IH Hi' t1 t2 s1 s2 H1' H2' E1 E2 Hs).
      + exfalso. rewrite Eb in E2. injection E2 as ->. exact (Hmiss t1 s2 s1 H1' E1 Eb Ib Hs).
      + exfalso. rewrite Ea in E1. injection E1 as ->.
        exact (Hmiss t2 s1 s2 H2' E2 Ea Ia (sig_equiv_sym _ _ Hs)).
      + reflexivity.
  Qed.

  Lemma evict_recompute_gen i v s0 s :
    nth_error evs i = Some (Evict v) -> In v (held i) -> nth_error evs v = Some (Call s0) ->
    sig_equiv s0 s ->
    forall d, S i + d <= length evs ->
      (forall k s', i < k < S i + d -> nth_error evs k = Some (Call s') -> ~ sig_equiv s' s) ->
      forall t s', In t (held (S i + d)) -> nth_error evs t = Some (Call s') -> ~ sig_equiv s' s.
  Proof.
    intros Ei Hv Ev Hs0. assert (Hil : i < length evs) by (apply nth_error_Some; congruence).
    induction d as [|d IH]; intros Hd Hnone t s' Ht Et Hss.
    - rewrite Nat.add_0_r in Ht. destruct (obs_at i Hil) as [ninv [r [cont Ho]]].
      rewrite (held_S _ _ _ _ Ho) in Ht. destruct Hspec as [_ [_ He]].
      destruct (He _ _ _ _ _ Ei Ho) as [_ [Hincl _]]. apply Hincl in Ht.
      unfold without in Ht. apply filter_In in Ht as [Ht Hne].
      assert (t = v).
      { apply (held_unique i (Nat.lt_le_incl _ _ Hil) t v s' s0 Ht Hv Et Ev).
        eapply sig_equiv_trans; [exact Hss | now apply sig_equiv_sym]. }
      subst t. rewrite Nat.eqb_refl in Hne. discriminate.
    - replace (S i + S d) with (S (S i + d)) in * by lia.
      assert (Hk : S i + d < length evs) by lia.
      destruct (held_step (S i + d) Hk t Ht) as [Ht'|[-> [sa [Ea _]]]].
      + apply (IH (Nat.lt_le_incl _ _ Hk)) with t s'; try assumption.
        intros k s1 Hr. apply Hnone. lia.
      + rewrite Ea in Et. injection Et as ->. apply (Hnone (S i + d) s'); [lia | assumption | assumption].
  Qed.

  (* after the eviction of the value computed by call v, the next call j with
     the same arguments computes (once) and gets its own value ... *)
  Lemma evict_then_recompute i v s0 j s :
    nth_error evs i = Some (Evict v) -> In v (held i) -> nth_error evs v = Some (Call s0) ->
    i < j -> nth_error evs j = Some (Call s) -> sig_equiv s0 s ->
    (forall k s', i < k < j -> nth_error evs k = Some (Call s') -> ~ sig_equiv s' s) ->
    exists cont, nth_error observed j = Some (1, j, cont) /\ (cap <> Some 0 -> In j cont).
  Proof.
    intros Ei Hv Ev Hij Ej Hs0 Hnone.
    assert (Hjl : j < length evs) by (apply nth_error_Some; congruence).
    destruct (obs_at j Hjl) as [ninv [r [cont Ho]]].
    destruct Hspec as [_ [Hc _]]. destruct (Hc _ _ _ _ _ Ej Ho) as [Hfirst [Hiff [_ Hmiss]]].
    assert (Hn0 : ninv <> 0).
    { intros H0. apply Hiff in H0 as [t [Ht [Hl [s' [Et Hss]]]]].
      pose proof (evict_recompute_gen i v s0 s Ei Hv Ev Hs0 (j - S i)) as G.
      replace (S i + (j - S i)) with j in G by lia.
      exact (G (Nat.lt_le_incl _ _ Hjl) Hnone t s' Ht Et Hss). }
    destruct Hfirst as [[-> ->]|[H0 _]]; [|contradiction].
    exists cont. split; [exact Ho|]. intros Hcap.
    destruct (Hmiss eq_refl) as [_ H]. destruct cap as [n|].
    - destruct H as [[->|H] _]; [congruence | assumption].
    - destruct H as [_ [H _]]. apply H. now left.
  Qed.

  (* ... and a call with the same arguments right after that one is served that value *)
  Lemma then_shared j s s2 cont :
    nth_error evs j = Some (Call s) -> nth_error observed j = Some (1, j, cont) -> In j cont ->
    nth_error evs (S j) = Some (Call s2) -> sig_equiv s s2 ->
    exists cont2, nth_error observed (S j) = Some (0, j, cont2).
  Proof.
    intros Ej Ho Hin Ej2 Hss.
    assert (Hjl : S j < length evs) by (apply nth_error_Some; congruence).
    destruct (obs_at (S j) Hjl) as [ninv [r [cont2 Ho2]]].
    destruct Hspec as [_ [Hc _]]. destruct (Hc _ _ _ _ _ Ej2 Ho2) as [Hfirst [Hiff [Hhit _]]].
    rewrite (held_S _ _ _ _ Ho) in Hiff, Hhit.
    assert (H0 : ninv = 0).
    { apply Hiff. exists j. split; [assumption|]. split; [lia|]. now exists s. }
    subst ninv. destruct Hfirst as [[H1 _]|[_ [Hr [s' [Er Hs']]]]]; [discriminate|].
    destruct (Hhit eq_refl) as [Hrin _].
    assert (r = j).
    { apply (held_unique (S j) (Nat.lt_le_incl _ _ Hjl) r j s' s); try assumption.
      - now rewrite (held_S _ _ _ _ Ho).
      - now rewrite (held_S _ _ _ _ Ho).
      - eapply sig_equiv_trans; [exact Hs' | now apply sig_equiv_sym]. }
    subst r. now exists cont2.
  Qed.
End Evict.

Lemma ok_sound_evict cap pf evs observed :
  ok (C14 (KUser cap) pf evs observed) = true ->
  (pf = true -> length evs <= prefill_tag) ->
  forall i v s0 j s,
    nth_error evs i = Some (Evict v) ->
    In v (held_before (KUser cap) pf observed i) ->
    nth_error evs v = Some (Call s0) -> sig_equiv s0 s ->
    i < j -> nth_error evs j = Some (Call s) ->
    (forall k s', i < k < j -> nth_error evs k = Some (Call s') -> ~ sig_equiv s' s) ->
    exists cont, nth_error observed j = Some (1, j, cont) /\
      (cap <> Some 0 -> forall s2, nth_error evs (S j) = Some (Call s2) -> sig_equiv s s2 ->
         exists cont2, nth_error observed (S j) = Some (0, j, cont2)).
Proof.
  intros Hok Hb i v s0 j s Ei Hv Ev Hs0 Hij Ej Hnone.
  pose proof (ok_sound _ _ _ _ Hok) as Hspec.
  destruct (evict_then_recompute cap pf evs observed Hspec Hb i v s0 j s Ei Hv Ev Hij Ej Hs0 Hnone)
    as [cont [Ho Hin]].
  exists cont. split; [exact Ho|]. intros Hcap s2 Ej2 Hss.
  exact (then_shared cap pf evs observed Hspec Hb j s s2 cont Ej Ho (Hin Hcap) Ej2 Hss).
Qed.
