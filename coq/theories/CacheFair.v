(* CacheFair.v — C05: termination and promptness on INFINITE accepted runs of the cache model
   (Cache.step), with the obligations of the environment as explicit hypotheses.

   A run is r : nat -> ev with every finite prefix accepted (accepted_run); st nl tbl r n is the
   state after n events.  Such a run cannot stutter: every position carries an accepted event.

   fair_env (E1 every active invocation eventually is not active; E2 the clock diverges; E3 after
   some position no Cancel / LoopEv / cancelled proxy occurs and no loop is in its shutdown run):
     run_terminates     every caller that has started and whose loop runs at every position is
                        eventually PDone.  Constructive, no axiom.
     fair_prompt        a waiter whose wait is over (event set / proxy finished) on a running loop
                        resumes or is answered before the clock moves.  Constructive (needs E2 only).
   fair_env_weak replaces E2 by clock WEAK FAIRNESS (the clock does not stay below T for ever if from
   some position on a strictly later Adv is enabled whenever the clock is below T):
     weak_clock_diverges  E2 follows (bounded_work: while the clock is below T only boundedly many
                          non-clock events occur, so a tail of the run is clock events only, each
                          accepted in a quiescent state where the clock can move on).  Uses
                          Classical_Prop.classic (a bounded monotone sequence is eventually constant).
     fair_run_terminates  termination under fair_env_weak and library weak fairness (lib_weak_fair).
   FINDING: lib_weak_fair is not used by any proof.  In this model an infinite accepted run is
   automatically fair to the library: the clock event is accepted only in quiescent states (no library
   step pending on a running loop), the environment's own events are finite by E3, and there is no
   stuttering event; an unfair scheduler can only produce a finite stuck run, and those are covered
   by CacheWork.maximal_trace_done_or_timer.
   Route of run_terminates: E2 yields accepted Adv events arbitrarily late (adv_position), E1 + "one
   invocation per caller" (VInv, invs_bounded) yield one in a state without active invocations
   (quiet_adv); there every caller on a running loop is PStart, PDone, or waits across loops for a
   dead loop with its deadline ahead (adv_caller_cases, using AInv: the owner of an awaited event
   sits on the awaited loop); after E3 nobody starts waiting for a dead loop any more (G_step), so at
   a second such Adv past the deadline only PDone is left.
   demo_run / demo_hypotheses / demo_loops_running: an infinite run satisfying every hypothesis. *)
From Coq Require Import List Arith NArith Bool Lia ZifyBool ZifyNat ZifyN.
Import ListNotations.
Require Import Aiuti.Cache Aiuti.CacheLemmas Aiuti.CacheInv Aiuti.CacheLive Aiuti.CacheRetry Aiuti.CacheWork.

(* ================= state invariants ================= *)
(* a marker (l, e) of key k: e is owned by a caller of key k on loop l *)
Definition lowned (s : state) (k l e : nat) : Prop :=
  exists d dr, getc s d = Some dr /\ own_ev (cpc dr) = Some e /\ ckey dr = k /\ cloop dr = l.

Lemma lowned_set_pc st s c cr p k l e :
  callers st = callers s -> getc s c = Some cr -> lowned s k l e ->
  (own_ev (cpc cr) = Some e -> own_ev p = Some e) -> lowned (set_pc st c cr p) k l e.
Proof.
  intros Hc Hg (d & dr & Hd & Ho & Hk & Hl) Hp.
  assert (Hg' : getc st c = Some cr) by (unfold getc in *; rewrite Hc; assumption).
  destruct (Nat.eq_dec c d) as [->|Hn].
  - exists d, (mkC (cloop cr) (ckey cr) p (ccanc cr)). split.
    + erewrite getc_set_pc by eassumption. rewrite Nat.eqb_refl. reflexivity.
    + simpl. split; [apply Hp|split]; congruence.
  - exists d, dr. split; auto. erewrite getc_set_pc by eassumption.
    destruct (Nat.eqb_spec c d); [contradiction|]. unfold getc in *. rewrite Hc. assumption.
Qed.

Lemma lowned_same st s k l e : callers st = callers s -> lowned s k l e -> lowned st k l e.
Proof. intros Hc (d & dr & Hd & Ho). exists d, dr. split; auto. unfold getc in *. rewrite Hc. auto. Qed.

Lemma lowned_cancel s c cr k l e : getc s c = Some cr -> lowned s k l e ->
  lowned (set_callers s (lset dummyC (callers s) c (mkC (cloop cr) (ckey cr) (cpc cr) true))) k l e.
Proof.
  intros Hg (d & dr & Hd & Ho & Hk & Hl). destruct (Nat.eq_dec c d) as [->|Hn].
  - eexists d, _. erewrite getc_cancel by eassumption. rewrite Nat.eqb_refl. split; [reflexivity|]. simpl.
    repeat split; congruence.
  - exists d, dr. erewrite getc_cancel by eassumption. destruct (Nat.eqb_spec c d); [contradiction|]. auto.
Qed.

Lemma lowned_ms s tick k l e : lowned s k l e ->
  lowned (set_now (set_callers s (map (mark_started s) (callers s))) tick) k l e.
Proof.
  intros (d & dr & Hd & Ho & Hk & Hl). exists d, (mark_started s dr). split.
  - erewrite (getc_map s (mark_started s)) by reflexivity. rewrite Hd. reflexivity.
  - rewrite ms_own, ms_key, ms_loop. auto.
Qed.

(* the (loop, event) a caller has decided to wait for *)
Definition await_le (p : pc) (lc : nat) : option (nat * nat) :=
  match p with
  | PUnlock (DWait l e) | PXSub l e | PWaitX l e _ _ _ => Some (l, e)
  | PWait e _ => Some (lc, e)
  | _ => None
  end.
Lemma ms_await_le s cr lc : await_le (cpc (mark_started s cr)) lc = await_le (cpc cr) lc.
Proof. apply (ms_class (fun p => await_le p lc)). reflexivity. Qed.

Lemma await_le_ev p lc l e : await_le p lc = Some (l, e) -> await_ev p = Some e.
Proof. destruct p as [| | | | | |[]| | | | | | | | | |]; simpl; intros H; try discriminate; injection H as <- <-; reflexivity. Qed.

Section APres.
Variables (s s' : state) (e : ev).
Hypothesis I : Inv s.
Hypothesis LI : LInv s.
Hypothesis T : trans s e s'.
Hypothesis MO : forall k l e, marker_at s k = Some (l, e) -> lowned s k l e.
Hypothesis AW : forall c cr l e d dr, getc s c = Some cr -> await_le (cpc cr) (cloop cr) = Some (l, e) ->
                getc s d = Some dr -> own_ev (cpc dr) = Some e -> cloop dr = l.

Lemma pres_MOl : forall k l e, marker_at s' k = Some (l, e) -> lowned s' k l e.
Proof.
  pose proof (iA2 s I) as A2.
  tcases T; intros k0 l0 e0 Hm0.
  all: try solve [ apply MO in Hm0;
                   first [ apply lowned_ms; exact Hm0 | eapply lowned_cancel; eassumption
                         | eapply lowned_same; [reflexivity|exact Hm0] ] ].
  all: try solve [ apply MO in Hm0;
    eapply lowned_set_pc; [reflexivity|eassumption|exact Hm0|];
    intros Hx;
    match goal with
    | Hp : can_probe _ _ |- _ => rewrite (can_probe_own _ _ Hp) in Hx; discriminate
    | Hp : _ \/ _ |- _ => rewrite (waiting_own _ Hp) in Hx; discriminate
    | |- _ => mv_simpl; try congruence; try (rewrite Hx in *; discriminate);
              match goal with Hc : cpc _ = _ |- _ => rewrite Hc in Hx; simpl in Hx; congruence end
    end ].
  - unfold marker_at in Hm0. simpl in Hm0. rewrite lget_lset in Hm0.
    destruct (Nat.eqb_spec (ckey cr) k0) as [<-|Hn].
    + injection Hm0 as <- <-. eexists c, _. split.
      * erewrite getc_set_pc by eassumption. rewrite Nat.eqb_refl. reflexivity.
      * simpl. auto.
    + apply MO in Hm0. eapply lowned_set_pc; [reflexivity|eassumption|exact Hm0|].
      intros Hx. rewrite H2 in Hx. discriminate.
  - unfold marker_at in Hm0. simpl in Hm0. rewrite lget_lset in Hm0.
    destruct (Nat.eqb_spec (ckey cr) k0) as [<-|Hn]; [discriminate|].
    apply MO in Hm0 as Hk. eapply lowned_set_pc; [reflexivity|eassumption|exact Hk|].
    intros Hx. exfalso. destruct Hk as (d & dr & Hd & Ho & Hkk & _).
    assert (c = d) by (eapply A2; eauto). subst d. rewrite H in Hd. injection Hd as <-. auto.
  - change (marker_at s k0 = Some (l0, e0)) in Hm0.
    apply MO in Hm0 as Hk. eapply lowned_set_pc; [reflexivity|eassumption|exact Hk|].
    intros Hx. exfalso. destruct Hk as (d & dr & Hd & Ho & Hkk & _).
    assert (c = d) by (eapply A2; eauto). subst d. rewrite H in Hd. injection Hd as <-.
    rewrite H3 in Hx. simpl in Hx. injection Hx as <-. subst k0. eapply Hm; eauto.
Qed.

Lemma pres_AW : forall c cr l e d dr, getc s' c = Some cr -> await_le (cpc cr) (cloop cr) = Some (l, e) ->
                getc s' d = Some dr -> own_ev (cpc dr) = Some e -> cloop dr = l.
Proof.
  pose proof (iA2 s I) as A2. pose proof (lW s LI) as W.
  tcases T; intros c1 cr1 l1 e1 d1 dr1 Hg1 Ha1 Hg2 Ho2; start_ s;
    rewrite ?ms_await_le, ?ms_own, ?ms_loop in *; simpl cpc in *; simpl cloop in *.
  all: try solve [ eapply AW; eauto ].
  all: try solve [ exfalso; match goal with Hp : can_probe _ _ |- _ => apply can_probe_pc in Hp;
                     unfold probe_pc in *; destruct (cache_at _ _); simpl in *; discriminate end ].
  all: mv_simpl; try discriminate.
  all: try (injection Ha1 as <- <-); try (injection Ho2 as <-).
  all: try solve [ match goal with Hg : getc _ _ = Some ?x, Hc : cpc ?x = _ |- _ =>
                     eapply (AW _ x); [exact Hg|rewrite Hc; simpl; rewrite ?Nat.eqb_refl; reflexivity|eassumption|eassumption] end ].
  all: try solve [ match goal with Hg : getc _ _ = Some ?x, Hc : cpc ?x = _ |- _ =>
                     eapply (AW _ _ _ _ _ x); [eassumption|eassumption|exact Hg|rewrite Hc; reflexivity] end ].
  all: try solve [ exact (AW _ _ _ _ _ _ Hg1 Ha1 Hg2 Ho2) ].
  - destruct (MO _ _ _ Hm) as (d & dr & Hd & Ho & _ & Hl).
    assert (d = d1) by (eapply A2; eauto). subst d. congruence.
  - exfalso. apply await_le_ev in Ha1. pose proof (W _ _ _ Hg1 Ha1). lia.
  - rewrite <- e0. eapply (AW _ cr); eauto. rewrite Hpc. reflexivity.
  - exact (AW _ _ _ _ _ _ H Ha1 Hg2 Ho2).
Qed.
End APres.

Record AInv (s : state) : Prop := mkAInv {
  aMO : forall k l e, marker_at s k = Some (l, e) -> lowned s k l e;
  aAW : forall c cr l e d dr, getc s c = Some cr -> await_le (cpc cr) (cloop cr) = Some (l, e) ->
        getc s d = Some dr -> own_ev (cpc dr) = Some e -> cloop dr = l
}.

Lemma AInv_init n tbl : AInv (init n tbl).
Proof.
  constructor; intros.
  - unfold marker_at in H. simpl in H. destruct k; discriminate.
  - apply init_pc in H. rewrite H in H0. discriminate.
Qed.

Lemma pres_AInv s e s' : Inv s -> LInv s -> AInv s -> step s e = Some s' -> AInv s'.
Proof.
  intros I LI [MO AW] Hs. apply step_trans in Hs as [_ T]. constructor.
  - eapply pres_MOl; eauto.
  - eapply pres_AW; eauto.
Qed.


(* every caller performs at most one invocation of the wrapped function *)
Definition post_inv (p : pc) : bool :=
  match p with
  | PComp _ _ | PPublish _ _ | PFinLock _ _ | PFinUnlock _ | PFinish _ | PDone _ => true
  | _ => false
  end.
Lemma ms_post s cr : post_inv (cpc (mark_started s cr)) = post_inv (cpc cr).
Proof. apply ms_class. reflexivity. Qed.

Definition postc (s : state) (c : nat) : Prop := exists cr, getc s c = Some cr /\ post_inv (cpc cr) = true.

Lemma postc_set_pc st s c cr p h :
  callers st = callers s -> getc s c = Some cr -> postc s h ->
  (c = h -> post_inv (cpc cr) = true -> post_inv p = true) -> postc (set_pc st c cr p) h.
Proof.
  intros Hc Hg (crh & Hgh & Hl) Hp. unfold postc.
  assert (Hg' : getc st c = Some cr) by (unfold getc in *; rewrite Hc; assumption).
  erewrite getc_set_pc by eassumption. destruct (Nat.eqb_spec c h) as [->|Hn].
  - eexists. split; [reflexivity|]. simpl. apply Hp; auto. congruence.
  - exists crh. split; auto. unfold getc in *. rewrite Hc. assumption.
Qed.
Lemma postc_same st s h : callers st = callers s -> postc s h -> postc st h.
Proof. intros Hc (d & Hd & Ho). exists d. split; auto. unfold getc in *. rewrite Hc. auto. Qed.
Lemma postc_cancel s c cr h : getc s c = Some cr -> postc s h ->
  postc (set_callers s (lset dummyC (callers s) c (mkC (cloop cr) (ckey cr) (cpc cr) true))) h.
Proof.
  intros Hg (dr & Hd & Ho). unfold postc. erewrite getc_cancel by eassumption.
  destruct (Nat.eqb_spec c h) as [->|Hn].
  - eexists. split; [reflexivity|]. simpl. congruence.
  - exists dr. auto.
Qed.
Lemma postc_ms s tick h : postc s h -> postc (set_now (set_callers s (map (mark_started s) (callers s))) tick) h.
Proof.
  intros (dr & Hd & Ho). exists (mark_started s dr). split.
  - erewrite (getc_map s (mark_started s)) by reflexivity. rewrite Hd. reflexivity.
  - rewrite ms_post. assumption.
Qed.
Lemma can_probe_post s cr : can_probe s cr -> post_inv (cpc cr) = false.
Proof.
  intros H. apply can_probe_pc in H.
  destruct H as [H | [H | [(e & dl & H) | (l & e & dl & xd & xs & H)]]]; rewrite H; reflexivity.
Qed.
Lemma waiting_post cr : waiting cr -> post_inv (cpc cr) = false.
Proof. intros [(e & dl & H) | (l & e & dl & xd & xs & H)]; rewrite H; reflexivity. Qed.

(* how the invocation table changes in one step: old entries keep index, key, loop, caller *)
Lemma invs_step s e s' : trans s e s' ->
  forall i ir', nth_error (invs s') i = Some ir' ->
    (exists ir, nth_error (invs s) i = Some ir /\ icaller ir = icaller ir'
                /\ (istat ir <> IActive -> istat ir' <> IActive))
    \/ (i = length (invs s) /\ exists c t, e = IStart i c t /\ icaller ir' = c /\ istat ir' = IActive).
Proof.
  intros T. tcases T; intros j jr Hj; proj_norm; try (left; exists jr; auto; fail).
  - rewrite nth_error_snoc in Hj. destruct (Nat.eqb_spec j (length (invs s))).
    + injection Hj as <-. right. subst. eauto 10.
    + left. eauto.
  - erewrite nth_error_lset in Hj by (eapply nth_error_Some_lt; eassumption).
    destruct (Nat.eqb_spec i j); [injection Hj as <-; subst; left; exists ir; simpl; repeat split; auto; congruence|left; eauto].
  - erewrite nth_error_lset in Hj by (eapply nth_error_Some_lt; eassumption).
    destruct (Nat.eqb_spec i j); [injection Hj as <-; subst; left; exists ir; simpl; repeat split; auto; congruence|left; eauto].
  - erewrite nth_error_lset in Hj by (eapply nth_error_Some_lt; eassumption).
    destruct (Nat.eqb_spec i j); [injection Hj as <-; subst; left; exists ir; simpl; repeat split; auto; congruence|left; eauto].
  - rewrite nth_error_map in Hj. destruct (nth_error (invs s) j) as [jr0|] eqn:Hj0; [|discriminate].
    injection Hj as <-. left. exists jr0. unfold abandon.
    destruct (istat jr0) eqn:Hs; try (rewrite Hs; auto; fail).
    destruct (iloop jr0 =? t); simpl; repeat split; auto; congruence.
Qed.

Lemma postc_pres s e s' h : trans s e s' -> postc s h -> postc s' h.
Proof.
  intros T Hl. tcases T.
  all: try solve [ first [ apply postc_ms; exact Hl | eapply postc_cancel; eassumption
                         | eapply postc_same; [reflexivity|exact Hl] ] ].
  all: try solve [
    eapply postc_set_pc; [reflexivity|eassumption|exact Hl|];
    intros _ Hx;
    match goal with
    | Hp : can_probe _ _ |- _ => rewrite (can_probe_post _ _ Hp) in Hx; discriminate
    | Hp : _ \/ _ |- _ => rewrite (waiting_post _ Hp) in Hx; discriminate
    | Hc : cpc _ = _ |- _ => rewrite Hc in Hx; simpl in Hx; try discriminate; mv_simpl; reflexivity
    | |- _ => mv_simpl; try discriminate; reflexivity
    end ].
Qed.

Lemma istart_post s i c t s' : trans s (IStart i c t) s' ->
  postc s' c /\ exists cr, getc s c = Some cr /\ cpc cr = PInvoke (match cpc cr with PInvoke e => e | _ => 0 end).
Proof.
  intros T. remember (IStart i c t) as ev eqn:Hev. destruct T; try discriminate Hev. injection Hev as <- <- <-.
  split.
  - eexists. split; [erewrite getc_set_pc by eassumption; rewrite Nat.eqb_refl; reflexivity|reflexivity].
  - exists cr. split; auto. rewrite H1. reflexivity.
Qed.

Record VInv (s : state) : Prop := mkVInv {
  v1 : forall i ir, nth_error (invs s) i = Some ir -> postc s (icaller ir);
  v2 : forall i j ir jr, nth_error (invs s) i = Some ir -> nth_error (invs s) j = Some jr ->
       icaller ir = icaller jr -> i = j
}.

Lemma VInv_init n tbl : VInv (init n tbl).
Proof. constructor; intros; simpl in *; destruct i; discriminate. Qed.

Lemma pres_VInv s e s' : VInv s -> step s e = Some s' -> VInv s'.
Proof.
  intros [V1 V2] Hs. apply step_trans in Hs as [_ T]. constructor.
  - intros i ir Hi. destruct (invs_step _ _ _ T _ _ Hi) as [(ir0 & H0 & Hc & _) | (_ & c & t & -> & Hc & _)].
    + rewrite <- Hc. eapply postc_pres; eauto.
    + rewrite Hc. eapply istart_post; eauto.
  - intros i j ir jr Hi Hj Hc.
    destruct (invs_step _ _ _ T _ _ Hi) as [(ir0 & Hi0 & Hci & _) | (Hil & ci & ti & He & Hci & _)];
    destruct (invs_step _ _ _ T _ _ Hj) as [(jr0 & Hj0 & Hcj & _) | (Hjl & cj & tj & He' & Hcj & _)].
    + eapply V2; eauto. congruence.
    + exfalso. subst e. destruct (istart_post _ _ _ _ _ T) as (_ & cr & Hg & Hp).
      destruct (V1 _ _ Hi0) as (cr' & Hg' & Hpost). rewrite Hci, Hc, Hcj, Hg in Hg'. injection Hg' as <-.
      rewrite Hp in Hpost. discriminate.
    + exfalso. subst e. destruct (istart_post _ _ _ _ _ T) as (_ & cr & Hg & Hp).
      destruct (V1 _ _ Hj0) as (cr' & Hg' & Hpost). rewrite Hcj, <- Hc, Hci, Hg in Hg'. injection Hg' as <-.
      rewrite Hp in Hpost. discriminate.
    + congruence.
Qed.

Lemma nodup_map_inj {A} (f : A -> nat) (l : list A) :
  (forall i j x y, nth_error l i = Some x -> nth_error l j = Some y -> f x = f y -> i = j) -> NoDup (map f l).
Proof.
  induction l as [|a r IH]; intros H; simpl; constructor.
  - intros Hin. apply in_map_iff in Hin as (y & Hy & Hin). apply In_nth_error in Hin as (j & Hj).
    specialize (H 0 (S j) a y eq_refl Hj (eq_sym Hy)). discriminate.
  - apply IH. intros i j x y Hi Hj Hf. specialize (H (S i) (S j) x y Hi Hj Hf). lia.
Qed.

Lemma invs_bounded s : VInv s -> length (invs s) <= length (callers s).
Proof.
  intros [V1 V2]. rewrite <- (map_length icaller), <- (seq_length (length (callers s)) 0).
  apply NoDup_incl_length.
  - apply nodup_map_inj. exact V2.
  - intros c Hin. apply in_map_iff in Hin as (ir & <- & Hin). apply In_nth_error in Hin as (i & Hi).
    destruct (V1 _ _ Hi) as (cr & Hg & _). apply in_seq. apply nth_error_Some_lt in Hg. lia.
Qed.

(* every IEnd ends a different invocation: #IEnd <= #invocations <= #callers *)
Definition iended (ir : irec) : bool :=
  match istat ir with IOk | IExc | ICanc => true | _ => false end.
Definition updE (k : nat) (s : state) (e : ev) : nat := k + b2n (is_iend e).
Definition PE (k : nat) (s : state) : Prop := k <= cnt iended (invs s).

Lemma PE_step k s e s' : PE k s -> step s e = Some s' -> PE (updE k s e) s'.
Proof.
  unfold PE, updE. intros P Hs. apply step_trans in Hs as [_ T].
  tcases T; simpl is_iend; simpl b2n; simpl invs; try lia.
  - rewrite cnt_app. lia.
  - pose proof (cnt_lset iended dummyI (invs s) i ir (mkI (ikey ir) (iloop ir) (icaller ir) IOk) H) as Hc.
    assert (E1 : iended ir = false) by (unfold iended; rewrite H3; reflexivity).
    rewrite E1 in Hc. change (iended (mkI (ikey ir) (iloop ir) (icaller ir) IOk)) with true in Hc. simpl in Hc. lia.
  - pose proof (cnt_lset iended dummyI (invs s) i ir (mkI (ikey ir) (iloop ir) (icaller ir) IExc) H) as Hc.
    assert (E1 : iended ir = false) by (unfold iended; rewrite H3; reflexivity).
    rewrite E1 in Hc. change (iended (mkI (ikey ir) (iloop ir) (icaller ir) IExc)) with true in Hc. simpl in Hc. lia.
  - pose proof (cnt_lset iended dummyI (invs s) i ir (mkI (ikey ir) (iloop ir) (icaller ir) ICanc) H) as Hc.
    assert (E1 : iended ir = false) by (unfold iended; destruct H3 as [H3 | H3]; rewrite H3; reflexivity).
    rewrite E1 in Hc. change (iended (mkI (ikey ir) (iloop ir) (icaller ir) ICanc)) with true in Hc. simpl in Hc. lia.
  - rewrite (cnt_map iended iended (abandon t)); [lia|].
    intros x. unfold iended, abandon. destruct (istat x) eqn:Hx; try (rewrite Hx; reflexivity).
    destruct (iloop x =? t); simpl; rewrite ?Hx; reflexivity.
Qed.

Lemma cnt_le_length {A} (p : A -> bool) l : cnt p l <= length l.
Proof. unfold cnt. induction l as [|a l IH]; simpl; [lia|]. destruct (p a); simpl; lia. Qed.

Lemma n_iend_le_invs n tbl tr s : run (init n tbl) tr = Some s -> n_iend tr <= length (invs s).
Proof.
  intros H.
  assert (HP : PE (ghost_run updE 0 (init n tbl) tr) s).
  { eapply (ghost_ind updE PE); [| apply Inv_init | apply LInv_init | | exact H].
    - intros g s0 e s1 _ _. apply PE_step.
    - unfold PE. simpl. lia. }
  unfold PE in HP.
  rewrite (ghost_count updE (fun k => k) (fun _ e => is_iend e)) in HP by reflexivity.
  rewrite (count_run_trace _ _ _ _ H) in HP. pose proof (cnt_le_length iended (invs s)).
  unfold n_iend. simpl in *. lia.
Qed.

(* classical: a monotone bounded sequence of naturals is eventually constant *)
From Coq Require Import Classical_Prop.
Lemma ev_const (f : nat -> nat) (B : nat) : (forall n, f n <= f (S n)) -> (forall n, f n <= B) ->
  exists n0, forall m, n0 <= m -> f m = f n0.
Proof.
  intros Hm HB.
  assert (Hmono : forall a b, a <= b -> f a <= f b).
  { induction 1; [lia|]. specialize (Hm m). lia. }
  assert (H : forall k n, B - f n <= k -> exists n0, forall m, n0 <= m -> f m = f n0).
  { induction k as [|k IH]; intros n Hk.
    - exists n. intros m Hle. specialize (Hmono n m Hle). specialize (HB m). lia.
    - destruct (classic (exists m, n <= m /\ f n < f m)) as [(m & Hle & Hlt) | Hno].
      + apply (IH m). specialize (HB m). lia.
      + exists n. intros m Hle. specialize (Hmono n m Hle).
        destruct (Nat.eq_dec (f m) (f n)); [assumption|]. exfalso. apply Hno. exists m. split; [assumption|lia]. }
  apply (H B 0). lia.
Qed.

(* ================= infinite runs ================= *)
Definition prefix (r : nat -> ev) (n : nat) : list ev := map r (seq 0 n).
Definition accepted_run (nl : nat) (tbl : list (nat * nat)) (r : nat -> ev) : Prop :=
  forall n, exists s, run (init nl tbl) (prefix r n) = Some s.
(* the state after the first n events *)
Definition st (nl : nat) (tbl : list (nat * nat)) (r : nat -> ev) (n : nat) : state :=
  match run (init nl tbl) (prefix r n) with Some s => s | None => init nl tbl end.

Lemma run_snoc : forall l s e, run s (l ++ [e]) = match run s l with Some s1 => step s1 e | None => None end.
Proof.
  induction l as [|a l IH]; intros s e; simpl.
  - destruct (step s e); reflexivity.
  - destruct (step s a); [apply IH|reflexivity].
Qed.

Lemma prefix_S r n : prefix r (S n) = prefix r n ++ [r n].
Proof. unfold prefix. rewrite seq_S, map_app. reflexivity. Qed.

Lemma trans_now s e s' : trans s e s' -> now s' = now s \/ exists t, e = Adv t /\ now s' = t /\ (now s <= t)%N.
Proof. intros T. tcases T; simpl; eauto 10. Qed.

Lemma trans_loops s e s' : trans s e s' -> (forall t w, e <> LoopEv t w) -> loops s' = loops s.
Proof. intros T H. tcases T; simpl; try reflexivity; exfalso; eapply H; reflexivity. Qed.

Lemma trans_getc s e s' c cr : trans s e s' -> getc s c = Some cr ->
  exists cr', getc s' c = Some cr' /\ cloop cr' = cloop cr /\ ckey cr' = ckey cr
              /\ (cpc cr <> PStart -> cpc cr' <> PStart).
Proof.
  intros T Hg. tcases T.
  all: try (erewrite getc_set_pc by eassumption).
  all: try (erewrite getc_cancel by eassumption).
  all: try (erewrite (getc_map _ (mark_started _)) by reflexivity; rewrite Hg; simpl).
  all: try match goal with |- context [if ?a =? ?b then _ else _] => destruct (Nat.eqb_spec a b); [subst|] end.
  all: try solve [ exists cr; auto ].
  all: try solve [ eexists; split; [reflexivity|]; simpl;
                   match goal with Hq : getc _ _ = Some _ |- _ => rewrite Hg in Hq; injection Hq as <- end;
                   repeat split; auto; mv_simpl; try discriminate; auto ].
  eexists. split; [reflexivity|]. rewrite ms_loop, ms_key. repeat split; auto.
  intros Hn Hq. apply Hn.
  destruct (mark_started_props s cr) as (_ & _ & _ & [Hx | (l & e & dl & xd & Hx & Hy)]); congruence.
Qed.


Lemma trans_invs_len s e s' : trans s e s' -> length (invs s) <= length (invs s').
Proof.
  intros T. tcases T; simpl invs; rewrite ?app_length, ?map_length; try lia.
  all: apply length_lset_ge.
Qed.

Definition quiet (s : state) : Prop :=
  forall i ir, nth_error (invs s) i = Some ir -> istat ir <> IActive.

Lemma quiet_dec s : quiet s \/ exists i ir, nth_error (invs s) i = Some ir /\ istat ir = IActive.
Proof.
  unfold quiet. induction (invs s) as [|a l IH].
  - left. intros [|i] ir H; discriminate.
  - destruct (istat a) eqn:Ha; try (right; exists 0, a; split; [reflexivity|assumption]).
    all: destruct IH as [IH | (i & ir & Hi & Hs)]; [|right; exists (S i), ir; auto].
    all: left; intros [|i] ir H; simpl in H; [injection H as <-; congruence|eapply IH; eauto].
Qed.

(* a wait is either inherited from the previous state or freshly decided on a marker whose loop is alive *)
Lemma await_step s e s' c cr' l e0 : trans s e s' -> getc s' c = Some cr' ->
  await_le (cpc cr') (cloop cr') = Some (l, e0) ->
  (exists cr, getc s c = Some cr /\ await_le (cpc cr) (cloop cr) = Some (l, e0)) \/ alive (lp s l) = true.
Proof.
  intros T. tcases T; intros Hg1 Ha1; start_ s; rewrite ?ms_await_le, ?ms_loop in *; simpl cpc in *; simpl cloop in *.
  all: try solve [ left; eauto ].
  all: try solve [ exfalso; match goal with Hp : can_probe _ _ |- _ =>
                     unfold probe_pc in *; destruct (cache_at _ _); simpl in *; discriminate end ].
  all: mv_simpl; try discriminate.
  all: try (injection Ha1 as <- <-).
  all: try solve [ right; assumption ].
  all: try solve [ left; match goal with Hg : getc _ _ = Some ?x, Hc : cpc ?x = _ |- _ =>
                     exists x; split; [exact Hg|rewrite Hc; simpl; rewrite ?Nat.eqb_refl; reflexivity] end ].
Qed.

(* a cross-loop wait keeps its loop, event and deadline until it ends *)
Lemma waitx_step s e s' c cr l e0 dl xd xs : trans s e s' -> getc s c = Some cr ->
  cpc cr = PWaitX l e0 dl xd xs ->
  exists cr', getc s' c = Some cr'
    /\ ((exists xd' xs', cpc cr' = PWaitX l e0 dl xd' xs') \/ await_le (cpc cr') (cloop cr') = None).
Proof.
  intros T Hg Hp. tcases T.
  all: try (erewrite getc_set_pc by eassumption).
  all: try (erewrite getc_cancel by eassumption).
  all: try (erewrite (getc_map _ (mark_started _)) by reflexivity; rewrite Hg; simpl).
  all: try match goal with |- context [if ?a =? ?b then _ else _] => destruct (Nat.eqb_spec a b); [subst|] end.
  all: try solve [ exists cr; split; [assumption|left; eauto] ].
  all: try match goal with Hq : getc _ _ = Some _ |- _ => rewrite Hg in Hq; injection Hq as <- end.
  all: try solve [ eexists; split; [reflexivity|]; simpl; rewrite ?Hp; eauto ].
  all: try solve [ eexists; split; [reflexivity|]; right; simpl;
                   unfold probe_pc; destruct (cache_at _ _); reflexivity ].
  all: try solve [ exfalso; mv_simpl; congruence ].
  - rewrite Hp in H0. injection H0 as <- <- <- _ <-. eexists. split; [reflexivity|]. left. simpl. eauto.
  - eexists. split; [reflexivity|]. left.
    destruct (mark_started_props s cr) as (_ & _ & _ & [Hx | (l' & e' & dl' & xd' & Hx & Hy)]).
    + rewrite Hx, Hp. eauto.
    + rewrite Hy. rewrite Hp in Hx. injection Hx as <- <- <- <- _. eauto.
Qed.

Definition lifecycle_ev (e : ev) : bool :=
  match e with Cancel _ _ | LoopEv _ _ | Proxy _ _ (S _) => true | _ => false end.

Section Run.
Variables (nl : nat) (tbl : list (nat * nat)) (r : nat -> ev).
Hypothesis Acc : accepted_run nl tbl r.
Notation S_ := (st nl tbl r).

Lemma st_run n : run (init nl tbl) (prefix r n) = Some (S_ n).
Proof. unfold st. destruct (Acc n) as (s & ->). reflexivity. Qed.

Lemma st_step n : step (S_ n) (r n) = Some (S_ (S n)).
Proof.
  pose proof (st_run (S n)) as H. rewrite prefix_S, run_snoc, st_run in H. exact H.
Qed.

Lemma st_trans n : trans (S_ n) (r n) (S_ (S n)).
Proof. apply step_trans. apply st_step. Qed.

Lemma st_Inv n : Inv (S_ n) /\ LInv (S_ n).
Proof. eapply run_LInv. apply st_run. Qed.

Lemma st_AV n : AInv (S_ n) /\ VInv (S_ n).
Proof.
  induction n as [|n [IA IV]].
  - unfold st. simpl. split; [apply AInv_init|apply VInv_init].
  - destruct (st_Inv n) as [I LI]. split.
    + eapply pres_AInv; eauto. apply st_step.
    + eapply pres_VInv; eauto. apply st_step.
Qed.

Lemma now_step n : (now (S_ n) <= now (S_ (S n)))%N.
Proof. destruct (trans_now _ _ _ (st_trans n)) as [-> | (t & _ & -> & H)]; lia. Qed.

Lemma now_mono n m : n <= m -> (now (S_ n) <= now (S_ m))%N.
Proof. induction 1; [lia|]. pose proof (now_step m). lia. Qed.

(* the clock moves only by Adv: between two readings that differ there is an accepted Adv *)
Lemma clock_change a b : a <= b -> (now (S_ a) < now (S_ b))%N ->
  exists p t, a <= p < b /\ r p = Adv t.
Proof.
  induction 1 as [|b Hab IH]; intros Hlt; [lia|].
  destruct (trans_now _ _ _ (st_trans b)) as [Heq | (t & He & _)].
  - rewrite Heq in Hlt. destruct (IH Hlt) as (p & t & Hp & Hr). exists p, t. split; [lia|assumption].
  - exists b, t. split; [lia|assumption].
Qed.

(* the environment obligations *)
Record fair_env : Prop := mkFE {
  (* E1: every invocation that is active (started, its loop never stopped) eventually is not *)
  fe1 : forall n i ir, nth_error (invs (S_ n)) i = Some ir -> istat ir = IActive ->
        exists m ir', n <= m /\ nth_error (invs (S_ m)) i = Some ir' /\ istat ir' <> IActive;
  (* E2: the clock diverges *)
  fe2 : forall n T, exists m, n <= m /\ (T <= now (S_ m))%N;
  (* E3: life-cycle activity is finite and shutdown runs finish *)
  fe3 : exists p, (forall m, p <= m -> lifecycle_ev (r m) = false) /\ forall t, lp (S_ p) t <> LShut
}.

Hypothesis FE : fair_env.

(* an accepted Adv at a position >= n whose pre-state clock reads at least D *)
Lemma adv_position n D : exists p t, n <= p /\ r p = Adv t /\ (D <= now (S_ p))%N.
Proof.
  destruct (fe2 FE n D) as (m1 & Hm1 & HD).
  destruct (fe2 FE m1 (now (S_ m1) + 1)%N) as (m2 & Hm2 & HT).
  destruct (clock_change m1 m2 Hm2) as (p & t & Hp & Hr); [lia|].
  exists p, t. split; [lia|]. split; [assumption|].
  pose proof (now_mono m1 p). lia.
Qed.

(* a non-active invocation stays non-active; the table only grows *)
Lemma inactive_step n i ir : nth_error (invs (S_ n)) i = Some ir -> istat ir <> IActive ->
  exists ir', nth_error (invs (S_ (S n))) i = Some ir' /\ istat ir' <> IActive.
Proof.
  intros Hi Hs. pose proof (st_trans n) as T.
  pose proof (trans_invs_len _ _ _ T) as Hlen. apply nth_error_Some_lt in Hi as Hlt.
  destruct (nth_error (invs (S_ (S n))) i) as [ir'|] eqn:Hi'.
  - exists ir'. split; [reflexivity|].
    destruct (invs_step _ _ _ T _ _ Hi') as [(ir0 & H0 & _ & Hk) | (Hq & _)]; [|lia].
    apply Hk. congruence.
  - apply nth_error_None in Hi'. lia.
Qed.

Lemma inactive_mono n m i ir : n <= m -> nth_error (invs (S_ n)) i = Some ir -> istat ir <> IActive ->
  exists ir', nth_error (invs (S_ m)) i = Some ir' /\ istat ir' <> IActive.
Proof.
  induction 1 as [|m Hnm IH]; intros Hi Hs; [eauto|].
  destruct (IH Hi Hs) as (ir1 & H1 & Hs1). eapply inactive_step; eauto.
Qed.

Lemma invs_len_mono n m : n <= m -> length (invs (S_ n)) <= length (invs (S_ m)).
Proof. induction 1; [lia|]. pose proof (trans_invs_len _ _ _ (st_trans m)). lia. Qed.

Lemma callers_len n : length (callers (S_ n)) = length tbl.
Proof.
  induction n as [|n IH].
  - unfold st. simpl. apply map_length.
  - rewrite (trans_callers_len _ _ _ (st_trans n)). exact IH.
Qed.

Lemma invs_len_bound n : length (invs (S_ n)) <= length tbl.
Proof. rewrite <- (callers_len n). apply invs_bounded. apply st_AV. Qed.

Lemma inactive_upto K : forall n, K <= length (invs (S_ n)) ->
  exists q, n <= q /\ forall i ir, i < K -> nth_error (invs (S_ q)) i = Some ir -> istat ir <> IActive.
Proof.
  induction K as [|K IH]; intros n HK.
  - exists n. split; [lia|]. intros; lia.
  - destruct (IH n) as (q & Hq & Hall); [lia|].
    pose proof (invs_len_mono n q Hq) as Hlen.
    destruct (nth_error (invs (S_ q)) K) as [ir|] eqn:HiK; [|apply nth_error_None in HiK; lia].
    assert (Hm : exists m ir', q <= m /\ nth_error (invs (S_ m)) K = Some ir' /\ istat ir' <> IActive).
    { destruct (istat ir) eqn:Hs; try (exists q, ir; repeat split; auto; congruence).
      eapply (fe1 FE); eauto. }
    destruct Hm as (m & ir' & Hqm & HmK & Hs').
    exists m. split; [lia|]. intros i ir0 Hi Hnth.
    destruct (Nat.eq_dec i K) as [->|Hne]; [congruence|].
    assert (HiK' : i < K) by lia.
    destruct (nth_error (invs (S_ q)) i) as [irq|] eqn:Hiq.
    + destruct (inactive_mono q m i irq Hqm Hiq (Hall _ _ HiK' Hiq)) as (ir1 & H1 & Hs1). congruence.
    + apply nth_error_None in Hiq. lia.
Qed.

(* an accepted Adv, as late and with the clock as far as we like, in a state without any active invocation *)
Lemma quiet_adv : forall k n D, length tbl - length (invs (S_ n)) <= k ->
  exists p t, n <= p /\ r p = Adv t /\ (D <= now (S_ p))%N /\ quiet (S_ p).
Proof.
  induction k as [|k IH]; intros n D Hk.
  all: destruct (inactive_upto (length (invs (S_ n))) n (le_n _)) as (q & Hq & Hall).
  all: destruct (adv_position q D) as (p & t & Hp & Hr & HD).
  all: destruct (quiet_dec (S_ p)) as [Hqu | (i & ir & Hi & Hs)];
    [exists p, t; repeat split; auto; lia|].
  all: assert (Hge : length (invs (S_ n)) <= i).
  1,3: destruct (Nat.le_gt_cases (length (invs (S_ n))) i) as [|Hlt]; [assumption|exfalso];
       (destruct (nth_error (invs (S_ q)) i) as [irq|] eqn:Hiq;
        [ destruct (inactive_mono q p i irq Hp Hiq (Hall _ _ Hlt Hiq)) as (ir1 & H1 & Hs1); congruence
        | apply nth_error_None in Hiq; pose proof (invs_len_mono n q Hq); lia ]).
  all: apply nth_error_Some_lt in Hi; pose proof (invs_len_bound p).
  - lia.
  - destruct (IH p D) as (p' & t' & Hp' & H'); [lia|]. exists p', t'. split; [lia|exact H'].
Qed.

(* ---- what a quiet state looks like when the clock is allowed to move ---- *)
Lemma adv_comp_contra p c cr i e : quiet (S_ p) -> getc (S_ p) c = Some cr -> cpc cr = PComp i e ->
  lp (S_ p) (cloop cr) = LRun -> False.
Proof.
  intros Hq Hg Hp Hr. destruct (st_Inv p) as [_ LI].
  destruct (lI _ LI _ _ _ _ Hg Hp) as (ir & Hi & _ & _ & _ & Ha). exact (Hq _ _ Hi (Ha Hr)).
Qed.

Lemma adv_owner_contra p t d dr e : r p = Adv t -> quiet (S_ p) -> getc (S_ p) d = Some dr ->
  own_ev (cpc dr) = Some e -> lp (S_ p) (cloop dr) = LRun -> False.
Proof.
  intros Hr Hq Hg Ho Hl. pose proof (st_step p) as Hs. rewrite Hr in Hs.
  apply adv_guard in Hs as (_ & _ & Hb). destruct (Hb _ _ Hg) as [_ Hrun].
  destruct (Hrun Hl) as (Hsus & _).
  destruct (cpc dr) as [| | | | | |[]| | | | | | | | | |] eqn:Hp; try discriminate Ho; try discriminate Hsus.
  eapply adv_comp_contra; eauto.
Qed.

Lemma adv_caller_cases p t c cr : r p = Adv t -> quiet (S_ p) -> getc (S_ p) c = Some cr ->
  lp (S_ p) (cloop cr) = LRun ->
  cpc cr = PStart \/ (exists o, cpc cr = PDone o)
  \/ (exists l e dl xs, cpc cr = PWaitX l e dl None xs /\ lp (S_ p) l <> LRun /\ (now (S_ p) < dl)%N).
Proof.
  intros Hr Hq Hg Hl. pose proof (st_step p) as Hs. rewrite Hr in Hs.
  apply adv_guard in Hs as (_ & _ & Hb). destruct (Hb _ _ Hg) as [_ Hrun].
  destruct (Hrun Hl) as (Hsus & _ & Hw & Hwx).
  destruct (st_Inv p) as [I LI]. destruct (st_AV p) as [[_ AW] _].
  destruct (cpc cr) eqn:Hp; try discriminate Hsus; eauto.
  - exfalso. eapply adv_comp_contra; eauto.
  - exfalso. destruct (Hw _ _ eq_refl) as (_ & Hunset & _).
    assert (Ha : await_ev (cpc cr) = Some e) by (rewrite Hp; reflexivity).
    destruct (no_lost_wakeup_state _ LI _ _ _ Hg Ha) as [Hset | (d & dr & Hd & Ho)]; [congruence|].
    assert (Hle : await_le (cpc cr) (cloop cr) = Some (cloop cr, e)) by (rewrite Hp; reflexivity).
    pose proof (AW _ _ _ _ _ _ Hg Hle Hd Ho) as Hcl.
    eapply (adv_owner_contra p t d dr); eauto. congruence.
  - destruct (Hwx _ _ _ _ _ eq_refl) as (_ & -> & Hdead & Hlt & _).
    right. right. exists l, e, dl, xs. repeat split; auto.
    intros Hlr. destruct Hdead as [Hunset | Hna]; [|rewrite Hlr in Hna; discriminate].
    assert (Ha : await_ev (cpc cr) = Some e) by (rewrite Hp; reflexivity).
    destruct (no_lost_wakeup_state _ LI _ _ _ Hg Ha) as [Hset | (d & dr & Hd & Ho)]; [congruence|].
    assert (Hle : await_le (cpc cr) (cloop cr) = Some (l, e)) by (rewrite Hp; reflexivity).
    pose proof (AW _ _ _ _ _ _ Hg Hle Hd Ho) as Hcl.
    eapply (adv_owner_contra p t d dr); eauto. congruence.
Qed.

Lemma getc_mono c n m cr : n <= m -> getc (S_ n) c = Some cr ->
  exists cr', getc (S_ m) c = Some cr' /\ cloop cr' = cloop cr /\ (cpc cr <> PStart -> cpc cr' <> PStart).
Proof.
  induction 1 as [|m Hnm IH]; intros Hg; [eauto|].
  destruct (IH Hg) as (cr1 & Hg1 & Hl1 & Hs1).
  destruct (trans_getc _ _ _ _ _ (st_trans m) Hg1) as (cr2 & Hg2 & Hl2 & _ & Hs2).
  exists cr2. repeat split; auto; congruence.
Qed.

(* ---- after the life-cycle activity has ended ---- *)
Section Stable.
Variable p0 : nat.
Hypothesis Hq0 : forall m, p0 <= m -> lifecycle_ev (r m) = false.
Hypothesis Hsh0 : forall t, lp (S_ p0) t <> LShut.

Lemma loops_static m : p0 <= m -> loops (S_ m) = loops (S_ p0).
Proof.
  induction 1 as [|m Hm IH]; [reflexivity|]. rewrite <- IH.
  apply (trans_loops _ _ _ (st_trans m)). intros t w He. specialize (Hq0 m Hm). rewrite He in Hq0. discriminate.
Qed.

Lemma lp_static m t : p0 <= m -> lp (S_ m) t = lp (S_ p0) t.
Proof. intros H. unfold lp. rewrite (loops_static m H). reflexivity. Qed.

(* G c n: caller c does not wait for anything on a loop that is not running *)
Definition G (c n : nat) : Prop :=
  forall cr l e, getc (S_ n) c = Some cr -> await_le (cpc cr) (cloop cr) = Some (l, e) -> lp (S_ n) l = LRun.

Lemma G_step c n : p0 <= n -> G c n -> G c (S n).
Proof.
  intros Hn HG cr l e Hg Ha. rewrite lp_static by lia. rewrite <- (lp_static n) by lia.
  destruct (await_step _ _ _ _ _ _ _ (st_trans n) Hg Ha) as [(cr0 & Hg0 & Ha0) | Hal].
  - eapply HG; eauto.
  - destruct (alive_cases _ Hal) as [Hr | Hr]; [assumption|].
    exfalso. rewrite lp_static in Hr by lia. exact (Hsh0 _ Hr).
Qed.

Lemma waitx_or_G c l e dl m1 : p0 <= m1 ->
  (exists cr xd xs, getc (S_ m1) c = Some cr /\ cpc cr = PWaitX l e dl xd xs) ->
  forall n, m1 <= n ->
    (exists cr xd xs, getc (S_ n) c = Some cr /\ cpc cr = PWaitX l e dl xd xs) \/ G c n.
Proof.
  intros Hm1 H1. induction 1 as [|n Hn IH]; [left; exact H1|].
  destruct IH as [(cr & xd & xs & Hg & Hp) | HG]; [|right; apply G_step; [lia|assumption]].
  destruct (waitx_step _ _ _ _ _ _ _ _ _ _ (st_trans n) Hg Hp) as (cr' & Hg' & [(xd' & xs' & Hp') | Hno]).
  - left. eauto 10.
  - right. intros cr2 l2 e2 Hg2 Ha2. rewrite Hg' in Hg2. injection Hg2 as <-. congruence.
Qed.
End Stable.

(* ================= termination ================= *)
Lemma run_terminates c n0 cr0 :
  getc (S_ n0) c = Some cr0 -> cpc cr0 <> PStart ->
  (forall n cr, getc (S_ n) c = Some cr -> lp (S_ n) (cloop cr) = LRun) ->
  exists m cr o, getc (S_ m) c = Some cr /\ cpc cr = PDone o.
Proof.
  intros Hg0 Hst Hrun. destruct (fe3 FE) as (p0 & Hq0 & Hsh0).
  destruct (quiet_adv (length tbl) (Nat.max p0 n0) 0%N) as (p1 & t1 & Hp1 & Hr1 & _ & Hqu1); [lia|].
  destruct (getc_mono c n0 p1 cr0) as (cr1 & Hg1 & _ & Hs1); [lia|assumption|].
  destruct (adv_caller_cases p1 t1 c cr1 Hr1 Hqu1 Hg1 (Hrun _ _ Hg1))
    as [Hps | [(o & Hd) | (l & e & dl & xs & Hp & Hdead & Hlt)]].
  - exfalso. exact (Hs1 Hst Hps).
  - exists p1, cr1, o. auto.
  - destruct (quiet_adv (length tbl) p1 dl) as (p2 & t2 & Hp2 & Hr2 & HD & Hqu2); [lia|].
    destruct (getc_mono c n0 p2 cr0) as (cr2 & Hg2 & _ & Hs2); [lia|assumption|].
    destruct (adv_caller_cases p2 t2 c cr2 Hr2 Hqu2 Hg2 (Hrun _ _ Hg2))
      as [Hps | [(o & Hd) | (l' & e' & dl' & xs' & Hp' & Hdead' & Hlt')]].
    + exfalso. exact (Hs2 Hst Hps).
    + exists p2, cr2, o. auto.
    + exfalso.
      destruct (waitx_or_G p0 Hq0 Hsh0 c l e dl p1) with (n := p2) as [(cr3 & xd & xs3 & Hg3 & Hp3) | HG];
        [lia|eauto 10|lia| |].
      * rewrite Hg2 in Hg3. injection Hg3 as <-. rewrite Hp' in Hp3. injection Hp3 as _ _ <- _ _. lia.
      * apply Hdead'. eapply HG; eauto. rewrite Hp'. reflexivity.
Qed.
End Run.

(* ================= weaker, scheduler-style hypotheses ================= *)
Definition is_adv (e : ev) : bool := match e with Adv _ => true | _ => false end.
Definition nonadv (e : ev) : bool := negb (is_adv e).
(* the clock can move to a strictly later tick *)
Definition adv_forward (s : state) : Prop := exists t, (now s < t)%N /\ enabled s (Adv t).
(* some library event of caller c is enabled *)
Definition lib_enabled_for (s : state) (c : nat) : Prop := exists e, caller_of e = Some c /\ enabled s e.

Lemma blocked_at_now s t cr : (now s <= t)%N -> blocked s t cr = true -> blocked s (now s) cr = true.
Proof.
  unfold blocked. intros Ht. destruct (lp s (cloop cr)); auto.
  destruct (cpc cr) as [| | | | | | | | | | | | | | ? ? ? xd ?| |]; auto; try destruct xd; lia.
Qed.

Section RunW.
Variables (nl : nat) (tbl : list (nat * nat)) (r : nat -> ev).
Hypothesis Acc : accepted_run nl tbl r.
Notation S_ := (st nl tbl r).

(* library weak fairness: a caller one of whose library events is enabled at every position from
   n on performs a library event at some position >= n *)
Definition lib_weak_fair : Prop :=
  forall c n, (forall m, n <= m -> lib_enabled_for (S_ m) c) -> exists m, n <= m /\ caller_of (r m) = Some c.

Record fair_env_weak : Prop := mkFW {
  fw1 : forall n i ir, nth_error (invs (S_ n)) i = Some ir -> istat ir = IActive ->
        exists m ir', n <= m /\ nth_error (invs (S_ m)) i = Some ir' /\ istat ir' <> IActive;
  (* clock weak fairness: the clock does not stay below T for ever if from n on it can always move *)
  fw2 : forall n T, (forall m, n <= m -> (now (S_ m) < T)%N -> adv_forward (S_ m)) ->
        exists m, n <= m /\ (T <= now (S_ m))%N;
  fw3 : exists p, (forall m, p <= m -> lifecycle_ev (r m) = false) /\ forall t, lp (S_ p) t <> LShut
}.

(* End and Bad never occur in an infinite accepted run *)
Lemma no_end m : match r m with End _ | Bad _ => False | _ => True end.
Proof.
  pose proof (st_trans nl tbl r Acc m) as T. pose proof (st_step nl tbl r Acc (S m)) as Hs.
  destruct (r m) eqn:Hr; auto.
  - remember (End r0) as ev eqn:Hev. destruct T; try discriminate Hev.
    unfold step in Hs. simpl in Hs. discriminate.
  - remember (Bad code) as ev eqn:Hev. destruct T; discriminate Hev.
Qed.

Lemma n_ev_prefix_S p m : n_ev p (prefix r (S m)) = n_ev p (prefix r m) + b2n (p (r m)).
Proof. rewrite prefix_S, n_ev_app. f_equal. unfold n_ev. simpl. destruct (p (r m)); reflexivity. Qed.

Lemma n_ev_after p p0 : (forall k, p0 <= k -> p (r k) = false) -> forall m, n_ev p (prefix r m) <= p0.
Proof.
  intros H. assert (forall m, n_ev p (prefix r m) <= Nat.min m p0); [|intros m; specialize (H0 m); lia].
  induction m as [|m IH]; [unfold n_ev; simpl; lia|]. rewrite n_ev_prefix_S.
  destruct (Nat.le_gt_cases p0 m) as [Hle|Hgt].
  - rewrite (H m Hle). unfold b2n. lia.
  - destruct (p (r m)); unfold b2n; lia.
Qed.

Lemma nonadv_split m : n_ev nonadv (prefix r m)
  <= n_lib (prefix r m) + n_iend (prefix r m) + n_ev lifecycle_ev (prefix r m).
Proof.
  unfold n_lib, n_iend. induction m as [|m IH]; [unfold n_ev; simpl; lia|].
  rewrite !n_ev_prefix_S. pose proof (no_end m) as Hne.
  assert (b2n (nonadv (r m)) <= b2n (lib_event (r m)) + b2n (is_iend (r m)) + b2n (lifecycle_ev (r m))); [|lia].
  destruct (r m) as [| | | | | | | | | | ? ? [|?] | | | |]; simpl; try lia; contradiction.
Qed.

Section Clock.
Hypothesis FW : fair_env_weak.

Lemma weak_clock_diverges : forall n T, exists m, n <= m /\ (T <= now (S_ m))%N.
Proof.
  intros n T. destruct (classic (exists m, n <= m /\ (T <= now (S_ m))%N)) as [H|Hno]; [exact H|exfalso].
  assert (Hlt : forall m, (now (S_ m) < T)%N).
  { intros m. destruct (N.lt_ge_cases (now (S_ m)) T) as [|Hge]; [assumption|exfalso].
    destruct (Nat.le_gt_cases n m).
    - apply Hno. exists m. split; [assumption|lia].
    - apply Hno. exists n. split; [lia|]. pose proof (now_mono nl tbl r Acc m n). lia. }
  destruct (fw3 FW) as (p0 & Hq0 & _).
  set (N := length tbl).
  set (B := N * 11 + 8 * (N * (N + p0) + p0 + N * N.to_nat T) + N + p0).
  assert (HB : forall m, n_ev nonadv (prefix r m) <= B).
  { intros m. pose proof (nonadv_split m) as Hs.
    pose proof (st_run nl tbl r Acc m) as Hrun.
    destruct (bounded_work _ _ _ _ Hrun) as [Hb Ht].
    pose proof (n_iend_le_invs _ _ _ _ Hrun) as Hi. pose proof (invs_len_bound nl tbl r Acc m) as Hib.
    assert (Hcl : n_close (prefix r m) <= p0).
    { apply n_ev_after. intros k Hk. specialize (Hq0 k Hk). destruct (r k) as [| | | | | | | | | | |? [|[|[|?]]]| | |]; try reflexivity; discriminate. }
    assert (Hpc : n_proxy_cancel_all (prefix r m) <= p0).
    { apply n_ev_after. intros k Hk. specialize (Hq0 k Hk). destruct (r k) as [| | | | | | | | | |? ? [|?]| | | |]; try reflexivity; discriminate. }
    assert (Hlc : n_ev lifecycle_ev (prefix r m) <= p0) by (apply n_ev_after; assumption).
    assert (Htt : total_timeouts nl tbl (prefix r m) <= N * N.to_nat T).
    { unfold total_timeouts. fold N. rewrite <- sumn_const. apply sumn_le. intros c _.
      specialize (Ht c). specialize (Hlt m). unfold SAFETY in Ht. lia. }
    fold N in Hb. unfold B.
    assert (N * (n_iend (prefix r m) + n_close (prefix r m)) <= N * (N + p0)) by (apply Nat.mul_le_mono_l; lia).
    lia. }
  destruct (ev_const (fun m => n_ev nonadv (prefix r m)) B) as (n1 & Hn1).
  { intros m. rewrite n_ev_prefix_S. lia. }
  { exact HB. }
  assert (Hadv : forall m, n1 <= m -> exists t, r m = Adv t).
  { intros m Hm. pose proof (Hn1 m Hm) as E1. pose proof (Hn1 (S m) (le_S _ _ Hm)) as E2.
    cbv beta in E1, E2. rewrite n_ev_prefix_S in E2. rewrite <- E1 in E2.
    destruct (r m); unfold nonadv, b2n in E2; simpl in E2; try lia. eauto. }
  destruct (fw2 FW (Nat.max n n1) T) as (m & Hm & HT).
  - intros m Hm Hnow. destruct (Hadv m) as (t & Hr); [lia|].
    pose proof (st_step nl tbl r Acc m) as Hs. rewrite Hr in Hs.
    unfold step in Hs. destruct (ended (S_ m)) eqn:He; [discriminate|]. unfold guard in Hs.
    destruct ((now (S_ m) <=? t)%N && quiescent (S_ m) t) eqn:Hq; [|discriminate].
    apply andb_prop in Hq as [Hle Hqu]. apply N.leb_le in Hle. unfold quiescent in Hqu.
    destruct (lock (S_ m)) eqn:Hl; [discriminate|].
    destruct (adv_progress (S_ m) T He Hl) as (t' & Ht' & _ & Hen); [|assumption|exists t'; auto].
    apply forallb_forall. intros cr Hin. rewrite forallb_forall in Hqu.
    eapply blocked_at_now; eauto.
  - apply Hno. exists m. split; [lia|assumption].
Qed.

Lemma weak_env_fair_env : fair_env nl tbl r.
Proof. constructor; [apply (fw1 FW)|apply weak_clock_diverges|apply (fw3 FW)]. Qed.

(* TERMINATION under scheduler-style hypotheses.  The library-fairness hypothesis is not used:
   an infinite accepted run cannot stutter, and once the environment has nothing left to do the only
   non-library event is the clock, which is accepted only when no library step is pending. *)
Lemma fair_run_terminates : lib_weak_fair ->
  forall c n0 cr0, getc (S_ n0) c = Some cr0 -> cpc cr0 <> PStart ->
  (forall n cr, getc (S_ n) c = Some cr -> lp (S_ n) (cloop cr) = LRun) ->
  exists m cr o, getc (S_ m) c = Some cr /\ cpc cr = PDone o.
Proof. intros _. apply run_terminates; [exact Acc|exact weak_env_fair_env]. Qed.
End Clock.
End RunW.

(* ================= non-vacuity: an infinite accepted run satisfying every hypothesis ================= *)
(* work_demo (caller 0 computes, caller 1 waits across loops, both answered), then the clock for ever *)
Definition demo_run (n : nat) : ev := nth n work_demo (Adv (N.of_nat n)).
Definition demo_tbl : list (nat * nat) := [(0,0); (1,0)].

Definition demo_final (t : N) : state :=
  mkS [Some 0] [None] [true] None [LRun; LRun]
      [mkC 0 0 (PDone (ORet 0)) false; mkC 1 0 (PDone (ORet 0)) false]
      [mkI 0 0 0 IOk] t false.

Lemma demo_final_adv t0 t : (t0 <= t)%N -> step (demo_final t0) (Adv t) = Some (demo_final t).
Proof.
  intros H. unfold step, demo_final, guard, quiescent. simpl.
  apply N.leb_le in H. rewrite H. reflexivity.
Qed.

Lemma demo_prefix k : run (init 2 demo_tbl) (prefix demo_run (23 + k))
                      = Some (demo_final (match k with 0 => 5%N | S j => N.of_nat (23 + j) end)).
Proof.
  induction k as [|k IH].
  - vm_compute. reflexivity.
  - replace (23 + S k) with (S (23 + k)) by lia. rewrite prefix_S, run_snoc, IH.
    unfold demo_run. rewrite nth_overflow by (simpl; lia).
    apply demo_final_adv. destruct k; lia.
Qed.

Lemma run_app_l : forall l1 l2 s s', run s (l1 ++ l2) = Some s' -> exists s1, run s l1 = Some s1.
Proof.
  induction l1 as [|a l1 IH]; intros l2 s s' H; simpl in *; [eauto|].
  destruct (step s a); [eapply IH; eauto|discriminate].
Qed.

Lemma demo_accepted : accepted_run 2 demo_tbl demo_run.
Proof.
  intros n. destruct (Nat.le_gt_cases 23 n) as [Hle|Hgt].
  - replace n with (23 + (n - 23)) by lia. rewrite demo_prefix. eauto.
  - pose proof (demo_prefix 0) as H. simpl plus in H.
    replace 23 with (n + (23 - n)) in H by lia.
    unfold prefix in H. rewrite seq_app, map_app in H. apply run_app_l in H as (s1 & H1). eauto.
Qed.

Lemma demo_st k : st 2 demo_tbl demo_run (23 + k)
                  = demo_final (match k with 0 => 5%N | S j => N.of_nat (23 + j) end).
Proof. unfold st. rewrite demo_prefix. reflexivity. Qed.

Lemma demo_fair_env : fair_env 2 demo_tbl demo_run.
Proof.
  constructor.
  - intros n i ir Hi Ha. exists (23 + n). rewrite demo_st.
    assert (Hlt : i < 1).
    { pose proof (invs_len_mono 2 demo_tbl demo_run demo_accepted n (23 + n)) as Hm.
      rewrite demo_st in Hm. simpl in Hm. apply nth_error_Some_lt in Hi. lia. }
    destruct i; [|lia]. eexists. split; [lia|]. split; [reflexivity|discriminate].
  - intros n T. exists (23 + S (n + N.to_nat T)). split; [lia|]. rewrite demo_st. simpl now. lia.
  - exists 23. split.
    + intros m Hm. unfold demo_run. rewrite nth_overflow by (simpl; lia). reflexivity.
    + intros t. replace 23 with (23 + 0) by lia. rewrite demo_st. unfold lp. simpl.
      destruct t as [|[|[|t]]]; discriminate.
Qed.

(* the weaker record follows from the stronger one for any run *)
Lemma fair_env_weaken nl tbl r : fair_env nl tbl r -> fair_env_weak nl tbl r.
Proof. intros [E1 E2 E3]. constructor; auto. Qed.

Lemma demo_lib_fair : lib_weak_fair 2 demo_tbl demo_run.
Proof.
  intros c n H. exfalso. specialize (H (23 + n)). destruct H as (e & Hc & (s' & Hs)); [lia|].
  rewrite demo_st in Hs. revert Hs. generalize (match n with 0 => 5%N | S j => N.of_nat (23 + j) end). intros t0 Hs.
  destruct e; simpl in Hc; try discriminate Hc; unfold step, demo_final in Hs; simpl in Hs.
  all: try (destruct c0 as [|[|[|c0]]]; simpl in Hs; try discriminate Hs;
            try (destruct t as [|[|t]]; discriminate Hs);
            try (destruct (tick =? t0)%N; discriminate Hs)).
  all: try (destruct (tick =? t0)%N; destruct (i =? 1); discriminate Hs).
Qed.

(* all hypotheses of fair_run_terminates hold for demo_run, for both callers *)
Example demo_hypotheses :
  accepted_run 2 demo_tbl demo_run /\ fair_env_weak 2 demo_tbl demo_run /\ lib_weak_fair 2 demo_tbl demo_run
  /\ (exists cr0, getc (st 2 demo_tbl demo_run 1) 0 = Some cr0 /\ cpc cr0 <> PStart)
  /\ (exists cr1, getc (st 2 demo_tbl demo_run 8) 1 = Some cr1 /\ cpc cr1 <> PStart).
Proof.
  split; [exact demo_accepted|]. split; [apply fair_env_weaken, demo_fair_env|]. split; [exact demo_lib_fair|].
  split; eexists; (split; [vm_compute; reflexivity|discriminate]).
Qed.

Lemma demo_no_lifecycle m : lifecycle_ev (demo_run m) = false.
Proof.
  unfold demo_run. destruct (Nat.le_gt_cases 23 m) as [Hle|Hgt].
  - rewrite nth_overflow by (simpl; lia). reflexivity.
  - assert (H : forallb (fun e => negb (lifecycle_ev e)) work_demo = true) by (vm_compute; reflexivity).
    rewrite forallb_forall in H. apply negb_true_iff. apply H. apply nth_In. simpl. lia.
Qed.

Example demo_loops_running :
  forall n c cr, getc (st 2 demo_tbl demo_run n) c = Some cr -> lp (st 2 demo_tbl demo_run n) (cloop cr) = LRun.
Proof.
  intros n c cr Hg.
  assert (Hl : loops (st 2 demo_tbl demo_run n) = [LRun; LRun]).
  { rewrite (loops_static 2 demo_tbl demo_run demo_accepted 0 (fun m _ => demo_no_lifecycle m) n) by lia.
    reflexivity. }
  assert (Hc : cloop cr < 2).
  { pose proof (callers_len 2 demo_tbl demo_run demo_accepted n) as Hlen. apply nth_error_Some_lt in Hg as Hlt.
    rewrite Hlen in Hlt. simpl in Hlt.
    destruct c as [|[|c]]; [| |lia].
    - destruct (getc_mono 2 demo_tbl demo_run demo_accepted 0 0 n (mkC 0 0 PStart false)) as (cr' & Hg' & Hcl & _);
        [lia|reflexivity|]. rewrite Hg in Hg'. injection Hg' as <-. simpl in Hcl. lia.
    - destruct (getc_mono 2 demo_tbl demo_run demo_accepted 1 0 n (mkC 1 0 PStart false)) as (cr' & Hg' & Hcl & _);
        [lia|reflexivity|]. rewrite Hg in Hg'. injection Hg' as <-. simpl in Hcl. lia. }
  unfold lp. rewrite Hl. destruct (cloop cr) as [|[|x]]; [reflexivity|reflexivity|lia].
Qed.

(* ================= promptness as an eventuality ================= *)
(* the wait of caller record cr is over as far as the library is concerned: its event is set (same
   loop), or its proxy has finished, or its event is set and the computing loop can deliver it *)
Definition urgent (s : state) (cr : crec) : Prop :=
  match cpc cr with
  | PWait e _ => isset s e = true
  | PWaitX l e _ xd _ => xd <> None \/ (isset s e = true /\ alive (lp s l) = true)
  | _ => False
  end.
Definition same_wait (p p' : pc) : Prop :=
  match p, p' with
  | PWait e dl, PWait e' dl' => e = e' /\ dl = dl'
  | PWaitX l e dl _ _, PWaitX l' e' dl' _ _ => l = l' /\ e = e' /\ dl = dl'
  | _, _ => False
  end.
Definition resume_ev (c : nat) (e : ev) : bool :=
  match e with Get _ c' | Done c' _ _ _ => c' =? c | _ => false end.

Lemma urgent_no_adv s c cr t : getc s c = Some cr -> lp s (cloop cr) = LRun -> urgent s cr ->
  step s (Adv t) = None.
Proof.
  intros Hg Hl Hu. destruct (step s (Adv t)) as [s'|] eqn:Hs; [exfalso|reflexivity].
  apply adv_guard in Hs as (_ & _ & Hb). destruct (Hb _ _ Hg) as [_ Hrun].
  destruct (Hrun Hl) as (_ & _ & Hw & Hwx). unfold urgent in Hu.
  destruct (cpc cr) eqn:Hp; try contradiction.
  - destruct (Hw _ _ eq_refl) as (_ & Hun & _). congruence.
  - destruct (Hwx _ _ _ _ _ eq_refl) as (_ & Hx & Hd & _).
    destruct Hu as [Hu | (Hi & Ha)]; [contradiction|]. destruct Hd; congruence.
Qed.

Lemma urgent_step s e s' c cr : trans s e s' -> getc s c = Some cr -> urgent s cr ->
  (forall l e0 dl xd xs, cpc cr = PWaitX l e0 dl xd xs -> alive (lp s' l) = true) ->
  (exists cr', getc s' c = Some cr' /\ cloop cr' = cloop cr /\ same_wait (cpc cr) (cpc cr') /\ urgent s' cr')
  \/ resume_ev c e = true.
Proof.
  intros T Hg Hu Hal.
  assert (Mono : forall x, isset s x = true -> isset s' x = true) by (intros; eapply trans_isset_mono; eauto).
  assert (Keep : forall cr', cloop cr' = cloop cr -> cpc cr' = cpc cr ->
                 same_wait (cpc cr) (cpc cr') /\ urgent s' cr').
  { intros cr' _ Hp. unfold urgent, same_wait in *. rewrite Hp.
    destruct (cpc cr) eqn:Hpc; try contradiction; auto.
    split; auto. destruct Hu as [Hu | (Hi & Ha)]; [left; assumption|right]. split; [auto|eapply Hal; eauto]. }
  tcases T; simpl resume_ev.
  all: try (erewrite getc_set_pc by eassumption).
  all: try (erewrite getc_cancel by eassumption).
  all: try (erewrite (getc_map _ (mark_started _)) by reflexivity; rewrite Hg; simpl).
  all: try match goal with |- context [?a =? ?b] => destruct (Nat.eqb_spec a b); [subst|] end.
  all: try solve [ right; reflexivity ].
  all: try solve [ left; exists cr; split; [assumption|]; split; [reflexivity|]; apply Keep; reflexivity ].
  all: try match goal with Hq : getc _ _ = Some _ |- _ => rewrite Hg in Hq; injection Hq as <- end.
  all: try solve [ exfalso; unfold urgent in Hu; mv_simpl;
                   repeat match goal with Hc : cpc _ = _ |- _ => rewrite Hc in Hu end; contradiction ].
  - left. eexists. split; [reflexivity|]. split; [reflexivity|]. apply Keep; reflexivity.
  - left. eexists. split; [reflexivity|]. split; [reflexivity|]. simpl cpc. rewrite H0.
    unfold same_wait, urgent. simpl. split; auto. left. discriminate.
  - left. eexists. split; [reflexivity|]. split; [apply ms_loop|].
    destruct (mark_started_props s cr) as (_ & _ & _ & [Hx | (l' & e' & dl' & xd' & Hx & Hy)]).
    + apply Keep; [apply ms_loop|assumption].
    + unfold urgent in *. rewrite Hy. rewrite Hx in *. unfold same_wait. split; auto.
Qed.

Lemma same_wait_trans p q u : same_wait p q -> same_wait q u -> same_wait p u.
Proof.
  unfold same_wait. destruct p, q; try contradiction; destruct u; try contradiction; intuition congruence.
Qed.

Lemma urgent_same_wait_refl s cr : urgent s cr -> same_wait (cpc cr) (cpc cr).
Proof. unfold urgent, same_wait. destruct (cpc cr); try contradiction; auto. Qed.

Section Prompt.
Variables (nl : nat) (tbl : list (nat * nat)) (r : nat -> ev).
Hypothesis Acc : accepted_run nl tbl r.
Notation S_ := (st nl tbl r).
Hypothesis Hclock : forall n T, exists m, n <= m /\ (T <= now (S_ m))%N.

(* PROMPT, as an eventuality: a waiter whose wait is over (urgent) on a loop that keeps running
   resumes (Get) — or, if it is cancelled meanwhile, is answered (Done) — before the clock moves *)
Lemma fair_prompt n c cr : getc (S_ n) c = Some cr -> urgent (S_ n) cr ->
  (forall m cr', getc (S_ m) c = Some cr' -> lp (S_ m) (cloop cr') = LRun) ->
  (forall l e dl xd xs, cpc cr = PWaitX l e dl xd xs -> forall m, alive (lp (S_ m) l) = true) ->
  exists m, n <= m /\ now (S_ m) = now (S_ n) /\ resume_ev c (r m) = true.
Proof.
  intros Hg Hu Hrun Hal.
  assert (Hk : forall k,
    (exists m, n <= m < n + k /\ now (S_ m) = now (S_ n) /\ resume_ev c (r m) = true)
    \/ (exists crk, getc (S_ (n + k)) c = Some crk /\ same_wait (cpc cr) (cpc crk)
                    /\ urgent (S_ (n + k)) crk /\ now (S_ (n + k)) = now (S_ n))).
  { induction k as [|k [(m & Hm & Hn & Hr) | (crk & Hgk & Hsw & Huk & Hnk)]].
    - right. exists cr. rewrite Nat.add_0_r. repeat split; auto. eapply urgent_same_wait_refl; eauto.
    - left. exists m. repeat split; auto; lia.
    - pose proof (st_trans nl tbl r Acc (n + k)) as T.
      destruct (urgent_step _ _ _ c crk T Hgk Huk) as [(cr' & Hg' & Hl' & Hsw' & Hu') | Hres].
      + intros l e dl xd xs Hp. unfold same_wait in Hsw. rewrite Hp in Hsw.
        destruct (cpc cr) eqn:Hpc; try contradiction. destruct Hsw as (<- & _).
        eapply Hal; eauto.
      + right. replace (n + S k) with (S (n + k)) by lia. exists cr'. repeat split; auto.
        * eapply same_wait_trans; eauto.
        * rewrite <- Hnk.
          destruct (trans_now _ _ _ T) as [Heq | (t & He & _)]; [assumption|exfalso].
          pose proof (st_step nl tbl r Acc (n + k)) as Hs. rewrite He in Hs.
          rewrite (urgent_no_adv _ c crk t Hgk (Hrun _ _ Hgk) Huk) in Hs. discriminate.
      + left. exists (n + k). repeat split; auto; lia. }
  destruct (Hclock n (now (S_ n) + 1)%N) as (m2 & Hm2 & Hlt).
  destruct (Hk (m2 - n)) as [(m & Hm & Hn & Hr) | (crk & _ & _ & _ & Hnk)].
  - exists m. repeat split; auto; lia.
  - exfalso. replace (n + (m2 - n)) with m2 in Hnk by lia. lia.
Qed.
End Prompt.

(* the same under the weak record *)
Lemma fair_prompt_weak nl tbl r : accepted_run nl tbl r -> fair_env_weak nl tbl r ->
  forall n c cr, getc (st nl tbl r n) c = Some cr -> urgent (st nl tbl r n) cr ->
  (forall m cr', getc (st nl tbl r m) c = Some cr' -> lp (st nl tbl r m) (cloop cr') = LRun) ->
  (forall l e dl xd xs, cpc cr = PWaitX l e dl xd xs -> forall m, alive (lp (st nl tbl r m) l) = true) ->
  exists m, n <= m /\ now (st nl tbl r m) = now (st nl tbl r n) /\ resume_ev c (r m) = true.
Proof. intros Acc FW. apply fair_prompt; [exact Acc|apply weak_clock_diverges; assumption]. Qed.
