(* Case_Cache.v — case type shared by C01 / C05 / C06: the input (number of loops, caller table
   caller id -> (loop, key)) and the trace observed from the real code.
   agree = "the observed trace is a complete run of the model Cache.step from the initial state". *)
From Coq Require Import List Arith NArith Bool.
Import ListNotations.
Require Import Aiuti.Cache Aiuti.CacheMon.

Inductive case := Case (nloops : nat) (tbl : list (nat * nat)) (tr : list ev).

Definition agree (c : case) : bool :=
  match c with Case n tbl tr => accepts n tbl tr end.

(* for replays: how many events the model accepted, the rejected event, the callers' program
   counters / lock / loops / marker table at that point *)
Definition explain (c : case) :=
  match c with
  | Case n tbl tr =>
      match accepted_prefix (init n tbl) tr 0 with
      | (k, Some s) => (k, nth_error tr k, map cpc (callers s), lock s, loops s, marker s, cache s, now s)
      | (k, None) => (k, None, [], None, [], [], [], 0%N)
      end
  end.

Definition count (f : ev -> bool) (tr : list ev) : nat := length (filter f tr).
Definition is_istart e := match e with IStart _ _ _ => true | _ => false end.
Definition is_done_ev e := match e with Done _ _ _ _ => true | _ => false end.
Definition is_proxy e := match e with Proxy _ _ _ => true | _ => false end.
Definition is_cancel e := match e with Cancel _ _ => true | _ => false end.
Definition is_adv e := match e with Adv _ => true | _ => false end.
Definition is_fail e := match e with IEnd _ (S _) _ => true | _ => false end.
Definition is_loopstop e := match e with LoopEv _ 0 => true | _ => false end.
Definition is_acq e := match e with Acq _ _ => true | _ => false end.
