(* CacheWork.v — C05: bounded library work and "a maximal trace has answered every call".
   bounded_work: in every accepted event list the number of LIBRARY events of a caller is bounded
   by constants and the ENVIRONMENT events (invocations ending, proxy waits cancelled by a shutdown,
   loops closed) and the clock (time-outs, 60 virtual seconds each).
   maximal_trace_all_done: a reachable state in which no library step, no later clock event and no
   IEnd is possible and no loop is in its shutdown run has answered every started call on a live loop. *)
From Coq Require Import List Arith NArith Bool Lia ZifyBool ZifyNat ZifyN.
Import ListNotations.
Require Import Aiuti.Cache Aiuti.CacheLemmas Aiuti.CacheInv Aiuti.CacheLive Aiuti.CacheRetry.

(* ---- library events and their caller ---- *)
Definition caller_of (e : ev) : option nat :=
  match e with
  | Get _ c | Miss _ c | Acq _ c | Rel _ c | SetC _ c | XSub _ c => Some c
  | IStart _ c _ => Some c
  | Done c _ _ _ => Some c
  | Proxy _ c 0 => Some c
  | _ => None
  end.
Definition lib_event (e : ev) : bool := match caller_of e with Some _ => true | None => false end.
Definition ev_of (c : nat) (e : ev) : bool := match caller_of e with Some c' => c' =? c | None => false end.
(* every step of the library's program, including a proxy wait ending for any reason *)
Definition lib_or_proxy (e : ev) : bool := lib_event e || match e with Proxy _ _ _ => true | _ => false end.

(* ================= B. a maximal trace has answered every call ================= *)
(* In a reachable state where no library step and no IEnd is possible and no loop is in its shutdown
   run, every started call on a live loop is answered — or it sits in a timed wait whose deadline
   dl is still ahead, and then the clock can move to a strictly later tick t <= dl.
   (The hypothesis "no clock event to a later tick is possible" would make the statement vacuous:
   once every call is answered the model accepts Adv t for every t >= now.) *)
Lemma maximal_trace_done_or_timer n tbl tr s : run (init n tbl) tr = Some s ->
  (forall e, lib_or_proxy e = true -> step s e = None) ->
  (forall i r t, step s (IEnd i r t) = None) ->
  (forall t, lp s t <> LShut) ->
  forall c cr, getc s c = Some cr -> alive (lp s (cloop cr)) = true ->
    done_or_unstarted (cpc cr) = true
    \/ exists dl t s', waits_until cr dl /\ (now s < t)%N /\ (t <= dl)%N /\ step s (Adv t) = Some s'.
Proof.
  intros H Hlib Hiend Hshut c cr Hg Ha.
  destruct (done_or_unstarted (cpc cr)) eqn:Hd; [left; reflexivity|right].
  destruct (run_LInv _ _ _ _ H) as [I LI].
  destruct (no_deadlock_run _ _ _ _ H c cr Hg Ha Hd) as (e & s' & Hs & Hp).
  destruct e; simpl in Hp; try discriminate Hp.
  all: try (exfalso; rewrite Hlib in Hs by reflexivity; discriminate Hs).
  - exfalso. rewrite Hiend in Hs. discriminate.
  - exfalso. destruct (getc s c0) as [cr0|] eqn:Hg0; [|discriminate].
    apply andb_prop in Hp as [_ Hp]. destruct (lp s (cloop cr0)) eqn:Hl; try discriminate.
    exact (Hshut _ Hl).
  - exfalso. rewrite Hlib in Hs; [discriminate|]. unfold lib_or_proxy. apply orb_true_r.
  - apply N.ltb_lt in Hp. pose proof Hs as Hs0. apply adv_guard in Hs as (_ & _ & Hb).
    destruct (Hb c cr Hg) as [_ Hrun].
    destruct (alive_cases _ Ha) as [Hr | Hr]; [|exfalso; exact (Hshut _ Hr)].
    destruct (Hrun Hr) as (Hsus & Hcomp & Hw & Hwx).
    destruct (cpc cr) eqn:Hpc; try discriminate Hsus; try discriminate Hd.
    + exfalso. pose proof (owner_can_finish_state s I LI c cr e) as Ho.
      unfold owner_next_enabled in Ho. rewrite Hpc in Ho. rewrite (Hcomp _ _ eq_refl) in Ho.
      destruct (Ho Hg eq_refl Ha Hr) as [(sx & Hx) _]. rewrite Hiend in Hx. discriminate.
    + destruct (Hw _ _ eq_refl) as (_ & _ & _ & Hle).
      exists dl, tick, s'. repeat split; auto. left. eauto.
    + destruct (Hwx _ _ _ _ _ eq_refl) as (_ & _ & _ & _ & Hle).
      exists dl, tick, s'. repeat split; auto. right. eauto 10.
Qed.

(* ... hence, if moreover no caller on a running loop is inside a timed wait, every started call on
   a live loop is answered *)
Lemma maximal_trace_all_done n tbl tr s : run (init n tbl) tr = Some s ->
  (forall e, lib_or_proxy e = true -> step s e = None) ->
  (forall i r t, step s (IEnd i r t) = None) ->
  (forall t, lp s t <> LShut) ->
  (forall c cr, getc s c = Some cr -> lp s (cloop cr) = LRun -> dl_of (cpc cr) = None) ->
  forall c cr, getc s c = Some cr -> alive (lp s (cloop cr)) = true -> done_or_unstarted (cpc cr) = true.
Proof.
  intros H Hlib Hiend Hshut Hnw c cr Hg Ha.
  destruct (maximal_trace_done_or_timer _ _ _ _ H Hlib Hiend Hshut c cr Hg Ha)
    as [Hd | (dl & t & s' & Hw & _)]; [exact Hd|exfalso].
  destruct (alive_cases _ Ha) as [Hr | Hr]; [|exact (Hshut _ Hr)].
  apply waits_until_dl in Hw. rewrite (Hnw _ _ Hg Hr) in Hw. discriminate.
Qed.

(* ================= A. bounded work ================= *)
(* phi p = most library events the caller can still perform from pc p before its next retry
   (a further round of the while-loop) or its Done *)
Definition phi (p : pc) : nat :=
  match p with
  | PStart => 11 | PMiss1 => 10 | PLock => 9 | PReprobe => 8 | PMiss2 => 7
  | PUnlock (DHit _) => 2 | PUnlock (DComp _) => 6 | PUnlock (DWait _ _) => 6
  | PInvoke _ => 5 | PComp _ _ => 4 | PPublish _ _ => 4 | PFinLock _ _ => 3 | PFinUnlock _ => 2
  | PXSub _ _ => 5 | PProbe => 3 | PWait _ _ => 3
  | PWaitX _ _ _ None _ => 4 | PWaitX _ _ _ (Some _) _ => 3
  | PFinish _ => 1 | PDone _ => 0
  end.
Lemma ms_phi s cr : phi (cpc (mark_started s cr)) = phi (cpc cr).
Proof. apply ms_class. reflexivity. Qed.

Definition phic (c : nat) (s : state) : nat :=
  match getc s c with Some cr => phi (cpc cr) | None => 0 end.

Definition updK (c : nat) (g : nat * nat) (s : state) (e : ev) : nat * nat :=
  (fst g + b2n (ev_of c e), snd g + b2n (is_retry c s e)).
Definition PK (c : nat) (g : nat * nat) (s : state) : Prop := fst g + phic c s <= 11 + 8 * snd g.

Lemma probe_phi s cr : phi (probe_pc s cr) <= 10.
Proof. destruct (probe_pc_cases s cr) as [(v & ->) | ->]; simpl; lia. Qed.

Lemma PK_step c g s e s' : PK c g s -> step s e = Some s' -> PK c (updK c g s e) s'.
Proof.
  unfold PK, updK, is_retry. destruct g as [k r]. simpl fst. simpl snd.
  intros P Hs. apply step_trans in Hs as [_ T].
  destruct (retry_kind c s e) as [kd|] eqn:Hk.
  - destruct (kind_inv _ _ _ _ _ T Hk) as (t & cr & -> & Hg & -> & Hpre).
    unfold phic in *. rewrite (getc_probe _ _ _ Hg). rewrite Hg in P. simpl cpc.
    pose proof (probe_phi s cr).
    replace (ev_of c (Get t c)) with true by (unfold ev_of; simpl; symmetry; apply Nat.eqb_refl). simpl b2n.
    assert (3 <= phi (cpc cr)).
    { destruct kd; simpl in Hpre.
      - rewrite Hpre. simpl. lia.
      - destruct Hpre as (? & ? & Hp & _). rewrite Hp. simpl. lia.
      - destruct Hpre as (? & ? & ? & ? & ? & Hp). rewrite Hp. simpl. lia.
      - destruct Hpre as [(? & ? & Hp & _) | (? & ? & ? & ? & Hp & _)]; rewrite Hp; simpl; lia. }
    lia.
  - simpl b2n at 2. unfold phic in *. rewrite Nat.add_0_r. remember (11 + 8 * r) as B eqn:HB. clear HB.
    tcases T; unfold ev_of; simpl.
    all: try (erewrite getc_set_pc by eassumption).
    all: try (erewrite getc_cancel by eassumption).
    all: try (erewrite (getc_map _ (mark_started _)) by reflexivity).
    all: try match goal with |- context [?a =? ?b] => destruct (Nat.eqb_spec a b); [subst|]; simpl b2n end.
    all: try lia.
    all: try match goal with Hg : getc _ _ = Some _ |- _ => rewrite Hg in P end.
    all: simpl cpc.
    all: try solve [ mv_simpl; repeat match goal with Hc : cpc _ = _ |- _ => rewrite Hc in P; clear Hc end;
                     simpl in *; lia ].
    all: try solve [ unfold getc in *; simpl callers; lia ].
    + pose proof (probe_phi s cr). simpl in Hk. rewrite Nat.eqb_refl, H in Hk.
      destruct H2 as [(Hp&_)|[Hp|[(?&?&Hp&_)|(?&?&?&?&?&Hp&_)]]]; rewrite Hp in *; simpl in Hk;
        try discriminate Hk. simpl in P. lia.
    + destruct H1 as [(?&?&Hp)|(?&?&?&?&?&Hp)]; rewrite Hp in P; simpl in *; try lia. destruct x2; lia.
    + rewrite H0 in P. destruct r0; simpl; rewrite ?Nat.eqb_refl; simpl in *; lia.
    + destruct r0; simpl; try lia. destruct (Nat.eqb_spec c0 c); [contradiction|]. simpl. lia.
    + destruct (getc s c); simpl; rewrite ?ms_phi; lia.
Qed.

Definition lib_of (c : nat) (tr : list ev) : nat := n_ev (ev_of c) tr.
Definition n_lib (tr : list ev) : nat := n_ev lib_event tr.

(* a caller performs at most 11 library events plus 8 per retry *)
Lemma work_per_retry n tbl tr s c : run (init n tbl) tr = Some s ->
  lib_of c tr <= 11 + 8 * retries c (init n tbl) tr.
Proof.
  intros H.
  assert (HP : PK c (ghost_run (updK c) (0, 0) (init n tbl) tr) s).
  { eapply (ghost_ind (updK c) (PK c)); [| apply Inv_init | apply LInv_init | | exact H].
    - intros g s0 e s1 _ _. apply PK_step.
    - unfold PK, phic. simpl fst. simpl snd. destruct (getc (init n tbl) c) as [cr|] eqn:Hg; [|lia].
      apply init_pc in Hg. rewrite Hg. simpl. lia. }
  unfold PK in HP.
  rewrite (ghost_count (updK c) fst (fun _ e => ev_of c e)) in HP by reflexivity.
  rewrite (ghost_count (updK c) snd (is_retry c)) in HP by reflexivity.
  rewrite (count_run_trace _ _ _ _ H) in HP. unfold lib_of, retries. simpl in HP. lia.
Qed.


(* ---- proxy-resumes split by the proxy's result: answered True (the event was set) / cancelled ---- *)
Definition px0 (c : nat) (s : state) (e : ev) : bool :=
  match e with
  | Get _ c' => (c' =? c) && match getc s c with
                             | Some cr => match cpc cr with PWaitX _ _ _ (Some 0) _ => true | _ => false end
                             | None => false
                             end
  | _ => false
  end.
Definition pxc (c : nat) (s : state) (e : ev) : bool :=
  match e with
  | Get _ c' => (c' =? c) && match getc s c with
                             | Some cr => match cpc cr with PWaitX _ _ _ (Some (S _)) _ => true | _ => false end
                             | None => false
                             end
  | _ => false
  end.
Definition proxies0 (c : nat) := count_run (px0 c).
Definition proxiesC (c : nat) := count_run (pxc c).

Lemma proxy_kind_split c s e : b2n (is_kind RProxy c s e) = b2n (px0 c s e) + b2n (pxc c s e).
Proof.
  unfold is_kind. destruct e; try reflexivity. simpl.
  destruct (c0 =? c); [|reflexivity]. destruct (getc s c) as [cr|]; [|reflexivity].
  destruct (cpc cr) as [| | | | | | | | | | | | | | ? ? ? xd ?| |]; try reflexivity.
  - destruct (isset s e); reflexivity.
  - destruct xd as [[|r]|]; reflexivity.
Qed.

Lemma proxies_split c s tr : proxies c s tr = proxies0 c s tr + proxiesC c s tr.
Proof.
  unfold proxies, proxies0, proxiesC. revert s.
  induction tr as [|e r IH]; intros s; simpl; [reflexivity|].
  destruct (step s e) as [s'|]; [|reflexivity]. rewrite IH, proxy_kind_split. lia.
Qed.

Definition is_proxy_cancel (c : nat) (e : ev) : bool :=
  match e with Proxy _ c' (S _) => c' =? c | _ => false end.
Definition n_proxy_cancel (c : nat) := n_ev (is_proxy_cancel c).

(* cancelled-proxy resumes are paid for by the Proxy 1/2 events of that caller *)
Definition xcanc (p : pc) : nat := match p with PWaitX _ _ _ (Some (S _)) _ => 1 | _ => 0 end.
Lemma ms_xcanc s cr : xcanc (cpc (mark_started s cr)) = xcanc (cpc cr).
Proof. apply ms_class. reflexivity. Qed.
Definition xcancc (c : nat) (s : state) : nat :=
  match getc s c with Some cr => xcanc (cpc cr) | None => 0 end.

Definition updPC (c : nat) (g : nat * nat) (s : state) (e : ev) : nat * nat :=
  (fst g + b2n (pxc c s e), snd g + b2n (is_proxy_cancel c e)).
Definition PPC (c : nat) (g : nat * nat) (s : state) : Prop := fst g + xcancc c s <= snd g.

Lemma probe_xcanc s cr : xcanc (probe_pc s cr) = 0.
Proof. destruct (probe_pc_cases s cr) as [(v & ->) | ->]; reflexivity. Qed.

Lemma PPC_step c g s e s' : PPC c g s -> step s e = Some s' -> PPC c (updPC c g s e) s'.
Proof.
  unfold PPC, updPC, xcancc. destruct g as [k m]. simpl fst. simpl snd.
  intros P Hs. apply step_trans in Hs as [_ T].
  destruct (retry_kind c s e) as [kd|] eqn:Hk.
  - destruct (kind_inv _ _ _ _ _ T Hk) as (t & cr & -> & Hg & -> & Hpre).
    rewrite (getc_probe _ _ _ Hg). rewrite Hg in P. simpl cpc. rewrite probe_xcanc.
    simpl. rewrite Nat.eqb_refl, Hg. simpl.
    destruct kd; simpl in Hpre.
    + rewrite Hpre in *. simpl in *. lia.
    + destruct Hpre as (? & ? & Hp & _). rewrite Hp in *. simpl in *. lia.
    + destruct Hpre as (? & ? & ? & r & ? & Hp). rewrite Hp in *. destruct r; simpl in *; lia.
    + destruct Hpre as [(? & ? & Hp & _) | (? & ? & ? & ? & Hp & _)]; rewrite Hp in *; simpl in *; lia.
  - assert (Hx : pxc c s e = false).
    { destruct e; try reflexivity. simpl in *. destruct (c0 =? c); [|reflexivity].
      destruct (getc s c) as [cr|]; [|reflexivity]. destruct (cpc cr); try reflexivity; discriminate. }
    rewrite Hx. simpl b2n at 1. rewrite Nat.add_0_r.
    tcases T; simpl is_proxy_cancel.
    all: try (erewrite getc_set_pc by eassumption).
    all: try (erewrite getc_cancel by eassumption).
    all: try (erewrite (getc_map _ (mark_started _)) by reflexivity).
    all: try match goal with |- context [if ?a =? ?b then _ else _] => destruct (Nat.eqb_spec a b); [subst|] end.
    all: simpl b2n; try lia.
    all: try match goal with Hg : getc _ _ = Some _ |- _ => rewrite Hg in P end.
    all: simpl cpc.
    all: try solve [ unfold getc in *; simpl callers; lia ].
    all: try solve [ mv_simpl; simpl; lia ].
    + rewrite H0 in P. destruct r; simpl in *; lia.
    + destruct (getc s c); simpl; rewrite ?ms_xcanc; lia.
Qed.

Lemma proxiesC_bound n tbl tr s c : run (init n tbl) tr = Some s ->
  proxiesC c (init n tbl) tr <= n_proxy_cancel c tr.
Proof.
  intros H.
  assert (HP : PPC c (ghost_run (updPC c) (0, 0) (init n tbl) tr) s).
  { eapply (ghost_ind (updPC c) (PPC c)); [| apply Inv_init | apply LInv_init | | exact H].
    - intros g s0 e s1 _ _. apply PPC_step.
    - unfold PPC, xcancc. simpl fst. simpl snd. destruct (getc (init n tbl) c) as [cr|] eqn:Hg; [|lia].
      apply init_pc in Hg. rewrite Hg. simpl. lia. }
  unfold PPC in HP.
  rewrite (ghost_count (updPC c) fst (pxc c)) in HP by reflexivity.
  rewrite (ghost_count (updPC c) snd (fun _ e => is_proxy_cancel c e)) in HP by reflexivity.
  rewrite (count_run_trace _ _ _ _ H) in HP. unfold proxiesC, n_proxy_cancel. simpl in HP. lia.
Qed.


(* ---- wake-ups and True-answered proxy-resumes each consume a distinct set event ---- *)
Definition wake2_on (c : nat) (s : state) (e : ev) : option nat :=
  match e with
  | Get _ c' =>
      if c' =? c then
        match getc s c with
        | Some cr => match cpc cr with
                     | PWait ev _ => if isset s ev then Some ev else None
                     | PWaitX _ ev _ (Some 0) _ => Some ev
                     | _ => None
                     end
        | None => None
        end
      else None
  | _ => None
  end.

Lemma wake2_on_kind c s e :
  b2n (is_kind RWake c s e) + b2n (px0 c s e) = match wake2_on c s e with Some _ => 1 | None => 0 end.
Proof.
  unfold is_kind. destruct e; try reflexivity. simpl.
  destruct (c0 =? c); [|reflexivity]. destruct (getc s c) as [cr|]; [|reflexivity].
  destruct (cpc cr) as [| | | | | | | | | | | | | | ? ? ? xd ?| |]; try reflexivity.
  - destruct (isset s e); reflexivity.
  - destruct xd as [[|r]|]; reflexivity.
Qed.

Definition updW2 (c : nat) (W : list nat) (s : state) (e : ev) : list nat :=
  match wake2_on c s e with Some ev => ev :: W | None => W end.

Definition x0ev (p : pc) : option nat := match p with PWaitX _ ev _ (Some 0) _ => Some ev | _ => None end.
Lemma ms_x0ev s cr : x0ev (cpc (mark_started s cr)) = x0ev (cpc cr).
Proof. apply ms_class. reflexivity. Qed.

Record PW2 (c : nat) (W : list nat) (s : state) : Prop := mkPW2 {
  qwR : RInv s;
  qw1 : NoDup W;
  qw2 : forall e, In e W -> isset s e = true;
  qw3 : forall cr e, getc s c = Some cr -> await_ev (cpc cr) = Some e -> ~ In e W;
  qw4 : forall cr e, getc s c = Some cr -> x0ev (cpc cr) = Some e -> isset s e = true
}.

Lemma probe_x0ev s cr : x0ev (probe_pc s cr) = None.
Proof. destruct (probe_pc_cases s cr) as [(v & ->) | ->]; reflexivity. Qed.

Lemma PW2_step c W s e s' : Inv s -> PW2 c W s -> step s e = Some s' -> PW2 c (updW2 c W s e) s'.
Proof.
  intros I [R P1 P2 P3 P4] Hs. pose proof (pres_RInv _ _ _ I R Hs) as R'.
  apply step_trans in Hs as [_ T]. unfold updW2.
  destruct (retry_kind c s e) as [kd|] eqn:Hk.
  - destruct (kind_inv _ _ _ _ _ T Hk) as (t & cr & -> & Hg & -> & Hpre).
    assert (P3' : forall W', forall cr0 e0,
               getc (set_pc s c cr (probe_pc s cr)) c = Some cr0 -> await_ev (cpc cr0) = Some e0 -> ~ In e0 W').
    { intros W' cr0 e0 Hq Ha. rewrite (getc_probe _ _ _ Hg) in Hq. injection Hq as <-. simpl in Ha.
      rewrite probe_await in Ha. discriminate. }
    assert (P4' : forall cr0 e0,
               getc (set_pc s c cr (probe_pc s cr)) c = Some cr0 -> x0ev (cpc cr0) = Some e0 ->
               isset (set_pc s c cr (probe_pc s cr)) e0 = true).
    { intros cr0 e0 Hq Ha. rewrite (getc_probe _ _ _ Hg) in Hq. injection Hq as <-. simpl in Ha.
      rewrite probe_x0ev in Ha. discriminate. }
    simpl wake2_on. rewrite Nat.eqb_refl, Hg.
    destruct kd; simpl in Hpre.
    + rewrite Hpre. constructor; auto; try apply P3'.
    + destruct Hpre as (ev & dl & Hp & Hs). rewrite Hp, Hs. constructor; auto; try apply P3'.
      * constructor; auto. eapply P3; eauto. rewrite Hp. reflexivity.
      * intros x [<- | Hin]; [exact Hs|apply P2; assumption].
    + destruct Hpre as (l & ev & dl & r & xs & Hp). rewrite Hp.
      destruct r as [|r]; constructor; auto; try apply P3'.
      * constructor; auto. eapply P3; eauto. rewrite Hp. reflexivity.
      * intros x [Hx | Hin]; [|apply P2; assumption]. subst x.
        change (isset s ev = true). eapply P4; eauto. rewrite Hp. reflexivity.
    + destruct Hpre as [(ev & dl & Hp & Hs & _) | (l & ev & dl & xs & Hp & _)]; rewrite Hp, ?Hs;
        constructor; auto; try apply P3'.
  - assert (Hw : wake2_on c s e = None).
    { destruct e; try reflexivity. simpl in *. destruct (c0 =? c); [|reflexivity].
      destruct (getc s c) as [cr|]; [|reflexivity]. destruct (cpc cr); try reflexivity; discriminate. }
    rewrite Hw. constructor; auto.
    + intros x Hin. eapply trans_isset_mono; eauto.
    + pose proof (marker_unset s R) as MU.
      tcases T; intros cr1 e1 Hg1 Ha1; start_ s; rewrite ?ms_await in *; simpl cpc in *.
      all: try solve [ eapply P3; eauto ].
      all: try (rewrite probe_await in Ha1; discriminate Ha1).
      all: mv_simpl; try discriminate; try (injection Ha1 as <-).
      all: try solve [ match goal with Hg : getc _ _ = Some ?x, Hp : cpc ?x = _ |- _ =>
                         eapply P3; [exact Hg|rewrite Hp; reflexivity] end ].
      intros Hin. apply P2 in Hin. rewrite (MU _ _ _ Hm) in Hin. discriminate.
    + assert (Mono : forall x, isset s x = true -> isset s' x = true)
        by (intros; eapply trans_isset_mono; eauto).
      tcases T; intros cr1 e1 Hg1 Ha1; start_ s; rewrite ?ms_x0ev in *; simpl cpc in *.
      all: try solve [ eapply Mono; eapply P4; eauto ].
      all: try (rewrite probe_x0ev in Ha1; discriminate Ha1).
      all: mv_simpl; try discriminate.
      destruct r; [|discriminate]. injection Ha1 as <-. apply H1.
Qed.

Lemma wakes_proxies0_bound n tbl tr s c : run (init n tbl) tr = Some s ->
  wakes c (init n tbl) tr + proxies0 c (init n tbl) tr <= n_iend tr.
Proof.
  intros H.
  assert (HP : PW2 c (ghost_run (updW2 c) [] (init n tbl) tr) s).
  { eapply (ghost_ind (updW2 c) (PW2 c)); [| apply Inv_init | apply LInv_init | | exact H].
    - intros g s0 e s1 I0 _. apply PW2_step. exact I0.
    - constructor; [apply RInv_init|constructor|contradiction|auto|].
      intros cr e Hg Hx. apply init_pc in Hg. rewrite Hg in Hx. discriminate. }
  assert (HI : PI (ghost_run updI 0 (init n tbl) tr) s).
  { eapply (ghost_ind updI PI); [| apply Inv_init | apply LInv_init | | exact H].
    - intros g s0 e s1 I0 _. apply PI_step. exact I0.
    - unfold PI. simpl. clear. induction tbl; simpl; auto. }
  unfold PI in HI.
  rewrite (ghost_count updI (fun k => k) (fun _ e => is_iend e)) in HI by reflexivity.
  rewrite (count_run_trace _ _ _ _ H) in HI.
  destruct HP as [_ Q1 Q2 _ _].
  assert (Hlen : forall tr0 g s0, length (ghost_run (updW2 c) g s0 tr0)
                 = length g + (wakes c s0 tr0 + proxies0 c s0 tr0)).
  { unfold wakes, proxies0. induction tr0 as [|e r IH]; intros g s0; simpl; [lia|].
    destruct (step s0 e) as [s1|]; [|lia]. rewrite IH. unfold updW2.
    pose proof (wake2_on_kind c s0 e) as Hq. destruct (wake2_on c s0 e); simpl; lia. }
  specialize (Hlen tr [] (init n tbl)). simpl in Hlen.
  assert (Hle : length (ghost_run (updW2 c) [] (init n tbl) tr) <= cnt isT (evset s)).
  { apply nodup_cnt; auto. intros i Hi. exists true. split; auto.
    apply Q2 in Hi. unfold isset in Hi. rewrite <- Hi. apply nth_lget.
    eapply (lget_neq_lt false). rewrite Hi. discriminate. }
  unfold n_iend. simpl in *. lia.
Qed.


(* ---- bounded work, per caller ---- *)
Lemma bounded_work_caller n tbl tr s c : run (init n tbl) tr = Some s ->
  lib_of c tr <= 11 + 8 * (n_iend tr + n_proxy_cancel c tr + n_close tr + timeouts c (init n tbl) tr)
  /\ (N.of_nat (timeouts c (init n tbl) tr) * SAFETY <= now s)%N.
Proof.
  intros H. split; [|eapply timeouts_cost; eauto].
  pose proof (work_per_retry _ _ _ _ c H) as Hw.
  rewrite retry_split, proxies_split in Hw.
  pose proof (wakes_proxies0_bound _ _ _ _ c H). pose proof (proxiesC_bound _ _ _ _ c H).
  pose proof (closed_bound _ _ _ _ c H). lia.
Qed.

(* ---- bounded work, whole trace ---- *)
Fixpoint sumn (f : nat -> nat) (N : nat) : nat :=
  match N with 0 => 0 | S M => sumn f M + f M end.

Lemma sumn_le f g N : (forall c, c < N -> f c <= g c) -> sumn f N <= sumn g N.
Proof. induction N; simpl; intros H; [lia|]. specialize (IHN (fun c Hc => H c (Nat.lt_lt_succ_r _ _ Hc))). specialize (H N). lia. Qed.
Lemma sumn_add f g N : sumn (fun c => f c + g c) N = sumn f N + sumn g N.
Proof. induction N; simpl; lia. Qed.
Lemma sumn_const k N : sumn (fun _ => k) N = N * k.
Proof. induction N; simpl; lia. Qed.
Lemma sumn_mul k f N : sumn (fun c => k * f c) N = k * sumn f N.
Proof. induction N; simpl; lia. Qed.
Lemma sumn_eqb_le c' N : sumn (fun c => b2n (c' =? c)) N <= 1 /\ (c' < N -> sumn (fun c => b2n (c' =? c)) N = 1)
                          /\ (N <= c' -> sumn (fun c => b2n (c' =? c)) N = 0).
Proof.
  induction N; simpl; [lia|]. destruct IHN as (H1 & H2 & H3).
  destruct (Nat.eqb_spec c' N); simpl.
  - subst. rewrite H3 by lia. lia.
  - repeat split; intros; try lia; try (rewrite H2; lia); try (rewrite H3; lia).
Qed.

Lemma n_ev_cons p e r : n_ev p (e :: r) = b2n (p e) + n_ev p r.
Proof. unfold n_ev. simpl. destruct (p e); reflexivity. Qed.

Lemma trans_callers_len s e s' : trans s e s' -> length (callers s') = length (callers s).
Proof.
  intros T. tcases T; simpl callers; try reflexivity.
  all: try (apply length_lset_lt; eapply nth_error_Some_lt; eassumption).
  apply map_length.
Qed.

Lemma accepted_caller s e s' c : step s e = Some s' -> caller_of e = Some c -> c < length (callers s).
Proof.
  intros Hs Hc. apply step_trans in Hs as [_ T].
  destruct T; simpl in Hc; try discriminate Hc; try (injection Hc as <-);
    try (eapply nth_error_Some_lt; eassumption).
  destruct r; [|discriminate]. injection Hc as <-. eapply nth_error_Some_lt; eassumption.
Qed.

Lemma n_lib_sum : forall tr s s', run s tr = Some s' ->
  n_lib tr <= sumn (fun c => lib_of c tr) (length (callers s)).
Proof.
  unfold n_lib, lib_of. induction tr as [|e r IH]; intros s s' H; simpl in H.
  - unfold n_ev. simpl. lia.
  - destruct (step s e) as [s1|] eqn:Hs; [|discriminate].
    rewrite n_ev_cons.
    assert (Hle : sumn (fun c => n_ev (ev_of c) (e :: r)) (length (callers s))
                  = sumn (fun c => b2n (ev_of c e)) (length (callers s)) + sumn (fun c => n_ev (ev_of c) r) (length (callers s))).
    { rewrite <- sumn_add. clear. induction (length (callers s)); simpl; [reflexivity|]. rewrite IHn, n_ev_cons. lia. }
    rewrite Hle. specialize (IH _ _ H).
    apply step_trans in Hs as Ht. destruct Ht as [_ Ht]. rewrite (trans_callers_len _ _ _ Ht) in IH.
    assert (b2n (lib_event e) <= sumn (fun c => b2n (ev_of c e)) (length (callers s))); [|lia].
    unfold lib_event, ev_of. destruct (caller_of e) as [c'|] eqn:Hc; simpl; [|lia].
    pose proof (accepted_caller _ _ _ _ Hs Hc) as Hlt.
    destruct (sumn_eqb_le c' (length (callers s))) as (_ & Hq & _). rewrite Hq; auto.
Qed.

Definition is_proxy_cancel_any (e : ev) : bool := match e with Proxy _ _ (S _) => true | _ => false end.
Definition n_proxy_cancel_all := n_ev is_proxy_cancel_any.
Definition total_timeouts (n : nat) (tbl : list (nat * nat)) (tr : list ev) : nat :=
  sumn (fun c => timeouts c (init n tbl) tr) (length tbl).

Lemma sum_proxy_cancel tr N : sumn (fun c => n_proxy_cancel c tr) N <= n_proxy_cancel_all tr.
Proof.
  unfold n_proxy_cancel, n_proxy_cancel_all. induction tr as [|e r IH].
  - unfold n_ev. simpl. clear. induction N; simpl; lia.
  - rewrite n_ev_cons.
    assert (Hq : sumn (fun c => n_ev (is_proxy_cancel c) (e :: r)) N
                 = sumn (fun c => b2n (is_proxy_cancel c e)) N + sumn (fun c => n_ev (is_proxy_cancel c) r) N).
    { rewrite <- sumn_add. clear. induction N; simpl; [reflexivity|]. rewrite IHN, n_ev_cons. lia. }
    rewrite Hq.
    assert (sumn (fun c => b2n (is_proxy_cancel c e)) N <= b2n (is_proxy_cancel_any e)); [|lia].
    destruct e; simpl; try (clear; induction N; simpl; lia).
    destruct r0; simpl; [clear; induction N; simpl; lia|].
    apply (sumn_eqb_le c N).
Qed.

(* A. bounded work: the library events of an accepted event list are bounded by the number of
   callers, the environment events (invocations ending, proxy waits cancelled by a shutdown run,
   loops closed) and the time-outs — and every time-out of a caller costs 60 virtual seconds *)
Lemma bounded_work n tbl tr s : run (init n tbl) tr = Some s ->
  n_lib tr <= length tbl * 11
              + 8 * (length tbl * (n_iend tr + n_close tr) + n_proxy_cancel_all tr + total_timeouts n tbl tr)
  /\ forall c, (N.of_nat (timeouts c (init n tbl) tr) * SAFETY <= now s)%N.
Proof.
  intros H. split; [|intros c; eapply timeouts_cost; eauto].
  pose proof (n_lib_sum _ _ _ H) as Hs.
  replace (length (callers (init n tbl))) with (length tbl) in Hs by (simpl; rewrite map_length; reflexivity).
  set (N := length tbl) in *.
  assert (Hb : sumn (fun c => lib_of c tr) N
               <= sumn (fun c => 11 + 8 * ((n_iend tr + n_close tr) + (n_proxy_cancel c tr + timeouts c (init n tbl) tr))) N).
  { apply sumn_le. intros c _. destruct (bounded_work_caller _ _ _ _ c H) as [Hc _]. lia. }
  rewrite sumn_add, sumn_const, sumn_mul, sumn_add, sumn_const, sumn_add in Hb.
  pose proof (sum_proxy_cancel tr N). unfold total_timeouts. fold N. lia.
Qed.

(* ================= C. between two environment events ================= *)
Lemma n_ev_app p l1 l2 : n_ev p (l1 ++ l2) = n_ev p l1 + n_ev p l2.
Proof. unfold n_ev. rewrite filter_app, app_length. reflexivity. Qed.

Lemma n_ev_none p q l : (forall e, In e l -> q e = true) -> (forall e, q e = true -> p e = false) -> n_ev p l = 0.
Proof.
  intros Hq Hp. unfold n_ev. induction l as [|e r IH]; simpl; [reflexivity|].
  rewrite (Hp e) by (apply Hq; left; reflexivity). apply IH. intros; apply Hq; right; assumption.
Qed.

Lemma n_ev_all p l : (forall e, In e l -> p e = true) -> n_ev p l = length l.
Proof.
  intros Hp. unfold n_ev. induction l as [|e r IH]; simpl; [reflexivity|].
  rewrite (Hp e) by (left; reflexivity). simpl. rewrite IH; auto. intros; apply Hp; right; assumption.
Qed.

(* a stretch tr2 of library events only (no environment event, no clock event) after any accepted
   tr1 is bounded by the environment events of tr1 and the time-outs, each of which costs 60 virtual
   seconds of the clock — which tr2 does not move; and when the stretch cannot be extended (and the
   environment owes nothing: no IEnd possible, no shutdown run half-way) every started call on a
   live loop has been answered or waits for a deadline that is still ahead, to which the clock can move *)
Lemma finite_work_then_done n tbl tr1 tr2 s : run (init n tbl) (tr1 ++ tr2) = Some s ->
  (forall e, In e tr2 -> lib_event e = true) ->
  n_lib tr1 + length tr2 <= length tbl * 11
      + 8 * (length tbl * (n_iend tr1 + n_close tr1) + n_proxy_cancel_all tr1
             + total_timeouts n tbl (tr1 ++ tr2))
  /\ (forall c, (N.of_nat (timeouts c (init n tbl) (tr1 ++ tr2)) * SAFETY <= now s)%N)
  /\ ((forall e, lib_or_proxy e = true -> step s e = None) ->
      (forall i r t, step s (IEnd i r t) = None) ->
      (forall t, lp s t <> LShut) ->
      forall c cr, getc s c = Some cr -> alive (lp s (cloop cr)) = true ->
        done_or_unstarted (cpc cr) = true
        \/ exists dl t s', waits_until cr dl /\ (now s < t)%N /\ (t <= dl)%N /\ step s (Adv t) = Some s').
Proof.
  intros H Hl. destruct (bounded_work _ _ _ _ H) as [Hb Ht].
  split; [|split; [exact Ht|eapply maximal_trace_done_or_timer; eauto]].
  unfold n_lib, n_iend, n_close, n_proxy_cancel_all in *. rewrite !n_ev_app in Hb.
  rewrite (n_ev_all lib_event tr2 Hl) in Hb.
  rewrite (n_ev_none is_iend lib_event tr2 Hl) in Hb by (intros [] He; try reflexivity; discriminate He).
  rewrite (n_ev_none is_close lib_event tr2 Hl) in Hb by (intros [] He; try reflexivity; discriminate He).
  rewrite (n_ev_none is_proxy_cancel_any lib_event tr2 Hl) in Hb
    by (intros [] He; try reflexivity; try discriminate He; destruct r; [reflexivity|discriminate He]).
  lia.
Qed.

(* ---- non-vacuity ---- *)
(* caller 0 computes key 0 on loop 0, caller 1 waits for it from loop 1; both are answered *)
Definition work_demo : list ev :=
  [Get 0 0; Miss 0 0; Acq 0 0; Get 0 0; Miss 0 0; Rel 0 0; IStart 0 0 0%N;
   Get 1 1; Miss 1 1; Acq 1 1; Get 1 1; Miss 1 1; Rel 1 1; XSub 1 1; Adv 5%N;
   IEnd 0 0 5%N; SetC 0 0; Acq 0 0; Rel 0 0; Done 0 0 0 5%N; Proxy 0 1 0; Get 1 1; Done 1 0 0 5%N].

Example work_demo_counts :
  let s0 := init 2 [(0,0); (1,0)] in
  exists s, run s0 work_demo = Some s
    /\ n_lib work_demo = 21 /\ lib_of 0 work_demo = 11 /\ lib_of 1 work_demo = 10
    /\ retries 1 s0 work_demo = 1 /\ proxies0 1 s0 work_demo = 1 /\ n_iend work_demo = 1
    /\ n_proxy_cancel_all work_demo = 0 /\ total_timeouts 2 [(0,0); (1,0)] work_demo = 0
    /\ map (fun cr => done_or_unstarted (cpc cr)) (callers s) = [true; true]
    /\ step s (Adv 6%N) <> None.
Proof. eexists. split; [vm_compute; reflexivity|]. vm_compute. repeat split. discriminate. Qed.

(* the hypotheses of maximal_trace_all_done are satisfiable: in the state reached by work_demo no
   library step and no IEnd is possible, no loop is in its shutdown run, nobody waits *)
Example work_demo_maximal :
  exists s, run (init 2 [(0,0); (1,0)]) work_demo = Some s
    /\ (forall e, lib_or_proxy e = true -> step s e = None)
    /\ (forall i r t, step s (IEnd i r t) = None)
    /\ (forall t, lp s t <> LShut)
    /\ (forall c cr, getc s c = Some cr -> lp s (cloop cr) = LRun -> dl_of (cpc cr) = None).
Proof.
  eexists. split; [vm_compute; reflexivity|]. split; [|split; [|split]].
  - intros [] He; try discriminate He; unfold step; simpl.
    all: try (destruct c as [|[|[|c]]]; simpl; try reflexivity;
              try (destruct t as [|[|t]]; reflexivity);
              try (destruct (tick =? 5)%N; reflexivity)).
    all: try (destruct (tick =? 5)%N; destruct (i =? 1); reflexivity).
  - intros [|[|i]] r t; unfold step; simpl; try reflexivity.
    destruct (t =? 5)%N; simpl; reflexivity.
  - intros [|[|t]]; discriminate.
  - intros [|[|[|c]]] cr Hg; simpl in Hg; try discriminate Hg; injection Hg as <-; reflexivity.
Qed.
