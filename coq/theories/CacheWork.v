(* CacheWork.v — C05: bounded library work and "a maximal trace has answered every call".
   bounded_work: in every accepted event list the number of LIBRARY events of a caller is bounded
   by constants and the ENVIRONMENT events (invocations ending, proxy waits cancelled by a shutdown,
   loops closed) and the clock (time-outs, 60 virtual seconds each).
   maximal_trace_all_done: a reachable state in which no library step, no later clock event and no
   IEnd is possible and no loop is in its shutdown run has answered every started call on a live loop. *)
From Coq Require Import List Arith NArith Bool Lia ZifyBool ZifyNat ZifyN.
Import ListNotations.
Require Import Aiuti.Cache Aiuti.CacheLemmas Aiuti.CacheInv Aiuti.CacheLive Aiuti.CacheRetry.

(* ---- library events and their caller ---- *)
Definition caller_of (e : ev) : option nat :=
  match e with
  | Get _ c | Miss _ c | Acq _ c | Rel _ c | SetC _ c | XSub _ c => Some c
  | IStart _ c _ => Some c
  | Done c _ _ _ => Some c
  | Proxy _ c 0 => Some c
  | _ => None
  end.
Definition lib_event (e : ev) : bool := match caller_of e with Some _ => true | None => false end.
Definition ev_of (c : nat) (e : ev) : bool := match caller_of e with Some c' => c' =? c | None => false end.
(* every step of the library's program, including a proxy wait ending for any reason *)
Definition lib_or_proxy (e : ev) : bool := lib_event e || match e with Proxy _ _ _ => true | _ => false end.

(* ================= B. a maximal trace has answered every call ================= *)
Lemma maximal_trace_all_done n tbl tr s : run (init n tbl) tr = Some s ->
  (forall e, lib_or_proxy e = true -> step s e = None) ->
  (forall t, (now s < t)%N -> step s (Adv t) = None) ->
  (forall i r t, step s (IEnd i r t) = None) ->
  (forall t, lp s t <> LShut) ->
  forall c cr, getc s c = Some cr -> alive (lp s (cloop cr)) = true -> done_or_unstarted (cpc cr) = true.
Proof.
  intros H Hlib Hadv Hiend Hshut c cr Hg Ha.
  destruct (done_or_unstarted (cpc cr)) eqn:Hd; [reflexivity|exfalso].
  destruct (no_deadlock_run _ _ _ _ H c cr Hg Ha Hd) as (e & s' & Hs & Hp).
  destruct e; simpl in Hp; try discriminate Hp.
  all: try (rewrite Hlib in Hs by reflexivity; discriminate Hs).
  - rewrite Hiend in Hs. discriminate.
  - destruct (getc s c0) as [cr0|] eqn:Hg0; [|discriminate].
    apply andb_prop in Hp as [_ Hp]. destruct (lp s (cloop cr0)) eqn:Hl; try discriminate.
    exact (Hshut _ Hl).
  - rewrite Hlib in Hs; [discriminate|]. unfold lib_or_proxy. apply orb_true_r.
  - apply N.ltb_lt in Hp. rewrite Hadv in Hs by assumption. discriminate.
Qed.

(* ================= A. bounded work ================= *)
(* phi p = most library events the caller can still perform from pc p before its next retry
   (a further round of the while-loop) or its Done *)
Definition phi (p : pc) : nat :=
  match p with
  | PStart => 11 | PMiss1 => 10 | PLock => 9 | PReprobe => 8 | PMiss2 => 7
  | PUnlock (DHit _) => 2 | PUnlock (DComp _) => 6 | PUnlock (DWait _ _) => 6
  | PInvoke _ => 5 | PComp _ _ => 4 | PPublish _ _ => 4 | PFinLock _ _ => 3 | PFinUnlock _ => 2
  | PXSub _ _ => 5 | PProbe => 3 | PWait _ _ => 3
  | PWaitX _ _ _ None _ => 4 | PWaitX _ _ _ (Some _) _ => 3
  | PFinish _ => 1 | PDone _ => 0
  end.
Lemma ms_phi s cr : phi (cpc (mark_started s cr)) = phi (cpc cr).
Proof. apply ms_class. reflexivity. Qed.

Definition phic (c : nat) (s : state) : nat :=
  match getc s c with Some cr => phi (cpc cr) | None => 0 end.

Definition updK (c : nat) (g : nat * nat) (s : state) (e : ev) : nat * nat :=
  (fst g + b2n (ev_of c e), snd g + b2n (is_retry c s e)).
Definition PK (c : nat) (g : nat * nat) (s : state) : Prop := fst g + phic c s <= 11 + 8 * snd g.

Lemma probe_phi s cr : phi (probe_pc s cr) <= 10.
Proof. destruct (probe_pc_cases s cr) as [(v & ->) | ->]; simpl; lia. Qed.

Lemma PK_step c g s e s' : PK c g s -> step s e = Some s' -> PK c (updK c g s e) s'.
Proof.
  unfold PK, updK, is_retry. destruct g as [k r]. simpl fst. simpl snd.
  intros P Hs. apply step_trans in Hs as [_ T].
  destruct (retry_kind c s e) as [kd|] eqn:Hk.
  - destruct (kind_inv _ _ _ _ _ T Hk) as (t & cr & -> & Hg & -> & Hpre).
    unfold phic in *. rewrite (getc_probe _ _ _ Hg). rewrite Hg in P. simpl cpc.
    pose proof (probe_phi s cr).
    replace (ev_of c (Get t c)) with true by (unfold ev_of; simpl; symmetry; apply Nat.eqb_refl). simpl b2n.
    assert (3 <= phi (cpc cr)).
    { destruct kd; simpl in Hpre.
      - rewrite Hpre. simpl. lia.
      - destruct Hpre as (? & ? & Hp & _). rewrite Hp. simpl. lia.
      - destruct Hpre as (? & ? & ? & ? & ? & Hp). rewrite Hp. simpl. lia.
      - destruct Hpre as [(? & ? & Hp & _) | (? & ? & ? & ? & Hp & _)]; rewrite Hp; simpl; lia. }
    lia.
  - simpl b2n at 2. unfold phic in *. rewrite Nat.add_0_r. remember (11 + 8 * r) as B eqn:HB. clear HB.
    tcases T; unfold ev_of; simpl.
    all: try (erewrite getc_set_pc by eassumption).
    all: try (erewrite getc_cancel by eassumption).
    all: try (erewrite (getc_map _ (mark_started _)) by reflexivity).
    all: try match goal with |- context [?a =? ?b] => destruct (Nat.eqb_spec a b); [subst|]; simpl b2n end.
    all: try lia.
    all: try match goal with Hg : getc _ _ = Some _ |- _ => rewrite Hg in P end.
    all: simpl cpc.
    all: try solve [ mv_simpl; repeat match goal with Hc : cpc _ = _ |- _ => rewrite Hc in P; clear Hc end;
                     simpl in *; lia ].
    all: try solve [ unfold getc in *; simpl callers; lia ].
    + pose proof (probe_phi s cr). simpl in Hk. rewrite Nat.eqb_refl, H in Hk.
      destruct H2 as [(Hp&_)|[Hp|[(?&?&Hp&_)|(?&?&?&?&?&Hp&_)]]]; rewrite Hp in *; simpl in Hk;
        try discriminate Hk. simpl in P. lia.
    + destruct H1 as [(?&?&Hp)|(?&?&?&?&?&Hp)]; rewrite Hp in P; simpl in *; try lia. destruct x2; lia.
    + rewrite H0 in P. destruct r0; simpl; rewrite ?Nat.eqb_refl; simpl in *; lia.
    + destruct r0; simpl; try lia. destruct (Nat.eqb_spec c0 c); [contradiction|]. simpl. lia.
    + destruct (getc s c); simpl; rewrite ?ms_phi; lia.
Qed.

Definition lib_of (c : nat) (tr : list ev) : nat := n_ev (ev_of c) tr.
Definition n_lib (tr : list ev) : nat := n_ev lib_event tr.

(* a caller performs at most 11 library events plus 8 per retry *)
Lemma work_per_retry n tbl tr s c : run (init n tbl) tr = Some s ->
  lib_of c tr <= 11 + 8 * retries c (init n tbl) tr.
Proof.
  intros H.
  assert (HP : PK c (ghost_run (updK c) (0, 0) (init n tbl) tr) s).
  { eapply (ghost_ind (updK c) (PK c)); [| apply Inv_init | apply LInv_init | | exact H].
    - intros g s0 e s1 _ _. apply PK_step.
    - unfold PK, phic. simpl fst. simpl snd. destruct (getc (init n tbl) c) as [cr|] eqn:Hg; [|lia].
      apply init_pc in Hg. rewrite Hg. simpl. lia. }
  unfold PK in HP.
  rewrite (ghost_count (updK c) fst (fun _ e => ev_of c e)) in HP by reflexivity.
  rewrite (ghost_count (updK c) snd (is_retry c)) in HP by reflexivity.
  rewrite (count_run_trace _ _ _ _ H) in HP. unfold lib_of, retries. simpl in HP. lia.
Qed.

