(* Case_C02.v — correspondence cases and monitor for C02 (FileLock mutual
   exclusion).  No proofs here; see FLockInv.v / FLockMutex.v / props/C02.v.

   CSched: thread programs run by gated threads under an explicit schedule.
     trace    what the controller did: (EStep t, opcode of t's gate) per decision,
              (EAdv ticks, 0) when it advanced the virtual clock — the model
              replays it step for step (one model step per gate);
     results  per thread, the results of its calls in order;
     occ      the harness' occupancy log: (thread, entering?, threads inside
              afterwards, is_locked of the object) whenever a thread becomes /
              stops being "inside" (successful acquire returned .. release called);
     final    per thread the opcode it is parked at (0 = finished); endcode
              0 = all finished, 1 = deadlock, 2 = step bound.
   CProcs: free-running OS processes with an O_EXCL marker file inside the
     critical section (assumption validation, not replayable by a model).
   CLine: the same gated threads, but EVERY source line of aiuti/filelock.py (and the
     construction of a threading.Lock/RLock) is a gate, so a thread can be preempted
     between any two statements.  Line-level decisions do not line up with the model's
     one-step-per-primitive granularity, so these runs are judged by the monitor
     (occupancy log as in CSched, plus the end-of-run observation: when every thread
     finished and, by the log, nobody is inside, every object reports is_locked = False
     and a fresh non-blocking acquire by a probe succeeds); [agree] compares only
     schedule-independent facts with the model's semantics: each reported result is one
     the call can have (an untimed blocking acquire can only return True, a release
     None, a failing acquire its flavour's failure value), along the program with its
     skip structure.                                                            *)
From Coq Require Import List Arith Bool NArith.
Import ListNotations.
Require Import Aiuti.CaseLib Aiuti.FLock Aiuti.FLockContract.

Definition occ_entry := (nat * bool * nat * bool)%type.

Inductive case :=
| CSched (cfg : list (bool * tmo)) (fl : list (skind * nat * bool)) (progs : list (list call))
         (trace : list (ev * nat)) (results : list (list result)) (occ : list occ_entry)
         (final : list nat) (endcode : nat) (kernel_mismatches : nat)
| CProcs (nproc rounds : nat) (completed collisions errors : nat)
| CLine (cfg : list (bool * tmo)) (progs : list (list call)) (results : list (list result))
        (occ : list occ_entry) (endcode : nat) (locked_end : list bool) (probe : bool)
        (kernel_mismatches : nat).

Definition result_code (r : result) : nat :=
  match r with RTrue => 0 | RFalse => 1 | RTimeout => 2 | ROSErr => 3 | RNone => 4
             | RRuntime => 5 | RWouldBlock => 6 | ROutOfFuel => 7 end.
Definition result_eqb (a b : result) : bool := Nat.eqb (result_code a) (result_code b).

Definition occ_eqb (x y : occ_entry) : bool :=
  let '(t1, e1, n1, l1) := x in let '(t2, e2, n2, l2) := y in
  Nat.eqb t1 t2 && Bool.eqb e1 e2 && Nat.eqb n1 n2 && Bool.eqb l1 l2.

Definition init_sched (cfg : list (bool * tmo)) (fl : list (skind * nat * bool)) (progs : list (list call)) : state :=
  init (map (fun c => obj0 0 (fst c) (snd c)) cfg) (map (thr0 0) progs) fl.

Definition count_inside (s : state) (nT : nat) : nat := length (filter (inside_b s) (seq 0 nT)).

(* replay the controller's decisions; returns (every decision named an enabled
   thread parked at the recorded op?, final state, occupancy log) *)
Fixpoint replay (nT : nat) (s : state) (tr : list (ev * nat)) : bool * state * list occ_entry :=
  match tr with
  | [] => (true, s, [])
  | (e, code) :: rest =>
      let good := match e with
                  | EStep t => enabled s t && Nat.eqb (opcode s t) code
                  | _ => true end in
      let s' := apply s e in
      let here := match e with
                  | EStep t =>
                      match inside_b s t, inside_b s' t with
                      | false, true => [(t, true, count_inside s' nT,
                                         match t_cs (thr s' t) with o :: _ => is_locked s' o | [] => false end)]
                      | true, false => [(t, false, count_inside s' nT, true)]
                      | _, _ => []
                      end
                  | _ => [] end in
      let '(g, s2, oc) := replay nT s' rest in
      (good && g, s2, here ++ oc)
  end.

Definition final_of (s : state) (t : tid) : nat := if call_done s t then 0 else opcode s t.

Definition endcode_of (s : state) (nT : nat) : nat :=
  if forallb (call_done s) (seq 0 nT) then 0
  else if existsb (fun t => enabled s t || match deadline s t with Some _ => negb (call_done s t) | None => false end)
                  (seq 0 nT) then 2 else 1.

Definition model_trace (c : case)
  : bool * list (list result) * list occ_entry * list nat * nat * bool :=
  match c with
  | CSched cfg fl progs trace _ _ _ _ _ =>
      let nT := length progs in
      let '(g, s, oc) := replay nT (init_sched cfg fl progs) trace in
      (g, map (fun t => rev (t_res (thr s t))) (seq 0 nT), oc, map (final_of s) (seq 0 nT), endcode_of s nT, viol s)
  | _ => (true, @nil (list result), @nil occ_entry, @nil nat, 0, false)
  end.

(* schedule-independent: the results a thread reported are results its calls can have
   (no scripted faults in line-level runs) *)
Definition res_possible (cfg : list (bool * tmo)) (c : call) (r : result) : bool :=
  match c with
  | CAcq o m blk tm _ _ =>
      let '(b', tm') := normalise (obj0 0 false (snd (nth o cfg (false, TNeg)))) blk tm in
      result_eqb r RTrue ||
      (negb (b' && match tm' with TVal _ => false | _ => true end) && result_eqb r (fail_result m))
  | CRel _ _ => result_eqb r RNone
  end.

Fixpoint walk (fuel : nat) (cfg : list (bool * tmo)) (prog : list call) (rs : list result) : bool :=
  match fuel with
  | 0 => false
  | S f =>
      match prog, rs with
      | _, [] => true                         (* the thread did not get further *)
      | [], _ :: _ => false
      | c :: rest, r :: rs' =>
          res_possible cfg c r &&
          walk f cfg (match c with CAcq _ _ _ _ _ k => if is_fail r then skipn k rest else rest | _ => rest end) rs'
      end
  end.

Fixpoint walks (cfg : list (bool * tmo)) (progs : list (list call)) (results : list (list result)) : bool :=
  match progs, results with
  | [], [] => true
  | p :: ps, r :: rs => walk (S (length p)) cfg p r && walks cfg ps rs
  | _, _ => false
  end.

Definition agree (c : case) : bool :=
  match c with
  | CSched cfg fl progs trace results occ final endcode km =>
      let '(g, rs, oc, fin, ec, _) := model_trace c in
      g && list_eqb (list_eqb result_eqb) rs results && list_eqb occ_eqb oc occ
      && list_eqb Nat.eqb fin final && Nat.eqb ec endcode && Nat.eqb km 0
  | CProcs np r completed collisions errors =>
      Nat.eqb completed (np * r) && Nat.eqb collisions 0 && Nat.eqb errors 0
  | CLine cfg progs results occ endcode locked_end probe km =>
      walks cfg progs results && Nat.eqb (length locked_end) (length cfg) && Nat.eqb km 0
  end.

(* monitor: never two inside; whoever is inside holds the lock when it enters
   and still holds it when it calls release; and the log is self-consistent: read as
   a sequence of enter / exit events it starts from nobody inside, only outsiders
   enter, only insiders leave, and the reported number of threads inside is the size
   of the set so obtained (so "n <= 1" really is "at no point two holders inside").
   A run in which some thread left the property's contract (released a lock that
   ANOTHER thread holds: ghost flag viol of the model replaying the same decisions) is
   not judged for occupancy; kernel/table mismatches are judged always. *)
Definition entry_ok (x : occ_entry) : bool :=
  match x with (_, entering, n, locked) => (n <=? 1) && locked && (if entering then Nat.eqb n 1 else Nat.eqb n 0) end.

Definition mem (t : nat) (l : list nat) : bool := existsb (Nat.eqb t) l.
Definition del (t : nat) (l : list nat) : list nat := filter (fun x => negb (Nat.eqb x t)) l.

(* the set of threads inside after one more event *)
Definition occ_next (cur : list nat) (x : occ_entry) : list nat :=
  match x with (t, entering, _, _) => if entering then t :: cur else del t cur end.

Fixpoint occ_consistent (cur : list nat) (occ : list occ_entry) : bool :=
  match occ with
  | [] => true
  | x :: r =>
      (match x with (t, entering, n, _) =>
         (if entering then negb (mem t cur) else mem t cur) && Nat.eqb n (length (occ_next cur x)) end)
      && occ_consistent (occ_next cur x) r
  end.

Definition occ_ok (occ : list occ_entry) : bool := forallb entry_ok occ && occ_consistent [] occ.

(* the static form of the contract (FLockContract.prog_okb) on every program *)
Definition progs_ok (progs : list (list call)) : bool :=
  forallb (fun p => prog_okb (S (length p)) [] p) progs.

(* all threads finished and, by the log, nobody is inside: nothing may be left behind *)
Definition quiet_end (occ : list occ_entry) (endcode : nat) : bool :=
  Nat.eqb endcode 0 && match fold_left occ_next occ [] with [] => true | _ => false end.

Definition ok (c : case) : bool :=
  match c with
  | CSched _ _ _ _ _ occ _ _ km =>
      let '(_, _, _, _, _, vi) := model_trace c in
      (vi || occ_ok occ) && Nat.eqb km 0
  | CProcs _ _ _ collisions _ => Nat.eqb collisions 0
  | CLine _ progs _ occ endcode locked_end probe km =>
      (negb (progs_ok progs)
       || (occ_ok occ && (negb (quiet_end occ endcode) || (forallb negb locked_end && probe))))
      && Nat.eqb km 0
  end.

Definition nontrivial (c : case) : bool :=
  match c with
  | CSched _ _ progs _ _ occ _ _ _ =>
      (2 <=? length progs) &&
      (2 <=? length (nodup Nat.eq_dec (map (fun x : occ_entry => match x with (t, _, _, _) => t end)
                                           (filter (fun x : occ_entry => match x with (_, e, _, _) => e end) occ))))
  | CProcs np r completed _ _ => (2 <=? np) && (np * r <=? completed)
  | CLine _ progs _ occ endcode _ _ _ =>
      (2 <=? length progs) && quiet_end occ endcode &&
      (2 <=? length (nodup Nat.eq_dec (map (fun x : occ_entry => match x with (t, _, _, _) => t end)
                                           (filter (fun x : occ_entry => match x with (_, e, _, _) => e end) occ))))
  end.

Definition verdict := verdict3 agree ok nontrivial.
