(* Case_C04.v — C04: each batcher caller gets exactly its own outcome and is
   always answered.  Monitor [ok_C04] of Case_Batcher.v:
   * every CallerDone of a caller that was already waiting appears exactly in the
     step in which the script makes the batch function produce an outcome for the
     caller's key in an observed batch (value / yielded exception / raised
     exception / ProtocolErr / Missing), carries exactly that outcome, and every
     waiting caller of that key is answered in that step;
   * a CallerDone in the call's own step carries the latest outcome produced for
     its key (whether sharing was legitimate is C11's business);
   * Cancelled only for the caller a Cancel event names; no caller answered twice;
   * no TaskDied; and when every observed batch was ended by the script and
     batch_timeout elapsed since the last call, nobody is still waiting (Hang). *)
From Coq Require Import List Arith NArith Bool.
Import ListNotations.
Require Import Aiuti.CaseLib Aiuti.Batcher Aiuti.Case_Batcher.

Definition agree := Case_Batcher.agree.
Definition ok := ok_C04.

(* non-trivial: the batch function was invoked and at least two callers were answered *)
Definition nontrivial (cs : case) : bool :=
  (1 <=? count is_start (all_obs cs)) && (2 <=? count is_answer (all_obs cs)).

Definition verdict := verdict3 agree ok nontrivial.
