(* BatcherLimits.v — C10: size and concurrency limits, FIFO order, hand-over of
   the open batch.  Invariant [LInv] over the macro-step model Batcher.v,
   preserved by every event; the theorems of props/C10.v are its corollaries. *)
From Coq Require Import List Arith NArith Bool Lia ZifyBool ZifyNat ZifyN.
Import ListNotations.
Require Import Aiuti.Batcher Aiuti.BatcherLift.

Local Arguments N.add : simpl never.
Local Arguments N.leb : simpl never.
Local Arguments N.max : simpl never.
Local Arguments Nat.ltb : simpl never.
Local Arguments Nat.leb : simpl never.
Local Arguments list_max : simpl never.

(* ---- configuration / event well-formedness (the inputs the theorems exclude:
        max_batch_size < 1, no execution slot at all) --------------------------- *)

Definition cfg_ok (c : cfg) : Prop := 1 <= c_maxb c /\ 1 <= c_conc c.
Definition ev_ok (e : event) : Prop := match e with SetMax n => 1 <= n | _ => True end.

(* ---- what the invariant says about batches -------------------------------- *)

Definition lim_of (its : list item) : nat := list_max (map it_max its).

(* a batch that left the collector: non-empty, no larger than the largest
   max_batch_size in force when one of its items was taken *)
Definition good_batch (its : list item) : Prop := its <> [] /\ length its <= lim_of its.
(* the batch still being collected: strictly below that limit *)
Definition open_ok (its : list item) : Prop := its <> [] /\ length its < lim_of its.

Definition coll_items (s : state) : list item :=
  match coll s with Some (its, _) => its | None => [] end.

Definition started_items (s : state) : list item :=
  flat_map (fun x => snd (fst x)) (g_started s).

Definition handed (s : state) : list item := started_items s ++ concat (waiting s).

Record LInv (c : cfg) (s : state) : Prop := {
  L_slots : free s + length (running s) = c_conc c;
  L_wait : waiting s <> [] -> free s = 0;
  L_ids : NoDup (map b_id (running s));
  L_idlt : forall B, In B (running s) -> b_id B < nbid s;
  L_maxb : 1 <= maxb s;
  L_open : forall its dl, coll s = Some (its, dl) -> open_ok its;
  L_wsz : forall its, In its (waiting s) -> good_batch its;
  L_rsz : forall B, In B (running s) -> good_batch (b_items B);
  L_ssz : forall b its t, In (b, its, t) (g_started s) -> good_batch its
}.

(* FIFO: what was handed over (started, then queued on the semaphore) followed by
   the open batch is exactly the list of item-creating calls, in arrival order *)
Definition Fifo (s : state) : Prop := handed s ++ coll_items s = g_items s.

(* ---- list facts ------------------------------------------------------------ *)

Lemma lim_of_app a b : lim_of (a ++ b) = Nat.max (lim_of a) (lim_of b).
Proof. unfold lim_of. now rewrite map_app, list_max_app. Qed.

Lemma lim_of_one it : lim_of [it] = it_max it.
Proof. unfold lim_of. simpl. unfold list_max. simpl. lia. Qed.

Lemma flat_map_app' {A B} (f : A -> list B) l1 l2 : flat_map f (l1 ++ l2) = flat_map f l1 ++ flat_map f l2.
Proof. induction l1; simpl; auto. now rewrite IHl1, app_assoc. Qed.

Lemma find_batch_some s b B : find_batch s b = Some B -> In B (running s) /\ b_id B = b.
Proof.
  unfold find_batch. intros H. apply find_some in H as [H1 H2]. split; auto. now apply Nat.eqb_eq.
Qed.

Lemma filter_id_length (l : list batch) B :
  NoDup (map b_id l) -> In B l ->
  S (length (filter (fun x => negb (Nat.eqb (b_id x) (b_id B))) l)) = length l.
Proof.
  induction l as [|x r IH]; simpl; intros ND HIn; [contradiction|].
  inversion ND as [|? ? Hnot ND']; subst.
  destruct HIn as [->|HIn].
  - rewrite Nat.eqb_refl. simpl. f_equal.
    clear IH ND. induction r as [|y r IH]; simpl; auto.
    simpl in Hnot. destruct (Nat.eqb_spec (b_id y) (b_id B)).
    + exfalso. apply Hnot. left. auto.
    + simpl. f_equal. apply IH.
      * intros H. apply Hnot. right. exact H.
      * inversion ND'; auto.
  - destruct (Nat.eqb_spec (b_id x) (b_id B)) as [E|E].
    + exfalso. apply Hnot. rewrite E. now apply in_map.
    + simpl. f_equal. now apply IH.
Qed.

Lemma filter_id_nodup (l : list batch) b :
  NoDup (map b_id l) -> NoDup (map b_id (filter (fun x => negb (Nat.eqb (b_id x) b)) l)).
Proof.
  induction l as [|x r IH]; simpl; intros ND; auto.
  inversion ND as [|? ? Hnot ND']; subst.
  destruct (Nat.eqb (b_id x) b); simpl; auto.
  constructor; auto. intros H. apply Hnot.
  apply in_map_iff in H as (y & Hy & Hin). apply filter_In in Hin as [Hin _].
  rewrite <- Hy. now apply in_map.
Qed.

Lemma NoDup_snoc {A} (l : list A) x : NoDup l -> ~ In x l -> NoDup (l ++ [x]).
Proof.
  induction l as [|y r IH]; simpl; intros ND Hn.
  - constructor; auto.
  - inversion ND; subst. constructor.
    + intros H. apply in_app_or in H as [H|[H|[]]]; [auto | subst; apply Hn; now left].
    + apply IH; auto.
Qed.

Lemma nodup_snoc_id l b its fs :
  NoDup (map b_id l) -> (forall B, In B l -> b_id B < b) -> NoDup (map b_id (l ++ [mkbatch b its fs])).
Proof.
  intros ND Hlt. rewrite map_app. simpl. apply NoDup_snoc; auto.
  intros H. apply in_map_iff in H as (B & HB & Hin). apply Hlt in Hin. lia.
Qed.

(* ---- the internal transitions ----------------------------------------------- *)

(* Between "a slot was reserved / a batch left [running]" and the hand-over the
   slot count is short by one; everything else of LInv holds. *)
Record LPre (c : cfg) (s : state) : Prop := {
  P_slots : S (free s + length (running s)) = c_conc c;
  P_ids : NoDup (map b_id (running s));
  P_idlt : forall B, In B (running s) -> b_id B < nbid s;
  P_maxb : 1 <= maxb s;
  P_open : forall its dl, coll s = Some (its, dl) -> open_ok its;
  P_wsz : forall its, In its (waiting s) -> good_batch its;
  P_rsz : forall B, In B (running s) -> good_batch (b_items B);
  P_ssz : forall b its t, In (b, its, t) (g_started s) -> good_batch its
}.

Lemma start_batch_L c its s :
  LPre c s -> good_batch its -> (waiting s <> [] -> free s = 0) ->
  LInv c (fst (start_batch its s)).
Proof.
  intros [Ps Pi Pl Pm Po Pw Pr Pss] Hg Hw.
  unfold start_batch. constructor; simpl.
  - rewrite app_length. simpl. lia.
  - exact Hw.
  - apply nodup_snoc_id; auto.
  - intros B HB. apply in_app_or in HB as [HB|[<-|[]]]; simpl; auto. apply Pl in HB. lia.
  - exact Pm.
  - exact Po.
  - exact Pw.
  - intros B HB. apply in_app_or in HB as [HB|[<-|[]]]; simpl; auto.
  - intros b its' t HB. apply in_app_or in HB as [HB|[HB|[]]]; eauto.
    injection HB as <- <- <-. exact Hg.
Qed.

Lemma dispatch_L c its s : LInv c s -> good_batch its -> LInv c (fst (dispatch its s)).
Proof.
  intros I Hg. unfold dispatch. cbn [free set_spawn waiting].
  destruct (0 <? free s) eqn:E.
  - apply start_batch_L; auto.
    + destruct I. constructor; simpl; auto. lia.
    + simpl. intros W. apply (L_wait _ _ I) in W. lia.
  - destruct I. constructor; simpl; auto.
    + intros _. lia.
    + intros its' H. apply in_app_or in H as [H|[<-|[]]]; auto.
Qed.

Lemma release_slot_L c s :
  LPre c s -> (waiting s <> [] -> free s = 0) -> LInv c (fst (release_slot s)).
Proof.
  intros P Hw. unfold release_slot. destruct (waiting s) as [|w ws] eqn:W.
  - destruct P. constructor; simpl; auto; try lia. rewrite W. tauto.
  - apply start_batch_L.
    + destruct P. constructor; simpl; auto. intros its H. apply P_wsz0. rewrite W. now right.
    + destruct P. apply P_wsz0. rewrite W. now left.
    + simpl. intros _. apply Hw. discriminate.
Qed.

(* what the hand-over does to the ghost lists *)
Lemma start_batch_ghost its s :
  started_items (fst (start_batch its s)) = started_items s ++ its /\
  waiting (fst (start_batch its s)) = waiting s /\ coll (fst (start_batch its s)) = coll s /\
  g_items (fst (start_batch its s)) = g_items s /\ maxb (fst (start_batch its s)) = maxb s /\
  now (fst (start_batch its s)) = now s.
Proof.
  unfold start_batch, started_items. simpl. rewrite flat_map_app'. simpl. rewrite app_nil_r. repeat split.
Qed.

Lemma dispatch_ghost c its s :
  LInv c s ->
  handed (fst (dispatch its s)) = handed s ++ its /\ coll (fst (dispatch its s)) = coll s /\
  g_items (fst (dispatch its s)) = g_items s /\ maxb (fst (dispatch its s)) = maxb s /\
  now (fst (dispatch its s)) = now s.
Proof.
  intros I. unfold dispatch, handed. cbn [free set_spawn waiting]. destruct (0 <? free s) eqn:E.
  - match goal with |- context [start_batch its ?s1] =>
      destruct (start_batch_ghost its s1) as (H1 & H2 & H3 & H4 & H5 & H6) end.
    rewrite H1, H2, H3, H4, H5, H6. simpl.
    assert (Hw : waiting s = []).
    { destruct (waiting s) eqn:W; auto. pose proof (L_wait _ _ I) as H. rewrite W in H.
      assert (free s = 0) by (apply H; discriminate). lia. }
    rewrite Hw. simpl. rewrite !app_nil_r. repeat split.
  - simpl. rewrite concat_app. simpl. rewrite app_nil_r, app_assoc. repeat split.
Qed.

Lemma release_slot_ghost s :
  handed (fst (release_slot s)) = handed s /\ coll (fst (release_slot s)) = coll s /\
  g_items (fst (release_slot s)) = g_items s /\ maxb (fst (release_slot s)) = maxb s /\
  now (fst (release_slot s)) = now s.
Proof.
  unfold release_slot, handed. destruct (waiting s) as [|w ws] eqn:W.
  - simpl. rewrite W. repeat split.
  - destruct (start_batch_ghost w (set_waiting s ws)) as (H1 & H2 & H3 & H4 & H5 & H6).
    rewrite H1, H2, H3, H4, H5, H6. simpl. rewrite <- app_assoc. repeat split.
Qed.

(* fields that the remaining transformers leave alone *)
Definition same_L (s s' : state) : Prop :=
  free s' = free s /\ running s' = running s /\ waiting s' = waiting s /\ nbid s' = nbid s /\
  maxb s' = maxb s /\ coll s' = coll s /\ g_started s' = g_started s /\ g_items s' = g_items s /\
  now s' = now s.

Lemma same_L_inv c s s' : same_L s s' -> LInv c s -> LInv c s'.
Proof.
  intros (E1 & E2 & E3 & E4 & E5 & E6 & E7 & E8 & E9) [].
  constructor; rewrite ?E1, ?E2, ?E3, ?E4, ?E5, ?E6, ?E7, ?E8; auto.
Qed.

Lemma same_L_fifo s s' : same_L s s' -> Fifo s -> Fifo s'.
Proof.
  intros (E1 & E2 & E3 & E4 & E5 & E6 & E7 & E8 & E9).
  unfold Fifo, handed, started_items, coll_items. now rewrite E3, E6, E7, E8.
Qed.

Lemma same_L_refl s : same_L s s.
Proof. repeat split. Qed.

Lemma same_L_trans s1 s2 s3 : same_L s1 s2 -> same_L s2 s3 -> same_L s1 s3.
Proof.
  intros (A1 & A2 & A3 & A4 & A5 & A6 & A7 & A8 & A9) (B1 & B2 & B3 & B4 & B5 & B6 & B7 & B8 & B9).
  repeat split; congruence.
Qed.

Lemma resolve_same c k f o s : same_L s (resolve c k f o s).
Proof. unfold resolve. destruct (0 <? c_rt c)%N; repeat split. Qed.

Lemma fanout_same c l o : forall s, same_L s (fst (fanout c l o s)).
Proof.
  induction l as [|[k f] r IH]; intros s; simpl; [apply same_L_refl|].
  unfold set_fut. destruct (is_done s f); simpl; [apply same_L_refl|].
  eapply same_L_trans; [apply resolve_same | apply IH].
Qed.

Lemma wake_same s : same_L s (fst (wake s)).
Proof. unfold wake. destruct (wake_from _ _ _ _). repeat split. Qed.

Lemma cancel_same s cid : same_L s (fst (cancel_caller s cid)).
Proof.
  unfold cancel_caller. destruct (nth_error _ _) as [cl|]; [|apply same_L_refl].
  destruct (cl_st cl); [apply same_L_refl|]. repeat split.
Qed.

(* ---- events ------------------------------------------------------------------ *)

Lemma take_L c it s :
  LInv c s -> it_max it = maxb s -> LInv c (fst (take c it s)).
Proof.
  intros I Hm. unfold take.
  set (its := match coll s with Some (its0, _) => its0 ++ [it] | None => [it] end).
  assert (Hits : its = coll_items s ++ [it]).
  { unfold its, coll_items. destruct (coll s) as [[? ?]|]; reflexivity. }
  assert (Hne : its <> []) by (rewrite Hits; destruct (coll_items s); discriminate).
  assert (Hlim : length its <= S (lim_of (coll_items s)) /\
                 lim_of its = Nat.max (lim_of (coll_items s)) (maxb s) /\
                 (coll_items s <> [] -> length its <= lim_of (coll_items s))).
  { rewrite Hits, lim_of_app, lim_of_one, Hm, app_length. simpl.
    unfold coll_items. destruct (coll s) as [[its0 dl]|] eqn:C.
    - destruct (L_open _ _ I _ _ C). repeat split; lia.
    - simpl. repeat split; try lia. congruence. }
  destruct Hlim as (H1 & H2 & H3).
  destruct (length its <? maxb s) eqn:E.
  - destruct I. constructor; simpl; auto.
    intros its' dl H. injection H as <- <-. split; auto. lia.
  - apply dispatch_L.
    + destruct I. constructor; simpl; auto. discriminate.
    + split; auto. pose proof (L_maxb _ _ I).
      destruct (coll_items s) eqn:C.
      * rewrite H2. rewrite Hits. simpl. lia.
      * assert (length its <= lim_of (i :: l)) by (apply H3; discriminate). lia.
Qed.

Lemma take_ghost c it s :
  LInv c s ->
  let s' := fst (take c it s) in
  handed s' ++ coll_items s' = handed s ++ coll_items s ++ [it] /\
  g_items s' = g_items s /\ maxb s' = maxb s /\ now s' = now s.
Proof.
  intros I. unfold take.
  set (its := match coll s with Some (its0, _) => its0 ++ [it] | None => [it] end).
  assert (Hits : its = coll_items s ++ [it]).
  { unfold its, coll_items. destruct (coll s) as [[? ?]|]; reflexivity. }
  destruct (length its <? maxb s) eqn:E; simpl.
  - rewrite <- Hits. repeat split.
  - assert (I' : LInv c (set_coll s None)) by (destruct I; constructor; simpl; auto; discriminate).
    destruct (dispatch_ghost c its _ I') as (G1 & G2 & G3 & G4 & G5).
    unfold coll_items at 1. rewrite G1, G2, G3, G4, G5. simpl.
    rewrite app_nil_r, Hits. unfold handed, started_items. simpl. repeat split.
Qed.

Lemma do_call_L c a ko m s : LInv c s -> LInv c (fst (do_call c a ko m s)).
Proof.
  intros I. unfold do_call.
  destruct (lookup (ret s) (key_of a ko)) as [f|].
  - destruct (lookup (fdone s) f) as [[o t]|]; simpl; destruct I; constructor; auto.
  - apply take_L; [|reflexivity]. destruct I; constructor; auto.
Qed.

Lemma do_call_fifo c a ko m s : LInv c s -> Fifo s -> Fifo (fst (do_call c a ko m s)).
Proof.
  intros I F. unfold do_call.
  destruct (lookup (ret s) (key_of a ko)) as [f|].
  - destruct (lookup (fdone s) f) as [[o t]|]; simpl; exact F.
  - match goal with |- Fifo (fst (take c ?it ?s1)) =>
      assert (I1 : LInv c s1) by (destruct I; constructor; auto);
      destruct (take_ghost c it s1 I1) as (G1 & G2 & _) end.
    unfold Fifo. rewrite G1, G2. simpl. unfold Fifo in F.
    unfold handed, started_items, coll_items in *. simpl. rewrite <- F. now rewrite !app_assoc.
Qed.

Lemma do_calls_LF c l : forall s, LInv c s -> Fifo s ->
  LInv c (fst (do_calls c l s)) /\ Fifo (fst (do_calls c l s)).
Proof.
  induction l as [|[a ko] r IH]; intros s I F; simpl; auto.
  pose proof (do_call_L c a ko 0 s I) as I1. pose proof (do_call_fifo c a ko 0 s I F) as F1.
  destruct (do_call c a ko 0 s) as [s1 o1]. simpl in *.
  specialize (IH s1 I1 F1). destruct (do_calls c r s1) as [s2 o2]. simpl in *. exact IH.
Qed.

Definition LF (c : cfg) (s : state) : Prop := LInv c s /\ Fifo s.

Lemma call_LF c a ko m s : LF c s -> LF c (fst (do_call c a ko m s)) /\ True.
Proof. intros [I F]. split; auto. split; [apply do_call_L | apply do_call_fifo]; auto. Qed.

Lemma wake_LF c s : LF c s -> LF c (fst (wake s)) /\ True.
Proof.
  intros [I F]. pose proof (wake_same s) as S. split; auto.
  split; [eapply same_L_inv | eapply same_L_fifo]; eauto.
Qed.

Lemma do_chain_LF c a ko m s : LInv c s -> Fifo s ->
  LInv c (fst (do_chain c a ko m s)) /\ Fifo (fst (do_chain c a ko m s)).
Proof.
  intros I F. apply (lift_chain c (LF c) (fun _ _ _ => True)); auto. apply call_LF. split; auto.
Qed.

Lemma wake_all_LF c s : LInv c s -> Fifo s ->
  LInv c (fst (wake_all c s)) /\ Fifo (fst (wake_all c s)).
Proof.
  intros I F. apply (lift_wake_all c (LF c) (fun _ _ _ => True)); auto.
  - apply call_LF.
  - apply wake_LF.
  - split; auto.
Qed.

(* the states inside [end_batch]: after leaving the semaphore, after the fan-out *)
Lemma end_batch_mid c B o s :
  LInv c s -> Fifo s -> In B (running s) ->
  let s0 := set_running s (filter (fun x => negb (Nat.eqb (b_id x) (b_id B))) (running s)) in
  let s1 := fst (release_slot s0) in
  let s2 := fst (fanout c (b_futs B) o s1) in
  LInv c s1 /\ Fifo s1 /\ LInv c s2 /\ Fifo s2.
Proof.
  intros I F HB s0 s1 s2.
  assert (P0 : LPre c s0).
  { destruct I. constructor; simpl; auto.
    - pose proof (filter_id_length (running s) B L_ids0 HB). lia.
    - now apply filter_id_nodup.
    - intros B' H. apply filter_In in H as [H _]. auto.
    - intros B' H. apply filter_In in H as [H _]. auto. }
  assert (W0 : waiting s0 <> [] -> free s0 = 0) by (simpl; apply (L_wait _ _ I)).
  pose proof (release_slot_L c s0 P0 W0) as I1.
  destruct (release_slot_ghost s0) as (G1 & G2 & G3 & _).
  assert (F1 : Fifo s1) by (unfold s1, Fifo, coll_items; rewrite G1, G2, G3; exact F).
  pose proof (fanout_same c (b_futs B) o s1) as S2.
  split; [exact I1|]. split; [exact F1|]. split; [eapply same_L_inv | eapply same_L_fifo]; eauto.
Qed.

Lemma end_batch_LF c B o s :
  LInv c s -> Fifo s -> In B (running s) ->
  LInv c (fst (end_batch c B o s)) /\ Fifo (fst (end_batch c B o s)).
Proof.
  intros I F HB. unfold end_batch.
  set (s0 := set_running s _).
  assert (P0 : LPre c s0).
  { destruct I. constructor; simpl; auto.
    - pose proof (filter_id_length (running s) B L_ids0 HB). lia.
    - now apply filter_id_nodup.
    - intros B' H. apply filter_In in H as [H _]. auto.
    - intros B' H. apply filter_In in H as [H _]. auto. }
  assert (W0 : waiting s0 <> [] -> free s0 = 0) by (simpl; apply (L_wait _ _ I)).
  pose proof (release_slot_L c s0 P0 W0) as I1.
  destruct (release_slot_ghost s0) as (G1 & G2 & G3 & _).
  assert (F1 : Fifo (fst (release_slot s0))).
  { unfold Fifo, coll_items. rewrite G1, G2, G3. exact F. }
  destruct (release_slot s0) as [s1 o1]. simpl in *.
  pose proof (fanout_same c (b_futs B) o s1) as S2.
  destruct (fanout c (b_futs B) o s1) as [s2 died]. simpl in *.
  assert (I2 : LInv c s2) by (eapply same_L_inv; [exact S2|exact I1]).
  assert (F2 : Fifo s2) by (eapply same_L_fifo; [exact S2|exact F1]).
  pose proof (wake_all_LF c s2 I2 F2) as H3. destruct (wake_all c s2) as [s3 o3]. exact H3.
Qed.

Lemma fire_at_LF c t s :
  LInv c s -> Fifo s -> LInv c (fst (fire_at t s)) /\ Fifo (fst (fire_at t s)).
Proof.
  intros I F. unfold fire_at.
  set (s2 := set_rtimers _ _).
  assert (I2 : LInv c s2) by (destruct I; constructor; auto).
  assert (F2 : Fifo s2) by exact F.
  assert (C2 : coll s2 = coll s) by reflexivity.
  destruct (coll s2) as [[its dl]|] eqn:C; [|auto].
  destruct (dl <=? t)%N; [|auto].
  set (s3 := set_coll _ None).
  assert (I3 : LInv c s3) by (destruct I; constructor; simpl; auto; discriminate).
  assert (Hg : good_batch its).
  { destruct (L_open _ _ I its dl) as [H1 H2]; [congruence|]. split; auto. lia. }
  split.
  - apply dispatch_L; auto.
  - destruct (dispatch_ghost c its s3 I3) as (G1 & G2 & G3 & _).
    unfold Fifo, coll_items. rewrite G1, G2, G3. simpl. rewrite app_nil_r.
    unfold Fifo, coll_items in F. rewrite <- C2 in F. exact F.
Qed.

Lemma advance_LF c fuel target : forall s,
  LInv c s -> Fifo s -> LInv c (fst (advance fuel target s)) /\ Fifo (fst (advance fuel target s)).
Proof.
  induction fuel as [|n IH]; intros s I F; simpl.
  - split; [destruct I; constructor; auto | exact F].
  - destruct (next_deadline s) as [t|].
    + destruct (t <=? target)%N.
      * destruct (fire_at_LF c t s I F) as [I1 F1].
        destruct (fire_at t s) as [s1 o1]. simpl in *.
        specialize (IH s1 I1 F1). destruct (advance n target s1) as [s2 o2]. exact IH.
      * split; [destruct I; constructor; auto | exact F].
    + split; [destruct I; constructor; auto | exact F].
Qed.

Lemma set_batch_futs_L c s b fs : LInv c s -> LInv c (set_batch_futs s b fs).
Proof.
  intros []. unfold set_batch_futs.
  assert (Hids : map b_id (map (fun x => if Nat.eqb (b_id x) b then mkbatch (b_id x) (b_items x) fs else x) (running s))
                 = map b_id (running s)).
  { rewrite map_map. apply map_ext. intros x. destruct (Nat.eqb (b_id x) b); reflexivity. }
  constructor; simpl; auto.
  - now rewrite map_length.
  - now rewrite Hids.
  - intros B H. apply in_map_iff in H as (x & <- & Hx). destruct (Nat.eqb (b_id x) b); simpl; auto.
  - intros B H. apply in_map_iff in H as (x & <- & Hx). destruct (Nat.eqb (b_id x) b); simpl; auto.
Qed.

Lemma in_set_batch_futs s b fs B :
  In B (running s) -> b_id B = b -> In (mkbatch (b_id B) (b_items B) fs) (running (set_batch_futs s b fs)).
Proof.
  intros H E. unfold set_batch_futs. simpl. apply in_map_iff. exists B. split; auto.
  rewrite E, Nat.eqb_refl. reflexivity.
Qed.

Theorem step_LF c s e :
  ev_ok e -> LInv c s -> Fifo s -> LInv c (fst (step c s e)) /\ Fifo (fst (step c s e)).
Proof.
  intros He I F. destruct e as [a ko|a ko m|l|dt|b k r|b e|b|cid|n]; simpl.
  - split; [apply do_call_L | apply do_call_fifo]; auto.
  - apply do_chain_LF; auto.
  - apply do_calls_LF; auto.
  - apply advance_LF; auto.
  - destruct (find_batch s b) as [B|] eqn:FB; [|auto].
    apply find_batch_some in FB as [HB Hid].
    assert (I0 : LInv c (log_bev s b (EvYield k r))) by (destruct I; constructor; auto).
    destruct (lookup (b_futs B) k) as [f|].
    + set (s0 := set_batch_futs _ b _).
      assert (I1 : LInv c s0) by (apply set_batch_futs_L; exact I0).
      assert (F1 : Fifo s0) by exact F.
      unfold set_fut. destruct (is_done s0 f).
      * apply end_batch_LF; auto. subst b. apply in_set_batch_futs; auto.
      * pose proof (resolve_same c k f (of_res r) s0) as S2.
        apply wake_all_LF.
        -- eapply same_L_inv; [exact S2|]. exact I1.
        -- eapply same_L_fifo; [exact S2|]. exact F1.
    + apply end_batch_LF; auto.
  - destruct (find_batch s b) as [B|] eqn:FB; [|auto].
    apply find_batch_some in FB as [HB Hid].
    apply end_batch_LF; auto. destruct I; constructor; auto.
  - destruct (find_batch s b) as [B|] eqn:FB; [|auto].
    apply find_batch_some in FB as [HB Hid].
    apply end_batch_LF; auto. destruct I; constructor; auto.
  - pose proof (cancel_same s cid) as S. split; [eapply same_L_inv | eapply same_L_fifo]; eauto.
  - simpl in He. split; [destruct I; constructor; auto | exact F].
Qed.

Lemma init_LF c : cfg_ok c -> LInv c (init c) /\ Fifo (init c).
Proof.
  intros [H1 H2]. split; [constructor; simpl; auto; try lia; try contradiction; try discriminate | reflexivity].
  - constructor.
Qed.

Lemma run_from_LF c evs : forall s,
  Forall ev_ok evs -> LInv c s -> Fifo s ->
  LInv c (snd (run_from c s evs)) /\ Fifo (snd (run_from c s evs)).
Proof.
  induction evs as [|e r IH]; intros s He I F; simpl; auto.
  inversion He; subst.
  destruct (step_LF c s e H1 I F) as [I1 F1].
  destruct (step c s e) as [s1 o]. simpl in *.
  specialize (IH s1 H2 I1 F1). destruct (run_from c s1 r) as [tr s2]. exact IH.
Qed.

(* ---- link between the ghost log g_started and the BatchStart observations ----- *)

Definition start_obs (x : nat * list item * N) : obs :=
  let '(b, its, t) := x in BatchStart b (map ka its) t.

(* [o] contains exactly the BatchStarts of the entries appended to g_started *)
Definition Emits (s s' : state) (o : list obs) : Prop :=
  exists new, g_started s' = g_started s ++ new /\ filter is_start o = map start_obs new.

Lemma emits_nil s s' o : g_started s' = g_started s -> filter is_start o = [] -> Emits s s' o.
Proof. intros H1 H2. exists []. now rewrite app_nil_r. Qed.

Lemma emits_trans s1 s2 s3 o1 o2 : Emits s1 s2 o1 -> Emits s2 s3 o2 -> Emits s1 s3 (o1 ++ o2).
Proof.
  intros (n1 & A1 & B1) (n2 & A2 & B2). exists (n1 ++ n2).
  rewrite A2, A1, <- app_assoc, filter_app, map_app, B1, B2. auto.
Qed.

Lemma start_batch_emits its s : Emits s (fst (start_batch its s)) (snd (start_batch its s)).
Proof. exists [(nbid s, its, now s)]. split; reflexivity. Qed.

Lemma dispatch_emits its s : Emits s (fst (dispatch its s)) (snd (dispatch its s)).
Proof.
  unfold dispatch. cbn [free set_spawn waiting]. destruct (0 <? free s).
  - match goal with |- context [start_batch its ?s1] => apply (start_batch_emits its s1) end.
  - now apply emits_nil.
Qed.

Lemma release_slot_emits s : Emits s (fst (release_slot s)) (snd (release_slot s)).
Proof.
  unfold release_slot. destruct (waiting s) as [|w ws].
  - now apply emits_nil.
  - apply (start_batch_emits w (set_waiting s ws)).
Qed.

Lemma take_emits c it s : Emits s (fst (take c it s)) (snd (take c it s)).
Proof.
  unfold take. destruct (_ <? maxb s).
  - now apply emits_nil.
  - apply (dispatch_emits _ (set_coll s None)).
Qed.

Lemma do_call_emits c a ko m s : Emits s (fst (do_call c a ko m s)) (snd (do_call c a ko m s)).
Proof.
  unfold do_call. destruct (lookup (ret s) _) as [f|].
  - destruct (lookup (fdone s) f) as [[o t]|]; now apply emits_nil.
  - match goal with |- Emits _ (fst (take c ?it ?s1)) _ => apply (take_emits c it s1) end.
Qed.

Lemma do_calls_emits c l : forall s, Emits s (fst (do_calls c l s)) (snd (do_calls c l s)).
Proof.
  induction l as [|[a ko] r IH]; intros s; simpl.
  - now apply emits_nil.
  - pose proof (do_call_emits c a ko 0 s) as E1. destruct (do_call c a ko 0 s) as [s1 o1].
    specialize (IH s1). destruct (do_calls c r s1) as [s2 o2]. simpl in *.
    eapply emits_trans; eauto.
Qed.

Lemma wake_from_no_start fd t cs : forall i, filter is_start (snd (wake_from fd t i cs)) = [].
Proof.
  induction cs as [|cl r IH]; intros i; simpl; auto.
  specialize (IH (S i)). destruct (wake_from fd t (S i) r) as [r' os]. simpl in *.
  destruct (cl_st cl); auto. destruct (lookup fd (cl_fid cl)) as [[o ?]|]; auto.
Qed.

Lemma wake_emits s : Emits s (fst (wake s)) (snd (wake s)).
Proof.
  unfold wake. pose proof (wake_from_no_start (fdone s) (now s) (callers s) 0) as H.
  destruct (wake_from _ _ _ _) as [cs os]. simpl in *. now apply emits_nil.
Qed.

Lemma call_emits_ok c a ko m s : True -> True /\ Emits s (fst (do_call c a ko m s)) (snd (do_call c a ko m s)).
Proof. intros _. split; auto. apply do_call_emits. Qed.

Lemma emits_refl s : True -> Emits s s [].
Proof. intros _. now apply emits_nil. Qed.

Lemma do_chain_emits c a ko m s : Emits s (fst (do_chain c a ko m s)) (snd (do_chain c a ko m s)).
Proof.
  apply (lift_chain c (fun _ => True) Emits emits_refl emits_trans (call_emits_ok c)). exact I.
Qed.

Lemma wake_all_emits c s : Emits s (fst (wake_all c s)) (snd (wake_all c s)).
Proof.
  apply (lift_wake_all c (fun _ => True) Emits emits_refl emits_trans (call_emits_ok c)); auto.
  intros s0 _. split; auto. apply wake_emits.
Qed.

Lemma end_batch_emits c B o s : Emits s (fst (end_batch c B o s)) (snd (end_batch c B o s)).
Proof.
  unfold end_batch. set (s0 := set_running s _).
  pose proof (release_slot_emits s0) as E1. destruct (release_slot s0) as [s1 o1]. simpl in *.
  pose proof (fanout_same c (b_futs B) o s1) as S2. destruct (fanout c (b_futs B) o s1) as [s2 died]. simpl in *.
  pose proof (wake_all_emits c s2) as E3. destruct (wake_all c s2) as [s3 o3]. simpl in *.
  destruct E1 as (n1 & A1 & B1). destruct E3 as (n3 & A3 & B3).
  destruct S2 as (_ & _ & _ & _ & _ & _ & S2 & _).
  exists (n1 ++ n3). split.
  - rewrite A3, S2, A1. now rewrite app_assoc.
  - rewrite !filter_app, map_app, B1, B3. destruct died; simpl; now rewrite app_nil_r.
Qed.

Lemma fire_at_emits t s : Emits s (fst (fire_at t s)) (snd (fire_at t s)).
Proof.
  unfold fire_at. set (s2 := set_rtimers _ _).
  destruct (coll s2) as [[its dl]|]; [|now apply emits_nil].
  destruct (dl <=? t)%N; [|now apply emits_nil].
  match goal with |- Emits _ (fst (dispatch its ?s3)) _ => apply (dispatch_emits its s3) end.
Qed.

Lemma advance_emits fuel target : forall s, Emits s (fst (advance fuel target s)) (snd (advance fuel target s)).
Proof.
  induction fuel as [|n IH]; intros s; simpl.
  - now apply emits_nil.
  - destruct (next_deadline s) as [t|]; [|now apply emits_nil].
    destruct (t <=? target)%N; [|now apply emits_nil].
    pose proof (fire_at_emits t s) as E1. destruct (fire_at t s) as [s1 o1].
    specialize (IH s1). destruct (advance n target s1) as [s2 o2]. simpl in *.
    eapply emits_trans; eauto.
Qed.

Lemma step_emits c s e : Emits s (fst (step c s e)) (snd (step c s e)).
Proof.
  destruct e as [a ko|a ko m|l|dt|b k r|b e|b|cid|n]; simpl.
  - apply do_call_emits.
  - apply do_chain_emits.
  - apply do_calls_emits.
  - apply advance_emits.
  - destruct (find_batch s b) as [B|]; [|now apply emits_nil].
    destruct (lookup (b_futs B) k) as [f|].
    + unfold set_fut. match goal with |- context [is_done ?s0 f] => destruct (is_done s0 f) end.
      * match goal with |- Emits _ (fst (end_batch c ?B' ?o ?s0)) _ =>
          pose proof (end_batch_emits c B' o s0) as (n1 & A1 & B1) end.
        exists n1. split; auto.
      * match goal with |- Emits _ (fst (wake_all c ?s1)) _ => pose proof (wake_all_emits c s1) as (n1 & A1 & B1) end.
        exists n1. split; auto. rewrite A1. unfold resolve. destruct (0 <? c_rt c)%N; reflexivity.
    + match goal with |- Emits _ (fst (end_batch c ?B' ?o ?s0)) _ =>
        pose proof (end_batch_emits c B' o s0) as (n1 & A1 & B1) end.
      exists n1. split; auto.
  - destruct (find_batch s b) as [B|]; [|now apply emits_nil].
    match goal with |- Emits _ (fst (end_batch c ?B' ?o ?s0)) _ =>
      pose proof (end_batch_emits c B' o s0) as (n1 & A1 & B1) end.
    exists n1. split; auto.
  - destruct (find_batch s b) as [B|]; [|now apply emits_nil].
    match goal with |- Emits _ (fst (end_batch c ?B' ?o ?s0)) _ =>
      pose proof (end_batch_emits c B' o s0) as (n1 & A1 & B1) end.
    exists n1. split; auto.
  - unfold cancel_caller. destruct (nth_error _ _) as [cl|]; [|now apply emits_nil].
    destruct (cl_st cl); now apply emits_nil.
  - now apply emits_nil.
Qed.

Lemma run_from_emits c evs : forall s,
  Emits s (snd (run_from c s evs)) (concat (fst (run_from c s evs))).
Proof.
  induction evs as [|e r IH]; intros s; simpl.
  - now apply emits_nil.
  - pose proof (step_emits c s e) as E1. destruct (step c s e) as [s1 o1].
    specialize (IH s1). destruct (run_from c s1 r) as [tr s2]. simpl in *.
    eapply emits_trans; eauto.
Qed.

(* every BatchStart of the trace is an entry of the final g_started, and back *)
Lemma trace_starts c evs :
  filter is_start (concat (fst (run c evs))) = map start_obs (g_started (snd (run c evs))).
Proof.
  unfold run. destruct (run_from_emits c evs (init c)) as (new & A & B).
  rewrite A, B. reflexivity.
Qed.

Lemma in_trace_start c evs b items t :
  In (BatchStart b items t) (concat (fst (run c evs))) ->
  exists its, In (b, its, t) (g_started (snd (run c evs))) /\ items = map ka its.
Proof.
  intros H.
  assert (H' : In (BatchStart b items t) (filter is_start (concat (fst (run c evs))))).
  { apply filter_In. split; auto. }
  rewrite trace_starts in H'. apply in_map_iff in H' as ([[b' its] t'] & E & Hin).
  simpl in E. injection E as <- <- <-. eauto.
Qed.

(* ---- items are stamped with the limit in force when they arrive ---------------- *)

(* g_items only grows, by items stamped with the current max_batch_size; maxb
   changes only by SetMax *)
Definition Grows (s s' : state) : Prop :=
  maxb s' = maxb s /\ exists new, g_items s' = g_items s ++ new /\ forall it, In it new -> it_max it = maxb s.

Lemma grows_same s s' : g_items s' = g_items s -> maxb s' = maxb s -> Grows s s'.
Proof. intros H1 H2. split; auto. exists []. rewrite app_nil_r. split; auto. intros ? []. Qed.

Lemma grows_trans s1 s2 s3 : Grows s1 s2 -> Grows s2 s3 -> Grows s1 s3.
Proof.
  intros (M1 & n1 & A1 & B1) (M2 & n2 & A2 & B2). split; [congruence|].
  exists (n1 ++ n2). split.
  - rewrite A2, A1. now rewrite app_assoc.
  - intros it H. apply in_app_or in H as [H|H]; auto. rewrite <- M1. auto.
Qed.

Lemma do_call_grows c a ko m s : LInv c s -> Grows s (fst (do_call c a ko m s)).
Proof.
  intros I. unfold do_call. destruct (lookup (ret s) _) as [f|].
  - destruct (lookup (fdone s) f) as [[o t]|]; now apply grows_same.
  - match goal with |- Grows _ (fst (take c ?it ?s1)) =>
      assert (I1 : LInv c s1) by (destruct I; constructor; auto);
      destruct (take_ghost c it s1 I1) as (_ & G2 & G3 & _) end.
    split; [rewrite G3; reflexivity|]. eexists [_]. rewrite G2. simpl. split; [reflexivity|].
    intros it [<-|[]]. reflexivity.
Qed.

Lemma do_calls_grows c l : forall s, LInv c s -> Fifo s -> Grows s (fst (do_calls c l s)).
Proof.
  induction l as [|[a ko] r IH]; intros s I F; simpl.
  - now apply grows_same.
  - pose proof (do_call_grows c a ko 0 s I) as G1.
    pose proof (do_call_L c a ko 0 s I) as I1. pose proof (do_call_fifo c a ko 0 s I F) as F1.
    destruct (do_call c a ko 0 s) as [s1 o1]. simpl in *.
    specialize (IH s1 I1 F1). destruct (do_calls c r s1) as [s2 o2]. simpl in *.
    eapply grows_trans; eauto.
Qed.

Lemma grows_refl' c s : LF c s -> (fun s s' (_ : list obs) => Grows s s') s s [].
Proof. intros _. now apply grows_same. Qed.

Lemma call_LFG c a ko m s :
  LF c s -> LF c (fst (do_call c a ko m s)) /\ Grows s (fst (do_call c a ko m s)).
Proof. intros [I F]. split; [apply call_LF; split; auto | now apply do_call_grows]. Qed.

Lemma wake_LFG c s : LF c s -> LF c (fst (wake s)) /\ Grows s (fst (wake s)).
Proof.
  intros H. split; [now apply wake_LF|].
  pose proof (wake_same s) as (_ & _ & _ & _ & M3 & _ & _ & T3 & _). now apply grows_same.
Qed.

Lemma do_chain_grows c a ko m s : LInv c s -> Fifo s -> Grows s (fst (do_chain c a ko m s)).
Proof.
  intros I F.
  apply (lift_chain c (LF c) (fun s s' _ => Grows s s') (grows_refl' c)
           (fun s1 s2 s3 _ _ => grows_trans s1 s2 s3) (call_LFG c)). split; auto.
Qed.

Lemma wake_all_grows c s : LInv c s -> Fifo s -> Grows s (fst (wake_all c s)).
Proof.
  intros I F.
  apply (lift_wake_all c (LF c) (fun s s' _ => Grows s s') (grows_refl' c)
           (fun s1 s2 s3 _ _ => grows_trans s1 s2 s3) (call_LFG c) (wake_LFG c)). split; auto.
Qed.

Lemma end_batch_grows c B o s :
  LInv c s -> Fifo s -> In B (running s) -> Grows s (fst (end_batch c B o s)).
Proof.
  intros I F HB. unfold end_batch.
  set (s0 := set_running s _).
  assert (P0 : LPre c s0).
  { destruct I. constructor; simpl; auto.
    - pose proof (filter_id_length (running s) B L_ids0 HB). lia.
    - now apply filter_id_nodup.
    - intros B' H. apply filter_In in H as [H _]. auto.
    - intros B' H. apply filter_In in H as [H _]. auto. }
  assert (W0 : waiting s0 <> [] -> free s0 = 0) by (simpl; apply (L_wait _ _ I)).
  pose proof (release_slot_L c s0 P0 W0) as I1.
  destruct (release_slot_ghost s0) as (G1 & G2 & G3 & G4 & _).
  assert (F1 : Fifo (fst (release_slot s0))).
  { unfold Fifo, coll_items. rewrite G1, G2, G3. exact F. }
  destruct (release_slot s0) as [s1 o1]. simpl in *.
  pose proof (fanout_same c (b_futs B) o s1) as S2.
  destruct (fanout c (b_futs B) o s1) as [s2 died]. simpl in *.
  assert (I2 : LInv c s2) by (eapply same_L_inv; [exact S2|exact I1]).
  assert (F2 : Fifo s2) by (eapply same_L_fifo; [exact S2|exact F1]).
  pose proof (wake_all_grows c s2 I2 F2) as G.
  destruct (wake_all c s2) as [s3 o3]. simpl in *.
  destruct S2 as (_ & _ & _ & _ & M2 & _ & _ & T2 & _).
  eapply grows_trans; [|exact G]. apply grows_same; congruence.
Qed.

Lemma fire_at_grows c t s : LInv c s -> Grows s (fst (fire_at t s)).
Proof.
  intros I. unfold fire_at. set (s2 := set_rtimers _ _).
  destruct (coll s2) as [[its dl]|]; [|now apply grows_same].
  destruct (dl <=? t)%N; [|now apply grows_same].
  match goal with |- Grows _ (fst (dispatch its ?s3)) =>
    assert (I3 : LInv c s3) by (destruct I; constructor; simpl; auto; discriminate);
    destruct (dispatch_ghost c its s3 I3) as (_ & _ & G3 & G4 & _) end.
  apply grows_same; auto.
Qed.

Lemma advance_grows c fuel target : forall s, LInv c s -> Fifo s -> Grows s (fst (advance fuel target s)).
Proof.
  induction fuel as [|n IH]; intros s I F; simpl.
  - now apply grows_same.
  - destruct (next_deadline s) as [t|]; [|now apply grows_same].
    destruct (t <=? target)%N; [|now apply grows_same].
    pose proof (fire_at_grows c t s I) as G1. destruct (fire_at_LF c t s I F) as [I1 F1].
    destruct (fire_at t s) as [s1 o1]. simpl in *.
    specialize (IH s1 I1 F1). destruct (advance n target s1) as [s2 o2]. simpl in *.
    eapply grows_trans; eauto.
Qed.

Lemma step_grows c s e :
  LInv c s -> Fifo s -> match e with SetMax n => g_items (fst (step c s e)) = g_items s /\ maxb (fst (step c s e)) = n
                        | _ => Grows s (fst (step c s e)) end.
Proof.
  intros I F. destruct e as [a ko|a ko m|l|dt|b k r|b e|b|cid|n]; simpl.
  - now apply (do_call_grows c).
  - now apply (do_chain_grows c).
  - now apply (do_calls_grows c).
  - now apply (advance_grows c).
  - destruct (find_batch s b) as [B|] eqn:FB; [|now apply grows_same].
    apply find_batch_some in FB as [HB Hid].
    assert (I0 : LInv c (log_bev s b (EvYield k r))) by (destruct I; constructor; auto).
    destruct (lookup (b_futs B) k) as [f|].
    + set (s0 := set_batch_futs _ b _).
      assert (I1 : LInv c s0) by (apply set_batch_futs_L; exact I0).
      assert (F1 : Fifo s0) by exact F.
      assert (G0 : Grows s s0) by now apply grows_same.
      unfold set_fut. destruct (is_done s0 f).
      * eapply grows_trans; [exact G0|]. apply end_batch_grows; auto. subst b. apply in_set_batch_futs; auto.
      * pose proof (resolve_same c k f (of_res r) s0) as S2.
        eapply grows_trans; [exact G0|]. eapply grows_trans.
        -- apply (grows_same s0 (resolve c k f (of_res r) s0)); unfold resolve; destruct (0 <? c_rt c)%N; reflexivity.
        -- apply wake_all_grows; [eapply same_L_inv | eapply same_L_fifo]; eauto.
    + eapply grows_trans; [|apply end_batch_grows; eauto]. now apply grows_same.
  - destruct (find_batch s b) as [B|] eqn:FB; [|now apply grows_same].
    apply find_batch_some in FB as [HB Hid].
    eapply grows_trans; [|apply end_batch_grows; eauto]; [now apply grows_same|].
    destruct I; constructor; auto.
  - destruct (find_batch s b) as [B|] eqn:FB; [|now apply grows_same].
    apply find_batch_some in FB as [HB Hid].
    eapply grows_trans; [|apply end_batch_grows; eauto]; [now apply grows_same|].
    destruct I; constructor; auto.
  - pose proof (cancel_same s cid) as (_ & _ & _ & _ & M & _ & _ & T & _). now apply grows_same.
  - auto.
Qed.

Definition has_setmax (e : event) : bool := match e with SetMax _ => true | _ => false end.

(* without SetMax every item is stamped with the configured max_batch_size *)
Definition ConstLim (c : cfg) (s : state) : Prop :=
  maxb s = c_maxb c /\ forall it, In it (g_items s) -> it_max it = c_maxb c.

Lemma run_from_const c evs : forall s,
  Forall ev_ok evs -> forallb (fun e => negb (has_setmax e)) evs = true ->
  LInv c s -> Fifo s -> ConstLim c s -> ConstLim c (snd (run_from c s evs)).
Proof.
  induction evs as [|e r IH]; intros s He Hn I F C; simpl; auto.
  inversion He; subst. simpl in Hn. apply andb_prop in Hn as [Hn1 Hn2].
  destruct (step_LF c s e H1 I F) as [I1 F1].
  pose proof (step_grows c s e I F) as G.
  destruct (step c s e) as [s1 o]. simpl in *.
  assert (C1 : ConstLim c s1).
  { destruct e; simpl in Hn1; try discriminate.
    all: destruct G as (M & new & A & B); destruct C as [C1 C2]; split; [congruence|];
      intros it Hit; rewrite A in Hit; apply in_app_or in Hit as [Hit|Hit]; auto;
      rewrite (B _ Hit); auto. }
  specialize (IH s1 H2 Hn2 I1 F1 C1). destruct (run_from c s1 r) as [tr s2]. exact IH.
Qed.

Lemma started_in_items s b its t it :
  Fifo s -> In (b, its, t) (g_started s) -> In it its -> In it (g_items s).
Proof.
  intros F H Hit. unfold Fifo, handed, started_items in F. rewrite <- F.
  apply in_or_app. left. apply in_or_app. left. apply in_flat_map. exists (b, its, t). auto.
Qed.

Lemma lim_of_le (its : list item) n : (forall it, In it its -> it_max it <= n) -> lim_of its <= n.
Proof.
  intros H. unfold lim_of. apply list_max_le. apply Forall_forall. intros x Hx.
  apply in_map_iff in Hx as (it & <- & Hit). auto.
Qed.

(* ---- the C10 statements --------------------------------------------------------- *)

Definition items_of_start (o : obs) : list (nat * nat) :=
  match o with BatchStart _ items _ => items | _ => [] end.

Lemma size_bound_lemma c evs :
  cfg_ok c -> Forall ev_ok evs ->
  forall b items t, In (BatchStart b items t) (concat (fst (run c evs))) ->
  exists its, In (b, its, t) (g_started (snd (run c evs))) /\ items = map ka its /\
              1 <= length items /\ length items <= lim_of its.
Proof.
  intros Hc He b items t H.
  destruct (in_trace_start c evs b items t H) as (its & Hin & ->).
  destruct (init_LF c Hc) as [I0 F0].
  destruct (run_from_LF c evs (init c) He I0 F0) as [I F]. fold (run c evs) in I, F.
  destruct (L_ssz _ _ I _ _ _ Hin) as [Hne Hle].
  exists its. rewrite map_length. repeat split; auto. destruct its; simpl; [congruence|lia].
Qed.

Lemma size_bound_const_lemma c evs :
  cfg_ok c -> forallb (fun e => negb (has_setmax e)) evs = true ->
  forall b items t, In (BatchStart b items t) (concat (fst (run c evs))) ->
  1 <= length items <= c_maxb c.
Proof.
  intros Hc Hn b items t H.
  assert (He : Forall ev_ok evs).
  { apply Forall_forall. intros e Hin. rewrite forallb_forall in Hn. specialize (Hn e Hin).
    destruct e; simpl in *; auto. discriminate. }
  destruct (size_bound_lemma c evs Hc He b items t H) as (its & Hin & -> & H1 & H2).
  split; auto.
  destruct (init_LF c Hc) as [I0 F0].
  destruct (run_from_LF c evs (init c) He I0 F0) as [I F].
  assert (C0 : ConstLim c (init c)) by (split; [reflexivity | intros ? []]).
  pose proof (run_from_const c evs (init c) He Hn I0 F0 C0) as [_ C]. fold (run c evs) in *.
  etransitivity; [exact H2|]. apply lim_of_le. intros it Hit.
  rewrite (C it); auto. eapply started_in_items; eauto.
Qed.

Lemma conc_bound_lemma c evs :
  cfg_ok c -> Forall ev_ok evs ->
  let s := snd (run c evs) in
  length (running s) <= c_conc c /\ free s + length (running s) = c_conc c /\
  (waiting s <> [] -> length (running s) = c_conc c).
Proof.
  intros Hc He. destruct (init_LF c Hc) as [I0 F0].
  destruct (run_from_LF c evs (init c) He I0 F0) as [I F]. fold (run c evs) in I, F.
  simpl. pose proof (L_slots _ _ I). repeat split; try lia.
  intros W. apply (L_wait _ _ I) in W. lia.
Qed.

Lemma concat_map_flat_map {A B} (f : A -> list B) l : concat (map f l) = flat_map f l.
Proof. induction l; simpl; auto. now rewrite IHl. Qed.

Lemma fifo_lemma c evs :
  cfg_ok c -> Forall ev_ok evs ->
  let tr := fst (run c evs) in let s := snd (run c evs) in
  flat_map items_of_start (filter is_start (concat tr))
    ++ map ka (concat (waiting s)) ++ map ka (coll_items s)
  = map ka (g_items s).
Proof.
  intros Hc He. simpl. destruct (init_LF c Hc) as [I0 F0].
  destruct (run_from_LF c evs (init c) He I0 F0) as [I F]. fold (run c evs) in I, F.
  rewrite trace_starts. unfold Fifo, handed, started_items in F. rewrite <- F.
  rewrite !map_app, <- app_assoc. f_equal. clear F I.
  induction (g_started (snd (run c evs))) as [|[[b its] t] r IH]; simpl; auto.
  now rewrite map_app, IH.
Qed.

(* a call that creates an item always joins the open batch while there is one;
   the batch stays open (deadline re-armed) below the limit and is handed over,
   with the new item, as soon as it reaches it *)
Lemma share_until_full_lemma c s its dl a ko :
  LInv c s -> coll s = Some (its, dl) -> lookup (ret s) (key_of a ko) = None ->
  let s' := fst (step c s (Call a ko)) in
  let it := mkitem (key_of a ko) a (nfut s) (now s) (maxb s) in
  (length its + 1 < maxb s -> coll s' = Some (its ++ [it], (now s + c_bt c)%N) /\ handed s' = handed s) /\
  (maxb s <= length its + 1 -> coll s' = None /\ handed s' = handed s ++ (its ++ [it])).
Proof.
  intros I C R. simpl. unfold do_call. rewrite R. unfold take. simpl. rewrite C.
  rewrite app_length. simpl.
  destruct (length its + 1 <? maxb s) eqn:E; simpl.
  - split; [intros _|intros; lia]. split; reflexivity.
  - split; [intros; lia|intros _].
    match goal with |- coll (fst (dispatch ?x ?s3)) = _ /\ _ =>
      assert (I3 : LInv c s3) by (destruct I; constructor; simpl; auto; discriminate);
      destruct (dispatch_ghost c x s3 I3) as (G1 & G2 & _) end.
    rewrite G1, G2. split; reflexivity.
Qed.
