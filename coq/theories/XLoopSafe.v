(* XLoopSafe.v — the safety half of C17 as statements over ALL accepted logs,
   derived from the invariant of XLoopInv.v. *)
From Coq Require Import List Arith NArith Bool Lia.
Import ListNotations.
Require Import Aiuti.XLoop Aiuti.XLoopInv.

Definition pool_thread (t : tid) : Prop := match t with TJM | TJ _ => True | _ => False end.

(* invert a step whose event is (partly) known *)
Ltac inv_step_ev H :=
  match type of H with
  | step ?c ?s ?ev = Some ?s' =>
      let e := fresh "e" in let He := fresh "He" in
      remember ev as e eqn:He; inv_step H; try discriminate He;
      injection He as He; try discriminate He; subst
  end.

(* every event of an accepted log was taken from a reachable state *)
Lemma event_step : forall c evs s e, run c evs = Some s -> In e evs ->
  exists pre post s0 s1, evs = pre ++ e :: post /\ run c pre = Some s0 /\ step c s0 e = Some s1.
Proof.
  intros c evs s e H Hin. apply in_split in Hin as (pre & post & ->).
  apply run_split in H as (s0 & s1 & H0 & H1 & _). exists pre, post, s0, s1. auto.
Qed.

Lemma split_step_at : forall c pre e post s, run c (pre ++ e :: post) = Some s ->
  exists s0 s1, run c pre = Some s0 /\ Inv c s0 /\ step c s0 e = Some s1.
Proof.
  intros c pre e post s H. apply run_split in H as (s0 & s1 & H0 & H1 & _).
  exists s0, s1. split; [exact H0|]. split; [|exact H1]. apply Inv_reach. now exists pre.
Qed.

(* ---- one runner ------------------------------------------------------------------ *)

Lemma inside_le1 : forall c s, Inv c s -> length (inside s) <= 1.
Proof.
  intros c s HI. destruct (inside s) as [|t r] eqn:E; simpl; [lia|].
  pose proof (i_1 _ _ HI t) as I1. rewrite E in I1. specialize (I1 (or_introl eq_refl)).
  pose proof (i_2 _ _ HI t I1) as I2. rewrite E in I2. injection I2 as ->. simpl. lia.
Qed.

Lemma runner_owns_lock : forall c s t, Inv c s -> In t (inside s) -> pool_thread t ->
  exists l, tbl s = Some l /\ owner s l = Some t.
Proof.
  intros c s t HI Hin Hp. pose proof (i_1 _ _ HI t Hin) as R.
  assert (exists l, jp s t = JRun l \/ jp s t = JBad l) as (l & Hl).
  { destruct t; try contradiction; simpl in R.
    - destruct (jp s TJM); try discriminate; eauto.
    - destruct (jp s (TJ i)); try discriminate; eauto. }
  exists l. split.
  - apply (t_1 _ _ HI t). destruct Hl as [-> | ->]; reflexivity.
  - apply (l_a _ _ HI). destruct Hl as [-> | ->]; reflexivity.
Qed.

Lemma enter_zero : forall c s t k s', Inv c s -> step c s (t, OEnter k) = Some s' -> k = 0 /\ inside s = [].
Proof.
  intros c s t k s' HI H.
  inv_step_ev H; simp2; gen_idle HI; running_contra; auto.
  all: try (match goal with Hi : inside _ = [] |- _ => rewrite Hi; auto end).
Qed.

Lemma one_runner_lemma : forall c evs s, run c evs = Some s ->
  length (inside s) <= 1 /\
  (forall t, In t (inside s) -> pool_thread t -> exists l, tbl s = Some l /\ owner s l = Some t) /\
  (forall t k, In (t, OEnter k) evs -> k = 0) /\
  (forall t, match jp s t with JBad _ | JPost _ true | JRel true => False | _ => True end).
Proof.
  intros c evs s H. assert (HI : Inv c s) by (apply Inv_reach; now exists evs).
  repeat split.
  - eapply inside_le1; eauto.
  - intros t Hin Hp. eapply runner_owns_lock; eauto.
  - intros t k Hin. destruct (event_step _ _ _ _ H Hin) as (pre & post & s0 & s1 & -> & H0 & H1).
    assert (HI0 : Inv c s0) by (apply Inv_reach; now exists pre).
    eapply enter_zero; eauto.
  - intros t. pose proof (n_f _ _ HI t) as N. unfold nofail in N.
    destruct (jp s t); auto; destruct f; auto.
Qed.

(* ---- one lock per loop ------------------------------------------------------------ *)

Definition is_mklock (e : event) : bool := match snd e with OMklock _ => true | _ => false end.
Definition count_mk (evs : list event) : nat := length (filter is_mklock evs).

Lemma count_mk_nlocks : forall c evs s, run c evs = Some s -> count_mk evs = nlocks s.
Proof.
  intros c. apply (run_ind c (fun evs s => count_mk evs = nlocks s)); [reflexivity|].
  intros evs s e s' Hr IH H. unfold count_mk in *. rewrite filter_app, app_length, IH. clear IH Hr.
  inv_step H; simp2; simpl; lia.
Qed.

Lemma lock_id_one : forall c s t o s' l, Inv c s -> step c s (t, o) = Some s' ->
  (o = OMklock l \/ o = OTbl (Some l) \/ (o = OAcq l /\ l <> 0)) -> l = 1.
Proof.
  intros c s t o s' l HI H Ho.
  pose proof (t_1 _ _ HI) as T1. pose proof (t_2 _ _ HI) as T2. pose proof (t_3 _ _ HI) as T3.
  assert (forall u p, jp s u = p -> lockof p = Some l -> l = 1) as A1.
  { intros u p <- Hp. apply T1 in Hp. rewrite Hp in T2. tauto. }
  assert (tbl s = Some l -> l = 1) as A2 by (intros Hp; rewrite Hp in T2; tauto).
  assert (forall u, jp s u = JCmk -> S (nlocks s) = 1) as A3.
  { intros u Hu. apply T3 in Hu. rewrite Hu in T2. lia. }
  destruct Ho as [-> | [-> | [-> Hn]]]; inv_step_ev H; eauto; try congruence.
  all: try (eapply A1; eauto; reflexivity).
Qed.

Lemma lock_unique_lemma : forall c evs s, run c evs = Some s ->
  count_mk evs <= 1 /\
  exists L, forall t l,
    In (t, OMklock l) evs \/ In (t, OTbl (Some l)) evs \/ (In (t, OAcq l) evs /\ l <> 0) -> l = L.
Proof.
  intros c evs s H. assert (HI : Inv c s) by (apply Inv_reach; now exists evs). split.
  - rewrite (count_mk_nlocks _ _ _ H). pose proof (t_2 _ _ HI) as T2. destruct (tbl s); lia.
  - exists 1. intros t l Hl.
    assert (exists o, In (t, o) evs /\ (o = OMklock l \/ o = OTbl (Some l) \/ (o = OAcq l /\ l <> 0))) as (o & Hin & Ho).
    { destruct Hl as [Hl|[Hl|[Hl Hn]]]; eexists; split; eauto. }
    destruct (event_step _ _ _ _ H Hin) as (pre & post & s0 & s1 & -> & H0 & H1).
    eapply (lock_id_one c s0 t o s1 l); eauto. apply Inv_reach. now exists pre.
Qed.

(* ---- results ----------------------------------------------------------------------- *)

Lemma done_step : forall c s t i o s', Inv c s -> step c s (t, ODone i o) = Some s' ->
  t = TC i /\ i < c_n c /\
  match c_mode c with MClosed => o = (KLibRT, 0) | _ => o = expected c i end.
Proof.
  intros c s t i o s' HI H.
  assert (NC : forall k, cp s k = CGot \/ cp s k = COwn -> c_mode c <> MClosed).
  { intros k Hk Em. destruct (c_1 _ _ HI Em) as (_ & _ & C). destruct (C k) as [?|[?|[?|?]]]; destruct Hk; congruence. }
  pose proof (r_1 _ _ HI) as R1. pose proof (r_2 _ _ HI) as R2. pose proof (c_2 _ _ HI) as C2.
  inv_step_ev H; (split; [reflexivity|split; [assumption|]]).
  - (* CClosedP *) rewrite (C2 _ E). reflexivity.
  - (* CGot *)
    assert (o = expected c i) by (pose proof (R2 _ E); congruence).
    pose proof (NC i (or_introl E)). destruct (c_mode c); congruence.
  - (* COwn *)
    assert (o = expected c i).
    { pose proof (R1 i) as Q. destruct (aw s i); try discriminate. congruence. }
    pose proof (NC i (or_intror E)). destruct (c_mode c); congruence.
Qed.

Lemma result_transparent_lemma : forall c evs s, run c evs = Some s ->
  forall t i o, In (t, ODone i o) evs ->
    t = TC i /\ i < c_n c /\
    match c_mode c with MClosed => o = (KLibRT, 0) | _ => o = expected c i end.
Proof.
  intros c evs s H t i o Hin.
  destruct (event_step _ _ _ _ H Hin) as (pre & post & s0 & s1 & -> & H0 & H1).
  eapply done_step; eauto. apply Inv_reach. now exists pre.
Qed.

(* a caller completes at most once *)
Lemma done_once_step : forall c s i o s', step c s (TC i, ODone i o) = Some s' -> completedb s i = false /\ completedb s' i = true.
Proof.
  intros c s i o s' H. simpl in H. destruct (i <? c_n c); [|discriminate].
  unfold step_c, loop_ev, completedb in *.
  destruct (cp s i) eqn:E; try discriminate; split_step H; try discriminate;
    injection H as <-; simp2; rewrite ?upd_same; auto.
Qed.

(* ---- evaluated on the target loop, by its runner ------------------------------------- *)

Lemma loop_ev_runner : forall c s t o s', Inv c s -> step c s (t, o) = Some s' ->
  (exists i b, o = OStart i b \/ o = OFin i b) ->
  inside s = [t] /\ exists i, o = OStart i true \/ o = OFin i true.
Proof.
  intros c s t o s' HI H (i & b & Ho).
  pose proof (i_2 _ _ HI) as I2.
  destruct Ho as [-> | ->]; inv_step_ev H; gen_runs I2; split; eauto.
Qed.

Lemma evaluated_on_target_lemma : forall c pre t o post s,
  run c (pre ++ (t, o) :: post) = Some s ->
  (exists i b, o = OStart i b \/ o = OFin i b) ->
  (exists i, o = OStart i true \/ o = OFin i true) /\
  exists s0, run c pre = Some s0 /\ inside s0 = [t].
Proof.
  intros c pre t o post s H Ho.
  destruct (split_step_at _ _ _ _ _ H) as (s0 & s1 & H0 & HI & H1).
  destruct (loop_ev_runner _ _ _ _ _ HI H1 Ho) as [A B]. split; auto. exists s0. auto.
Qed.
