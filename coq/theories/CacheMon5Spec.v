(* CacheMon5Spec.v — what "ok_C05 nloops tbl tr = true" says about the trace tr ALONE (no model, no run):
   readable consequences of the C05 trace monitor (CacheMon.m5_step / ok_C05). *)
From Coq Require Import List Arith NArith Bool Lia ZifyBool ZifyNat ZifyN.
Import ListNotations.
Require Import Aiuti.Cache Aiuti.CacheLemmas Aiuti.CacheMon.

(* ---- readable notions over traces ---- *)
(* the virtual clock after pre: tick of the last Adv (0 if none) *)
Definition clock (pre : list ev) : N :=
  fold_left (fun a e => match e with Adv t => t | _ => a end) pre 0%N.

(* an invocation made for key k is in progress at the end of pre, on a loop that never stopped *)
Definition in_flight (tbl : list (nat * nat)) (pre : list ev) (k : nat) : Prop :=
  exists p1 i c' t1 p2, pre = p1 ++ IStart i c' t1 :: p2 /\ tbl_key tbl c' = k
    /\ (forall r t2, ~ In (IEnd i r t2) p2)
    /\ (forall w, ~ In (LoopEv (tbl_loop tbl c') w) pre).

(* an invocation made for key k has ended successfully in pre *)
Definition succeeded (tbl : list (nat * nat)) (pre : list ev) (k : nat) : Prop :=
  exists p1 i c' t1 p2 t2 p3, pre = p1 ++ IStart i c' t1 :: p2 ++ IEnd i 0 t2 :: p3 /\ tbl_key tbl c' = k
    /\ (forall r t, ~ In (IEnd i r t) p2) /\ (forall c'' t, ~ In (IStart i c'' t) p2).

(* caller c has started, is unanswered and uncancelled, and its loop (one of the nloops loops) never stopped *)
Definition pending (tbl : list (nat * nat)) (nloops : nat) (pre : list ev) (c : nat) : Prop :=
  (exists t0, In (Get t0 c) pre) /\ (forall k p t, ~ In (Done c k p t) pre) /\ (forall t, ~ In (Cancel c t) pre)
  /\ tbl_loop tbl c < nloops /\ (forall w, ~ In (LoopEv (tbl_loop tbl c) w) pre).

(* t1 is the tick at which c made its first step *)
Definition first_tick (pre : list ev) (c : nat) (t1 : N) : Prop :=
  exists p0 t0 p1, pre = p0 ++ Get t0 c :: p1 /\ (forall t, ~ In (Get t c) p0) /\ t1 = clock p0.

(* a loop that hosted an invocation for key k stopped running (run_until_complete returned: LoopEv l 0,
   or its shutdown run ended: LoopEv l 2), for the last time at tick d *)
Definition host_died (tbl : list (nat * nat)) (pre : list ev) (k : nat) (d : N) : Prop :=
  exists i c' t' q1 w q2, In (IStart i c' t') pre /\ tbl_key tbl c' = k
    /\ pre = q1 ++ LoopEv (tbl_loop tbl c') w :: q2 /\ (w = 0 \/ w = 2) /\ d = clock q1
    /\ (forall w', In (LoopEv (tbl_loop tbl c') w') q2 -> w' <> 0 /\ w' <> 2).

(* ---- the monitor step, field by field (while the run has not ended) ---- *)
Section Fields.
Variables (tbl : list (nat * nat)) (m : m5) (e : ev).
Hypothesis Hend : ended5 m = false.

Ltac fld := unfold m5_step; rewrite Hend; destruct e; try reflexivity;
  [ unfold m5_start; destruct (started5 m _); reflexivity
  | match goal with w : nat |- _ => destruct w as [|[|[|w]]]; reflexivity end ].

Lemma s_now5 : now5 (m5_step tbl m e) = match e with Adv t => t | _ => now5 m end.
Proof. fld. Qed.
Lemma s_lst5 : lst5 (m5_step tbl m e) =
  match e with
  | LoopEv t 0 => lset LClosed (lst5 m) t LStop
  | LoopEv t 1 => lset LClosed (lst5 m) t LShut
  | LoopEv t 2 => lset LClosed (lst5 m) t LStop
  | LoopEv t _ => lset LClosed (lst5 m) t LClosed
  | _ => lst5 m
  end.
Proof. fld. Qed.
Lemma s_stop5 : stop5 (m5_step tbl m e) =
  match e with
  | LoopEv t 0 | LoopEv t 2 => (t, now5 m) :: stop5 m
  | _ => stop5 m
  end.
Proof. fld. Qed.
Lemma s_st5 : st5 (m5_step tbl m e) =
  match e with
  | Get _ c => if started5 m c then st5 m else (c, now5 m) :: st5 m
  | _ => st5 m
  end.
Proof. fld. Qed.
Lemma s_fin5 : fin5 (m5_step tbl m e) = match e with Done c _ _ _ => c :: fin5 m | _ => fin5 m end.
Proof. fld. Qed.
Lemma s_canc5 : canc5 (m5_step tbl m e) = match e with Cancel c _ => c :: canc5 m | _ => canc5 m end.
Proof. fld. Qed.
Lemma s_live5 : live5 (m5_step tbl m e) =
  match e with
  | IStart i c _ => (i, (tbl_key tbl c, tbl_loop tbl c)) :: live5 m
  | IEnd i _ _ => filter (fun x => negb (fst x =? i)) (live5 m)
  | _ => live5 m
  end.
Proof. fld. Qed.
Lemma s_host5 : host5 (m5_step tbl m e) =
  match e with
  | IStart _ c _ => (tbl_key tbl c, tbl_loop tbl c) :: host5 m
  | _ => host5 m
  end.
Proof. fld. Qed.
Lemma s_succ5 : succ5 (m5_step tbl m e) =
  match e with
  | IEnd i r _ =>
      match r, (match assoc2 (live5 m) i with Some (k, _) => Some k | None => None end) with
      | 0, Some k => k :: succ5 m
      | _, _ => succ5 m
      end
  | _ => succ5 m
  end.
Proof. fld. Qed.
Lemma s_ended5 : ended5 (m5_step tbl m e) = match e with End _ => true | _ => false end.
Proof. unfold m5_step; rewrite Hend; destruct e; try (simpl; rewrite ?Hend; reflexivity).
  - unfold m5_start; destruct (started5 m _); simpl; rewrite ?Hend; reflexivity.
  - destruct w as [|[|[|w]]]; simpl; rewrite ?Hend; reflexivity.
Qed.
Lemma s_ok5 : ok5 (m5_step tbl m e) =
  match e with
  | LoopEv t 2 =>
      ok5 m && forallb (fun cs => negb (tbl_loop tbl (fst cs) =? t) || mem (fst cs) (fin5 m)) (st5 m)
  | Adv tick => ok5 m && forallb (accounted tbl m tick) (st5 m)
  | End r => ok5 m && (r =? 0)
  | Bad _ => false
  | _ => ok5 m
  end.
Proof. fld. Qed.
End Fields.

(* ---- stickiness ---- *)
Lemma ended_sticky tbl m e : ended5 m = true -> ended5 (m5_step tbl m e) = true.
Proof. intros H. unfold m5_step. rewrite H. exact H. Qed.

Lemma ok_back1 tbl m e : ok5 (m5_step tbl m e) = true -> ok5 m = true /\ ended5 m = false.
Proof.
  destruct (ended5 m) eqn:He.
  - unfold m5_step. rewrite He. simpl. discriminate.
  - rewrite s_ok5 by exact He. intros H. split; [|reflexivity].
    destruct e; auto; try (apply andb_prop in H; tauto); try discriminate.
    destruct w as [|[|[|w]]]; auto. apply andb_prop in H; tauto.
Qed.

Lemma ok_back tbl l : forall m, ok5 (fold_left (m5_step tbl) l m) = true -> ok5 m = true.
Proof.
  induction l as [|e r IH]; intros m H; simpl in H; auto.
  apply IH in H. apply ok_back1 in H. tauto.
Qed.

Lemma ended_fold tbl l : forall m, ended5 m = true -> ended5 (fold_left (m5_step tbl) l m) = true.
Proof. induction l as [|e r IH]; intros m H; simpl; auto. apply IH. apply ended_sticky. exact H. Qed.

Section Spec.
Variables (tbl : list (nat * nat)) (n : nat).
Definition M (pre : list ev) : m5 := fold_left (m5_step tbl) pre (m5_init n).

Lemma M_snoc pre e : M (pre ++ [e]) = m5_step tbl (M pre) e.
Proof. unfold M. rewrite fold_left_app. reflexivity. Qed.

Lemma M_app pre post : M (pre ++ post) = fold_left (m5_step tbl) post (M pre).
Proof. unfold M. apply fold_left_app. Qed.

Lemma live_prefix pre post : ended5 (M (pre ++ post)) = false -> ended5 (M pre) = false.
Proof.
  intros H. destruct (ended5 (M pre)) eqn:He; auto. rewrite M_app, ended_fold in H by exact He. discriminate.
Qed.

(* what ok means for a prefix and the event after it *)
Lemma prefix_ok tr pre e post : ok5 (M tr) = true -> tr = pre ++ e :: post ->
  ok5 (M pre) = true /\ ended5 (M pre) = false /\ ok5 (m5_step tbl (M pre) e) = true.
Proof.
  intros H ->. replace (pre ++ e :: post) with ((pre ++ [e]) ++ post) in H by (rewrite <- app_assoc; reflexivity).
  rewrite M_app in H. apply ok_back in H. rewrite M_snoc in H. pose proof (ok_back1 _ _ _ H). tauto.
Qed.

Lemma M_ind (P : list ev -> Prop) :
  P [] ->
  (forall pre e, ended5 (M pre) = false -> ended5 (M (pre ++ [e])) = false -> P pre -> P (pre ++ [e])) ->
  forall pre, ended5 (M pre) = false -> P pre.
Proof.
  intros H0 HS pre. induction pre as [|e pre IH] using rev_ind; intros He; auto.
  pose proof (live_prefix _ _ He) as Hp. apply HS; auto.
Qed.

Lemma clock_snoc pre e : clock (pre ++ [e]) = match e with Adv t => t | _ => clock pre end.
Proof. unfold clock. rewrite fold_left_app. reflexivity. Qed.

Lemma F_now pre : ended5 (M pre) = false -> now5 (M pre) = clock pre.
Proof.
  revert pre. apply M_ind; [reflexivity|]. intros pre e He He' IH.
  rewrite M_snoc, s_now5, clock_snoc by exact He. rewrite IH. reflexivity.
Qed.

Lemma mem_cons x y l : mem x (y :: l) = (x =? y) || mem x l.
Proof. reflexivity. Qed.

Lemma in_snoc {A} (x : A) l y : In x (l ++ [y]) <-> In x l \/ x = y.
Proof. rewrite in_app_iff. simpl. intuition. Qed.

Lemma F_fin pre : ended5 (M pre) = false ->
  forall c, mem c (fin5 (M pre)) = true -> exists k p t, In (Done c k p t) pre.
Proof.
  revert pre. apply (M_ind (fun pre => forall c, mem c (fin5 (M pre)) = true -> exists k p t, In (Done c k p t) pre));
    [intros c H; discriminate|]. intros pre e He He' IH c.
  rewrite M_snoc, s_fin5 by exact He.
  assert (Old : mem c (fin5 (M pre)) = true -> exists k p t, In (Done c k p t) (pre ++ [e])).
  { intros H. destruct (IH c H) as (k & p & t & Hi). exists k, p, t. apply in_snoc. auto. }
  destruct e; auto. rewrite mem_cons. intros H. apply orb_prop in H as [H|H]; auto.
  apply Nat.eqb_eq in H. subst. eexists _, _, _. apply in_snoc. right. reflexivity.
Qed.

Lemma F_canc pre : ended5 (M pre) = false ->
  forall c, mem c (canc5 (M pre)) = true -> exists t, In (Cancel c t) pre.
Proof.
  revert pre. apply (M_ind (fun pre => forall c, mem c (canc5 (M pre)) = true -> exists t, In (Cancel c t) pre));
    [intros c H; discriminate|]. intros pre e He He' IH c.
  rewrite M_snoc, s_canc5 by exact He.
  assert (Old : mem c (canc5 (M pre)) = true -> exists t, In (Cancel c t) (pre ++ [e])).
  { intros H. destruct (IH c H) as (t & Hi). exists t. apply in_snoc. auto. }
  destruct e; auto. rewrite mem_cons. intros H. apply orb_prop in H as [H|H]; auto.
  apply Nat.eqb_eq in H. subst. eexists. apply in_snoc. right. reflexivity.
Qed.

Lemma assocN_In l c t : assocN l c = Some t -> In (c, t) l.
Proof.
  induction l as [|[a b] r IH]; simpl; [discriminate|].
  destruct (Nat.eqb_spec a c); intros H; [injection H as ->; left; congruence|right; auto].
Qed.
Lemma In_assocN l c t : In (c, t) l -> assocN l c <> None.
Proof.
  induction l as [|[a b] r IH]; simpl; [contradiction|].
  intros [H|H]; [injection H as -> ->; rewrite Nat.eqb_refl; discriminate|].
  destruct (a =? c); [discriminate|auto].
Qed.

Lemma F_st1 pre : ended5 (M pre) = false ->
  forall t0 c, In (Get t0 c) pre -> exists t1, In (c, t1) (st5 (M pre)).
Proof.
  revert pre. apply (M_ind (fun pre => forall t0 c, In (Get t0 c) pre -> exists t1, In (c, t1) (st5 (M pre))));
    [intros t0 c H; contradiction|]. intros pre e He He' IH t0 c Hin.
  rewrite M_snoc, s_st5 by exact He. apply in_snoc in Hin.
  assert (Old : In (Get t0 c) pre -> exists t1, In (c, t1) (match e with
            | Get _ c0 => if started5 (M pre) c0 then st5 (M pre) else (c0, now5 (M pre)) :: st5 (M pre)
            | _ => st5 (M pre) end)).
  { intros H. destruct (IH _ _ H) as (t1 & H1). exists t1. destruct e; auto. destruct (started5 _ _); simpl; auto. }
  destruct Hin as [H|H]; auto. subst e. unfold started5.
  destruct (assocN (st5 (M pre)) c) as [t1|] eqn:Ha.
  - exists t1. apply assocN_In. exact Ha.
  - eexists. left. reflexivity.
Qed.

Lemma first_tick_snoc pre e c t1 : first_tick pre c t1 -> first_tick (pre ++ [e]) c t1.
Proof.
  intros (p0 & t0 & p1 & -> & H1 & H2). exists p0, t0, (p1 ++ [e]). rewrite <- app_assoc. auto.
Qed.

Lemma F_st2 pre : ended5 (M pre) = false ->
  forall c t1, In (c, t1) (st5 (M pre)) -> first_tick pre c t1.
Proof.
  revert pre. apply (M_ind (fun pre => forall c t1, In (c, t1) (st5 (M pre)) -> first_tick pre c t1));
    [intros c t1 H; contradiction|]. intros pre e He He' IH c t1.
  rewrite M_snoc, s_st5 by exact He.
  assert (Old : In (c, t1) (st5 (M pre)) -> first_tick (pre ++ [e]) c t1).
  { intros H. apply first_tick_snoc. auto. }
  destruct e; auto. unfold started5. destruct (assocN (st5 (M pre)) c0) eqn:Ha; auto.
  intros [H|H]; auto. injection H as -> <-. exists pre, t, []. repeat split; auto.
  - intros t' Hin. destruct (F_st1 pre He _ _ Hin) as (t2 & H2). apply In_assocN in H2. congruence.
  - apply F_now. exact He.
Qed.

(* loops *)
Lemma lget_repeat l : lget LClosed (repeat LRun n) l = LRun <-> l < n.
Proof.
  revert l. induction n as [|k IH]; intros l; simpl.
  - split; [destruct l; discriminate|lia].
  - destruct l; [split; auto; lia|]. rewrite IH. lia.
Qed.

Lemma F_run pre : ended5 (M pre) = false ->
  forall l, running5 (M pre) l = true <-> l < n /\ forall w, ~ In (LoopEv l w) pre.
Proof.
  intros He l.
  assert (H : lget LClosed (lst5 (M pre)) l = LRun <-> l < n /\ forall w, ~ In (LoopEv l w) pre).
  { revert pre He. apply (M_ind (fun pre => lget LClosed (lst5 (M pre)) l = LRun <-> l < n /\ forall w, ~ In (LoopEv l w) pre)).
    - simpl. rewrite lget_repeat. intuition.
    - intros pre e He He' IH. rewrite M_snoc, s_lst5 by exact He.
      assert (Same : (forall t w, e <> LoopEv t w) ->
                     (lget LClosed (lst5 (M pre)) l = LRun <-> l < n /\ forall w, ~ In (LoopEv l w) (pre ++ [e]))).
      { intros Hne. rewrite IH. split; intros [H1 H2]; split; auto; intros w Hin.
        - apply in_snoc in Hin as [Hin|Hq]; [eapply H2; eauto|eapply Hne; symmetry; eauto].
        - eapply H2. apply in_snoc. eauto. }
      destruct e; try (apply Same; intros; discriminate).
      assert (Hl : forall x, x <> LRun ->
                (lget LClosed (lset LClosed (lst5 (M pre)) t x) l = LRun <->
                 l < n /\ forall w0, ~ In (LoopEv l w0) (pre ++ [LoopEv t w]))).
      { intros x Hx. rewrite lget_lset. destruct (Nat.eqb_spec t l).
        - subst. split; [intros; congruence|]. intros [_ H2]. exfalso. eapply H2. apply in_snoc. eauto.
        - rewrite IH. split; intros [H1 H2]; split; auto; intros w0 Hin.
          + apply in_snoc in Hin as [Hin|Hq]; [eapply H2; eauto|congruence].
          + eapply H2. apply in_snoc. eauto. }
      destruct w as [|[|[|w]]]; apply Hl; discriminate. }
  unfold running5. rewrite <- H. destruct (lget LClosed (lst5 (M pre)) l); split; intros; congruence.
Qed.

(* invocations in progress *)
Definition started_live (pre : list ev) (i k l : nat) : Prop :=
  exists p1 c' t1 p2, pre = p1 ++ IStart i c' t1 :: p2 /\ k = tbl_key tbl c' /\ l = tbl_loop tbl c'
    /\ forall r t2, ~ In (IEnd i r t2) p2.

Lemma started_live_snoc pre e i k l : (forall r t, e <> IEnd i r t) ->
  started_live pre i k l -> started_live (pre ++ [e]) i k l.
Proof.
  intros Hne (p1 & c' & t1 & p2 & -> & Hk & Hl & Hno). exists p1, c', t1, (p2 ++ [e]).
  rewrite <- app_assoc. repeat split; auto. intros r t2 Hin. apply in_snoc in Hin as [Hin|Hq].
  - eapply Hno; eauto. - eapply Hne; symmetry; eauto.
Qed.

Lemma F_live pre : ended5 (M pre) = false ->
  forall i k l, In (i, (k, l)) (live5 (M pre)) -> started_live pre i k l.
Proof.
  revert pre. apply (M_ind (fun pre => forall i k l, In (i, (k, l)) (live5 (M pre)) -> started_live pre i k l));
    [intros i k l H; contradiction|]. intros pre e He He' IH i k l.
  rewrite M_snoc, s_live5 by exact He.
  destruct e; try (intros H; apply started_live_snoc; [intros; discriminate|auto]; fail).
  - intros [H|H].
    + injection H as <- <- <-. exists pre, c, tick, []. repeat split; auto.
    + apply started_live_snoc; [intros; discriminate|auto].
  - intros H. apply filter_In in H as [H Hn]. simpl in Hn. apply negb_true_iff, Nat.eqb_neq in Hn.
    apply started_live_snoc; [intros r0 t Hq; congruence|auto].
Qed.

Lemma assoc2_filter l i j : i <> j -> assoc2 (filter (fun x => negb (fst x =? j)) l) i = assoc2 l i.
Proof.
  intros Hn. induction l as [|[a b] r IH]; simpl; auto.
  destruct (Nat.eqb_spec a j); simpl.
  - destruct (Nat.eqb_spec a i); [congruence|auto].
  - rewrite IH. reflexivity.
Qed.

Lemma F_live2 p1 i c' t1 : forall p2, ended5 (M (p1 ++ IStart i c' t1 :: p2)) = false ->
  (forall r t, ~ In (IEnd i r t) p2) -> (forall c'' t, ~ In (IStart i c'' t) p2) ->
  assoc2 (live5 (M (p1 ++ IStart i c' t1 :: p2))) i = Some (tbl_key tbl c', tbl_loop tbl c').
Proof.
  induction p2 as [|e p2 IH] using rev_ind; intros He H1 H2.
  - pose proof (live_prefix _ _ He) as Hp. rewrite M_snoc. rewrite s_live5 by exact Hp.
    simpl. rewrite Nat.eqb_refl. reflexivity.
  - replace (p1 ++ IStart i c' t1 :: p2 ++ [e]) with ((p1 ++ IStart i c' t1 :: p2) ++ [e]) in *
      by (rewrite <- app_assoc; reflexivity).
    pose proof (live_prefix _ _ He) as Hp. rewrite M_snoc, s_live5 by exact Hp.
    assert (IH' : assoc2 (live5 (M (p1 ++ IStart i c' t1 :: p2))) i = Some (tbl_key tbl c', tbl_loop tbl c')).
    { apply IH; auto; intros; intro; [eapply H1|eapply H2]; apply in_snoc; eauto. }
    destruct e; auto.
    + simpl. destruct (Nat.eqb_spec i0 i); auto. subst. exfalso. eapply H2. apply in_snoc. eauto.
    + rewrite assoc2_filter; auto. intros ->. eapply H1. apply in_snoc. eauto.
Qed.

Lemma succ_mono m e k : ended5 m = false -> mem k (succ5 m) = true -> mem k (succ5 (m5_step tbl m e)) = true.
Proof.
  intros He H. rewrite s_succ5 by exact He. destruct e; auto. destruct r; auto.
  destruct (assoc2 (live5 m) i) as [[k0 l0]|]; auto. rewrite mem_cons, H. apply orb_true_r.
Qed.

Lemma succ_mono_fold k : forall post pre, ended5 (M (pre ++ post)) = false ->
  mem k (succ5 (M pre)) = true -> mem k (succ5 (M (pre ++ post))) = true.
Proof.
  induction post as [|e post IH]; intros pre He H.
  - rewrite app_nil_r. exact H.
  - replace (pre ++ e :: post) with ((pre ++ [e]) ++ post) in * by (rewrite <- app_assoc; reflexivity).
    apply IH; auto. rewrite M_snoc. apply succ_mono; auto.
    apply live_prefix in He. apply live_prefix in He. exact He.
Qed.

Lemma F_succ pre k : ended5 (M pre) = false -> succeeded tbl pre k -> mem k (succ5 (M pre)) = true.
Proof.
  intros He (p1 & i & c' & t1 & p2 & t2 & p3 & -> & Hk & H1 & H2).
  replace (p1 ++ IStart i c' t1 :: p2 ++ IEnd i 0 t2 :: p3)
    with (((p1 ++ IStart i c' t1 :: p2) ++ [IEnd i 0 t2]) ++ p3) in *
    by (rewrite <- !app_assoc; reflexivity).
  apply succ_mono_fold; auto. pose proof (live_prefix _ _ He) as He1. pose proof (live_prefix _ _ He1) as He2.
  rewrite M_snoc, s_succ5 by exact He2. rewrite F_live2 by auto. rewrite mem_cons, Hk, Nat.eqb_refl. reflexivity.
Qed.

Lemma F_host pre : ended5 (M pre) = false ->
  forall k l, In (k, l) (host5 (M pre)) ->
  exists i c' t', In (IStart i c' t') pre /\ tbl_key tbl c' = k /\ tbl_loop tbl c' = l.
Proof.
  revert pre. apply (M_ind (fun pre => forall k l, In (k, l) (host5 (M pre)) ->
    exists i c' t', In (IStart i c' t') pre /\ tbl_key tbl c' = k /\ tbl_loop tbl c' = l));
    [intros k l H; contradiction|]. intros pre e He He' IH k l.
  rewrite M_snoc, s_host5 by exact He.
  assert (Old : In (k, l) (host5 (M pre)) ->
    exists i c' t', In (IStart i c' t') (pre ++ [e]) /\ tbl_key tbl c' = k /\ tbl_loop tbl c' = l).
  { intros H. destruct (IH _ _ H) as (i & c' & t' & Hi & Hr). exists i, c', t'. split; auto. apply in_snoc. auto. }
  destruct e; auto. intros [H|H]; auto. injection H as <- <-. exists i, c, tick. split; auto. apply in_snoc. auto.
Qed.

(* last stop of a loop *)
Definition last_stop (pre : list ev) (l : nat) (d : N) : Prop :=
  exists q1 w q2, pre = q1 ++ LoopEv l w :: q2 /\ (w = 0 \/ w = 2) /\ d = clock q1
    /\ (forall w', In (LoopEv l w') q2 -> w' <> 0 /\ w' <> 2).

Lemma last_stop_snoc pre e l d : (forall w, e = LoopEv l w -> w <> 0 /\ w <> 2) ->
  last_stop pre l d -> last_stop (pre ++ [e]) l d.
Proof.
  intros Hne (q1 & w & q2 & -> & Hw & Hd & Hno). exists q1, w, (q2 ++ [e]). rewrite <- app_assoc.
  repeat split; auto; apply in_snoc in H as [H|H]; try (apply (Hno _ H)); apply (Hne w'); auto.
Qed.

Lemma F_stop pre : ended5 (M pre) = false ->
  forall l d, assocN (stop5 (M pre)) l = Some d -> last_stop pre l d.
Proof.
  revert pre. apply (M_ind (fun pre => forall l d, assocN (stop5 (M pre)) l = Some d -> last_stop pre l d));
    [intros l d H; discriminate|]. intros pre e He He' IH l d.
  rewrite M_snoc, s_stop5 by exact He.
  destruct e; try (intros H; apply last_stop_snoc; [intros; discriminate|auto]; fail).
  assert (New : forall x, x = 0 \/ x = 2 -> assocN ((t, now5 (M pre)) :: stop5 (M pre)) l = Some d ->
                          last_stop (pre ++ [LoopEv t x]) l d).
  { intros x Hx. simpl. destruct (Nat.eqb_spec t l).
    - intros H. injection H as <-. subst. exists pre, x, []. repeat split; auto; try contradiction. apply F_now. exact He.
    - intros H. apply last_stop_snoc; auto. intros w0 Hq. congruence. }
  destruct w as [|[|[|w]]]; auto.
  - intros H. apply last_stop_snoc; auto. intros w0 Hq. injection Hq as _ <-. split; discriminate.
  - intros H. apply last_stop_snoc; auto. intros w0 Hq. injection Hq as _ <-. split; discriminate.
Qed.

Definition dt_f (m : m5) (k : nat) (acc : option N) (h : nat * nat) : option N :=
  if fst h =? k then
    match assocN (stop5 m) (snd h) with
    | Some d => match acc with Some a => Some (N.max a d) | None => Some d end
    | None => acc
    end
  else acc.

Lemma F_dead m k d : deadtick m k = Some d -> exists l, In (k, l) (host5 m) /\ assocN (stop5 m) l = Some d.
Proof.
  unfold deadtick. change (fold_left _ (host5 m) None) with (fold_left (dt_f m k) (host5 m) None).
  assert (G : forall hs acc, fold_left (dt_f m k) hs acc = Some d ->
                             acc = Some d \/ exists l, In (k, l) hs /\ assocN (stop5 m) l = Some d).
  { induction hs as [|h r IH]; intros acc H; simpl in H; auto.
    destruct (IH _ H) as [Ha | (l & Hi & Hl)]; [|right; exists l; split; auto; right; auto].
    unfold dt_f in Ha. destruct h as [hk hl]. simpl in Ha.
    destruct (Nat.eqb_spec hk k); auto. subst hk.
    destruct (assocN (stop5 m) hl) as [d0|] eqn:Hd0; auto.
    destruct acc as [a|].
    - injection Ha as Ha. destruct (N.max_spec a d0) as [[_ Hm]|[_ Hm]]; rewrite Hm in Ha; subst.
      + right. exists hl. split; [left; reflexivity|auto].
      + left. reflexivity.
    - injection Ha as <-. right. exists hl. split; [left; reflexivity|auto]. }
  intros H. destruct (G _ _ H) as [Hx|Hx]; [discriminate|exact Hx].
Qed.

Lemma ended_of_End pre r : In (End r) pre -> ended5 (M pre) = true.
Proof.
  intros H. apply in_split in H as (p1 & p2 & ->).
  replace (p1 ++ End r :: p2) with ((p1 ++ [End r]) ++ p2) by (rewrite <- app_assoc; reflexivity).
  rewrite M_app. apply ended_fold. rewrite M_snoc.
  destruct (ended5 (M p1)) eqn:He; [apply ended_sticky; exact He|]. rewrite s_ended5 by exact He. reflexivity.
Qed.
End Spec.

Lemma ok_C05_M n tbl tr : ok_C05 n tbl tr = true -> ok5 (M tbl n tr) = true /\ ended5 (M tbl n tr) = true.
Proof. unfold ok_C05. intros H. apply andb_prop in H. exact H. Qed.

(* 1. the run ended with "every thread finished" (no deadlock, step bound, hang), and nothing unclassifiable happened *)
Lemma ok_C05_ends_with_End0 n tbl tr : ok_C05 n tbl tr = true ->
  exists pre, tr = pre ++ [End 0] /\ (forall r, ~ In (End r) pre).
Proof.
  intros H. apply ok_C05_M in H as [Hok Hen].
  destruct tr as [|e pre _] using rev_ind; [discriminate|].
  rewrite M_snoc in *. destruct (ok_back1 _ _ _ Hok) as [Hok' He].
  rewrite s_ended5 in Hen by exact He. rewrite s_ok5 in Hok by exact He.
  destruct e; try discriminate. apply andb_prop in Hok as [_ Hr]. apply Nat.eqb_eq in Hr. subst.
  exists pre. split; auto. intros r Hin. rewrite (ended_of_End _ _ _ _ Hin) in He. discriminate.
Qed.

Lemma ok_C05_no_bad n tbl tr : ok_C05 n tbl tr = true -> forall b, ~ In (Bad b) tr.
Proof.
  intros H b Hin. apply ok_C05_M in H as [Hok _]. apply in_split in Hin as (p1 & p2 & ->).
  destruct (prefix_ok _ _ _ _ _ _ Hok eq_refl) as (_ & He & Hs). rewrite s_ok5 in Hs by exact He. discriminate.
Qed.

(* 2. when the shutdown run of a loop is over, every started call of that loop has been answered *)
Lemma ok_C05_shutdown_answers n tbl tr : ok_C05 n tbl tr = true ->
  forall pre t post, tr = pre ++ LoopEv t 2 :: post ->
  forall t0 c, In (Get t0 c) pre -> tbl_loop tbl c = t -> exists k p tk, In (Done c k p tk) pre.
Proof.
  intros H pre t post Htr t0 c Hin Hl. apply ok_C05_M in H as [Hok _].
  destruct (prefix_ok _ _ _ _ _ _ Hok Htr) as (_ & He & Hs). rewrite s_ok5 in Hs by exact He.
  apply andb_prop in Hs as [_ Hs]. destruct (F_st1 _ _ _ He _ _ Hin) as (t1 & H1).
  rewrite forallb_forall in Hs. specialize (Hs _ H1). simpl in Hs. rewrite Hl, Nat.eqb_refl in Hs. simpl in Hs.
  eapply F_fin; eauto.
Qed.

(* 3. time can only pass with a call pending if a computation of its key is in flight and none has succeeded yet,
      or a loop that hosted its key died at most 60 s (61440 ticks) before (or the call itself is that young) *)
Lemma ok_C05_accounted n tbl tr : ok_C05 n tbl tr = true ->
  forall pre tick post, tr = pre ++ Adv tick :: post ->
  forall c, pending tbl n pre c ->
    (~ succeeded tbl pre (tbl_key tbl c) /\ in_flight tbl pre (tbl_key tbl c))
    \/ exists t1 d, first_tick pre c t1 /\ host_died tbl pre (tbl_key tbl c) d
                    /\ (tick <= N.max t1 d + 61440)%N.
Proof.
  intros H pre tick post Htr c ((t0 & Hget) & Hnd & Hnc & Hlt & Hns). apply ok_C05_M in H as [Hok _].
  destruct (prefix_ok _ _ _ _ _ _ Hok Htr) as (_ & He & Hs). rewrite s_ok5 in Hs by exact He.
  apply andb_prop in Hs as [_ Hs]. destruct (F_st1 _ _ _ He _ _ Hget) as (t1 & H1).
  rewrite forallb_forall in Hs. specialize (Hs _ H1). unfold accounted in Hs. simpl fst in Hs. simpl snd in Hs.
  assert (Hf : mem c (fin5 (M tbl n pre)) = false).
  { destruct (mem c (fin5 (M tbl n pre))) eqn:Hm; auto. exfalso.
    destruct (F_fin _ _ _ He _ Hm) as (k & p & t & Hi). eapply Hnd; eauto. }
  assert (Hc : mem c (canc5 (M tbl n pre)) = false).
  { destruct (mem c (canc5 (M tbl n pre))) eqn:Hm; auto. exfalso.
    destruct (F_canc _ _ _ He _ Hm) as (t & Hi). eapply Hnc; eauto. }
  assert (Hr : running5 (M tbl n pre) (tbl_loop tbl c) = true) by (apply F_run; auto).
  rewrite Hf, Hc, Hr in Hs. simpl in Hs. apply orb_prop in Hs as [Hs|Hs].
  - left. apply andb_prop in Hs as [Hsu Hex]. split.
    + intros Hsucc. rewrite (F_succ _ _ _ _ He Hsucc) in Hsu. discriminate.
    + apply existsb_exists in Hex as ([i [k l]] & Hin & Hx). simpl in Hx. apply andb_prop in Hx as [Hk Hrun].
      apply Nat.eqb_eq in Hk. subst k.
      destruct (F_live _ _ _ He _ _ _ Hin) as (p1 & c' & t1' & p2 & Hpre & Hk & Hl & Hno).
      exists p1, i, c', t1', p2. repeat split; auto. subst l. apply (F_run _ _ _ He) in Hrun. apply Hrun.
  - right. destruct (deadtick (M tbl n pre) (tbl_key tbl c)) as [d|] eqn:Hd; [|discriminate].
    exists t1, d. split; [eapply F_st2; eauto|]. split; [|apply N.leb_le in Hs; exact Hs].
    destruct (F_dead _ _ _ Hd) as (l & Hh & Ha).
    destruct (F_host _ _ _ He _ _ Hh) as (i & c' & t' & Hi & Hk & Hl).
    destruct (F_stop _ _ _ He _ _ Ha) as (q1 & w & q2 & Hpre & Hw & Hdd & Hlast).
    exists i, c', t', q1, w, q2. rewrite Hl. auto 10.
Qed.

(* 4. promptness: while the loops that hosted its key stay alive, time passes with a call pending only if no
      computation of its key has succeeded yet and one is genuinely in flight on a running loop *)
Lemma ok_C05_prompt n tbl tr : ok_C05 n tbl tr = true ->
  forall pre tick post, tr = pre ++ Adv tick :: post ->
  forall c, pending tbl n pre c ->
  (forall i c' t', In (IStart i c' t') pre -> tbl_key tbl c' = tbl_key tbl c ->
                   ~ In (LoopEv (tbl_loop tbl c') 0) pre /\ ~ In (LoopEv (tbl_loop tbl c') 2) pre) ->
  ~ succeeded tbl pre (tbl_key tbl c) /\ in_flight tbl pre (tbl_key tbl c).
Proof.
  intros H pre tick post Htr c Hp Hal.
  destruct (ok_C05_accounted _ _ _ H _ _ _ Htr _ Hp) as [Hs | (t1 & d & _ & Hd & _)]; auto. exfalso.
  destruct Hd as (i & c' & t' & q1 & w & q2 & Hi & Hk & Hpre & Hw & _).
  destruct (Hal _ _ _ Hi Hk) as [H0 H2].
  assert (Hin : In (LoopEv (tbl_loop tbl c') w) pre) by (rewrite Hpre; apply in_elt).
  destruct Hw as [-> | ->]; auto.
Qed.

(* 5. rescue: a pending call with nothing of its key in flight on a running loop (or with a success already
      recorded) sees time pass only within 60 s of the later of its own first tick and the last death of a
      loop that hosted its key *)
Lemma ok_C05_rescue n tbl tr : ok_C05 n tbl tr = true ->
  forall pre tick post, tr = pre ++ Adv tick :: post ->
  forall c, pending tbl n pre c ->
  (~ in_flight tbl pre (tbl_key tbl c) \/ succeeded tbl pre (tbl_key tbl c)) ->
  exists t1 d, first_tick pre c t1 /\ host_died tbl pre (tbl_key tbl c) d /\ (tick <= N.max t1 d + 61440)%N.
Proof.
  intros H pre tick post Htr c Hp Hno.
  destruct (ok_C05_accounted _ _ _ H _ _ _ Htr _ Hp) as [[Hs Hf] | Hw]; auto. exfalso. tauto.
Qed.

(* ---- non-vacuity ---- *)
(* one loop, two calls of key 0: call 0 computes, call 1 waits; 5 ticks pass while the computation is in flight *)
Definition ex_pre : list ev :=
  [Get 0 0; Miss 0 0; Acq 0 0; Get 0 0; Miss 0 0; Rel 0 0; IStart 0 0 0%N;
   Get 0 1; Miss 0 1; Acq 0 1; Get 0 1; Miss 0 1; Rel 0 1].
Definition ex_post : list ev :=
  [IEnd 0 0 5%N; SetC 0 0; Acq 0 0; Rel 0 0; Done 0 0 0 5%N; Get 0 1; Done 1 0 0 5%N; LoopEv 0 0; End 0].

Example ex_accepted : ok_C05 1 [(0,0); (0,0)] (ex_pre ++ Adv 5%N :: ex_post) = true.
Proof. vm_compute. reflexivity. Qed.

Example ex_pending : pending [(0,0); (0,0)] 1 ex_pre 1
  /\ (forall i c' t', In (IStart i c' t') ex_pre -> tbl_key [(0,0); (0,0)] c' = tbl_key [(0,0); (0,0)] 1 ->
        ~ In (LoopEv (tbl_loop [(0,0); (0,0)] c') 0) ex_pre /\ ~ In (LoopEv (tbl_loop [(0,0); (0,0)] c') 2) ex_pre).
Proof.
  unfold pending, ex_pre. repeat split; try (intros; simpl; intuition discriminate).
  - exists 0. simpl. auto 20.
  - vm_compute. lia.
Qed.

(* hence (ok_C05_prompt): at that Adv nothing of key 0 has succeeded and an invocation of key 0 is in flight *)
Example ex_prompt : ~ succeeded [(0,0); (0,0)] ex_pre 0 /\ in_flight [(0,0); (0,0)] ex_pre 0.
Proof.
  destruct ex_pending as [Hp Hh].
  exact (ok_C05_prompt 1 [(0,0); (0,0)] _ ex_accepted ex_pre 5%N ex_post eq_refl 1 Hp Hh).
Qed.

(* rejected: the computation ended, the waiter was not answered, and time passes (a lost wake-up) *)
Example ex_lost_wakeup :
  ok_C05 1 [(0,0); (0,0)]
    (ex_pre ++ [IEnd 0 0 0%N; SetC 0 0; Acq 0 0; Rel 0 0; Done 0 0 0 0%N; Adv 5%N;
                Get 0 1; Done 1 0 0 5%N; LoopEv 0 0; End 0]) = false.
Proof. vm_compute. reflexivity. Qed.

(* rejected: a shutdown run that ends while a started call of the loop is unanswered; a run without End 0 *)
Example ex_shutdown_unanswered :
  ok_C05 1 [(0,0)] [Get 0 0; LoopEv 0 0; LoopEv 0 1; LoopEv 0 2; LoopEv 0 3; End 0] = false
  /\ ok_C05 1 [(0,0)] [Get 0 0; LoopEv 0 0; LoopEv 0 1; Done 0 2 0 0%N; LoopEv 0 2; LoopEv 0 3; End 0] = true
  /\ ok_C05 1 [(0,0)] [Get 0 0] = false.
Proof. repeat split; vm_compute; reflexivity. Qed.

(* the rescue window: loop 1 hosts the computation and dies at tick 0; the waiter on loop 0 may sit for
   60 s (61440 ticks) but not longer *)
Example ex_window :
  let pre := [Get 1 0; IStart 0 0 0%N; Get 0 1; LoopEv 1 0] in
  ok_C05 2 [(1,0); (0,0)] (pre ++ [Adv 61440%N; Get 0 1; Done 1 0 0 61440%N; LoopEv 0 0; End 0]) = true
  /\ ok_C05 2 [(1,0); (0,0)] (pre ++ [Adv 61441%N; Get 0 1; Done 1 0 0 61441%N; LoopEv 0 0; End 0]) = false.
Proof. split; vm_compute; reflexivity. Qed.
